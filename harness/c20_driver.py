"""C20 driver: the secondary formats (Hammer command sequences, choreo scenes as text / binary /
scenes.image, soundscripts, VMT materials, PCF particle systems, SMD meshes) executed on the real
srctools code.  Values travel as projections (JSON records of strings, booleans, integers and
lists; floats as repr() strings); TLC (SecondaryTrace) judges every record.

Modes (argv[1]):
  cases <cases.json> <out>     every case TLC enumerated: build through the API, write, read, write again
  random <out>                 seeded random values beyond the enumerated bounds
  samples <out>                sample files under /repo/tests as Read; Write; Read traces
  image <edges.json> [lo hi] <out>   every transition (or the slice lo:hi) of the scenes.image container model, replayed by its BFS path
  replay <replay.json> <out>
"""
from __future__ import annotations

import hashlib
import io
import json
import os
import random
import struct
import sys

from vlib import hlib

hlib.require_repo_src()
import srctools  # noqa: E402
from srctools import binformat, choreo, cmdseq, particles, smd, sndscript, vmt  # noqa: E402
from srctools.choreo import (  # noqa: E402
    AbsoluteTag, Actor, CaptionType, Channel, Curve, CurveEdge, CurveType, Entry, Event, EventFlags, EventType,
    ExpressionSample, FlexAnimTrack, GestureEvent, Interpolation, LoopEvent, Scene, SpeakEvent, Tag, TimingTag,
)
from srctools.dmx import Attribute, Element, ValueType  # noqa: E402
from srctools.keyvalues import Keyvalues  # noqa: E402
from srctools.math import Angle, Vec  # noqa: E402
from srctools.tokenizer import Tokenizer  # noqa: E402

# the sample files live in the repository's tests directory (also when VERIF_SRC points at a mutated copy of src/)
REPO = '/repo' if os.path.isdir('/repo/tests') else os.path.dirname(os.path.dirname(os.path.dirname(os.path.realpath(srctools.__file__))))


def fl(x) -> str:
    return repr(float(x))


def sha(data) -> str:
    if isinstance(data, str):
        data = data.encode('utf8', 'surrogatepass')
    return hashlib.sha1(data).hexdigest()[:16]


# =========================================================================== command sequences
def proj_cmdseq(seqs: dict) -> dict:
    out = []
    for name, cmds in seqs.items():
        out.append({'name': name, 'cmds': [{
            'exe': c.exe if isinstance(c.exe, str) else '', 'special': 0 if isinstance(c.exe, str) else c.exe.value,
            'args': c.args, 'enabled': bool(c.enabled), 'ensure_set': c.ensure_file is not None, 'ensure': c.ensure_file or '',
            'use_proc_win': bool(c.use_proc_win), 'no_wait': bool(c.no_wait)} for c in cmds]})
    return {'seqs': out}


def build_cmdseq(p: dict) -> dict:
    return {s['name']: [cmdseq.Command(
        cmdseq.SpecialCommand(c['special']) if c['special'] else c['exe'], c['args'], enabled=c['enabled'],
        ensure_file=c['ensure'] if c['ensure_set'] else None, use_proc_win=c['use_proc_win'], no_wait=c['no_wait'])
        for c in s['cmds']] for s in p['seqs']}


def io_cmdseq(value):
    buf = io.BytesIO()
    cmdseq.write(value, buf)
    return buf.getvalue()


# =========================================================================== choreo scenes
def p_ctype(c: CurveType) -> list:
    return [c.first.name, c.second.name]


def b_ctype(p) -> CurveType:
    return CurveType(Interpolation[p[0]], Interpolation[p[1]])


def p_samples(lst) -> list:
    return [[fl(s.time), fl(s.value)] + p_ctype(s.curve_type) for s in lst]


def b_samples(lst) -> list:
    return [ExpressionSample(float(t), float(v), b_ctype([a, b])) for t, v, a, b in lst]


def p_edge(e: CurveEdge) -> list:
    return [bool(e.active), fl(e.zero_pos)] + p_ctype(e.curve_type)


def b_edge(p) -> CurveEdge:
    return CurveEdge(p[0], float(p[1]), b_ctype(p[2:]))


def p_curve(c: Curve) -> dict:
    return {'ramp': p_samples(c.ramp), 'left': p_edge(c.left), 'right': p_edge(c.right)}


def b_curve(p) -> Curve:
    return Curve(b_samples(p['ramp']), b_edge(p['left']), b_edge(p['right']))


def p_event(e: Event) -> dict:
    extra = {'dur': '', 'loops': 0, 'cc_type': '', 'cc_token': '', 'combined': False, 'gender': False, 'noatten': False}
    if isinstance(e, GestureEvent):
        extra['dur'] = fl(e.gesture_sequence_duration)
    elif isinstance(e, LoopEvent):
        extra['loops'] = e.loop_count
    elif isinstance(e, SpeakEvent):
        extra.update(cc_type=e.caption_type.name, cc_token=e.cc_token, combined=bool(e.use_combined_file),
                     gender=bool(e.use_gender_token), noatten=bool(e.suppress_caption_attenuation))
    return {
        'name': e.name, 'type': e.type.name, 'flags': e.flags.value, 'params': list(e.parameters),
        'start': fl(e.start_time), 'end': fl(e.end_time), 'ramp': p_curve(e.ramp),
        'tag': [] if e.tag_name is None and e.tag_wav_name is None else [e.tag_name or '', e.tag_wav_name or ''],
        'dist': fl(e.dist_to_targ),
        'rel': [[t.name, fl(t.value)] for t in e.relative_tags],
        'timing': [[t.name, fl(t.value), bool(t.locked)] for t in e.timing_tags],
        'absp': [[t.name, fl(t.value)] for t in e.absolute_playback_tags],
        'abss': [[t.name, fl(t.value)] for t in e.absolute_shifted_tags],
        'flex': [{'name': f.name, 'active': bool(f.active), 'min': fl(f.min), 'max': fl(f.max), 'mag': p_samples(f.mag_track),
                  'combo': f.dir_track is not None, 'dir': p_samples(f.dir_track or []),
                  'left': p_edge(f.left), 'right': p_edge(f.right)} for f in e.flex_anim_tracks],
        'dcurve': p_ctype(e.default_curve_type), 'pitch': e.pitch, 'yaw': e.yaw, **extra,
    }


def b_event(p) -> Event:
    common = dict(
        name=p['name'], flags=EventFlags(p['flags']), parameters=tuple(p['params']), start_time=float(p['start']),
        end_time=float(p['end']), ramp=b_curve(p['ramp']),
        tag_name=p['tag'][0] if p['tag'] else None, tag_wav_name=p['tag'][1] if p['tag'] else None,
        dist_to_targ=float(p['dist']),
        relative_tags=[Tag(n, float(v)) for n, v in p['rel']],
        timing_tags=[TimingTag(n, float(v), lk) for n, v, lk in p['timing']],
        absolute_playback_tags=[AbsoluteTag(n, float(v)) for n, v in p['absp']],
        absolute_shifted_tags=[AbsoluteTag(n, float(v)) for n, v in p['abss']],
        flex_anim_tracks=[FlexAnimTrack(f['name'], f['active'], float(f['min']), float(f['max']), b_samples(f['mag']),
                                        b_samples(f['dir']) if f['combo'] else None, b_edge(f['left']), b_edge(f['right']))
                          for f in p['flex']],
        default_curve_type=b_ctype(p['dcurve']), pitch=p['pitch'], yaw=p['yaw'],
    )
    typ = EventType[p['type']]
    if typ is EventType.Gesture:
        return GestureEvent(gesture_sequence_duration=float(p['dur'] or 0), **common)
    if typ is EventType.Loop:
        return LoopEvent(loop_count=p['loops'], **common)
    if typ is EventType.Speak:
        return SpeakEvent(caption_type=CaptionType[p['cc_type']], cc_token=p['cc_token'], use_combined_file=p['combined'],
                          use_gender_token=p['gender'], suppress_caption_attenuation=p['noatten'], **common)
    return Event(type=typ, **common)


def proj_scene(s: Scene) -> dict:
    return {
        'events': [p_event(e) for e in s.events],
        'actors': [{'name': a.name, 'active': bool(a.active), 'model': a.faceposer_model,
                    'channels': [{'name': c.name, 'active': bool(c.active), 'events': [p_event(e) for e in c.events]}
                                 for c in a.channels]} for a in s.actors],
        'ramp': p_curve(s.ramp), 'ignore': bool(s.ignore_phonemes), 'crc': str(s.text_crc), 'map': s.map_name,
        'fps': s.fps, 'snap': bool(s.use_frame_snap), 'scale': [[k, v] for k, v in s.scale_settings.items()],
        'zoom': [[k, v] for k, v in s.time_zoom_lookup.items()],
    }


def build_scene(p) -> Scene:
    return Scene(
        events=[b_event(e) for e in p['events']],
        actors=[Actor(a['name'], a['active'], [Channel(c['name'], c['active'], [b_event(e) for e in c['events']])
                                               for c in a['channels']], a['model']) for a in p['actors']],
        ramp=b_curve(p['ramp']), ignore_phonemes=p['ignore'], text_crc=int(p['crc']), map_name=p['map'], fps=p['fps'],
        use_frame_snap=p['snap'], scale_settings={k: v for k, v in p['scale']}, time_zoom_lookup={k: v for k, v in p['zoom']},
    )


def io_vcd(scene: Scene) -> str:
    buf = io.StringIO()
    scene.export_text(buf)
    return buf.getvalue()


def io_bvcd(scene: Scene):
    pool: list[str] = []
    data = scene.export_binary(binformat.find_or_insert(pool, lambda x: x))
    return data, pool


# =========================================================================== soundscripts
def p_snd_val(v) -> str:
    if isinstance(v, (sndscript.VOLUME, sndscript.Level, sndscript.Pitch)):
        return v.name
    return fl(v)


def b_snd_val(s: str, kind: str):
    if s == 'VOL_NORM':
        return sndscript.VOL_NORM
    if s.startswith('SNDLVL_'):
        return sndscript.Level[s]
    if s.startswith('PITCH_'):
        return sndscript.Pitch[s]
    return float(s)


def p_stack(kv) -> list:
    out = []

    def walk(node, depth):
        for child in node:
            if child.has_children():
                out.append([depth, child.real_name, '', True])
                walk(child, depth + 1)
            else:
                out.append([depth, child.real_name, child.value, False])
    if kv is not None:
        walk(kv, 0)
    return out


def b_stack(name: str, flat: list):
    if not flat:
        return None
    root = Keyvalues(name, [])
    stack = [root]
    for depth, nm, val, is_block in flat:
        del stack[depth + 1:]
        node = Keyvalues(nm, [] if is_block else val)
        stack[-1].append(node)
        if is_block:
            stack.append(node)
    return root


def proj_sound(s: sndscript.Sound) -> dict:
    stacks = [p_stack(s._stack_start), p_stack(s._stack_update), p_stack(s._stack_stop)]
    return {'name': s.name, 'sounds': list(s.sounds), 'volume': [p_snd_val(v) for v in s.volume],
            'channel': s.channel.value if isinstance(s.channel, sndscript.Channel) else str(s.channel),
            'level': [p_snd_val(v) for v in s.level], 'pitch': [p_snd_val(v) for v in s.pitch],
            'force': bool(s.force_v2), 'stacks': stacks}


def build_sound(p) -> sndscript.Sound:
    chan = sndscript.Channel(p['channel']) if p['channel'].startswith('CHAN_') else int(p['channel'])
    return sndscript.Sound(
        p['name'], list(p['sounds']), tuple(b_snd_val(v, 'vol') for v in p['volume']), chan,
        tuple(b_snd_val(v, 'lvl') for v in p['level']), tuple(b_snd_val(v, 'pitch') for v in p['pitch']),
        b_stack('start_stack', p['stacks'][0]), b_stack('update_stack', p['stacks'][1]), b_stack('stop_stack', p['stacks'][2]),
        p['force'],
    )


def io_sound(s: sndscript.Sound) -> str:
    buf = io.StringIO()
    s.export(buf)
    return buf.getvalue()


# =========================================================================== materials
def proj_vmt(m: vmt.Material) -> dict:
    return {'shader': m.shader, 'params': [[v.name, v.value] for v in m._params.values()],
            'blocks': [[b.real_name, p_stack(b) if b.has_children() else [[0, '', b.value, False]]] for b in m.blocks],
            'proxies': [[b.real_name, p_stack(b)] for b in m.proxies]}


def build_vmt(p) -> vmt.Material:
    return vmt.Material(p['shader'], {k: v for k, v in p['params']},
                        [b_stack(n, flat) or Keyvalues(n, []) for n, flat in p['blocks']],
                        [b_stack(n, flat) or Keyvalues(n, []) for n, flat in p['proxies']])


def io_vmt(m: vmt.Material) -> str:
    buf = io.StringIO()
    m.export(buf)
    return buf.getvalue()


# =========================================================================== particle systems
def p_attr(a: Attribute) -> list:
    if a.is_array:
        return [a.name, a.type.name, 'array', repr([str(x) for x in a.iter_str()])]
    return [a.name, a.type.name, '', a.val_str]


def b_attr(p) -> Attribute:
    name, typ, arr, val = p
    t = ValueType[typ]
    if t is ValueType.INTEGER:
        return Attribute.int(name, int(val))
    if t is ValueType.FLOAT:
        return Attribute.float(name, float(val))
    if t is ValueType.BOOL:
        return Attribute.bool(name, val == '1')
    if t is ValueType.STRING:
        return Attribute.string(name, val)
    if t is ValueType.VEC3:
        return Attribute.vec3(name, *map(float, val.split()))
    if t is ValueType.COLOR:
        return Attribute.color(name, *map(int, val.split()))
    raise ValueError(p)


OP_KINDS = ['renderers', 'operators', 'initializers', 'emitters', 'forces', 'constraints']


def proj_pcf(systems: dict) -> dict:
    return {'systems': [{
        'key': key, 'name': s.name, 'options': [p_attr(a) for a in s.options.values()],
        **{kind: [{'name': o.name, 'function': o.function, 'options': [p_attr(a) for a in o.options.values()]}
                  for o in getattr(s, kind)] for kind in OP_KINDS},
        'children': [c.particle for c in s.children]} for key, s in systems.items()]}


def build_pcf(p) -> dict:
    out = {}
    for s in p['systems']:
        out[s['key']] = particles.Particle(
            s['name'], {a[0].casefold(): b_attr(a) for a in s['options']},
            *[[particles.Operator(o['name'], o['function'], {a[0].casefold(): b_attr(a) for a in o['options']})
               for o in s[kind]] for kind in OP_KINDS],
            [particles.Child(c) for c in s['children']])
    return out


def io_pcf(systems: dict) -> bytes:
    root = particles.Particle.export(list(systems.values()))
    buf = io.BytesIO()
    root.export_binary(buf, fmt_name=particles.FORMAT_NAME, fmt_ver=particles.FORMAT_VERSION)
    return buf.getvalue()


# =========================================================================== SMD meshes
def proj_smd(m: smd.Mesh) -> dict:
    return {
        'bones': sorted([b.name, b.parent.name if b.parent is not None else ''] for b in m.bones.values()),
        'keys': sorted(m.bones),
        'frames': [[t, [[f.bone.name] + [fl(x) for x in f.position] + [fl(x) for x in f.rotation] for f in frame]]
                   for t, frame in sorted(m.animation.items())],
        'tris': [[t.mat, [[fl(v.pos.x), fl(v.pos.y), fl(v.pos.z), fl(v.norm.x), fl(v.norm.y), fl(v.norm.z), fl(v.tex_u), fl(v.tex_v),
                           [[b.name, fl(w)] for b, w in v.links]] for v in t]] for t in m.triangles],
    }


def build_smd(p) -> smd.Mesh:
    bones: dict = {}
    todo = list(p['bones'])
    while todo:
        for item in list(todo):
            name, parent = item
            if parent == '' or parent in bones:
                bones[name] = smd.Bone(name, bones[parent] if parent else None)
                todo.remove(item)
    anim = {t: [smd.BoneFrame(bones[f[0]], Vec(*map(float, f[1:4])), Angle(*map(float, f[4:7]))) for f in frame]
            for t, frame in p['frames']}
    tris = [smd.Triangle(mat, *[smd.Vertex(Vec(*map(float, v[0:3])), Vec(*map(float, v[3:6])), float(v[6]), float(v[7]),
                                           [(bones[b], float(w)) for b, w in v[8]]) for v in verts])
            for mat, verts in p['tris']]
    return smd.Mesh(bones, anim, tris)


def io_smd(m: smd.Mesh) -> bytes:
    buf = io.BytesIO()
    m.export(buf)
    return buf.getvalue()


# =========================================================================== one round trip
def read_back(fmt: str, data, extra=None):
    if fmt == 'cmdseq':
        return proj_cmdseq(cmdseq.parse(io.BytesIO(data)))
    if fmt == 'vcd':
        return proj_scene(Scene.parse_text(Tokenizer(data)))
    if fmt == 'bvcd':
        return proj_scene(Scene.parse_binary(io.BytesIO(data), extra))
    if fmt == 'snd':
        sounds = sndscript.Sound.parse(Keyvalues.parse(data))
        if len(sounds) != 1:
            raise ValueError(f'{len(sounds)} sounds parsed')
        return proj_sound(next(iter(sounds.values())))
    if fmt == 'vmt':
        return proj_vmt(vmt.Material.parse(data))
    if fmt == 'pcf':
        return proj_pcf(particles.Particle.parse(io.BytesIO(data)))
    if fmt == 'smd':
        return proj_smd(smd.Mesh.parse_smd(data.splitlines(keepends=True)))
    raise ValueError(fmt)


BUILD = {'cmdseq': build_cmdseq, 'vcd': build_scene, 'bvcd': build_scene, 'snd': build_sound, 'vmt': build_vmt,
         'pcf': build_pcf, 'smd': build_smd}
PROJ = {'cmdseq': proj_cmdseq, 'vcd': proj_scene, 'bvcd': proj_scene, 'snd': proj_sound, 'vmt': proj_vmt,
        'pcf': proj_pcf, 'smd': proj_smd}


def write_out(fmt: str, value):
    """-> (data, extra for the reader)"""
    if fmt == 'cmdseq':
        return io_cmdseq(value), None
    if fmt == 'vcd':
        return io_vcd(value), None
    if fmt == 'bvcd':
        return io_bvcd(value)
    if fmt == 'snd':
        return io_sound(value), None
    if fmt == 'vmt':
        return io_vmt(value), None
    if fmt == 'pcf':
        return io_pcf(value), None
    if fmt == 'smd':
        return io_smd(value), None
    raise ValueError(fmt)


import re as _re

_PLACE = _re.compile(r'\{([0-9a-f]{2,6})\}')


def conc(obj):
    """The model writes a character outside ASCII as {hex}; substitute the character itself."""
    if isinstance(obj, str):
        return _PLACE.sub(lambda m: chr(int(m.group(1), 16)), obj)
    if isinstance(obj, dict):
        return {conc(k): conc(v) for k, v in obj.items()}
    if isinstance(obj, list):
        return [conc(v) for v in obj]
    return obj


def char_class(obj) -> str:
    """Widest class of character in the strings of a projection: ascii < latin1 < wide."""
    order = ['ascii', 'latin1', 'wide']
    if isinstance(obj, str):
        top = max(map(ord, obj), default=0)
        return 'ascii' if top < 0x80 else 'latin1' if top < 0x100 else 'wide'
    if isinstance(obj, dict):
        return max((char_class(v) for v in obj.values()), key=order.index, default='ascii')
    if isinstance(obj, list):
        return max((char_class(v) for v in obj), key=order.index, default='ascii')
    return 'ascii'


def is_ascii(obj) -> bool:
    if isinstance(obj, str):
        return obj.isascii()
    if isinstance(obj, dict):
        return all(is_ascii(v) for v in obj.values())
    if isinstance(obj, list):
        return all(is_ascii(v) for v in obj)
    return True


def roundtrip(fmt: str, p: dict, src: str, feat: str = '') -> dict:
    """Build the value a projection describes, write it, read it, write what was read."""
    rec = {'k': 'rt', 'fmt': fmt, 'orig': p, 'err': '', 'h1': '', 'h2': '', 'size': 0, 'ascii': is_ascii(p), 'chars': char_class(p), 'feat': feat,
           'sig': {'kind': fmt, 'action': 'roundtrip', 'src': src, 'feat': feat}}
    try:
        value = BUILD[fmt](p)
    except Exception as exc:
        rec['err'] = 'build:' + type(exc).__name__
        return rec
    built = PROJ[fmt](value)
    if built != p:
        diff = [k for k in p if built.get(k) != p[k]]
        raise SystemExit(f'MACHINERY: built {fmt} value differs from the case in {diff}: {json.dumps(built)[:400]} vs {json.dumps(p)[:400]}')
    try:
        data, extra = write_out(fmt, value)
    except Exception as exc:
        rec['err'] = 'write:' + type(exc).__name__
        return rec
    rec['h1'] = sha(data)
    rec['size'] = len(data)
    try:
        back_val = None
        rec['back'] = read_back(fmt, data, extra)
    except Exception as exc:
        rec['err'] = 'read:' + type(exc).__name__
        rec['msg'] = str(exc).split('\n')[0][:160]
        return rec
    try:
        # second generation: the value that was read, written again
        if fmt == 'cmdseq':
            back_val = cmdseq.parse(io.BytesIO(data))
        elif fmt == 'vcd':
            back_val = Scene.parse_text(Tokenizer(data))
        elif fmt == 'bvcd':
            back_val = Scene.parse_binary(io.BytesIO(data), extra)
        elif fmt == 'snd':
            back_val = next(iter(sndscript.Sound.parse(Keyvalues.parse(data)).values()))
        elif fmt == 'vmt':
            back_val = vmt.Material.parse(data)
        elif fmt == 'pcf':
            back_val = particles.Particle.parse(io.BytesIO(data))
        elif fmt == 'smd':
            back_val = smd.Mesh.parse_smd(data.splitlines(keepends=True))
        data2, _ = write_out(fmt, back_val)
        rec['h2'] = sha(data2)
        if fmt == 'pcf':
            # DMX elements get fresh random UUIDs on every export, so the bytes can never repeat:
            # the second generation is compared as read back
            rec['h1'] = sha(json.dumps(rec['back'], sort_keys=True))
            rec['h2'] = sha(json.dumps(read_back(fmt, data2), sort_keys=True))
    except Exception as exc:
        rec['h2'] = 'write2:' + type(exc).__name__
    return rec


# =========================================================================== scenes.image container
def crc_limbs(crc: int) -> list:
    return [crc >> 16, crc & 0xFFFF]


def decode_image(data: bytes) -> dict:
    """Independent reading of the container's header, entry table and summaries."""
    magic, version, count, nstr, scene_off = struct.unpack_from('<4s4i', data, 0)
    offs = struct.unpack_from(f'<{nstr}i', data, 20)
    pool = []
    for off in offs:
        end = data.index(b'\0', off)
        pool.append(data[off:end].decode('latin1'))
    table = []
    for n in range(count):
        crc, d_off, d_size, s_off = struct.unpack_from('<Iiii', data, scene_off + 16 * n)
        if version == 3:
            dur, last, ns = struct.unpack_from('<Iii', data, s_off)
            idx = struct.unpack_from(f'<{ns}i', data, s_off + 12)
        else:
            dur, ns = struct.unpack_from('<Ii', data, s_off)
            last = -1
            idx = struct.unpack_from(f'<{ns}i', data, s_off + 8)
        table.append({'crc': crc_limbs(crc), 'dur': dur, 'speak': last, 'sounds': [pool[i] for i in idx], 'size': d_size})
    return {'magic': magic.decode('latin1'), 'version': version, 'count': count, 'table': table}


def abs_scene(sc: list) -> dict:
    """The model's abstract scene (events with millisecond times) as a scene projection."""
    events = []
    for j, e in enumerate(sc):
        ev = base_event(f'ev{j}', 'Speak' if e['speak'] else 'Expression', start=fl(e['start'] / 1000.0),
                        end=fl(e['end'] / 1000.0) if e['end'] != -1 else '-1.0', params=[e['p1'], '', ''])
        if e['speak']:
            ev.update(cc_type=e['cc_type'], cc_token=e['cc_token'], combined=e['combined'])
        events.append(ev)
    # one event at top level, the rest inside an actor's channel
    return base_scene(events[:1], [{'name': 'actor', 'active': True, 'model': '', 'channels': [
        {'name': 'chan', 'active': True, 'events': events[1:]}]}] if len(events) > 1 else [])


NAMES = {'k1': ['scenes/npc/Alyx_intro.vcd', 'SCENES\\NPC\\alyx_INTRO.VCD'], 'k2': ['barney/hello.vcd'], 'k3': ['scenes\\z.vcd']}


def own_crc(name: str) -> int:
    """The harness's own reading of the documented rule: lower case, backslashes, under scenes\\, CRC32."""
    import zlib
    norm = name.lower().replace('/', '\\')
    if not norm.startswith('scenes\\'):
        norm = 'scenes\\' + norm
    return zlib.crc32(norm.encode('ascii')) & 0xFFFFFFFF


KEY_OF_CRC = {own_crc(n): k for k, names in NAMES.items() for n in names}


class ImageWorld:
    """A real scenes.image dictionary and saved files, driven by the container model's actions.
    Dictionary keys are reported by the name class (k1..k3) their checksum belongs to."""
    def __init__(self, scenes: dict) -> None:
        self.scenes = scenes       # scene id -> abstract scene
        self.img: dict = {}
        self.slots: dict = {}
        self.scene_of: dict = {}   # id(entry) or data bytes -> scene id

    def project(self) -> dict:
        out = {}
        for crc, e in self.img.items():
            out[KEY_OF_CRC.get(crc, hex(crc))] = {
                'crc': crc_limbs(crc), 'own_crc': crc_limbs(e.checksum), 'dur': e.duration_ms, 'speak': e.last_speak_ms,
                'sounds': list(e.sounds), 'parsed': isinstance(e._data, Scene), 'named': e.filename != ''}
        return out

    def entry_at(self, k: str):
        for crc, e in self.img.items():
            if KEY_OF_CRC.get(crc) == k:
                return crc, e
        raise KeyError(k)

    def apply(self, a: dict) -> dict:
        op = a['op']
        res: dict = {'exc': ''}
        try:
            if op == 'add':
                fname = NAMES[a['k']][a['v'] - 1]
                entry = Entry.from_scene(fname, build_scene(abs_scene(self.scenes[a['s']])))
                self.img[entry.checksum] = entry
                res['want_crc'] = crc_limbs(own_crc(fname))
            elif op == 'drop':
                crc, _ = self.entry_at(a['k'])
                del self.img[crc]
            elif op == 'rename':
                _, entry = self.entry_at(a['k'])
                entry.filename = NAMES[a['to']][0]
                res['want_crc'] = crc_limbs(own_crc(NAMES[a['to']][0]))
            elif op == 'save':
                buf = io.BytesIO()
                kw = {} if a.get('enc', 'default') == 'default' else {'encoding': a['enc']}     # default: argument omitted
                choreo.save_scenes_image_sync(buf, self.img if a['how'] == 'dict' else list(self.img.values()), version=a['ver'], **kw)
                data = buf.getvalue()
                self.slots[a['slot']] = data
                res['file'] = decode_image(data)
                res['h1'] = sha(data)
                # write -> read -> write: the file read back and written again (as a dictionary)
                again = io.BytesIO()
                choreo.save_scenes_image_sync(again, choreo.parse_scenes_image(io.BytesIO(data)), version=a['ver'], **kw)
                res['h2'] = sha(again.getvalue())
            elif op in ('load', 'merge'):
                res['slotfile'] = decode_image(self.slots[a['slot']])
                loaded = choreo.parse_scenes_image(io.BytesIO(self.slots[a['slot']]))
                if op == 'load':
                    self.img = loaded
                else:
                    self.img.update(loaded)
            elif op == 'touch':
                _, entry = self.entry_at(a['k'])
                res['scene'] = proj_scene(entry.data)
                if a.get('scene'):
                    res['want_scene'] = abs_scene(self.scenes[a['scene']])
            else:
                raise ValueError(op)
        except Exception as exc:
            res['exc'] = type(exc).__name__ + ': ' + str(exc)[:100]
        return res


def image_records(world: 'ImageWorld', hist: list, consts: dict, src: str, only_last: bool):
    for j, a in enumerate(hist):
        pre = world.project()
        res = world.apply(a)
        if not only_last or j == len(hist) - 1:
            yield {'k': 'image', 'a': a, 'pre': pre, 'res': res, 'post': world.project(), 'scenes': consts['scenes'],
                   'sig': {'kind': 'image', 'action': a['op'], 'src': src}, 'hist': hist, 'consts': consts}


def image_edges(edge_file: str, out: hlib.RecWriter, stats: dict, lo: int = 0, hi: int | None = None) -> None:
    data = json.load(open(edge_file))
    consts, edges = conc(data['consts']), data['edges']
    key = lambda s: json.dumps(s, sort_keys=True)
    paths = hlib.bfs_paths(edges, key)
    for e in edges[lo:hi]:
        a = dict(e['a'])
        if a['op'] == 'touch':      # which scene the entry holds is the model's knowledge
            a['scene'] = e['s']['img'][a['k']]['scene']
        hist = paths[key(e['s'])] + [a]
        for rec in image_records(ImageWorld(consts['scenes']), hist, consts, 'edge', True):
            out.write(rec)
        stats['edges_replayed'] = stats.get('edges_replayed', 0) + 1


# =========================================================================== cases, random, samples
ENC_TEXT = {'ascii': ['vo.plain', 'tok.a', 'Alyx'], 'latin1': ['vo.caf\xe9', 'tok.stra\xdfe', '\xffl\xe4x'],
            'wide': ['vo.\u20acuro', 'tok.\u03a9', '\u4e2d\u6587']}


def image_encoding(v: dict, src: str) -> dict:
    """Two scenes whose strings are all of one character class, written to a scenes.image with one
    encoding argument (or none), decoded by the harness as Latin-1 and read by the real reader."""
    snd, tok, actor = ENC_TEXT[v['chars']]
    scenes = []
    for j in range(2):
        ev = base_event(f'{actor}{j}', 'Speak', params=[f'{snd}{j}', '', ''], end='1.5', cc_token=tok if j else '')
        scenes.append(base_scene([ev], [{'name': actor, 'active': True, 'model': '', 'channels': [
            {'name': tok, 'active': True, 'events': [base_event(snd, 'LookAt', params=[actor, '', ''])]}]}]))
    entries = [Entry.from_scene(f'scenes/enc{j}.vcd', build_scene(sc)) for j, sc in enumerate(scenes)]
    entries.sort(key=lambda e: e.checksum)
    order = [int(e.filename[len('scenes/enc')]) for e in entries]
    rec = {'k': 'imgenc', 'enc': v['enc'], 'chars': v['chars'], 'ver': v['ver'], 'how': v['how'], 'err': '',
           'want_sounds': [list(e.sounds) for e in entries], 'want_scenes': [scenes[j] for j in order],
           'file_sounds': [], 'read_sounds': [], 'read_scenes': [],
           'sig': {'kind': 'imgenc', 'action': 'save', 'src': src, 'enc': v['enc'], 'chars': v['chars']}}
    buf = io.BytesIO()
    kw = {} if v['enc'] == 'default' else {'encoding': v['enc']}
    arg = {e.checksum: e for e in entries} if v['how'] == 'dict' else entries
    try:
        choreo.save_scenes_image_sync(buf, arg, version=v['ver'], **kw)
    except Exception as exc:
        rec['err'] = 'write:' + type(exc).__name__
        return rec
    try:
        rec['file_sounds'] = [row['sounds'] for row in decode_image(buf.getvalue())['table']]
        back = choreo.parse_scenes_image(io.BytesIO(buf.getvalue()))
        rec['read_sounds'] = [list(back[crc].sounds) for crc in sorted(back)]
        rec['read_scenes'] = [proj_scene(back[crc].data) for crc in sorted(back)]
    except Exception as exc:
        rec['err'] = 'read:' + type(exc).__name__
    return rec


def run_cases(case_file: str, out: hlib.RecWriter, stats: dict) -> None:
    for case in json.load(open(case_file)):
        if case['fmt'] == 'imgenc':
            out.write(image_encoding(case['v'], 'mc'))
        else:
            out.write(roundtrip(case['fmt'], conc(case['v']), 'mc', case.get('feat', '')))
        stats['cases'] = stats.get('cases', 0) + 1


def base_event(name='ev', typ='Expression', **over) -> dict:
    edge = [False, '0.0', 'DEFAULT', 'DEFAULT']
    ev = {'name': name, 'type': typ, 'flags': 8, 'params': ['p', '', ''], 'start': '0.5', 'end': '-1.0',
          'ramp': {'ramp': [], 'left': edge, 'right': edge}, 'tag': [], 'dist': '0.0', 'rel': [], 'timing': [], 'absp': [],
          'abss': [], 'flex': [], 'dcurve': ['DEFAULT', 'DEFAULT'], 'pitch': 0, 'yaw': 0, 'dur': '', 'loops': 0, 'cc_type': '',
          'cc_token': '', 'combined': False, 'gender': False, 'noatten': False}
    if typ == 'Gesture':
        ev['dur'] = '0.0'
    if typ == 'Speak':
        ev['cc_type'] = 'Master'
    ev.update(over)
    return ev


def base_scene(events=(), actors=()) -> dict:
    edge = [False, '0.0', 'DEFAULT', 'DEFAULT']
    return {'events': list(events), 'actors': list(actors), 'ramp': {'ramp': [], 'left': edge, 'right': edge}, 'ignore': False,
            'crc': '0', 'map': '', 'fps': 60, 'snap': False, 'scale': [], 'zoom': []}


def rnd_scene(rng: random.Random, binary: bool) -> dict:
    """Random scenes inside what the format can hold (float32-exact times, byte-quantised values)."""
    def t():
        return fl(rng.randint(-64, 640) / 64)

    def q():
        return fl(rng.randint(0, 255) / 255.0)

    def name():
        return rng.choice(['a', 'b c', 'Alyx', 'look_at', 'x.y', '!target', 'barn.ditchcar']) + str(rng.randint(0, 99))

    def ctype():
        return [rng.choice(list(Interpolation)).name, rng.choice(list(Interpolation)).name]

    def samples(n, curves):
        return [[t(), q()] + (ctype() if curves else ['DEFAULT', 'DEFAULT']) for _ in range(n)]

    def event():
        typ = rng.choice([e.name for e in EventType])
        flags = rng.choice([8, 8, 0, 9, 63, 8 | 4, 8 | 16 | 32])
        ev = base_event(name(), typ, flags=flags, params=[name(), rng.choice(['', name()]), rng.choice(['', 'x'])],
                        start=t(), end=rng.choice(['-1.0', t()]))
        ev['ramp']['ramp'] = samples(rng.randint(0, 3), False)
        if not binary and ev['ramp']['ramp'] and rng.random() < 0.3:
            ev['ramp'] = dict(ev['ramp'], left=[True, fl(rng.randint(0, 4) / 4)] + ctype())
        if rng.random() < 0.4:
            ev['rel'] = [[name(), q()] for _ in range(rng.randint(1, 3))]
        if rng.random() < 0.2:
            ev['timing'] = [[name(), q(), (not binary) and rng.random() < 0.5] for _ in range(rng.randint(1, 2))]
        if rng.random() < 0.2:
            ev['absp'] = [[name(), fl(rng.randint(0, 65535) / 4096.0)] for _ in range(rng.randint(1, 2))]
        if rng.random() < 0.2:
            ev['abss'] = [[name(), fl(rng.randint(0, 65535) / 4096.0)] for _ in range(rng.randint(1, 2))]
        if rng.random() < 0.15:
            ev['dist'] = fl(rng.randint(1, 4000) / 4)
        if not binary and rng.random() < 0.2:
            ev['pitch'], ev['yaw'] = rng.randint(-100, 100), rng.randint(-100, 100)
        if typ == 'Gesture':
            ev['dur'] = rng.choice(['0.0', t().lstrip('-')])
        if typ == 'Loop':
            ev['loops'] = rng.randint(-1, 100)
        if typ == 'Speak':
            ev['cc_type'] = rng.choice(['Master', 'Slave', 'Disabled'])
            ev['cc_token'] = rng.choice(['', name()])
            ev['gender'], ev['noatten'] = rng.random() < 0.3, rng.random() < 0.3
            ev['combined'] = ev['cc_type'] != 'Disabled' and rng.random() < 0.3
        if binary and rng.random() < 0.25:
            edge = [False, '0.0', 'DEFAULT', 'DEFAULT']
            ev['flex'] = [{'name': name(), 'active': rng.random() < 0.8, 'min': fl(rng.randint(0, 4) / 4), 'max': fl(rng.randint(4, 8) / 4),
                           'mag': samples(rng.randint(0, 3), True), 'combo': (combo := rng.random() < 0.4),
                           'dir': samples(rng.randint(0, 2), True) if combo else [], 'left': edge, 'right': edge}
                          for _ in range(rng.randint(1, 2))]
        return ev
    sc = base_scene([event() for _ in range(rng.randint(0, 3))],
                    [{'name': name(), 'active': rng.random() < 0.8, 'model': '' if binary else rng.choice(['', 'models/alyx.mdl']),
                      'channels': [{'name': name(), 'active': rng.random() < 0.8, 'events': [event() for _ in range(rng.randint(0, 3))]}
                                   for _ in range(rng.randint(0, 2))]} for _ in range(rng.randint(0, 2))])
    sc['ramp']['ramp'] = samples(rng.randint(0, 3), False)
    sc['ignore'] = rng.random() < 0.3
    if binary:
        sc['crc'] = str(rng.randint(0, 2 ** 32 - 1))
    else:
        sc['map'] = rng.choice(['', 'maps/d1_trainstation_01.vmf', 'a b'])
        sc['fps'] = rng.choice([10, 30, 60, 240])
        sc['snap'] = rng.random() < 0.5
        sc['scale'] = rng.choice([[], [['CChoreoView', '100'], ['RampTool', '64']]])
    return sc


def run_random(out: hlib.RecWriter, stats: dict) -> None:
    rng = random.Random(hlib.seed() * 104729 + 2000)
    n = 400 if hlib.tier() == 'thorough' else 60
    for i in range(n):
        out.write(roundtrip('bvcd', rnd_scene(rng, True), 'random'))
        out.write(roundtrip('vcd', rnd_scene(rng, False), 'random'))
    # command sequences: many sequences, every byte length around the field widths
    for i in range(n // 4):
        seqs = []
        for s in range(rng.randint(0, 6)):
            cmds = []
            for c in range(rng.randint(0, 8)):
                special = rng.choice([0, 0, 0, 256, 257, 258, 259])
                cmds.append({'exe': '' if special else 'x' * rng.choice([0, 1, 17, 259, 260]), 'special': special,
                             'args': ''.join(rng.choice('ab $./\\-"') for _ in range(rng.choice([0, 5, 259, 260]))),
                             'enabled': rng.random() < 0.5, 'ensure_set': (es := rng.random() < 0.5),
                             'ensure': 'f' * rng.choice([0, 3, 260]) if es else '', 'use_proc_win': rng.random() < 0.5,
                             'no_wait': rng.random() < 0.5})
            seqs.append({'name': f'Seq {s} ' + 'n' * rng.choice([0, 0, 100, 128 - 6]), 'cmds': cmds})
        out.write(roundtrip('cmdseq', {'seqs': seqs}, 'random'))
    # SMD: chains of bones, several frames, many triangles (coordinates exact at 6 decimals)
    for i in range(n // 4):
        nb = rng.randint(1, 6)
        bones = [[f'bone{b}', '' if b == 0 else f'bone{rng.randrange(b)}'] for b in range(nb)]
        frames = [[tm, [[b[0]] + [fl(rng.randint(-640, 640) / 64) for _ in range(3)] + ['0.0', '0.0', '0.0'] for b in bones]]
                  for tm in sorted(rng.sample(range(0, 30), rng.randint(1, 3)))]
        tris = []
        for _ in range(rng.randint(0, 5)):
            verts = []
            for _ in range(3):
                verts.append([fl(rng.randint(-6400, 6400) / 64) for _ in range(3)] + [fl(rng.choice([0, 1, -1, 0.5])) for _ in range(3)]
                             + [fl(rng.randint(0, 64) / 64), fl(rng.randint(0, 64) / 64), [[rng.choice(bones)[0], '1.0']]])
            tris.append([rng.choice(['metal/wall', 'concrete_floor', 'a']), verts])
        out.write(roundtrip('smd', {'bones': sorted(bones), 'keys': sorted(b[0] for b in bones), 'frames': frames, 'tris': tris}, 'random'))
    stats['random'] = out.n


def run_samples(out: hlib.RecWriter, stats: dict) -> None:
    """Sample files of the repository as Read; Write; Read traces: the second reading must equal the first."""
    tests = os.path.join(REPO, 'tests')

    def trace(fmt: str, path: str, read, write) -> None:
        rec = {'k': 'sample', 'fmt': fmt, 'file': os.path.relpath(path, REPO), 'err': '', 'h1': '', 'h2': '',
               'sig': {'kind': fmt, 'action': 'sample', 'src': os.path.basename(path)}}
        try:
            value = read(path)
            data, extra = write(value)
            if fmt == 'bvcd':
                # a text scene stored in the binary format: times become float32 on the first write,
                # so the trace starts at the first binary reading
                value = Scene.parse_binary(io.BytesIO(data), extra)
                data, extra = write(value)
            rec['first'] = PROJ[fmt](value)
            rec['h1'] = sha(data)
            second = read_back(fmt, data, extra)
            rec['second'] = second
            data2, extra2 = write_out(fmt, BUILD[fmt](second))
            rec['h2'] = sha(data2)
            if fmt == 'pcf':   # fresh element UUIDs on every export: compare the second generation as read back
                rec['h1'] = sha(json.dumps(second, sort_keys=True))
                rec['h2'] = sha(json.dumps(read_back(fmt, data2), sort_keys=True))
        except Exception as exc:
            rec['err'] = type(exc).__name__ + ': ' + str(exc).split('\n')[0][:120]
        out.write(rec)

    def read_vcd(path):
        with open(path, encoding='utf8') as f:
            return Scene.parse_text(Tokenizer(f))
    for name in ('sample.vcd', 'test_save_text.vcd'):
        trace('vcd', os.path.join(tests, 'test_choreo', name), read_vcd, lambda v: (io_vcd(v), None))
    # the text samples also through the binary format
    for name in ('sample.vcd', 'test_save_text.vcd'):
        trace('bvcd', os.path.join(tests, 'test_choreo', name), read_vcd, io_bvcd)

    def read_vmt(path):
        with open(path, encoding='utf8') as f:
            return vmt.Material.parse(f.read(), path)
    trace('vmt', os.path.join(tests, 'test_vmt', 'test_export.vmt'), read_vmt, lambda v: (io_vmt(v), None))

    def read_pcf(path):
        return particles.Particle.parse(open(path, 'rb'))
    trace('pcf', os.path.join(tests, 'test_particles', 'sample.pcf'), read_pcf, lambda v: (io_pcf(v), None))
    stats['samples'] = out.n


def run_replay(path: str, out: hlib.RecWriter) -> None:
    rp = json.load(open(path))
    rec = rp['record']
    if rec['k'] == 'rt':
        out.write(roundtrip(rec['fmt'], rec['orig'], 'replay', rec.get('feat', '')))
    elif rec['k'] == 'imgenc':
        out.write(image_encoding({k: rec[k] for k in ('enc', 'chars', 'ver', 'how')}, 'replay'))
    elif rec['k'] == 'image':
        consts = rec['consts']
        for r in image_records(ImageWorld(consts['scenes']), rec['hist'], consts, 'replay', True):
            out.write(r)
    else:
        run_samples(out, {})


# =========================================================================== coverage of containers
def _dup(xs) -> bool:
    xs = [json.dumps(x, sort_keys=True) if not isinstance(x, str) else x for x in xs]
    return len(xs) != len(set(xs))


def _case_dup(xs) -> bool:
    return len({x.casefold() for x in xs}) < len(set(xs))


def _kv_shapes(flat: list) -> bool:
    """An ordered multimap in all its shapes: a key repeated (same spelling, another case), a leaf
    after a block of its name and a block after a leaf of its name, an empty block, 3 levels."""
    names = [e[1] for e in flat]
    empty = any(e[3] and (i + 1 == len(flat) or flat[i + 1][0] <= e[0]) for i, e in enumerate(flat))
    leaf_after_block = any(a[3] and not b[3] and a[0] == b[0] and a[1].casefold() == b[1].casefold()
                           for i, a in enumerate(flat) for b in flat[i + 1:])
    block_after_leaf = any(not a[3] and b[3] and a[0] == b[0] and a[1].casefold() == b[1].casefold()
                           for i, a in enumerate(flat) for b in flat[i + 1:])
    return _dup(names) and _case_dup(names) and empty and leaf_after_block and block_after_leaf and max((e[0] for e in flat), default=0) >= 2


def _events(p):
    yield from p['events']
    for a in p['actors']:
        for c in a['channels']:
            yield from c['events']


def _names(items, key='name'):
    return [x[key] for x in items]


# (class, field) -> (formats whose cases must show it, predicate on a case projection) | reason for exemption
CONTAINERS = {
    ('Material', 'blocks'): (['vmt'], lambda p: _dup([b[0] for b in p['blocks']]) or any(_kv_shapes(b[1]) for b in p['blocks'])),
    ('Material', 'blocks#shapes'): (['vmt'], lambda p: any(_kv_shapes(b[1]) for b in p['blocks'])),
    ('Material', 'blocks#twice'): (['vmt'], lambda p: _dup([b[0] for b in p['blocks']]) and _case_dup([b[0] for b in p['blocks']])),
    ('Material', 'proxies'): (['vmt'], lambda p: _dup([b[0] for b in p['proxies']]) and any(_kv_shapes(b[1]) for b in p['proxies'])),
    ('Material', 'params'): 'a mapping with unique case-folded names (cases with several parameters exist)',
    ('Sound', 'sounds'): (['snd'], lambda p: _dup(p['sounds']) and _case_dup(p['sounds'])),
    ('Sound', '_stack_start'): (['snd'], lambda p: _kv_shapes(p['stacks'][0])),
    ('Sound', '_stack_update'): (['snd'], lambda p: _dup([e[1] for e in p['stacks'][1]])),
    ('Sound', '_stack_stop'): (['snd'], lambda p: _kv_shapes(p['stacks'][2])),
    ('Scene', 'events'): (['vcd', 'bvcd'], lambda p: _dup(_names(p['events']))),
    ('Scene', 'actors'): (['vcd', 'bvcd'], lambda p: _dup(_names(p['actors']))),
    ('Scene', 'scale_settings'): 'a dict: keys are unique',
    ('Scene', 'time_zoom_lookup'): 'neither scene format writes or reads it',
    ('Actor', 'channels'): (['vcd', 'bvcd'], lambda p: any(_dup(_names(a['channels'])) and _case_dup(_names(a['channels'])) for a in p['actors'])),
    ('Channel', 'events'): (['vcd', 'bvcd'], lambda p: any(_dup(_names(c['events'])) for a in p['actors'] for c in a['channels'])),
    ('Event', 'relative_tags'): (['vcd', 'bvcd'], lambda p: any(_dup([t[0] for t in e['rel']]) and _case_dup([t[0] for t in e['rel']]) for e in _events(p))),
    ('Event', 'timing_tags'): (['vcd', 'bvcd'], lambda p: any(_dup([t[0] for t in e['timing']]) for e in _events(p))),
    ('Event', 'absolute_playback_tags'): (['vcd', 'bvcd'], lambda p: any(_dup([t[0] for t in e['absp']]) for e in _events(p))),
    ('Event', 'absolute_shifted_tags'): (['vcd', 'bvcd'], lambda p: any(_dup([t[0] for t in e['abss']]) for e in _events(p))),
    ('Event', 'flex_anim_tracks'): (['bvcd'], lambda p: any(_dup(_names(e['flex'])) for e in _events(p))),
    ('Curve', 'ramp'): (['vcd', 'bvcd'], lambda p: any(_dup(e['ramp']['ramp']) for e in _events(p))),
    ('FlexAnimTrack', 'mag_track'): (['bvcd'], lambda p: any(_dup(f['mag']) for e in _events(p) for f in e['flex'])),
    ('FlexAnimTrack', 'dir_track'): (['bvcd'], lambda p: any(_dup(f['dir']) for e in _events(p) for f in e['flex'])),
    ('Entry', 'sounds'): 'derived: the sorted set of the scene\'s sounds',
    ('Entry', '_data'): 'the scene itself, or its bytes with the shared string pool',
    ('Particle', 'options'): 'a dict: keys are unique', ('Operator', 'options'): 'a dict: keys are unique',
    **{('Particle', kind): (['pcf'], (lambda kind: lambda p: any(_dup(_names(s_[kind])) and _case_dup(_names(s_[kind])) for s_ in p['systems']))(kind))
       for kind in OP_KINDS},
    ('Particle', 'children'): (['pcf'], lambda p: any(_dup(s_['children']) for s_ in p['systems'])),
    ('Mesh', 'bones'): 'a dict: bone names are unique',
    ('Mesh', 'animation'): (['smd'], lambda p: any(_dup([row[0] for row in fr[1]]) for fr in p['frames'])),
    ('Mesh', 'triangles'): (['smd'], lambda p: _dup([t[0] for t in p['tris']])),
    ('Vertex', 'links'): (['smd'], lambda p: any(_dup([l[0] for l in v[8]]) for t in p['tris'] for v in t[1])),
    ('cmdseq', 'commands'): (['cmdseq'], lambda p: any(_dup(s_['cmds']) for s_ in p['seqs'])),
}
CONTAINER_WORDS = ('list', 'dict', 'Keyvalues', 'Iterable', 'Mapping', 'Sequence', 'MutableMapping')


def container_fields() -> list:
    """Reflectively: every field of the value classes whose annotation mentions a container type."""
    import inspect
    classes = [vmt.Material, sndscript.Sound, choreo.Scene, choreo.Actor, choreo.Channel, choreo.Event, choreo.GestureEvent,
               choreo.LoopEvent, choreo.SpeakEvent, choreo.Curve, choreo.FlexAnimTrack, choreo.Entry, choreo.Tag,
               particles.Particle, particles.Operator, particles.Child, smd.Mesh, smd.Vertex, smd.Triangle, smd.Bone,
               smd.BoneFrame, cmdseq.Command]
    found = set()
    for cls in classes:
        notes: dict = {}
        for klass in reversed(cls.__mro__):
            notes.update(getattr(klass, '__annotations__', {}))
        init = getattr(cls, '__init__', None)
        if init is not None and not getattr(cls, '__attrs_attrs__', None):
            notes.update({k: v for k, v in getattr(init, '__annotations__', {}).items() if k != 'return'})
        owner = {choreo.GestureEvent: 'Event', choreo.LoopEvent: 'Event', choreo.SpeakEvent: 'Event'}.get(cls, cls.__name__)
        for name, note in notes.items():
            text = note if isinstance(note, str) else getattr(note, '__name__', '') + ' ' + str(note)
            if 'ClassVar' in text or 'Callable' in text:
                continue
            if any(word in text for word in CONTAINER_WORDS):
                found.add((owner, name))
    found.add(('cmdseq', 'commands'))     # the value of the format is itself dict[str, list[Command]]
    return sorted(found)


# --------------------------------------------------------------------------- omit-when-default sites
def _pairs(get, dflt: set, fmts: list) -> list:
    """A pair field with a default: both ends default, exactly one (either), both other and equal, both other and different."""
    def some(test):
        return lambda p: any(test(a, b) for a, b in get(p))
    return [('both default', fmts, some(lambda a, b: a in dflt and b in dflt)),
            ('low default only', fmts, some(lambda a, b: a in dflt and b not in dflt)),
            ('high default only', fmts, some(lambda a, b: a not in dflt and b in dflt)),
            ('both other, equal', fmts, some(lambda a, b: a not in dflt and a == b)),
            ('both other, different', fmts, some(lambda a, b: a not in dflt and b not in dflt and a != b))]


def _ev(test, fmts=('vcd', 'bvcd')):
    return (list(fmts), lambda p: any(test(e) for e in _events(p)))


def _both(label: str, test, fmts=('vcd', 'bvcd')) -> list:
    return [(label + ' set', *_ev(test, fmts)), (label + ' unset', *_ev(lambda e: not test(e), fmts))]


SCENES = ['vcd', 'bvcd']
_curves = lambda p: [(s_[2], s_[3]) for e in _events(p) for s_ in e['ramp']['ramp']] + [(s_[2], s_[3]) for s_ in p['ramp']['ramp']]
_flexs = lambda p: [f for e in _events(p) for f in e['flex']]
# (writer, field read in a condition) -> the cases that must exist around its default | reason for exemption
OMIT_SITES = {
    ('Sound.export', 'volume'): _pairs(lambda p: [p['volume']], {'1.0'}, ['snd'])
        + [('the constant', ['snd'], lambda p: p['volume'] == ['VOL_NORM', 'VOL_NORM']), ('constant and default', ['snd'], lambda p: sorted(p['volume']) == ['1.0', 'VOL_NORM'])],
    ('Sound.export', 'pitch'): _pairs(lambda p: [p['pitch']], {'100.0', 'PITCH_NORM'}, ['snd'])
        + [('default as number', ['snd'], lambda p: p['pitch'] == ['100.0', '100.0']), ('default as constant', ['snd'], lambda p: p['pitch'] == ['PITCH_NORM', 'PITCH_NORM']),
           ('default in both spellings', ['snd'], lambda p: sorted(p['pitch']) == ['100.0', 'PITCH_NORM']),
           ('one end default (constant), other a constant', ['snd'], lambda p: 'PITCH_NORM' in p['pitch'] and {'PITCH_LOW', 'PITCH_HIGH'} & set(p['pitch']))],
    ('Sound.export', 'sounds'): [(f'{n} sounds', ['snd'], (lambda n: lambda p: min(len(p['sounds']), 2) == n)(n)) for n in (0, 1, 2)],
    ('Sound.export', 'force_v2'): [('forced, no stacks', ['snd'], lambda p: p['force'] and not any(p['stacks'])), ('not forced', ['snd'], lambda p: not p['force'])],
    **{('Sound.export', f'stack_{nm}'): [('only this stack', ['snd'], (lambda i: lambda p: p['stacks'][i] and not any(p['stacks'][j] for j in range(3) if j != i))(i)),
                                         ('all but this stack', ['snd'], (lambda i: lambda p: not p['stacks'][i] and all(p['stacks'][j] for j in range(3) if j != i))(i))]
       for i, nm in enumerate(('start', 'update', 'stop'))},
    ('Event.export_text', 'parameters'): [('param2 only', *_ev(lambda e: e['params'][1] and not e['params'][2], ['vcd'])), ('param3 only', *_ev(lambda e: e['params'][2] and not e['params'][1], ['vcd'])),
                                          ('both', *_ev(lambda e: e['params'][1] and e['params'][2], ['vcd'])), ('neither', *_ev(lambda e: not e['params'][1] and not e['params'][2], ['vcd'])),
                                          ('param empty', *_ev(lambda e: not e['params'][0], ['vcd']))],
    ('Event.export_text', 'pitch'): [('pitch only', *_ev(lambda e: e['pitch'] and not e['yaw'], ['vcd'])), ('both', *_ev(lambda e: e['pitch'] and e['yaw'], ['vcd']))],
    ('Event.export_text', 'yaw'): [('yaw only', *_ev(lambda e: e['yaw'] and not e['pitch'], ['vcd'])), ('negative', *_ev(lambda e: e['yaw'] < 0, ['vcd']))],
    ('Event.export_text', 'dist_to_targ'): [('zero', *_ev(lambda e: float(e['dist']) == 0, ['vcd'])), ('just above zero', *_ev(lambda e: 0 < float(e['dist']) < 1, ['vcd'])),
                                            ('large', *_ev(lambda e: float(e['dist']) > 1, ['vcd']))],
    ('Event.export_text', 'flags'): [('active', *_ev(lambda e: e['flags'] & 8, ['vcd'])), ('inactive', *_ev(lambda e: not e['flags'] & 8, ['vcd'])),
                                     ('only another flag', *_ev(lambda e: e['flags'] and not e['flags'] & 8, ['vcd']))],
    ('Event.export_text', 'ramp'): _both('event ramp', lambda e: bool(e['ramp']['ramp']), ['vcd']),
    ('Event.export_text', 'flex_anim_tracks'): _both('flex tracks', lambda e: bool(e['flex']), ['vcd']),
    ('Event.export_text', 'default_curve_type'): _pairs(lambda p: [tuple(e['dcurve']) for e in _events(p)], {'DEFAULT'}, ['vcd'])[:2]
        + [('both other', ['vcd'], lambda p: any('DEFAULT' not in e['dcurve'] for e in _events(p)))],
    ('Event.export_text', 'gesture_sequence_duration'): [('zero', *_ev(lambda e: e['type'] == 'Gesture' and float(e['dur']) == 0, ['vcd'])),
                                                         ('set', *_ev(lambda e: e['type'] == 'Gesture' and float(e['dur']) != 0, ['vcd']))],
    ('Event.export_text', 'tag_name'): [('none', *_ev(lambda e: not e['tag'], ['vcd'])), ('both', *_ev(lambda e: e['tag'] and all(e['tag']), ['vcd'])),
                                        ('name only', *_ev(lambda e: e['tag'] and e['tag'][0] and not e['tag'][1], ['vcd']))],
    ('Event.export_text', 'tag_wav_name'): [('set', *_ev(lambda e: e['tag'] and e['tag'][1], ['vcd']))],
    ('Event.export_binary', 'tag_name'): [('none', *_ev(lambda e: not e['tag'], ['bvcd'])), ('both', *_ev(lambda e: e['tag'] and all(e['tag']), ['bvcd'])),
                                          ('name only', *_ev(lambda e: e['tag'] and e['tag'][0] and not e['tag'][1], ['bvcd']))],
    ('Event.export_binary', 'tag_wav_name'): [('set', *_ev(lambda e: e['tag'] and e['tag'][1], ['bvcd']))],
    ('Event.export_text', 'caption_type'): [(ct, *_ev((lambda ct: lambda e: e['cc_type'] == ct)(ct))) for ct in ('Master', 'Slave', 'Disabled')],
    ('Event.export_text', 'use_combined_file'): [('combined, captions on', *_ev(lambda e: e['combined'] and e['cc_type'] != 'Disabled')),
                                                 ('combined alone', *_ev(lambda e: e['combined'] and not e['gender'] and not e['noatten'])),
                                                 ('not combined', *_ev(lambda e: e['type'] == 'Speak' and not e['combined']))],
    ('Event.export_text', 'use_gender_token'): [('alone', *_ev(lambda e: e['gender'] and not e['combined'] and not e['noatten'])), ('unset', *_ev(lambda e: e['type'] == 'Speak' and not e['gender']))],
    ('Event.export_text', 'suppress_caption_attenuation'): [('alone', *_ev(lambda e: e['noatten'] and not e['combined'] and not e['gender'])),
                                                            ('unset', *_ev(lambda e: e['type'] == 'Speak' and not e['noatten']))],
    ('Curve.export_text', 'curve_type'): _pairs(_curves, {'DEFAULT'}, ['vcd'])[:3] + [('both other', ['vcd'], lambda p: any('DEFAULT' not in c for c in _curves(p)))],
    ('Curve.export_text', 'ramp'): [('no samples, an edge', ['vcd'], lambda p: any(not e['ramp']['ramp'] and (e['ramp']['left'][0] or e['ramp']['right'][0]) for e in _events(p))),
                                    ('samples', ['vcd'], lambda p: bool(_curves(p))), ('scene ramp', ['vcd'], lambda p: bool(p['ramp']['ramp']))],
    ('Curve.export_text', 'left'): [('left edge only', ['vcd'], lambda p: any(e['ramp']['left'][0] and not e['ramp']['right'][0] for e in _events(p)) or (p['ramp']['left'][0] and not p['ramp']['right'][0]))],
    ('Curve.export_text', 'right'): [('right edge only', ['vcd'], lambda p: any(e['ramp']['right'][0] and not e['ramp']['left'][0] for e in _events(p))),
                                     ('both edges', ['vcd'], lambda p: any(e['ramp']['right'][0] and e['ramp']['left'][0] for e in _events(p)))],
    ('FlexAnimTrack.export_text', 'curve_type'): _pairs(lambda p: [(s_[2], s_[3]) for f in _flexs(p) for s_ in f['mag']], {'DEFAULT'}, SCENES)[:3],
    ('FlexAnimTrack.export_text', 'active'): [('active', SCENES, lambda p: any(f['active'] for f in _flexs(p))), ('disabled', SCENES, lambda p: any(not f['active'] for f in _flexs(p)))],
    ('FlexAnimTrack.export_text', 'dir_track'): [('none', SCENES, lambda p: any(not f['combo'] for f in _flexs(p))), ('empty', SCENES, lambda p: any(f['combo'] and not f['dir'] for f in _flexs(p))),
                                                 ('samples', SCENES, lambda p: any(f['dir'] for f in _flexs(p)))],
    ('FlexAnimTrack.export_binary', 'dir_track'): [('none', ['bvcd'], lambda p: any(not f['combo'] for f in _flexs(p))), ('empty', ['bvcd'], lambda p: any(f['combo'] and not f['dir'] for f in _flexs(p))),
                                                   ('samples', ['bvcd'], lambda p: any(f['dir'] for f in _flexs(p)))],
    ('FlexAnimTrack.export_text', 'min'): [('default range', SCENES, lambda p: any((f['min'], f['max']) == ('0.0', '1.0') for f in _flexs(p))),
                                           ('only min changed', SCENES, lambda p: any(f['min'] != '0.0' and f['max'] == '1.0' for f in _flexs(p)))],
    ('FlexAnimTrack.export_text', 'max'): [('only max changed', SCENES, lambda p: any(f['min'] == '0.0' and f['max'] != '1.0' for f in _flexs(p))),
                                           ('both changed', SCENES, lambda p: any(f['min'] != '0.0' and f['max'] != '1.0' for f in _flexs(p)))],
    ('FlexAnimTrack.export_text', 'left'): 'flex edges: the text reader cannot read flex animations (open finding), the binary format does not store them',
    ('FlexAnimTrack.export_text', 'right'): 'flex edges: the text reader cannot read flex animations (open finding), the binary format does not store them',
    ('Tag.export_text', 'locked'): [('locked', *_ev(lambda e: any(t[2] for t in e['timing']), ['vcd'])), ('unlocked', *_ev(lambda e: any(not t[2] for t in e['timing']), ['vcd']))],
    ('Scene.export_text', 'ignore_phonemes'): [('on', ['vcd'], lambda p: p['ignore']), ('off', ['vcd'], lambda p: not p['ignore']), ('on, snap off', ['vcd'], lambda p: p['ignore'] and not p['snap'])],
    ('Scene.export_binary', 'ignore_phonemes'): [('on', ['bvcd'], lambda p: p['ignore']), ('off', ['bvcd'], lambda p: not p['ignore'])],
    ('Scene.export_text', 'use_frame_snap'): [('on, ignore off', ['vcd'], lambda p: p['snap'] and not p['ignore']), ('off', ['vcd'], lambda p: not p['snap'])],
    ('Scene.export_text', 'map_name'): [('set', ['vcd'], lambda p: p['map']), ('unset', ['vcd'], lambda p: not p['map'])],
    ('Scene.export_text', 'scale_settings'): [('set', ['vcd'], lambda p: p['scale']), ('unset', ['vcd'], lambda p: not p['scale'])],
    ('Actor.export_text', 'active'): [('inactive', ['vcd'], lambda p: any(not a['active'] for a in p['actors'])), ('inactive, channel active', ['vcd'], lambda p: any(not a['active'] and any(c['active'] for c in a['channels']) for a in p['actors']))],
    ('Actor.export_binary', 'active'): [('inactive', ['bvcd'], lambda p: any(not a['active'] for a in p['actors'])), ('active', ['bvcd'], lambda p: any(a['active'] for a in p['actors']))],
    ('Actor.export_text', 'faceposer_model'): [('set', ['vcd'], lambda p: any(a['model'] for a in p['actors'])), ('unset', ['vcd'], lambda p: any(not a['model'] for a in p['actors']))],
    ('Channel.export_text', 'active'): [('inactive, actor active', ['vcd'], lambda p: any(a['active'] and any(not c['active'] for c in a['channels']) for a in p['actors']))],
    ('Channel.export_binary', 'active'): [('inactive', ['bvcd'], lambda p: any(not c['active'] for a in p['actors'] for c in a['channels'])),
                                          ('active', ['bvcd'], lambda p: any(c['active'] for a in p['actors'] for c in a['channels']))],
    ('Material.export', 'proxies'): [('none', ['vmt'], lambda p: not p['proxies']), ('some', ['vmt'], lambda p: p['proxies']), ('blocks but no proxies', ['vmt'], lambda p: p['blocks'] and not p['proxies'])],
    ('Mesh.export', 'triangles'): [('none', ['smd'], lambda p: not p['tris']), ('some', ['smd'], lambda p: p['tris'])],
    ('Mesh.export', 'links'): [('one link', ['smd'], lambda p: any(len(v[8]) == 1 for t in p['tris'] for v in t[1])), ('two links', ['smd'], lambda p: any(len(v[8]) == 2 for t in p['tris'] for v in t[1])),
                               ('three links', ['smd'], lambda p: any(len(v[8]) == 3 for t in p['tris'] for v in t[1]))],
    ('Mesh.export', 'parent'): [('root only', ['smd'], lambda p: len(p['bones']) == 1), ('child of a child', ['smd'], lambda p: any(b[1] and dict(map(tuple, p['bones']))[b[1]] for b in p['bones']))],
    ('write', 'ensure_file'): [('none', ['cmdseq'], lambda p: any(not c['ensure_set'] for s_ in p['seqs'] for c in s_['cmds'])),
                               ('empty', ['cmdseq'], lambda p: any(c['ensure_set'] and not c['ensure'] for s_ in p['seqs'] for c in s_['cmds'])),
                               ('set', ['cmdseq'], lambda p: any(c['ensure'] for s_ in p['seqs'] for c in s_['cmds']))],
    ('write', 'exe'): [('special', ['cmdseq'], lambda p: any(c['special'] for s_ in p['seqs'] for c in s_['cmds'])),
                       ('empty name', ['cmdseq'], lambda p: any(not c['special'] and not c['exe'] for s_ in p['seqs'] for c in s_['cmds']))],
}


def omit_sites() -> list:
    """Reflectively: every (writer, field) where a writer's condition reads a field of the value."""
    import inspect
    writers = [sndscript.Sound.export, choreo.Scene.export_text, choreo.Actor.export_text, choreo.Channel.export_text,
               choreo.Event.export_text, choreo.Curve.export_text, choreo.FlexAnimTrack.export_text, choreo.Tag.export_text,
               choreo.Scene.export_binary, choreo.Event.export_binary, choreo.FlexAnimTrack.export_binary, choreo.Curve.export_binary,
               choreo.Tag.export_binary, choreo.Actor.export_binary, choreo.Channel.export_binary, vmt.Material.export,
               particles.Particle.export, smd.Mesh.export, cmdseq.write]
    recv = r'(self|sample|cmd|tag|vert|bone|track|part|operator|entry|block|param|tri|frame|event|actor|channel)'
    found = set()
    for fn in writers:
        for line in inspect.getsource(fn).splitlines():
            code = line.split('#')[0]
            if _re.search(r'\b(if|elif|while)\b', code):
                for m in _re.finditer(recv + r'\.(\w+)', code):
                    found.add((fn.__qualname__, m.group(2)))
    return sorted(found)


def run_cover(case_files: list, out_path: str) -> None:
    by_fmt: dict = {}
    for path in case_files:
        for case in json.load(open(path)):
            by_fmt.setdefault(case['fmt'], []).append(case['v'])
    fields = container_fields()
    report = {'fields': [], 'unknown': [], 'uncovered': [], 'exempt': []}
    wanted = dict(CONTAINERS)
    for key in fields:
        if key not in wanted:
            report['unknown'].append(list(key))
    for key, rule in sorted(wanted.items()):
        base = (key[0], key[1].split('#')[0])
        if base not in fields and base != ('cmdseq', 'commands'):
            report['unknown'].append(['not a container field any more'] + list(key))
            continue
        if isinstance(rule, str):
            report['exempt'].append([key[0], key[1], rule])
            continue
        fmts, pred = rule
        n = sum(1 for f in fmts for v in by_fmt.get(f, []) if pred(v))
        report['fields'].append([key[0], key[1], n])
        if n == 0:
            report['uncovered'].append(list(key))
    # omit-when-default sites: every field a writer's condition reads has the cases around its default
    sites = omit_sites()
    report['sites'] = []
    for key in sites:
        if key not in OMIT_SITES:
            report['unknown'].append(['writer condition without cases'] + list(key))
    for key, rule in sorted(OMIT_SITES.items()):
        if key not in sites:
            report['unknown'].append(['no such writer condition any more'] + list(key))
            continue
        if isinstance(rule, str):
            report['exempt'].append([key[0], key[1], rule])
            continue
        for label, fmts, pred in rule:
            n = sum(1 for f in fmts for v in by_fmt.get(f, []) if pred(v))
            report['sites'].append([key[0], key[1], label, n])
            if n == 0:
                report['uncovered'].append([key[0], key[1], label])
    with open(out_path, 'w') as f:
        json.dump(report, f)
    print(json.dumps({'fields': len(report['fields']), 'sites': len(report['sites']), 'unknown': report['unknown'], 'uncovered': report['uncovered']}))


def main() -> None:
    mode = sys.argv[1]
    stats: dict = {}
    if mode == 'cover':
        run_cover(sys.argv[2:-1], sys.argv[-1])
        return
    out = hlib.RecWriter(sys.argv[-1])
    if mode == 'cases':
        run_cases(sys.argv[2], out, stats)
    elif mode == 'random':
        run_random(out, stats)
    elif mode == 'samples':
        run_samples(out, stats)
    elif mode == 'image':
        rng_ = [int(x) for x in sys.argv[3:-1]]
        image_edges(sys.argv[2], out, stats, *rng_)
    elif mode == 'replay':
        run_replay(sys.argv[2], out)
    else:
        raise SystemExit(2)
    out.close()
    stats['records'] = out.n
    print(json.dumps(stats))


if __name__ == '__main__':
    main()
