"""C16 driver: FGD text export/parse, the binary database and its lazy loading, executed on the
real srctools code.  Python only runs the implementation, projects and serialises; every verdict
is TLC's (FgdDbTrace / FgdDocTrace).

Modes (argv[1]):
  dbdesc <out.json>                     block structure, stored base names, hot set and full-load
                                        definition hashes of the bundled fgd.lzma (constants of the run)
  dbedges <edges.json> <out.ndjson>     every transition of a small FgdDb model, replayed by its BFS
                                        path on a database serialised with exactly that block layout
  dbsim <behaviours.json> <out.ndjson>  TLC-simulated engine_def()/engine_dbase() orders on the
                                        bundled database, each on a freshly unserialised copy
  dbsingles <out.ndjson>                one fresh database per class: a single query
  doc ...                               see the second half of this file
"""
from __future__ import annotations

import contextlib
import hashlib
import io
import json
import random
import sys

from vlib import hlib

hlib.require_repo_src()
import srctools  # noqa: E402
from srctools import _engine_db as EDB  # noqa: E402
from srctools import fgd as F  # noqa: E402
from srctools.const import FileType  # noqa: E402
from srctools.fgd import (  # noqa: E402
    FGD, EntityDef, EntityTypes, IODef, KVDef, Resource, UnknownHelper, ValueTypes,
)
from srctools.filesys import VirtualFileSystem  # noqa: E402

CBASE = '_cbaseentity_'


# --------------------------------------------------------------------------- projection
def type_name(attr) -> tuple[str, bool]:
    """(type string as it appears in a file, is it a custom type)"""
    t = attr._type
    if isinstance(t, ValueTypes):
        return t.value, False
    return str(t), True


def proj_kv(key: str, tags, kv: KVDef) -> dict:
    tn, custom = type_name(kv)
    lst = None
    if kv.val_list is not None:
        lst = []
        for item in kv.val_list:
            if kv._type is ValueTypes.SPAWNFLAGS:
                bit, name, dflt, itags = item
                lst.append({'b': str(bit), 'n': name, 'd': bool(dflt), 'tags': sorted(itags)})
            else:
                val, name, itags = item
                lst.append({'v': val, 'n': name, 'tags': sorted(itags)})
    return {'key': key, 'name': kv.name, 'tags': sorted(tags), 'type': tn, 'custom': custom,
            'disp': kv.disp_name, 'def': kv.default, 'desc': kv.desc,
            'ro': bool(kv.readonly), 'rep': bool(kv.reportable), 'list': lst}


def proj_io(key: str, tags, io_def: IODef) -> dict:
    tn, custom = type_name(io_def)
    return {'key': key, 'name': io_def.name, 'tags': sorted(tags), 'type': tn, 'custom': custom,
            'desc': io_def.desc}


def proj_helper(h) -> dict:
    if isinstance(h, UnknownHelper):
        name, known = h.name, False
    else:
        name, known = h.TYPE.value, True
    return {'n': name, 'known': known, 'a': list(h.export()), 'ext': bool(h.IS_EXTENSION),
            'v': type(h).__name__ + repr(sorted((k, repr(v)) for k, v in vars(h).items()))}


def proj_ent(ent: EntityDef) -> dict:
    """Everything the property names, in the containers' own order."""
    return {
        'cls': ent.classname, 'kind': ent.type.value, 'alias': bool(ent.is_alias),
        'bases': [b.classname if isinstance(b, EntityDef) else b for b in ent.bases],
        'helpers': [proj_helper(h) for h in ent.helpers],
        'desc': ent.desc,
        'order': list(ent.kv_order),
        'kvs': [proj_kv(key, tags, kv) for key, tm in ent.keyvalues.items() for tags, kv in tm.items()],
        'ins': [proj_io(key, tags, v) for key, tm in ent.inputs.items() for tags, v in tm.items()],
        'outs': [proj_io(key, tags, v) for key, tm in ent.outputs.items() for tags, v in tm.items()],
        'res': None if ent.resources == () else
               [{'type': r.type.name, 'file': r.filename, 'tags': sorted(r.tags)} for r in ent.resources],
    }


def deep_hash(ent: EntityDef, memo: dict | None = None) -> str:
    """Hash of the definition including the definitions of all its bases, recursively."""
    if memo is None:
        memo = {}
    if id(ent) in memo:
        return memo[id(ent)]
    p = proj_ent(ent)
    p['bases'] = [deep_hash(b, memo) if isinstance(b, EntityDef) else 'str:' + b for b in ent.bases]
    h = hashlib.sha1(repr(p).encode()).hexdigest()[:16]
    memo[id(ent)] = h
    return h


# --------------------------------------------------------------------------- database worlds
class Created:
    """Observes from outside which definition objects the database creates, in order."""
    def __init__(self) -> None:
        self.log: list = []
        self.orig = EDB.ent_unserialise

        def wrapper(file, classname, from_dict):
            ent = self.orig(file, classname, from_dict)
            self.log.append(ent)
            return ent
        self.wrapper = wrapper

    def __enter__(self):
        EDB.ent_unserialise = self.wrapper
        return self

    def __exit__(self, *a):
        EDB.ent_unserialise = self.orig


class World:
    """A list of freshly unserialised databases installed as srctools.fgd._ENGINE_DB, with the
    identity tokens of every definition object seen so far."""
    def __init__(self, blobs: list[bytes] | None, watch: Created) -> None:
        self.watch = watch
        self.keep: list = []            # keeps objects alive so id() stays unique
        self.tok: dict[int, tuple[int, int]] = {}
        self.next: list[int] = []
        F._ENGINE_DB = None
        start = len(watch.log)
        if blobs is None:
            F._load_engine_db()         # the bundled fgd.lzma, through the real loader
        else:
            F._ENGINE_DB = [EDB.unserialise(io.BytesIO(b)) for b in blobs]
        self.dbs = F._ENGINE_DB
        self.next = [1] * len(self.dbs)
        self.absorb(start)

    def absorb(self, start: int) -> list[list[str]]:
        """Give tokens to the objects created since log position `start`; returns per database
        the folded names in creation order."""
        created = [[] for _ in self.dbs]
        for ent in self.watch.log[start:]:
            key = ent.classname.casefold()
            for k, db in enumerate(self.dbs):
                if db.ent_map.get(key) is ent:
                    break
            else:
                k = -1   # an object that is not installed anywhere: logged as database 0
            self.keep.append(ent)
            if k >= 0:
                self.tok[id(ent)] = (k, self.next[k])
                self.next[k] += 1
                created[k].append(key)
        return created

    def token(self, obj) -> int:
        return self.tok.get(id(obj), (0, 0))[1] if isinstance(obj, EntityDef) else 0

    def snapshot(self) -> list:
        out = []
        for k, db in enumerate(self.dbs):
            obj, rb = {}, {}
            for key, val in db.ent_map.items():
                if isinstance(val, EntityDef):
                    obj[key] = self.token(val)
                    rb[key] = [self.token(b) for b in val.bases]
                else:
                    obj[key] = 0
                    rb[key] = []
            parsed = [i + 1 for i, (cls, data) in enumerate(db.unparsed) if not data]
            out.append({'parsed': parsed, 'obj': obj, 'rb': rb, 'n': self.next[k], 'fgd': db.fgd is not None})
        return out

    def step(self, a: dict, names: dict, snap: bool) -> dict:
        """Execute one model action through the public API."""
        start = len(self.watch.log)
        rec = {'k': 'step', 'a': a}
        if a['op'] in ('query', 'missing'):
            cls = names.get(a['e'], a['e'])
            try:
                got = EntityDef.engine_def(cls)
            except Exception as exc:    # KeyError is the documented answer for an unknown class
                rec.update(exc=type(exc).__name__, res=0, resdb=0, bases=[], defh='', copy=True)
            else:
                rec['created'] = self.absorb(start)
                start = len(self.watch.log)
                key = cls.casefold()
                k = next((i for i, db in enumerate(self.dbs) if key in db.ent_map), -1)
                own = self.dbs[k].ent_map[key] if k >= 0 else None
                rec.update(exc='', resdb=k + 1, res=self.token(own),
                           bases=[self.token(b) for b in own.bases] if isinstance(own, EntityDef) else [],
                           defh=deep_hash(got), copy=got is not own, cls_ok=got.classname.casefold() == key)
                poke(got)
        elif a['op'] == 'loadall':
            try:
                whole = FGD.engine_dbase()
            except Exception as exc:
                rec.update(exc=type(exc).__name__, count=0, defs={})
            else:
                memo: dict = {}
                rec.update(exc='', count=len(whole.entities),
                           defs={key: deep_hash(ent, memo) for key, ent in sorted(whole.entities.items())})
                for ent in whole.entities.values():
                    poke(ent)
        elif a['op'] == 'classes':
            rec.update(exc='', classes=sorted(EntityDef.engine_classes()))
        else:
            raise ValueError(a)
        more = self.absorb(start)
        rec['created'] = [a + b for a, b in zip(rec['created'], more)] if 'created' in rec else more
        if snap:
            rec['snap'] = self.snapshot()
        return rec


def poke(ent: EntityDef) -> None:
    """The caller owns what engine_def() returned: scribble over it (and its bases).  A later
    query must not see any of this."""
    seen = set()
    todo = [ent]
    while todo:
        e = todo.pop()
        if id(e) in seen:
            continue
        seen.add(id(e))
        e.keyvalues['verif_poke'] = {frozenset(): KVDef('verif_poke', ValueTypes.STRING, 'x')}
        for tm in list(e.keyvalues.values()):
            for kv in tm.values():
                kv.disp_name = 'poked'
                if kv.val_list:
                    kv.val_list.append((1 << 30, 'poked', True, frozenset()))
        e.desc = 'poked'
        e.kv_order.append('verif_poke')
        todo.extend(b for b in e.bases if isinstance(b, EntityDef))
        e.bases.append('poked_base')


# --------------------------------------------------------------------------- the bundled database
def bundled_bytes() -> bytes:
    from importlib_resources import files
    with (files(srctools) / 'fgd.lzma').open('rb') as f:
        return f.read()


def describe_db(blob: bytes, keyof=lambda s: s.casefold()) -> dict:
    """Block layout and stored base names of a serialised database, read with the module's own
    decoding functions but without the lazy machinery under test; full-load hashes."""
    db = EDB.unserialise(io.BytesIO(blob))
    blocks, bases = [], {CBASE: []}
    for classes, data in db.unparsed:
        file = io.BytesIO(data)
        _, from_dict = EDB.BinStrDict.unserialise(file, db.base_strings)
        names = []
        for cls in classes:
            ent = EDB.ent_unserialise(file, cls, from_dict)
            names.append(cls.casefold())
            bases[cls.casefold()] = [b.casefold() for b in ent.bases]
        blocks.append(names)
    blk = {e: i for i, b in enumerate(blocks) for e in b}
    hot = set()
    for e, bs in bases.items():
        for b in bs:
            if b != CBASE and blk.get(b) != blk.get(e):
                hot.update((e, b))
            if b != CBASE:
                hot.add(e)
    try:
        whole = EDB.unserialise(io.BytesIO(blob)).get_fgd()
        memo: dict = {}
        full = {key: deep_hash(ent, memo) for key, ent in whole.entities.items()}
    except Exception as exc:    # the full load itself fails: no query can then agree with it
        full = {key: f'full load failed: {type(exc).__name__}' for key in bases}
    return {'blocks': blocks, 'bases': bases, 'cbase': CBASE, 'full': full, 'hot': sorted(hot),
            'blk': {e: i + 1 for e, i in blk.items()},
            'nents': len(bases), 'cross': sorted(e for e in hot if any(blk.get(b) != blk.get(e) for b in bases[e] if b != CBASE))}


# --------------------------------------------------------------------------- synthetic databases
def synth_names(desc: dict) -> dict:
    """Concretisation: model key -> class name as typed (mixed case: look-ups fold)."""
    return {e: ('_CBaseEntity_' if e == desc['cbase'] else 'Verif_' + e.upper() + '_x') for e in desc['bases']}


def synth_blob(desc: dict, tagname: str) -> bytes:
    """Serialise, with the real serialise(), an FGD whose block layout is exactly desc.blocks
    (build_blocks - the size heuristics - is replaced; everything else is the real writer)."""
    names = synth_names(desc)
    fgd = FGD()
    ents = {}
    for e, cls in names.items():
        ent = EntityDef(EntityTypes.BASE if e == desc['cbase'] else EntityTypes.POINT, cls)
        if e != desc['cbase']:
            for i in range(110):    # enough distinct strings for the 512 shared-string table
                nm = f'{tagname}_{e}_{i}'
                ent.keyvalues[nm] = {frozenset(): KVDef(nm, ValueTypes.INT, f'Disp {tagname} {e} {i}', str(i))}
            ent.inputs['fire' + e] = {frozenset(): IODef('Fire' + e, ValueTypes.VOID)}
            ent.outputs['on' + e] = {frozenset(): IODef('On' + e, ValueTypes.FLOAT)}
            ent.resources = [Resource(f'models/{tagname}_{e}.mdl', FileType.MODEL)]
            ent.is_alias = bool(desc['bases'][e])
            ent.bases = [names[b] for b in desc['bases'][e]]
        else:
            ent.keyvalues['origin'] = {frozenset(): KVDef('origin', ValueTypes.VEC_ORIGIN, 'Origin ' + tagname, '0 0 0')}
        ents[e] = ent
        fgd.entities[cls.casefold()] = ent
    real_build = EDB.build_blocks

    def fixed_blocks(all_ents, ent_to_string, ent_to_size, overlaps):
        return [([ents[e] for e in blk], set().union(*(ent_to_string[ents[e]] for e in blk)))
                for blk in desc['blocks']]
    EDB.build_blocks = fixed_blocks
    try:
        buf = io.BytesIO()
        with contextlib.redirect_stdout(io.StringIO()):
            EDB.serialise(fgd, buf)
    finally:
        EDB.build_blocks = real_build
    return buf.getvalue()


def synth_world_desc(dbs: list, blobs: list) -> list:
    """The model's descriptions over the concrete (folded) class names, with full-load hashes:
    what get_fgd() gives on a fresh copy of each database."""
    out = []
    for desc, blob in zip(dbs, blobs):
        conc = {e: n.casefold() for e, n in synth_names(desc).items()}
        try:
            whole = EDB.unserialise(io.BytesIO(blob)).get_fgd()
            full = {conc[e]: deep_hash(whole.entities[conc[e]]) for e in conc}
        except Exception as exc:
            full = {conc[e]: f'full load failed: {type(exc).__name__}' for e in conc}
        out.append({'blocks': [[conc[e] for e in blk] for blk in desc['blocks']],
                    'bases': {conc[e]: [conc[b] for b in bs] for e, bs in desc['bases'].items()},
                    'cbase': conc[desc['cbase']],
                    'full': full})
    return out


def synth_setup(dbs: list):
    blobs = [synth_blob(d, f't{k}') for k, d in enumerate(dbs)]
    descs = synth_world_desc(dbs, blobs)
    # the layout really is the model's: the stored structure, decoded, against the description
    for d, blob in zip(descs, blobs):
        got = describe_db(blob)
        if got['blocks'] != d['blocks'] or got['bases'] != d['bases']:
            raise SystemExit(f'MACHINERY: synthetic database layout differs: {got["blocks"]} vs {d["blocks"]}')
    conc, typed = {}, {}
    for d in dbs:
        for e, n in synth_names(d).items():
            conc[e] = n.casefold()
            typed[n.casefold()] = n
    return blobs, descs, conc, typed


def db_edges(edge_file: str, out: hlib.RecWriter, stats: dict) -> None:
    data = json.load(open(edge_file))
    dbs, edges = data['dbs'], data['edges']
    blobs, descs, conc, typed = synth_setup(dbs)
    key = lambda s: json.dumps(s, sort_keys=True)
    paths = hlib.bfs_paths(edges, key)
    with Created() as watch:
        for t, e in enumerate(edges):
            path = [{'op': a['op'], **({'e': conc.get(a['e'], a['e'])} if 'e' in a else {})}
                    for a in paths[key(e['s'])] + [e['a']]]
            world = World(blobs, watch)
            out.write({'k': 'open', 't': t, 'real': False, 'dbs': descs, 'snap': world.snapshot(),
                       'sig': {'kind': 'db', 'action': 'open', 'src': 'edge'}})
            for j, a in enumerate(path):
                rec = world.step(a, typed, snap=True)
                rec.update(t=t, sig={'kind': 'db', 'action': a['op'], 'src': 'edge'}, hist=path[:j + 1],
                           model_dbs=dbs)
                out.write(rec)
            stats['edges_replayed'] = stats.get('edges_replayed', 0) + 1
    F._ENGINE_DB = None


def db_sim(beh_file: str, out: hlib.RecWriter, stats: dict) -> None:
    behs = json.load(open(beh_file))
    with Created() as watch:
        for t, hist in enumerate(behs):
            world = World(None, watch)
            out.write({'k': 'open', 't': t, 'real': True,
                       'sig': {'kind': 'db', 'action': 'open', 'src': 'sim'}})
            for j, a in enumerate(hist):
                rec = world.step(dict(a), {}, snap=(j == len(hist) - 1))
                rec.update(t=t, sig={'kind': 'db', 'action': a['op'], 'src': 'sim'}, hist=hist[:j + 1])
                out.write(rec)
            stats['behaviours'] = stats.get('behaviours', 0) + 1
    F._ENGINE_DB = None


def db_singles(desc_file: str, out: hlib.RecWriter, stats: dict) -> None:
    """A fresh database per class and one query (thorough: every class; quick: hot + a sample),
    with the class name in a random case."""
    desc = json.load(open(desc_file))
    rng = random.Random(hlib.seed() * 1000003 + 16)
    ents = sorted(desc['bases'])
    if hlib.tier() != 'thorough':
        ents = sorted(set(desc['cross']) | set(rng.sample(ents, 60)))
    with Created() as watch:
        for t, e in enumerate(ents):
            world = World(None, watch)
            out.write({'k': 'open', 't': t, 'real': True,
                       'sig': {'kind': 'db', 'action': 'open', 'src': 'single'}})
            cased = ''.join(c.upper() if rng.random() < 0.5 else c for c in e)
            hist = [{'op': 'query', 'e': e}, {'op': 'query', 'e': e}]
            rec = world.step(hist[0], {e: cased}, snap=False)
            rec.update(t=t, sig={'kind': 'db', 'action': 'query', 'src': 'single'}, hist=hist[:1])
            out.write(rec)
            rec = world.step(hist[1], {e: e}, snap=True)
            rec.update(t=t, sig={'kind': 'db', 'action': 'query', 'src': 'single'}, hist=hist)
            out.write(rec)
            stats['singles'] = stats.get('singles', 0) + 1
    F._ENGINE_DB = None


def db_replay(replay_file: str, out: hlib.RecWriter) -> None:
    """Re-execute the history stored in a replay file (real database, or the stored synthetic layout)."""
    rp = json.load(open(replay_file))
    rec = rp['record']
    hist = rec.get('hist', [])
    with Created() as watch:
        if rec.get('model_dbs'):
            blobs, descs, conc, typed = synth_setup(rec['model_dbs'])
            world = World(blobs, watch)
            out.write({'k': 'open', 't': 0, 'real': False, 'dbs': descs, 'snap': world.snapshot(),
                       'sig': {'kind': 'db', 'action': 'open', 'src': 'replay'}})
        else:
            typed = {}
            world = World(None, watch)
            out.write({'k': 'open', 't': 0, 'real': True,
                       'sig': {'kind': 'db', 'action': 'open', 'src': 'replay'}})
        for j, a in enumerate(hist):
            r = world.step(dict(a), typed, snap=True)
            r.update(t=0, sig=dict(rec.get('sig', {}), action=a['op']), hist=hist[:j + 1])
            out.write(r)
    F._ENGINE_DB = None


# =========================================================================== the codec half
HELPER_VARIANTS = [
    # (name, [argument lists]) - every helper type with the argument shapes its parser accepts
    ('halfgridsnap', [[]]),
    ('size', [['-8 -8 -8', '8 8 8'], ['16 16 16'], ['8 8 8', '-8 -8 0']]),
    ('bbox', [['-4 -4 -4', '4 4 12']]),
    ('color', [['255 128 0'], ['0.5 1 0']]),
    ('sphere', [[], ['radius'], ['inner', '255 0 0'], ['r2', '255 255 255']]),
    ('line', [['255 255 255', 'targetname', 'target'], ['0 255 0', 'targetname', 'a', 'targetname', 'b']]),
    ('frustum', [[], ['fov', 'near', 'far', 'col', '-1'], ['45', '8', '1024', '255 255 255', '2.5'], ['fov', 'near']]),
    ('cylinder', [['255 255 255', 'targetname', 'a'], ['255 0 0', 'targetname', 'a', 'rad'],
                  ['255 0 0', 'targetname', 'a', 'rad', 'targetname', 'b'],
                  ['255 0 0', 'targetname', 'a', 'rad', 'targetname', 'b', 'rad2']]),
    ('origin', [[], ['origin'], ['pos']]),
    ('vecline', [[], ['end']]),
    ('sidelist', [[], ['faces']]),
    ('wirebox', [['mins', 'maxs']]),
    ('sweptplayerhull', [[]]),
    ('obb', [['mins', 'maxs']]),
    ('iconsprite', [[], ['editor/obsolete.vmt'], ['"sprites/a b.vmt"']]),
    ('studio', [[], ['models/editor/axis_helper.mdl']]),
    ('studioprop', [[], ['models/x.mdl']]),
    ('lightprop', [[], ['models/editor/spot.mdl']]),
    ('sprite', [[], ['sprites/glow']]),
    ('instance', [[]]), ('decal', [[]]), ('overlay', [[]]), ('overlay_transition', [[]]), ('light', [[]]),
    ('lightcone', [[], ['_in'], ['_in', '_out'], ['_in', '_out', '_col'], ['_in', '_out', '_col', '2'],
                   ['_inner_cone', '_cone', '_light', '-1.5']]),
    ('keyframe', [[], ['name']]),
    ('animator', [[]]), ('quadbounds', [[]]), ('worldtext', [[]]), ('catapult', [[]]),
    ('lightconenew', [['theta', 'phi', 'col']]),
    ('appliesto', [['P2'], ['TF2', 'CSGO'], []]),
    ('orderby', [['k2', 'k1']]),
]


def make_helper(name: str, args: list[str], known: bool = True):
    if not known:
        return UnknownHelper(name, list(args))
    return F.HELPER_IMPL[F.HelperTypes(name)].parse(list(args))


def doc_proj(ent: EntityDef) -> dict:
    """proj_ent in the shape FgdDocOps works on: list always a sequence, res_set/res, folded helper args."""
    p = proj_ent(ent)
    for kv in p['kvs']:
        if kv['list'] is None:
            kv['list'] = []
    p['res_set'] = p['res'] is not None
    p['res'] = p['res'] or []
    for h in p['helpers']:
        h['fold'] = [a.casefold() for a in h['a']]
    return p


def build_ent(p: dict) -> EntityDef:
    """The definition a projection describes, built through the API."""
    ent = EntityDef(EntityTypes(p['kind']), p['cls'])
    ent.is_alias = p['alias']
    ent.bases = list(p['bases'])
    ent.desc = p['desc']
    ent.kv_order = list(p['order'])
    for h in p['helpers']:
        ent.helpers.append(make_helper(h['n'], h['a'], h.get('known', True)))
    for kv in p['kvs']:
        typ = kv['type'] if kv['custom'] else F.VALUE_TYPE_LOOKUP[kv['type']]
        lst = None
        if typ is ValueTypes.SPAWNFLAGS:
            lst = [(int(it['b']), it['n'], it['d'], frozenset(it['tags'])) for it in kv['list']]
        elif typ is ValueTypes.CHOICES:
            lst = [(it['v'], it['n'], frozenset(it['tags'])) for it in kv['list']]
        ent.keyvalues.setdefault(kv['key'], {})[frozenset(kv['tags'])] = KVDef(
            kv['name'], typ, kv['disp'], kv['def'], kv['desc'], lst, kv['ro'], kv['rep'])
    for field, target in (('ins', ent.inputs), ('outs', ent.outputs)):
        for io_p in p[field]:
            typ = io_p['type'] if io_p['custom'] else F.VALUE_TYPE_LOOKUP[io_p['type']]
            target.setdefault(io_p['key'], {})[frozenset(io_p['tags'])] = IODef(io_p['name'], typ, io_p['desc'])
    if p['res_set']:
        ent.resources = [Resource(r['file'], FileType[r['type']], frozenset(r['tags'])) for r in p['res']]
    return ent


def sha(text: str) -> str:
    return hashlib.sha1(text.encode('utf8', 'surrogatepass')).hexdigest()[:16]


def parse_text(text: str, custom_types: bool) -> FGD:
    fsys = VirtualFileSystem({'verif.fgd': text})
    fgd = FGD()
    import warnings
    with warnings.catch_warnings():
        warnings.simplefilter('ignore')
        fgd.parse_file(fsys, fsys['verif.fgd'], eval_bases=False, ignore_unknown_valuetype=custom_types)
    return fgd


def ent_record(ent: EntityDef, cs: bool, ls: bool, src: str, text: str | None = None) -> dict:
    """Export one definition, parse the text, export what was parsed."""
    orig = doc_proj(ent)
    if text is None:
        buf = io.StringIO()
        try:
            ent.export(buf, label_spawnflags=ls, custom_syntax=cs)
            text = buf.getvalue()
        except Exception as exc:   # the writer itself fails
            return {'k': 'ent', 'opts': {'cs': cs, 'ls': ls}, 'orig': orig, 'lines': [], 'err': 'export ' + type(exc).__name__,
                    'h1': '', 'h2': '', 'sig': {'kind': 'doc', 'action': 'export', 'src': src, 'cs': cs, 'ls': ls}}
    lines = text.split('\n')
    if lines and lines[-1] == '':
        lines.pop()
    rec = {'k': 'ent', 'opts': {'cs': cs, 'ls': ls}, 'orig': orig, 'lines': lines, 'err': '', 'h1': sha(text), 'h2': '',
           'sig': {'kind': 'doc', 'action': 'export_parse', 'src': src, 'cs': cs, 'ls': ls}}
    custom = any(x['custom'] for x in orig['kvs'] + orig['ins'] + orig['outs'])
    try:
        fgd = parse_text(text, custom)
        got = fgd.entities[ent.classname.casefold()] if len(fgd.entities) == 1 else None
        if got is None:
            raise KeyError(f'{len(fgd.entities)} entities parsed')
    except Exception as exc:
        rec['err'] = type(exc).__name__ + ': ' + str(exc).split('\n')[0][:120]
        return rec
    rec['parsed'] = doc_proj(got)
    buf = io.StringIO()
    try:
        got.export(buf, label_spawnflags=ls, custom_syntax=cs)
        rec['h2'] = sha(buf.getvalue())
    except Exception as exc:
        rec['h2'] = 'export ' + type(exc).__name__
    return rec


def long_record(text: str, ext: bool, src: str) -> dict:
    buf = io.StringIO()
    F._write_longstring(buf, ext, text, indent='\t')
    written = buf.getvalue()
    secs = []
    if written:
        for piece in written.split(' +\n\t'):
            secs.append(piece[1:-1] if len(piece) >= 2 and piece[0] == '"' and piece[-1] == '"' else '<unquoted>' + piece)
    rec = {'k': 'long', 'ext': ext, 'text': text, 'secs': secs, 'err': '', 'back': '',
           'sig': {'kind': 'long', 'action': 'write_longstring', 'src': src, 'ext': ext}}
    # the real reader on a keyvalue whose description is that string
    doc = '@PointClass = verif_e\n\t[\n\tk(string) : "D" : "d" : ' + written + '\n\t]\n'
    try:
        fgd = parse_text(doc, False)
        rec['back'] = fgd['verif_e'].keyvalues['k'][frozenset()].desc
    except Exception as exc:
        rec['err'] = type(exc).__name__
    return rec


# --------------------------------------------------------------------------- random definitions
WORDS = ['Name', 'Target', 'the', 'of', 'Start', 'Disabled', 'speed', '(0-255)', 'x:', 'A/B', 'caf\xe9', '100%', '#1']


def rnd_text(rng: random.Random, special: bool, longish: bool = False) -> str:
    r = rng.random()
    if r < 0.12:
        return ''
    n = rng.randint(1, 6) if not longish else rng.randint(150, 700)
    out = []
    for _ in range(n):
        w = rng.choice(WORDS)
        if special and rng.random() < 0.15:
            w += rng.choice(['"', '\\', '\n', '\t', "'", '\\n', '""', '\\\\'])
        out.append(w)
    return ' '.join(out)


def rnd_tags(rng: random.Random) -> list[str]:
    r = rng.random()
    if r < 0.7:
        return []
    pool = ['P2', 'TF2', 'CSGO', 'MBASE', 'INST_IO']
    n = rng.randint(1, 3)
    return sorted((rng.choice(['', '', '+', '!', '-']) + t) for t in rng.sample(pool, n))


def rnd_ent(rng: random.Random, n: int, plain_safe: bool) -> dict:
    """A random definition as a projection; plain_safe keeps strings inside what the original
    (non-custom) syntax can express in defaults and choice lists."""
    special = True
    types = [t.value for t in ValueTypes if t not in (ValueTypes.SPAWNFLAGS, ValueTypes.CHOICES)]
    kvs, order = [], []
    for j in range(rng.randint(0, 7)):
        name = rng.choice(['Speed', 'targetname', 'StartDisabled', 'model', 'my_key', 'Angles']) + str(j)
        variants = [[]] if rng.random() < 0.8 else [[], ['P2'], ['+MBASE', 'TF2']][:rng.randint(2, 3)]
        for tags in variants:
            typ = rng.choice(types)
            r = rng.random()
            lst = []
            dflt = rng.choice(['', '', '0', '1', '-5', '3.5', 'a b', 'models/x.mdl', '0 0 0',
                               # number-like, but not something a bare token can carry
                               rng.choice([' 5', '12 ', '+3', '1_0', '1e5', 'inf', 'nan', '-', '--5', '\u0665', '\uff11\uff12', ' -7 ', '1e+5'])])
            disp = rnd_text(rng, special) or 'Caption'
            desc = rnd_text(rng, special, longish=rng.random() < 0.15)
            if r < 0.15:
                typ = 'choices'
                lst = [{'v': rng.choice(['0', '1', '2', '-1', '0.5', 'on', 'a b', 'x/y', '1e5', '.5', '1_0', 'inf', '-', '--5', '0x10']),
                        'n': rnd_text(rng, False) or 'Choice',
                        'tags': rnd_tags(rng)} for _ in range(rng.randint(0, 4))]
            kv = {'key': name.casefold(), 'name': name, 'tags': tags, 'type': typ, 'custom': False, 'disp': disp,
                  'def': dflt, 'desc': desc, 'ro': rng.random() < 0.1, 'rep': rng.random() < 0.1, 'list': lst}
            kvs.append(kv)
        order.append(name.casefold())
    if rng.random() < 0.5:
        bits = rng.sample(range(0, 24), rng.randint(0, 5))
        kvs.append({'key': 'spawnflags', 'name': 'spawnflags', 'tags': [], 'type': 'flags', 'custom': False,
                    'disp': 'spawnflags', 'def': '', 'desc': '', 'ro': False, 'rep': False,
                    'list': [{'b': str(1 << b), 'n': rnd_text(rng, special) , 'd': rng.random() < 0.5, 'tags': rnd_tags(rng)} for b in bits]})
        order.append('spawnflags')
    if rng.random() < 0.3:
        rng.shuffle(order)
    if rng.random() < 0.2:
        order = order[:len(order) // 2]
    ios = {}
    for field in ('ins', 'outs'):
        items = []
        for j in range(rng.randint(0, 4)):
            name = rng.choice(['Enable', 'SetSpeed', 'OnTrigger', 'Kill']) + str(j)
            variants = [[]] if rng.random() < 0.85 else [[], ['P2']]
            for tags in variants:
                items.append({'key': name.casefold(), 'name': name, 'tags': tags,
                              'type': rng.choice([t.value for t in ValueTypes]), 'custom': False,
                              'desc': rnd_text(rng, special, longish=rng.random() < 0.05)})
        ios[field] = items
    helpers = []
    for _ in range(rng.randint(0, 3)):
        name, variants = rng.choice(HELPER_VARIANTS)
        if name == 'orderby':
            continue
        helpers.append({'n': name, 'a': list(rng.choice(variants)), 'known': True})
    if rng.random() < 0.1:
        helpers.append({'n': 'vendorhelper', 'a': ['a', 'b c'], 'known': False})
    res_set = rng.random() < 0.4
    res_types = [t.name for t in FileType if t.name not in ('SOUNDSCRIPT', 'PARTICLE_FILE', 'PARTICLE_SYSTEM')]
    res = [{'type': rng.choice(res_types), 'file': rng.choice(['models/a.mdl', 'Weapon.Fire', 'a b', 'x"y\\z']),
            'tags': rnd_tags(rng)} for _ in range(rng.randint(0, 3))] if res_set else []
    nb = rng.choice([0, 0, 1, 2])
    return {'cls': f'verif_ent_{n}', 'kind': rng.choice([k.value for k in EntityTypes]), 'alias': False,
            'bases': [f'BaseThing{b}' for b in range(nb)], 'helpers': helpers,
            'desc': rnd_text(rng, special, longish=rng.random() < 0.1), 'order': order, 'kvs': kvs,
            'ins': ios['ins'], 'outs': ios['outs'], 'res_set': res_set, 'res': res}


def doc_cases(case_file: str, out: hlib.RecWriter, stats: dict) -> None:
    """Every (definition, options) pair TLC enumerated, built through the API and run."""
    stats['cases'] = stats['unbuildable'] = 0
    for case in json.load(open(case_file)):
        try:
            ent = build_ent(case['doc'])
        except (ValueError, TypeError) as exc:
            # a typed helper whose own parser does not take these arguments: not a value of the API
            if not case['doc']['helpers']:
                raise
            stats['unbuildable'] += 1
            continue
        rec = ent_record(ent, case['opts']['cs'], case['opts']['ls'], 'mc')
        if rec['orig'] != {**case['doc'], 'helpers': rec['orig']['helpers']}:
            # the built definition must be the model's one (helpers carry implementation detail 'v')
            diff = [k for k in case['doc'] if k != 'helpers' and rec['orig'].get(k) != case['doc'][k]]
            raise SystemExit(f'MACHINERY: built definition differs from the model case in {diff}')
        out.write(rec)
        stats['cases'] += 1


def doc_random(out: hlib.RecWriter, stats: dict) -> None:
    rng = random.Random(hlib.seed() * 65537 + 1600)
    thorough = hlib.tier() == 'thorough'
    for n in range(1500 if thorough else 100):
        p = rnd_ent(rng, n, False)
        ent = build_ent(p)
        for cs, ls in ((True, True), (True, False)) + (((False, True),) if n % 3 == 0 else ()):
            out.write(ent_record(ent, cs, ls, 'random'))
    # every helper shape on its own, both syntaxes
    n = 0
    for name, variants in HELPER_VARIANTS:
        for args in variants:
            n += 1
            p = {'cls': f'verif_h_{n}', 'kind': 'pointclass', 'alias': False, 'bases': [], 'desc': '',
                 'helpers': [{'n': name, 'a': args, 'known': True}], 'order': ['k1', 'k2'],
                 'kvs': [{'key': k, 'name': k, 'tags': [], 'type': 'integer', 'custom': False, 'disp': k.upper(), 'def': '',
                          'desc': '', 'ro': False, 'rep': False, 'list': []} for k in ('k1', 'k2')],
                 'ins': [], 'outs': [], 'res_set': False, 'res': []}
            ent = build_ent(p)
            for cs in (True, False):
                out.write(ent_record(ent, cs, True, 'helper'))
    stats['random'] = out.n


def long_strings(out: hlib.RecWriter, stats: dict) -> None:
    """_write_longstring at the real LIMIT: escapes placed around positions 999..1001, newlines
    below and above the 128 threshold, no spaces / spaces, 900..5000 characters; plus short ones."""
    rng = random.Random(hlib.seed() * 31337 + 1601)
    thorough = hlib.tier() == 'thorough'
    specials = ['"', '\\', '\n', '\t', "'"]
    for text in ['', 'a', 'a b', '"', '\\', 'a\nb', "it's", 'x' * 1000, 'x' * 1001, ('word ' * 250), 'y' * 2500]:
        for ext in (True, False):
            if not ext and '\\' in text:
                continue
            out.write(long_record(text, ext, 'fixed'))
    for n in range(600 if thorough else 90):
        ext = rng.random() < 0.7
        spaced = rng.random() < 0.5
        length = rng.randint(900, 5000 if thorough else 2600)
        chars = []
        filler = 'abcdefgh' + (' ' if spaced else '')
        for _ in range(length):
            chars.append(rng.choice(filler))
        # special characters near the split points of the escaped text
        pool = specials if ext else ['"', '\n']
        for centre in (1000, 2000, 3000):
            for _ in range(rng.randint(0, 3)):
                pos = centre + rng.randint(-6, 2)
                if 0 <= pos < length:
                    chars[pos] = rng.choice(pool)
        if rng.random() < 0.5:
            chars[rng.randint(0, min(length - 1, 200))] = '\n'     # an early newline (below/above 128)
        for _ in range(rng.randint(0, 4)):
            chars[rng.randrange(length)] = rng.choice(pool)
        out.write(long_record(''.join(chars), ext, 'random'))
    stats['long'] = out.n


def entity_blocks(text: str) -> list[str]:
    """Hashes of the entity blocks of a whole-file export, in file order."""
    parts = text.split('\n@')
    return [sha('@' + part) for part in parts[1:]]


def parse_whole(text: str, eval_bases: bool) -> FGD:
    fsys = VirtualFileSystem({'verif.fgd': text})
    fgd = FGD()
    fgd.parse_file(fsys, fsys['verif.fgd'], eval_bases=eval_bases)
    return fgd


def generations(text1: str, cs: bool, ls: bool, eval_bases: bool, first=None) -> dict:
    """text1 -> parse -> text2 -> parse -> text3, and whether text2 can be read the default way.
    (`first`: text1 already parsed with this eval_bases setting.)"""
    rec = {'err': '', 'h1': sha(text1), 'h2': '', 'h3': '', 'blocks1': entity_blocks(text1), 'blocks2': [], 'default_parse': ''}
    try:
        second = first if first is not None else parse_whole(text1, eval_bases)
        text2 = second.export(label_spawnflags=ls, custom_syntax=cs)
        rec['h2'] = sha(text2)
        rec['blocks2'] = entity_blocks(text2)
        third = None
        try:
            third = parse_whole(text2, True)
        except Exception as exc:
            rec['default_parse'] = type(exc).__name__ + ': ' + str(exc).split('\n')[0][:80]
        if not eval_bases or third is None:
            third = parse_whole(text2, eval_bases)
        text3 = third.export(label_spawnflags=ls, custom_syntax=cs)
        rec['h3'] = sha(text3)
    except Exception as exc:
        rec['err'] = type(exc).__name__ + ': ' + str(exc).split('\n')[0][:100]
    return rec


def bundled(out: hlib.RecWriter, stats: dict) -> None:
    """The whole bundled database as one long trace: load, export everything to one file, parse it
    (the default way: bases resolved while reading), compare every definition, export again and once
    more.  The file text is cut into per-entity parts by the lengths of the individual exports; TLC
    checks every part against ExportLines and the sum.  quick: one option combination and a
    seed-rotated third of the per-entity records (the file-level records are always complete)."""
    thorough = hlib.tier() == 'thorough'
    F._ENGINE_DB = None
    whole = FGD.engine_dbase()
    want = len(EntityDef.engine_classes())
    sig = {'kind': 'file', 'action': 'bundled', 'src': 'bundled'}
    out.write({'k': 'file', 'step': 'load', 'count': len(whole.entities), 'want': want, 'sig': dict(sig, action='load')})
    combos = [(True, True), (False, True), (True, False), (False, False)] if thorough else [[(True, True)], [(False, False)], [(True, False)]][hlib.seed() % 3]
    for cs, ls in combos:
        text = whole.export(label_spawnflags=ls, custom_syntax=cs)
        order = list(whole.sorted_ents())
        header = text.index('\n@') if '\n@' in text else len(text)
        pos = header
        order_rec = []
        parts = {}
        for ent in order:
            buf = io.StringIO()
            ent.export(buf, label_spawnflags=ls, custom_syntax=cs)
            own = buf.getvalue()
            part = text[pos:pos + 1 + len(own)]
            parts[ent.classname] = part[1:] if part[:1] == '\n' else '<no blank line>' + part
            pos += 1 + len(own)
            order_rec.append({'cls': ent.classname, 'cp': [ord(c) for c in ent.classname],
                              'bases': [b.classname if isinstance(b, EntityDef) else b for b in ent.bases],
                              'len': len(own)})
        out.write({'k': 'file', 'step': 'order', 'opts': {'cs': cs, 'ls': ls}, 'order': order_rec, 'count': len(whole.entities),
                   'header': header, 'total': len(text), 'sig': dict(sig, action='export', cs=cs, ls=ls)})
        # parse the whole file the default way
        parsed = None
        try:
            parsed = parse_whole(text, True)
            out.write({'k': 'file', 'step': 'parse', 'opts': {'cs': cs, 'ls': ls}, 'err': '', 'count': len(parsed.entities),
                       'want': len(whole.entities), 'sig': dict(sig, action='parse', cs=cs, ls=ls)})
        except Exception as exc:
            msg = str(exc)
            line_no = int(msg.split('line ')[1].split(',')[0]) if 'line ' in msg else 0
            lines = text.split('\n')
            out.write({'k': 'file', 'step': 'parse', 'opts': {'cs': cs, 'ls': ls}, 'err': type(exc).__name__ + ': ' + msg.split('\n')[0],
                       'count': 0, 'want': len(whole.entities), 'near': lines[max(0, line_no - 2):line_no],
                       'sig': dict(sig, action='parse', cs=cs, ls=ls)})
        # every definition: its part of the file text, and what came back
        for n, ent in enumerate(order):
            if not thorough and n % 3 != hlib.seed() % 3 and n > 0:
                continue
            # (the entity's own export; its place in the file is found by reading the file)
            rec = ent_record(ent, cs, ls, 'bundled')
            if parsed is not None:
                got = parsed.entities.get(ent.classname.casefold())
                if got is not None:
                    rec['parsed'] = doc_proj(got)
            out.write(rec)
        # the generations of the file: bases resolved while reading (the default), and bases kept as names
        for mode, eval_bases in (('default', True), ('names', False)):
            rec = generations(text, cs, ls, eval_bases, first=parsed if eval_bases else None)
            rec.update({'k': 'file', 'step': 'generations', 'mode': mode, 'opts': {'cs': cs, 'ls': ls},
                        'sig': dict(sig, action='reexport', mode=mode, cs=cs, ls=ls)})
            out.write(rec)
    F._ENGINE_DB = None
    stats['bundled'] = out.n


def binary(out: hlib.RecWriter, stats: dict) -> None:
    """serialise()/unserialise(): the bundled definitions plus generated engine-format ones (riding
    along, so that the writer has its 512 shared strings), every definition compared after loading
    one at a time in a seeded order; definitions the format cannot hold must be refused."""
    rng = random.Random(hlib.seed() * 7 + 1602)
    thorough = hlib.tier() == 'thorough'
    F._ENGINE_DB = None
    whole = FGD.engine_dbase()
    F._ENGINE_DB = None
    extra = []
    types = [t.value for t in ValueTypes if t not in (ValueTypes.CHOICES,)]
    for n in range(200 if thorough else 40):
        p = rnd_ent(rng, n, True)
        p['cls'] = f'verif_bin_{n}'
        p['bases'] = [rng.choice(['prop_dynamic', 'info_target', 'func_door'])] if rng.random() < 0.3 else []
        p['alias'] = bool(p['bases']) and rng.random() < 0.5
        p['kvs'] = [kv for kv in p['kvs'] if not kv['tags'] and kv['type'] != 'choices']
        seen = set()
        p['kvs'] = [kv for kv in p['kvs'] if not (kv['key'] in seen or seen.add(kv['key']))]
        for kv in p['kvs']:
            if kv['type'] == 'flags':
                for it in kv['list']:
                    it['tags'] = []
        for field in ('ins', 'outs'):
            seen = set()
            p[field] = [x for x in p[field] if not x['tags'] and not (x['key'] in seen or seen.add(x['key']))]
        ent = build_ent(p)
        ent.bases = [whole[b] for b in p['bases']]
        whole.entities[ent.classname.casefold()] = ent
        extra.append(ent)
    before = {key: doc_proj(ent) for key, ent in whole.entities.items()}
    buf = io.BytesIO()
    sig = {'kind': 'bin', 'action': 'serialise', 'src': 'bundled+random'}
    try:
        with contextlib.redirect_stdout(io.StringIO()):
            EDB.serialise(whole, buf)
    except Exception as exc:
        for key, p in before.items():
            out.write({'k': 'bin', 'orig': p, 'err': type(exc).__name__, 'root': '_CBaseEntity_', 'sig': sig})
        return
    db = EDB.unserialise(io.BytesIO(buf.getvalue()))
    keys = sorted(before)
    rng.shuffle(keys)
    if not thorough:
        keys = list(dict.fromkeys([k for k in keys if k.startswith('verif_bin_')] + [CBASE] + keys[:200]))
    for key in keys:
        p = before[key]
        try:
            got = db.get_ent(p['cls'])
            out.write({'k': 'bin', 'orig': p, 'got': doc_proj(got), 'err': '', 'root': '_CBaseEntity_',
                       'sig': dict(sig, src='random' if key.startswith('verif_bin_') else 'bundled')})
        except Exception as exc:
            out.write({'k': 'bin', 'orig': p, 'err': type(exc).__name__, 'root': '_CBaseEntity_', 'sig': sig})
    # what the format cannot hold is refused, not silently altered
    for what in ('tags', 'choices', 'iotags'):
        F._ENGINE_DB = None
        fgd = FGD.engine_dbase()
        F._ENGINE_DB = None
        ent = EntityDef(EntityTypes.POINT, 'verif_refused')
        if what == 'tags':
            ent.keyvalues['k'] = {frozenset({'P2'}): KVDef('k', ValueTypes.INT, 'K')}
        elif what == 'choices':
            ent.keyvalues['k'] = {frozenset(): KVDef('k', ValueTypes.CHOICES, 'K', '0', '', [('0', 'No', frozenset())])}
        else:
            ent.inputs['i'] = {frozenset({'P2'}): IODef('I')}
        fgd.entities['verif_refused'] = ent
        err = ''
        try:
            with contextlib.redirect_stdout(io.StringIO()):
                EDB.serialise(fgd, io.BytesIO())
        except ValueError:
            err = 'ValueError'
        except Exception as exc:
            err = type(exc).__name__
        out.write({'k': 'bin', 'orig': doc_proj(ent), 'err': err, 'root': '_CBaseEntity_', 'sig': dict(sig, action='refuse', src=what)})
    # a small FGD (fewer than 512 distinct strings) must serialise too
    small = FGD()
    small.entities['_cbaseentity_'] = EntityDef(EntityTypes.BASE, '_CBaseEntity_')
    e1 = EntityDef(EntityTypes.POINT, 'verif_small')
    e1.keyvalues['k'] = {frozenset(): KVDef('k', ValueTypes.INT, 'K', '1')}
    small.entities['verif_small'] = e1
    p = doc_proj(e1)
    try:
        b2 = io.BytesIO()
        with contextlib.redirect_stdout(io.StringIO()):
            EDB.serialise(small, b2)
        got = EDB.unserialise(io.BytesIO(b2.getvalue())).get_ent('verif_small')
        out.write({'k': 'bin', 'orig': p, 'got': doc_proj(got), 'err': '', 'root': '_CBaseEntity_', 'sig': dict(sig, src='small')})
    except BaseException as exc:
        out.write({'k': 'bin', 'orig': p, 'err': type(exc).__name__, 'root': '_CBaseEntity_', 'sig': dict(sig, src='small')})
    stats['bin'] = out.n


def bin_cases(case_file: str, out: hlib.RecWriter, stats: dict) -> None:
    """The binary database against the ORIGINAL definitions: every case TLC enumerated is built
    through the API; the representable ones ride along with the bundled definitions through one
    serialise(), and are then read both lazily (get_ent, seeded order) and all at once (get_fgd);
    the others must each be refused.  Plus: every entity of an FGD must come back at all."""
    import warnings
    cases = json.load(open(case_file))
    rng = random.Random(hlib.seed() * 13 + 1603)
    F._ENGINE_DB = None
    whole = FGD.engine_dbase()
    F._ENGINE_DB = None
    sig = {'kind': 'bin', 'action': 'serialise', 'src': 'mc'}
    orig: dict = {}
    refused = []
    for n, case in enumerate(cases):
        p = dict(case['doc'])
        p['cls'] = f'verif_case_{n}'
        ent = build_ent(p)
        built = doc_proj(ent)
        diff = [k for k in p if k != 'helpers' and built.get(k) != p[k]]
        if diff:
            raise SystemExit(f'MACHINERY: built definition differs from the model case in {diff}')
        if case['rep']:
            whole.entities[p['cls']] = ent
            orig[p['cls']] = built
        else:
            refused.append((ent, built))
    buf = io.BytesIO()
    err = ''
    try:
        with contextlib.redirect_stdout(io.StringIO()), warnings.catch_warnings():
            warnings.simplefilter('ignore')
            EDB.serialise(whole, buf)
    except Exception as exc:
        err = type(exc).__name__
    if err:
        for key, p in orig.items():
            out.write({'k': 'bin', 'orig': p, 'err': err, 'root': '_CBaseEntity_', 'sig': dict(sig, mode='serialise')})
    else:
        lazy = EDB.unserialise(io.BytesIO(buf.getvalue()))
        keys = sorted(orig)
        rng.shuffle(keys)
        try:
            full = EDB.unserialise(io.BytesIO(buf.getvalue())).get_fgd()
            full_err = ''
        except Exception as exc:
            full, full_err = None, type(exc).__name__
        for key in keys:
            for mode in ('lazy', 'full'):
                rec = {'k': 'bin', 'orig': orig[key], 'err': '', 'root': '_CBaseEntity_', 'sig': dict(sig, mode=mode)}
                try:
                    if mode == 'lazy':
                        rec['got'] = doc_proj(lazy.get_ent(orig[key]['cls']))
                    elif full is None:
                        rec['err'] = full_err
                    else:
                        rec['got'] = doc_proj(full[orig[key]['cls']])
                except Exception as exc:
                    rec['err'] = type(exc).__name__
                out.write(rec)
    # what the format cannot hold must be refused (each on a small database of bundled definitions)
    F._ENGINE_DB = None
    small_src = FGD.engine_dbase()
    F._ENGINE_DB = None
    names = ['_cbaseentity_'] + sorted(k for k in small_src.entities if k != '_cbaseentity_')[:150]
    for ent, built in refused:
        fgd = FGD()
        for k in names:
            fgd.entities[k] = small_src.entities[k]
        fgd.entities[ent.classname] = ent
        err = ''
        try:
            with contextlib.redirect_stdout(io.StringIO()), warnings.catch_warnings():
                warnings.simplefilter('ignore')
                EDB.serialise(fgd, io.BytesIO())
        except Exception as exc:
            err = type(exc).__name__
        out.write({'k': 'bin', 'orig': built, 'err': err, 'root': '_CBaseEntity_', 'sig': dict(sig, action='refuse', mode='refuse')})
    # every entity must come back: FGDs of 2..7 large entities (whatever is left over when blocks are built)
    for n_ents, n_kv in ((2, 150), (3, 100), (4, 80), (5, 60), (7, 50)):
        F._ENGINE_DB = None
        root = FGD.engine_dbase()['_CBaseEntity_']
        F._ENGINE_DB = None
        fgd = FGD()
        fgd.entities['_cbaseentity_'] = root
        want = []
        for i in range(n_ents):
            ent = EntityDef(EntityTypes.POINT, f'verif_big_{i}')
            for j in range(n_kv):
                ent.keyvalues[f'k{i}_{j}'] = {frozenset(): KVDef(f'k{i}_{j}', ValueTypes.INT, f'Caption {i} {j}', str(j))}
            fgd.entities[ent.classname] = ent
            want.append(ent.classname)
        rec = {'k': 'binset', 'want': sorted(want), 'got': [], 'err': '', 'n': n_ents,
               'sig': {'kind': 'bin', 'action': 'serialise', 'src': 'count', 'mode': 'classes'}}
        try:
            b2 = io.BytesIO()
            with contextlib.redirect_stdout(io.StringIO()):
                EDB.serialise(fgd, b2)
            rec['got'] = sorted(k for k in EDB.unserialise(io.BytesIO(b2.getvalue())).get_classnames() if k != '_cbaseentity_')
        except Exception as exc:
            rec['err'] = type(exc).__name__
        out.write(rec)
    stats['bincases'] = out.n


def doc_replay(replay_file: str, out: hlib.RecWriter) -> None:
    rp = json.load(open(replay_file))
    rec = rp['record']
    if rec['k'] == 'ent':
        ent = build_ent(rec['orig'])
        out.write(ent_record(ent, rec['opts']['cs'], rec['opts']['ls'], 'replay'))
    elif rec['k'] == 'long':
        out.write(long_record(rec['text'], rec['ext'], 'replay'))
    else:
        # whole-file and binary records depend on the bundled database: run those parts again
        stats: dict = {}
        if rec['k'] == 'bin':
            binary(out, stats)
        else:
            bundled(out, stats)


def main() -> None:
    mode = sys.argv[1]
    stats: dict = {}
    if mode == 'dbdesc':
        desc = describe_db(bundled_bytes())
        with open(sys.argv[2], 'w') as f:
            json.dump(desc, f)
        print(json.dumps({'nents': desc['nents'], 'nblocks': len(desc['blocks']), 'hot': len(desc['hot']),
                          'cross': desc['cross']}))
        return
    out = hlib.RecWriter(sys.argv[-1])
    if mode == 'dbedges':
        db_edges(sys.argv[2], out, stats)
    elif mode == 'dbsim':
        db_sim(sys.argv[2], out, stats)
    elif mode == 'dbsingles':
        db_singles(sys.argv[2], out, stats)
    elif mode == 'dbreplay':
        db_replay(sys.argv[2], out)
    elif mode == 'doccases':
        doc_cases(sys.argv[2], out, stats)
    elif mode == 'docrandom':
        doc_random(out, stats)
    elif mode == 'long':
        long_strings(out, stats)
    elif mode == 'bundled':
        bundled(out, stats)
    elif mode == 'binary':
        binary(out, stats)
    elif mode == 'bincases':
        bin_cases(sys.argv[2], out, stats)
    elif mode == 'docreplay':
        doc_replay(sys.argv[2], out)
    else:
        raise SystemExit(2)
    out.close()
    stats['records'] = out.n
    print(json.dumps(stats))


if __name__ == '__main__':
    main()
