"""C16 driver: FGD text export/parse, the binary database and its lazy loading, executed on the
real srctools code.  Python only runs the implementation, projects and serialises; every verdict
is TLC's (FgdDbTrace / FgdDocTrace).

Modes (argv[1]):
  dbdesc <out.json>                     block structure, stored base names, hot set and full-load
                                        definition hashes of the bundled fgd.lzma (constants of the run)
  dbedges <edges.json> <out.ndjson>     every transition of a small FgdDb model, replayed by its BFS
                                        path on a database serialised with exactly that block layout
  dbsim <behaviours.json> <out.ndjson>  TLC-simulated engine_def()/engine_dbase() orders on the
                                        bundled database, each on a freshly unserialised copy
  dbsingles <out.ndjson>                one fresh database per class: a single query
  doc ...                               see the second half of this file
"""
from __future__ import annotations

import contextlib
import hashlib
import io
import json
import random
import sys

from vlib import hlib

hlib.require_repo_src()
import srctools  # noqa: E402
from srctools import _engine_db as EDB  # noqa: E402
from srctools import fgd as F  # noqa: E402
from srctools.const import FileType  # noqa: E402
from srctools.fgd import (  # noqa: E402
    FGD, EntityDef, EntityTypes, IODef, KVDef, Resource, UnknownHelper, ValueTypes,
)
from srctools.filesys import VirtualFileSystem  # noqa: E402

CBASE = '_cbaseentity_'


# --------------------------------------------------------------------------- projection
def type_name(attr) -> tuple[str, bool]:
    """(type string as it appears in a file, is it a custom type)"""
    t = attr._type
    if isinstance(t, ValueTypes):
        return t.value, False
    return str(t), True


def proj_kv(key: str, tags, kv: KVDef) -> dict:
    tn, custom = type_name(kv)
    lst = None
    if kv.val_list is not None:
        lst = []
        for item in kv.val_list:
            if kv._type is ValueTypes.SPAWNFLAGS:
                bit, name, dflt, itags = item
                lst.append({'b': str(bit), 'n': name, 'd': bool(dflt), 'tags': sorted(itags)})
            else:
                val, name, itags = item
                lst.append({'v': val, 'n': name, 'tags': sorted(itags)})
    return {'key': key, 'name': kv.name, 'tags': sorted(tags), 'type': tn, 'custom': custom,
            'disp': kv.disp_name, 'def': kv.default, 'desc': kv.desc,
            'ro': bool(kv.readonly), 'rep': bool(kv.reportable), 'list': lst}


def proj_io(key: str, tags, io_def: IODef) -> dict:
    tn, custom = type_name(io_def)
    return {'key': key, 'name': io_def.name, 'tags': sorted(tags), 'type': tn, 'custom': custom,
            'desc': io_def.desc}


def proj_helper(h) -> dict:
    if isinstance(h, UnknownHelper):
        name, known = h.name, False
    else:
        name, known = h.TYPE.value, True
    return {'n': name, 'known': known, 'a': list(h.export()), 'ext': bool(h.IS_EXTENSION),
            'v': type(h).__name__ + repr(sorted((k, repr(v)) for k, v in vars(h).items()))}


def proj_ent(ent: EntityDef) -> dict:
    """Everything the property names, in the containers' own order."""
    return {
        'cls': ent.classname, 'kind': ent.type.value, 'alias': bool(ent.is_alias),
        'bases': [b.classname if isinstance(b, EntityDef) else b for b in ent.bases],
        'helpers': [proj_helper(h) for h in ent.helpers],
        'desc': ent.desc,
        'order': list(ent.kv_order),
        'kvs': [proj_kv(key, tags, kv) for key, tm in ent.keyvalues.items() for tags, kv in tm.items()],
        'ins': [proj_io(key, tags, v) for key, tm in ent.inputs.items() for tags, v in tm.items()],
        'outs': [proj_io(key, tags, v) for key, tm in ent.outputs.items() for tags, v in tm.items()],
        'res': None if ent.resources == () else
               [{'type': r.type.name, 'file': r.filename, 'tags': sorted(r.tags)} for r in ent.resources],
    }


def deep_hash(ent: EntityDef, memo: dict | None = None) -> str:
    """Hash of the definition including the definitions of all its bases, recursively."""
    if memo is None:
        memo = {}
    if id(ent) in memo:
        return memo[id(ent)]
    p = proj_ent(ent)
    p['bases'] = [deep_hash(b, memo) if isinstance(b, EntityDef) else 'str:' + b for b in ent.bases]
    h = hashlib.sha1(json.dumps(p, sort_keys=True).encode()).hexdigest()[:16]
    memo[id(ent)] = h
    return h


# --------------------------------------------------------------------------- database worlds
class Created:
    """Observes from outside which definition objects the database creates, in order."""
    def __init__(self) -> None:
        self.log: list = []
        self.orig = EDB.ent_unserialise

        def wrapper(file, classname, from_dict):
            ent = self.orig(file, classname, from_dict)
            self.log.append(ent)
            return ent
        self.wrapper = wrapper

    def __enter__(self):
        EDB.ent_unserialise = self.wrapper
        return self

    def __exit__(self, *a):
        EDB.ent_unserialise = self.orig


class World:
    """A list of freshly unserialised databases installed as srctools.fgd._ENGINE_DB, with the
    identity tokens of every definition object seen so far."""
    def __init__(self, blobs: list[bytes] | None, watch: Created) -> None:
        self.watch = watch
        self.keep: list = []            # keeps objects alive so id() stays unique
        self.tok: dict[int, tuple[int, int]] = {}
        self.next: list[int] = []
        F._ENGINE_DB = None
        start = len(watch.log)
        if blobs is None:
            F._load_engine_db()         # the bundled fgd.lzma, through the real loader
        else:
            F._ENGINE_DB = [EDB.unserialise(io.BytesIO(b)) for b in blobs]
        self.dbs = F._ENGINE_DB
        self.next = [1] * len(self.dbs)
        self.absorb(start)

    def absorb(self, start: int) -> list[list[str]]:
        """Give tokens to the objects created since log position `start`; returns per database
        the folded names in creation order."""
        created = [[] for _ in self.dbs]
        for ent in self.watch.log[start:]:
            key = ent.classname.casefold()
            for k, db in enumerate(self.dbs):
                if db.ent_map.get(key) is ent:
                    break
            else:
                k = -1   # an object that is not installed anywhere: logged as database 0
            self.keep.append(ent)
            if k >= 0:
                self.tok[id(ent)] = (k, self.next[k])
                self.next[k] += 1
                created[k].append(key)
        return created

    def token(self, obj) -> int:
        return self.tok.get(id(obj), (0, 0))[1] if isinstance(obj, EntityDef) else 0

    def snapshot(self) -> list:
        out = []
        for k, db in enumerate(self.dbs):
            obj, rb = {}, {}
            for key, val in db.ent_map.items():
                if isinstance(val, EntityDef):
                    obj[key] = self.token(val)
                    rb[key] = [self.token(b) for b in val.bases]
                else:
                    obj[key] = 0
                    rb[key] = []
            parsed = [i + 1 for i, (cls, data) in enumerate(db.unparsed) if not data]
            out.append({'parsed': parsed, 'obj': obj, 'rb': rb, 'n': self.next[k], 'fgd': db.fgd is not None})
        return out

    def step(self, a: dict, names: dict, snap: bool) -> dict:
        """Execute one model action through the public API."""
        start = len(self.watch.log)
        rec = {'k': 'step', 'a': a}
        if a['op'] in ('query', 'missing'):
            cls = names.get(a['e'], a['e'])
            try:
                got = EntityDef.engine_def(cls)
            except KeyError:
                rec.update(exc='KeyError', res=0, resdb=0, bases=[], defh='')
            else:
                rec['created'] = self.absorb(start)
                start = len(self.watch.log)
                key = cls.casefold()
                k = next(i for i, db in enumerate(self.dbs) if key in db.ent_map)
                own = self.dbs[k].ent_map[key]
                rec.update(exc='', resdb=k + 1, res=self.token(own),
                           bases=[self.token(b) for b in own.bases],
                           defh=deep_hash(got), copy=got is not own, cls_ok=got.classname.casefold() == key)
                poke(got)
        elif a['op'] == 'loadall':
            whole = FGD.engine_dbase()
            rec.update(exc='', count=len(whole.entities),
                       defs={key: deep_hash(ent) for key, ent in sorted(whole.entities.items())})
            for ent in whole.entities.values():
                poke(ent)
        elif a['op'] == 'classes':
            rec.update(exc='', classes=sorted(EntityDef.engine_classes()))
        else:
            raise ValueError(a)
        more = self.absorb(start)
        rec['created'] = [a + b for a, b in zip(rec['created'], more)] if 'created' in rec else more
        if snap:
            rec['snap'] = self.snapshot()
        return rec


def poke(ent: EntityDef) -> None:
    """The caller owns what engine_def() returned: scribble over it (and its bases).  A later
    query must not see any of this."""
    seen = set()
    todo = [ent]
    while todo:
        e = todo.pop()
        if id(e) in seen:
            continue
        seen.add(id(e))
        e.keyvalues['verif_poke'] = {frozenset(): KVDef('verif_poke', ValueTypes.STRING, 'x')}
        for tm in list(e.keyvalues.values()):
            for kv in tm.values():
                kv.disp_name = 'poked'
                if kv.val_list:
                    kv.val_list.append((1 << 30, 'poked', True, frozenset()))
        e.desc = 'poked'
        e.kv_order.append('verif_poke')
        todo.extend(b for b in e.bases if isinstance(b, EntityDef))
        e.bases.append('poked_base')


# --------------------------------------------------------------------------- the bundled database
def bundled_bytes() -> bytes:
    from importlib_resources import files
    with (files(srctools) / 'fgd.lzma').open('rb') as f:
        return f.read()


def describe_db(blob: bytes, keyof=lambda s: s.casefold()) -> dict:
    """Block layout and stored base names of a serialised database, read with the module's own
    decoding functions but without the lazy machinery under test; full-load hashes."""
    db = EDB.unserialise(io.BytesIO(blob))
    blocks, bases = [], {CBASE: []}
    for classes, data in db.unparsed:
        file = io.BytesIO(data)
        _, from_dict = EDB.BinStrDict.unserialise(file, db.base_strings)
        names = []
        for cls in classes:
            ent = EDB.ent_unserialise(file, cls, from_dict)
            names.append(cls.casefold())
            bases[cls.casefold()] = [b.casefold() for b in ent.bases]
        blocks.append(names)
    blk = {e: i for i, b in enumerate(blocks) for e in b}
    hot = set()
    for e, bs in bases.items():
        for b in bs:
            if b != CBASE and blk.get(b) != blk.get(e):
                hot.update((e, b))
            if b != CBASE:
                hot.add(e)
    full_db = EDB.unserialise(io.BytesIO(blob))
    whole = full_db.get_fgd()
    full = {key: deep_hash(ent) for key, ent in whole.entities.items()}
    return {'blocks': blocks, 'bases': bases, 'cbase': CBASE, 'full': full, 'hot': sorted(hot),
            'blk': {e: i + 1 for e, i in blk.items()},
            'nents': len(bases), 'cross': sorted(e for e in hot if any(blk.get(b) != blk.get(e) for b in bases[e] if b != CBASE))}


# --------------------------------------------------------------------------- synthetic databases
def synth_names(desc: dict) -> dict:
    """Concretisation: model key -> class name as typed (mixed case: look-ups fold)."""
    return {e: ('_CBaseEntity_' if e == desc['cbase'] else 'Verif_' + e.upper() + '_x') for e in desc['bases']}


def synth_blob(desc: dict, tagname: str) -> bytes:
    """Serialise, with the real serialise(), an FGD whose block layout is exactly desc.blocks
    (build_blocks - the size heuristics - is replaced; everything else is the real writer)."""
    names = synth_names(desc)
    fgd = FGD()
    ents = {}
    for e, cls in names.items():
        ent = EntityDef(EntityTypes.BASE if e == desc['cbase'] else EntityTypes.POINT, cls)
        if e != desc['cbase']:
            for i in range(110):    # enough distinct strings for the 512 shared-string table
                nm = f'{tagname}_{e}_{i}'
                ent.keyvalues[nm] = {frozenset(): KVDef(nm, ValueTypes.INT, f'Disp {tagname} {e} {i}', str(i))}
            ent.inputs['fire' + e] = {frozenset(): IODef('Fire' + e, ValueTypes.VOID)}
            ent.outputs['on' + e] = {frozenset(): IODef('On' + e, ValueTypes.FLOAT)}
            ent.resources = [Resource(f'models/{tagname}_{e}.mdl', FileType.MODEL)]
            ent.is_alias = bool(desc['bases'][e])
            ent.bases = [names[b] for b in desc['bases'][e]]
        else:
            ent.keyvalues['origin'] = {frozenset(): KVDef('origin', ValueTypes.VEC_ORIGIN, 'Origin ' + tagname, '0 0 0')}
        ents[e] = ent
        fgd.entities[cls.casefold()] = ent
    real_build = EDB.build_blocks

    def fixed_blocks(all_ents, ent_to_string, ent_to_size, overlaps):
        return [([ents[e] for e in blk], set().union(*(ent_to_string[ents[e]] for e in blk)))
                for blk in desc['blocks']]
    EDB.build_blocks = fixed_blocks
    try:
        buf = io.BytesIO()
        with contextlib.redirect_stdout(io.StringIO()):
            EDB.serialise(fgd, buf)
    finally:
        EDB.build_blocks = real_build
    return buf.getvalue()


def synth_world_desc(dbs: list, blobs: list) -> list:
    """The model's descriptions over the concrete (folded) class names, with full-load hashes:
    what get_fgd() gives on a fresh copy of each database."""
    out = []
    for desc, blob in zip(dbs, blobs):
        conc = {e: n.casefold() for e, n in synth_names(desc).items()}
        whole = EDB.unserialise(io.BytesIO(blob)).get_fgd()
        out.append({'blocks': [[conc[e] for e in blk] for blk in desc['blocks']],
                    'bases': {conc[e]: [conc[b] for b in bs] for e, bs in desc['bases'].items()},
                    'cbase': conc[desc['cbase']],
                    'full': {conc[e]: deep_hash(whole.entities[conc[e]]) for e in conc}})
    return out


def synth_setup(dbs: list):
    blobs = [synth_blob(d, f't{k}') for k, d in enumerate(dbs)]
    descs = synth_world_desc(dbs, blobs)
    # the layout really is the model's: the stored structure, decoded, against the description
    for d, blob in zip(descs, blobs):
        got = describe_db(blob)
        if got['blocks'] != d['blocks'] or got['bases'] != d['bases']:
            raise SystemExit(f'MACHINERY: synthetic database layout differs: {got["blocks"]} vs {d["blocks"]}')
    conc, typed = {}, {}
    for d in dbs:
        for e, n in synth_names(d).items():
            conc[e] = n.casefold()
            typed[n.casefold()] = n
    return blobs, descs, conc, typed


def db_edges(edge_file: str, out: hlib.RecWriter, stats: dict) -> None:
    data = json.load(open(edge_file))
    dbs, edges = data['dbs'], data['edges']
    blobs, descs, conc, typed = synth_setup(dbs)
    key = lambda s: json.dumps(s, sort_keys=True)
    paths = hlib.bfs_paths(edges, key)
    with Created() as watch:
        for t, e in enumerate(edges):
            path = [{'op': a['op'], **({'e': conc.get(a['e'], a['e'])} if 'e' in a else {})}
                    for a in paths[key(e['s'])] + [e['a']]]
            world = World(blobs, watch)
            out.write({'k': 'open', 't': t, 'real': False, 'dbs': descs, 'snap': world.snapshot(),
                       'sig': {'kind': 'db', 'action': 'open', 'src': 'edge'}})
            for j, a in enumerate(path):
                rec = world.step(a, typed, snap=True)
                rec.update(t=t, sig={'kind': 'db', 'action': a['op'], 'src': 'edge'}, hist=path[:j + 1],
                           model_dbs=dbs)
                out.write(rec)
            stats['edges_replayed'] = stats.get('edges_replayed', 0) + 1
    F._ENGINE_DB = None


def db_sim(beh_file: str, out: hlib.RecWriter, stats: dict) -> None:
    behs = json.load(open(beh_file))
    with Created() as watch:
        for t, hist in enumerate(behs):
            world = World(None, watch)
            out.write({'k': 'open', 't': t, 'real': True,
                       'sig': {'kind': 'db', 'action': 'open', 'src': 'sim'}})
            for j, a in enumerate(hist):
                rec = world.step(dict(a), {}, snap=(j == len(hist) - 1))
                rec.update(t=t, sig={'kind': 'db', 'action': a['op'], 'src': 'sim'}, hist=hist[:j + 1])
                out.write(rec)
            stats['behaviours'] = stats.get('behaviours', 0) + 1
    F._ENGINE_DB = None


def db_singles(desc_file: str, out: hlib.RecWriter, stats: dict) -> None:
    """A fresh database per class and one query (thorough: every class; quick: hot + a sample),
    with the class name in a random case."""
    desc = json.load(open(desc_file))
    rng = random.Random(hlib.seed() * 1000003 + 16)
    ents = sorted(desc['bases'])
    if hlib.tier() != 'thorough':
        ents = sorted(set(desc['cross']) | set(rng.sample(ents, 120)))
    with Created() as watch:
        for t, e in enumerate(ents):
            world = World(None, watch)
            out.write({'k': 'open', 't': t, 'real': True,
                       'sig': {'kind': 'db', 'action': 'open', 'src': 'single'}})
            cased = ''.join(c.upper() if rng.random() < 0.5 else c for c in e)
            hist = [{'op': 'query', 'e': e}, {'op': 'query', 'e': e}]
            rec = world.step(hist[0], {e: cased}, snap=False)
            rec.update(t=t, sig={'kind': 'db', 'action': 'query', 'src': 'single'}, hist=hist[:1])
            out.write(rec)
            rec = world.step(hist[1], {e: e}, snap=True)
            rec.update(t=t, sig={'kind': 'db', 'action': 'query', 'src': 'single'}, hist=hist)
            out.write(rec)
            stats['singles'] = stats.get('singles', 0) + 1
    F._ENGINE_DB = None


def db_replay(replay_file: str, out: hlib.RecWriter) -> None:
    """Re-execute the history stored in a replay file (real database, or the stored synthetic layout)."""
    rp = json.load(open(replay_file))
    rec = rp['record']
    hist = rec.get('hist', [])
    with Created() as watch:
        if rec.get('model_dbs'):
            blobs, descs, conc, typed = synth_setup(rec['model_dbs'])
            world = World(blobs, watch)
            out.write({'k': 'open', 't': 0, 'real': False, 'dbs': descs, 'snap': world.snapshot(),
                       'sig': {'kind': 'db', 'action': 'open', 'src': 'replay'}})
        else:
            typed = {}
            world = World(None, watch)
            out.write({'k': 'open', 't': 0, 'real': True,
                       'sig': {'kind': 'db', 'action': 'open', 'src': 'replay'}})
        for j, a in enumerate(hist):
            r = world.step(dict(a), typed, snap=True)
            r.update(t=0, sig=dict(rec.get('sig', {}), action=a['op']), hist=hist[:j + 1])
            out.write(r)
    F._ENGINE_DB = None


def main() -> None:
    mode = sys.argv[1]
    stats: dict = {}
    if mode == 'dbdesc':
        desc = describe_db(bundled_bytes())
        with open(sys.argv[2], 'w') as f:
            json.dump(desc, f)
        print(json.dumps({'nents': desc['nents'], 'nblocks': len(desc['blocks']), 'hot': len(desc['hot']),
                          'cross': desc['cross']}))
        return
    out = hlib.RecWriter(sys.argv[-1])
    if mode == 'dbedges':
        db_edges(sys.argv[2], out, stats)
    elif mode == 'dbsim':
        db_sim(sys.argv[2], out, stats)
    elif mode == 'dbsingles':
        db_singles(sys.argv[2], out, stats)
    elif mode == 'dbreplay':
        db_replay(sys.argv[2], out)
    else:
        raise SystemExit(2)
    out.close()
    stats['records'] = out.n
    print(json.dumps(stats))


if __name__ == '__main__':
    main()
