"""C08 driver: executes ID allocation histories on the real srctools objects and logs one
record per API call (projected state before/after).  Modes:
  edges <edges.json> <kind-list> <out>   replay every TLC-enumerated transition (BFS paths)
  random <out>                           seeded random histories far outside the MC bounds
"""
from __future__ import annotations

import gc
import io
import json
import random
import sys
from collections import deque

from vlib import hlib

hlib.require_repo_src()
from srctools.keyvalues import Keyvalues  # noqa: E402
from srctools.math import Vec  # noqa: E402
from srctools.vmf import VMF, IDMan, Entity, EntityFixup, EntityGroup, FixupValue, Side, Solid, VisGroup  # noqa: E402

MAN_ATTR = {'ent': 'ent_id', 'solid': 'solid_id', 'side': 'face_id', 'vis': 'vis_id', 'group': 'group_id'}
RELEASES = {'ent', 'solid', 'side'}     # kinds whose objects give the ID back when destroyed


class World:
    """Real VMFs + the objects of one kind, addressed by the spec's slot names."""
    def __init__(self, kind: str, maps: list[str], slots: list[str]) -> None:
        self.kind = kind
        self.maps = {m: VMF() for m in maps}
        self.slots = slots
        self.objs: dict[str, object] = {}
        self.where: dict[str, str] = {}
        self.inmap: dict[str, bool] = {}

    def man(self, m: str) -> IDMan:
        return getattr(self.maps[m], MAN_ATTR[self.kind])

    def project(self) -> dict:
        return {
            'man': {m: {'used': sorted(self.man(m)._used), 'pos': self.man(m).search_pos} for m in self.maps},
            'objs': {o: ({'m': self.where[o], 'id': self.objs[o].id, 'inmap': self.inmap[o]}
                         if o in self.objs else {'m': '', 'id': 0, 'inmap': False}) for o in self.slots},
        }

    def _make(self, m: str, d: int):
        vmf = self.maps[m]
        k = self.kind
        if k == 'ent':
            ent = Entity(vmf, keys={'classname': 'info_target'}, ent_id=d)
            vmf.add_ent(ent)
            return ent
        if k == 'solid':
            s = Solid(vmf, d)
            vmf.add_brush(s)
            return s
        if k == 'side':
            return Side(vmf, [Vec(0, 0, 0), Vec(1, 0, 0), Vec(0, 1, 0)], d)
        if k == 'vis':
            return VisGroup(vmf, 'v', d)
        if k == 'group':
            return EntityGroup(vmf, d)
        raise ValueError(k)

    def apply(self, a: dict, collect: bool = True) -> int:
        op = a['op']
        k = self.kind
        if op == 'create':
            obj = self._make(a['m'], a['d'])
            self.objs[a['o']] = obj
            self.where[a['o']] = a['m']
            self.inmap[a['o']] = True
            return obj.id
        if op == 'copy':
            src = self.objs[a['o']]
            vmf = self.maps[a['m']]
            if k == 'ent':
                new = src.copy(des_id=a['d'], vmf_file=vmf)
                vmf.add_ent(new)
            elif k == 'solid':
                new = src.copy(des_id=a['d'], vmf_file=vmf)
                vmf.add_brush(new)
            elif k == 'side':
                # documented: with a target map and no wish, a face copy asks for the source's ID
                if a['d'] == -1:
                    a['d'] = src.id
                new = src.copy(des_id=a['d'] if a['d'] != src.id else -1, vmf_file=vmf)
            elif k == 'vis':
                new = VisGroup(vmf, src.name, a['d'])   # VisGroup.copy() keeps no map argument
            else:
                new = EntityGroup(vmf, a['d'])
            self.objs[a['p']] = new
            self.where[a['p']] = a['m']
            self.inmap[a['p']] = True
            return new.id
        if op == 'failcreate':
            # a construction rejected for bad arguments, with a wish that is someone's ID
            vmf = self.maps[a['m']]
            try:
                if k == 'solid':
                    Solid(vmf, a['d'], [], 5)                         # visgroup_ids must be iterable
                elif k == 'side':
                    Side(vmf, [Vec(), Vec(1, 0, 0)], des_id=a['d'])   # needs exactly three points
                elif k == 'ent':
                    Entity(vmf, ent_id=a['d'], fixup=5)               # fixup must be iterable
                elif k == 'vis':
                    VisGroup(vmf, 'v', a['d'], child_groups=5, bogus=1)
                else:
                    EntityGroup(vmf, a['d'], bogus=1)
            except (TypeError, ValueError):
                pass
            else:
                raise RuntimeError(f'failcreate: the {k} constructor accepted the bad arguments')
            if collect:
                gc.collect()
            return 0
        obj = self.objs[a['o']]
        vmf = self.maps[self.where[a['o']]]
        if op == 'detach':
            if k == 'ent':
                vmf.remove_ent(obj)
            elif k == 'solid':
                vmf.remove_brush(obj)
            self.inmap[a['o']] = False
            return 0
        if op == 'attach':
            if k == 'ent':
                vmf.add_ent(obj)
            elif k == 'solid':
                vmf.add_brush(obj)
            self.inmap[a['o']] = True
            return 0
        if op in ('drop', 'forget'):
            # the object goes away for good: out of the map (the way a user removes it), then
            # no reference is kept, so CPython destroys it.
            if self.inmap[a['o']]:
                if k == 'ent':
                    vmf.remove_ent(obj)
                elif k == 'solid':
                    vmf.remove_brush(obj)
            del self.objs[a['o']], self.where[a['o']], self.inmap[a['o']]
            del obj
            if collect:   # reference counting already destroyed it; this only makes sure
                gc.collect()
            return 0
        raise ValueError(op)


def bfs_paths(edges: list, key) -> dict:
    """state key -> list of actions reaching it from the initial state (shortest)."""
    succ: dict = {}
    for e in edges:
        succ.setdefault(key(e['s']), []).append(e)
    init = None
    targets = {key(e['t']) for e in edges}
    for e in edges:
        if e['a'].get('op') != 'init' and key(e['s']) not in targets:
            init = key(e['s'])
            break
    if init is None:    # the initial state is re-entered by some edge: the state with empty history
        init = min((key(e['s']) for e in edges), key=len)
    paths = {init: []}
    todo = deque([init])
    while todo:
        s = todo.popleft()
        for e in succ.get(s, ()):
            t = key(e['t'])
            if t not in paths:
                paths[t] = paths[s] + [e['a']]
                todo.append(t)
    return paths


def norm_fix(f) -> list:
    return sorted([k, v] for k, v in f.items()) if isinstance(f, dict) else []


def replay_edges(edge_file: str, kinds: list[str], out: hlib.RecWriter, stats: dict) -> None:
    edges = [e for e in json.load(open(edge_file)) if e.get('tag') == 'EDGE']
    key = lambda s: json.dumps(s, sort_keys=True)
    paths = bfs_paths(edges, key)
    gc.collect()
    gc.freeze()   # keep the (large) edge list out of every later gc.collect()
    for kind in kinds:
        for e in edges:
            a = dict(e['a'])
            if a['op'].startswith('fix'):
                continue
            if kind not in RELEASES and a['op'] == 'drop':
                continue
            slots = sorted(e['s']['st']['objs'])
            maps = sorted(e['s']['st']['man'])
            w = World(kind, maps, slots)
            for pa in paths[key(e['s'])]:
                w.apply(dict(pa), collect=False)
            pre = w.project()
            res = w.apply(a)
            post = w.project()
            out.write({'k': 'life', 'kind': kind, 'pre': pre, 'a': a, 'res': res, 'post': post,
                       'sig': {'kind': kind, 'action': a['op'], 'src': 'edge'},
                       'hist': paths[key(e['s'])] + [a]})
            stats['edges_replayed'] = stats.get('edges_replayed', 0) + 1
            if pre != e['s']['st']:
                stats['pre_state_diverged'] = stats.get('pre_state_diverged', 0) + 1
            del w
    # fixup edges
    for e in edges:
        a = e['a']
        if not a['op'].startswith('fix'):
            continue
        fx = EntityFixup()
        for pa in paths[key(e['s'])]:
            apply_fix(fx, pa)
        pre = proj_fix(fx)
        apply_fix(fx, a)
        out.write({'k': 'fix', 'pre': pre, 'a': a, 'post': proj_fix(fx),
                   'sig': {'kind': 'fixup', 'action': a['op'], 'src': 'edge'},
                   'hist': paths[key(e['s'])] + [a]})
        stats['edges_replayed'] = stats.get('edges_replayed', 0) + 1


def proj_fix(fx: EntityFixup) -> list:
    return sorted([k, v.id] for k, v in fx._fixup.items())


def apply_fix(fx: EntityFixup, a: dict) -> None:
    if a['op'] == 'fixset':
        fx[a['v']] = 'val'
    elif a['op'] == 'fixdel':
        del fx[a['v']]


def idman_histories(out: hlib.RecWriter, rng: random.Random, n_hist: int, exhaustive_depth: int) -> None:
    """IDMan used directly: every history of get/discard up to a depth over a small ID range,
    then random long ones with large and negative IDs."""
    ops = [('get', d) for d in (-1, 0, 1, 2, 3)] + [('discard', d) for d in (0, 1, 2, 3)]

    def run(hist):
        man = IDMan()
        for j, (op, d) in enumerate(hist):
            pre = {'used': sorted(man._used), 'pos': man.search_pos}
            if op == 'get':
                res = man.get_id(d)
            elif op == 'discard':
                man.discard(d)
                res = 0
            else:
                try:
                    man.remove(d)
                except KeyError:
                    pass
                res = 0
            if j == len(hist) - 1 or hist is not None and len(hist) > exhaustive_depth:
                out.write({'k': 'idman', 'pre': pre, 'a': {'op': 'get' if op == 'get' else 'discard', 'd': d},
                           'res': res, 'post': {'used': sorted(man._used), 'pos': man.search_pos},
                           'sig': {'kind': 'idman', 'action': op, 'nonpos': d < 1, 'src': 'direct'},
                           'hist': [list(h) for h in hist[:j + 1]]})

    def rec(prefix, depth):
        if prefix:
            run(prefix)
        if depth:
            for o in ops:
                rec(prefix + [o], depth - 1)
    rec([], exhaustive_depth)
    for _ in range(n_hist):
        hist = []
        for _ in range(rng.randint(exhaustive_depth + 1, 40)):
            r = rng.random()
            d = rng.choice([-1, -1, 0, -7, rng.randint(1, 12), rng.randint(1, 12), rng.randint(1, 100000)])
            hist.append(('get' if r < 0.55 else 'discard' if r < 0.85 else 'remove', d))
        run(hist)


def random_life(out: hlib.RecWriter, rng: random.Random, n_hist: int, length: int) -> None:
    slots = [f'o{i}' for i in range(1, 9)]
    maps = ['m1', 'm2']
    for h in range(n_hist):
        kind = rng.choice(['ent', 'solid', 'side', 'vis', 'group', 'ent', 'solid'])
        w = World(kind, maps, slots)
        hist = []
        for _ in range(length):
            free = [o for o in slots if o not in w.objs]
            live = [o for o in slots if o in w.objs]
            choices = []
            if free:
                choices += ['create'] * 3
                if live:
                    choices += ['copy'] * 2
            if live:
                choices += ['drop'] * 2 + ['detach', 'attach', 'failcreate']
            op = rng.choice(choices)
            d = rng.choice([-1, -1, 0, -3, 1, 2, 3, rng.randint(1, 10), rng.randint(1, 50)])
            if op == 'create':
                a = {'op': 'create', 'o': rng.choice(free), 'm': rng.choice(maps), 'd': d}
            elif op == 'copy':
                a = {'op': 'copy', 'o': rng.choice(live), 'p': rng.choice(free), 'm': rng.choice(maps), 'd': rng.choice([-1, -1, d])}
            elif op == 'drop':
                a = {'op': 'drop' if kind in RELEASES else 'forget', 'o': rng.choice(live)}
            elif op == 'failcreate':
                victim = rng.choice(live)
                a = {'op': 'failcreate', 'm': w.where[victim], 'd': w.objs[victim].id}
            elif op == 'detach':
                c = [o for o in live if w.inmap[o]]
                if not c or kind not in ('ent', 'solid'):
                    continue
                a = {'op': 'detach', 'o': rng.choice(c)}
            else:
                c = [o for o in live if not w.inmap[o]]
                if not c:
                    continue
                a = {'op': 'attach', 'o': rng.choice(c)}
            pre = w.project()
            res = w.apply(a)
            hist.append(a)
            out.write({'k': 'life', 'kind': kind, 'pre': pre, 'a': a, 'res': res, 'post': w.project(),
                       'sig': {'kind': kind, 'action': a['op'], 'src': 'random'}, 'hist': list(hist)})


def random_parse(out: hlib.RecWriter, rng: random.Random, n_docs: int) -> None:
    """Documents with duplicated, zero, negative and missing IDs; collect the IDs of everything
    reachable from the parsed VMF, per kind."""
    for _ in range(n_docs):
        n_ent = rng.randint(1, 6)
        pool = [0, -1, -5, 1, 1, 2, 2, 3, 7, 7, rng.randint(1, 20)]
        buf = io.StringIO()
        n_solid = n_side = 0
        buf.write('versioninfo\n{\n"formatversion" "100"\n}\nworld\n{\n"id" "%d"\n"classname" "worldspawn"\n' % rng.choice(pool))

        def solid():
            nonlocal n_solid, n_side
            n_solid += 1
            s = 'solid\n{\n'
            if rng.random() < 0.85:
                s += '"id" "%d"\n' % rng.choice(pool)
            for _ in range(rng.randint(1, 4)):
                n_side += 1
                s += 'side\n{\n'
                if rng.random() < 0.85:
                    s += '"id" "%d"\n' % rng.choice(pool)
                s += ('"plane" "(0 0 0) (1 0 0) (0 1 0)"\n"material" "A"\n"uaxis" "[1 0 0 0] 0.25"\n'
                      '"vaxis" "[0 1 0 0] 0.25"\n"rotation" "0"\n"lightmapscale" "16"\n"smoothing_groups" "0"\n}\n')
            return s + '}\n'
        for _ in range(rng.randint(0, 3)):
            buf.write(solid())
        buf.write('}\n')
        for _ in range(n_ent):
            hidden = rng.random() < 0.2
            if hidden:
                buf.write('hidden\n{\n')
            buf.write('entity\n{\n')
            if rng.random() < 0.85:
                buf.write('"id" "%d"\n' % rng.choice(pool))
            buf.write('"classname" "func_x"\n')
            for _ in range(rng.randint(0, 2)):
                buf.write(solid())
            buf.write('}\n')
            if hidden:
                buf.write('}\n')
        text = buf.getvalue()
        vmf = VMF.parse(Keyvalues.parse(text))
        ents = [vmf.spawn] + list(vmf.entities)
        solids = [s for e in ents for s in e.solids]
        sides = [f for s in solids for f in s.sides]
        for kind, objs, n in (('ent', ents, n_ent + 1), ('solid', solids, n_solid), ('side', sides, n_side)):
            if n:
                out.write({'k': 'parse', 'kind': kind, 'ids': [o.id for o in objs], 'n': n,
                           'sig': {'kind': kind, 'action': 'parse', 'src': 'random'}, 'doc': text})
        # the exported text carries the same IDs (entities may sit inside "hidden" blocks,
        # brushes inside "hidden" blocks of their entity)
        exp = Keyvalues.parse(vmf.export())
        x_ents, x_solids, x_sides = [], [], []

        def first_id(kv):
            # the writer emits the object's ID as the first key; a later "id" key is user data
            # (a non-numeric "id" value in the source document is kept as an ordinary keyvalue)
            return int(next(c.value for c in kv if c.name == 'id' and not c.has_children()))

        def walk_solid(kv):
            x_solids.append(first_id(kv))
            for side in kv.find_all('side'):
                x_sides.append(first_id(side))

        def walk_ent(kv):
            x_ents.append(first_id(kv))
            for sol in kv.find_all('solid'):
                walk_solid(sol)
            for hid in kv.find_all('hidden'):
                for sol in hid.find_all('solid'):
                    walk_solid(sol)
        for blk in exp:
            if blk.name in ('world', 'entity'):
                walk_ent(blk)
            elif blk.name == 'hidden':
                for sub in blk.find_all('entity'):
                    walk_ent(sub)
        for kind, ids, n in (('ent', x_ents, n_ent + 1), ('solid', x_solids, n_solid), ('side', x_sides, n_side)):
            if n:
                out.write({'k': 'parse', 'kind': kind, 'ids': ids, 'n': n,
                           'sig': {'kind': kind, 'action': 'export', 'src': 'random'}, 'doc': text})


def random_collapse(out: hlib.RecWriter, rng: random.Random, n_hist: int) -> None:
    """IDs of everything in a map after collapsing instances of a shared template into it."""
    from srctools.instancing import Instance, InstanceFile, collapse_one, FixupStyle
    from srctools.math import Matrix
    for _ in range(n_hist):
        tmpl = VMF()
        for _ in range(rng.randint(0, 3)):
            tmpl.add_brush(tmpl.make_prism(Vec(0, 0, 0), Vec(8, 8, 8)).solid)
        for _ in range(rng.randint(0, 3)):
            e = tmpl.create_ent('info_target', origin='1 2 3', targetname='t')
            if rng.random() < 0.4:
                e.solids.append(tmpl.make_prism(Vec(0, 0, 0), Vec(4, 4, 4)).solid)
        vis = tmpl.create_visgroup('grp')
        tmpl.vis_tree[0].child_groups.append(VisGroup(tmpl, 'kid'))
        ifile = InstanceFile(tmpl)
        target = VMF()
        for _ in range(rng.randint(0, 3)):
            target.add_brush(target.make_prism(Vec(0, 0, 0), Vec(8, 8, 8)).solid)
        for _ in range(rng.randint(0, 3)):
            target.create_ent('info_null')
        keepvis = rng.random() < 0.5
        n_inst = rng.randint(1, 4)
        for j in range(n_inst):
            inst = Instance(f'inst{j}', 'x.vmf', Vec(rng.randint(-64, 64), 0, 0), Matrix.from_yaw(90 * rng.randint(0, 3)),
                            rng.choice(list(FixupStyle)))
            collapse_one(target, inst, ifile, visgroup=keepvis)
            if rng.random() < 0.3 and target.entities:
                target.entities[rng.randrange(len(target.entities))].remove()
        ents = [target.spawn] + list(target.entities)
        solids = list(target.brushes) + [s for e in target.entities for s in e.solids]
        sides = [f for s in solids for f in s.sides]

        def all_vis(groups):
            for g in groups:
                yield g
                yield from all_vis(g.child_groups)
        for kind, objs in (('ent', ents), ('solid', solids), ('side', sides), ('vis', list(all_vis(target.vis_tree)))):
            if objs:
                out.write({'k': 'parse', 'kind': kind, 'ids': [o.id for o in objs], 'n': len(objs),
                           'sig': {'kind': kind, 'action': 'collapse', 'src': 'random'},
                           'hist': ['collapse', n_inst, keepvis]})


def random_nodes(out: hlib.RecWriter, rng: random.Random, n_hist: int) -> None:
    """Node IDs (the 'nodeid' key of entities in the map).  Histories start from an empty map or a
    parsed document with duplicated / missing / non-positive node IDs.  Removed entities are
    sometimes kept alive by the caller and only destroyed later (after their ID has been recycled),
    edited while outside the map, removed a second time, re-added, or copied (also in a batch):
    the node IDs in the map must stay distinct, positive and reserved in the allocator throughout."""
    pool = ['-1', '0', '1', '2', '2', '3', '5', '5', 'x']
    for _ in range(n_hist):
        hist = []
        if rng.random() < 0.3:
            doc = 'world\n{\n"id" "1"\n"classname" "worldspawn"\n}\n'
            start = [rng.choice(pool) for _ in range(rng.randint(1, 5))]
            for d in start:
                doc += 'entity\n{\n"classname" "info_node"\n'
                if rng.random() < 0.9:
                    doc += '"%s" "%s"\n' % (rng.choice(['nodeid', 'nodeid', 'NodeID']), d)
                doc += '}\n'
            vmf = VMF.parse(Keyvalues.parse(doc))
            hist.append(['parse'] + start)
        else:
            vmf = VMF()
        live = list(vmf.entities)
        kept = []       # removed from the map, but still referenced
        removed_twice = []
        for _ in range(rng.randint(2, 18)):
            r = rng.random()
            if r < 0.38 or not live:
                d = rng.choice(pool + [str(rng.randint(1, 9))])
                live.append(vmf.create_ent('info_node', nodeid=d))
                hist.append(['create', d])
            elif r < 0.5:
                e = live.pop(rng.randrange(len(live)))
                hist.append(['remove', e['nodeid', '']])
                e.remove()
                del e
            elif r < 0.62:
                e = live.pop(rng.randrange(len(live)))
                hist.append(['remove_keep', e['nodeid', '']])
                vmf.remove_ent(e)
                kept.append(e)
                del e
            elif r < 0.68 and kept:
                e = kept.pop(rng.randrange(len(kept)))
                hist.append(['destroy_kept', e['nodeid', '']])
                del e
                gc.collect()
            elif r < 0.74 and kept:
                e = kept.pop(rng.randrange(len(kept)))
                hist.append(['readd_kept', e['nodeid', '']])
                vmf.add_ent(e)
                live.append(e)
                del e
            elif r < 0.78 and kept:
                e = rng.choice(kept)
                hist.append(['remove_again', e['nodeid', '']])
                vmf.remove_ent(e)
                del e
            elif r < 0.82 and kept:
                e = rng.choice(kept)
                d = rng.choice(pool)
                hist.append(['set_kept', e['nodeid', ''], d])
                if rng.random() < 0.3:
                    del e['nodeid']
                else:
                    e['nodeid'] = d
                del e
            elif r < 0.88:
                src = rng.choice(live)
                hist.append(['copy', src['nodeid', '']])
                new = src.copy()
                vmf.add_ent(new)
                live.append(new)
                del src, new
            elif r < 0.91:
                srcs = [rng.choice(live) for _ in range(rng.randint(1, 3))]
                hist.append(['copy_batch'] + [x['nodeid', ''] for x in srcs])
                news = [x.copy() for x in srcs]
                vmf.add_ents(news)
                live.extend(news)
                del srcs, news
            elif r < 0.95:
                e = rng.choice(live)
                d = rng.choice(pool)
                hist.append(['set', e['nodeid', ''], d])
                e['nodeid'] = d
                del e
            else:
                e = rng.choice(live)
                hist.append(['delkey', e['nodeid', '']])
                del e['nodeid']
                del e
            ids = []
            for e in vmf.entities:
                try:
                    ids.append(int(e['nodeid', '']))
                except ValueError:
                    pass
            e = None
            out.write({'k': 'owned', 'kind': 'node', 'ids': ids, 'used': sorted(vmf.node_id),
                       'sig': {'kind': 'node', 'action': hist[-1][0], 'src': 'random'}, 'hist': list(hist)})


NOKEY, NONNUM = -100, -99


class NodeWorld:
    """Real VMF + entity slots for the NodeId model; project() is the model's state."""
    def __init__(self, slots):
        self.vmf = VMF()
        self.slots = {o: None for o in slots}
        self.n = 0

    def project(self):
        ents = {}
        for o, e in self.slots.items():
            if e is None:
                ents[o] = {'w': 'none', 'key': NOKEY}
                continue
            w = 'in' if any(e is x for x in self.vmf.entities) else 'out'
            if 'nodeid' not in e:
                key = NOKEY
            else:
                try:
                    key = int(e['nodeid'])
                except ValueError:
                    key = NONNUM
            ents[o] = {'w': w, 'key': key}
        man = self.vmf.node_id
        return {'man': {'used': sorted(man._used), 'pos': man.search_pos}, 'ents': ents}

    @staticmethod
    def text(k):
        return 'seven' if k == NONNUM else str(k)

    def apply(self, a):
        self.n += 1
        op = a['op']
        # the slot decides the spelling of the key, the step count which of two equivalent calls is used
        spell = {'e1': 'nodeid', 'e2': 'NodeID', 'e3': 'NODEID'}.get(a.get('p', a.get('o')), 'nodeid')
        if op == 'construct':
            keys = {'classname': 'info_node'}
            if a['k'] != NOKEY:
                keys[spell] = self.text(a['k'])
            self.slots[a['o']] = Entity(self.vmf, keys=keys)
        elif op == 'create':
            if a['k'] == NOKEY:
                self.slots[a['o']] = self.vmf.create_ent('info_node')
            else:
                self.slots[a['o']] = self.vmf.create_ent('info_node', **{spell: self.text(a['k'])})
        elif op == 'copy':
            self.slots[a['p']] = self.slots[a['o']].copy()
        elif op == 'add':
            if self.n % 2:
                self.vmf.add_ent(self.slots[a['o']])
            else:
                self.vmf.add_ents([self.slots[a['o']]])
        elif op == 'remove':
            if self.n % 2:
                self.vmf.remove_ent(self.slots[a['o']])
            else:
                self.slots[a['o']].remove()
        elif op == 'set':
            self.slots[a['o']][['nodeid', 'NodeId'][self.n % 2]] = self.text(a['k'])
        elif op == 'del':
            del self.slots[a['o']][['nodeid', 'NODEID'][self.n % 2]]
        elif op == 'destroy':
            self.slots[a['o']] = None
        else:
            raise ValueError(op)


def node_edges(edge_file: str, out: hlib.RecWriter, stats: dict) -> None:
    """Every transition of the NodeId model, reached by a shortest path, on real objects."""
    edges = json.load(open(edge_file))
    gc.freeze()
    key = lambda s: json.dumps(s, sort_keys=True)
    # TLC (one worker, breadth first) prints the edges of the initial state first; the empty map is
    # also reachable again (everything destroyed), so the root has to be named
    paths = hlib.bfs_paths(edges, key, init_key=key(edges[0]['s']))
    slots = sorted(edges[0]['s']['ents'])
    for e in edges:
        w = NodeWorld(slots)
        for a in paths[key(e['s'])]:
            w.apply(a)
        pre = w.project()
        w.apply(e['a'])
        out.write({'k': 'node', 'pre': pre, 'a': e['a'], 'post': w.project(),
                   'sig': {'kind': 'node', 'action': e['a']['op'], 'src': 'edge'},
                   'hist': paths[key(e['s'])] + [e['a']]})
        stats['edges_replayed'] = stats.get('edges_replayed', 0) + 1


def random_node_steps(out: hlib.RecWriter, rng: random.Random, n_hist: int) -> None:
    """Longer random histories over more entities and a wider ID range than the model's bounds,
    every step judged by NodeIdOps from its own logged pre-state."""
    slots = ['e1', 'e2', 'e3', 'e4', 'e5', 'e6']
    wishes = [-1, 0, 1, 2, 2, 3, 5, 5, 9, NONNUM]
    for _ in range(n_hist):
        w = NodeWorld(slots)
        hist = []
        for _ in range(rng.randint(4, 30)):
            st = w.project()['ents']
            none = [o for o in slots if st[o]['w'] == 'none']
            some = [o for o in slots if st[o]['w'] != 'none']
            outs = [o for o in slots if st[o]['w'] == 'out']
            r = rng.random()
            if (r < 0.3 or not some) and none:
                a = {'op': rng.choice(['create', 'create', 'construct']), 'o': rng.choice(none),
                     'k': rng.choice(wishes + [NOKEY])}
            elif r < 0.4 and none and some:
                a = {'op': 'copy', 'o': rng.choice(some), 'p': rng.choice(none)}
            elif r < 0.55 and outs:
                a = {'op': 'add', 'o': rng.choice(outs)}
            elif r < 0.72 and some:
                a = {'op': 'remove', 'o': rng.choice(some)}
            elif r < 0.86 and some:
                a = {'op': 'set', 'o': rng.choice(some), 'k': rng.choice(wishes)}
            elif r < 0.92 and some:
                a = {'op': 'del', 'o': rng.choice(some)}
            elif outs:
                a = {'op': 'destroy', 'o': rng.choice(outs)}
            else:
                continue
            pre = w.project()
            w.apply(a)
            hist.append(a)
            out.write({'k': 'node', 'pre': pre, 'a': a, 'post': w.project(),
                       'sig': {'kind': 'node', 'action': a['op'], 'src': 'random'}, 'hist': list(hist)})


def random_fixups(out: hlib.RecWriter, rng: random.Random, n_hist: int) -> None:
    names = ['a', 'A', '$a', 'b', '$B', 'c', 'long_name', '$x', 'y', 'Z', 'straße', 'STRASSE']
    for _ in range(n_hist):
        given = [[rng.choice(names).lstrip('$'), rng.choice([1, 1, 2, 2, 3, 5, 9])] for _ in range(rng.randint(0, 5))]
        fx = EntityFixup([FixupValue(v, 'x', i) for v, i in given])
        # folding makes names collide: the later entry of one folded name replaces the earlier
        out.write({'k': 'fixinit', 'given': [[v.casefold(), i] for v, i in given], 'post': proj_fix(fx),
                   'sig': {'kind': 'fixup', 'action': 'init', 'src': 'random'}, 'hist': given})
        hist = [['init', given]]
        for _ in range(rng.randint(1, 12)):
            r = rng.random()
            v = rng.choice(names)
            fold = v.lstrip('$').casefold() if v[0] == '$' else v.casefold()
            fold = (v[1:] if v[0] == '$' else v).casefold()
            pre = proj_fix(fx)
            if r < 0.55:
                fx[v] = 'val'
                a = {'op': 'fixset', 'v': fold}
            elif r < 0.85:
                del fx[v]
                a = {'op': 'fixdel', 'v': fold}
            else:
                import copy
                fx = rng.choice([copy.copy, copy.deepcopy, lambda f: EntityFixup(f.copy_values())])(fx)
                a = {'op': 'fixcopy', 'v': ''}
            hist.append([a['op'], v])
            if any(pre.count(p) > 1 for p in pre):
                continue
            out.write({'k': 'fix', 'pre': pre, 'a': a, 'post': proj_fix(fx),
                       'sig': {'kind': 'fixup', 'action': a['op'], 'src': 'random'}, 'hist': list(hist)})


def fixmap_project(fx: EntityFixup) -> list:
    return sorted(({'name': k, 'var': v.var, 'val': v.value, 'idx': v.id} for k, v in fx._fixup.items()),
                  key=lambda e: e['idx'])


def fixmap_exported(fx: EntityFixup) -> list:
    """What export() writes: one ("replaceNN", "$var value") line per variable, parsed back."""
    buf = io.StringIO()
    fx.export(buf, '')
    out = []
    for line in buf.getvalue().splitlines():
        key, val = [t for t in line.strip().split('"') if t.strip()]
        var, _, value = val.partition(' ')
        out.append({'idx': int(key[len('replace'):]), 'var': var.lstrip('$'), 'val': value})
    return out


def fixmap_build(state: list) -> EntityFixup:
    return EntityFixup([FixupValue(e['var'], e['val'], e['idx']) for e in state])


def fixmap_apply(fx: EntityFixup, a: dict):
    op = a['op']
    sp = ('$' if a.get('s', {}).get('dollar') else '') + a.get('s', {}).get('sp', '')
    res = 0
    if op == 'set':
        fx[sp] = a['val']
    elif op == 'del':
        del fx[sp]
    elif op == 'get':
        res = {'val': fx[sp], 'has': sp in fx}
    elif op == 'setdefault':
        res = fx.setdefault(sp, a['val'])
    elif op == 'clear':
        fx.clear()
    elif op == 'copy':
        import copy as _copy
        dup = _copy.copy(fx)
        res = [{k: e[k] for k in ('idx', 'var', 'val')} for e in fixmap_project(dup)]
        # the copy must be independent: change and grow it, the source must not move
        for key in list(dup):
            dup[key] = 'changed'
        dup['zz_new'] = 'x'
    return fx, res


def fixmap_edges(edge_file: str, out: hlib.RecWriter) -> None:
    edges = [e for e in json.load(open(edge_file)) if e.get('tag') == 'EDGE']
    for e in edges:
        a = {k: v for k, v in e['a'].items() if k != 'res'}
        pre = [{'name': x['var'].casefold(), 'var': x['var'], 'val': x['val'], 'idx': x['idx']} for x in (e['s'] or [])]
        fx = fixmap_build(pre)
        pre_real = fixmap_project(fx)
        fx, res = fixmap_apply(fx, a)
        out.write({'pre': pre_real, 'a': a, 'res': res, 'post': fixmap_project(fx), 'exported': fixmap_exported(fx),
                   'sig': {'kind': 'fixmap', 'action': a['op'], 'src': 'edge'}})


def fixmap_random(out: hlib.RecWriter, rng: random.Random, n: int) -> None:
    names = ['a', 'A', 'door', 'Door', 'DOOR', 'x_1', 'long_name', 'straße', 'STRASSE', 'ǅ', 'ǆ']   # no spaces: '$var value' lines cannot carry them
    vals = ['', '1', 'a b', 'quo"te', 'back\\slash', '$other']
    for _ in range(n):
        fx = EntityFixup()
        for _ in range(rng.randint(1, 14)):
            nm = rng.choice(names)
            s = {'name': nm.casefold(), 'sp': nm, 'dollar': rng.random() < 0.4}
            op = rng.choice(['set', 'set', 'del', 'get', 'setdefault', 'copy', 'clear'] if len(fx) else ['set', 'setdefault', 'get'])
            a = {'op': op}
            if op in ('set', 'del', 'get', 'setdefault'):
                a['s'] = s
            if op in ('set', 'setdefault'):
                a['val'] = rng.choice(vals)
            pre = fixmap_project(fx)
            fx, res = fixmap_apply(fx, a)
            rec = {'pre': pre, 'a': a, 'res': res, 'post': fixmap_project(fx),
                   'sig': {'kind': 'fixmap', 'action': op, 'src': 'random'}}
            # values containing quotes/backslashes are escaped in the export; compare those through the tokenizer
            from srctools.keyvalues import Keyvalues as _KV
            buf = io.StringIO()
            fx.export(buf, '')
            exp = []
            for kv in _KV.parse(buf.getvalue()):
                var, _, value = kv.value.partition(' ')
                exp.append({'idx': int(kv.real_name[len('replace'):]), 'var': var.lstrip('$'), 'val': value})
            rec['exported'] = exp
            out.write(rec)


def main() -> None:
    mode = sys.argv[1]
    stats: dict = {}
    if mode == 'edges':
        out = hlib.RecWriter(sys.argv[4])
        replay_edges(sys.argv[2], sys.argv[3].split(','), out, stats)
    elif mode == 'nodeedges':
        out = hlib.RecWriter(sys.argv[3])
        node_edges(sys.argv[2], out, stats)
    elif mode == 'fixmap':
        out = hlib.RecWriter(sys.argv[3])
        fixmap_edges(sys.argv[2], out)
        fixmap_random(out, random.Random(hlib.seed() * 131 + 5), 4000 if hlib.tier() == 'thorough' else 500)
    elif mode == 'random':
        out = hlib.RecWriter(sys.argv[2])
        rng = random.Random(hlib.seed() * 7919 + 8)
        thorough = hlib.tier() == 'thorough'
        idman_histories(out, rng, 3000 if thorough else 300, 4 if thorough else 3)
        random_life(out, rng, 2000 if thorough else 150, 40)
        random_parse(out, rng, 1500 if thorough else 150)
        random_nodes(out, rng, 2500 if thorough else 300)
        random_node_steps(out, rng, 2500 if thorough else 250)
        random_collapse(out, rng, 600 if thorough else 80)
        random_fixups(out, rng, 3000 if thorough else 300)
    elif mode == 'replay':
        # re-execute the history stored in a replay file against the current tree
        rp = json.load(open(sys.argv[2]))
        rec = rp['record']
        out = hlib.RecWriter(sys.argv[3])
        if rec['k'] == 'life':
            w = World(rec['kind'], sorted(rec['pre']['man']), sorted(rec['pre']['objs']))
            for a in rec['hist']:
                a = dict(a)
                pre = w.project()
                res = w.apply(a)
                out.write({'k': 'life', 'kind': rec['kind'], 'pre': pre, 'a': a, 'res': res, 'post': w.project(),
                           'sig': rec.get('sig', rp.get('sig', {'kind': rec['kind'], 'action': a['op'], 'src': 'replay'}))})
        elif rec['k'] == 'idman':
            man = IDMan()
            for op, d in rec['hist']:
                pre = {'used': sorted(man._used), 'pos': man.search_pos}
                res = 0
                if op == 'get':
                    res = man.get_id(d)
                elif op == 'discard':
                    man.discard(d)
                else:
                    try:
                        man.remove(d)
                    except KeyError:
                        pass
                out.write({'k': 'idman', 'pre': pre, 'a': {'op': 'get' if op == 'get' else 'discard', 'd': d},
                           'res': res, 'post': {'used': sorted(man._used), 'pos': man.search_pos},
                           'sig': {'kind': 'idman', 'action': op, 'src': 'replay'}})
        else:
            rec = dict(rec)
            rec.setdefault('sig', {'kind': rp.get('kind'), 'action': rp.get('action'), 'src': 'stored'})
            out.write(rec)   # documents/fixup tables: the stored record is re-validated as is
    else:
        raise SystemExit(2)
    out.close()
    stats['records'] = out.n
    print(json.dumps(stats))


if __name__ == '__main__':
    main()
