"""Output driver: every (output value) job of the Output model written by the real Output.as_keyvalue(),
read back through Keyvalues.parse + Output.parse; seeded random key/value texts for the parser alone;
Output.combine on random pairs."""
from __future__ import annotations

import json
import random
import sys

from vlib import hlib

hlib.require_repo_src()
from srctools.keyvalues import Keyvalues  # noqa: E402
from srctools.vmf import Output  # noqa: E402

NONE = ['~none~']
SYM = {'@': 'instance:', 'E': '\x1b', 'Q': '"', 'B': '\\'}


def conc(sym: list, alt: int = 0) -> str:
    out = []
    for s in sym:
        if s == '@':
            out.append(('instance:', 'Instance:', 'INSTANCE:')[alt % 3])
        else:
            out.append(SYM.get(s, s))
    return ''.join(out)


def sym(text: str) -> list:
    """Text -> symbols: every 'instance:' (any case) is the one symbol '@', 0x1B is 'E'."""
    out = []
    i = 0
    while i < len(text):
        if text[i:i + 9].casefold() == 'instance:':
            out.append('@')
            i += 9
        else:
            out.append({'\x1b': 'E', '"': 'Q', '\\': 'B'}.get(text[i], text[i]))
            i += 1
    return out


def inst_c(v, alt=0):
    return None if v == NONE else conc(v, alt)


def inst_s(v):
    return NONE if v is None else sym_plain(v)


def sym_plain(text: str) -> list:
    return sym(text)


def proj(o: Output) -> dict:
    return {'out': sym(o.output), 'instOut': inst_s(o.inst_out), 'target': sym_plain(o.target), 'inp': sym(o.input),
            'instIn': inst_s(o.inst_in), 'params': sym_plain(o.params), 'delay': list(f'{o.delay:g}'),
            'times': list(str(o.times)), 'comma': bool(o.comma_sep)}


def parse_real(key: str, val: str) -> dict:
    try:
        return {'ok': True, 'o': proj(Output.parse(Keyvalues(key, val)))}
    except ValueError:
        return {'ok': False, 'o': 0}


def main() -> None:
    mode = sys.argv[1]
    if mode == 'edges':
        edges = json.load(open(sys.argv[2]))
        out = hlib.RecWriter(sys.argv[3])
        for n, e in enumerate(edges):
            o = e['s']
            real = Output(conc(o['out'], n), conc(o['target']), conc(o['inp'], n // 3), conc(o['params']),
                          float(''.join(o['delay'])), times=int(''.join(o['times'])),
                          inst_out=inst_c(o['instOut']), inst_in=inst_c(o['instIn']), comma_sep=o['comma'])
            text = real.as_keyvalue()
            try:
                kv = list(Keyvalues.parse(text))
                key, val = kv[0].real_name, kv[0].value
            except Exception as exc:     # the written line does not even tokenise: logged, TLC rejects it
                key, val = '<unparsable: ' + type(exc).__name__ + '>', ''
            out.write({'k': 'text', 'o': o, 'key': sym(key), 'val': sym(val),
                       'parsed': parse_real(key, val), 'sig': {'kind': 'output', 'action': 'text', 'src': 'edge'}})
    else:
        out = hlib.RecWriter(sys.argv[2])
        rng = random.Random(hlib.seed() * 41 + 7)
        pieces = ['a', 'b', ',', ';', '\x1b', 'instance:', 'Instance:', 'x y', '1', '-1', '0.5', '']
        n = 20000 if hlib.tier() == 'thorough' else 3000
        for _ in range(n):
            key = ''.join(rng.choice(pieces) for _ in range(rng.randint(1, 3)))
            nf = rng.choice([3, 4, 5, 5, 5, 6, 7])
            sep = rng.choice([',', '\x1b'])
            fields = [''.join(rng.choice(['a', 'b', ';', 'instance:', '', 'p q'] + ([','] if rng.random() < 0.2 else [])) for _ in range(rng.randint(0, 2)))
                      for _ in range(nf - 2)] + [rng.choice(['0', '1.5', '2']), rng.choice(['-1', '1', '3'])]
            val = sep.join(fields)
            out.write({'k': 'parse', 'key': sym(key), 'val': sym_plain(val), 'parsed': parse_real(key, val),
                       'sig': {'kind': 'output', 'action': 'parse', 'src': 'random'}})
        for _ in range(n // 3):
            def rand_out():
                return Output(rng.choice(['OnA', 'OnB']), rng.choice(['t1', 't2', '']), rng.choice(['In1', 'In2']),
                              rng.choice(['', 'p', 'q r']), rng.choice([0.0, 0.5, 2.0]), times=rng.choice([-1, -1, 1, 2, 5, 0]),
                              inst_out=rng.choice([None, 'io']), inst_in=rng.choice([None, 'ii']), comma_sep=rng.random() < 0.5)
            a, b = rand_out(), rand_out()
            c = Output.combine(a, b)

            def pj(o):
                d = proj(o)
                d['times'] = o.times
                d.pop('delay')
                return d
            out.write({'k': 'combine', 'a': pj(a), 'b': pj(b), 'res': pj(c), 'delay_ok': c.delay == a.delay + b.delay,
                       'sig': {'kind': 'output', 'action': 'combine', 'src': 'random'}})
    out.close()
    print(json.dumps({'records': out.n}))


if __name__ == '__main__':
    main()
