"""C01 driver: runs Keyvalues.serialise / Keyvalues.parse / Tokenizer of the pinned tree and logs
one record per tree or text.  Python only executes and projects; KV1Trace (TLC) judges.

Modes:
  jobs <jobs.json> <out>     execute every job TLC explored (direction A): "rt" jobs (tree + serialise
                             options), "doc" jobs (token symbols + parse options, rendered to text in
                             several concrete spellings), "txt" jobs (a text)
  random <out>               seeded random trees and documents far outside the bounds (direction B)
  replay <replay.json> <out> re-execute the record stored in a replay file
"""
from __future__ import annotations

import io
import json
import os
import random
import sys
import tempfile
import warnings

from vlib import hlib

hlib.require_repo_src()
from srctools import keyvalues as kvmod  # noqa: E402
from srctools.keyvalues import Keyvalues, KeyValError  # noqa: E402
from srctools.tokenizer import Token, Tokenizer, TokenSyntaxError  # noqa: E402

warnings.simplefilter('ignore')
sys.setrecursionlimit(10000)

TMPDIR = tempfile.mkdtemp(prefix='c01drv_')
TMPFILE = os.path.join(TMPDIR, 'kv.txt')


# ------------------------------------------------------------------ which lines of the anchored code ran
# (sys.monitoring, each line reported once: no measurable overhead).  Only reported; props/c01.py
# turns a never-executed line of the unchanged source into a vacuity failure.
from srctools.tokenizer import BaseTokenizer  # noqa: E402

WATCHED = {
    'Keyvalues.parse': Keyvalues.parse, 'Keyvalues.serialise': Keyvalues.serialise,
    'Keyvalues._serialise': Keyvalues._serialise, 'Keyvalues.export': Keyvalues.export.__wrapped__
    if hasattr(Keyvalues.export, '__wrapped__') else Keyvalues.export,
    '_read_flag': kvmod._read_flag, 'Tokenizer._get_token': Tokenizer._get_token,
    'Tokenizer._handle_string': Tokenizer._handle_string, 'Tokenizer._handle_comment': Tokenizer._handle_comment,
    'Tokenizer._next_char': Tokenizer._next_char, 'BaseTokenizer.expect': BaseTokenizer.expect,
    'BaseTokenizer.push_back': BaseTokenizer.push_back, 'BaseTokenizer.__call__': BaseTokenizer.__call__,
}
_HIT: dict = {}


def start_line_watch() -> None:
    mon = sys.monitoring
    tool = mon.COVERAGE_ID
    mon.use_tool_id(tool, 'c01')
    by_code = {}
    for name, fn in WATCHED.items():
        code = fn.__code__
        by_code[code] = name
        _HIT[name] = set()
        mon.set_local_events(tool, code, mon.events.LINE)

    def on_line(code, line):
        name = by_code.get(code)
        if name is not None:
            _HIT[name].add(line)
        return mon.DISABLE
    mon.register_callback(tool, mon.events.LINE, on_line)


def line_report() -> dict:
    import hashlib
    import inspect
    rep = {}
    for name, fn in WATCHED.items():
        code = fn.__code__
        src, first = inspect.getsourcelines(code)
        lines = {ln for _, _, ln in code.co_lines() if ln is not None and ln > first}
        # the "def" line and lines holding only a docstring / constant are not steps of the function
        missed = sorted(ln for ln in lines - _HIT[name])
        rep[name] = {'hash': hashlib.sha1(''.join(src).encode()).hexdigest()[:12], 'lines': len(lines),
                     'missed': [[ln - first, src[ln - first].strip()] for ln in missed if 0 <= ln - first < len(src)]}
    return rep


def cps(s: str) -> list:
    return [ord(c) for c in s]


def txt(cp) -> str:
    return ''.join(map(chr, cp or ()))


# ------------------------------------------------------------------ projection
NONODE = {'n': [], 'leaf': False, 'v': [], 'k': [], 'line': 0}


def proj(kv: Keyvalues) -> dict:
    """The abstract node of KV1Ops: name (original casing), leaf/block, value, children, line."""
    val = kv._value
    leaf = not isinstance(val, list)
    name = kv._real_name
    return {'n': cps(name) if name is not None else [], 'leaf': leaf,
            'v': cps(val) if leaf else [], 'k': [] if leaf else [proj(c) for c in val],
            'line': kv.line_num or 0}


def proj_doc(kv: Keyvalues) -> dict:
    return {'root': kv._real_name is None, 'node': proj(kv)}


def build(node: dict) -> Keyvalues:
    if node['leaf']:
        return Keyvalues(txt(node['n']), txt(node['v']))
    return Keyvalues(txt(node['n']), [build(c) for c in as_list(node['k'])])


def build_doc(doc: dict) -> Keyvalues:
    if doc['root']:
        return Keyvalues.root(*[build(c) for c in as_list(doc['node']['k'])])
    return build(doc['node'])


def as_list(x):
    return [] if x in ({}, None) else x


def norm_node(node: dict) -> dict:
    """TLC prints empty tuples the same as empty records; make the JSON regular again."""
    return {'n': as_list(node['n']), 'leaf': node['leaf'], 'v': as_list(node['v']),
            'k': [norm_node(c) for c in as_list(node['k'])], 'line': node.get('line', 0)}


# ------------------------------------------------------------------ error names
LEX_ERRORS = [
    ('Reached end of line without closing "]"!', 'flag_newline'),
    ('Cannot nest [] brackets!', 'flag_nest'),
    ('Unterminated property flag!', 'flag_eof'),
    ('Cannot nest () brackets!', 'paren_nest'),
    ('Unterminated parentheses!', 'paren_eof'),
    ('No open [] to close with "]"!', 'close_bracket'),
    ('No open () to close with ")"!', 'close_paren'),
    ('Unexpected character "', 'unexpected_char'),
    ('/**/-style comments are not allowed!', 'star_comment'),
    ('Single slash found, instead of two for a comment (//)!', 'single_slash'),
    ('No character to escape!', 'no_char_to_escape'),
    ('Unterminated string!', 'unterminated_string'),
]
PARSE_ERRORS = [
    ('Keyvalues cannot have sub-section if it already has an in-line value.', 'open_without_name'),
    ('Block opening ("{{") required!', 'block_required'),
    ('Illegal newline found in key "', 'newline_key'),
    ('Illegal newline found in value "', 'newline_value'),
    ('Keyvalue split across lines!', 'split_lines'),
    ('Cannot have multiple names on the same line!', 'multiple_names'),
    ('Too many closing brackets.', 'too_many_close'),
    ('Block opening ("{") required, but hit EOF!', 'eof_expect_block'),
    ('End of text reached with remaining open sections.', 'eof_open_blocks'),
]
TOKNAME = {Token.EOF: 'EOF', Token.STRING: 'STR', Token.NEWLINE: 'NL', Token.PAREN_ARGS: 'PAREN',
           Token.DIRECTIVE: 'DIR', Token.COMMENT: 'COMMENT', Token.BRACE_OPEN: 'OPEN', Token.BRACE_CLOSE: 'CLOSE',
           Token.PAREN_OPEN: 'PAREN_OPEN', Token.PAREN_CLOSE: 'PAREN_CLOSE', Token.PROP_FLAG: 'FLAG',
           Token.BRACK_OPEN: 'BRACK_OPEN', Token.BRACK_CLOSE: 'BRACK_CLOSE', Token.COLON: 'COLON',
           Token.EQUALS: 'EQ', Token.PLUS: 'PLUS', Token.COMMA: 'COMMA'}
UNEXPECTED = [('Unexpected property flags = [', 'FLAG'), ('Unexpected parentheses block = (', 'PAREN'),
              ('Unexpected string = "', 'STR'), ('Unexpected directive "#', 'DIR'), ('Unexpected comment "//', 'COMMENT'),
              ('File ended unexpectedly!', 'EOF'), ('Unexpected newline!', 'NL'),
              ('Unexpected "=" character!', 'EQ'), ('Unexpected "," character!', 'COMMA'),
              ('Unexpected "{" character!', 'OPEN'), ('Unexpected "}" character!', 'CLOSE')]


def lex_error(mess: str):
    for prefix, kind in LEX_ERRORS:
        if mess.startswith(prefix):
            if kind == 'unexpected_char':
                return kind, cps(mess[len(prefix):-2])
            return kind, []
    return None


def parse_error(mess: str):
    """(kind, arg) of a KeyValError message."""
    le = lex_error(mess)
    if le is not None:
        return le[0], ''
    for prefix, kind in PARSE_ERRORS:
        if mess.startswith(prefix):
            return kind, ''
    if mess.startswith('Expected Token.NEWLINE, but got Token.'):
        name = mess[len('Expected Token.NEWLINE, but got Token.'):-1]
        return 'expected_newline', TOKNAME.get(getattr(Token, name, None), name)
    for prefix, tok in UNEXPECTED:
        if mess.startswith(prefix):
            return 'unexpected_token', tok
    return 'unknown:' + mess[:60], ''


# ------------------------------------------------------------------ running the real code
def run_parse(src, **opts) -> dict:
    try:
        kv = Keyvalues.parse(src, **opts)
    except KeyValError as exc:
        kind, arg = parse_error(exc.mess)
        return {'ok': False, 'err': kind, 'arg': arg, 'line': exc.line_num or 0, 'root': False, 'node': NONODE}
    except Exception as exc:   # anything that is not a KeyValError escaped from parse()
        return {'ok': False, 'err': 'crash', 'arg': type(exc).__name__, 'line': 0, 'root': False, 'node': NONODE}
    return {'ok': True, 'err': '', 'arg': '', 'line': 0, 'root': kv._real_name is None, 'node': proj(kv)}


def run_lex(text: str, esc: bool = True) -> list:
    """The token stream as Keyvalues.parse configures the tokenizer, up to EOF or the first error."""
    tk = Tokenizer(text, None, KeyValError, string_bracket=True, allow_escapes=esc)
    out = []
    try:
        while True:
            tok, val = tk()
            out.append({'t': TOKNAME[tok], 'k': '', 'v': cps(val) if tok.has_value else [], 'line': tk.line_num})
            if tok is Token.EOF:
                break
    except TokenSyntaxError as exc:
        le = lex_error(exc.mess) or ('unknown:' + exc.mess[:60], [])
        out.append({'t': 'ERR', 'k': le[0], 'v': le[1], 'line': exc.line_num or 0})
    return out


def fold_table(text: str) -> list:
    if '[' not in text and '#' not in text:
        return []
    return [[ord(c), cps(c.casefold())] for c in sorted(set(text)) if ord(c) > 127 and c.casefold() != c]


def defaults_table() -> list:
    return sorted([cps(k), bool(v)] for k, v in kvmod.FLAGS_DEFAULT.items())


def chunked(text: str, rng: random.Random) -> list:
    """Cut the text at random places; always some empty chunks and single characters."""
    if not text:
        return rng.choice([[], [''], ['', '']])
    n = len(text)
    cuts = sorted({rng.randrange(1, n) for _ in range(rng.randint(1, 6))}) if n > 1 else []
    # cuts right after a backslash and inside every CR LF / "\n pair the text may have
    for k in range(1, n):
        if text[k - 1] in '\\\r/"' and rng.random() < 0.3:
            cuts.append(k)
    cuts = sorted(set(cuts))
    parts = [text[a:b] for a, b in zip([0] + cuts, cuts + [n])]
    out = []
    for p in parts:
        if rng.random() < 0.2:
            out.append('')
        out.append(p)
    if rng.random() < 0.5:
        out.append('')
    return out


def char_chunks(text: str) -> list:
    """Every character its own chunk, an empty chunk after every third: whatever depends on where a
    chunk starts or ends shows on every character of the text."""
    out = []
    for k, c in enumerate(text):
        out.append(c)
        if k % 3 == 0:
            out.append('')
    return out or ['']


def cut_by(text: str, lens: list) -> list:
    out, pos = [], 0
    for n in lens:
        out.append(text[pos:pos + n])
        pos += n
    return out if pos == len(text) else None


def parse_three(text: str, rng: random.Random, use_real_file: bool, cuts=None, newline=None, **opts) -> tuple:
    """Parse from a str, from chunks, from a file object.  newline=None is the default text mode (used for
    serialised trees, which never hold a raw CR); documents with raw CRs are read untranslated (newline='')."""
    p_str = run_parse(text, **opts)
    chunks = (cut_by(text, cuts) if cuts is not None else None) or chunked(text, rng)
    p_chunks = run_parse(iter(chunks) if rng.random() < 0.5 else chunks, **opts)
    if use_real_file:
        with open(TMPFILE, 'w', encoding='utf-8', newline='') as f:
            f.write(text)
        with open(TMPFILE, encoding='utf-8', newline=newline) as f:
            p_file = run_parse(f, **opts)
    else:
        p_file = run_parse(io.StringIO(text), **opts)
    return p_str, p_chunks, p_file, chunks


def blockname_class(doc: dict) -> str:
    """Abstract parameter for known findings: do block names need escaping?"""
    worst = 'plain'

    def walk(node, top):
        nonlocal worst
        if node['leaf']:
            return
        if not top:
            name = txt(node['n'])
            if '"' in name or '\\' in name:
                worst = 'breaking'
            elif worst == 'plain' and kvmod.escape_text(name) != name:
                worst = 'escapable'
        for c in node['k']:
            walk(c, False)
    walk(doc['node'], doc['root'])
    return worst


def rt_record(doc: dict, opts: list, rng: random.Random, src: str, cuts=None) -> dict:
    """Serialise the tree with every option set and parse each text back three ways."""
    runs = []
    for j, o in enumerate(opts):
        kv = build_doc(doc)
        kw = {'indent': txt(o['indent']), 'indent_braces': o['braces'], 'start_indent': txt(o['start'])}
        text = kv.serialise(**kw)
        after = proj_doc(kv)
        real = j % 2 == 1
        if real:
            with open(TMPFILE, 'w', encoding='utf-8', newline='') as f:
                ret = kv.serialise(f, **kw)
            with open(TMPFILE, encoding='utf-8', newline='') as f:
                ftext = f.read()
        else:
            buf = io.StringIO()
            ret = kv.serialise(buf, **kw)
            ftext = buf.getvalue()
        if ret is not None:
            ftext = 'serialise(file) returned ' + repr(ret)
        if j == 0 and str(kv) != text:
            ftext = 'str(kv) differs'
        use_cuts = cuts[j] if cuts else ([len(c) for c in char_chunks(text)] if j == 0 and len(text) <= 4000 else None)
        p_str, p_chunks, p_file, chunks = parse_three(text, rng, real, use_cuts)
        # the text serialise(file) wrote must carry the tree as well
        p_ftext = p_str if ftext == text else run_parse(ftext)
        # an already constructed tokenizer handed to parse()
        p_tok = run_parse(Tokenizer(chunks if j % 2 else text, None, string_bracket=True))
        runs.append({'o': o, 'text': cps(text), 'ftext': cps(ftext), 'after': after, 'p_str': p_str,
                     'p_chunks': p_chunks, 'p_file': p_file, 'p_tok': p_tok, 'p_ftext': p_ftext,
                     'cuts': [len(c) for c in chunks]})
    kv = build_doc(doc)
    export = ''.join(kv.export())
    p_export = run_parse(export)
    alltext = ''.join(txt(r['text']) for r in runs)
    return {'k': 'rt', 'doc': doc, 'runs': runs, 'export': cps(export), 'p_export': p_export, 'esc': True, 'fold': fold_table(alltext),
            'sig': {'kind': 'rt', 'action': 'serialise', 'src': src, 'blockname': blockname_class(doc)}}


def doc_record(text: str, po: dict, flags: dict, esc: bool, src: str, rng: random.Random, syms=None,
               extra_sig=None, cuts=None) -> dict:
    opts = {'flags': flags, 'newline_keys': po['nk'], 'newline_values': po['nv'], 'single_line': po['sl'],
            'single_block': po['sb'], 'allow_escapes': esc}
    res, res_chunks, res_file, chunks = parse_three(text, rng, rng.random() < 0.3, cuts, '', **opts)
    sig = {'kind': 'doc', 'action': 'parse', 'src': src, 'outcome': res['err'] or 'ok'}
    sig.update(extra_sig or {})
    return {'k': 'doc', 'syms': syms or [], 'hassyms': syms is not None, 'po': po,
            'flags': sorted([cps(k), bool(v)] for k, v in flags.items()), 'defaults': defaults_table(),
            'esc': esc, 'fold': fold_table(text), 'text': cps(text), 'res': res, 'res_chunks': res_chunks,
            'res_file': res_file, 'cuts': [len(c) for c in chunks], 'toks': run_lex(text, esc), 'sig': sig}


# ------------------------------------------------------------------ rendering token symbols
SEP = [' ', '\t', '  ', ' \t']
SPELL = {
    'a': ['"a"', 'a'],
    'b': ['b', '"b"'],
    'A': ['"A"', 'A'],
    'n': ['"x\n"', '"x\r\n"', '"x\\n"', '"x\r"'],
    'nl': ['\n', '\r\n', ' // c\n', '//\n', '\t\n', '// "a" { [x\r\n'],
    '{': ['{', ' {', '{ '],
    '}': ['}', ' }', '} '],
    'on': ['[win32]', '[WIN32]', '[!x360]', '[u]', '[!ps3]', '[!]', '[!zz]'],
    'off': ['[!U]', '[x360]', '[!win32]', '[zz]', '[]', '[!u]', '[gameconsole]'],
    '=': ['=', ' ='],
    ',': [',', ', '],
    '(': ['(x)', '()', '(a b)'],
    '#': ['#D ', '# ', '#include '],
    ']': ['] ', ']'],
}
CANON = {'a': '"a" ', 'b': 'b ', 'A': '"A" ', 'n': '"x\n" ', 'nl': '\n', '{': '{', '}': '}', 'on': '[win32]',
         'off': '[!U]', '=': '=', ',': ',', '(': '(x)', '#': '#D ', ']': '] '}


def render(syms: list, rng: random.Random | None) -> str:
    if rng is None:
        return ''.join(CANON[y] for y in syms)
    out = []
    for y in syms:
        s = rng.choice(SPELL[y])
        if y in ('a', 'b', 'A', 'n', '#'):
            s += rng.choice(SEP)          # a bare word must not run into the next one
        elif rng.random() < 0.3:
            s += rng.choice(SEP)
        out.append(s)
    return ''.join(out)


def run_jobs(path: str, out: hlib.RecWriter, stats: dict) -> None:
    jobs = json.load(open(path))
    rng = random.Random(hlib.seed() * 104729 + 1)
    variants = 1
    # rt jobs: one record per tree, all its option sets together, the default options first
    by_doc: dict = {}
    for j in jobs:
        if j['kind'] == 'rt':
            doc = {'root': j['doc']['root'], 'node': norm_node(j['doc']['node'])}
            o = {'indent': as_list(j['o']['indent']), 'braces': j['o']['braces'], 'start': as_list(j['o']['start'])}
            by_doc.setdefault(json.dumps(doc, sort_keys=True), (doc, []))[1].append(o)
    for key in sorted(by_doc):
        doc, opts = by_doc[key]
        opts.sort(key=lambda o: (o != {'indent': [9], 'braces': True, 'start': []}, json.dumps(o, sort_keys=True)))
        out.write(rt_record(doc, opts, rng, 'mc'))
        stats['rt_jobs'] = stats.get('rt_jobs', 0) + len(opts)
        stats['rt_docs'] = stats.get('rt_docs', 0) + 1
    for j in jobs:
        if j['kind'] == 'doc':
            syms = as_list(j['syms'])
            po = j['po']
            for v in range(1 + variants):
                text = render(syms, None if v == 0 else rng)
                out.write(doc_record(text, po, {'u': True}, True, 'mc', rng, syms=syms,
                                     extra_sig={'expected': j['err'] or 'ok', 'variant': v}))
            stats['doc_jobs'] = stats.get('doc_jobs', 0) + 1
        elif j['kind'] == 'txt':
            text = txt(as_list(j['txt']))
            out.write(doc_record(text, j['po'], {'u': True}, j['esc'], 'mc', rng))
            stats['txt_jobs'] = stats.get('txt_jobs', 0) + 1


# ------------------------------------------------------------------ random trees and documents
SPECIAL = '"\\{}[]/#\'\t ()=,;:+*?!nrtvbfa\x00\x01\x07\x08\x0b\x0c\x1b\x7f\x85\xa0\u2028\u2029\ufeff\u00df\u0130\u01c5'


def rnd_char(rng: random.Random, value: bool) -> str:
    r = rng.random()
    if r < 0.45:
        return rng.choice(SPECIAL)
    if r < 0.55 and value:
        return rng.choice('\n\r')
    if r < 0.8:
        return chr(rng.randint(32, 126))
    while True:
        c = rng.randint(0, 0x10FFFF)
        if not 0xD800 <= c <= 0xDFFF and (value or c not in (10, 13)):
            return chr(c)


def rnd_str(rng: random.Random, value: bool, maxlen: int) -> str:
    n = rng.choice([0, 1, 1, 2, 3, rng.randint(0, maxlen)])
    return ''.join(rnd_char(rng, value) for _ in range(n))


def rnd_name(rng: random.Random, block: bool, maxlen: int) -> str:
    s = rnd_str(rng, False, maxlen)
    return s


def rnd_tree(rng: random.Random, depth: int, width: int, maxlen: int, dup: list) -> dict:
    def name(block):
        if dup and rng.random() < 0.25:
            return rng.choice(dup)
        s = rnd_name(rng, block, maxlen)
        dup.append(s)
        return s

    def node(d):
        if d == 0 or rng.random() < 0.55:
            return {'n': cps(name(False)), 'leaf': True, 'v': cps(rnd_str(rng, True, maxlen)), 'k': [], 'line': 0}
        kids = [node(d - 1) for _ in range(rng.choice([0, 1, 2, rng.randint(0, width)]))]
        return {'n': cps(name(True)), 'leaf': False, 'v': [], 'k': kids, 'line': 0}
    if rng.random() < 0.8:
        kids = [node(depth) for _ in range(rng.choice([0, 1, 2, 3, rng.randint(0, width)]))]
        return {'root': True, 'node': {'n': [], 'leaf': False, 'v': [], 'k': kids, 'line': 0}}
    return {'root': False, 'node': node(depth)}


def rnd_opts(rng: random.Random) -> list:
    ws = lambda: ''.join(rng.choice(' \t') for _ in range(rng.choice([0, 1, 1, 2, 4, 7])))
    opts = [{'indent': [9], 'braces': True, 'start': []}]
    for _ in range(3):
        opts.append({'indent': cps(ws()), 'braces': rng.random() < 0.5, 'start': cps(ws())})
    return opts


def chain_tree(rng: random.Random, depth: int) -> dict:
    node = {'n': cps(rnd_str(rng, False, 4)), 'leaf': True, 'v': cps(rnd_str(rng, True, 6)), 'k': [], 'line': 0}
    for _ in range(depth):
        sib = [{'n': cps('k'), 'leaf': True, 'v': cps(rnd_str(rng, True, 3)), 'k': [], 'line': 0}] if rng.random() < 0.5 else []
        node = {'n': cps(rng.choice(['blk', 'B', '', 'x y', rnd_str(rng, False, 3)])), 'leaf': False, 'v': [],
                'k': sib + [node], 'line': 0}
    return {'root': True, 'node': {'n': [], 'leaf': False, 'v': [], 'k': [node], 'line': 0}}


FRAGS = ['"a"', '"b"', 'a', 'b', 'key', '"Key"', '"va lue"', '"x\\ny"', '"q\\"q"', '"b\\\\"', '"t\\tt"', '"\\z"', '"multi\nline"',
         '"cr\r\nlf"', '""', '{', '}', '\n', '\n', '\n', '\r\n', '\r', ' ', '\t', '// note\n', '//\n', '/', '/*', '[win32]',
         '[!win32]', '[x360]', '[U]', '[!u]', '[zz]', '[]', '[!]', '[a\n', '[[', ']', '=', ',', '(x)', '(', ')', '#dir', '#Inc ',
         "'", ';', '"open', '\\', '\ufeff', '"\u00c9"', '[\u00c9]', '#\u00c9\u00df', ':', '+', 'a:b', '"a"\t"b"', '"a" "b" [u]\n',
         '"a" [win32]\n{\n}\n', '"n"\n{\n', '}\n']


def rnd_text(rng: random.Random) -> str:
    mode = rng.random()
    if mode < 0.5:   # a well-formed document with decorations
        lines = []
        depth = 0
        for _ in range(rng.randint(0, 14)):
            r = rng.random()
            ind = '\t' * depth
            flag = rng.choice(['', '', '', ' [win32]', ' [x360]', ' [!u]', ' [U]', ' [zz]'])
            nl = rng.choice(['\n', '\n', '\r\n', ' // c\n', '\n\n'])
            if r < 0.45:
                k = rng.choice(['"a"', 'a', '"b"', '"A"', '"k k"', 'k1'])
                v = rng.choice(['"v"', 'v', '""', '"x\\ty"', '"line\nbreak"', '"a"'])
                lines.append(f'{ind}{k} {v}{flag}{nl}')
            elif r < 0.75:
                k = rng.choice(['"a"', 'blk', '"B"', '"a"'])
                lines.append(f'{ind}{k}{flag}{nl}{ind}{{{nl}' if rng.random() < 0.8 else f'{ind}{k}{flag} {{{nl}')
                depth += 1
            elif depth and r < 0.97:
                depth -= 1
                lines.append(f'{ind}}}{nl}')
            else:
                lines.append(rng.choice(FRAGS))
        while depth and rng.random() < 0.85:
            depth -= 1
            lines.append('}' + rng.choice(['\n', '', ' ']))
        return ''.join(lines)
    return ''.join(rng.choice(FRAGS) + rng.choice(['', '', ' ', '\n']) for _ in range(rng.randint(0, 12)))


# Strings that are easy to lose on the way through text: Unicode line separators (str.splitlines,
# universal newlines), the byte order mark, CR LF pairs, control characters, quotes and backslashes
# at either end.  Every seed runs all of them, in every slot, first on the first line of the text.
HOSTILE = ['\ufeffa', 'a\ufeff', '\ufeff', '\x85a', 'a\x85b', 'a\u2028b', '\u2029', 'a\x1cb', 'a\x1db', 'a\x1eb', 'a\x0bb', 'a\x0cb',
           '\\', 'a\\', '\\n', '"', '"a"', "'", '\t', ' a ', '', '{', '}', '[a]', '//', '#a', '\x00', '\x7f', '\u00df', '\U0001f600']
HOSTILE_VALUES = ['a\r\nb', '\r\n', '\n', '\r', 'a\nb', '\n\r', ' \n ', '\\\n', 'x\r']
FIXED_OPTS = [{'indent': [9], 'braces': True, 'start': []}, {'indent': [32, 32], 'braces': False, 'start': [9]},
              {'indent': [], 'braces': True, 'start': [32, 9, 32]}]


def hostile_docs() -> list:
    L = lambda n, v: {'n': cps(n), 'leaf': True, 'v': cps(v), 'k': [], 'line': 0}
    B = lambda n, k: {'n': cps(n), 'leaf': False, 'v': [], 'k': k, 'line': 0}
    R = lambda k: {'root': True, 'node': {'n': [], 'leaf': False, 'v': [], 'k': k, 'line': 0}}
    docs = []
    for s in HOSTILE:
        docs.append(R([L(s, 'v'), L('k', s)]))
        docs.append(R([B(s, [L('k', s), B(s, [])]), L(s, s)]))
        docs.append({'root': False, 'node': B(s, [L(s, s)])})
        docs.append({'root': False, 'node': L(s, s)})
    for s in HOSTILE_VALUES:
        docs.append(R([L('k', s), B('b', [L('k', s)])]))
        docs.append({'root': False, 'node': L('k', s)})
    return docs


def run_random(out: hlib.RecWriter, stats: dict) -> None:
    rng = random.Random(hlib.seed() * 7919 + 101)
    thorough = hlib.tier() == 'thorough'
    n_small, n_big, n_docs = (4000, 60, 20000) if thorough else (250, 6, 2500)
    for doc in hostile_docs():
        out.write(rt_record(doc, FIXED_OPTS, rng, 'hostile'))
    for _ in range(n_small):
        doc = rnd_tree(rng, rng.randint(0, 6), rng.choice([2, 3, 5]), rng.choice([3, 6, 12]), [])
        out.write(rt_record(doc, rnd_opts(rng), rng, 'random'))
    for b in range(n_big):
        kind = b % 3
        if kind == 0:     # deep: 50 nested blocks
            doc = chain_tree(rng, 50)
        elif kind == 1:   # wide: 200 children
            kids = [{'n': cps(rnd_str(rng, False, 5)), 'leaf': True, 'v': cps(rnd_str(rng, True, 8)), 'k': [], 'line': 0}
                    if rng.random() < 0.8 else
                    {'n': cps(rnd_str(rng, False, 5)), 'leaf': False, 'v': [], 'k': [], 'line': 0} for _ in range(200)]
            doc = {'root': True, 'node': {'n': [], 'leaf': False, 'v': [], 'k': kids, 'line': 0}}
        else:             # long strings: 2000 characters
            leaf = {'n': cps(''.join(rnd_char(rng, False) for _ in range(2000))), 'leaf': True,
                    'v': cps(''.join(rnd_char(rng, True) for _ in range(2000))), 'k': [], 'line': 0}
            blk = {'n': cps(''.join(rng.choice('abc XYZ{}[]/#\t') for _ in range(2000))), 'leaf': False, 'v': [], 'k': [leaf], 'line': 0}
            doc = {'root': True, 'node': {'n': [], 'leaf': False, 'v': [], 'k': [blk], 'line': 0}}
        out.write(rt_record(doc, rnd_opts(rng)[:2], rng, 'random'))
    stats['random_trees'] = n_small + n_big
    for _ in range(n_docs):
        text = rnd_text(rng)
        po = {'sl': rng.random() < 0.25, 'sb': rng.random() < 0.15, 'nk': rng.random() < 0.2, 'nv': rng.random() < 0.8}
        flags = rng.choice([{}, {'u': True}, {'u': False, 'win32': False}, {'x360': True, 'zz': True, '\u00e9': True}])
        out.write(doc_record(text, po, flags, rng.random() < 0.85, 'random', rng))
    stats['random_docs'] = n_docs


def run_replay(path: str, out: hlib.RecWriter) -> None:
    rp = json.load(open(path))
    rec = rp['record']
    rng = random.Random(hlib.seed() * 31 + 5)
    if rec['k'] == 'rt':
        new = rt_record(rec['doc'], [r['o'] for r in rec['runs']], rng, 'replay', cuts=[r.get('cuts') for r in rec['runs']])
    else:
        flags = {txt(k): v for k, v in rec['flags']}
        new = doc_record(txt(rec['text']), rec['po'], flags, rec['esc'], 'replay', rng,
                         syms=rec['syms'] if rec.get('hassyms') else None, cuts=rec.get('cuts'))
    new['sig'].update({k: v for k, v in rp.items() if k in ('src',)})
    out.write(new)


def main() -> None:
    mode = sys.argv[1]
    stats: dict = {}
    start_line_watch()
    try:
        if mode == 'jobs':
            out = hlib.RecWriter(sys.argv[3])
            run_jobs(sys.argv[2], out, stats)
        elif mode == 'random':
            out = hlib.RecWriter(sys.argv[2])
            run_random(out, stats)
        elif mode == 'replay':
            out = hlib.RecWriter(sys.argv[3])
            run_replay(sys.argv[2], out)
        else:
            raise SystemExit(2)
        out.close()
        stats['records'] = out.n
        stats['lines'] = line_report()
        print(json.dumps(stats))
    finally:
        import shutil
        shutil.rmtree(TMPDIR, ignore_errors=True)


if __name__ == '__main__':
    main()
