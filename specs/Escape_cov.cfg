SPECIFICATION Spec
CONSTANTS
  Alphabet <- Alpha14
  MaxLen = 2
  StepLen = 2
  LexLen = 2
  OptSets <- EscOptSets
INVARIANT Inverse
INVARIANT NoEarlyClose
INVARIANT NoError
INVARIANT Closed
CHECK_DEADLOCK FALSE
