SPECIFICATION Spec
CONSTANTS
  W = {"w1", "w2"}
  MaxBody = 1
  Faults = 0
  Stale = {1}
  DirMissing = FALSE
  AnySplit = FALSE
  KeepHist = TRUE
  Reusers = {"w1"}
  MaxRounds = 2
  MinBody = 1
INVARIANT DestOldOrNew
INVARIANT FailedIsClean
INVARIANT DoneIsNew
INVARIANT TempsDisjoint
CONSTRAINT NoAbnormal
CONSTRAINT MixedOrig
ACTION_CONSTRAINT Canonical
ACTION_CONSTRAINT EmitPath
CHECK_DEADLOCK FALSE
