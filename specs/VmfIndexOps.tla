----------------------------- MODULE VmfIndexOps -----------------------------
(* C07.  Pure operators of the design in which the class / targetname indexes  *)
(* of a VMF always agree with the entities in the map.                         *)
(*                                                                             *)
(* A state is  [ent |-> [id -> entity], bc |-> [map -> index],                 *)
(*              bt |-> [map -> index]]                                         *)
(* entity = [home  : the VMF the object was created for ("" = slot unused),    *)
(*           inmap : it is in VMF.entities (the worldspawn counts as in),      *)
(*           spawn : it is that map's worldspawn,                              *)
(*           cls   : current raw classname ("" = no such key),                 *)
(*           name  : current raw targetname ("" = unnamed),                    *)
(*           tk    : spelling under which the targetname key is stored         *)
(*                   ("" = no such key)]                                       *)
(* index  = function from CASE-FOLDED key to the non-empty set of entity ids   *)
(*          filed under it; unnamed entities are filed under "" (the code's    *)
(*          None).  The indexes are MAINTAINED state: every operator below     *)
(*          says how the design updates them; IndexOK says what they must be.  *)
(* F = [fold |-> table raw -> folded (identity where absent),                  *)
(*      base |-> table name -> name without trailing digits (identity ...)]    *)
EXTENDS Integers, FiniteSets, Sequences, TLC

Fd(T, s) == IF s \in DOMAIN T THEN T[s] ELSE s
Range(q) == {q[i] : i \in DOMAIN q}

NoEnt == [home |-> "", inmap |-> FALSE, spawn |-> FALSE, cls |-> "", name |-> "", tk |-> ""]
Made(st) == {x \in DOMAIN st.ent : st.ent[x].home # ""}
InMap(st, m) == {x \in DOMAIN st.ent : st.ent[x].home = m /\ st.ent[x].inmap}

(* ---- what the indexes must be: a scan of the entities in the map ---------- *)
ScanBy(S, f(_)) == [k \in {f(x) : x \in S} |-> {x \in S : f(x) = k}]
ScanClass(F, st, m) == ScanBy(InMap(st, m), LAMBDA x : Fd(F.fold, st.ent[x].cls))
ScanName(F, st, m)  == ScanBy(InMap(st, m), LAMBDA x : Fd(F.fold, st.ent[x].name))
IndexOK(F, st, m) == st.bc[m] = ScanClass(F, st, m) /\ st.bt[m] = ScanName(F, st, m)
Lookup(idx, k) == IF k \in DOMAIN idx THEN idx[k] ELSE {}
NoEmpty(idx) == \A k \in DOMAIN idx : idx[k] # {}

\* search(q): exact targetname, or targetname prefix for "stem*", or exact classname.
\* q = [stem |-> folded text without the star, star |-> BOOLEAN,
\*      hits |-> folded names that start with stem (only used when star)]
Search(F, st, m, q) ==
    LET S == InMap(st, m)
        nm(x) == Fd(F.fold, st.ent[x].name)
    IN  IF q.stem = "" /\ ~q.star THEN {}
        ELSE IF q.star THEN {x \in S : nm(x) # "" /\ nm(x) \in q.hits}
        ELSE {x \in S : nm(x) = q.stem \/ Fd(F.fold, st.ent[x].cls) = q.stem}

(* ---- maintenance of one index --------------------------------------------- *)
IdxDel(idx, k, x) ==
    IF k \notin DOMAIN idx THEN idx
    ELSE IF idx[k] \ {x} = {} THEN [j \in DOMAIN idx \ {k} |-> idx[j]]
    ELSE [idx EXCEPT ![k] = @ \ {x}]
IdxAdd(idx, k, x) ==
    [j \in DOMAIN idx \cup {k} |-> IF j = k THEN Lookup(idx, k) \cup {x} ELSE idx[j]]

\* Entity x (re)defined as e2: drop it from the keys its old value was filed
\* under, file it under the new ones if (and only if) it is in the map.
Upd(F, st, x, e2) ==
    LET e1 == st.ent[x]
        m  == e2.home
        mv(idx, ko, kn) == LET d == IdxDel(idx, Fd(F.fold, ko), x)
                           IN  IF e2.inmap THEN IdxAdd(d, Fd(F.fold, kn), x) ELSE d
    IN  [ent |-> [st.ent EXCEPT ![x] = e2],
         bc  |-> [st.bc EXCEPT ![m] = mv(@, e1.cls, e2.cls)],
         bt  |-> [st.bt EXCEPT ![m] = mv(@, e1.name, e2.name)]]

R(s, exc, val) == [s |-> s, exc |-> exc, val |-> val]

(* ---- one operator per mutation path of the code --------------------------- *)
\* Entity(vmf, keys): a new object that is NOT in the map: no index changes.
ONew(F, st, x, m, c, n, k) ==
    R(Upd(F, st, x, [home |-> m, inmap |-> FALSE, spawn |-> FALSE, cls |-> c, name |-> n, tk |-> k]), "", "")
\* vmf.create_ent(classname, **keys)
OCreateEnt(F, st, x, m, c, n, k) ==
    R(Upd(F, st, x, [home |-> m, inmap |-> TRUE, spawn |-> FALSE, cls |-> c, name |-> n, tk |-> k]), "", "")
\* vmf.add_ent(e)
OAddEnt(F, st, x) == R(Upd(F, st, x, [st.ent[x] EXCEPT !.inmap = TRUE]), "", "")
\* vmf.add_ents([e, ...])
RECURSIVE AddAll(_, _, _)
AddAll(F, st, xs) == IF xs = <<>> THEN st ELSE AddAll(F, OAddEnt(F, st, Head(xs)).s, Tail(xs))
OAddEnts(F, st, xs) == R(AddAll(F, st, xs), "", "")
\* vmf.remove_ent(e) and e.remove()
ORemoveEnt(F, st, x) == R(Upd(F, st, x, [st.ent[x] EXCEPT !.inmap = FALSE]), "", "")
\* e['classname'] = v.  The worldspawn can never be given another class: the attempt is refused
\* (as the code does it, the key is rewritten as 'worldspawn' and ValueError raised).
OSetClass(F, st, x, v) ==
    IF st.ent[x].spawn /\ Fd(F.fold, v) # "worldspawn"
    THEN R(Upd(F, st, x, [st.ent[x] EXCEPT !.cls = "worldspawn"]), "ValueError", "")
    ELSE R(Upd(F, st, x, [st.ent[x] EXCEPT !.cls = v]), "", "")
\* e[k] = v for a spelling k of 'targetname' (the first spelling used is kept)
OSetName(F, st, x, v, k) ==
    R(Upd(F, st, x, [st.ent[x] EXCEPT !.name = v, !.tk = IF @ = "" THEN k ELSE @]), "", "")
\* e.setdefault(k, v): the name is set only when there is no such key
OSetDefaultName(F, st, x, v, k) ==
    IF st.ent[x].tk = "" THEN OSetName(F, st, x, v, k) ELSE R(st, "", "")
\* e.update({'classname': v, k: n})
OUpdate(F, st, x, v, n, k) ==
    LET r == OSetClass(F, st, x, v) IN IF r.exc # "" THEN r ELSE OSetName(F, r.s, x, n, k)
\* del e[k] for a spelling of 'targetname'; del e['classname'] is refused.
ODelName(F, st, x) == R(Upd(F, st, x, [st.ent[x] EXCEPT !.name = "", !.tk = ""]), "", "")
ODelClass(F, st, x) == R(st, "KeyError", "")
\* e.pop(k): the value, and the key is gone.  (The worldspawn keeps its class.)
OPopName(F, st, x) == R(ODelName(F, st, x).s, "", st.ent[x].name)
\* pop('classname'): the design refuses it exactly like `del e['classname']` (a classname can
\* never be removed).  OPopClassRemove is the other behaviour the property tolerates - the class
\* really goes away and the index follows; the trace validator accepts either.
OPopClass(F, st, x) == R(st, "KeyError", "")
OPopClassRemove(F, st, x) ==
    IF st.ent[x].spawn THEN R(st, "any", st.ent[x].cls)
    ELSE R(Upd(F, st, x, [st.ent[x] EXCEPT !.cls = ""]), "", st.ent[x].cls)
\* e.clear(): no keys left; c is the class it ends up with ("" as the code does, or the
\* documented "info_null").  For the worldspawn either refused, or carried out with the class kept
\* (c = "worldspawn"): the property only says it can never get ANOTHER class.
OClear(F, st, x, c) ==
    IF st.ent[x].spawn
    THEN (IF c = "worldspawn"          \* carried out: the worldspawn keeps its class, loses the rest
          THEN R(Upd(F, st, x, [st.ent[x] EXCEPT !.cls = "worldspawn", !.name = "", !.tk = ""]), "", "")
          ELSE OSetClass(F, st, x, "info_null"))      \* refused (as the code does: ValueError)
    ELSE R(Upd(F, st, x, [st.ent[x] EXCEPT !.cls = c, !.name = "", !.tk = ""]), "", "")
\* e.copy(vmf_file=m): a new object with the same keys, not in any map.
OCopy(F, st, x, p, m) ==
    R(Upd(F, st, p, [st.ent[x] EXCEPT !.home = m, !.inmap = FALSE, !.spawn = FALSE]), "", "")
\* e.make_unique(prefix): keep a name nobody else in the map has, else base name or base + lowest
\* free number (looked up in the maintained index).
OMakeUnique(F, st, x, prefix) ==
    LET e == st.ent[x]
        L(n) == Lookup(st.bt[e.home], Fd(F.fold, n)) \ {x}
        uniq == e.name # "" /\ Lookup(st.bt[e.home], Fd(F.fold, e.name)) = {x}
        orig == IF e.name # "" THEN e.name ELSE prefix
        base == Fd(F.base, orig)
        N == Cardinality(DOMAIN st.ent) + 1
        cand == IF base = "" THEN ""
                ELSE IF L(base) = {} THEN base
                ELSE base \o ToString(CHOOSE i \in 1..N : L(base \o ToString(i)) = {}
                                            /\ \A j \in 1..(i - 1) : L(base \o ToString(j)) # {})
    IN  IF uniq THEN R(st, "", "") ELSE OSetName(F, st, x, cand, "targetname")

\* dispatcher shared by the model and by the trace validator
Apply(F, st, a) ==
    CASE a.op = "new"         -> ONew(F, st, a.x, a.m, a.c, a.n, a.k)
      [] a.op = "create_ent"  -> OCreateEnt(F, st, a.x, a.m, a.c, a.n, a.k)
      [] a.op = "add_ent"     -> OAddEnt(F, st, a.x)
      [] a.op = "add_ents"    -> OAddEnts(F, st, a.xs)
      [] a.op = "remove_ent"  -> ORemoveEnt(F, st, a.x)
      [] a.op = "ent_remove"  -> ORemoveEnt(F, st, a.x)
      [] a.op = "set_class"   -> OSetClass(F, st, a.x, a.v)
      [] a.op = "set_name"    -> OSetName(F, st, a.x, a.v, a.k)
      [] a.op = "setdefault_name" -> OSetDefaultName(F, st, a.x, a.v, a.k)
      [] a.op = "update"      -> OUpdate(F, st, a.x, a.v, a.n, a.k)
      [] a.op = "del_name"    -> ODelName(F, st, a.x)
      [] a.op = "del_class"   -> ODelClass(F, st, a.x)
      [] a.op = "pop_name"    -> OPopName(F, st, a.x)
      [] a.op = "pop_class"   -> OPopClass(F, st, a.x)
      [] a.op = "clear"       -> OClear(F, st, a.x, a.c)
      [] a.op = "copy"        -> OCopy(F, st, a.x, a.p, a.m)
      [] a.op = "make_unique" -> OMakeUnique(F, st, a.x, a.prefix)

(* ---- CopySet iteration while the index is mutated -------------------------- *)
\* Iterating a set of the index (a snapshot is taken when iteration starts) while one mutation
\* happens after the first element was delivered: every entity of the snapshot is delivered
\* exactly once, and anything else delivered is in the set afterwards.
IterOK(snapshot, after, got) ==
    /\ \A i, j \in DOMAIN got : i # j => got[i] # got[j]
    /\ (snapshot \cap after) \subseteq Range(got)       \* filed under the key all along: delivered
    /\ Range(got) \subseteq snapshot \cup after         \* nothing that never was under the key
=============================================================================
