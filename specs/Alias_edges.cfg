SPECIFICATION Spec
CONSTANTS
  MaxMut = 1
  Full = TRUE
INVARIANT Disjoint
INVARIANT Complete
INVARIANT AllFields
INVARIANT FreshIds
PROPERTY Frame
PROPERTY Effective
PROPERTY OperandsKept
VIEW View
ACTION_CONSTRAINT Emit
CHECK_DEADLOCK FALSE
