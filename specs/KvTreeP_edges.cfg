SPECIFICATION Spec
CONSTANTS
  Names = {"a", "A", "b"}
  Vals = {"1"}
  SetPathKids = 2
  MaxKids = 1
INVARIANT SetGet
INVARIANT DelShrinks
INVARIANT MergeOne
INVARIANT EnsureHas
VIEW View
ACTION_CONSTRAINT Emit
CHECK_DEADLOCK FALSE
