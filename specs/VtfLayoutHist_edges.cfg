SPECIFICATION Spec
INVARIANT TableSize
INVARIANT MipCount
INVARIANT Partition
INVARIANT Blocks
INVARIANT RoundTrip
INVARIANT Gate
INVARIANT Kept
INVARIANT ThumbKept
INVARIANT LazyUnobservable
INVARIANT Untouched
VIEW View
ACTION_CONSTRAINT Emit
CHECK_DEADLOCK FALSE
CONSTANTS
  Sizes = {2, 8}
  FrameCounts = {1}
  Layers = {"d1", "cube"}
  Minors = {5}
  Fmts = {"RGBA8888", "BGRA4444"}
  Lows = {"NONE", "BGRA8888"}
  ResKinds = {}
  MaxRes = 0
  Access = FALSE
  Fills = {"l0"}
  History = TRUE
  MaxOps = 2
  Thumbs = {"t16", "t4"}
