SPECIFICATION Spec
CONSTANTS
  Ent = {"e1", "e2", "e3", "e4"}
  MaxId = 3
INVARIANT Unique
INVARIANT Positive
INVARIANT Reserved
INVARIANT NoLeak
INVARIANT Hint
PROPERTY Stable
VIEW View
CHECK_DEADLOCK FALSE
