------------------------------ MODULE IdAllocOps ------------------------------
(* Pure operators of the ID allocation design (srctools.vmf.IDMan and the       *)
(* replaceNN index allocation of EntityFixup).  No variables: the model-        *)
(* checking machine (IdAlloc) and the trace validator (IdAllocTrace) both use   *)
(* exactly these definitions.                                                   *)
EXTENDS Integers, FiniteSets, Sequences

(* ---- IDMan: used set + search hint -------------------------------------- *)
IdInit == [used |-> {}, pos |-> 1]
\* a fresh VMF: the worldspawn entity already holds entity ID 1
IdInitSpawn == [used |-> {1}, pos |-> 2]

\* lowest n >= from that is not in used (exists within |used|+1 candidates)
LowestFree(used, from) ==
    CHOOSE n \in from..(from + Cardinality(used)) :
        n \notin used /\ \A m \in from..(n - 1) : m \in used

\* get_id(desired): the desired ID if it is positive and free, otherwise the
\* lowest free ID at or above the hint.
Get(s, d) ==
    IF d > 0 /\ d \notin s.used
    THEN [s |-> [used |-> s.used \cup {d}, pos |-> s.pos], res |-> d]
    ELSE LET n == LowestFree(s.used, s.pos)
         IN  [s |-> [used |-> s.used \cup {n}, pos |-> n + 1], res |-> n]

\* discard(e) / remove(e): give the ID back; the hint may only move down to
\* a *positive* position (IDs are positive integers).
Discard(s, e) ==
    [s |-> [used |-> s.used \ {e},
            pos  |-> IF e < s.pos /\ e >= 1 THEN e ELSE s.pos],
     res |-> 0]

\* The invariant of the hint that makes Get correct.
HintOK(s) == s.pos >= 1 /\ \A n \in 1..(s.pos - 1) : n \in s.used
AllPositive(s) == \A n \in s.used : n >= 1

(* ---- object life cycle over allocators (one kind of object) -------------- *)
\* st = [man |-> [map -> IDMan state], objs |-> [slot -> [m, id, inmap]]]; id = 0: unused slot
NoObj == [m |-> "", id |-> 0, inmap |-> FALSE]
LCreate(st, o, m, d) ==
    LET g == Get(st.man[m], d)
    IN [s |-> [man  |-> [st.man EXCEPT ![m] = g.s],
               objs |-> [st.objs EXCEPT ![o] = [m |-> m, id |-> g.res, inmap |-> TRUE]]],
        res |-> g.res]
LSetIn(st, o, b) == [s |-> [man |-> st.man, objs |-> [st.objs EXCEPT ![o].inmap = b]], res |-> 0]
\* The object is destroyed (garbage collected): only now is the ID given back.
LDrop(st, o) ==
    [s |-> [man  |-> [st.man EXCEPT ![st.objs[o].m] = Discard(st.man[st.objs[o].m], st.objs[o].id).s],
            objs |-> [st.objs EXCEPT ![o] = NoObj]],
     res |-> 0]
\* Kinds without a destructor hook (visgroups, groups) never give IDs back.
LForget(st, o) == [s |-> [man |-> st.man, objs |-> [st.objs EXCEPT ![o] = NoObj]], res |-> 0]

LiveIn(st, m) == {o \in DOMAIN st.objs : st.objs[o].id # 0 /\ st.objs[o].m = m}
LUnique(st) == \A o, p \in DOMAIN st.objs :
    (o # p /\ st.objs[o].id # 0 /\ st.objs[p].id # 0 /\ st.objs[o].m = st.objs[p].m)
        => st.objs[o].id # st.objs[p].id
LPositive(st) == \A o \in DOMAIN st.objs : st.objs[o].id # 0 => st.objs[o].id >= 1

(* ---- EntityFixup replaceNN indexes ------------------------------------- *)
\* A fixup table is a function from (folded) variable name to index.
LowestIndex(idx) == CHOOSE n \in 1..(Cardinality(idx) + 1) :
                        n \notin idx /\ \A m \in 1..(n - 1) : m \in idx
FixIdx(f) == {f[v] : v \in DOMAIN f}
FixSet(f, v) == IF v \in DOMAIN f THEN f
                ELSE [w \in DOMAIN f \cup {v} |->
                        IF w = v THEN LowestIndex(FixIdx(f)) ELSE f[w]]
FixDel(f, v) == [w \in DOMAIN f \ {v} |-> f[w]]
FixDistinct(f) == \A v, w \in DOMAIN f : v # w => f[v] # f[w]
=============================================================================
