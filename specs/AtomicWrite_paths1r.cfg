SPECIFICATION Spec
CONSTANTS
  W = {"w1"}
  MaxBody = 1
  Faults = 1
  Stale = {1}
  NNames = 4
  AnyName = FALSE
  DirMissing = TRUE
  AnySplit = FALSE
  KeepHist = TRUE
  Reusers = {"w1"}
  MaxRounds = 2
  MinBody = 1
INVARIANT DestOldOrNew
INVARIANT FailedIsClean
INVARIANT DoneIsNew
INVARIANT TempsDisjoint
ACTION_CONSTRAINT EmitPath
CHECK_DEADLOCK FALSE
