SPECIFICATION Spec
CONSTANTS
  WithDoc = FALSE
  WithText = TRUE
  Slice = "res"
  TextLen = 6
  TextLimit = 6
  TextMinNl = 2
INVARIANT TextLaw
CHECK_DEADLOCK FALSE
