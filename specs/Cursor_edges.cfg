SPECIFICATION Spec
CONSTANTS
  MaxLen = 3
  MaxEmpty = 1
  MaxEof = 2
INVARIANT Refines
INVARIANT IdxOK
INVARIANT AbsAgrees
INVARIANT FlatConst
INVARIANT EofSticky
INVARIANT CurFull
VIEW View
ACTION_CONSTRAINT Emit
CHECK_DEADLOCK FALSE
