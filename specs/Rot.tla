--------------------------------- MODULE Rot ---------------------------------
(* C04: the rotation algebra of Vec / Angle / Matrix.                           *)
(* A behaviour is the left-to-right evaluation of one expression                *)
(*     (((start OP1 r1) OP2 r2) OP3 r3) ...   OPi in { @, @=, reflected @ }     *)
(* over every operand class.  `cur` is the value (and class) of the expression  *)
(* so far, `acc` the product r1 . r2 . ... of the right operands, so that the   *)
(* associativity law of the property is the invariant  cur = start (x) acc.     *)
EXTENDS RotOps, TLC, Json

CONSTANTS StartVecs,      \* set of <<x, y, z>> integer vectors
          StartAngs,      \* set of angle triples (records p, y, r of unit points) used as first operand
          RhsAngs,        \* set of angle triples used as right operands
          MaxLen,         \* number of operators in an expression
          UseForms        \* subset of Forms

VARIABLES cur, start, acc, hist, act
vars == <<cur, start, acc, hist>>

NoPt == [ok |-> FALSE, gimbal |-> FALSE, ang |-> Ang(Zero, Zero, Zero)]
VecVal(c, v) == [cls |-> c, k |-> "V", m |-> Q(v, 1), pt |-> NoPt]
AngVal(c, a) == [cls |-> c, k |-> "A", m |-> FromAngle(a), pt |-> [ok |-> TRUE, gimbal |-> FALSE, ang |-> a]]
MatVal(c, a) == [cls |-> c, k |-> "M", m |-> FromAngle(a), pt |-> NoPt]
ErrVal == [cls |-> "TypeError", k |-> "E", m |-> Ident, pt |-> NoPt]

\* an operand is named by its class and its source: a vector or an Euler triple
Operand(c, a) == IF c \in VecCls THEN VecVal(c, a) ELSE IF c \in AngCls THEN AngVal(c, a) ELSE MatVal(c, a)
SrcOf(c, vs, as) == IF c \in VecCls THEN vs ELSE as

Init == /\ \E c \in Classes : \E a \in SrcOf(c, StartVecs, StartAngs) :
              /\ cur = Operand(c, a) /\ start = [c |-> c, a |-> a]
        /\ acc = Ident /\ hist = <<>>
        /\ act = [op |-> "start"]
StartVal == Operand(start.c, start.a)

Result(l, f, r) ==
    LET d == Dispatch(l.cls, f, r.cls) IN
    IF d.err THEN ErrVal
    ELSE LET v == EvalRot(l.k, l.m, r.m) IN
         [cls |-> d.cls, k |-> l.k, m |-> v, pt |-> IF l.k = "A" THEN ToAngle(v) ELSE NoPt]

Step(f, c, a) ==
    LET r == Operand(c, a) IN
    /\ Len(hist) < MaxLen /\ cur.k # "E"
    /\ cur' = Result(cur, f, r)
    /\ acc' = IF r.k = "V" THEN acc ELSE MatMul(acc, r.m)
    /\ hist' = Append(hist, [f |-> f, c |-> c, a |-> a])
    /\ start' = start
    /\ act' = [op |-> "step", f |-> f, d |-> Dispatch(cur.cls, f, c)]

\* the object is its own right operand (m @ m, m @= m, a @= a, ...): same table, value l . l
SelfStep(f) ==
    /\ hist = <<>> /\ cur.k \in {"A", "M"}
    /\ cur' = Result(cur, f, cur)
    /\ acc' = MatMul(acc, cur.m)
    /\ hist' = Append(hist, [f |-> f, c |-> "self", a |-> <<>>])
    /\ start' = start
    /\ act' = [op |-> "step", f |-> f, d |-> Dispatch(cur.cls, f, cur.cls)]

\* right operands: rotations of all four classes, and one vector per vector class (always an error)
Next == \E f \in UseForms, c \in Classes : \E a \in SrcOf(c, {<<1, 2, 3>>}, RhsAngs) : Step(f, c, a)
        \/ \E g \in UseForms : MaxLen > 0 /\ SelfStep(g)
Spec == Init /\ [][Next]_vars

(* ---- the listed property, on the exact domain ------------------------------ *)
IsRot(v) == v.k \in {"A", "M"} /\ SmallDen(v.m) => IsRotation(v.m)
\* every matrix built from an Euler angle / every product is a proper rotation
Proper == IsRot(cur) /\ (SmallDen(acc) => IsRotation(acc))
\* Source convention: the expanded formula is roll . pitch . yaw
Convention == cur.pt.ok => FromAngleClosed(cur.pt.ang) = FromAngle(cur.pt.ang)
\* ((s @ r1) @ r2) ... = s @ (r1 @ r2 @ ...), and Vec @ Angle = Vec @ Matrix.from_angle(Angle)
Assoc == cur.k # "E" => cur.m = EvalRot(StartVal.k, StartVal.m, acc)
\* matrix -> angle -> matrix reproduces the matrix (gimbal branch: roll is folded into yaw)
RoundTrip == cur.k \in {"A", "M"} =>
                LET a == ToAngle(cur.m) IN
                a.ok => /\ FromAngle(a.ang) = cur.m
                        /\ IsUnit(a.ang.p) /\ IsUnit(a.ang.y) /\ IsUnit(a.ang.r)
                        /\ a.ang.p.c >= 0            \* pitch is reported in [-90, 90]
                        /\ a.gimbal => a.ang.r = Zero
\* an Euler triple that came out of an extraction is reproduced by the extraction
Stable == cur.pt.ok /\ cur.k = "A" /\ Len(hist) > 0 => ToAngle(FromAngle(cur.pt.ang)) = cur.pt
\* inverse = transpose on rotations
InvTranspose == cur.k \in {"A", "M"} /\ cur.m.d <= 26000 => /\ MatMul(cur.m, Transpose(cur.m)) = Ident
                                         /\ MatMul(Transpose(cur.m), cur.m) = Ident
TableSound == DispatchSound
\* frozen operands are never the mutated one; @= on a frozen/tuple left operand rebinds
FrozenSafe == [][act'.op = "step" =>
                   (cur.cls \in Frozen \cup {"Tuple3"} => act'.d.err \/ (act'.d.mut = "none" /\ act'.d.ident = "fresh"))]_vars

(* ---- edge dump -------------------------------------------------------------- *)
Emit == PrintT(ToJson([tag |-> "EDGE", start |-> start, hist |-> hist', cur |-> cur', d |-> act'.d]))
Leaf == Len(hist') = MaxLen \/ cur'.k = "E"
EmitLeaves == Leaf => Emit

(* ---- constants used by the configurations ----------------------------------- *)
P5 == PtsOf(1) \cup PtsOf(5)
A(pc, ps, pd, yc, ys, yd, rc, rs, rd) == Ang(Pt(pc, ps, pd), Pt(yc, ys, yd), Pt(rc, rs, rd))
VecsSmall == {<<1, 0, 0>>, <<0 - 2, 3, 5>>}
VecsMc == {<<1, 0, 0>>, <<0, 1, 0>>, <<0, 0, 1>>, <<0 - 2, 3, 5>>}
\* pitch 90 (gimbal) yaw 90; yaw/roll on 3-4-5; pitch on 4-3-5 with yaw 180 roll 270
RhsSmall == {A(0, 1, 1,   0, 1, 1,   1, 0, 1),
             A(1, 0, 1,   3, 4, 5,   4, 0 - 3, 5),
             A(4, 3, 5,   0 - 1, 0, 1,   0, 0 - 1, 1)}
StartSmall == {A(0, 0 - 1, 1,   1, 0, 1,   0, 1, 1),
               A(3, 0 - 4, 5,   0, 0 - 1, 1,   1, 0, 1),
               A(0 - 3, 4, 5,   4, 3, 5,   0 - 4, 0 - 3, 5)}
RhsQuick == {A(0, 1, 1,   0, 1, 1,   1, 0, 1), A(1, 0, 1,   3, 4, 5,   1, 0, 1)}
StartQuick == {A(0, 0 - 1, 1,   1, 0, 1,   0, 1, 1), A(0 - 3, 4, 5,   4, 3, 5,   0 - 4, 0 - 3, 5)}
VecsQuick == {<<0 - 2, 3, 5>>}
AllP5 == AllTriples(P5)
AllLattice == AllTriples(Lattice)
RhsMc == RhsSmall \cup {A(0, 0 - 1, 1,   3, 4, 5,   0, 1, 1), A(1, 0, 1,   1, 0, 1,   1, 0, 1)}
View == vars
=============================================================================
