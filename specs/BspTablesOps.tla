---------------------------- MODULE BspTablesOps ----------------------------
(* Pure operators behind property C11 (every BSP lump writer is the inverse of   *)
(* its reader):                                                                  *)
(*   1. the run-length code of the visibility lump (runlength_encode/_decode),   *)
(*      transcribed, and the layout of the VISIBILITY lump built from it;        *)
(*   2. find_or_insert / find_or_extend, the index builders every writer uses    *)
(*      to put references into shared tables, transcribed, with the laws they    *)
(*      have to satisfy;                                                         *)
(*   3. the cross-reference graph: what save() does to the shared tables when    *)
(*      the writers run in LUMP_REBUILD_ORDER, and what the reader gets back;    *)
(*   4. presence and width of every static-prop field per format version;        *)
(*   5. Fits: the value range of every integer field code of the lump structs.   *)
EXTENDS Integers, Sequences, FiniteSets, TLC

MaxS(S) == CHOOSE x \in S : \A y \in S : y <= x
MinS(S) == CHOOSE x \in S : \A y \in S : y >= x
MinI(a, b) == IF a <= b THEN a ELSE b
ToSet(q) == {q[i] : i \in 1..Len(q)}

(* ======================= 1. run-length coding ================================ *)
(* A byte string is a sequence of runs <<value, count>>.  Canonical form: counts   *)
(* >= 1, adjacent runs have different values.  All operators work run by run (a   *)
(* 64 KiB vis row is a handful of runs), exactly following the control flow of    *)
(* the Python functions, which only ever look for the next zero byte.            *)
RECURSIVE Canon(_)
Canon(r) ==
    IF r = <<>> THEN <<>>
    ELSE IF r[1][2] = 0 THEN Canon(Tail(r))
    ELSE LET rest == Canon(Tail(r)) IN
         IF rest # <<>> /\ rest[1][1] = r[1][1]
         THEN <<<<r[1][1], r[1][2] + rest[1][2]>>>> \o Tail(rest)
         ELSE <<r[1]>> \o rest

RECURSIVE RLen(_)
RLen(r) == IF r = <<>> THEN 0 ELSE r[1][2] + RLen(Tail(r))

RECURSIVE Take(_, _)
Take(r, n) == IF n <= 0 \/ r = <<>> THEN <<>>
              ELSE IF r[1][2] >= n THEN <<<<r[1][1], n>>>>
              ELSE <<r[1]>> \o Take(Tail(r), n - r[1][2])
RECURSIVE Drop(_, _)
Drop(r, n) == IF n <= 0 \/ r = <<>> THEN r
              ELSE IF r[1][2] > n THEN <<<<r[1][1], r[1][2] - n>>>> \o Tail(r)
              ELSE Drop(Tail(r), n - r[1][2])

\* runlength_encode: a run of n zeros becomes (0x00, 255) ... (0x00, rest); everything else is copied
ZeroCode(n) ==
    LET full == n \div 255
        rem  == n % 255
    IN [k \in 1..(2 * full) |-> IF k % 2 = 1 THEN <<0, 1>> ELSE <<255, 1>>]
       \o (IF rem > 0 THEN <<<<0, 1>>, <<rem, 1>>>> ELSE <<>>)
RECURSIVE RleAtoms(_)
RleAtoms(r) == IF r = <<>> THEN <<>>
               ELSE (IF r[1][1] = 0 THEN ZeroCode(r[1][2]) ELSE <<r[1]>>) \o RleAtoms(Tail(r))
Rle(r) == Canon(RleAtoms(r))

\* runlength_decode: copy up to the next zero byte; the byte after it is the number of zeros.
\* expect = TRUE: the next byte is such a count.
RECURSIVE DecRuns(_, _)
DecRuns(r, expect) ==
    IF r = <<>> THEN <<>>
    ELSE LET v == r[1][1]
             n == r[1][2]
         IN IF n = 0 THEN DecRuns(Tail(r), expect)
            ELSE IF expect THEN <<<<0, v>>>> \o DecRuns(<<<<v, n - 1>>>> \o Tail(r), FALSE)
            ELSE IF v # 0 THEN <<r[1]>> \o DecRuns(Tail(r), FALSE)
            ELSE DecRuns(Tail(r), n % 2 = 1)     \* zero, zero = marker + count 0
Expand(r) == Canon(DecRuns(r, FALSE))
\* the decoder stops as soon as it has ceil(maxClusters / 8) bytes and cuts the result to that
\* length; maxClusters = -1: everything
UnRle(r, start, maxClusters) ==
    LET all == Expand(Drop(r, start))
    IN IF maxClusters = 0 - 1 THEN all ELSE Canon(Take(all, (maxClusters + 7) \div 8))

\* what a correct code looks like, independently of the encoder: a marker is always followed by
\* a count 1..255, and a zero run is coded with as few markers as possible
RECURSIVE CodeOK(_, _, _)
\* prev = count of the preceding marker pair if the previous item was a pair, else 255
CodeOK(r, expect, prev) ==
    IF r = <<>> THEN ~expect
    ELSE LET v == r[1][1]
             n == r[1][2]
         IN IF n = 0 THEN CodeOK(Tail(r), expect, prev)
            ELSE IF expect THEN v >= 1 /\ CodeOK(<<<<v, n - 1>>>> \o Tail(r), FALSE, v)
            ELSE IF v # 0 THEN CodeOK(Tail(r), FALSE, 255)
            ELSE n = 1 /\ prev = 255 /\ CodeOK(Tail(r), TRUE, prev)

\* what the READER needs of a code, whatever encoder produced it: it can be parsed to the end, i.e. the
\* stream does not stop right after a marker (runlength_decode would index past the end)
RECURSIVE CodeParses(_, _)
CodeParses(r, expect) ==
    IF r = <<>> THEN ~expect
    ELSE LET v == r[1][1]
             n == r[1][2]
         IN IF n = 0 THEN CodeParses(Tail(r), expect)
            ELSE IF expect THEN CodeParses(<<<<v, n - 1>>>> \o Tail(r), FALSE)
            ELSE IF v # 0 THEN CodeParses(Tail(r), FALSE)
            ELSE CodeParses(Tail(r), n % 2 = 1)

(* The VISIBILITY lump: int32 cluster count, per cluster two int32 offsets (PVS, PAS) from the    *)
(* start of the lump, then the coded rows, PVS and PAS of cluster 0, of cluster 1, ...            *)
\* What the format, as the reader interprets it, requires of a VISIBILITY lump holding the rows pvs_0, pas_0,
\* pvs_1, pas_1, ... (run lists): the count; one offset per row that lies behind the offset table and inside
\* the lump; and the bytes found AT that offset decode to the row.  Where the blocks lie, in which order,
\* whether equal rows share one block and how a zero run is split into markers is the writer's business.
\* at[k]: the bytes of the lump from offsets[k] as far as a decoder consumes them.
VisLumpOK(rows, count, offsets, at, lumplen) ==
    LET n == Len(rows) \div 2 IN
    /\ count = n /\ Len(offsets) = 2 * n /\ Len(at) = 2 * n
    /\ \A k \in 1..(2 * n) : /\ offsets[k] >= 4 + 8 * n /\ offsets[k] + RLen(at[k]) <= lumplen
                              /\ UnRle(at[k], 0, n) = Canon(rows[k])
\* the layout the present writer chooses (PVS and PAS of cluster 0, of cluster 1, ... back to back, each row
\* coded by Rle); it satisfies VisLumpOK (checked by TLC in BspTables_rle.cfg), nothing more is claimed for it
VisSequential(rows) ==
    LET n == Len(rows) \div 2
        coded == [k \in 1..(2 * n) |-> Rle(rows[k])]
        RECURSIVE Off(_)
        Off(k) == IF k = 1 THEN 4 + 8 * n ELSE Off(k - 1) + RLen(coded[k - 1])
    IN [count |-> n, offsets |-> [k \in 1..(2 * n) |-> Off(k)], at |-> coded,
        lumplen |-> IF n = 0 THEN 4 ELSE Off(2 * n) + RLen(coded[2 * n])]

(* ======================= 2. index builders =================================== *)
(* A table is a sequence of items; keyOf maps an item to what it is compared by   *)
(* (identity for objects; the folded name for texture names).  Results are the    *)
(* 0-based indexes the Python code returns.  Both are functions of the table      *)
(* alone as long as one finder is the only one appending to its list - which is   *)
(* how every writer uses them (find_or_insert keeps the LAST initial index of a   *)
(* key; anything it appends has a new key).                                       *)
FoI(tbl, keyOf, x) ==
    LET occ == {i \in 1..Len(tbl) : keyOf[tbl[i]] = keyOf[x]}
    IN IF occ # {} THEN [tbl |-> tbl, res |-> MaxS(occ) - 1]
       ELSE [tbl |-> Append(tbl, x), res |-> Len(tbl)]

\* find_or_extend: the first position (among those where the first wanted item occurs) at which the WHOLE
\* sub-list is present; a position where the table ends before the sub-list does is no match (the code
\* tests i + len(items) <= len(item_list) before comparing); otherwise the sub-list is appended
FoE(tbl, keyOf, items) ==
    IF items = <<>> THEN [tbl |-> tbl, res |-> 0]
    ELSE LET good == {i \in 1..(Len(tbl) - Len(items) + 1) :
                         \A j \in 1..Len(items) : keyOf[items[j]] = keyOf[tbl[i + j - 1]]}
         IN IF good # {} THEN [tbl |-> tbl, res |-> MinS(good) - 1]
            ELSE [tbl |-> tbl \o items, res |-> Len(tbl)]
\* the defect this design excludes (srctools before the fix of find_or_extend): the comparison zip()ped the
\* wanted items with what was left of the table, so it ended where the TABLE ended and accepted a prefix.
\* Kept only to show (BspTables_diag.cfg) that the law tells the two apart.
FoETailPrefix(tbl, keyOf, items) ==
    IF items = <<>> THEN [tbl |-> tbl, res |-> 0]
    ELSE LET good == {i \in 1..Len(tbl) : \A j \in 1..MinI(Len(items), Len(tbl) - i + 1) : keyOf[items[j]] = keyOf[tbl[i + j - 1]]}
         IN IF good # {} THEN [tbl |-> tbl, res |-> MinS(good) - 1]
            ELSE [tbl |-> tbl \o items, res |-> Len(tbl)]

IsPrefix(a, b) == Len(a) <= Len(b) /\ \A i \in 1..Len(a) : a[i] = b[i]
\* the laws: indexes handed out earlier stay valid; the index denotes an equal item / sub-list
\* (whether an item that is already present is found or stored once more, and WHICH of several equal entries
\* is handed out, changes nothing the reader returns: NoDuplicate is a property of the design's FoI only)
InsertLaw(tbl, keyOf, x, r) ==
    /\ IsPrefix(tbl, r.tbl)
    /\ r.res \in 0..(Len(r.tbl) - 1) /\ keyOf[r.tbl[r.res + 1]] = keyOf[x]
NoDuplicate(tbl, keyOf, x, r) ==
    /\ Len(r.tbl) <= Len(tbl) + 1
    /\ (Len(r.tbl) = Len(tbl) + 1) => (\A i \in 1..Len(tbl) : keyOf[tbl[i]] # keyOf[x])
ExtendLaw(tbl, keyOf, items, r) ==
    /\ IsPrefix(tbl, r.tbl)
    /\ items # <<>> =>
         /\ r.res + Len(items) <= Len(r.tbl)
         /\ \A j \in 1..Len(items) : keyOf[r.tbl[r.res + j]] = keyOf[items[j]]
Ident(S) == [x \in S |-> x]

(* ======================= 3. the cross-reference graph ======================== *)
(* A world (JSON from the harness):                                              *)
(*   tables : table name -> list of object ids  (the views as assigned)          *)
(*   one    : object id -> slot -> object id ("" = None)                         *)
(*   many   : object id -> slot -> list of object ids                            *)
(*   kind   : object id -> kind                                                  *)
(*   fold   : texture name -> folded name                                        *)
(* The writers run in LUMP_REBUILD_ORDER; each walks its (possibly growing) list  *)
(* and resolves the references of every item, in the order the Python code        *)
(* evaluates them, through FoI / FoE on the target table.                         *)
\* per written table: the reference slots of an item in evaluation order: <<slot, mode, target>>
\* mode: "one" (FoI), "many" (FoE), "each" (FoI per element), "name" (FoI by folded name)
\* target "child": visleafs or nodes, by the kind of the referenced object
Prog(t) ==
    CASE t = "props"      -> << <<"leafs", "each", "visleafs">> >>
      [] t = "$models"    -> << <<"node", "one", "nodes">>, <<"faces", "many", "faces">> >>
      [] t = "nodes"      -> << <<"child_pos", "one", "child">>, <<"child_neg", "one", "child">>,
                                <<"plane", "one", "planes">>, <<"faces", "many", "faces">> >>
      [] t = "visleafs"   -> << <<"faces", "each", "faces">>, <<"brushes", "each", "brushes">> >>
      [] t = "water"      -> << <<"texinfo", "one", "texinfo">> >>
      [] t = "brushes"    -> << <<"sides", "many", "$sides">> >>
      [] t = "$sides"     -> << <<"plane", "one", "planes">>, <<"texinfo", "one", "texinfo">> >>
      [] t = "faces"      -> << <<"orig", "one", "orig_faces">>, <<"texinfo", "one", "texinfo">>, <<"plane", "one", "planes">>,
                                <<"edges", "many", "surfedges">>, <<"prims", "many", "primitives">> >>
      [] t = "hdr_faces"  -> << <<"orig", "one", "orig_faces">>, <<"texinfo", "one", "texinfo">>, <<"plane", "one", "planes">>,
                                <<"edges", "many", "surfedges">>, <<"prims", "many", "primitives">> >>
      [] t = "orig_faces" -> << <<"texinfo", "one", "texinfo">>, <<"plane", "one", "planes">>,
                                <<"edges", "many", "surfedges">>, <<"prims", "many", "primitives">> >>
      [] t = "overlays"   -> << <<"texinfo", "one", "texinfo">> >>
      [] t = "texinfo"    -> << <<"texdata", "one", "$texdata">> >>
      [] t = "$texdata"   -> << <<"mat", "name", "textures">> >>
      [] OTHER            -> << >>
\* LUMP_REBUILD_ORDER restricted to the tables with references; "$x" are the writer-local lists
\* (model list of the MODELS writer, brush sides, texdata), written right after their owner
WriterOrder == <<"props", "$models", "nodes", "visleafs", "water", "brushes", "$sides", "faces", "hdr_faces",
                 "orig_faces", "overlays", "texinfo", "$texdata">>

\* state of save(): T = tables, IX = indexes written: <<object, slot>> -> [t, i, n] or [t, is]
ResolveSlot(w, ids, T, IX, o, p) ==
    LET slot == p[1]
        mode == p[2]
        idk  == Ident(ids)
    IN IF mode = "one" THEN
           LET ref == w.one[o][slot] IN
           IF ref = "" THEN [T |-> T, IX |-> IX]
           ELSE LET tt == IF p[3] = "child" THEN (IF w.kind[ref] = "leaf" THEN "visleafs" ELSE "nodes") ELSE p[3]
                    r  == FoI(T[tt], idk, ref)
                IN [T |-> [T EXCEPT ![tt] = r.tbl], IX |-> IX @@ (<<o, slot>> :> [t |-> tt, i |-> r.res, n |-> 1])]
       ELSE IF mode = "name" THEN
           LET name == w.one[o][slot]
               r == FoI(T[p[3]], w.fold, name)
           IN [T |-> [T EXCEPT ![p[3]] = r.tbl], IX |-> IX @@ (<<o, slot>> :> [t |-> p[3], i |-> r.res, n |-> 1])]
       ELSE IF mode = "many" THEN
           LET items == w.many[o][slot]
               r == FoE(T[p[3]], idk, items)
           IN [T |-> [T EXCEPT ![p[3]] = r.tbl], IX |-> IX @@ (<<o, slot>> :> [t |-> p[3], i |-> r.res, n |-> Len(items)])]
       ELSE \* "each"
           LET items == w.many[o][slot]
               RECURSIVE Each(_, _, _)
               Each(tbl, k, acc) == IF k > Len(items) THEN [tbl |-> tbl, is |-> acc]
                                    ELSE LET r == FoI(tbl, idk, items[k]) IN Each(r.tbl, k + 1, Append(acc, r.res))
               e == Each(T[p[3]], 1, <<>>)
           IN [T |-> [T EXCEPT ![p[3]] = e.tbl], IX |-> IX @@ (<<o, slot>> :> [t |-> p[3], is |-> e.is])]

RECURSIVE ResolveItem(_, _, _, _, _, _, _)
ResolveItem(w, ids, T, IX, o, prog, k) ==
    IF k > Len(prog) THEN [T |-> T, IX |-> IX]
    ELSE LET s == ResolveSlot(w, ids, T, IX, o, prog[k]) IN
         IF Len(s.T["planes"]) < 0 THEN s ELSE ResolveItem(w, ids, s.T, s.IX, o, prog, k + 1)

\* a writer walks its list while the list may grow (the node writer appends the children it meets)
RECURSIVE WriteTable(_, _, _, _, _, _)
WriteTable(w, ids, T, IX, t, k) ==
    IF k > Len(T[t]) THEN [T |-> T, IX |-> IX]
    ELSE LET s == ResolveItem(w, ids, T, IX, T[t][k], Prog(t), 1) IN
         IF Len(s.T["planes"]) < 0 THEN s ELSE WriteTable(w, ids, s.T, s.IX, t, k + 1)

RECURSIVE SaveTables(_, _, _, _, _)
SaveTables(w, ids, T, IX, k) ==
    IF k > Len(WriterOrder) THEN [T |-> T, IX |-> IX]
    ELSE LET s == WriteTable(w, ids, T, IX, WriterOrder[k], 1) IN
         IF Len(s.T["planes"]) < 0 THEN s ELSE SaveTables(w, ids, s.T, s.IX, k + 1)

TableNames == {"planes", "texinfo", "surfedges", "primitives", "orig_faces", "faces", "hdr_faces", "brushes", "visleafs",
               "nodes", "water", "overlays", "props", "textures", "$models", "$sides", "$texdata"}
\* the MODELS writer first builds its list: the world model, then the model of every brush entity in
\* entity order (find_or_insert by identity)
RECURSIVE ModelList(_, _, _)
ModelList(ms, k, acc) == IF k > Len(ms) THEN acc ELSE ModelList(ms, k + 1, FoI(acc, Ident(ToSet(ms)), ms[k]).tbl)
\* waterSelf: measured by the harness - the LEAFWATERDATA writer iterates the view it re-reads from its
\* own (already emptied) lump instead of the list it is given, i.e. it writes nothing
SaveWorld(w, waterSelf) ==
    LET ids == ToSet(w.ids)
        T0 == [t \in TableNames |->
                 IF t = "$models" THEN ModelList(w.tables["bmodels"], 1, <<>>)
                 ELSE IF t \in {"$sides", "$texdata"} THEN <<>>
                 ELSE IF t = "water" /\ waterSelf THEN <<>>
                 ELSE w.tables[t]]
    IN SaveTables(w, ids, T0, << >>, 1)

\* what the reader hands back for a slot, given the final tables
Loaded(S, o, slot) ==
    LET x == S.IX[<<o, slot>>] IN
    IF "is" \in DOMAIN x THEN [k \in 1..Len(x.is) |-> S.T[x.t][x.is[k] + 1]]
    ELSE [k \in 1..MinI(x.n, Len(S.T[x.t]) - x.i) |-> S.T[x.t][x.i + k]]
\* A reference that is None is written as index -1.  The face reader does not test for it: it indexes
\* the Python list with -1, which is the LAST entry (IndexError when the list is empty).
NoneSlots == {<<"face", "orig", "orig_faces">>, <<"hdrface", "orig", "orig_faces">>,
              <<"face", "texinfo", "texinfo">>, <<"hdrface", "texinfo", "texinfo">>}
LoadedNone(S, kind, slot) ==
    IF \E q \in NoneSlots : q[1] = kind /\ q[2] = slot
    THEN LET q == CHOOSE q \in NoneSlots : q[1] = kind /\ q[2] = slot
             t == S.T[q[3]]
         IN IF t = <<>> THEN <<"$IndexError">> ELSE <<t[Len(t)]>>
    ELSE <<>>
ReadCrashes(S, w) ==
    \E f \in ToSet(S.T["faces"]) \cup ToSet(S.T["hdr_faces"]) :
        \/ w.one[f]["orig"] = "" /\ S.T["orig_faces"] = <<>>
        \/ w.one[f]["texinfo"] = "" /\ S.T["texinfo"] = <<>>

(* ======================= 4. static prop formats ============================== *)
\* fields of the per-prop record in file order: <<name, width in bytes>>
PropBase == << <<"origin", 12>>, <<"angles", 12>>, <<"model", 2>>, <<"first_leaf", 2>>, <<"leaf_count", 2>>,
               <<"solidity", 1>>, <<"flags", 1>>, <<"skin", 4>>, <<"min_fade", 4>>, <<"max_fade", 4>>, <<"lighting", 12>> >>
IsLightmap(f) == f \in {"V_LIGHTMAP_v7", "V_LIGHTMAP_v10", "V_LIGHTMAP_MESA"}
IsSdk2013(f) == f \in {"V_LIGHTMAP_v7", "V_LIGHTMAP_v10"}
PropNum(f) == CASE f = "V4" -> 4 [] f = "V5" -> 5 [] f = "V6" -> 6 [] f = "V7" -> 7 [] f = "V8" -> 8 [] f = "V9" -> 9
                [] f = "V10" -> 10 [] f = "V11" -> 11 [] f = "V_LIGHTMAP_v7" -> 7 [] f = "V_LIGHTMAP_v10" -> 10
                [] f = "V_LIGHTMAP_MESA" -> 11 [] f = "V_CHAOS_V12" -> 12 [] f = "V_CHAOS_V13" -> 13
PropFormats == {"V4", "V5", "V6", "V7", "V8", "V9", "V10", "V11", "V_LIGHTMAP_v7", "V_LIGHTMAP_v10", "V_LIGHTMAP_MESA",
                "V_CHAOS_V12", "V_CHAOS_V13"}
\* the lightmapped (Source 2013) formats are laid out like version 7
PropEff(f) == IF IsLightmap(f) THEN 7 ELSE PropNum(f)
PropFields(f) ==
    LET e == PropEff(f) IN
    PropBase
    \o (IF e >= 5 THEN << <<"fade_scale", 4>> >> ELSE <<>>)
    \o (IF e \in {6, 7} THEN << <<"dx_level", 4>> >> ELSE <<>>)
    \o (IF e >= 8 THEN << <<"cpu_gpu_level", 4>> >> ELSE <<>>)
    \o (IF IsLightmap(f) THEN << <<"flags_full", 4>>, <<"lightmap", 4>> >> ELSE <<>>)
    \o (IF e >= 7 /\ ~IsSdk2013(f) THEN << <<"tint_renderfx", 4>> >> ELSE <<>>)
    \o (IF e >= 9 /\ ~IsLightmap(f) THEN << <<"disable_on_xbox", 4>> >> ELSE <<>>)
    \o (IF e >= 10 \/ f = "V_LIGHTMAP_MESA" THEN << <<"flags_sec", 4>> >> ELSE <<>>)
    \o (IF f = "V_CHAOS_V13" THEN << <<"scaling3", 12>> >> ELSE IF e >= 11 THEN << <<"scaling1", 4>> >> ELSE <<>>)
RECURSIVE SumW(_)
SumW(q) == IF q = <<>> THEN 0 ELSE q[1][2] + SumW(Tail(q))
PropSize(f) == SumW(PropFields(f))
PropHas(f, name) == \E k \in 1..Len(PropFields(f)) : PropFields(f)[k][1] = name
\* attributes of StaticProp and the on-disk field that carries them; an attribute whose field is
\* absent reads back as the documented default
PropAttrField == [fade_scale |-> "fade_scale", min_dx_level |-> "dx_level", max_dx_level |-> "dx_level",
                  min_cpu_level |-> "cpu_gpu_level", max_cpu_level |-> "cpu_gpu_level",
                  min_gpu_level |-> "cpu_gpu_level", max_gpu_level |-> "cpu_gpu_level",
                  tint |-> "tint_renderfx", renderfx |-> "tint_renderfx", disable_on_xbox |-> "disable_on_xbox",
                  lightmap_x |-> "lightmap", lightmap_y |-> "lightmap"]
\* which bits of StaticProp.flags survive: the primary byte always (from the full word in the lightmapped
\* formats), bits 8.. only where a second flags word exists (or the full word of the lightmapped formats)
FlagsKeepHigh(f) == PropHas(f, "flags_sec") \/ IsLightmap(f)
ScalingKind(f) == IF PropHas(f, "scaling3") THEN "xyz" ELSE IF PropHas(f, "scaling1") THEN "x" ELSE "none"

(* ======================= 5. Fits ============================================== *)
(* Integer field codes of `struct`.  Values are logged as <<hi, lo>> with          *)
(* value = hi * 65536 + lo, 0 <= lo < 65536 (TLC integers are 32 bit).             *)
Lo16 == 65536
FitsCode(c, v) ==
    LET hi == v[1]
        lo == v[2]
    IN CASE c = "b" -> (hi = 0 /\ lo <= 127) \/ (hi = 0 - 1 /\ lo >= Lo16 - 128)
         [] c = "B" -> hi = 0 /\ lo <= 255
         [] c = "?" -> TRUE
         [] c = "h" -> (hi = 0 /\ lo <= 32767) \/ (hi = 0 - 1 /\ lo >= 32768)
         [] c = "H" -> hi = 0
         [] c = "i" -> hi >= 0 - 32768 /\ hi <= 32767
         [] c = "I" -> hi >= 0 /\ hi <= 65535
\* the integer fields of the lump structs, per layout: <<struct, field>> -> code
StdCodes == [
    node_plane |-> "i", node_child |-> "i", node_bound |-> "h", node_first_face |-> "H", node_face_count |-> "H", node_area |-> "h",
    leaf_contents |-> "i", leaf_cluster |-> "h", leaf_bound |-> "h", leaf_first_face |-> "H", leaf_face_count |-> "H",
    leaf_water |-> "h", leaf_min_water_dist |-> "H",
    face_plane |-> "H", face_num_edges |-> "h", face_texinfo |-> "h", face_dispinfo |-> "h", face_fog |-> "h",
    face_lightofs |-> "i", face_lm |-> "i", face_smoothing |-> "I", face_hammer_id |-> "H",
    side_plane |-> "H", side_texinfo |-> "h", side_dispinfo |-> "h",
    edge_vertex |-> "H", leafface |-> "H", leafbrush |-> "H", primindex |-> "H", prim_count |-> "H",
    water_texinfo |-> "H", brush_contents |-> "i", cubemap_size |-> "i", cubemap_origin |-> "i",
    overlay_id |-> "i", overlay_texinfo |-> "h", overlay_face |-> "i", overlay_level |-> "B",
    prop_skin |-> "i", prop_solidity |-> "B", prop_dx |-> "H", prop_cpu_gpu |-> "B", prop_renderfx |-> "B", prop_lightmap |-> "H",
    prop_leaf |-> "H", detail_leaf |-> "H", detail_sway |-> "B", detail_shape |-> "B", detail_light |-> "B",
    texdata_size |-> "i", plane_type |-> "i" ]
ChaosCodes == [StdCodes EXCEPT
    !.node_first_face = "I", !.node_face_count = "I", !.leaf_cluster = "i", !.leaf_first_face = "I", !.leaf_face_count = "I",
    !.leaf_water = "i", !.face_plane = "I", !.face_num_edges = "i", !.face_texinfo = "i", !.face_dispinfo = "i", !.face_fog = "i",
    !.face_hammer_id = "I", !.side_plane = "I", !.side_texinfo = "i", !.side_dispinfo = "i", !.edge_vertex = "I",
    !.leafface = "I", !.leafbrush = "I", !.primindex = "I", !.prim_count = "I", !.water_texinfo = "I", !.prop_leaf = "I"]
VitaminCodes == [StdCodes EXCEPT
    !.node_bound = "i", !.leaf_bound = "I", !.face_plane = "i", !.face_num_edges = "i", !.face_texinfo = "i",
    !.face_dispinfo = "i", !.side_plane = "I", !.side_texinfo = "I"]
InfraCodes == [StdCodes EXCEPT !.prim_count = "I"]
(* Count, index and packed fields: the admissible range is what the READER can decode back, which is the  *)
(* field width minus the bits it takes for flags, minus sentinels, or a fixed array bound - not the struct  *)
(* code alone.  Values are plain integers (only ranges that can be built as real lists are tested).        *)
CodeMax(c) == CASE c = "b" -> 127 [] c = "B" -> 255 [] c = "h" -> 32767 [] c = "H" -> 65535 [] c = "i" -> 2147483647
                [] OTHER -> 2147483647      \* "I": beyond anything a list can be built for
Pow2(n) == CASE n = 7 -> 128 [] n = 14 -> 16384 [] n = 15 -> 32768 [] n = 17 -> 131072
\* the struct code of the field that carries the value, per layout
CountCode(layout, field) ==
    LET std == [cnt_face_prims |-> "H", cnt_face_edges |-> "h", cnt_prim_verts |-> "H", cnt_prim_inds |-> "H",
                pack_leaf_area |-> "h", cnt_overlay_faces |-> "H", overlay_render_order |-> "H", cnt_node_faces |-> "H",
                cnt_leaf_faces |-> "H", cnt_prop_leafs |-> "H", idx_face_texinfo |-> "h", idx_water_texinfo |-> "H",
                idx_face_first_prim |-> "H"]
        chaos == [std EXCEPT !.cnt_face_prims = "I", !.cnt_face_edges = "i", !.cnt_prim_verts = "I", !.cnt_prim_inds = "I",
                             !.pack_leaf_area = "i", !.cnt_node_faces = "I", !.cnt_leaf_faces = "I", !.idx_face_texinfo = "i",
                             !.idx_water_texinfo = "I", !.idx_face_first_prim = "I"]
        infra == [std EXCEPT !.cnt_prim_inds = "I"]
        vitamin == [std EXCEPT !.cnt_face_edges = "i", !.idx_face_texinfo = "i"]
    IN (CASE layout = "chaos" -> chaos [] layout = "infra" -> infra [] layout = "vitamin" -> vitamin [] OTHER -> std)[field]
LeafAreaShift(layout) == IF layout = "chaos" THEN 17 ELSE 7
ReaderMax(layout, field) ==
    LET w == CodeMax(CountCode(layout, field)) IN
    CASE field \in {"cnt_face_prims", "cnt_face_prims_noshadow"} ->
            \* the reader takes count = field & 0x7fff and dynamic_shadows = ~(field & 0x8000), whatever the width
            Pow2(15) - 1
      [] field = "pack_leaf_area" ->
            \* area and the 7 / 17 flag bits share one signed field: area = field >> shift (vitamin: a field of its own)
            IF layout = "vitamin" THEN w ELSE w \div Pow2(LeafAreaShift(layout))
      [] field = "cnt_overlay_faces" -> 64          \* the face array of an overlay has 64 slots (and 14 bits of the field)
      [] field = "overlay_render_order" -> 3        \* the two bits above the 14 count bits
      [] OTHER -> w
IsCountField(field) == field \in {"cnt_face_prims", "cnt_face_prims_noshadow", "cnt_face_edges", "cnt_prim_verts", "cnt_prim_inds",
                                   "pack_leaf_area", "cnt_overlay_faces", "overlay_render_order", "cnt_node_faces", "cnt_leaf_faces",
                                   "cnt_prop_leafs", "idx_face_texinfo", "idx_water_texinfo", "idx_face_first_prim"}
CountFits(layout, field, n) ==
    n >= 0 /\ n <= ReaderMax(layout, IF field = "cnt_face_prims_noshadow" THEN "cnt_face_prims" ELSE field)
Codes(layout) == CASE layout = "chaos" -> ChaosCodes [] layout = "vitamin" -> VitaminCodes [] layout = "infra" -> InfraCodes
                   [] OTHER -> StdCodes
=============================================================================
