-------------------------------- MODULE Alias --------------------------------
(* C09: copies of map objects are complete and independent of their source;      *)
(* operators documented as producing a new value leave their operands unchanged. *)
(* One object of class cls with the optional blocks opts is built, copied (inside *)
(* its map or into another), then cells of either side are mutated in place.      *)
EXTENDS AliasOps, Json

CONSTANTS MaxMut,     \* number of in-place mutations explored after the copy
          Full        \* TRUE: every combination of optional blocks; FALSE: the extreme ones for the big classes

\* every combination of the optional blocks that changes what there is to copy
Valid(o) == /\ ("multi" \in o => "disp" \in o)
OptSets == [
  Side      |-> {o \in SUBSET {"disp", "multi", "strata"} : Valid(o)},
  Solid     |-> IF Full THEN {o \cup f : o \in {x \in SUBSET {"disp", "multi"} : Valid(x)}, f \in {{}, {"vis", "group", "hidden", "cordon"}}}
                ELSE {{}, {"disp", "multi", "vis", "group", "hidden", "cordon"}},
  Entity    |-> IF Full THEN {o \cup f : o \in {x \in SUBSET {"fix", "outs", "brush", "disp", "multi"} : Valid(x) /\ ("disp" \in x => "brush" \in x)},
                                         f \in {{}, {"vis", "group", "hidden"}}}
                ELSE {{}, {"fix", "outs"}, {"fix", "outs", "brush", "disp", "multi", "vis", "group", "hidden"}},
  Output    |-> SUBSET {"inst", "comma"},
  VisGroup  |-> SUBSET {"kids"},
  Keyvalues |-> {{"leaf"}, {}, {"nested"}, {"root"}, {"root", "nested"}},
  \* the remaining classes of srctools.vmf that can be copied (no optional blocks)
  EntityGroup |-> {{}}, Camera |-> {{}}, Cordon |-> {{}}, UVAxis |-> {{}}, EntityFixup |-> {{}}
]
Roots == DOMAIN OptSets
Hows == [Side |-> {"same", "other"}, Solid |-> {"same", "other"}, Entity |-> {"same", "other"},
         Output |-> {"same"}, VisGroup |-> {"same", "other"}, Keyvalues |-> {"same"},
         EntityGroup |-> {"same", "other"}, Camera |-> {"same"}, Cordon |-> {"same"}, UVAxis |-> {"same"},
         EntityFixup |-> {"copy", "deepcopy"}]        \* copy.copy() / copy.deepcopy(): both give fresh values
Methods == [Side |-> {"translate", "localise", "vertex_edit"}, Solid |-> {"translate", "localise", "vertex_edit", "vis_edit"},
            Entity |-> {"translate", "localise", "vertex_edit", "key_edit", "fixup_edit", "out_edit", "vis_edit"},
            Output |-> {"out_edit"}, VisGroup |-> {"vis_edit"}, Keyvalues |-> {"key_edit"},
            EntityGroup |-> {"vis_edit"}, Camera |-> {}, Cordon |-> {}, UVAxis |-> {}, EntityFixup |-> {"fixup_edit"}]

VARIABLES cls, opts, how, sl, h, phase, nmut, act
vars == <<cls, opts, how, sl, h, phase, nmut>>

Init == /\ cls \in Roots \cup {"Operator"}
        /\ opts \in (IF cls = "Operator" THEN {{}} ELSE OptSets[cls])
        /\ how \in (IF cls = "Operator" THEN {"same"} ELSE Hows[cls])
        /\ sl = (IF cls = "Operator" THEN {} ELSE ObjSlots(cls, opts))      \* the object's slots (fixed)
        /\ h = IF cls = "Operator" THEN [val |-> [a |-> 1, b |-> 2], ref |-> <<>>]
               ELSE [val |-> [o |-> [p \in {s.p : s \in sl} |-> 1]], ref |-> <<>>]
        /\ phase = "built" /\ nmut = 0
        /\ act = [op |-> "build"]

\* copy(): every field carried over, a fresh cell for everything mutable
CopyObj == /\ phase = "built" /\ cls # "Operator"
           /\ h' = [val |-> [o |-> h.val["o"], c |-> CopyVal(sl, h.val["o"], how)], ref |-> DeepRef(sl)]
           /\ phase' = "copied"
           /\ act' = [op |-> "copy"]
           /\ UNCHANGED <<cls, opts, how, sl, nmut>>
\* in-place mutation of one cell reachable from one side
MutateCell(side, p) == /\ phase = "copied" /\ nmut < MaxMut
                       /\ h' = Mutate(h, side, p)
                       /\ nmut' = nmut + 1
                       /\ act' = [op |-> "cell", side |-> side, path |-> p]
                       /\ UNCHANGED <<cls, opts, how, sl, phase>>
\* a mutating method of the object (translate, localise, key / fixup / vertex / output / visgroup edits)
MutateMethod(side, m) == /\ phase = "copied" /\ nmut < MaxMut /\ Touch(sl, m) # {}
                         /\ h' = MutateAll(h, side, Touch(sl, m))
                         /\ nmut' = nmut + 1
                         /\ act' = [op |-> "method", side |-> side, meth |-> m]
                         /\ UNCHANGED <<cls, opts, how, sl, phase>>
\* a + b, a @ b, ...: a new value, the operands untouched
BinOp(t) == /\ cls = "Operator" /\ phase = "built"
            /\ h' = [h EXCEPT !.val = [a |-> h.val["a"], b |-> h.val["b"], r |-> h.val["a"] + h.val["b"]]]
            /\ phase' = "applied"
            /\ act' = [op |-> "binop", f |-> t[1], lt |-> t[2], rt |-> t[3]]
            /\ UNCHANGED <<cls, opts, how, sl, nmut>>

Next == \/ CopyObj
        \/ \E side \in {"o", "c"} : \E s \in MutOf(sl) : MutateCell(side, s.p)
        \/ \E side \in {"o", "c"} : \E m \in (IF cls \in Roots THEN Methods[cls] ELSE {}) : MutateMethod(side, m)
        \/ \E t \in OpTable : BinOp(t)
Spec == Init /\ [][Next]_vars

(* ---- the listed property ------------------------------------------------------ *)
Copied == phase = "copied"
\* no mutable cell is reachable from both
Disjoint == Copied => Reach(sl, h, "o") \cap Reach(sl, h, "c") = {}
\* the copy exports like the original (IDs and the map aside) until one of them is changed
Complete == (Copied /\ nmut = 0) => Export(sl, h, "c") = Export(sl, h, "o")
\* a mutation through one side is invisible through the other
Frame == [][(phase = "copied" /\ act'.op \in {"cell", "method"}) =>
              (IF act'.side = "c" THEN Export(sl, h', "o") = Export(sl, h, "o")
                                  ELSE Export(sl, h', "c") = Export(sl, h, "c"))]_vars
\* and is visible through the side it was made on (the model's mutations are not vacuous)
Effective == [][(phase = "copied" /\ act'.op = "cell") => h'.val # h.val]_vars
\* operators leave their operands alone and deliver a new cell
OperandsKept == [][act'.op = "binop" => (h'.val["a"] = h.val["a"] /\ h'.val["b"] = h.val["b"])]_vars
(* ---- what makes it hold -------------------------------------------------------- *)
\* every slot of the schema is a slot of the copy
AllFields == Copied => DOMAIN h.val["c"] = DOMAIN h.val["o"]
FreshIds == Copied => \A s \in IdOf(sl) : h.val["c"][s.p] # h.val["o"][s.p]

View == vars
Emit == PrintT(ToJson([tag |-> "EDGE", cls |-> cls, opts |-> opts, how |-> how, n |-> nmut, a |-> act']))
=============================================================================
