SPECIFICATION TblSpec
CONSTANTS
  Items = {"x1", "x2", "x3"}
  MaxLen = 4
  MaxSub = 3
PROPERTY PrefixStable
PROPERTY NoNewDuplicate
VIEW View
ACTION_CONSTRAINT Emit
CHECK_DEADLOCK FALSE
