SPECIFICATION Spec
CONSTANTS
  MaxLen = 5
  Alphabet = {"..", ".", "", "sub", "in.txt", "rootx", "root", "B", "A"}
  Base <- BaseMC
  Pres = {"rel"}
  Kinds = {"fwd", "back", "mix"}
  RootForms = {"plain", "trail"}
  Chains = {TRUE, FALSE}
INVARIANT Safe
INVARIANT NormalForm
INVARIANT ClimbAgrees
INVARIANT ChainIsPrefixed
CHECK_DEADLOCK FALSE
