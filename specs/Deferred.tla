--------------------------------- MODULE Deferred ---------------------------------
EXTENDS DeferredOps, TLC, Json
CONSTANTS Keys, MaxLen
VARIABLES s, act
vars == <<s>>
Init == s = Init0 /\ act = [op |-> "init"]
Fits(t) == Len(t.file) <= MaxLen
DoBody(n) == /\ Fits(WriteBody(s, n)) /\ s' = WriteBody(s, n) /\ act' = [op |-> "body", n |-> n]
DoDefer(k, size, w) == /\ Fits(Defer(s, k, size, w)) /\ (w \/ s.cur + size - 1 <= MaxLen)
                       /\ s' = Defer(s, k, size, w) /\ act' = [op |-> "defer", k |-> k, size |-> size, w |-> w]
DoSet(k) == s' = SetData(s, k).s /\ act' = [op |-> "set", k |-> k, res |-> SetData(s, k).res]
DoPos(k) == UNCHANGED s /\ act' = [op |-> "pos", k |-> k, res |-> PosOf(s, k)]
DoWrite == /\ \A k \in DOMAIN s.loc : s.loc[k].pos + s.loc[k].size - 1 <= MaxLen
           /\ s' = WriteAll(s).s /\ act' = [op |-> "write", res |-> WriteAll(s).res]
Next == \/ \E n \in 1..2 : DoBody(n)
        \/ \E k \in Keys, size \in {1, 2}, w \in BOOLEAN : DoDefer(k, size, w)
        \/ \E k \in Keys : DoSet(k) \/ DoPos(k)
        \/ DoWrite
Spec == Init /\ [][Next]_vars
\* after a successful write every registered slot holds exactly its packed value, nothing is
\* pending, and the cursor is back where it was
\* (for slots whose data was packed with the slot's current format)
Consistent == \A k \in DOMAIN s.loc \cap DOMAIN s.data : s.data[k] = s.loc[k].size
WriteLaw == LET r == WriteAll(s) IN
    (Consistent /\ r.res = "ok") =>
        /\ r.s.cur = s.cur /\ r.s.loc = <<>> /\ r.s.data = <<>>
        /\ \A k \in DOMAIN s.loc : \A i \in 1..s.loc[k].size :
              \* unless a later slot overlaps it (same position registered twice)
              (\A k2 \in DOMAIN s.loc : k2 = k \/ s.loc[k2].pos + s.loc[k2].size <= s.loc[k].pos \/ s.loc[k2].pos >= s.loc[k].pos + s.loc[k].size)
                 => r.s.file[s.loc[k].pos + i - 1] = <<k, i>>
        /\ \A i \in 1..Len(s.file) : (\A k \in DOMAIN s.loc : i < s.loc[k].pos \/ i >= s.loc[k].pos + s.loc[k].size)
                                        => r.s.file[i] = s.file[i]
\* a missing value is an error, never a silently unfilled slot
MissingIsError == (\E k \in DOMAIN s.loc : k \notin DOMAIN s.data) => WriteAll(s).res = "ValueError"
View == vars
Obs(t) == [file |-> t.file, cur |-> t.cur,
           loc |-> [i \in 1..Len(t.order) |-> [k |-> t.order[i], pos |-> t.loc[t.order[i]].pos, size |-> t.loc[t.order[i]].size]],
           data |-> [i \in 1..Len(t.order) |-> IF t.order[i] \in DOMAIN t.data THEN t.data[t.order[i]] ELSE 0]]
Emit == PrintT(ToJson([tag |-> "EDGE", s |-> Obs(s), a |-> act', t |-> Obs(s')]))
=============================================================================
