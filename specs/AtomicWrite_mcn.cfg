SPECIFICATION Spec
CONSTANTS
  W = {"w1", "w2"}
  MaxBody = 0
  Faults = 1
  Stale = {1}
  NNames = 4
  AnyName = TRUE
  DirMissing = FALSE
  AnySplit = TRUE
  KeepHist = FALSE
  Reusers = {}
  MaxRounds = 1
  MinBody = 0
INVARIANT DestOldOrNew
INVARIANT FailedIsClean
INVARIANT DoneIsNew
INVARIANT TempsDisjoint
INVARIANT DeadIsIntact
INVARIANT StaleKept
PROPERTY OthersUntouched
CHECK_DEADLOCK FALSE
