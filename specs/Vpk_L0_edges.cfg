SPECIFICATION Spec
CONSTANTS
  Names = {"n1"}
  SizeSel = "tiny"
  Limit = 0
  FName = "_dir.vpk"
  ArchIdx <- IdxAll
  NArch = 2
  Cs <- CsAll
  MaxW = 2
INVARIANT ReadBack
INVARIANT DiskReadBack
INVARIANT Fits
PROPERTY ArchivesAppendOnly
PROPERTY ReadOnlyRejects
PROPERTY FailureIsNoop
PROPERTY DirFileStable
VIEW View
ACTION_CONSTRAINT Emit
CHECK_DEADLOCK FALSE
