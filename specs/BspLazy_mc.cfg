SPECIFICATION Spec
CONSTANTS
  MaxAcc = 3
  TrackAcc = TRUE
  MaxSaves = 2
INVARIANT TypeOK
INVARIANT LosslessInv
INVARIANT CacheEmptyInv
INVARIANT OtherInv
INVARIANT ClosedInv
INVARIANT OrderIrrelevant
INVARIANT UserPhaseInv
INVARIANT SaveRefines
PROPERTY Untouched
VIEW View
CHECK_DEADLOCK FALSE
