SPECIFICATION Spec
CONSTANTS
  StartVecs <- VecsQuick
  StartAngs <- StartQuick
  RhsAngs <- RhsQuick
  MaxLen = 2
  UseForms <- Forms
INVARIANT Assoc
INVARIANT RoundTrip
ACTION_CONSTRAINT EmitLeaves
CHECK_DEADLOCK FALSE
