----------------------------- MODULE TokenizerRec -----------------------------
(* Reading implementation records (JSON) in the vocabulary of TokenizerOps:     *)
(* what the harness logs for one run of the real tokenizer is                   *)
(*   toks  [t, v, l] per tok() call (l = line_num after the call), continued    *)
(*         for two more calls after the first EOF                               *)
(*   err   [id, arg, l]  id "none": no exception; "error": the typed syntax      *)
(*         error; "exception": anything else.  l = its line_num                 *)
(*   etype name of the exception type ("" if none)                              *)
(*   n     cursor reads (_next_char calls) up to the first EOF / the error      *)
EXTENDS TokenizerOps

FoldFn(pairs) == [c \in {pairs[i][1] : i \in 1..Len(pairs)} |->
                    pairs[CHOOSE i \in 1..Len(pairs) : pairs[i][1] = c][2]]
\* the harness must not override the ASCII folding the specification defines itself
FoldTableOK(pairs) == \A i \in 1..Len(pairs) : pairs[i][1] > 127
CfOf(r) == [o |-> r.o, fold |-> FoldFn(r.fold)]

\* What the specification fixes about a run: the tokens (Lex, then EOF for ever: two more calls
\* are logged) and WHETHER it ends in an error.  The wording, file and line of an error are not
\* prescribed here - the property only demands that they are the same for every delivery form,
\* which the validators decide by comparing the logged observations with each other.
ErrKind(e) == IF e.id = "none" THEN "none" ELSE "error"
Observed(L) ==
    IF L.err = NoErrL
    THEN [toks |-> L.toks \o <<L.toks[Len(L.toks)], L.toks[Len(L.toks)]>>, errk |-> "none", n |-> L.n]
    ELSE [toks |-> L.toks, errk |-> "error", n |-> L.n]
Expected(text, cf) == Observed(Lex(text, cf))
\* out = one logged run; etype = the exception type the tokenizer was told to raise
Agrees(out, exp, etype) ==
    /\ out.toks = exp.toks
    /\ out.err.id = exp.errk
    /\ out.etype = IF exp.errk = "none" THEN "" ELSE etype
\* the same without line numbers (C02 states token types and values only)
TV(toks) == [k \in 1..Len(toks) |-> [t |-> toks[k].t, v |-> toks[k].v]]
AgreesTV(out, exp, etype) ==
    /\ TV(out.toks) = TV(exp.toks)
    /\ out.err.id = exp.errk
    /\ out.etype = IF exp.errk = "none" THEN "" ELSE etype
\* "a number of steps linear in the input length": the constant the harness enforces on cursor reads
LinearBound(n) == 4 * (n + 2) + 16
=============================================================================
