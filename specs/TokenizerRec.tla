----------------------------- MODULE TokenizerRec -----------------------------
(* Reading implementation records (JSON) in the vocabulary of TokenizerOps:     *)
(* what the harness logs for one run of the real tokenizer is                   *)
(*   toks  [t, v, l] per tok() call (l = line_num after the call), continued    *)
(*         for two more calls after the first EOF                               *)
(*   err   [id, arg, l]  (id "none": no exception)                              *)
(*   etype name of the exception type ("" if none)                              *)
(*   n     cursor reads (_next_char calls) up to the first EOF / the error      *)
EXTENDS TokenizerOps

FoldFn(pairs) == [c \in {pairs[i][1] : i \in 1..Len(pairs)} |->
                    pairs[CHOOSE i \in 1..Len(pairs) : pairs[i][1] = c][2]]
\* the harness must not override the ASCII folding the specification defines itself
FoldTableOK(pairs) == \A i \in 1..Len(pairs) : pairs[i][1] > 127
CfOf(r) == [o |-> r.o, fold |-> FoldFn(r.fold)]

\* What a caller must observe for this text: Lex, then EOF for ever (two more calls are logged).
Observed(L) ==
    IF L.err = NoErrL
    THEN [toks |-> L.toks \o <<L.toks[Len(L.toks)], L.toks[Len(L.toks)]>>, err |-> L.err, n |-> L.n]
    ELSE [toks |-> L.toks, err |-> L.err, n |-> L.n]
Expected(text, cf) == Observed(Lex(text, cf))
\* out = one logged run; etype = the exception type the tokenizer was told to raise
Agrees(out, exp, etype) ==
    /\ out.toks = exp.toks
    /\ out.err = exp.err
    /\ out.etype = IF exp.err.id = "none" THEN "" ELSE etype
=============================================================================
