------------------------------ MODULE FsSemOps ------------------------------
(* C19: what a srctools filesystem means, independent of the backend.          *)
(*                                                                            *)
(* A file set is a set of files [n |-> name, c |-> content id]; a name is a    *)
(* sequence of components in their original spelling.  Names are compared by   *)
(* Key: components case-folded (the fold table is a parameter: a function on   *)
(* the components in play).  A query is a sequence of tokens [s, c] (separator *)
(* "/" or "\\" before component c; "" before the first); both separators mean  *)
(* the same.  Two stored files may differ only in case: then a look-up may     *)
(* return either, which is why Lookup yields the *set* of admissible contents. *)
EXTENDS Integers, Sequences, FiniteSets

IsPrefixSeq(a, b) == Len(a) <= Len(b) /\ \A k \in 1..Len(a) : a[k] = b[k]
Min(S) == CHOOSE x \in S : \A y \in S : x <= y

FoldC(fold, c) == IF c \in DOMAIN fold THEN fold[c] ELSE c
Key(fold, n) == [k \in 1..Len(n) |-> FoldC(fold, n[k])]
QComps(toks) == [k \in 1..Len(toks) |-> toks[k].c]
Dir(n) == SubSeq(n, 1, Len(n) - 1)

(* ---- the model's symbols and their concretisations ------------------------------- *)
\* The bounded model speaks of symbols; "A", "X", "AB", "B" are other spellings of "a", "x",
\* "ab", "b".  The harness replays it with several concretisations of the symbols (plain ASCII,
\* and texts whose case folding is not their lower-casing: 'straße'/'STRASSE', ...).  A
\* concretisation is admissible when it is injective and two symbols are equivalent exactly
\* when the texts are case-fold equivalent under the fold table in play.
AbsFold(c) == CASE c = "A" -> "a" [] c = "X" -> "x" [] c = "AB" -> "ab" [] c = "B" -> "b" [] OTHER -> c
Admissible(fold, tab) ==
    \A s, t \in DOMAIN tab :
        /\ (tab[s] = tab[t] => s = t)
        /\ ((AbsFold(s) = AbsFold(t)) <=> (FoldC(fold, tab[s]) = FoldC(fold, tab[t])))
ConcName(tab, n) == [k \in 1..Len(n) |-> tab[n[k]]]

(* ---- one filesystem ------------------------------------------------------- *)
\* A container may hold several entries whose names fold to the same name (two spellings, or one
\* name stored twice), with different content.  Each entry carries its position i in the
\* container's own order; THE LAST ONE WINS: it is the file of that name, in every backend.
Having(fold, fs, n) == {f \in fs : Key(fold, f.n) = Key(fold, n)}
Last(S) == CHOOSE f \in S : \A g \in S : g.i <= f.i
IsWinner(fold, fs, f) == f = Last(Having(fold, fs, f.n))
\* (kept as a set - empty or one content - so that "no such file" needs no extra value)
Lookup(fold, fs, n) == IF Having(fold, fs, n) = {} THEN {} ELSE {Last(Having(fold, fs, n)).c}
Exists(fold, fs, n) == Having(fold, fs, n) # {}
\* the files located inside a folder: the folder's components are a prefix of the file's
\* directory components; the empty folder holds everything
InFolder(fold, folder, f) == IsPrefixSeq(Key(fold, folder), Key(fold, Dir(f.n)))
Walk(fold, fs, folder) == {f \in fs : InFolder(fold, folder, f) /\ IsWinner(fold, fs, f)}
WalkKeys(fold, fs, folder) == {Key(fold, f.n) : f \in Walk(fold, fs, folder)}

\* the directory filesystem is bound for exact-case names only: a spelling is "exact" for a
\* file set when every leading part of it that matches a leading part of a stored name up to
\* case is spelled exactly like it.
ExactFor(fold, fs, n) ==
    \A f \in fs : \A k \in 1..Len(n) :
        (k <= Len(f.n) /\ Key(fold, SubSeq(n, 1, k)) = Key(fold, SubSeq(f.n, 1, k)))
            => SubSeq(n, 1, k) = SubSeq(f.n, 1, k)
\* ... and the stored names themselves must not collide up to case
Unambiguous(fold, fs) == \A f \in fs : ExactFor(fold, fs, f.n)

(* ---- the text of a folder / name as handed to a backend ------------------------ *)
BSl == "\\"
\* segments between separators of either kind ("" -> <<"">>)
RECURSIVE SplitAcc(_, _, _, _)
SplitAcc(s, k, cur, acc) ==
    IF k > Len(s) THEN Append(acc, cur)
    ELSE LET ch == SubSeq(s, k, k) IN
         IF ch = "/" \/ ch = BSl THEN SplitAcc(s, k + 1, "", Append(acc, cur))
         ELSE SplitAcc(s, k + 1, cur \o ch, acc)
Segs(s) == SplitAcc(s, 1, "", <<>>)
IsName(c) == c # "" /\ c # "."
\* the components a text denotes: empty segments (doubled or trailing separators) and "." vanish
TextComps(s) == SelectSeq(Segs(s), IsName)
\* canonical text: nothing to drop, except one trailing separator
Canonical(s) == LET g == Segs(s) IN
    /\ \A k \in 1..(Len(g) - 1) : IsName(g[k])
    /\ g[Len(g)] # "."

(* ---- chains ----------------------------------------------------------------- *)
\* chain = sequence of members [fs, pfx]; earlier members have priority
AddSys(chain, m, priority) == IF priority THEN <<m>> \o chain ELSE Append(chain, m)
HavingMembers(fold, chain, n) == {i \in 1..Len(chain) : Exists(fold, chain[i].fs, chain[i].pfx \o n)}
ChainLookup(fold, chain, n) ==
    LET idx == HavingMembers(fold, chain, n)
    IN  IF idx = {} THEN {} ELSE Lookup(fold, chain[Min(idx)].fs, chain[Min(idx)].pfx \o n)
\* a member lists the files below its prefix, named relative to the prefix
Rel(pfx, n) == SubSeq(n, Len(pfx) + 1, Len(n))
MemberWalk(fold, m, folder) ==
    {[n |-> Rel(m.pfx, f.n), c |-> f.c] : f \in Walk(fold, m.fs, m.pfx \o folder)}
\* the de-duplicated walk: each folded name once, from the first member listing it
ChainWalkKeys(fold, chain, folder) ==
    UNION {{Key(fold, e.n) : e \in MemberWalk(fold, chain[i], folder)} : i \in 1..Len(chain)}
ChainWalkContents(fold, chain, folder, key) ==
    LET idx == {i \in 1..Len(chain) : \E e \in MemberWalk(fold, chain[i], folder) : Key(fold, e.n) = key}
    IN  IF idx = {} THEN {}
        ELSE {e.c : e \in {x \in MemberWalk(fold, chain[Min(idx)], folder) : Key(fold, x.n) = key}}

(* ---- how FileSystemChain combines what its members report -------------------- *)
\* lists = per member, in chain order: the sequence of [n, c] it reported (names below its prefix).  The result is the
\* concatenation with names made relative, keeping the first occurrence of every folded name.
RECURSIVE Dedup(_, _, _)
Dedup(fold, q, seen) ==
    IF q = <<>> THEN <<>>
    ELSE IF Key(fold, q[1].n) \in seen THEN Dedup(fold, Tail(q), seen)
    ELSE <<q[1]>> \o Dedup(fold, Tail(q), seen \cup {Key(fold, q[1].n)})
RECURSIVE Concat(_)
Concat(qq) == IF qq = <<>> THEN <<>> ELSE qq[1] \o Concat(Tail(qq))
\* walk_folder_repeat: the same without de-duplication
ComposeRepeat(fold, pfxs, lists) ==
    Concat([i \in 1..Len(lists) |->
              [k \in 1..Len(lists[i]) |-> [n |-> Rel(pfxs[i], lists[i][k].n), c |-> lists[i][k].c]]])
Compose(fold, pfxs, lists) ==
    Dedup(fold, Concat([i \in 1..Len(lists) |->
                         [k \in 1..Len(lists[i]) |-> [n |-> Rel(pfxs[i], lists[i][k].n), c |-> lists[i][k].c]]]), {})
=============================================================================
