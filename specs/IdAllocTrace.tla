----------------------------- MODULE IdAllocTrace -----------------------------
(* Validates records logged from the real srctools code against IdAllocOps.    *)
(* Every record carries the projected state before and after one API call, so  *)
(* each is judged on its own: it must be exactly the step the specification    *)
(* takes from the logged pre-state, and the post-state must satisfy the        *)
(* property clauses.  Mismatches are printed (one JSON line each), never fatal.*)
EXTENDS NodeIdOps, TLC, Json, IOUtils

Recs == ndJsonDeserialize(IOEnv.TRACE_FILE)
N == Len(Recs)
VARIABLE i

ToSet(q) == {q[k] : k \in 1..Len(q)}
ManOf(j) == [used |-> ToSet(j.used), pos |-> j.pos]
StOf(j) == [man |-> [m \in DOMAIN j.man |-> ManOf(j.man[m])], objs |-> j.objs]
PairsToFn(q) == [v \in {q[k][1] : k \in 1..Len(q)} |->
                    (CHOOSE k \in 1..Len(q) : q[k][1] = v) ]
FixOf(q) == [v \in {q[k][1] : k \in 1..Len(q)} |-> q[CHOOSE k \in 1..Len(q) : q[k][1] = v][2]]
NoDupIdx(q) == \A a, b \in 1..Len(q) : a # b => q[a][2] # q[b][2]

Bad(c, e) == [ok |-> FALSE, clause |-> c, exp |-> e]
Good == [ok |-> TRUE, clause |-> "", exp |-> 0]

\* The design model (IdAllocOps) picks the lowest free ID at or above a hint.  The property does not
\* prescribe that choice, nor that released IDs are reused, nor the hint: a step of the real code is
\* accepted when it is a step of the specification for SOME choice of a fresh positive ID, i.e.
\*   - the ID handed out is positive and was not reserved,
\*   - it is the wish when the wish was positive and not reserved,
\*   - afterwards it is reserved, nothing else was released, and every live object's ID is reserved.
\* The exact deterministic step is still what TLC explores in IdAlloc; exp shows it for diagnosis.

\* --- IDMan used directly
ManStep(r) ==
    LET pre == ManOf(r.pre) post == ManOf(r.post)
        e == IF r.a.op = "get" THEN Get(pre, r.a.d) ELSE Discard(pre, r.a.d)
    IN  IF r.a.op = "get" THEN
             IF r.res < 1 THEN Bad("idman.positive", e.res)
             ELSE IF r.res \in pre.used THEN Bad("idman.result", e.res)
             ELSE IF r.a.d >= 1 /\ r.a.d \notin pre.used /\ r.res # r.a.d THEN Bad("idman.wish", e.res)
             ELSE IF ~(pre.used \cup {r.res} \subseteq post.used) THEN Bad("idman.used", e.s.used)
             ELSE Good
        ELSE IF ~(pre.used \ {r.a.d} \subseteq post.used) THEN Bad("idman.used", e.s.used)
             ELSE IF ~(post.used \subseteq pre.used) THEN Bad("idman.used", e.s.used)
             ELSE Good

\* --- object life cycle of one kind
LiveIds(st, m) == {st.objs[o].id : o \in LiveIn(st, m)}
LReserved(st) == \A m \in DOMAIN st.man : LiveIds(st, m) \subseteq st.man[m].used
LifeStep(r) ==
    LET pre == StOf(r.pre) post == StOf(r.post) a == r.a
        e == CASE a.op = "create" -> LCreate(pre, a.o, a.m, a.d)
               [] a.op = "copy"   -> LCreate(pre, a.p, a.m, a.d)
               [] a.op = "detach" -> LSetIn(pre, a.o, FALSE)
               [] a.op = "attach" -> LSetIn(pre, a.o, TRUE)
               [] a.op = "drop"   -> LDrop(pre, a.o)
               [] a.op = "forget" -> LForget(pre, a.o)
        o == IF a.op = "copy" THEN a.p ELSE a.o
        new == post.objs[o]
    IN  IF a.op = "failcreate" THEN
             \* a rejected construction: no object appears or changes, nothing is released
             (IF post.objs # pre.objs THEN Bad("life.ids", pre.objs)
              ELSE IF \E m \in DOMAIN post.man : ~(pre.man[m].used \subseteq post.man[m].used)
                   THEN Bad("life.allocator", pre.man)
              ELSE Good)
        ELSE IF ~LUnique(post) THEN Bad("life.unique", e.s.objs)
        ELSE IF ~LPositive(post) THEN Bad("life.positive", e.s.objs)
        \* every other object is untouched; the object itself is as the specification says,
        \* up to which fresh ID it was given
        ELSE IF \E x \in DOMAIN post.objs \ {o} : post.objs[x] # pre.objs[x] THEN Bad("life.ids", e.s.objs)
        ELSE IF a.op \in {"create", "copy"} /\
                (new.m # a.m \/ ~new.inmap \/ new.id \in pre.man[a.m].used
                 \/ (a.d >= 1 /\ a.d \notin pre.man[a.m].used /\ new.id # a.d)) THEN Bad("life.ids", e.s.objs)
        ELSE IF a.op \notin {"create", "copy"} /\ new # e.s.objs[o] THEN Bad("life.ids", e.s.objs)
        \* no live object's ID has been given back; other maps' allocators only ever shrink by
        \* the dropped object's own ID
        ELSE IF ~LReserved(post) THEN Bad("life.allocator", e.s.man)
        ELSE IF \E m \in DOMAIN post.man : ~((pre.man[m].used \ {pre.objs[o].id}) \subseteq post.man[m].used)
             THEN Bad("life.allocator", e.s.man)
        ELSE Good

\* --- a whole document parsed: ids listed per kind in document order
DistinctSeq(q) == \A a, b \in 1..Len(q) : a # b => q[a] # q[b]
ParseStep(r) ==
    IF ~DistinctSeq(r.ids) THEN Bad("parse.unique", 0)
    ELSE IF \E k \in 1..Len(r.ids) : r.ids[k] < 1 THEN Bad("parse.positive", 0)
    ELSE IF Len(r.ids) # r.n THEN Bad("parse.count", r.n)
    ELSE Good

\* --- node IDs: the IDs of the entities in the map, plus the allocator's reserved set.  An entity
\* in the map owns its ID: it is reserved (so nobody else can be handed it), positive and distinct.
OwnedStep(r) ==
    IF ~DistinctSeq(r.ids) THEN Bad("owned.unique", 0)
    ELSE IF \E k \in 1..Len(r.ids) : r.ids[k] < 1 THEN Bad("owned.positive", 0)
    ELSE IF \E k \in 1..Len(r.ids) : r.ids[k] \notin {r.used[j] : j \in 1..Len(r.used)}
         THEN Bad("owned.reserved", 0)
    ELSE Good

\* --- one API call of the node-ID protocol (NodeIdOps) on real VMF/Entity objects.  The step is
\* the specification's step from the logged pre-state, up to the allocator's free choice: which
\* unused ID is handed out when the wish is unavailable is not prescribed, nor is keeping spare IDs
\* reserved; membership, the other entities' keys, plain-data keys outside the map, an available
\* wish being honoured, and uniqueness / positivity / reservation of the IDs in the map are.
NStOf(j) == [man |-> ManOf(j.man), ents |-> j.ents]
NodeStep(r) ==
    LET pre == NStOf(r.pre) post == NStOf(r.post) a == r.a
        o == IF a.op = "copy" THEN a.p ELSE a.o
        e == CASE a.op = "construct" -> NConstruct(pre, a.o, a.k)
               [] a.op = "create" -> NCreate(pre, a.o, a.k)
               [] a.op = "copy" -> NConstruct(pre, a.p, pre.ents[a.o].key)
               [] a.op = "add" -> NAdd(pre, a.o)
               [] a.op = "remove" -> NRemove(pre, a.o)
               [] a.op = "set" -> NSet(pre, a.o, a.k)
               [] a.op = "del" -> NDel(pre, a.o)
               [] a.op = "destroy" -> NDestroy(pre, a.o)
        wish == CASE a.op \in {"create", "set"} -> a.k
                  [] a.op = "add" -> pre.ents[a.o].key
                  [] OTHER -> NoKey
        ek == e.ents[o].key  pk == post.ents[o].key
    IN  IF ~NUnique(post) THEN Bad("node.unique", e.ents)
        ELSE IF ~NPositive(post) THEN Bad("node.positive", e.ents)
        ELSE IF ~NReserved(post) THEN Bad("node.reserved", e.man.used)
        ELSE IF \E x \in DOMAIN post.ents : post.ents[x].w # e.ents[x].w THEN Bad("node.membership", e.ents)
        ELSE IF \E x \in DOMAIN post.ents \ {o} : post.ents[x] # pre.ents[x] THEN Bad("node.frame", e.ents)
        ELSE IF e.ents[o].w = "in" /\ IsNum(ek) /\ a.op \in {"create", "set", "add"}
             THEN (IF ~IsNum(pk) THEN Bad("node.claimed", ek)
                   ELSE IF ek = wish /\ pk # wish THEN Bad("node.wish", ek)
                   ELSE Good)
        ELSE IF pk # ek THEN Bad("node.key", ek)
        ELSE Good

\* --- fixup replaceNN indexes; pre/post are lists of <<folded var, index>>
FixStep(r) ==
    LET pre == FixOf(r.pre) post == FixOf(r.post)
        e == CASE r.a.op = "fixset" -> FixSet(pre, r.a.v)
               [] r.a.op = "fixdel" -> FixDel(pre, r.a.v)
               [] r.a.op = "fixcopy" -> pre
    IN  IF ~NoDupIdx(r.post) THEN Bad("fix.unique", e)
        \* a new variable gets SOME unused positive index (the design picks the lowest; the property
        \* does not say which); every other variable keeps its index; deleting and copying are exact
        ELSE IF r.a.op = "fixset" THEN
             (IF DOMAIN post # DOMAIN pre \cup {r.a.v} THEN Bad("fix.index", e)
              ELSE IF \E w \in DOMAIN pre : post[w] # pre[w] THEN Bad("fix.index", e)
              ELSE IF r.a.v \notin DOMAIN pre /\ post[r.a.v] < 1 THEN Bad("fix.positive", e)
              ELSE Good)
        ELSE IF e # post THEN Bad("fix.index", e)
        ELSE Good
\* construction from a list with colliding indexes: all variables kept, indexes distinct,
\* first holder of an index keeps it
FixInit(r) ==
    IF ~NoDupIdx(r.post) THEN Bad("fixinit.unique", 0)
    ELSE IF {r.post[k][1] : k \in 1..Len(r.post)} # {r.given[k][1] : k \in 1..Len(r.given)}
        THEN Bad("fixinit.vars", 0)
    ELSE IF \E k \in 1..Len(r.post) : r.post[k][2] < 1 /\ ~\E g \in 1..Len(r.given) : r.given[g][2] = r.post[k][2]
        THEN Bad("fixinit.positive", 0)
    ELSE Good

Verdict(r) == CASE r.k = "idman" -> ManStep(r)
                [] r.k = "life" -> LifeStep(r)
                [] r.k = "parse" -> ParseStep(r)
                [] r.k = "owned" -> OwnedStep(r)
                [] r.k = "node" -> NodeStep(r)
                [] r.k = "fix" -> FixStep(r)
                [] r.k = "fixinit" -> FixInit(r)

Init == i = 0
Next == i < N /\ i' = i + 1
Checked == i = 0 \/ LET v == Verdict(Recs[i]) IN
              v.ok \/ PrintT(ToJson([tag |-> "MISMATCH", i |-> i, clause |-> v.clause, exp |-> v.exp]))
AllConsumed == TLCGet("stats").diameter = N + 1
=============================================================================
