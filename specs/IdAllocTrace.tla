----------------------------- MODULE IdAllocTrace -----------------------------
(* Validates records logged from the real srctools code against IdAllocOps.    *)
(* Every record carries the projected state before and after one API call, so  *)
(* each is judged on its own: it must be exactly the step the specification    *)
(* takes from the logged pre-state, and the post-state must satisfy the        *)
(* property clauses.  Mismatches are printed (one JSON line each), never fatal.*)
EXTENDS NodeIdOps, TLC, Json, IOUtils

Recs == ndJsonDeserialize(IOEnv.TRACE_FILE)
N == Len(Recs)
VARIABLE i

ToSet(q) == {q[k] : k \in 1..Len(q)}
ManOf(j) == [used |-> ToSet(j.used), pos |-> j.pos]
StOf(j) == [man |-> [m \in DOMAIN j.man |-> ManOf(j.man[m])], objs |-> j.objs]
PairsToFn(q) == [v \in {q[k][1] : k \in 1..Len(q)} |->
                    (CHOOSE k \in 1..Len(q) : q[k][1] = v) ]
FixOf(q) == [v \in {q[k][1] : k \in 1..Len(q)} |-> q[CHOOSE k \in 1..Len(q) : q[k][1] = v][2]]
NoDupIdx(q) == \A a, b \in 1..Len(q) : a # b => q[a][2] # q[b][2]

Bad(c, e) == [ok |-> FALSE, clause |-> c, exp |-> e]
Good == [ok |-> TRUE, clause |-> "", exp |-> 0]

\* --- IDMan used directly
ManStep(r) ==
    LET pre == ManOf(r.pre) post == ManOf(r.post)
        e == IF r.a.op = "get" THEN Get(pre, r.a.d) ELSE Discard(pre, r.a.d)
    IN  IF e.res # r.res THEN Bad("idman.result", e.res)
        ELSE IF e.s.used # post.used THEN Bad("idman.used", e.s.used)
        ELSE IF e.s.pos # post.pos THEN Bad("idman.hint", e.s.pos)
        ELSE IF r.a.op = "get" /\ r.res < 1 THEN Bad("idman.positive", 1)
        ELSE Good

\* --- object life cycle of one kind
LifeStep(r) ==
    LET pre == StOf(r.pre) post == StOf(r.post) a == r.a
        e == CASE a.op = "create" -> LCreate(pre, a.o, a.m, a.d)
               [] a.op = "copy"   -> LCreate(pre, a.p, a.m, a.d)
               [] a.op = "detach" -> LSetIn(pre, a.o, FALSE)
               [] a.op = "attach" -> LSetIn(pre, a.o, TRUE)
               [] a.op = "drop"   -> LDrop(pre, a.o)
               [] a.op = "forget" -> LForget(pre, a.o)
    IN  IF ~LUnique(post) THEN Bad("life.unique", e.s.objs)
        ELSE IF ~LPositive(post) THEN Bad("life.positive", e.s.objs)
        ELSE IF e.s.objs # post.objs THEN Bad("life.ids", e.s.objs)
        ELSE IF e.s.man # post.man THEN Bad("life.allocator", e.s.man)
        ELSE Good

\* --- a whole document parsed: ids listed per kind in document order
DistinctSeq(q) == \A a, b \in 1..Len(q) : a # b => q[a] # q[b]
ParseStep(r) ==
    IF ~DistinctSeq(r.ids) THEN Bad("parse.unique", 0)
    ELSE IF \E k \in 1..Len(r.ids) : r.ids[k] < 1 THEN Bad("parse.positive", 0)
    ELSE IF Len(r.ids) # r.n THEN Bad("parse.count", r.n)
    ELSE Good

\* --- node IDs: the IDs of the entities in the map, plus the allocator's reserved set.  An entity
\* in the map owns its ID: it is reserved (so nobody else can be handed it), positive and distinct.
OwnedStep(r) ==
    IF ~DistinctSeq(r.ids) THEN Bad("owned.unique", 0)
    ELSE IF \E k \in 1..Len(r.ids) : r.ids[k] < 1 THEN Bad("owned.positive", 0)
    ELSE IF \E k \in 1..Len(r.ids) : r.ids[k] \notin {r.used[j] : j \in 1..Len(r.used)}
         THEN Bad("owned.reserved", 0)
    ELSE Good

\* --- one API call of the node-ID protocol (NodeIdOps) on real VMF/Entity objects.  The step is
\* the specification's step from the logged pre-state, up to the allocator's free choice: which
\* unused ID is handed out when the wish is unavailable is not prescribed, nor is keeping spare IDs
\* reserved; membership, the other entities' keys, plain-data keys outside the map, an available
\* wish being honoured, and uniqueness / positivity / reservation of the IDs in the map are.
NStOf(j) == [man |-> ManOf(j.man), ents |-> j.ents]
NodeStep(r) ==
    LET pre == NStOf(r.pre) post == NStOf(r.post) a == r.a
        o == IF a.op = "copy" THEN a.p ELSE a.o
        e == CASE a.op = "construct" -> NConstruct(pre, a.o, a.k)
               [] a.op = "create" -> NCreate(pre, a.o, a.k)
               [] a.op = "copy" -> NConstruct(pre, a.p, pre.ents[a.o].key)
               [] a.op = "add" -> NAdd(pre, a.o)
               [] a.op = "remove" -> NRemove(pre, a.o)
               [] a.op = "set" -> NSet(pre, a.o, a.k)
               [] a.op = "del" -> NDel(pre, a.o)
               [] a.op = "destroy" -> NDestroy(pre, a.o)
        wish == CASE a.op \in {"create", "set"} -> a.k
                  [] a.op = "add" -> pre.ents[a.o].key
                  [] OTHER -> NoKey
        ek == e.ents[o].key  pk == post.ents[o].key
    IN  IF ~NUnique(post) THEN Bad("node.unique", e.ents)
        ELSE IF ~NPositive(post) THEN Bad("node.positive", e.ents)
        ELSE IF ~NReserved(post) THEN Bad("node.reserved", e.man.used)
        ELSE IF \E x \in DOMAIN post.ents : post.ents[x].w # e.ents[x].w THEN Bad("node.membership", e.ents)
        ELSE IF \E x \in DOMAIN post.ents \ {o} : post.ents[x] # pre.ents[x] THEN Bad("node.frame", e.ents)
        ELSE IF e.ents[o].w = "in" /\ IsNum(ek) /\ a.op \in {"create", "set", "add"}
             THEN (IF ~IsNum(pk) THEN Bad("node.claimed", ek)
                   ELSE IF ek = wish /\ pk # wish THEN Bad("node.wish", ek)
                   ELSE Good)
        ELSE IF pk # ek THEN Bad("node.key", ek)
        ELSE Good

\* --- fixup replaceNN indexes; pre/post are lists of <<folded var, index>>
FixStep(r) ==
    LET pre == FixOf(r.pre) post == FixOf(r.post)
        e == CASE r.a.op = "fixset" -> FixSet(pre, r.a.v)
               [] r.a.op = "fixdel" -> FixDel(pre, r.a.v)
               [] r.a.op = "fixcopy" -> pre
    IN  IF ~NoDupIdx(r.post) THEN Bad("fix.unique", e)
        ELSE IF e # post THEN Bad("fix.index", e)
        ELSE Good
\* construction from a list with colliding indexes: all variables kept, indexes distinct,
\* first holder of an index keeps it
FixInit(r) ==
    IF ~NoDupIdx(r.post) THEN Bad("fixinit.unique", 0)
    ELSE IF {r.post[k][1] : k \in 1..Len(r.post)} # {r.given[k][1] : k \in 1..Len(r.given)}
        THEN Bad("fixinit.vars", 0)
    ELSE IF \E k \in 1..Len(r.post) : r.post[k][2] < 1 /\ ~\E g \in 1..Len(r.given) : r.given[g][2] = r.post[k][2]
        THEN Bad("fixinit.positive", 0)
    ELSE Good

Verdict(r) == CASE r.k = "idman" -> ManStep(r)
                [] r.k = "life" -> LifeStep(r)
                [] r.k = "parse" -> ParseStep(r)
                [] r.k = "owned" -> OwnedStep(r)
                [] r.k = "node" -> NodeStep(r)
                [] r.k = "fix" -> FixStep(r)
                [] r.k = "fixinit" -> FixInit(r)

Init == i = 0
Next == i < N /\ i' = i + 1
Checked == i = 0 \/ LET v == Verdict(Recs[i]) IN
              v.ok \/ PrintT(ToJson([tag |-> "MISMATCH", i |-> i, clause |-> v.clause, exp |-> v.exp]))
AllConsumed == TLCGet("stats").diameter = N + 1
=============================================================================
