--------------------------- MODULE BspTablesTrace ---------------------------
(* Validates records logged from the real srctools code against BspTablesOps.      *)
(* Record kinds (field k):                                                         *)
(*   rle / unrle   input and output of runlength_encode / runlength_decode as run   *)
(*                 lists: the encoder's output must decode (spec decoder) to its    *)
(*                 input; the decoder must be exactly UnRle                         *)
(*   foi / foe     table before, argument, result and table after of a              *)
(*                 find_or_insert / find_or_extend call: must satisfy InsertLaw /   *)
(*                 ExtendLaw (earlier indexes stay valid, the index denotes an      *)
(*                 equal item / sub-list), wherever the item is placed              *)
(*   vis           a Visibility view written by the real writer, the lump decoded   *)
(*                 by an independent reader: count, offsets in range, and the bytes *)
(*                 at every offset decode to the row (any block order / sharing)    *)
(*   graph         an abstract cross-reference world, realised as objects,          *)
(*                 assigned, saved, re-read, projected back to ids: every reference *)
(*                 must resolve to the object assigned, every assigned view must    *)
(*                 come back as a prefix of the view read (table placement free)    *)
(*   prop          static props written and re-read in one format version           *)
(*   fits          one boundary value of one integer field                          *)
(*   rt            projection difference after assigning parsed views to an empty   *)
(*                 BSP                                                              *)
(* Mismatches are printed (one JSON line per failing clause), never fatal.          *)
EXTENDS BspTablesOps, Json, IOUtils

Recs == ndJsonDeserialize(IOEnv.TRACE_FILE)
N == Len(Recs)
VARIABLE i

M(c, item, field) == [clause |-> c, item |-> item, field |-> field]

(* ---- run-length code ---------------------------------------------------------- *)
\* the encoder is judged by what the decoder of the format makes of its output, not by which of the many
\* codes of a string it picks
VRle(r) ==
    (IF CodeParses(r.out, FALSE) THEN {} ELSE {M("rle.parses", "", "")})
    \cup (IF Expand(r.out) = Canon(r.in) THEN {} ELSE {M("rle.inverse", "", "")})
VUnRle(r) ==
    IF UnRle(r.in, r.start, r.max) = r.out THEN {} ELSE {M("rle.decode", "", "")}

(* ---- index builders ------------------------------------------------------------ *)
\* judged by the laws alone: earlier indexes stay valid, the index handed out denotes an equal item /
\* sub-list.  Which position is chosen among several, and whether something is appended that could have been
\* found, is not the property's concern.
KeyOf(r) == IF DOMAIN r.fold = {} THEN Ident(ToSet(r.tbl) \cup ToSet(r.out) \cup (IF r.k = "foi" THEN {r.arg} ELSE ToSet(r.arg)))
            ELSE r.fold
VFoi(r) ==
    IF InsertLaw(r.tbl, KeyOf(r), r.arg, [tbl |-> r.out, res |-> r.res]) THEN {} ELSE {M("foi.law", "", "")}
VFoe(r) ==
    IF ExtendLaw(r.tbl, KeyOf(r), r.arg, [tbl |-> r.out, res |-> r.res]) THEN {} ELSE {M("foe.law", "", "sublistAt")}

(* ---- visibility lump ------------------------------------------------------------ *)
VVis(r) ==
    (IF VisLumpOK(r.rows, r.count, r.offsets, r.at, r.lumplen) THEN {}
     ELSE {M("vis.lump", "", IF r.count # Len(r.rows) \div 2 THEN "count"
                             ELSE IF \E k \in 1..Len(r.at) : UnRle(r.at[k], 0, r.count) # Canon(r.rows[k]) THEN "rowAtOffset"
                             ELSE "offsetRange")})
    \cup (IF r.indep = "same" THEN {} ELSE {M("vis.independentReader", "", "")})
    \cup (IF r.back = "same" THEN {} ELSE {M("vis.readBack", "", "")})
    \cup (IF r.rewrite = "same" THEN {} ELSE {M("vis.idempotent", "", "")})

(* ---- cross-reference graph ------------------------------------------------------- *)
VisibleTables == {"planes", "texinfo", "surfedges", "primitives", "orig_faces", "faces", "hdr_faces", "brushes", "visleafs",
                  "nodes", "water", "overlays", "props", "textures"}
\* the reader overwrites the texinfo of an original face with that of the split faces made from it
Compared(w, o, slot) == ~(w.kind[o] = "origface" /\ slot = "texinfo")
Assigned(w, o, slot, p) ==
    IF p[2] \in {"one", "name"} THEN (IF w.one[o][slot] = "" THEN <<>> ELSE <<w.one[o][slot]>>) ELSE w.many[o][slot]
ProgOfKind(k) ==
    CASE k = "face" -> Prog("faces") [] k = "hdrface" -> Prog("hdr_faces") [] k = "origface" -> Prog("orig_faces")
      [] k = "node" -> Prog("nodes") [] k = "leaf" -> Prog("visleafs") [] k = "water" -> Prog("water")
      [] k = "brush" -> Prog("brushes") [] k = "side" -> Prog("$sides") [] k = "overlay" -> Prog("overlays")
      [] k = "texinfo" -> Prog("texinfo") [] k = "texdata" -> Prog("$texdata") [] k = "model" -> Prog("$models")
      [] k = "prop" -> Prog("props") [] OTHER -> << >>
SameSet(a, b) == ToSet(a) = ToSet(b) /\ Len(a) = Len(b)
\* Judged: (1) the reader hands back, for every reference of every object it returns, the object that was
\* assigned (resolved through whatever tables the writer built); (2) a view that was assigned comes back as
\* that list, possibly followed by objects the writers had to add; (3) entities keep their brush models.
\* NOT judged: where in a shared table an added object lands, which of two equal entries an index names -
\* SaveWorld (BspTablesOps) describes the placement of the present writers and is not a requirement.
VGraph(r) ==
    LET w == r.w
        obs == r.obs
    IN IF obs.error # ""
       THEN {M("graph.error", obs.error, IF obs.error = "read:IndexError" /\ r.noneRefs THEN "noneRef" ELSE "")}
       ELSE
    LET seenObjs == DOMAIN obs.refs
        bPrefix == {M("graph.law.prefix", t, "") : t \in {x \in VisibleTables : ~IsPrefix(w.tables[x], obs.tables[x])}}
        slots == {<<o, k>> \in seenObjs \X (1..5) :
                    /\ o \in DOMAIN w.kind /\ k <= Len(ProgOfKind(w.kind[o]))
                    /\ Compared(w, o, ProgOfKind(w.kind[o])[k][1])
                    /\ ProgOfKind(w.kind[o])[k][1] \in DOMAIN obs.refs[o]}
        P(s) == ProgOfKind(w.kind[s[1]])[s[2]]
        Obs(s) == obs.refs[s[1]][P(s)[1]]
        IsPropSet(s) == P(s)[2] = "each" /\ w.kind[s[1]] = "prop"
        Same(s, a, c) == IF IsPropSet(s) THEN SameSet(a, c)
                         ELSE IF P(s)[2] = "name" THEN Len(a) = Len(c) /\ \A k \in 1..Len(a) : w.fold[a[k]] = w.fold[c[k]]
                         ELSE a = c
        \* a None reference that comes back as an object: labelled, it is a known class of its own
        NoneRef(s) == /\ Assigned(w, s[1], P(s)[1], P(s)) = <<>> /\ P(s)[2] = "one" /\ Obs(s) # <<>>
                      /\ w.kind[s[1]] \in {"face", "hdrface"} /\ P(s)[1] \in {"orig", "texinfo"}
        bLaw == {M("graph.law.ref", w.kind[s[1]], P(s)[1] \o (IF NoneRef(s) THEN ":noneRef" ELSE "")) :
                    s \in {x \in slots : ~Same(x, Obs(x), Assigned(w, x[1], P(x)[1], P(x)))}}
        bEnt == IF obs.entmodels = w.tables["bmodels"] THEN {} ELSE {M("graph.law.entmodels", "", "")}
    IN bPrefix \cup bLaw \cup bEnt

(* ---- static props ----------------------------------------------------------------- *)
VProp(r) ==
    LET f == r.fmt IN
    IF r.error # "" THEN {M("prop.error", f, r.error)} \cup (IF r.lumpver = PropNum(f) THEN {} ELSE {M("prop.lumpVersion", f, "")}) ELSE
    (IF r.detected = f THEN {} ELSE {M("prop.detected", f, r.detected)})
    \cup (IF r.size = PropSize(f) THEN {} ELSE {M("prop.size", f, "")})
    \cup (IF r.lumpver = PropNum(f) THEN {} ELSE {M("prop.lumpVersion", f, "")})
    \cup (IF r.n[1] = r.n[2] THEN {} ELSE {M("prop.count", f, "")})
    \cup UNION {
        (LET row == r.rows[k] IN
        {M("prop.always", f, row.always[j][1]) : j \in {x \in 1..Len(row.always) : row.always[x][2] # row.always[x][3]}}
        \cup {M("prop.present", f, row.attrs[j][1]) :
                 j \in {x \in 1..Len(row.attrs) : PropHas(f, PropAttrField[row.attrs[x][1]]) /\ row.attrs[x][2] # row.attrs[x][3]}}
        \cup {M("prop.absentDefault", f, row.attrs[j][1]) :
                 j \in {x \in 1..Len(row.attrs) : ~PropHas(f, PropAttrField[row.attrs[x][1]]) /\ row.attrs[x][3] # row.default[x][2]}}
        \cup (IF row.flags[2] = (IF FlagsKeepHigh(f) THEN row.flags[1] ELSE row.flags[1] % 256) THEN {} ELSE {M("prop.flags", f, "")})
        \cup (LET a == row.scaling[1]
                  c == row.scaling[2]
                  want == CASE ScalingKind(f) = "xyz" -> a [] ScalingKind(f) = "x" -> <<a[1], a[1], a[1]>>
                            [] OTHER -> <<"1.0", "1.0", "1.0">>
              IN IF c = want THEN {} ELSE {M("prop.scaling", f, "")})
        \cup (IF row.leafs[1] = row.leafs[2] THEN {} ELSE {M("prop.leafs", f, "")}))
        : k \in 1..Len(r.rows)}

(* ---- Fits -------------------------------------------------------------------------- *)
\* documented API domains narrower than the on-disk field
ApiRejects(field, v) == \/ field = "overlay_level" /\ v = <<0, 255>>      \* attrs validator in_(range(255))
                        \/ field = "texdata_size" /\ v = <<0, 0>>         \* create_texinfo() demands a non-zero size
LenFits(field, n) == CASE field = "len_texture" -> n < 128 [] field = "len_face_styles" -> n = 4 [] OTHER -> n <= 128
VFits(r) ==
    LET fits == IF r.field \in {"len_prop_model", "len_detail_model", "len_texture", "len_face_styles"}
                THEN r.v[1] = 0 /\ LenFits(r.field, r.v[2])
                ELSE IF IsCountField(r.field) THEN r.v[1] >= 0 /\ r.v[1] <= 1 /\ CountFits(r.layout, r.field, r.v[1] * 65536 + r.v[2])
                ELSE FitsCode(Codes(r.layout)[r.field], r.v) /\ ~ApiRejects(r.field, r.v)
    IN IF r.outcome = "changed" THEN {M("fits.silentChange", r.field, IF fits THEN "fits" ELSE "overflow")}
       ELSE IF fits /\ r.outcome # "same" THEN {M("fits.rejectedFitting", r.field, r.exc)}
       ELSE IF ~fits /\ r.outcome # "error" THEN {M("fits.acceptedOverflow", r.field, "")}
       ELSE {}

(* ---- transplant ---------------------------------------------------------------------- *)
VRt(r) == IF r.error # "" THEN {M("rt.error", r.layout, r.error)}
          ELSE {M("rt.viewEqual", r.diff[k][1], r.diff[k][2]) : k \in 1..Len(r.diff)}

(* ---- optional parts ------------------------------------------------------------------------ *)
\* c: the combination the specification enumerated; obs: the same description of what was re-read;
\* diff: projection labels that differ between the value assigned and the value re-read
\* Two combinations have no encoding of their own in the file format:
\*  - a brush model WITH solids and phys_keyvalues = None is written with a one-byte (NUL) text section, which is
\*    also what an empty Keyvalues block serialises to: it reads back as the empty block;
\*  - a static prop lump with NO props has no record whose size would tell the formats sharing one version number
\*    apart: the format name read back is whichever the reader picks for that number.
PartExpected(c) == IF c.lump = "bmodels" /\ c.kv = "none" /\ c.solids > 0 THEN [c EXCEPT !.kv = "empty"] ELSE c
PartLabelExcused(c, label) == \/ c.lump = "bmodels" /\ c.kv = "none" /\ c.solids > 0 /\ label = "BModel.phys_keyvalues:type"
                              \/ c.lump = "props" /\ c.count = 0 /\ label = "StaticProps.version"
VPart(r) ==
    LET want == PartExpected(r.c) IN
    IF r.error # "" THEN {M("part.error", r.c.lump, r.error)}
    ELSE {M("part.lost", r.c.lump, f) : f \in {x \in DOMAIN want : x \notin DOMAIN r.obs \/ r.obs[x] # want[x]}}
         \cup {M("part.viewEqual", r.c.lump, r.diff[k][2]) : k \in {x \in 1..Len(r.diff) : ~PartLabelExcused(r.c, r.diff[x][2])}}

Verdict(r) == CASE r.k = "part" -> VPart(r) [] r.k = "rle" -> VRle(r) [] r.k = "unrle" -> VUnRle(r)
                [] r.k = "foi" -> VFoi(r) [] r.k = "foe" -> VFoe(r)
                [] r.k = "vis" -> VVis(r) [] r.k = "graph" -> VGraph(r)
                [] r.k = "prop" -> VProp(r) [] r.k = "fits" -> VFits(r) [] r.k = "rt" -> VRt(r)

Init == i = 0
Next == i < N /\ i' = i + 1
Checked == i = 0 \/ \A m \in Verdict(Recs[i]) :
              PrintT(ToJson([tag |-> "MISMATCH", i |-> i, clause |-> m.clause, exp |-> [item |-> m.item, field |-> m.field]]))
AllConsumed == TLCGet("stats").diameter = N + 1
=============================================================================
