-------------------------------- MODULE FsSem --------------------------------
(* C19: chains of filesystems honour priority.  The machine builds a chain by   *)
(* add_sys(member, prefix, priority) calls; every state is a chain, and the      *)
(* invariants relate look-up, walk and the way FileSystemChain combines the      *)
(* lists its members report.                                                     *)
EXTENDS FsSemOps, TLC, Json

CONSTANTS MaxFiles, MaxMembers, WithCase, MaxPfx

\* names that are prefixes of one another, case variants of files and folders, nesting
NamesMC == {<<"a", "x">>, <<"a", "X">>, <<"ab", "x">>, <<"a", "b", "x">>, <<"x">>, <<"A", "x">>}
Names == IF WithCase THEN NamesMC ELSE {<<"a", "x">>, <<"ab", "x">>, <<"a", "b", "x">>, <<"x">>}
Prefixes == {p \in {<<>>, <<"a">>, <<"a", "b">>} : Len(p) <= MaxPfx}
FoldMC == [c \in {"A", "X", "AB", "B"} |-> CASE c = "A" -> "a" [] c = "X" -> "x" [] c = "AB" -> "ab" [] c = "B" -> "b"]
Queries == {<<"x">>, <<"X">>, <<"a", "x">>, <<"A", "X">>, <<"ab", "x">>, <<"a", "b", "x">>, <<"b", "x">>, <<"B", "x">>}
Folders == {<<>>, <<"a">>, <<"A">>, <<"ab">>, <<"a", "b">>, <<"b">>, <<"x">>}

\* some fixed strict order on names of equal length (only its being an order matters)
NameIdx(n) == CHOOSE k \in 1..6 : <<<<"a", "x">>, <<"a", "X">>, <<"ab", "x">>, <<"a", "b", "x">>, <<"x">>, <<"A", "x">>>>[k] = n
\* The single-backend family: containers as SEQUENCES of up to 3 entries.  Only the relative order
\* of entries that fold to the same name matters, so entries are grouped by folded name (groups in
\* a fixed order) and every order within a group is taken; a name may also be stored twice
\* (sequences with a repeat up to length R).
ClassRank(n) == Min({NameIdx(x) : x \in {y \in NamesMC : Key(FoldMC, y) = Key(FoldMC, n)}})
Injective(q) == \A a, b \in 1..Len(q) : a # b => q[a] # q[b]
SeqFamily(R) == {q \in UNION {[1..L -> NamesMC] : L \in 0..3} :
                    /\ \A a, b \in 1..Len(q) : a < b => ClassRank(q[a]) <= ClassRank(q[b])
                    /\ (Injective(q) \/ Len(q) <= R)}
NameSets == {S \in SUBSET Names : Cardinality(S) <= MaxFiles}
VARIABLES chain,   \* sequence of [names, pfx, k]; k = how many-th member added (its contents are <<k, name>>)
          act
vars == <<chain>>

\* the model fixes one container order per name set (the harness replays both orders)
FsOf(m) == {[n |-> n, c |-> <<m.k, n>>, i |-> NameIdx(n)] : n \in m.names}
Sem(ch) == [i \in 1..Len(ch) |-> [fs |-> FsOf(ch[i]), pfx |-> ch[i].pfx]]
C == Sem(chain)

Init == chain = <<>> /\ act = [op |-> "init"]
Add(S, p, pr) == /\ Len(chain) < MaxMembers
                 /\ chain' = AddSys(chain, [names |-> S, pfx |-> p, k |-> Len(chain) + 1], pr)
                 /\ act' = [op |-> "add", names |-> S, pfx |-> p, pr |-> pr]
Next == \E S \in NameSets, p \in Prefixes, pr \in BOOLEAN : Add(S, p, pr)
Spec == Init /\ [][Next]_vars

(* ---- the property ------------------------------------------------------------ *)
\* walking the empty folder lists every file; every walked file is in the folder
WalkAll == \A i \in 1..Len(C) : Walk(FoldMC, C[i].fs, <<>>) = {f \in C[i].fs : IsWinner(FoldMC, C[i].fs, f)}
\* every name the chain lists can be looked up and yields that file; each name once
WalkedLookupable ==
    \A d \in Folders : \A key \in ChainWalkKeys(FoldMC, C, d) :
        /\ ChainWalkContents(FoldMC, C, d, key) # {}
        /\ ChainWalkContents(FoldMC, C, d, key) = ChainLookup(FoldMC, C, key)
\* a look-up is answered by the first member that has the name ...
FirstWins == \A q \in Queries :
    LET idx == HavingMembers(FoldMC, C, q) IN
    IF idx = {} THEN ChainLookup(FoldMC, C, q) = {}
    ELSE /\ ChainLookup(FoldMC, C, q) = Lookup(FoldMC, C[Min(idx)].fs, C[Min(idx)].pfx \o q)
         /\ \A c \in ChainLookup(FoldMC, C, q) : c[1] = chain[Min(idx)].k
\* ... and does not depend on members that do not have it
Independent == \A q \in Queries :
    LET has(m) == Exists(FoldMC, m.fs, m.pfx \o q)
    IN  ChainLookup(FoldMC, C, q) = ChainLookup(FoldMC, SelectSeq(C, has), q)
\* priority insertion puts the member first, ordinary insertion last
Priority == [][LET new == [fs |-> FsOf([names |-> act'.names, k |-> Len(chain) + 1]), pfx |-> act'.pfx] IN
               \A q \in Queries :
                 /\ (act'.pr /\ Exists(FoldMC, new.fs, new.pfx \o q))
                        => ChainLookup(FoldMC, Sem(chain'), q) = Lookup(FoldMC, new.fs, new.pfx \o q)
                 /\ (~act'.pr /\ ChainLookup(FoldMC, C, q) # {})
                        => ChainLookup(FoldMC, Sem(chain'), q) = ChainLookup(FoldMC, C, q)]_vars
(* ---- FileSystemChain's way of combining member reports implements it ------------ *)
RECURSIVE SetToSeq(_)
SetToSeq(S) == IF S = {} THEN <<>> ELSE LET e == CHOOSE x \in S : TRUE IN <<e>> \o SetToSeq(S \ {e})
ComposeRefines ==
    \A d \in Folders :
        LET lists == [i \in 1..Len(C) |-> SetToSeq(Walk(FoldMC, C[i].fs, C[i].pfx \o d))]
            out == Compose(FoldMC, [i \in 1..Len(C) |-> C[i].pfx], lists)
        IN  /\ {Key(FoldMC, out[k].n) : k \in 1..Len(out)} = ChainWalkKeys(FoldMC, C, d)
            /\ \A k \in 1..Len(out) : out[k].c \in ChainWalkContents(FoldMC, C, d, Key(FoldMC, out[k].n))
            /\ \A j, k \in 1..Len(out) : j # k => Key(FoldMC, out[j].n) # Key(FoldMC, out[k].n)

\* size of the single-backend family the driver claims to cover (file sets of up to 3 names)
ASSUME PrintT(ToJson([tag |-> "COUNT", namesets |-> Cardinality({S \in SUBSET NamesMC : Cardinality(S) <= 3}),
                      seqs2 |-> Cardinality(SeqFamily(2)), seqs3 |-> Cardinality(SeqFamily(3))]))

View == vars
Obs(ch) == [i \in 1..Len(ch) |-> [names |-> ch[i].names, pfx |-> ch[i].pfx, k |-> ch[i].k]]
Emit == PrintT(ToJson([tag |-> "EDGE", s |-> Obs(chain), a |-> act', t |-> Obs(chain')]))
=============================================================================
