SPECIFICATION TblSpec
CONSTANTS
  Items = {"x1", "x2", "x3"}
  MaxLen = 5
  MaxSub = 3
INVARIANT ClaimsValid
PROPERTY PrefixStable
PROPERTY StepLaws
PROPERTY NoNewDuplicate
CHECK_DEADLOCK FALSE
