SPECIFICATION Spec
INVARIANT BridgeLaw
INVARIANT InlineXorSub
VIEW View
ACTION_CONSTRAINT Emit
CHECK_DEADLOCK FALSE
CONSTANTS
  MaxKids = 2
  MaxLeaves = 2
