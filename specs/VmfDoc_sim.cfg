SPECIFICATION Spec
CONSTANTS
  MaxEnts = 3
  MaxSolids = 2
  MaxSides = 8
  MaxOuts = 3
  MaxVis = 4
  MaxGroups = 2
  MaxCams = 2
  MaxCordons = 2
  Lens = {4, 8, 14, 22, 32}
  WithHist = TRUE
  OptChoices <- OptSet
  Rich = TRUE
INVARIANT UniqueIds
ACTION_CONSTRAINT EmitHist
CHECK_DEADLOCK FALSE
