SPECIFICATION Spec
CONSTANTS
  Names = {"n1", "n2"}
  SizeSel = "edge"
  Limit = 2
  FName = "foo.vpk"
  ArchIdx <- IdxAll
  NArch = 2
  Cs <- CsAll
  MaxW = 3
INVARIANT ReadBack
INVARIANT DiskReadBack
INVARIANT Fits
PROPERTY ArchivesAppendOnly
PROPERTY ReadOnlyRejects
PROPERTY FailureIsNoop
PROPERTY DirFileStable
VIEW View
CHECK_DEADLOCK FALSE
