INIT Init
NEXT Next
INVARIANT Checked
POSTCONDITION AllConsumed
CHECK_DEADLOCK FALSE
