------------------------------- MODULE BspLazy -------------------------------
(* C10: saving an unmodified BSP is lossless whichever lazily parsed views were  *)
(* looked at.  State machine over BspLazyOps: the user reads views in any order,  *)
(* save() runs as a sequence of pop/write steps in the rebuild order, the file    *)
(* is flushed; then either the same object is saved again or the file is read     *)
(* into a new object and the cycle repeats.                                       *)
EXTENDS BspLazyOps

CONSTANTS MaxAcc,      \* bound on the number of distinct views the user asks for per cycle
          TrackAcc,    \* TRUE: remember WHICH views were asked for (order irrelevance)
          MaxSaves     \* save() calls explored per behaviour

VARIABLES cache, raw,  \* as in BspLazyOps
          pc,          \* 0: user phase; 1..NOrd+1: save() about to look at Order[pc]; NOrd+2: file written
          disk,        \* lump states in the file last written (initially: the file that was read)
          acc,         \* views the user asked for since the object was created / last saved
          any,         \* was anything accessed since the last flush / read
          saves,
          goal,        \* what the functional SaveAll predicts for the save() in progress
          act          \* last action, hidden by the VIEW

vars == <<cache, raw, pc, disk, acc, any, saves, goal>>
St == [cache |-> cache, raw |-> raw]
Done == NOrd + 2

Init == /\ cache = Fresh.cache /\ raw = Fresh.raw /\ pc = 0
        /\ disk = Fresh.raw /\ acc = {} /\ any = FALSE /\ saves = 0 /\ goal = Fresh
        /\ act = [op |-> "init"]

UserAccess(v) ==
    /\ pc = 0
    /\ IF TrackAcc THEN v \notin acc /\ Cardinality(acc) < MaxAcc ELSE cache[v] = "none"
    /\ LET s == Access(St, v) IN cache' = s.cache /\ raw' = s.raw
    /\ acc' = IF TrackAcc THEN acc \cup {v} ELSE acc
    /\ any' = TRUE
    /\ UNCHANGED <<pc, disk, saves, goal>>
    /\ act' = [op |-> "access", v |-> v]

\* (which views were asked for no longer matters once save() runs: only what is cached does)
SaveBegin == /\ pc = 0 /\ saves < MaxSaves
             /\ pc' = 1 /\ goal' = SaveAll(St) /\ acc' = {} /\ UNCHANGED <<cache, raw, disk, any, saves>>
             /\ act' = [op |-> "save"]

\* one iteration of the loop over LUMP_REBUILD_ORDER that finds a cached view
SaveStep == /\ pc \in 1..NOrd
            /\ LET j == NextCached(St, pc) IN
               IF j > NOrd
               THEN /\ pc' = NOrd + 1 /\ UNCHANGED <<cache, raw>> /\ act' = [op |-> "skip"]
               ELSE LET s == SaveOne(St, Order[j]) IN
                    /\ cache' = s.cache /\ raw' = s.raw /\ pc' = j + 1
                    /\ act' = [op |-> "write", v |-> Order[j]]
            /\ UNCHANGED <<disk, acc, any, saves, goal>>

Flush == /\ pc = NOrd + 1
         /\ disk' = raw /\ pc' = Done /\ saves' = saves + 1 /\ any' = FALSE /\ acc' = {}
         /\ goal' = Fresh /\ UNCHANGED <<cache, raw>>
         /\ act' = [op |-> "flush"]

\* the same object is saved a second time
SaveAgain == /\ pc = Done /\ saves < MaxSaves
             /\ pc' = 1 /\ goal' = SaveAll(St) /\ UNCHANGED <<cache, raw, disk, acc, any, saves>>
             /\ act' = [op |-> "saveagain"]

\* the written file is opened as a new object
Reread == /\ pc = Done /\ saves < MaxSaves
          /\ cache' = Fresh.cache /\ raw' = Rebase(disk) /\ disk' = Rebase(disk) /\ pc' = 0
          /\ UNCHANGED <<acc, any, saves, goal>>
          /\ act' = [op |-> "reread"]

Next == \/ \E v \in Views : UserAccess(v)
        \/ SaveBegin \/ SaveStep \/ Flush \/ SaveAgain \/ Reread
Spec == Init /\ [][Next]_vars

(* ---- C10 ------------------------------------------------------------------- *)
\* nothing that was in the file is missing from the file written
LosslessInv == pc = Done => Lossless(disk)
\* save() leaves no parsed view behind (otherwise a second save writes it again from nothing)
CacheEmptyInv == pc = Done => CacheEmpty(St)
\* a lump no view owns and no writer sets is never modified
OtherInv == raw["OTHER"] = "orig" /\ disk["OTHER"] = "orig"
\* without an access in between, writing the file changes nothing (first save of an untouched
\* object: byte-identical; saving the result again: identical)
Untouched == [][(pc = NOrd + 1 /\ pc' = Done /\ ~any) =>
                    \A l \in Lumps \ ExcusedLumps : disk'[l] = disk[l]]_vars

(* ---- what makes it hold ------------------------------------------------------ *)
\* the cache is closed under the reader relation while the user reads, and stays closed while
\* save() pops views in rebuild order
ClosedInv == \A v \in Cached(St) \ ExcusedViews : ReadDepsF[v] \subseteq Cached(St)
\* the cache depends only on the SET of views asked for, not on the order
OrderIrrelevant == (TrackAcc /\ pc = 0) => Cached(St) = Closure(acc)
\* in the user phase every cached value is good and exactly the consumed lumps are empty
UserPhaseInv == (pc = 0 /\ saves = 0) =>
    /\ \A v \in Cached(St) : cache[v] = "good"
    /\ \A l \in Lumps : raw[l] = (IF \E v \in Cached(St) : l \in ClearsF[v] \ EmptyLumps THEN "cleared" ELSE "orig")
\* the step-wise save() equals the functional one (the operator the trace validator uses)
SaveRefines == /\ (pc \in 1..NOrd) => SaveFrom(St, pc) = goal
               /\ (pc = NOrd + 1) => St = goal

TypeOK == /\ cache \in [Views -> {"none", "good", "stale"}]
          /\ raw \in [Lumps -> {"orig", "cleared", "rebuilt", "lost"}]
          /\ pc \in 0..Done /\ saves \in 0..MaxSaves

ASSUME Acyclic

View == vars
\* transitions of the user phase, for the replay on real files
Emit == (pc = 0 /\ pc' = 0) =>
            PrintT(ToJson([tag |-> "EDGE", s |-> Cached(St), a |-> act',
                           t |-> Cached([cache |-> cache', raw |-> raw'])]))

(* ---- diagnosis (evaluated once, in the initial state of BspLazy_diag.cfg): every deviation of *)
(* the measured relations from the design conditions, and the outcome of save() after every      *)
(* single access and every pair, as JSON lines.  Nothing here is fatal: the check classifies     *)
(* each line against the known findings and hands the excused lumps/views back in the constants. *)
Outcome(S) == LET st == SaveAll(AccessSet(Fresh, S)) IN
              [lost |-> LostLumps(st.raw), left |-> Cached(st)]
Small == {S \in SUBSET Views : Cardinality(S) <= 2}
Diag ==
    /\ \A v \in Unordered : PrintT(ToJson([tag |-> "DIAG", clause |-> "model.unordered", item |-> v, dep |-> ""]))
    /\ \A p \in ReadOrderViolations :
          PrintT(ToJson([tag |-> "DIAG", clause |-> "model.readOrder", item |-> p[1], dep |-> p[2]]))
    /\ \A p \in WriteOrderViolations :
          PrintT(ToJson([tag |-> "DIAG", clause |-> "model.writeOrder", item |-> p[1], dep |-> p[2]]))
    /\ \A l \in UNION {Outcome(S).lost : S \in Small} :
          PrintT(ToJson([tag |-> "DIAG", clause |-> "model.lossless", item |-> l, dep |-> "",
                         witness |-> CHOOSE S \in Small : l \in Outcome(S).lost]))
    /\ \A v \in UNION {Outcome(S).left : S \in Small} :
          PrintT(ToJson([tag |-> "DIAG", clause |-> "model.cacheEmpty", item |-> v, dep |-> "",
                         witness |-> CHOOSE S \in Small : v \in Outcome(S).left]))
    /\ PrintT(ToJson([tag |-> "DIAGDONE", views |-> Cardinality(Views), small |-> Cardinality(Small)]))
DiagInit == Init /\ Diag
DiagNext == UNCHANGED <<cache, raw, pc, disk, acc, any, saves, goal, act>>
=============================================================================
