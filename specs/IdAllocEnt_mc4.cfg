SPECIFICATION Spec
CONSTANTS
  Obj = {"o1", "o2", "o3", "o4"}
  Maps = {"m1", "m2"}
  MaxId = 4
  InitMan <- IdInitSpawn
  WithObj = TRUE
  WithFix = FALSE
INVARIANT Unique
INVARIANT Positive
INVARIANT FixUnique
INVARIANT Hint
INVARIANT UsedIsLive
INVARIANT FixDense
PROPERTY Stable
VIEW View
CHECK_DEADLOCK FALSE
