SPECIFICATION Spec
CONSTANTS
  MaxLen = 3
  Alphabet = {"..", ".", "", "sub", "in.txt", "rootx", "root", "B", "A"}
  Base <- BaseMC
  Pres = {"rel", "abs0", "absW"}
  Kinds = {"fwd", "back", "mix"}
  RootForms = {"plain", "trail"}
  Chains = {TRUE, FALSE}
INVARIANT Safe
INVARIANT NormalForm
INVARIANT ClimbAgrees
INVARIANT ChainIsPrefixed
CHECK_DEADLOCK FALSE
