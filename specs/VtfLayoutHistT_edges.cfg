SPECIFICATION Spec
INVARIANT TableSize
INVARIANT MipCount
INVARIANT Partition
INVARIANT Blocks
INVARIANT RoundTrip
INVARIANT Gate
INVARIANT Kept
INVARIANT ThumbKept
INVARIANT LazyUnobservable
INVARIANT Untouched
VIEW View
ACTION_CONSTRAINT Emit
CHECK_DEADLOCK FALSE
CONSTANTS
  Sizes = {2, 8}
  FrameCounts = {1}
  Layers = {"d1"}
  Minors = {4}
  Fmts = {"RGBA8888", "ABGR8888", "RGB888", "BGR888", "RGB565", "I8", "IA88", "A8", "RGB888_BLUESCREEN", "BGR888_BLUESCREEN", "ARGB8888", "BGRA8888", "BGRX8888", "BGR565", "BGRX5551", "BGRA4444", "BGRA5551", "UV88", "UVWQ8888", "UVLX8888"}
  Lows = {"NONE", "IA88"}
  ResKinds = {}
  MaxRes = 0
  Access = FALSE
  Fills = {"l0"}
  History = TRUE
  MaxOps = 2
  Thumbs = {"t16", "t4"}
