--------------------------- MODULE InstancesTrace ---------------------------
(* Validates records logged from the real srctools code against InstancesOps.   *)
(* Every record is judged on its own (it carries the projected template, the    *)
(* instance and the projection of what the real collapse produced).  All        *)
(* failing clauses of a record are printed (one JSON line each), never fatal.   *)
(*   subst     EntityFixup.substitute(text, default)                            *)
(*   name      Instance.fixup_name(name)                                        *)
(*   collapse  one collapse_one call: template before/after, instance, result   *)
(*   step      one transition of the Instances machine replayed on a real map   *)
(*   run       one collapse_all call: files, initial map, limit, outcome, final *)
EXTENDS InstancesOps, TLC, Json, IOUtils

Recs == ndJsonDeserialize(IOEnv.TRACE_FILE)
N == Len(Recs)
VARIABLE i

Fail(c, e) == <<[clause |-> c, exp |-> e]>>
Need(ok, c, e) == IF ok THEN <<>> ELSE Fail(c, e)
RECURSIVE Flat(_)
Flat(ss) == IF ss = <<>> THEN <<>> ELSE ss[1] \o Flat(Tail(ss))

(* ---- substitute, fixup_name ------------------------------------------------- *)
SubstFails(r) == LET e == Substitute(r.tab, r.text, r.def) IN Need(e = r.res, "subst.result", e)
NameFails(r) == LET e == FixupName(r.style, r.iname, r.n) IN Need(e = r.res, "name.result", e)

(* ---- one collapse -------------------------------------------------------------- *)
\* r.inst = [name, pos, ang, style, fix, rc]; r.tpl / r.tpl2 = template before / after
\* [brushes: seq of [vis, sides], ents: seq of [vis, cls, keys, fix, outs, solids]];
\* r.res = [brushes: seq of [vis, sides], ents: seq of [vis, cls, keys: seq of [k, r], fix, outs, solids: seq of [vis, sides], rc]]
SideIds(b) == [j \in 1..Len(b) |-> b[j].id]
RECURSIVE ZipIds(_, _)
ZipIds(a, b) == IF a = <<>> \/ b = <<>> THEN <<>> ELSE <<<<a[1], b[1]>>>> \o ZipIds(Tail(a), Tail(b))
\* old face id -> new face id, by position (visible world brushes, then the visible brushes of visible entities)
FacePairs(vb, rb, ve, re) ==
    Flat([j \in 1..Len(vb) |-> ZipIds(SideIds(vb[j].sides), SideIds(rb[j].sides))])
    \o Flat([j \in 1..Len(ve) |->
              LET ts == VisibleOf(ve[j].solids) rs == VisibleOf(re[j].solids) IN
              IF Len(ts) = Len(rs)
              THEN Flat([m \in 1..Len(ts) |-> ZipIds(SideIds(ts[m].sides), SideIds(rs[m].sides))])
              ELSE <<>>])

BrushFails(I, tb, rb, what) ==
    IF Len(tb.sides) # Len(rb) THEN Fail(what \o ".sides", Len(tb.sides))
    ELSE Flat([k \in 1..Len(rb) |->
                 LET e == PlaceSide(I, tb.sides[k]) IN
                 Need(AxisExact(I, tb.sides[k].u) /\ AxisExact(I, tb.sides[k].v), "proj.texscale", 0)
                 \o Need(SideGeom(rb[k]).p = e.p, what \o ".planes", e.p)
                 \o Need(SideGeom(rb[k]).u = e.u /\ SideGeom(rb[k]).v = e.v, what \o ".texture", <<e.u, e.v>>)
                 \o Need(rb[k].mat = e.mat /\ rb[k].dp = e.dp, what \o ".material", e.mat)
                 \o Need(rb[k].disp = e.disp, what \o ".displacement", e.disp)])

KeyFails(I, ctx, kv, rk) ==
    IF kv.t \in OrientTags THEN <<>>
    ELSE LET e == ExpectKey(I, ctx, kv) IN
         Need(KeyAgrees(kv.t, e, rk.r), "ent.key:" \o kv.t, [k |-> kv.k, want |-> IF kv.t = "sides" THEN <<>> ELSE e])

EntFails(I, ctx, te, re) ==
    Need(te.cls = re.cls, "ent.class", te.cls)
    \o (IF [j \in 1..Len(te.keys) |-> te.keys[j].k] # [j \in 1..Len(re.keys) |-> re.keys[j].k]
        THEN Fail("ent.keynames", [j \in 1..Len(te.keys) |-> te.keys[j].k])
        ELSE Flat([j \in 1..Len(te.keys) |-> KeyFails(I, ctx, te.keys[j], re.keys[j])])
             \o (IF \E j \in 1..Len(te.keys) : te.keys[j].t \in OrientTags
                 THEN LET R == EntRot(I, te.keys) IN
                      Need(OrientAgrees(R, te.keys, [j \in 1..Len(re.keys) |-> re.keys[j].r]), "ent.orient", ToAngle(R))
                 ELSE <<>>))
    \o (LET e == [j \in 1..Len(te.outs) |-> FixupName(I.style, I.name, Subst(I.fix, te.outs[j]))]
        IN Need(re.outs = e, "ent.outputs", e))
    \o (LET e == [j \in 1..Len(te.fix) |-> <<te.fix[j][1], RenamedFixup(I.style, I.name, te.fix[j][2])>>]
        IN Need(re.fix = e, "ent.fixups", e))
    \o Need(re.rc = (IF te.cls = "func_instance" THEN I.rc + 1 ELSE 0), "ent.recur", I.rc + 1)
    \* the visible brushes of the placed entity are the placed visible brushes of the original: a brush that is
    \* individually hidden (or hidden through a visgroup) inside a visible entity does not become visible geometry
    \o (LET ts == VisibleOf(te.solids) rs == VisibleOf(re.solids) IN
        IF Len(ts) # Len(rs) THEN Fail("ent.solids", Len(ts))
        ELSE Flat([m \in 1..Len(ts) |-> BrushFails(I, ts[m], rs[m].sides, "ent.brush")]))

\* "adds a copy of every visible brush and entity": what is VISIBLE among the new objects (whatever the visgroup
\* mode, which may also bring hidden objects along, still hidden) is exactly the placed visible contents
PlacedFails(I, classes, tpl, res) ==
    LET vb == VisibleOf(tpl.brushes) ve == VisibleOf(tpl.ents)
        rb == VisibleOf(res.brushes) re == VisibleOf(res.ents) IN
    IF Len(vb) # Len(rb) THEN Fail("brush.count", Len(vb))
    ELSE IF Len(ve) # Len(re) THEN Fail("ent.count", Len(ve))
    ELSE LET ctx == [classes |-> Range(classes), faces |-> FacePairs(vb, rb, ve, re)] IN
         Flat([j \in 1..Len(vb) |-> BrushFails(I, vb[j], rb[j].sides, "brush")])
         \o Flat([j \in 1..Len(ve) |-> EntFails(I, ctx, ve[j], re[j])])

CollapseFails(r) ==
    IF r.bad # "" THEN Fail("proj.lattice", r.bad)
    ELSE Need(r.hash[1] = r.hash[2] /\ r.tpl = r.tpl2, "template.frozen", r.hash[1])
         \o PlacedFails(r.inst, r.classes, r.tpl, r.res)

(* ---- instance inputs / outputs through the proxy ------------------------------------------- *)
\* r.src: entities of the file BEFORE it is read [name, cls, outs]; r.inst [name, style, fix]; r.conns: outputs of
\* the func_instance; r.placed: outputs of each new entity; r.opre / r.opost: outputs of the outside entity
IoFails(r) ==
    LET body == {j \in 1..Len(r.src) : ~IsProxyEnt(r.src[j])}
        idx == [k \in 1..Cardinality(body) |-> CHOOSE j \in body : Cardinality({q \in body : q < j}) = k - 1]
    IN IF Len(r.placed) # Cardinality(body) THEN Fail("io.count", Cardinality(body))
       ELSE Flat([k \in 1..Len(r.placed) |->
                    LET e == PlacedOuts(r.inst, r.src, idx[k], r.conns) IN
                    Need([m \in 1..Len(r.tplouts[k]) |-> r.tplouts[k][m]] = KeptOuts(r.src, idx[k]), "io.file", KeptOuts(r.src, idx[k]))
                    \o Need(r.placed[k] = e, "io.outputs", e)])
            \o (IF Len(r.opre) # Len(r.opost) THEN Fail("io.input.count", Len(r.opre))
                ELSE Flat([k \in 1..Len(r.opre) |->
                    LET x == r.opre[k] y == r.opost[k] IN
                    IF ~InputHits(r.inst, r.src, x) THEN Need(y = x, "io.input.untouched", x)
                    ELSE LET e == MergedInput(r.inst, r.src, x) IN
                         IF y.ii # NoPart THEN Fail("io.input.match", e)
                         ELSE Need(y.t = e.t, "io.input.target", e)
                              \o Need([y EXCEPT !.t = e.t] = e, "io.input.merge", e)]))

(* ---- the machine: steps and whole runs --------------------------------------------- *)
NormEnt(e) == [e EXCEPT !.ang = ToAngle(FromAngle(@))]
NormSeq(s) == [j \in 1..Len(s) |-> NormEnt(s[j])]
CountBag(s) == [x \in Range(s) |-> Cardinality({j \in 1..Len(s) : s[j] = x})]
NBag(s) == CountBag(NormSeq(s))
SameBag(a, b) == DOMAIN a = DOMAIN b /\ \A x \in DOMAIN a : a[x] = b[x]
\* the same, leaving the $fixup values of nested instances aside (they are compared separately)
SBag(s) == CountBag([j \in 1..Len(s) |-> [NormEnt(s[j]) EXCEPT !.fixv = <<>>]])
TmplOf(r, f) == NormSeq(r.tmpl[ToString(f)])
RECURSIVE RemoveOne(_, _)
RemoveOne(s, x) == IF s = <<>> THEN <<>> ELSE IF s[1] = x THEN Tail(s) ELSE <<s[1]>> \o RemoveOne(Tail(s), x)
InstsOf(s) == SelectSeq(s, IsInst)
\* r.pre / r.post = [map: seq of entities, todo: seq of instances, round]
StepFails(r) ==
    LET pm == NormSeq(r.pre.map) pt == NormSeq(r.pre.todo) IN
    IF r.bad # "" THEN Fail(r.badc, r.bad)
    ELSE IF r.a.op = "roundstart"
    THEN Need(SameBag(NBag(r.post.todo), NBag(InstsOf(pm))), "step.todo", 0)
         \o Need(SameBag(NBag(r.post.map), NBag(pm)), "step.map", 0)
         \o Need(r.post.round = r.pre.round + 1, "step.round", r.pre.round + 1)
    ELSE LET e == NormEnt(r.a.e)
             em == RemoveOne(pm, e) \o PlaceAll(InstOfEnt(e), TmplOf(r, e.file))
         IN Need(\E j \in 1..Len(pt) : pt[j] = e, "step.enabled", 0)
            \o Need(SameBag(SBag(r.post.map), SBag(em)), "step.map", em)
            \o Need(~SameBag(SBag(r.post.map), SBag(em)) \/ SameBag(NBag(r.post.map), NBag(em)), "step.fixup", em)
            \o Need(SameBag(SBag(r.post.todo), SBag(RemoveOne(pt, e))), "step.todo", 0)
            \o Need(r.post.round = r.pre.round, "step.round", r.pre.round)
            \o Need(r.hash[1] = r.hash[2], "template.frozen", r.hash[1])

\* r.tmpl, r.ents (initial map), r.limit, r.outcome in {"ok", "recursion"}, r.final (entities of the map at the end)
RunFails(r) ==
    LET t == [f \in 1..r.nf |-> TmplOf(r, f)]
        e == Rounds(t, NormSeq(r.ents), r.limit)
    IN IF r.bad # "" THEN Fail("proj.lattice", r.bad)
       ELSE Need(CASE e.left >= 1 -> r.outcome = "ok"
                   [] e.left = 0 -> r.outcome \in {"ok", "recursion"}     \* see Instances!LimitExact
                   [] OTHER -> r.outcome = "recursion", "run.outcome", e.left)
            \o Need(SameBag(SBag(r.final), SBag(e.ents)), "run.final", e.ents)
            \o Need(~SameBag(SBag(r.final), SBag(e.ents)) \/ SameBag(NBag(r.final), NBag(e.ents)), "run.fixup", e.ents)
            \o (LET vf == Visited(t, NormSeq(r.ents), r.limit) IN
                Need({r.loads[j][1] : j \in 1..Len(r.loads)} = vf /\ \A j \in 1..Len(r.loads) : r.loads[j][2] = 1,
                     "run.cache", vf))

Fails(r) == CASE r.k = "subst" -> SubstFails(r)
              [] r.k = "name" -> NameFails(r)
              [] r.k = "collapse" -> CollapseFails(r)
              [] r.k = "step" -> StepFails(r)
              [] r.k = "run" -> RunFails(r)
              [] r.k = "io" -> IoFails(r)

Init == i = 0
Next == i < N /\ i' = i + 1
Checked == i = 0 \/ LET F == Fails(Recs[i]) IN
              \A j \in 1..Len(F) : PrintT(ToJson([tag |-> "MISMATCH", i |-> i, clause |-> F[j].clause, exp |-> F[j].exp]))
AllConsumed == TLCGet("stats").diameter = N + 1
=============================================================================
