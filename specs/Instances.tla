------------------------------ MODULE Instances ------------------------------
(* C17: collapsing the instances of a map (srctools.instancing.collapse_all /   *)
(* collapse_one) as a state machine.                                            *)
(*                                                                              *)
(* NF instance files; file f holds a marker entity and up to SlotsOf[f]         *)
(* func_instance entities, each naming any file (itself included) - the         *)
(* inclusion graph is chosen freely in Init, so self- and mutual inclusion are  *)
(* explored.  The map starts with a marker and up to MainSlots instances.       *)
(* One round (RoundStart) lists the instances now in the map; CollapseOne       *)
(* replaces one of them - in any order - by the placed copy of the visible      *)
(* contents of its file (nested instances come back as new instances of the     *)
(* map and wait for the next round); after Limit rounds the procedure gives up  *)
(* with an error.  Placement, naming and the composition of rotations are the   *)
(* exact operators of InstancesOps.                                             *)
(*                                                                              *)
(* Share = TRUE is the defective design in which the copy of a nested instance  *)
(* shares its $fixup value object with the template (used only to show that     *)
(* the invariants can tell the difference).                                     *)
EXTENDS InstancesOps, TLC, Json

CONSTANTS NF, SlotsOf, MainSlots, Limit, Share

Files == 1..NF
\* slot tables for the configurations (a .cfg file cannot hold a tuple)
Slots221 == <<2, 2, 1>>
Slots21 == <<2, 1>>
Slots22 == <<2, 2>>
Slots11 == <<1, 1>>

VARIABLES tmpl,     \* [file -> sequence of abstract entities]   (the cached templates)
          map,      \* bag of the entities now in the map
          todo,     \* bag of the instances listed at the start of this round, not yet collapsed
          round,    \* rounds started
          status,   \* "run", "done", "error"
          cache,    \* files parsed so far
          init0,    \* history: the initial templates and map (to state the expected result)
          act       \* last action (hidden by VIEW, printed by Emit)

vars == <<tmpl, map, todo, round, status, cache, init0>>

(* ---- bags -------------------------------------------------------------------- *)
EmptyBag == <<>>
BAdd(b, x) == IF x \in DOMAIN b THEN [b EXCEPT ![x] = @ + 1]
              ELSE [y \in DOMAIN b \cup {x} |-> IF y = x THEN 1 ELSE b[y]]
BDel(b, x) == IF b[x] > 1 THEN [b EXCEPT ![x] = @ - 1] ELSE [y \in DOMAIN b \ {x} |-> b[y]]
RECURSIVE BAddSeq(_, _)
BAddSeq(b, s) == IF s = <<>> THEN b ELSE BAddSeq(BAdd(b, s[1]), Tail(s))
BInsts(b) == [x \in {y \in DOMAIN b : IsInst(y)} |-> b[x]]
BPairs(b) == {<<x, b[x]>> : x \in DOMAIN b}

(* ---- the contents of the files ------------------------------------------------- *)
PlaceTab == << [pos |-> <<64, 0, 0>>, ang |-> <<0, 1, 0>>],
               [pos |-> <<0, 0, 32>>, ang |-> <<1, 0, 0>>],
               [pos |-> <<0, 16, 0>>, ang |-> <<0, 0, 1>>],
               [pos |-> <<8, 8, 8>>,  ang |-> <<0, 0, 0>>] >>
Marker(f) == [kind |-> "mark",
              name |-> IF f = 2 THEN <<64, 103>> ELSE <<109, 48 + f>>,      \* "@g" is a global name
              pos |-> <<1 + f, 2, 3>>, ang |-> <<0, f % 4, 0>>,
              file |-> 0, style |-> 2, fixv |-> <<>>, rc |-> 0]
InstEnt(f, s, g) ==
    LET p == PlaceTab[((2 * f + s) % 4) + 1] IN
    [kind |-> "inst", name |-> <<65 + 2 * f + s>>, pos |-> p.pos, ang |-> p.ang,
     file |-> g, style |-> (f + s) % 3,
     fixv |-> IF s = 1 THEN <<100 + f>> ELSE <<53>>,        \* a name-like value and a number
     rc |-> 0]
SlotEnts(f, n, o) == LET all == [s \in 1..n |-> IF o[s] = 0 THEN Marker(0) ELSE InstEnt(f, s, o[s])]
                     IN SelectSeq(all, IsInst)
Contents(f, n, o) == <<Marker(f)>> \o SlotEnts(f, n, o)

Init == /\ \E o \in [Files -> UNION {[1..n -> 0..NF] : n \in 0..2}] :
              /\ \A f \in Files : DOMAIN o[f] = 1..SlotsOf[f]
              /\ tmpl = [f \in Files |-> Contents(f, SlotsOf[f], o[f])]
        /\ \E m \in [1..MainSlots -> 0..NF] :
              /\ \E s \in 1..MainSlots : m[s] # 0
              /\ map = BAddSeq(EmptyBag, Contents(0, MainSlots, m))
              /\ init0 = [tmpl |-> tmpl, ents |-> Contents(0, MainSlots, m)]
        /\ todo = EmptyBag /\ round = 0 /\ status = "run" /\ cache = {}
        /\ act = [op |-> "init"]

HasInsts == DOMAIN BInsts(map) # {}
NoTodo == DOMAIN todo = {}

\* for _ in range(recur_limit): instances = list(vmf.by_class['func_instance']) ...
RoundStart == /\ status = "run" /\ NoTodo /\ HasInsts /\ round < Limit
              /\ todo' = BInsts(map) /\ round' = round + 1
              /\ UNCHANGED <<tmpl, map, status, cache, init0>>
              /\ act' = [op |-> "roundstart"]

\* the defective sharing: renaming the copy's $fixup value writes into the template
Renamed(I, f) == [j \in 1..Len(tmpl[f]) |->
                    IF IsInst(tmpl[f][j]) THEN [tmpl[f][j] EXCEPT !.fixv = RenamedFixup(I.style, I.name, @)]
                    ELSE tmpl[f][j]]
CollapseOne(e) == /\ status = "run" /\ e \in DOMAIN todo
                  /\ todo' = BDel(todo, e)
                  /\ map' = BAddSeq(BDel(map, e), PlaceAll(InstOfEnt(e), tmpl[e.file]))
                  /\ cache' = cache \cup {e.file}
                  /\ tmpl' = IF Share THEN [tmpl EXCEPT ![e.file] = Renamed(InstOfEnt(e), e.file)] ELSE tmpl
                  /\ UNCHANGED <<round, status, init0>>
                  /\ act' = [op |-> "collapse", e |-> e]

\* "if not instances: return" at the head of a round
Done == /\ status = "run" /\ NoTodo /\ ~HasInsts /\ round < Limit
        /\ status' = "done" /\ UNCHANGED <<tmpl, map, todo, round, cache, init0>>
        /\ act' = [op |-> "done"]
\* the range is exhausted with instances left: RecursionError
LimitHit == /\ status = "run" /\ NoTodo /\ HasInsts /\ round = Limit
            /\ status' = "error" /\ UNCHANGED <<tmpl, map, todo, round, cache, init0>>
            /\ act' = [op |-> "limit"]
\* the code as it is: when the last instance goes in exactly the last permitted round the
\* loop ends without looking at the map again and RecursionError is raised all the same.
\* Termination and the contents of the map are as promised, so this is modelled, not flagged.
LimitExact == /\ status = "run" /\ NoTodo /\ ~HasInsts /\ round = Limit
              /\ status' = "error" /\ UNCHANGED <<tmpl, map, todo, round, cache, init0>>
              /\ act' = [op |-> "limitexact"]

Next == RoundStart \/ (\E e \in DOMAIN todo : CollapseOne(e)) \/ Done \/ LimitHit \/ LimitExact
Spec == Init /\ [][Next]_vars /\ WF_vars(Next)

(* ---- the listed property --------------------------------------------------------- *)
\* the template is never modified
TemplateFrozen == [][tmpl' = tmpl]_vars
\* what collapse_all must produce, as a function of the initial map and files alone
Expected == Rounds(init0.tmpl, init0.ents, Limit)
\* whatever the order of collapses, the same multiset of placed objects results
OrderIndependent == status # "run" => /\ map = BagOf(Expected.ents)
                                       /\ (status = "done") = (Expected.left >= 1)
\* gives up only when the inclusion depth really exceeds the limit (or reaches it exactly, see LimitExact)
ErrorOnlyWhenDeep == status = "error" => Expected.left <= 0
\* every instance left in the map when it ends in success: none
DoneIsFlat == status = "done" => ~HasInsts
\* termination: at most Limit rounds, and a variant that strictly decreases
RoundsBounded == round <= Limit
RECURSIVE BagSum(_, _)
BagSum(b, S) == IF S = {} THEN 0 ELSE LET x == CHOOSE y \in S : TRUE IN b[x] + BagSum(b, S \ {x})
BagSize(b) == BagSum(b, DOMAIN b)
Variant == (IF status = "run" THEN 1 ELSE 0) + 2 * BagSize(todo) + 1000 * (Limit - round)
Decreases == [][Variant' < Variant]_vars
Terminates == <>(status # "run")
\* recursion counts of instances in the map never exceed the rounds started
RecurCount == \A x \in DOMAIN map : x.rc <= round
\* a file is parsed at most once: everything collapsed so far came from the cache
CacheOK == cache \subseteq Files

View == vars
Obs == [tmpl |-> tmpl, map |-> BPairs(map), todo |-> BPairs(todo), round |-> round, status |-> status]
Emit == PrintT(ToJson([tag |-> "EDGE", s |-> Obs, a |-> act',
                       t |-> [tmpl |-> tmpl', map |-> BPairs(map'), todo |-> BPairs(todo'),
                              round |-> round', status |-> status']]))
=============================================================================
