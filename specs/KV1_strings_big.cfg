SPECIFICATION Spec
CONSTANTS
  Fams = {"strings"}
  NameAlpha = {34, 92, 123, 125, 91, 93, 9, 32, 97, 110, 47, 39, 35, 133}
  ValAlpha = {34, 92, 123, 125, 91, 93, 9, 32, 97, 110, 47, 39, 35, 10, 13, 133}
  RichLen = 3
  PairNameAlpha = {34, 92, 123, 125, 9, 32, 110, 39}
  PairValAlpha = {34, 92, 91, 93, 10, 13, 110, 47}
  PairLen = 2
  ShapeNames <- ShapeNamesFull
  ShapeVals <- ShapeValsSmall
  ShapeDepth = 1
  DocAlpha = {}
  DocAlphaNL = {}
  DocLen = 0
  LexAlpha = {}
  LexLen = 0
INVARIANT RoundTrip
INVARIANT WhitespaceOnly
INVARIANT TokenShape
INVARIANT RawBlockNames
INVARIANT LinesIncrease
INVARIANT DocLexes
INVARIANT LexShape
INVARIANT Terminates
INVARIANT ParseAgrees
INVARIANT StackOK
INVARIANT Balanced
INVARIANT ErrorsNamed
PROPERTY Progress
ACTION_CONSTRAINT Emit
CHECK_DEADLOCK FALSE
