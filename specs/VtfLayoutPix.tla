---------------------------- MODULE VtfLayoutPix ----------------------------
(* C15, pixel codecs: for every writable uncompressed format the bytes written  *)
(* for a pixel decode to the documented quantisation of that pixel, storing the *)
(* result again changes nothing, and formats with 8 bits per used channel are   *)
(* exact.  One state per pixel of the sweep: every value of one channel, the    *)
(* other channels at the corner values.                                         *)
EXTENDS VtfLayoutOps

CONSTANT Corner      \* values of the channels that are not swept
VARIABLES px, stage
\* 256 initial states (one per swept value) fan out to the pixels that hold the value in one channel
Init == stage = 0 /\ px \in {<<x, 0, 0, 0>> : x \in 0..255}
Next == /\ stage = 0 /\ stage' = 1
        /\ \E ch \in 1..4, o \in [1..4 -> Corner] : px' = [i \in 1..4 |-> IF i = ch THEN px[1] ELSE o[i]]
Codec == \A f \in Writable : CodecLaw(f, px)
Stable == \A f \in Writable : Idempotent(f, px)
Exact == \A f \in Writable : ExactLaw(f, px)
\* the same sweep read as stored bytes: what is decoded is a fixed point of the format
Fixed == \A f \in Writable : DecodedFixed(f, [q \in 1..BytesPerPixel(f) |-> px[q]])
\* averaging four equal pixels gives the pixel; the average lies between min and max
AvgLaw == /\ Avg4(px, px, px, px) = px
          /\ \A q \in {<<0, 0, 0, 0>>, <<255, 255, 255, 255>>, <<1, 2, 3, 4>>} :
               \A ch \in 1..4 : LET a == Avg4(px, q, px, q)[ch] IN Min(px[ch], q[ch]) <= a /\ a <= Max(px[ch], q[ch])
=============================================================================
