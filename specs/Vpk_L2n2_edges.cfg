SPECIFICATION Spec
CONSTANTS
  Names = {"n1", "n2"}
  SizeSel = "small"
  Limit = 2
  FName = "pak01_dir.vpk"
  ArchIdx <- IdxN0
  NArch = 2
  Cs <- Cs23
  MaxW = 2
INVARIANT ReadBack
INVARIANT DiskReadBack
INVARIANT Fits
PROPERTY ArchivesAppendOnly
PROPERTY ReadOnlyRejects
PROPERTY FailureIsNoop
PROPERTY DirFileStable
VIEW View
ACTION_CONSTRAINT Emit
CHECK_DEADLOCK FALSE
