SPECIFICATION Spec
CONSTANTS
  Machine = "image"
  Fmt = "none"
  Small = FALSE
  MaxOps = 4
INVARIANT SavedSorted
INVARIANT SavedComplete
INVARIANT SummaryConsistent
INVARIANT V3Lossless
VIEW View
ACTION_CONSTRAINT EmitEdge
CHECK_DEADLOCK FALSE
