----------------------------- MODULE DmxGraphOps -----------------------------
(* Pure operators of the DMX element-graph design (srctools.dmx).  No variables: *)
(* the model-checking machine (DmxGraph) and the trace validator (DmxGraphTrace)*)
(* use exactly these definitions.                                               *)
(*                                                                              *)
(* A graph is  [root |-> uuid, el |-> [uuid -> [type, name, attrs]]]            *)
(* an attribute is [n |-> name, t |-> 1..14, arr |-> BOOLEAN, v |-> Seq(value)] *)
(*   (a scalar is arr = FALSE with Len(v) = 1); the "name" attribute is the     *)
(*   element's name field and is not listed in attrs.                           *)
(* a value of an ELEMENT attribute is a reference [k |-> "e"|"null"|"stub", u]; *)
(* every other value is an opaque symbol (a string) standing for one concrete   *)
(* value of that type; text symbols may be members of the set na (non-ASCII).   *)
EXTENDS Integers, Sequences, FiniteSets, TLC

(* ---- value types and their wire codes ------------------------------------ *)
ELEMENT == 1   INT == 2      FLOAT == 3   TBOOL == 4    TSTRING == 5   BINARY == 6
TIME == 7      COLOR == 8    VEC2 == 9    VEC3 == 10   VEC4 == 11    ANGLE == 12
QUATERNION == 13             MATRIX == 14
Types == 1..14
ArrayOffset == 14
TypeCode(t, arr) == t + (IF arr THEN ArrayOffset ELSE 0)
ValidCode(c) == c \in 1..(2 * ArrayOffset)
\* the last scalar code (14) adjoins the first array code (15)
DecodeCode(c) == IF c > ArrayOffset THEN <<c - ArrayOffset, TRUE>> ELSE <<c, FALSE>>
CodeLaw == /\ \A t \in Types, a \in BOOLEAN :
                 ValidCode(TypeCode(t, a)) /\ DecodeCode(TypeCode(t, a)) = <<t, a>>
           /\ \A c \in 1..(2 * ArrayOffset) :
                 DecodeCode(c)[1] \in Types /\ TypeCode(DecodeCode(c)[1], DecodeCode(c)[2]) = c

(* ---- references ----------------------------------------------------------- *)
RefE(u) == [k |-> "e", u |-> u]
RefNull == [k |-> "null", u |-> ""]
RefStub(u) == [k |-> "stub", u |-> u]

SeqSet(s) == {s[i] : i \in 1..Len(s)}
Index(s, x) == CHOOSE i \in 1..Len(s) : s[i] = x
NoDup(s) == \A i, j \in 1..Len(s) : i # j => s[i] # s[j]

Refs(a) == IF a.t = ELEMENT THEN a.v ELSE <<>>
RECURSIVE FlatRefs(_, _)
FlatRefs(attrs, i) == IF i > Len(attrs) THEN <<>> ELSE Refs(attrs[i]) \o FlatRefs(attrs, i + 1)
\* every reference held by element u, in attribute order then array order
ElemRefs(g, u) == FlatRefs(g.el[u].attrs, 1)

WellFormed(g) ==
    /\ g.root \in DOMAIN g.el
    /\ \A u \in DOMAIN g.el :
         /\ \A j \in 1..Len(g.el[u].attrs) :
              LET a == g.el[u].attrs[j] IN
              /\ a.t \in Types
              /\ (~a.arr => Len(a.v) = 1)
              /\ a.t = ELEMENT => \A i \in 1..Len(a.v) :
                                     a.v[i].k \in {"e", "null", "stub"} /\ (a.v[i].k = "e" => a.v[i].u \in DOMAIN g.el)

(* ---- export order: the element table ------------------------------------- *)
\* The writers walk the graph breadth first: the list starts with the root and
\* grows while it is being iterated; NULL and stub references are not elements.
RECURSIVE AddNew(_, _, _)
AddNew(list, refs, i) ==
    IF i > Len(refs) THEN list
    ELSE IF refs[i].k = "e" /\ refs[i].u \notin SeqSet(list)
         THEN AddNew(Append(list, refs[i].u), refs, i + 1)
         ELSE AddNew(list, refs, i + 1)
RECURSIVE Bfs(_, _, _)
Bfs(g, list, i) == IF i > Len(list) THEN list
                   ELSE Bfs(g, AddNew(list, ElemRefs(g, list[i]), 1), i + 1)
Listing(g) == Bfs(g, <<g.root>>, 1)

\* reachability, defined independently of the listing (least fixed point)
Succ(g, S) == {r.u : r \in {x \in UNION {SeqSet(ElemRefs(g, u)) : u \in S} : x.k = "e"}}
RECURSIVE ReachFrom(_, _)
ReachFrom(g, S) == IF Succ(g, S) \subseteq S THEN S ELSE ReachFrom(g, S \cup Succ(g, S))
Reach(g) == ReachFrom(g, {g.root})
Restrict(g) == [root |-> g.root, el |-> [u \in Reach(g) |-> g.el[u]]]

\* what makes a listing usable as an element table: the root is entry 0, every reachable
\* element occurs exactly once, nothing else occurs, and every entry but the first is
\* referenced by an element that stands earlier in the list
ValidListing(g, L) ==
    /\ Len(L) >= 1 /\ L[1] = g.root
    /\ NoDup(L)
    /\ SeqSet(L) = Reach(g)
    /\ \A i \in 2..Len(L) : \E j \in 1..(i - 1) : RefE(L[i]) \in SeqSet(ElemRefs(g, L[j]))

(* ---- KeyValues2 layout: which elements are written at top level ----------- *)
CountIn(refs, u) == Cardinality({i \in 1..Len(refs) : refs[i] = RefE(u)})
RECURSIVE SumCount(_, _, _, _)
SumCount(g, L, i, u) == IF i > Len(L) THEN 0 ELSE CountIn(ElemRefs(g, L[i]), u) + SumCount(g, L, i + 1, u)
\* number of references to u (each array slot counts), plus one for being the root
UseCount(g, u) == (IF u = g.root THEN 1 ELSE 0) + SumCount(g, Listing(g), 1, u)
Roots(g, flat) == IF flat THEN SeqSet(Listing(g))
                  ELSE {u \in SeqSet(Listing(g)) : UseCount(g, u) > 1} \cup {g.root}
\* nested layout: a non-root element is written inside its only referrer
Parent(g, u) == CHOOSE p \in SeqSet(Listing(g)) : RefE(u) \in SeqSet(ElemRefs(g, p))
RECURSIVE ClimbsToRoot(_, _, _, _)
ClimbsToRoot(g, R, u, fuel) == IF u \in R THEN TRUE
                               ELSE IF fuel = 0 THEN FALSE
                               ELSE ClimbsToRoot(g, R, Parent(g, u), fuel - 1)
\* the recursive text writer terminates: every inline chain ends at a top-level element
NoInlineCycle(g, flat) == \A u \in SeqSet(Listing(g)) :
                              ClimbsToRoot(g, Roots(g, flat), u, Len(Listing(g)))
Kv2Top(g, flat) == SelectSeq(Listing(g), LAMBDA u : u \in Roots(g, flat))

(* ---- encodings ------------------------------------------------------------ *)
BinEnc(v) == [kind |-> "bin", ver |-> v, flat |-> FALSE, cull |-> FALSE]
Kv2Enc(f, c) == [kind |-> "kv2", ver |-> 0, flat |-> f, cull |-> c]
UniModes == {"ascii", "format", "silent"}
\* the elements whose UUID is written to the file (cull_uuid keeps only top-level ones)
Keep(enc, g) == IF enc.kind = "kv2" /\ enc.cull THEN Roots(g, enc.flat) ELSE SeqSet(Listing(g))

\* positions of all attributes of reachable elements (attribute records themselves are never
\* collected into one set: their values are of different kinds)
AllPos(g) == UNION {{<<u, j>> : j \in 1..Len(g.el[u].attrs)} : u \in Reach(g)}
At(g, p) == g.el[p[1]].attrs[p[2]]
HasTime(g) == \E p \in AllPos(g) : At(g, p).t = TIME
\* every piece of text the writers encode
Strings(g) == {g.el[u].type : u \in Reach(g)} \cup {g.el[u].name : u \in Reach(g)}
              \cup {At(g, p).n : p \in AllPos(g)}
              \cup UNION {SeqSet(At(g, p).v) : p \in {q \in AllPos(g) : At(g, q).t = TSTRING}}
CanExpress(enc, uni, g, na) ==
    /\ (enc.kind = "bin" /\ enc.ver < 3) => ~HasTime(g)      \* TIME exists from binary v3
    /\ uni = "ascii" => Strings(g) \cap na = {}              \* ascii mode refuses other text

(* ---- the binary file, abstractly ------------------------------------------ *)
\* string table: v2+ holds element types and attribute names (and, a quirk kept from
\* Valve's writer, the word "name"); v4+ also element names and scalar string values
UsedStrings(g, ver) ==
    {"name"} \cup {g.el[u].type : u \in Reach(g)} \cup {At(g, p).n : p \in AllPos(g)}
    \cup (IF ver >= 4 THEN {g.el[u].name : u \in Reach(g)}
                           \cup {At(g, p).v[1] : p \in {q \in AllPos(g) : At(g, q).t = TSTRING /\ ~At(g, q).arr}}
          ELSE {})
RefWire(r, L) == CASE r.k = "null" -> [i |-> 0 - 1, u |-> ""]
                   [] r.k = "stub" -> [i |-> 0 - 2, u |-> r.u]     \* -2 is followed by the UUID text
                   [] OTHER -> [i |-> Index(L, r.u) - 1, u |-> ""]
BinAttr(a, L) == [n |-> a.n, code |-> TypeCode(a.t, a.arr),
                  cnt |-> IF a.arr THEN Len(a.v) ELSE 0 - 1,
                  v |-> IF a.t = ELEMENT THEN [i \in 1..Len(a.v) |-> RefWire(a.v[i], L)] ELSE a.v]
BinFile(g, ver) ==
    LET L == Listing(g) IN
    [strings |-> IF ver >= 2 THEN UsedStrings(g, ver) ELSE {},
     elems |-> [i \in 1..Len(L) |-> [type |-> g.el[L[i]].type, name |-> g.el[L[i]].name, u |-> L[i]]],
     attrs |-> [i \in 1..Len(L) |-> [j \in 1..Len(g.el[L[i]].attrs) |-> BinAttr(g.el[L[i]].attrs[j], L)]]]

ParseRef(w, elems) == CASE w.i = 0 - 1 -> RefNull
                        [] w.i = 0 - 2 -> RefStub(w.u)
                        [] OTHER -> RefE(elems[w.i + 1].u)
ParseAttr(b, elems) == LET d == DecodeCode(b.code) IN
    [n |-> b.n, t |-> d[1], arr |-> d[2],
     v |-> IF d[1] = ELEMENT THEN [i \in 1..Len(b.v) |-> ParseRef(b.v[i], elems)] ELSE b.v]
BinFileOK(f) == /\ Len(f.elems) >= 1 /\ Len(f.attrs) = Len(f.elems)
                /\ NoDup([i \in 1..Len(f.elems) |-> f.elems[i].u])
                /\ \A i \in 1..Len(f.attrs) : \A j \in 1..Len(f.attrs[i]) :
                     LET b == f.attrs[i][j] IN
                     /\ ValidCode(b.code)
                     /\ (b.cnt = 0 - 1) = ~DecodeCode(b.code)[2]
                     /\ Len(b.v) = IF b.cnt = 0 - 1 THEN 1 ELSE b.cnt
                     /\ DecodeCode(b.code)[1] = ELEMENT =>
                           \A k \in 1..Len(b.v) : b.v[k].i \in (0 - 2)..(Len(f.elems) - 1)
ParseBin(f) ==
    [root |-> f.elems[1].u,
     el |-> [u \in {f.elems[i].u : i \in 1..Len(f.elems)} |->
               LET i == CHOOSE k \in 1..Len(f.elems) : f.elems[k].u = u IN
               [type |-> f.elems[i].type, name |-> f.elems[i].name,
                attrs |-> [j \in 1..Len(f.attrs[i]) |-> ParseAttr(f.attrs[i][j], f.elems)]]]]

(* ---- what a parse of the KeyValues2 text yields --------------------------- *)
\* elements whose UUID was not written get a fresh one ("x" + position in the listing)
FreshNames == <<"x1", "x2", "x3", "x4", "x5", "x6", "x7", "x8">>
Kv2Out(g, enc) ==
    LET L == Listing(g)
        K == Keep(enc, g)
        new(u) == IF u \in K THEN u ELSE FreshNames[Index(L, u)]
        mapref(r) == IF r.k = "e" THEN RefE(new(r.u)) ELSE r
        mapattr(a) == IF a.t = ELEMENT THEN [a EXCEPT !.v = [i \in 1..Len(a.v) |-> mapref(a.v[i])]] ELSE a
    IN [root |-> new(g.root),
        el |-> [v \in {new(u) : u \in SeqSet(L)} |->
                  LET u == CHOOSE w \in SeqSet(L) : new(w) = v IN
                  [type |-> g.el[u].type, name |-> g.el[u].name,
                   attrs |-> [j \in 1..Len(g.el[u].attrs) |-> mapattr(g.el[u].attrs[j])]]]]

(* ---- graph isomorphism ---------------------------------------------------- *)
\* h is g up to renaming of the elements outside keep: both listings are canonical
\* (they depend only on the root and on attribute/array order), so the i-th entries
\* must correspond.  stubOK = TRUE also lets stub references differ in their UUID.
RefIso(r, s, lg, lh, stubAny) ==
    /\ r.k = s.k
    /\ r.k = "stub" => (stubAny \/ r.u = s.u)
    /\ r.k = "e" => Index(lg, r.u) = Index(lh, s.u)
AttrIso(a, b, lg, lh, stubAny) ==
    /\ a.n = b.n /\ a.t = b.t /\ a.arr = b.arr /\ Len(a.v) = Len(b.v)
    /\ IF a.t = ELEMENT THEN \A i \in 1..Len(a.v) : RefIso(a.v[i], b.v[i], lg, lh, stubAny)
       ELSE a.v = b.v
IsoGen(g, h, keep, stubAny) ==
    LET lg == Listing(g) lh == Listing(h) IN
    /\ Len(lg) = Len(lh)
    /\ DOMAIN h.el = SeqSet(lh)
    /\ \A i \in 1..Len(lg) :
         LET a == g.el[lg[i]] b == h.el[lh[i]] IN
         /\ a.type = b.type /\ a.name = b.name /\ Len(a.attrs) = Len(b.attrs)
         /\ \A j \in 1..Len(a.attrs) : AttrIso(a.attrs[j], b.attrs[j], lg, lh, stubAny)
    \* an element whose UUID the encoding need not store keeps it or gets one that is nobody else's
    /\ \A i \in 1..Len(lg) : lh[i] = lg[i] \/ (lg[i] \notin keep /\ lh[i] \notin SeqSet(lg))
Iso(g, h, keep) == IsoGen(g, h, keep, FALSE)
\* the same stub object must stay the same object: equal/unequal UUIDs stay so
StubsOf(g) == {r \in UNION {SeqSet(ElemRefs(g, u)) : u \in Reach(g)} : r.k = "stub"}

(* ---- builder operations (the public mutators used to make a graph) --------- *)
NewAttr(g, e, a) == [g EXCEPT !.el[e].attrs = Append(@, a)]
BAddScalarRef(g, e, n, r) == NewAttr(g, e, [n |-> n, t |-> ELEMENT, arr |-> FALSE, v |-> <<r>>])
BAddArray(g, e, n, t) == NewAttr(g, e, [n |-> n, t |-> t, arr |-> TRUE, v |-> <<>>])
BAppend(g, e, j, x) == [g EXCEPT !.el[e].attrs[j].v = Append(@, x)]
BAddScalar(g, e, n, t, x) == NewAttr(g, e, [n |-> n, t |-> t, arr |-> FALSE, v |-> <<x>>])
BSetName(g, e, s) == [g EXCEPT !.el[e].name = s]
BSetType(g, e, s) == [g EXCEPT !.el[e].type = s]
\* text of class c ("q" needs escapes, "U" is non-ASCII) in the places text can stand
\* besides attribute values; "ncase" spells the name attribute "Name"
BPlace(g, place, c, nn) ==
    LET an == IF c = "q" THEN "aq" ELSE "aU"
        en == IF c = "q" THEN "nq" ELSE "nU"
        tn == IF c = "q" THEN "tq" ELSE "tU"
    IN CASE place = "aname" -> BAddScalar(g, "u1", an, INT, "i1")
         [] place = "ename" -> BSetName(g, "u1", en)
         [] place = "etype" -> BSetType(g, "u1", tn)
         [] place = "ncase" -> BAddScalar(BSetName(g, "u1", "nC"), "u1", nn, INT, "i1")
         [] place = "cname" -> BAddScalarRef(BSetName(g, "u2", en), "u1", nn, RefE("u2"))
         [] OTHER -> BAddScalarRef(BSetType(g, "u2", tn), "u1", nn, RefE("u2"))
\* The name is an ordinary, optional member of the element's attribute map.  Removed (del / pop /
\* clear) the element reads as named "" ("nE"); set again it is a member once more, now after the
\* attributes added meanwhile ("nR").  Neither the count nor the order of the other attributes may
\* depend on it.  "r..." acts on the root (u1), "c..." on its child (u2); with a child that has an
\* attribute of its own the root is not the last element of the file.
BNamePlace(g, place, nn) ==
    LET kid(h) == BAddScalarRef(BAddScalar(h, "u2", "Ax", INT, "i2"), "u1", nn, RefE("u2")) IN
    CASE place = "rdel" -> BAddScalar(BSetName(g, "u1", "nE"), "u1", nn, INT, "i1")
      [] place = "rpop" -> kid(BSetName(g, "u1", "nE"))
      [] place = "rclear" -> kid(BSetName(g, "u1", "nE"))
      [] place = "cdel" -> kid(BSetName(g, "u2", "nE"))
      [] place = "readd" -> BAddScalar(BSetName(g, "u1", "nR"), "u1", nn, INT, "i1")
      [] place = "rreadd" -> kid(BSetName(g, "u1", "nR"))
      [] OTHER -> kid(BSetName(g, "u2", "nR"))                    \* "creadd"
RECURSIVE AttrSize(_, _)
AttrSize(attrs, i) == IF i > Len(attrs) THEN 0
                      ELSE 1 + (IF attrs[i].arr THEN Len(attrs[i].v) ELSE 0) + AttrSize(attrs, i + 1)
RECURSIVE SizeOver(_, _, _)
SizeOver(g, L, i) == IF i > Len(L) THEN 0 ELSE AttrSize(g.el[L[i]].attrs, 1) + SizeOver(g, L, i + 1)
GSize(g) == SizeOver(g, Listing(g), 1)

(* ---- KeyValues1 bridge (Element.from_kv1 / to_kv1) ------------------------- *)
\* A KV1 tree is [n |-> name, leaf |-> BOOLEAN, val |-> text, ch |-> Seq(tree), root |-> BOOLEAN];
\* fold is the case-folding of names as a function given with the record.
\* The element tree is abstract: [type, name, attrs |-> Seq([n, val]), sub |-> Seq(elem), hasSub]
KvLeafT == "DmElementLeaf"
KvBlockT == "DmElement"
KvRootT == "DmElementRoot"
Reserved == {"name", "subkeys"}
NoInline(t, fold) ==
    LET leaves == {i \in 1..Len(t.ch) : t.ch[i].leaf}
        blocks == {i \in 1..Len(t.ch) : ~t.ch[i].leaf}
    IN \/ (leaves # {} /\ blocks # {})
       \/ \E i \in leaves : fold[t.ch[i].n] \in Reserved
       \/ \E i, j \in leaves : i # j /\ fold[t.ch[i].n] = fold[t.ch[j].n]
RECURSIVE FromKv1(_, _)
FromKv1(t, fold) ==
    IF t.leaf THEN [type |-> KvLeafT, name |-> t.n, attrs |-> <<[n |-> "value", val |-> t.val]>>,
                    hasSub |-> FALSE, sub |-> <<>>]
    ELSE LET ni == NoInline(t, fold)
             hasBlock == \E i \in 1..Len(t.ch) : ~t.ch[i].leaf
             subIdx == SelectSeq([i \in 1..Len(t.ch) |-> i], LAMBDA i : ni \/ ~t.ch[i].leaf)
             inIdx == SelectSeq([i \in 1..Len(t.ch) |-> i], LAMBDA i : ~(ni \/ ~t.ch[i].leaf))
         IN [type |-> IF t.root THEN KvRootT ELSE KvBlockT,
             name |-> IF t.root THEN "" ELSE t.n,
             attrs |-> [k \in 1..Len(inIdx) |-> [n |-> t.ch[inIdx[k]].n, val |-> t.ch[inIdx[k]].val]],
             hasSub |-> ni \/ hasBlock,
             sub |-> [k \in 1..Len(subIdx) |-> FromKv1(t.ch[subIdx[k]], fold)]]
RECURSIVE ToKv1(_)
ToKv1(e) ==
    IF e.type = KvLeafT THEN [n |-> e.name, leaf |-> TRUE, val |-> e.attrs[1].val, ch |-> <<>>, root |-> FALSE]
    ELSE [n |-> e.name, leaf |-> FALSE, val |-> "", root |-> e.type = KvRootT,
          ch |-> [k \in 1..Len(e.attrs) |-> [n |-> e.attrs[k].n, leaf |-> TRUE, val |-> e.attrs[k].val,
                                            ch |-> <<>>, root |-> FALSE]]
                 \o [k \in 1..Len(e.sub) |-> ToKv1(e.sub[k])]]
\* inline attributes come back before the subkeys: the tree returns unchanged because
\* inlining happens only when every child is a leaf (then there are no subkeys)
=============================================================================
