---------------------------- MODULE InstancesOps ----------------------------
(* C17: pure operators of the instance-collapse design (srctools.instancing,    *)
(* the localise methods of srctools.vmf and EntityFixup.substitute).            *)
(*                                                                              *)
(* Everything is exact: positions are integer vectors, rotations are integer    *)
(* matrices of the 24-element rotation group of the 90-degree lattice, angles   *)
(* are quarter turns (0..3), text is a sequence of code points.  The state      *)
(* machine (Instances) and the trace validator (InstancesTrace) both use        *)
(* exactly these definitions.                                                   *)
EXTENDS Integers, Sequences, FiniteSets

(* ---------------------------------------------------------------- vectors *)
Dot(a, b) == a[1] * b[1] + a[2] * b[2] + a[3] * b[3]
VAdd(a, b) == <<a[1] + b[1], a[2] + b[2], a[3] + b[3]>>
Col(M, j) == <<M[1][j], M[2][j], M[3][j]>>
\* srctools convention: a row vector times the matrix; the rows of a rotation
\* matrix are the images of the x, y and z axes (forward, left, up).
VecRot(v, M) == <<Dot(v, Col(M, 1)), Dot(v, Col(M, 2)), Dot(v, Col(M, 3))>>
MatMul(A, B) == <<VecRot(A[1], B), VecRot(A[2], B), VecRot(A[3], B)>>
Ident == <<<<1, 0, 0>>, <<0, 1, 0>>, <<0, 0, 1>>>>
Transpose(M) == <<Col(M, 1), Col(M, 2), Col(M, 3)>>

(* -------------------------------------------- rotations, quarter-turn lattice *)
Q(k) == k % 4
Cos4(k) == CASE Q(k) = 0 -> 1 [] Q(k) = 1 -> 0 [] Q(k) = 2 -> 0 - 1 [] Q(k) = 3 -> 0
Sin4(k) == CASE Q(k) = 0 -> 0 [] Q(k) = 1 -> 1 [] Q(k) = 2 -> 0 [] Q(k) = 3 -> 0 - 1
\* Elementary rotations of the Source engine: yaw turns x towards y, positive
\* pitch looks down (x towards -z), roll turns y towards z.
RYaw(k)   == <<<<Cos4(k), Sin4(k), 0>>, <<0 - Sin4(k), Cos4(k), 0>>, <<0, 0, 1>>>>
RPitch(k) == <<<<Cos4(k), 0, 0 - Sin4(k)>>, <<0, 1, 0>>, <<Sin4(k), 0, Cos4(k)>>>>
RRoll(k)  == <<<<1, 0, 0>>, <<0, Cos4(k), Sin4(k)>>, <<0, 0 - Sin4(k), Cos4(k)>>>>
\* Euler angle <<pitch, yaw, roll>>: roll is applied first, then pitch, then yaw.
FromAngleDef(a) == MatMul(MatMul(RRoll(a[3]), RPitch(a[1])), RYaw(a[2]))
\* (tables: TLC evaluates a constant definition once)
AllAngles == (0..3) \X (0..3) \X (0..3)
FromTable == [a \in AllAngles |-> FromAngleDef(a)]
FromAngle(a) == FromTable[<<a[1] % 4, a[2] % 4, a[3] % 4>>]
\* The Euler angles a matrix is written back as: pitch within [-90, 90], and
\* no roll when looking straight up/down (gimbal lock).  24 canonical triples.
CanonAngles == {a \in AllAngles : a[1] \in {0, 1, 3} /\ (a[1] # 0 => a[3] = 0)}
CanonTable == {<<a, FromTable[a]>> : a \in CanonAngles}
ToAngle(M) == (CHOOSE p \in CanonTable : p[2] = M)[1]
Rotations == {FromAngle(a) : a \in CanonAngles}
AngEq(a, b) == FromAngle(a) = FromAngle(b)
QAng(a) == <<Q(a[1]), Q(a[2]), Q(a[3])>>

(* ------------------------------------------------------------------- text *)
Lower(c) == IF c >= 65 /\ c <= 90 THEN c + 32 ELSE c
LowerSeq(s) == [i \in 1..Len(s) |-> Lower(s[i])]
IsDigit(c) == c >= 48 /\ c <= 57
IsIdStart(c) == (Lower(c) >= 97 /\ Lower(c) <= 122) \/ c = 95
IsIdChar(c) == IsIdStart(c) \/ IsDigit(c)
Range(s) == {s[i] : i \in 1..Len(s)}

\* --- numbers and vectors in text ("1 -2 3")
RECURSIVE NatOf(_)
NatOf(s) == IF s = <<>> THEN 0 ELSE NatOf(SubSeq(s, 1, Len(s) - 1)) * 10 + (s[Len(s)] - 48)
IntOf(s) == IF s # <<>> /\ s[1] = 45 THEN 0 - NatOf(Tail(s)) ELSE NatOf(s)
RECURSIVE SplitOn(_, _)
SplitOn(s, sep) ==     \* fields between separator characters (no empty fields)
    IF s = <<>> THEN <<>>
    ELSE IF s[1] = sep THEN SplitOn(Tail(s), sep)
    ELSE LET n == IF \E j \in 1..Len(s) : s[j] = sep
                  THEN (CHOOSE j \in 1..Len(s) : s[j] = sep /\ \A m \in 1..(j - 1) : s[m] # sep) - 1
                  ELSE Len(s)
         IN <<SubSeq(s, 1, n)>> \o SplitOn(SubSeq(s, n + 1, Len(s)), sep)
IsIntText(s) == s # <<>> /\ (\A j \in 2..Len(s) : IsDigit(s[j])) /\ (IsDigit(s[1]) \/ (s[1] = 45 /\ Len(s) > 1))
ParseInts(s) == LET f == SplitOn(s, 32) IN [j \in 1..Len(f) |-> IntOf(f[j])]
IsVecText(s) == LET f == SplitOn(s, 32) IN Len(f) = 3 /\ \A j \in 1..3 : IsIntText(f[j])
\* Vec.from_str / Angle.from_str: anything that is not three numbers reads as zero
ParseVec(s) == IF IsVecText(s) THEN ParseInts(s) ELSE <<0, 0, 0>>
\* degrees (multiples of 90 in this domain) -> quarter turns
QT(deg) == Q(((deg \div 90) % 4) + 4)
ParseAng(s) == LET v == ParseVec(s) IN <<QT(v[1]), QT(v[2]), QT(v[3])>>
ParseDeg(s) == IF IsIntText(s) THEN QT(IntOf(s)) ELSE 0

(* --- EntityFixup.substitute(text, default) --------------------------------- *)
\* tab: sequence of <<variable name (folded), value>>.  A "$" followed by a defined
\* variable name (the longest one that matches there, case-insensitively; no
\* delimiter is needed after it) is replaced by the value; "$identifier" that
\* is not defined is replaced by the default; any other "$" stays.  Replaced
\* text is not scanned again.
StartsWithCI(text, pos, key) ==
    /\ pos + Len(key) - 1 <= Len(text)
    /\ \A j \in 1..Len(key) : Lower(text[pos + j - 1]) = Lower(key[j])
BestVar(tab, text, pos) ==
    LET C == {k \in 1..Len(tab) : Len(tab[k][1]) > 0 /\ StartsWithCI(text, pos, tab[k][1])}
    IN IF C = {} THEN 0
       ELSE CHOOSE k \in C : \A m \in C : Len(tab[m][1]) < Len(tab[k][1]) \/ (Len(tab[m][1]) = Len(tab[k][1]) /\ m >= k)
RECURSIVE IdLen(_, _)
IdLen(text, pos) == IF pos <= Len(text) /\ IsIdChar(text[pos]) THEN 1 + IdLen(text, pos + 1) ELSE 0
RECURSIVE SubstFrom(_, _, _, _)
SubstFrom(tab, text, default, i) ==
    IF i > Len(text) THEN <<>>
    ELSE IF text[i] # 36 THEN <<text[i]>> \o SubstFrom(tab, text, default, i + 1)
    ELSE LET b == BestVar(tab, text, i + 1) IN
         IF b # 0 THEN tab[b][2] \o SubstFrom(tab, text, default, i + 1 + Len(tab[b][1]))
         ELSE IF i + 1 <= Len(text) /\ IsIdStart(text[i + 1])
              THEN default \o SubstFrom(tab, text, default, i + 1 + IdLen(text, i + 1))
         ELSE <<36>> \o SubstFrom(tab, text, default, i + 1)
Substitute(tab, text, default) == SubstFrom(tab, text, default, 1)
\* collapse_one substitutes with the empty string as default
Subst(tab, text) == Substitute(tab, text, <<>>)

(* --- names ------------------------------------------------------------------ *)
\* fixup styles: 0 prefix, 1 suffix, 2 none.  Empty names and names starting with
\* "@" or "!" are global and never renamed.
GlobalName(n) == n = <<>> \/ n[1] = 64 \/ n[1] = 33
FixupName(style, iname, n) ==
    IF GlobalName(n) \/ style = 2 THEN n
    ELSE IF style = 0 THEN iname \o <<45>> \o n
    ELSE n \o <<45>> \o iname
\* $fixup values carried by a nested func_instance: renamed like names unless they
\* look like a number or a global name (first character one of @ ! - . 0-9)
RenamedFixup(style, iname, v) ==
    IF v = <<>> \/ v[1] \in {64, 33, 45, 46} \/ IsDigit(v[1]) THEN v ELSE FixupName(style, iname, v)

(* --- an instance -------------------------------------------------------------- *)
\* I = [name, pos, ang (quarter turns), style, fix (table), rc (recursion count)]
Orient(I) == FromAngle(I.ang)
PlacePos(I, p) == VAdd(VecRot(p, Orient(I)), I.pos)
PlaceDir(I, d) == VecRot(d, Orient(I))
PlaceRot(I, a) == MatMul(FromAngle(a), Orient(I))       \* orientation composed with the instance's

(* --- brushes ------------------------------------------------------------------ *)
\* texture axis [v: direction, o: offset, q: scale in quarters]: the direction turns with the
\* geometry and the offset moves so that the texture stays glued to the face:
\* offset' = offset - (v' . origin) / scale
PlaceAxis(I, ax) == LET d == PlaceDir(I, ax.v)
                    IN [v |-> d, o |-> ax.o - (4 * Dot(d, I.pos)) \div ax.q, q |-> ax.q]
AxisExact(I, ax) == (4 * Dot(PlaceDir(I, ax.v), I.pos)) % ax.q = 0
\* displacement [pos, verts: sequence of <<normal, offset, offset normal>>]; dp = 0: flat face
PlaceDisp(I, d) == [pos |-> PlacePos(I, d.pos),
                    verts |-> [j \in 1..Len(d.verts) |->
                                 <<PlaceDir(I, d.verts[j][1]), PlaceDir(I, d.verts[j][2]), PlaceDir(I, d.verts[j][3])>>]]
PlaceSide(I, s) == [p |-> <<PlacePos(I, s.p[1]), PlacePos(I, s.p[2]), PlacePos(I, s.p[3])>>,
                    u |-> PlaceAxis(I, s.u), v |-> PlaceAxis(I, s.v), mat |-> s.mat,
                    dp |-> s.dp, disp |-> IF s.dp = 0 THEN 0 ELSE PlaceDisp(I, s.disp)]
SideGeom(s) == [p |-> s.p, u |-> s.u, v |-> s.v, mat |-> s.mat, dp |-> s.dp, disp |-> s.disp]
PlaceBrush(I, b) == [j \in 1..Len(b.sides) |-> PlaceSide(I, b.sides[j])]
SelectSeq2(s, Test(_)) == SelectSeq(s, Test)
Visible(x) == x.vis
VisibleOf(s) == SelectSeq(s, Visible)

(* --- keyvalues, typed ----------------------------------------------------------- *)
\* The type tag t of a keyvalue says what the value means (it comes from the entity
\* definition database, or is fixed for origin/angles/classname...):
\*   skip   classname, hammerid, spawnflags, "$..." convenience keys of func_instance: untouched
\*   str    plain text                         name   an entity name
\*   cls    entity name or class name          pos    absolute position
\*   dir    direction                          ang    Euler angles
\*   axis2  two positions "x y z, x y z"       sides  list of face IDs
\*   unk    key the database does not know: plain text
\* "origin" is a pos; "angles"/"pitch"/"yaw" together give the entity's orientation
\* (tags angles, npitch (value is the negated pitch), pitch, yaw).
TextTags == {"skip", "str", "name", "cls", "unk"}
ParseAxis2(s) == LET f == SplitOn(s, 44) IN
                 IF Len(f) = 2 THEN <<ParseVec(f[1]), ParseVec(f[2])>> ELSE <<<<0, 0, 0>>, <<0, 0, 0>>>>
\* ctx = [classes: set of folded class names, faces: sequence of <<old face id, new face id>>]
MapFaces(ctx, ids) == {ctx.faces[j][2] : j \in {m \in 1..Len(ctx.faces) : ctx.faces[m][1] \in Range(ids)}}
\* expected new value of keyvalue kv = [k, t, v (text)] of an entity placed by I
ExpectKey(I, ctx, kv) ==
    LET sv == Subst(I.fix, kv.v) IN
    CASE kv.t = "skip"  -> kv.v
      [] kv.t = "str"   -> sv
      [] kv.t = "unk"   -> sv
      [] kv.t = "name"  -> FixupName(I.style, I.name, sv)
      [] kv.t = "cls"   -> IF LowerSeq(sv) \in ctx.classes THEN sv ELSE FixupName(I.style, I.name, sv)
      [] kv.t = "pos"   -> PlacePos(I, ParseVec(sv))
      [] kv.t = "dir"   -> PlaceDir(I, ParseVec(sv))
      [] kv.t = "ang"   -> PlaceRot(I, ParseAng(sv))
      [] kv.t = "axis2" -> <<PlacePos(I, ParseAxis2(sv)[1]), PlacePos(I, ParseAxis2(sv)[2])>>
      [] kv.t = "sides" -> MapFaces(ctx, ParseInts(sv))
      [] OTHER -> 0
\* how a logged new value r is compared with the expectation e
KeyAgrees(t, e, r) ==
    CASE t \in TextTags -> e = r
      [] t \in {"pos", "dir", "axis2"} -> e = r
      [] t = "ang" -> e = FromAngle(r)
      [] t = "sides" -> e = Range(r)
      [] OTHER -> TRUE

\* orientation of an entity: its angles, with pitch and yaw overridden by the separate
\* "pitch"/"yaw" keyvalues when the entity has them; composed with the instance rotation.
HasTag(keys, t) == \E j \in 1..Len(keys) : keys[j].t = t
KeyOf(keys, t) == keys[CHOOSE j \in 1..Len(keys) : keys[j].t = t]
EntAngle(I, keys) ==
    LET base == IF HasTag(keys, "angles") THEN ParseAng(Subst(I.fix, KeyOf(keys, "angles").v)) ELSE <<0, 0, 0>>
        p == IF HasTag(keys, "npitch") THEN Q(4 - ParseDeg(Subst(I.fix, KeyOf(keys, "npitch").v)))
             ELSE IF HasTag(keys, "pitch") THEN ParseDeg(Subst(I.fix, KeyOf(keys, "pitch").v))
             ELSE base[1]
        y == IF HasTag(keys, "yaw") THEN ParseDeg(Subst(I.fix, KeyOf(keys, "yaw").v)) ELSE base[2]
    IN <<p, y, base[3]>>
EntRot(I, keys) == PlaceRot(I, EntAngle(I, keys))
\* the new angles/pitch/yaw values (quarter turns) describe orientation R
OrientAgrees(R, keys, res) ==
    LET idx(t) == CHOOSE j \in 1..Len(keys) : keys[j].t = t
        A == IF HasTag(keys, "angles") THEN res[idx("angles")] ELSE ToAngle(R)
    IN /\ FromAngle(A) = R
       /\ HasTag(keys, "npitch") => FromAngle(<<Q(4 - res[idx("npitch")]), A[2], A[3]>>) = R
       /\ HasTag(keys, "pitch") => FromAngle(<<res[idx("pitch")], A[2], A[3]>>) = R
       /\ HasTag(keys, "yaw") => FromAngle(<<A[1], res[idx("yaw")], A[3]>>) = R
OrientTags == {"angles", "npitch", "pitch", "yaw"}

(* --- instance inputs and outputs (func_instance_io_proxy) ------------------------- *)
\* an output: [o: output name, t: target, i: input, p: parameter, d: delay (1/1000 s), n: times (-1 forever),
\*             io: "instance:io;o" part of the output name, ii: "instance:ii;i" part of the input] - NoPart when absent
NoPart == <<0>>
ProxyRelayCp == <<112, 114, 111, 120, 121, 114, 101, 108, 97, 121>>                    \* "proxyrelay"
OnProxyRelayCp == <<111, 110>> \o ProxyRelayCp                                          \* "onproxyrelay"
IsProxyEnt(e) == e.cls = "func_instance_io_proxy"
ProxyNames(src) == {LowerSeq(src[j].name) : j \in {k \in 1..Len(src) : IsProxyEnt(src[k])}}
\* an output of an entity of the file that leaves the instance: aimed at the proxy's ProxyRelay input
IsRelay(src, out) == LowerSeq(out.i) = ProxyRelayCp /\ LowerSeq(out.t) \in ProxyNames(src)
RECURSIVE FlatSeq(_)
FlatSeq(ss) == IF ss = <<>> THEN <<>> ELSE ss[1] \o FlatSeq(Tail(ss))
\* reading the file (InstanceFile): the proxy goes away; every relay output is taken off its entity and
\* registered under (entity name, output name), both folded - a later one with the same key replaces an earlier one
Relays(src) == FlatSeq([j \in 1..Len(src) |->
                  IF IsProxyEnt(src[j]) THEN <<>>
                  ELSE LET R(x) == IsRelay(src, x) r == SelectSeq(src[j].outs, R)
                       IN [k \in 1..Len(r) |-> [ent |-> j, key |-> <<LowerSeq(src[j].name), LowerSeq(r[k].o)>>, out |-> r[k]]]])
KeptOuts(src, j) == LET K(x) == ~IsRelay(src, x) IN SelectSeq(src[j].outs, K)
HasRelay(src, key) == \E m \in 1..Len(Relays(src)) : Relays(src)[m].key = key
RelayOf(src, key) == LET rs == Relays(src) IN
                     rs[CHOOSE m \in 1..Len(rs) : rs[m].key = key /\ \A q \in (m + 1)..Len(rs) : rs[q].key # key]
\* inputs into the instance: the proxy's own OnProxyRelay outputs, under (target, input) folded
ProxyIns(src) == FlatSeq([j \in 1..Len(src) |->
                    IF ~IsProxyEnt(src[j]) THEN <<>>
                    ELSE LET P(x) == LowerSeq(x.o) = OnProxyRelayCp IN SelectSeq(src[j].outs, P)])
HasProxyIn(src, key) == \E m \in 1..Len(ProxyIns(src)) : <<LowerSeq(ProxyIns(src)[m].t), LowerSeq(ProxyIns(src)[m].i)>> = key
ProxyInOf(src, key) == LET ps == ProxyIns(src) K(m) == <<LowerSeq(ps[m].t), LowerSeq(ps[m].i)>> IN
                       ps[CHOOSE m \in 1..Len(ps) : K(m) = key /\ \A q \in (m + 1)..Len(ps) : K(q) # key]
IMin(a, b) == IF a < b THEN a ELSE b
\* Output.combine(inner relay output, connection on the func_instance)
CombineOut(pr, c) == [o |-> pr.o, t |-> c.t, i |-> c.i, p |-> IF c.p # <<>> THEN c.p ELSE pr.p, d |-> pr.d + c.d,
                      n |-> IF c.n < 0 THEN pr.n ELSE IF pr.n < 0 THEN c.n ELSE IMin(pr.n, c.n),
                      io |-> pr.io, ii |-> c.ii]
\* the outputs of the placed copy of entity j of the file: its own (relay outputs gone, targets renamed), then one
\* merged output per connection "instance:<this entity>;<relayed output>" of the func_instance, in their order
ConnHits(src, j, c) == c.io # NoPart /\ HasRelay(src, <<LowerSeq(c.io), LowerSeq(c.o)>>)
                       /\ RelayOf(src, <<LowerSeq(c.io), LowerSeq(c.o)>>).ent = j
PlacedOuts(I, src, j, conns) ==
    LET kept == KeptOuts(src, j)
        H(c) == ConnHits(src, j, c)
        hits == SelectSeq(conns, H)
    IN [k \in 1..Len(kept) |-> [kept[k] EXCEPT !.t = FixupName(I.style, I.name, Subst(I.fix, @))]]
       \o [k \in 1..Len(hits) |-> CombineOut(RelayOf(src, <<LowerSeq(hits[k].io), LowerSeq(hits[k].o)>>).out, hits[k])]
\* an output of an entity outside, aimed at "instance:<entity>;<input>" of this func_instance
InputHits(I, src, x) == LowerSeq(x.t) = LowerSeq(I.name) /\ x.ii # NoPart /\ HasProxyIn(src, <<LowerSeq(x.ii), LowerSeq(x.i)>>)
MergedInput(I, src, x) ==
    LET pr == ProxyInOf(src, <<LowerSeq(x.ii), LowerSeq(x.i)>>) IN
    [x EXCEPT !.t = FixupName(I.style, I.name, pr.t), !.i = pr.i, !.ii = NoPart,
              !.p = IF pr.p # <<>> THEN pr.p ELSE @, !.n = IMin(@, pr.n), !.d = @ + pr.d]

(* --- the abstract machine of collapse_all (typed level, used by Instances) ----- *)
\* An abstract entity is either a marker or a nested instance:
\*   [kind |-> "mark" or "inst", name, pos, ang, file, style, fixv (value of its one $variable), rc]
\* (a marker carries file 0, style 2, no fixup value and count 0, so that all have one shape)
InstOfEnt(e) == [name |-> e.name, pos |-> e.pos, ang |-> e.ang, style |-> e.style,
                 fix |-> <<>>, rc |-> e.rc]
PlaceAbs(I, e) ==
    LET moved == [e EXCEPT !.name = FixupName(I.style, I.name, @), !.pos = PlacePos(I, @),
                           !.ang = ToAngle(PlaceRot(I, @))]
    IN IF e.kind = "mark" THEN moved
       ELSE [moved EXCEPT !.fixv = RenamedFixup(I.style, I.name, @), !.rc = I.rc + 1]
PlaceAll(I, ents) == [j \in 1..Len(ents) |-> PlaceAbs(I, ents[j])]
IsInst(e) == e.kind = "inst"
IsMark(e) == e.kind = "mark"
BagOf(s) == [x \in Range(s) |-> Cardinality({j \in 1..Len(s) : s[j] = x})]

\* collapse_all as a function: round by round, every func_instance in the map is replaced
\* by the placed contents of its file; at most limit rounds.
RECURSIVE ExpandSeq(_, _)
ExpandSeq(tmpl, ents) ==        \* one round over a sequence of entities
    IF ents = <<>> THEN <<>>
    ELSE (IF IsInst(ents[1]) THEN PlaceAll(InstOfEnt(ents[1]), tmpl[ents[1].file]) ELSE <<ents[1]>>)
         \o ExpandSeq(tmpl, Tail(ents))
RECURSIVE Rounds(_, _, _)
Rounds(tmpl, ents, n) ==
    IF ~\E j \in 1..Len(ents) : IsInst(ents[j]) THEN [ents |-> ents, left |-> n]
    ELSE IF n = 0 THEN [ents |-> ents, left |-> 0 - 1]
    ELSE Rounds(tmpl, ExpandSeq(tmpl, ents), n - 1)
\* the files collapse_all has to read (each once: they are cached by name)
RECURSIVE Visited(_, _, _)
Visited(tmpl, ents, n) ==
    LET fs == {ents[j].file : j \in {k \in 1..Len(ents) : IsInst(ents[k])}}
    IN IF fs = {} \/ n = 0 THEN {} ELSE fs \cup Visited(tmpl, ExpandSeq(tmpl, ents), n - 1)
=============================================================================
