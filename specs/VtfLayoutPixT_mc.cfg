INIT Init
NEXT Next
INVARIANT Codec
INVARIANT Stable
INVARIANT Exact
INVARIANT Fixed
INVARIANT AvgLaw
CHECK_DEADLOCK FALSE
CONSTANTS
  Corner = {0, 1, 127, 128, 255}
