----------------------------- MODULE OutputTrace -----------------------------
(* Validates records from the real srctools.vmf.Output against OutputOps.        *)
EXTENDS OutputOps, TLC, Json, IOUtils
Recs == ndJsonDeserialize(IOEnv.TRACE_FILE)
N == Len(Recs)
VARIABLE i
Bad(c, e) == [ok |-> FALSE, clause |-> c, exp |-> e]
Good == [ok |-> TRUE, clause |-> "", exp |-> 0]
Verdict(r) ==
    IF r.k = "text" THEN
        LET o == r.o  p == Parse(r.key, r.val)      \* parse what the real writer produced
        \* what C06 promises comes first: a value the text form can carry is read back as itself.
        \* The exact text the writer chooses and the parser's behaviour on it are then compared
        \* with the specification as growth (reported as drift, not as a violation).
        IN  IF Representable(o) /\ ~(r.parsed.ok /\ r.parsed.o = o) THEN Bad("out.roundtrip", o)
            ELSE IF r.key # Key(o) THEN Bad("out.key", Key(o))
            ELSE IF r.val # Value(o) THEN Bad("out.value", Value(o))
            ELSE IF p.ok # r.parsed.ok THEN Bad("out.parse.error", p.ok)
            ELSE IF p.ok /\ p.o # r.parsed.o THEN Bad("out.parse.result", p.o)
            ELSE Good
    ELSE IF r.k = "parse" THEN      \* arbitrary key/value texts fed to the real parser
        LET p == Parse(r.key, r.val)
        IN  IF p.ok # r.parsed.ok THEN Bad("out.parse.error", p.ok)
            ELSE IF p.ok /\ p.o # r.parsed.o THEN Bad("out.parse.result", p.o)
            ELSE Good
    ELSE    \* combine
        LET e == Combine(r.a, r.b)
        IN IF e # r.res THEN Bad("out.combine", e) ELSE Good
Init == i = 0
Next == i < N /\ i' = i + 1
Checked == i = 0 \/ LET v == Verdict(Recs[i]) IN
              v.ok \/ PrintT(ToJson([tag |-> "MISMATCH", i |-> i, clause |-> v.clause, exp |-> v.exp]))
AllConsumed == TLCGet("stats").diameter = N + 1
=============================================================================
