------------------------------ MODULE FgdDbOps ------------------------------
(* Pure operators of the lazily parsed binary FGD database                     *)
(* (srctools._engine_db.EngineDB) and of the list of databases consulted by    *)
(* EntityDef.engine_def / FGD.engine_dbase.                                    *)
(*                                                                             *)
(* A database description (constant data, read from the real file by the       *)
(* harness or chosen by the model) is a record                                 *)
(*    db = [blocks |-> <<block 1, block 2, ...>>   each block a sequence of    *)
(*                      entity keys in the order they are stored,              *)
(*          bases  |-> [entity key |-> sequence of base entity keys],          *)
(*          cbase  |-> key of the root definition every base-less entity gets] *)
(* The lazy state is                                                           *)
(*    st = [parsed |-> set of block numbers already parsed,                    *)
(*          cnt    |-> [block |-> how many times it was parsed],               *)
(*          obj    |-> [entity |-> identity token of its definition object, 0  *)
(*                      while the entity is still unparsed],                   *)
(*          rb     |-> [entity |-> identity tokens of its resolved bases],     *)
(*          n      |-> next identity token,                                    *)
(*          log    |-> the entities in the order their objects were created,   *)
(*          fgd    |-> TRUE once the whole-database FGD has been built]        *)
(* Identity tokens count definition objects in the order they are created, so  *)
(* the specification also fixes the order in which entities are unserialised.  *)
EXTENDS Integers, Sequences, FiniteSets

SeqToSet(q) == {q[k] : k \in 1..Len(q)}
NBlocks(db) == Len(db.blocks)
\* bases has one field per entity (the root included)
EntsOf(db) == DOMAIN db.bases
\* a description may carry the entity -> block number map (large databases);
\* WellFormed ties it to blocks
BlockOf(db, e) == IF "blk" \in DOMAIN db THEN db.blk[e]
                  ELSE CHOOSE b \in 1..NBlocks(db) : e \in SeqToSet(db.blocks[b])
RECURSIVE SumLen(_, _)
SumLen(blocks, b) == IF b > Len(blocks) THEN 0 ELSE Len(blocks[b]) + SumLen(blocks, b + 1)
WellFormed(db) ==
    /\ EntsOf(db) = UNION {SeqToSet(db.blocks[b]) : b \in 1..NBlocks(db)} \cup {db.cbase}
    \* no entity is stored twice, and the root is in no block
    /\ SumLen(db.blocks, 1) = Cardinality(EntsOf(db)) - 1
    /\ \A b \in 1..NBlocks(db) : \A k \in 1..Len(db.blocks[b]) :
          "blk" \in DOMAIN db => db.blk[db.blocks[b][k]] = b
    /\ \A e \in EntsOf(db) : \A k \in 1..Len(db.bases[e]) : db.bases[e][k] \in EntsOf(db)

\* unserialise(): nothing parsed except the root definition, which is object 1
DbInit(db) ==
    [parsed |-> {}, cnt |-> [b \in 1..NBlocks(db) |-> 0],
     obj |-> [e \in EntsOf(db) |-> IF e = db.cbase THEN 1 ELSE 0],
     rb  |-> [e \in EntsOf(db) |-> <<>>],
     n |-> 2, log |-> <<>>, fgd |-> FALSE]

Loaded(st, e) == st.obj[e] # 0

\* create the definition objects of a block, in stored order; an entity without
\* bases is given the root definition as its only base right away
RECURSIVE Install(_, _, _, _)
Install(db, st, ents, k) ==
    IF k > Len(ents) THEN st
    ELSE LET e == ents[k] IN
         Install(db,
                 [st EXCEPT !.obj[e] = st.n, !.n = st.n + 1, !.log = Append(@, e),
                            !.rb[e] = IF db.bases[e] = <<>> THEN <<st.obj[db.cbase]>> ELSE <<>>],
                 ents, k + 1)

RECURSIVE ParseBlock(_, _, _), ResolveEnts(_, _, _, _), ResolveBases(_, _, _, _)
\* _parse_block(index): a block already parsed is left alone; otherwise all its
\* definitions are created, the block is marked parsed, and only then are the
\* base names of its entities looked up (which may parse further blocks; those
\* see this block as parsed, so mutually dependent blocks terminate).
ParseBlock(db, st, b) ==
    IF b \in st.parsed THEN st
    ELSE LET ents == db.blocks[b]
             st1 == Install(db, st, ents, 1)
             st2 == [st1 EXCEPT !.parsed = @ \cup {b}, !.cnt[b] = @ + 1]
         IN  ResolveEnts(db, st2, ents, 1)
ResolveEnts(db, st, ents, k) ==
    IF k > Len(ents) THEN st
    ELSE LET e == ents[k] IN
         IF db.bases[e] = <<>> THEN ResolveEnts(db, st, ents, k + 1)
         ELSE LET r == ResolveBases(db, st, db.bases[e], 1)
              IN  ResolveEnts(db, [r.s EXCEPT !.rb[e] = r.toks], ents, k + 1)
ResolveBases(db, st, bs, j) ==
    IF j > Len(bs) THEN [s |-> st, toks |-> <<>>]
    ELSE LET st1 == IF Loaded(st, bs[j]) THEN st ELSE ParseBlock(db, st, BlockOf(db, bs[j]))
             rest == ResolveBases(db, st1, bs, j + 1)
         IN  [s |-> rest.s, toks |-> <<st1.obj[bs[j]]>> \o rest.toks]

\* get_ent(classname)
GetEnt(db, st, e) ==
    LET s2 == IF Loaded(st, e) THEN st ELSE ParseBlock(db, st, BlockOf(db, e))
    IN  [s |-> s2, res |-> s2.obj[e]]

\* get_fgd(): parse what is left, in block order; build the FGD once
RECURSIVE ParseRest(_, _, _)
ParseRest(db, st, b) ==
    IF b > NBlocks(db) THEN st ELSE ParseRest(db, ParseBlock(db, st, b), b + 1)
GetFgd(db, st) ==
    IF st.fgd THEN [s |-> st, res |-> 0]
    ELSE [s |-> [ParseRest(db, st, 1) EXCEPT !.fgd = TRUE], res |-> 0]

\* the entities whose objects were created by a step, in creation order
Created(st, st2) == SubSeq(st2.log, Len(st.log) + 1, Len(st2.log))

(* ---- what must hold in every reachable state ----------------------------- *)
EffBases(db, e) == IF e = db.cbase THEN <<>>
                   ELSE IF db.bases[e] = <<>> THEN <<db.cbase>> ELSE db.bases[e]
OwnerOf(st, tok) == IF tok = 1 THEN CHOOSE e \in DOMAIN st.obj : st.obj[e] = 1 ELSE st.log[tok - 1]
ParsedOnce(db, st) == \A b \in 1..NBlocks(db) : st.cnt[b] = IF b \in st.parsed THEN 1 ELSE 0
LoadedIffParsed(db, st) ==
    \A b \in 1..NBlocks(db) : \A e \in SeqToSet(db.blocks[b]) : Loaded(st, e) <=> b \in st.parsed
\* object k+1 is the k-th created one and belongs to exactly that entity (the root is object 1)
Distinct(st) == /\ st.n = Len(st.log) + 2
                /\ \A k \in 1..Len(st.log) : st.obj[st.log[k]] = k + 1
                /\ Cardinality(SeqToSet(st.log)) = Len(st.log)
                /\ \A e \in DOMAIN st.obj : Loaded(st, e) => (e \in SeqToSet(st.log) \/ st.obj[e] = 1)
\* every parsed definition has exactly the bases of the fully loaded database,
\* and they are loaded themselves
BasesResolved(db, st) ==
    \A e \in DOMAIN st.obj : Loaded(st, e) =>
        /\ Len(st.rb[e]) = Len(EffBases(db, e))
        /\ \A k \in 1..Len(st.rb[e]) : /\ st.rb[e][k] # 0
                                       /\ st.rb[e][k] = st.obj[EffBases(db, e)[k]]
\* the definition reachable from e, as a tree of names; equal to the one the
\* fully loaded database gives (FullTree) whatever was queried before
RECURSIVE DefTree(_, _, _), FullTree(_, _)
DefTree(db, st, e) ==
    [name |-> e, bases |-> [k \in 1..Len(st.rb[e]) |-> DefTree(db, st, OwnerOf(st, st.rb[e][k]))]]
FullTree(db, e) ==
    [name |-> e, bases |-> [k \in 1..Len(EffBases(db, e)) |-> FullTree(db, EffBases(db, e)[k])]]
AgreesWithFull(db, st) == \A e \in DOMAIN st.obj : Loaded(st, e) => DefTree(db, st, e) = FullTree(db, e)
\* identities never change once handed out
Stable(st, st2) == \A e \in DOMAIN st.obj : Loaded(st, e) => st2.obj[e] = st.obj[e]

(* ---- several databases: engine_def asks them in list order ---------------- *)
\* dbs is a sequence of database descriptions; the answer comes from the first
\* one that knows the class.  0 = KeyError.
FirstWith(dbs, e) ==
    IF Len(dbs) = 1 THEN (IF e \in EntsOf(dbs[1]) THEN 1 ELSE 0)
    ELSE IF \E k \in 1..Len(dbs) : e \in EntsOf(dbs[k])
    THEN CHOOSE k \in 1..Len(dbs) : e \in EntsOf(dbs[k]) /\ \A m \in 1..(k - 1) : e \notin EntsOf(dbs[m])
    ELSE 0
AllClasses(dbs) == UNION {EntsOf(dbs[k]) : k \in 1..Len(dbs)}
=============================================================================
