---------------------------- MODULE FloatTextOps ----------------------------
(* Canonical decimal text of a number with at most `places` decimals, as used   *)
(* by str(Vec) / str(Angle) / format_float.  A number is given exactly as       *)
(*   [neg, ip, frac]  =  (-1)^neg * (ip + frac / 10^places)                     *)
(* where ip is the integer part as a sequence of digit code points (it may be   *)
(* far above 2^31) and frac an integer in 0 .. 10^places - 1.  Texts are        *)
(* sequences of code points.                                                    *)
EXTENDS Integers, Sequences

Minus == 45
Dot == 46
Space == 32
IsDigit(c) == c >= 48 /\ c <= 57
RECURSIVE Pow10(_)
Pow10(n) == IF n = 0 THEN 1 ELSE 10 * Pow10(n - 1)

\* decimal digits of n >= 0 (no padding)
RECURSIVE DigitsOf(_)
DigitsOf(n) == IF n < 10 THEN <<48 + n>> ELSE Append(DigitsOf(n \div 10), 48 + (n % 10))
\* exactly w digits, zero padded on the left (n < 10^w)
RECURSIVE Pad(_, _)
Pad(n, w) == IF w = 0 THEN <<>> ELSE Append(Pad(n \div 10, w - 1), 48 + (n % 10))
RECURSIVE StripZerosRight(_)
StripZerosRight(q) == IF q # <<>> /\ q[Len(q)] = 48 THEN StripZerosRight(SubSeq(q, 1, Len(q) - 1)) ELSE q
RECURSIVE StripZerosLeft(_)
StripZerosLeft(q) == IF Len(q) > 1 /\ q[1] = 48 THEN StripZerosLeft(Tail(q)) ELSE q

IsZero(k) == k.ip = <<48>> /\ k.frac = 0
\* the canonical text: no exponent, no trailing zeros, no '.', never a minus sign on zero
Canon(k, places) ==
    LET body == k.ip \o (IF k.frac = 0 THEN <<>> ELSE <<Dot>> \o StripZerosRight(Pad(k.frac, places)))
    IN  IF k.neg /\ ~IsZero(k) THEN <<Minus>> \o body ELSE body

(* ---- reading a text back -------------------------------------------------- *)
Unsigned(t) == IF t # <<>> /\ t[1] = Minus THEN Tail(t) ELSE t
DotPos(t) == IF \E j \in 1..Len(t) : t[j] = Dot THEN CHOOSE j \in 1..Len(t) : t[j] = Dot /\ \A h \in 1..(j - 1) : t[h] # Dot ELSE 0
IntPart(t) == LET u == Unsigned(t) p == DotPos(u) IN IF p = 0 THEN u ELSE SubSeq(u, 1, p - 1)
FracPart(t) == LET u == Unsigned(t) p == DotPos(u) IN IF p = 0 THEN <<>> ELSE SubSeq(u, p + 1, Len(u))
AllDigits(q) == \A j \in 1..Len(q) : IsDigit(q[j])
RECURSIVE DigitsVal(_)
DigitsVal(q) == IF q = <<>> THEN 0 ELSE 10 * DigitsVal(SubSeq(q, 1, Len(q) - 1)) + (q[Len(q)] - 48)

\* plain decimal: [-]digits[.digits], at most `places` decimals; in particular no exponent, inf or nan
Plain(t, places) ==
    /\ IntPart(t) # <<>> /\ AllDigits(IntPart(t)) /\ AllDigits(FracPart(t))
    /\ Len(FracPart(t)) <= places
    /\ (DotPos(Unsigned(t)) # 0 => FracPart(t) # <<>>)
\* value of a plain text in the [neg, ip, frac] form (a minus sign on zero does not make it negative)
Parse(t, places) ==
    LET ip == StripZerosLeft(IntPart(t))
        fr == DigitsVal(FracPart(t)) * Pow10(places - Len(FracPart(t)))
    IN  [neg |-> t[1] = Minus /\ ~(ip = <<48>> /\ fr = 0), ip |-> ip, frac |-> fr]
\* "-0", "-0.0", ... : a minus sign on a text whose value is zero
NegZero(t, places) == t # <<>> /\ t[1] = Minus /\ Plain(t, places) /\ IsZero(Parse(t, places))

(* ---- three numbers separated by single spaces ------------------------------- *)
RECURSIVE SplitAt(_, _)
SplitAt(t, sep) ==
    IF ~\E j \in 1..Len(t) : t[j] = sep THEN <<t>>
    ELSE LET p == CHOOSE j \in 1..Len(t) : t[j] = sep /\ \A h \in 1..(j - 1) : t[h] # sep
         IN  <<SubSeq(t, 1, p - 1)>> \o SplitAt(SubSeq(t, p + 1, Len(t)), sep)
Join3(a, b, c) == a \o <<Space>> \o b \o <<Space>> \o c

\* successor / predecessor relation on [neg, ip, frac] is only needed for exact ties; compare on small parts
SameNumber(a, b) == a.neg = b.neg /\ a.ip = b.ip /\ a.frac = b.frac
=============================================================================
