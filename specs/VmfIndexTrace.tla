---------------------------- MODULE VmfIndexTrace ----------------------------
(* Validates records logged from the real srctools code against VmfIndexOps.   *)
(* A record holds the projected state before and after ONE API call on real    *)
(* VMF / Entity objects:                                                       *)
(*   pre/post = [ent |-> [id -> entity],                                       *)
(*               idx |-> [map -> [bc |-> <<key, members>>...,                  *)
(*                                bt |-> <<kind, key, members>>...]]]          *)
(* where idx is the RAW content of vmf.by_class / vmf.by_target (kind "none"   *)
(* = the None key), and ent the keys read from the entity objects plus         *)
(* membership in vmf.entities.  post.search lists list(vmf.search(q)).         *)
(* Judged only when the state before the call was in order (otherwise the      *)
(* record is reported as "tainted": an earlier call broke it and was blamed).  *)
EXTENDS VmfIndexOps, Json, IOUtils

Recs == ndJsonDeserialize(IOEnv.TRACE_FILE)
N == Len(Recs)
VARIABLE i

ToSet(q) == {q[k] : k \in DOMAIN q}
FoldOf(r) == LET t == r.F.fold
                 D == {t[k][1] : k \in DOMAIN t}
             IN  [fold |-> [s \in D |-> t[CHOOSE k \in DOMAIN t : t[k][1] = s][2]], base |-> <<>>]

\* by_class entries: <<key, members>>; by_target entries: <<kind, key, members>>
Live(ps, n) == {k \in DOMAIN ps : ps[k][n] # <<>>}            \* entries with a non-empty set
\* what a case-insensitive reader finds: union over all keys with the same folding
Folded(F, ps, kpos, n) ==
    LET L == Live(ps, n)
        key(k) == IF kpos = 2 /\ ps[k][1] = "none" THEN "" ELSE Fd(F.fold, ps[k][kpos])
    IN  [f \in {key(k) : k \in L} |-> UNION {ToSet(ps[k][n]) : k \in {j \in L : key(j) = f}}]
\* canonical: every non-empty set is filed under the folded key (None for unnamed)
CanonBc(F, ps) == \A k \in Live(ps, 2) : ps[k][1] = Fd(F.fold, ps[k][1])
CanonBt(F, ps) == \A k \in Live(ps, 3) :
                    IF ps[k][1] = "none" THEN TRUE ELSE ps[k][2] # "" /\ ps[k][2] = Fd(F.fold, ps[k][2])

\* records list only the entities that exist; ids is the id universe of the record
Pad(ent, ids) == [x \in ids \cup DOMAIN ent |-> IF x \in DOMAIN ent THEN ent[x] ELSE NoEnt]
StOf(F, j) == [ent |-> j.ent,
               bc |-> [m \in DOMAIN j.idx |-> Folded(F, j.idx[m].bc, 1, 2)],
               bt |-> [m \in DOMAIN j.idx |-> Folded(F, j.idx[m].bt, 2, 3)]]
CanonSt(F, j) == \A m \in DOMAIN j.idx : CanonBc(F, j.idx[m].bc) /\ CanonBt(F, j.idx[m].bt)

Bad(c, e) == [ok |-> FALSE, clause |-> c, exp |-> e]
Good == [ok |-> TRUE, clause |-> "", exp |-> 0]

SpawnsOf(st) == {x \in DOMAIN st.ent : st.ent[x].spawn}
SpawnOK(F, st) == \A w \in SpawnsOf(st) :
    /\ Fd(F.fold, st.ent[w].cls) = "worldspawn"
    /\ w \in Lookup(st.bc[st.ent[w].home], "worldspawn")

\* --- the property clauses on a projected state
\* members of an index set that are not entities of the record at all (objects nobody holds)
Strangers(j) == LET mem(ps, n) == UNION {ToSet(ps[k][n]) : k \in DOMAIN ps}
                IN  UNION {mem(j.idx[m].bc, 2) \cup mem(j.idx[m].bt, 3) : m \in DOMAIN j.idx} \ DOMAIN j.ent
Strip(idx, S) == LET K == {k \in DOMAIN idx : idx[k] \ S # {}} IN [k \in K |-> idx[k] \ S]
StateVerdict(F, j) ==
    LET st0 == StOf(F, j)
        M == DOMAIN j.idx
        S == Strangers(j)
        st == [st0 EXCEPT !.bc = [m \in M |-> Strip(@[m], S)], !.bt = [m \in M |-> Strip(@[m], S)]]
    IN  IF ~SpawnOK(F, st) THEN Bad("spawn.class", "worldspawn")
        ELSE IF \E m \in M : st.bc[m] # ScanClass(F, st, m)
            THEN Bad("index.class", [m \in M |-> ScanClass(F, st, m)])
        ELSE IF \E m \in M : st.bt[m] # ScanName(F, st, m)
            THEN Bad("index.target", [m \in M |-> ScanName(F, st, m)])
        ELSE IF S # {} THEN Bad("index.stranger", S)
        ELSE IF \E m \in M : ~CanonBc(F, j.idx[m].bc) THEN Bad("direct.class", [m \in M |-> ScanClass(F, st, m)])
        ELSE IF \E m \in M : ~CanonBt(F, j.idx[m].bt) THEN Bad("direct.target", [m \in M |-> ScanName(F, st, m)])
        ELSE Good

\* post.search = <<map, raw stem, star, hits, got>>...
SearchVerdict(F, j) ==
    LET st == StOf(F, j)
        want(s) == Search(F, st, s[1], [stem |-> Fd(F.fold, s[2]), star |-> s[3], hits |-> ToSet(s[4])])
        bad == {k \in DOMAIN j.search : ToSet(j.search[k][5]) # want(j.search[k])}
    IN  IF bad = {} THEN Good
        ELSE LET k == CHOOSE b \in bad : TRUE
             IN  Bad("search", [m |-> j.search[k][1], q |-> j.search[k][2], star |-> j.search[k][3],
                                want |-> want(j.search[k])])

\* --- is the call explained by the model?  NOT a property clause: the property speaks about the
\* agreement of the indexes with the entities after any outcome of a call; whether a call is refused
\* or carried out, with which exception and which return value, is free.  A record whose entity
\* state after the call is neither "carried out as modelled" nor "refused, nothing changed" is
\* only counted ("unexplained"); its post-state is judged like any other.
EntsOK(F, pre, a, r) ==
    LET q == Pad(r.post.ent, DOMAIN pre.ent) IN
    \/ q = pre.ent                                             \* refused / no-op, whatever was raised
    \/ CASE a.op = "clear" ->
            \E c \in {"", "info_null", "worldspawn"} : OClear(F, pre, a.x, c).s.ent = q
      [] a.op = "make_unique" ->      \* the new name is make_unique's business, not the index's
            /\ q = [pre.ent EXCEPT ![a.x].name = q[a.x].name, ![a.x].tk = q[a.x].tk]
            /\ (q[a.x].tk = pre.ent[a.x].tk \/ pre.ent[a.x].tk = "")
      [] a.op = "pop_class" -> OPopClassRemove(F, pre, a.x).s.ent = q
      [] a.op = "update" ->           \* all of it, or the part before a refusal
            Apply(F, pre, a).s.ent = q \/ OSetClass(F, pre, a.x, a.v).s.ent = q
      [] OTHER -> Apply(F, pre, a).s.ent = q

StepVerdict(r) ==
    LET F == FoldOf(r)
        ids == DOMAIN r.pre.ent \cup DOMAIN r.post.ent
        pre == [StOf(F, r.pre) EXCEPT !.ent = Pad(@, ids)]
        a == IF r.k = "iter" THEN r.a.mut ELSE r.a
        sv == StateVerdict(F, r.post)
        qv == SearchVerdict(F, r.post)
    IN  IF ~(CanonSt(F, r.pre) /\ StateVerdict(F, r.pre).ok) THEN Bad("tainted", 0)
        ELSE IF ~sv.ok THEN sv
        ELSE IF ~qv.ok THEN qv
        ELSE IF r.k = "iter" /\ r.exc # "" THEN Bad("iter.exc", r.exc)      \* the ITERATION raised
        ELSE IF r.k = "iter" /\ ~IterOK(Lookup(IF r.a.kind = "class" THEN pre.bc[r.a.m] ELSE pre.bt[r.a.m], r.a.key),
                                        Lookup(IF r.a.kind = "class" THEN StOf(F, r.post).bc[r.a.m]
                                               ELSE StOf(F, r.post).bt[r.a.m], r.a.key), r.got)
            THEN Bad("iter.delivered", 0)
        ELSE IF ~EntsOK(F, pre, a, r) THEN Bad("unexplained", 0)             \* counted, not a verdict
        ELSE Good

\* --- a lookup spanning several buckets (k = "scan") is in progress while one call is made:
\*   r.a = [kind: search_star | search_exact | items_class | items_target, m, stem, star, hits, mut]
\*   r.got = <<key, entity>>... in the order delivered (key = the bucket's key for items_*, "" for
\*   search), the first r.nbefore of them before the call.
\* Matches: the entity, as it is when delivered after the call, still answers the lookup it came from.
ScanMatches(F, st, a, d) ==
    LET x == d[2] IN
    x \in DOMAIN st.ent /\ st.ent[x].home = a.m /\ st.ent[x].inmap /\
    (CASE a.kind = "items_class"  -> Fd(F.fold, st.ent[x].cls) = Fd(F.fold, d[1])
       [] a.kind = "items_target" -> Fd(F.fold, st.ent[x].name) = Fd(F.fold, d[1])
       [] OTHER -> x \in Search(F, st, a.m, [stem |-> Fd(F.fold, a.stem), star |-> a.star, hits |-> ToSet(a.hits)]))
\* were two deliveries read from the same bucket (as filed before the call)?  A search walks the
\* name buckets and, for an exact pattern, the class bucket of that name.
SameBucket(F, pre, a, d, e) ==
    LET x == d[2] y == e[2] IN
    IF x \notin DOMAIN pre.ent \/ y \notin DOMAIN pre.ent THEN FALSE
    ELSE IF a.kind \in {"items_class", "items_target"} THEN Fd(F.fold, d[1]) = Fd(F.fold, e[1])
    ELSE \/ Fd(F.fold, pre.ent[x].name) = Fd(F.fold, pre.ent[y].name)
         \/ (~a.star /\ Fd(F.fold, pre.ent[x].cls) = Fd(F.fold, a.stem) /\ Fd(F.fold, pre.ent[y].cls) = Fd(F.fold, a.stem))
ScanAll(F, st, a) ==
    IF a.kind \in {"items_class", "items_target"} THEN InMap(st, a.m)
    ELSE Search(F, st, a.m, [stem |-> Fd(F.fold, a.stem), star |-> a.star, hits |-> ToSet(a.hits)])
ScanVerdict(r) ==
    LET F == FoldOf(r)
        ids == DOMAIN r.pre.ent \cup DOMAIN r.post.ent
        pre == [StOf(F, r.pre) EXCEPT !.ent = Pad(@, ids)]
        post == [StOf(F, r.post) EXCEPT !.ent = Pad(@, ids)]
        sv == StateVerdict(F, r.post)
        after == {k \in DOMAIN r.got : k > r.nbefore}
        \* the bucket being walked when the call was made: CopySet hands out what it held when its
        \* iteration began, so its remaining members may still come (the statement's "iterating while
        \* mutating" is about not failing and not losing anyone); every OTHER bucket is read after the call
        stale == {k \in after : /\ ~ScanMatches(F, post, r.a, r.got[k])
                                 /\ ~(r.nbefore > 0 /\ SameBucket(F, pre, r.a, r.got[k], r.got[r.nbefore]))}
        delivered == {r.got[k][2] : k \in DOMAIN r.got}
    IN  IF ~(CanonSt(F, r.pre) /\ StateVerdict(F, r.pre).ok) THEN Bad("tainted", 0)
        ELSE IF ~sv.ok THEN sv
        ELSE IF r.exc # "" THEN Bad("iter.exc", r.exc)
        ELSE IF stale # {} THEN Bad("iter.stale", [delivered |-> {r.got[k] : k \in stale}, nbefore |-> r.nbefore])
        \* everybody the call did not touch and who answers the lookup before and after it is delivered
        \* (the entity the call re-files may be missed: the buckets are read as they are when reached)
        ELSE IF ~(((ScanAll(F, pre, r.a) \cap ScanAll(F, post, r.a)) \ {r.a.mut.x}) \subseteq delivered)
            THEN Bad("iter.delivered", (ScanAll(F, pre, r.a) \cap ScanAll(F, post, r.a)) \ delivered)
        ELSE IF ~EntsOK(F, pre, r.a.mut, r) THEN Bad("unexplained", 0)
        ELSE Good

\* a state that is not the result of a modelled call (e.g. straight after VMF.parse)
OnlyState(r) ==
    LET F == FoldOf(r) sv == StateVerdict(F, r.post) IN IF ~sv.ok THEN sv ELSE SearchVerdict(F, r.post)

Verdict(r) == CASE r.k = "step" -> StepVerdict(r)
                [] r.k = "iter" -> StepVerdict(r)
                [] r.k = "scan" -> ScanVerdict(r)
                [] r.k = "state" -> OnlyState(r)

Init == i = 0
Next == i < N /\ i' = i + 1
Checked == i = 0 \/ LET v == Verdict(Recs[i]) IN
              v.ok \/ PrintT(ToJson([tag |-> "MISMATCH", i |-> i, clause |-> v.clause, exp |-> v.exp]))
AllConsumed == TLCGet("stats").diameter = N + 1
=============================================================================
