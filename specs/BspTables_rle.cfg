INIT RleInit
NEXT RleNext
CONSTANTS
  Items = {"x1"}
  MaxLen = 1
  MaxSub = 1
INVARIANT RleInverse
INVARIANT RleCodeOK
INVARIANT RleInLump
INVARIANT RleTruncates
INVARIANT VisSeqOK
CHECK_DEADLOCK FALSE
