SPECIFICATION Spec
CONSTANTS
  MaxAcc = 0
  TrackAcc = FALSE
  MaxSaves = 0
INVARIANT TypeOK
INVARIANT LosslessInv
INVARIANT CacheEmptyInv
INVARIANT OtherInv
INVARIANT ClosedInv
INVARIANT OrderIrrelevant
INVARIANT UserPhaseInv
INVARIANT SaveRefines
PROPERTY Untouched
VIEW View
CHECK_DEADLOCK FALSE
ACTION_CONSTRAINT Emit
