SPECIFICATION Spec
CONSTANTS
  MaxEnts = 1
  MaxSolids = 1
  MaxSides = 7
  MaxOuts = 1
  MaxVis = 2
  MaxGroups = 1
  MaxCams = 1
  MaxCordons = 1
  Lens = {3}
  WithHist = FALSE
  OptChoices <- OptMc2
  Rich = FALSE
INVARIANT FixedPoint
INVARIANT NoLoss
INVARIANT UniqueIds
INVARIANT QuantIdem
PROPERTY AgainStutters
VIEW View
CHECK_DEADLOCK FALSE
