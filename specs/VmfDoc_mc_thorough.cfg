SPECIFICATION Spec
CONSTANTS
  MaxEnts = 1
  MaxSolids = 1
  MaxSides = 7
  MaxOuts = 1
  MaxVis = 3
  MaxGroups = 2
  MaxCams = 1
  MaxCordons = 1
  Lens = {2}
  WithHist = FALSE
  OptChoices <- OptMc
  Rich = TRUE
INVARIANT FixedPoint
INVARIANT NoLoss
INVARIANT UniqueIds
INVARIANT QuantIdem
PROPERTY AgainStutters
VIEW View
CHECK_DEADLOCK FALSE
