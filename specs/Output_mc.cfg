SPECIFICATION Spec
CONSTANTS
  Texts <- TextsDef
  Insts <- InstsDef
INVARIANT Law
CHECK_DEADLOCK FALSE
