--------------------------- MODULE AtomicWriteTrace ---------------------------
(* Validates traces logged from the real srctools.AtomicWriter / BSP.save runs   *)
(* against AtomicWriteOps.  One record = one run in a fresh directory:           *)
(*   init  [dir, orig, stale, faults]   the directory before the run             *)
(*   ev    the logged events in order; each carries ls, the directory as it was  *)
(*         observed immediately before the event; the last event is "post" (the  *)
(*         directory after everything, seen by the parent process)               *)
(*   plan  (optional, Len > 0) the TLC-generated schedule the run was driven by  *)
(* Every event must be a step the design can take from the state reached so far  *)
(* (Guard), and the observed directory must equal the design's directory         *)
(* (Visible).  A crash is logged by the harness because it injected it; nothing  *)
(* else of the writer appears after it.  The first disagreement of a run is      *)
(* printed as a MISMATCH line; TLC never stops on it.                            *)
(*                                                                              *)
(* With cfg AtomicWritePlan the same walk is used to let TLC enumerate the       *)
(* injection points of a fault-free reference run: every boundary where Crash    *)
(* is enabled, every operation that may fail, every point the body may raise.    *)
EXTENDS AtomicWriteOps, TLC, Json, IOUtils, SequencesExt

Recs == ndJsonDeserialize(IOEnv.TRACE_FILE)
N == Len(Recs)
VARIABLE i

InitSt(r) == [dir |-> r.init.dir, dest |-> r.init.orig,
              tmp |-> [k \in ToSet(r.init.stale) |-> [owner |-> "stale", data |-> TRUE]],
              wr |-> [w \in DOMAIN r.init.orig |-> [NewWriter EXCEPT !.base = r.init.orig[w]]],
              faults |-> r.init.faults]
LsOf(j) == [dir |-> j.dir, d |-> j.d, tmp |-> {<<j.tmp[k][1], j.tmp[k][2]>> : k \in 1..Len(j.tmp)}]
\* Visible(st) in a JSON-printable shape
Show(st) == [dir |-> st.dir, d |-> st.dest,
             tmp |-> {<<k, st.tmp[k].data>> : k \in DOMAIN st.tmp},
             pc |-> [w \in DOMAIN st.wr |-> st.wr[w].pc]]

Bad(c, k, st, w) == [ok |-> FALSE, clause |-> c,
                     exp |-> [k |-> k, pc |-> IF w \in DOMAIN st.wr THEN st.wr[w].pc ELSE "", st |-> Show(st)]]
Good == [ok |-> TRUE, clause |-> "", exp |-> 0]

\* one event: acc = [st, k, v]; v stays Good until the first disagreement, then nothing is judged any more
StepEv(acc, e, n, orig) ==
    LET st == acc.st  k == acc.k IN
    IF ~acc.v.ok THEN acc
    \* the harness could not bring the run to an end (a writer blocked for ever, the child process lost):
    \* what was observed up to here has been judged with the real clauses; the hang itself violates nothing
    \* C12 states and is only counted (clauses named diag.* are diagnostics, not violations)
    ELSE IF e.op = "stuck" THEN [acc EXCEPT !.v = Bad("diag.run.hang", k, st, "")]
    ELSE IF Len(e.ls.other) # 0 THEN [acc EXCEPT !.v = Bad("ls.other", k, st, e.w)]
    ELSE IF LsOf(e.ls) # Visible(st) THEN [acc EXCEPT !.v = Bad(IF e.op = "post" THEN "post.ls" ELSE "ls", k, st, e.w)]
    ELSE IF e.op = "post" THEN
         (IF k # n THEN [acc EXCEPT !.v = Bad("post.notlast", k, st, "")]
          ELSE IF \E w \in DOMAIN st.wr : ~(st.wr[w].ret \/ st.wr[w].pc = "dead")
               THEN [acc EXCEPT !.v = Bad("post.unfinished", k, st, "")]
          ELSE [acc EXCEPT !.k = k + 1])
    ELSE LET g == Guard(st, e) IN
         IF g # "" THEN [acc EXCEPT !.v = Bad(g, k, st, e.w)]
         ELSE LET s2 == Apply(st, e) IN
              IF ~DestIntact(s2) THEN [acc EXCEPT !.v = Bad("prop.dest", k, s2, e.w)]
              ELSE IF ~FailedClean(s2) THEN [acc EXCEPT !.v = Bad("prop.failed", k, s2, e.w)]
              ELSE IF ~DoneNew(s2) THEN [acc EXCEPT !.v = Bad("prop.done", k, s2, e.w)]
              ELSE IF ~(NoSharedTemp(s2) /\ HoldsOwn(s2)) THEN [acc EXCEPT !.v = Bad("prop.temps", k, s2, e.w)]
              ELSE [st |-> s2, k |-> k + 1, v |-> Good]

Walk(st0, evs, orig) ==
    LET n == Len(evs)
        r == FoldLeft(LAMBDA acc, e : StepEv(acc, e, n, orig), [st |-> st0, k |-> 1, v |-> Good], evs) IN
    IF ~r.v.ok THEN r.v
    ELSE IF n = 0 \/ evs[n].op # "post" THEN Bad("post.missing", n, r.st, "")
    ELSE Good

\* (a run that is accepted but did not follow its schedule r.plan exactly - the io stack retried a
\* write, say - is still a behaviour of the design; how many runs followed exactly is only counted)
Verdict(r) == Walk(InitSt(r), r.ev, r.init.orig)

Init == i = 0
Next == i < N /\ i' = i + 1
Checked == i = 0 \/ LET v == Verdict(Recs[i]) IN
              v.ok \/ PrintT(ToJson([tag |-> "MISMATCH", i |-> i, clause |-> v.clause, exp |-> v.exp]))
AllConsumed == TLCGet("stats").diameter = N + 1

(* ---- injection points of a reference run ---------------------------------------------- *)
\* states before each event (reference runs are accepted runs: guards hold)
StatesOf(st0, evs) ==
    FoldLeft(LAMBDA acc, e : IF e.op = "post" THEN acc ELSE Append(acc, Apply(acc[Len(acc)], e)), <<st0>>, evs)
Faultable == {"mkdir", "open", "write", "close", "replace", "unlink"}
Points(r) ==
    LET sts == StatesOf(InitSt(r), r.ev)
        one == [InitSt(r) EXCEPT !.faults = 1] IN
    {[k |-> k, kind |-> "crash", op |-> r.ev[k].op, pc |-> sts[k].wr[r.ev[k].w].pc] :
        k \in {j \in 1..(Len(sts) - 1) : Guard(sts[j], [r.ev[j] EXCEPT !.op = "crash"]) = ""}}
    \cup
    {[k |-> k, kind |-> "fault", op |-> r.ev[k].op, pc |-> sts[k].wr[r.ev[k].w].pc] :
        k \in {j \in 1..(Len(sts) - 1) : r.ev[j].op \in Faultable
                    /\ Guard([sts[j] EXCEPT !.faults = 1], [r.ev[j] EXCEPT !.res = "fault"]) = ""}}
    \cup
    {[k |-> k, kind |-> "bodyerr", op |-> r.ev[k].op, pc |-> sts[k].wr[r.ev[k].w].pc] :
        k \in {j \in 1..(Len(sts) - 1) : r.ev[j].op \in {"bcall", "endbody"}
                    /\ Guard(sts[j], [r.ev[j] EXCEPT !.op = "bodyerr"]) = ""}}
\* (a reference run that is not accepted is reported by the validation of the records; no points then)
PlanEmit == i = 0 \/ LET r == Recs[i] v == Verdict(r) IN
              IF v.ok THEN PrintT(ToJson([tag |-> "POINTS", i |-> i, t |-> r.t, points |-> Points(r)]))
              ELSE PrintT(ToJson([tag |-> "REFBAD", i |-> i, t |-> r.t, clause |-> v.clause]))
=============================================================================
