---------------------------- MODULE SecondaryTrace ----------------------------
(* Validates records logged from the real secondary-format writers and readers *)
(* against SecondaryOps.  Every failing clause is printed, never fatal.        *)
(*   rt      one value: built, written, read, written again                    *)
(*   sample  a file of the repository: read, written, read again               *)
(*   image   one step of the scenes.image container on real objects, with the  *)
(*           projected dictionary before and after and, for Save/Load, the     *)
(*           harness's own decoding of the file's header, table and summaries  *)
EXTENDS SecondaryOps, Json, IOUtils

Recs == ndJsonDeserialize(IOEnv.TRACE_FILE)
N == Len(Recs)
VARIABLE i

F(c, e) == [clause |-> c, exp |-> ToJson(e)]
StartsWith(s, p) == Len(s) >= Len(p) /\ SubSeq(s, 1, Len(p)) = p

ValueFails(prefix, got, want) ==
    IF DOMAIN got # DOMAIN want THEN {F(prefix \o ".fields", DOMAIN want)}
    ELSE {F(prefix \o "." \o f, want[f]) : f \in {f \in DOMAIN want : got[f] # want[f]}}

RtFails(r) ==
    IF StartsWith(r.err, "build:") THEN {F("rt.build", r.err)}
    ELSE IF ~Representable(r.fmt, r.orig, r.chars)
    THEN (IF StartsWith(r.err, "write:") THEN {} ELSE {F("rt.refuse", "the writer must reject the value")})
    ELSE IF StartsWith(r.err, "write:") THEN {F("rt.write", "no error")}
    ELSE UNION {
        \* (the byte layout is the writer's: CmdSeqSize in SecondaryOps documents today's, it is not demanded)
        IF StartsWith(r.err, "read:") THEN {F("rt.read", "no error")}
        ELSE IF r.fmt = "pcf"
        THEN UNION {ValueFails("rt.value", r.back, r.orig),     \* (the reader no longer lists 'name' among the options)
                    IF r.h2 # r.h1 THEN {F("rt.second", r.h1)} ELSE {}}
        ELSE UNION {ValueFails("rt.value", r.back, Decay(r.fmt, r.orig)),
                    IF r.h2 # r.h1 THEN {F("rt.second", r.h1)} ELSE {}}}

SampleFails(r) ==
    IF r.err # "" THEN {F("sample.error", "no error")}
    ELSE UNION {ValueFails("sample.value", r.second, Decay(r.fmt, r.first)),
                IF r.h2 # r.h1 THEN {F("sample.second", r.h1)} ELSE {}}

(* ---- the container -------------------------------------------------------- *)
Keys(st) == DOMAIN st
Summ(e) == [dur |-> e.dur, speak |-> e.speak, sounds |-> SeqSet(e.sounds)]
Unchanged(pre, post, except) ==
    /\ Keys(post) \ except = Keys(pre) \ except
    /\ \A k \in Keys(pre) \ except : post[k] = pre[k]
\* the saved table goes by the entries' own checksums (own_crc), not by the dictionary keys
FileFails(file, pre, ver) ==
    LET t == file.table
        crcs == {pre[k].own_crc : k \in Keys(pre)} IN UNION {
        IF file.magic # "VSIF" \/ file.version # ver THEN {F("image.header", ver)} ELSE {},
        IF file.count # Cardinality(Keys(pre)) \/ Len(t) # file.count THEN {F("image.count", Cardinality(Keys(pre)))} ELSE {},
        IF \E j \in 1..(Len(t) - 1) : ~CrcLess(t[j].crc, t[j + 1].crc) THEN {F("image.sorted", "strictly ascending checksums")} ELSE {},
        IF {t[j].crc : j \in 1..Len(t)} # crcs THEN {F("image.checksums", crcs)} ELSE {},
        {F("image.summary", [k |-> k, dur |-> pre[k].dur, speak |-> IF ver = 3 THEN pre[k].speak ELSE 0 - 1, sounds |-> pre[k].sounds]) :
            k \in {k \in Keys(pre) : \E j \in 1..Len(t) : t[j].crc = pre[k].own_crc /\
                      (t[j].dur # pre[k].dur \/ t[j].sounds # pre[k].sounds
                       \/ t[j].speak # (IF ver = 3 THEN pre[k].speak ELSE 0 - 1))}}}
\* what loading a decoded file gives for one row
Loaded(row, ver) == [crc |-> row.crc, own_crc |-> row.crc, dur |-> row.dur,
                     speak |-> IF ver = 3 THEN row.speak ELSE row.dur, sounds |-> row.sounds,
                     parsed |-> FALSE, named |-> FALSE]
LoadFails(r, base) ==
    LET f == r.res.slotfile
        rows == {f.table[j] : j \in 1..Len(f.table)}
        got == {r.post[k] : k \in Keys(r.post)}
        want == {Loaded(row, f.version) : row \in rows}
                \cup {base[k] : k \in {k \in Keys(base) : ~\E row \in rows : row.crc = base[k].crc}}
    IN  IF got # want THEN {F("image.load", Cardinality(want))} ELSE {}

ImageFails(r) ==
    LET a == r.a  pre == r.pre  post == r.post IN
    IF r.res.exc # "" THEN {F("image.raises", "no error")}
    ELSE CASE a.op = "add" ->
            LET want == Summary(r.scenes[a.s]) IN UNION {
                IF a.k \notin Keys(post) THEN {F("image.add", a.k)}
                ELSE UNION {
                    IF Summ(post[a.k]) # want THEN {F("image.summary", want)} ELSE {},
                    IF ~post[a.k].parsed \/ ~post[a.k].named THEN {F("image.add.form", TRUE)} ELSE {},
                    IF post[a.k].crc # post[a.k].own_crc \/ post[a.k].own_crc # r.res.want_crc
                        THEN {F("image.add.checksum", r.res.want_crc)} ELSE {},
                    \* another spelling of the file name is the same entry
                    IF a.k \in Keys(pre) /\ pre[a.k].crc # post[a.k].crc THEN {F("image.add.normalise", pre[a.k].crc)} ELSE {}},
                IF ~Unchanged(pre, post, {a.k}) THEN {F("image.frame", a.k)} ELSE {}}
          [] a.op = "drop" -> IF a.k \in Keys(post) \/ ~Unchanged(pre, post, {a.k}) THEN {F("image.drop", a.k)} ELSE {}
          [] a.op = "rename" ->
                \* the entry's checksum is the new name's, its place in the dictionary and all else stay
                IF a.k \notin Keys(post) \/ ~Unchanged(pre, post, {a.k})
                   \/ post[a.k] # [pre[a.k] EXCEPT !.own_crc = r.res.want_crc, !.named = TRUE]
                THEN {F("image.rename", r.res.want_crc)} ELSE {}
          [] a.op = "save" -> UNION {FileFails(r.res.file, pre, a.ver),
                                     IF post # pre THEN {F("image.save.frame", "dictionary unchanged")} ELSE {},
                                     \* the file read back and written again is the same file
                                     IF r.res.h2 # r.res.h1 THEN {F("image.rewrite", r.res.h1)} ELSE {}}
          [] a.op = "load" -> LoadFails(r, [k \in {} |-> 0])
          [] a.op = "merge" -> LoadFails(r, pre)
          [] a.op = "touch" -> UNION {
                IF a.k \notin Keys(post) \/ ~post[a.k].parsed \/ ~Unchanged(pre, post, {a.k})
                   \/ post[a.k] # [pre[a.k] EXCEPT !.parsed = TRUE] THEN {F("image.touch", a.k)} ELSE {},
                ValueFails("image.scene", r.res.scene, BinScene(r.res.want_scene))}

(* ---- the container's string encoding ------------------------------------- *)
\* two scenes whose strings are all of one character class, saved with one encoding argument
\* (or none), decoded by the harness (Latin-1) and read by the real reader
ImgEncFails(r) ==
    IF ~ImageWritable(r.enc, r.chars)
    THEN (IF StartsWith(r.err, "write:UnicodeEncodeError") THEN {} ELSE {F("imgenc.refuse", "UnicodeEncodeError")})
    ELSE IF StartsWith(r.err, "write:") THEN {F("imgenc.write", "no error")}
    ELSE IF ~ImageRoundTrips(r.enc, r.chars) THEN {}
    ELSE IF r.err # "" THEN {F("imgenc.read", "no error")}
    ELSE UNION {
        IF r.read_sounds # r.want_sounds THEN {F("imgenc.read_sounds", r.want_sounds)} ELSE {},
        UNION {ValueFails("imgenc.scene", r.read_scenes[k], BinScene(r.want_scenes[k])) : k \in 1..Len(r.want_scenes)}}

Fails(r) == CASE r.k = "rt" -> RtFails(r)
              [] r.k = "imgenc" -> ImgEncFails(r)
              [] r.k = "sample" -> SampleFails(r)
              [] r.k = "image" -> ImageFails(r)

Init == i = 0
Next == i < N /\ i' = i + 1
Checked == i = 0 \/ \A f \in Fails(Recs[i]) :
              PrintT(ToJson([tag |-> "MISMATCH", i |-> i, clause |-> f.clause, exp |-> f.exp]))
AllConsumed == TLCGet("stats").diameter = N + 1
=============================================================================
