------------------------------- MODULE AliasOps -------------------------------
(* C09.  The class schemas of the map objects (which fields an Entity / Solid /  *)
(* Side / Output / VisGroup / Keyvalues and their parts have, and what kind of   *)
(* heap cell each field holds) and the design of copying: a copy owns a fresh    *)
(* cell for everything mutable reachable from the source, and every field is     *)
(* carried over (IDs are assigned afresh, the map is the target map).            *)
(* Used by the model (Alias) and by the validator of real heap walks (AliasTrace).*)
EXTENDS Integers, FiniteSets, Sequences, TLC

Range(q) == {q[i] : i \in DOMAIN q}

(* kinds of field                                                               *)
(*   "s"    immutable value (str, number, bool, enum, None, frozen tuple type)  *)
(*   "id"   the object's ID: a copy gets its own                                *)
(*   "ctx"  the VMF the object lives in: not part of the object                 *)
(*   "vec"  a mutable Vec cell          "arr" a mutable array cell             *)
(*   "set"  a mutable set of numbers    "dict" a mutable dict str -> str       *)
(*   "obj"  a sub-object of class c     "objs" a list cell of sub-objects      *)
(*   "vecs" a list cell of Vec cells    "omap" a dict cell of sub-objects      *)
(*   "kv"   Keyvalues._value: a string (leaf) or a list cell of Keyvalues      *)
(* opt : the optional block the content belongs to ("" = always there)          *)
(* none: TRUE  = the field is None when the block is absent                     *)
(*       FALSE = the container is there but empty when the block is absent      *)
Fld(k, c, opt, none) == [k |-> k, c |-> c, opt |-> opt, none |-> none]
S == Fld("s", "", "", FALSE)

Schema == [
  Entity |-> [map |-> Fld("ctx", "", "", FALSE), _keys |-> Fld("dict", "", "", FALSE),
              outputs |-> Fld("objs", "Output", "outs", FALSE), solids |-> Fld("objs", "Solid", "brush", FALSE),
              id |-> Fld("id", "", "", FALSE), hidden |-> S, groups |-> Fld("set", "", "", FALSE),
              visgroup_ids |-> Fld("set", "", "", FALSE), vis_shown |-> S, vis_auto_shown |-> S,
              editor_color |-> Fld("vec", "", "", FALSE), logical_pos |-> S, comments |-> S,
              _fixup |-> Fld("obj", "EntityFixup", "fix", TRUE)],
  EntityFixup |-> [_fixup |-> Fld("omap", "FixupValue", "", FALSE), _matcher |-> S],
  FixupValue |-> [var |-> S, value |-> S, id |-> S],
  Output |-> [output |-> S, inst_out |-> S, target |-> S, input |-> S, inst_in |-> S, params |-> S,
              delay |-> S, times |-> S, comma_sep |-> S],
  Solid |-> [map |-> Fld("ctx", "", "", FALSE), id |-> Fld("id", "", "", FALSE),
             sides |-> Fld("objs", "Side", "", FALSE), visgroup_ids |-> Fld("set", "", "", FALSE), hidden |-> S,
             group_id |-> S, vis_shown |-> S, vis_auto_shown |-> S, is_cordon |-> S,
             editor_color |-> Fld("vec", "", "", FALSE)],
  Side |-> [map |-> Fld("ctx", "", "", FALSE), planes |-> Fld("vecs", "", "", FALSE), id |-> Fld("id", "", "", FALSE),
            lightmap |-> S, smooth |-> S, mat |-> S, ham_rot |-> S,
            uaxis |-> Fld("obj", "UVAxis", "", FALSE), vaxis |-> Fld("obj", "UVAxis", "", FALSE),
            strata_points |-> Fld("vecs", "", "strata", TRUE), disp_power |-> S,
            disp_pos |-> Fld("vec", "", "disp", TRUE), disp_elevation |-> S, disp_flags |-> S,
            disp_allowed_vert |-> Fld("arr", "", "disp", TRUE),
            _disp_verts |-> Fld("objs", "DispVertex", "disp", TRUE)],
  DispVertex |-> [x |-> S, y |-> S, normal |-> Fld("vec", "", "", FALSE), distance |-> S,
                  offset |-> Fld("vec", "", "", FALSE), offset_norm |-> Fld("vec", "", "", FALSE), alpha |-> S,
                  triangle_a |-> S, triangle_b |-> S, multi_blend |-> S, multi_alpha |-> S,
                  multi_colors |-> Fld("vecs", "", "multi", TRUE)],
  UVAxis |-> [x |-> S, y |-> S, z |-> S, offset |-> S, scale |-> S],
  VisGroup |-> [vmf |-> Fld("ctx", "", "", FALSE), name |-> S, id |-> Fld("id", "", "", FALSE),
                color |-> Fld("vec", "", "", FALSE), child_groups |-> Fld("objs", "VisGroup", "kids", FALSE)],
  Keyvalues |-> [_folded_name |-> S, _real_name |-> S, _value |-> Fld("kv", "Keyvalues", "", FALSE), line_num |-> S],
  EntityGroup |-> [vmf |-> Fld("ctx", "", "", FALSE), id |-> Fld("id", "", "", FALSE), shown |-> S, auto_shown |-> S,
                   color |-> Fld("vec", "", "", FALSE)],
  Camera |-> [pos |-> Fld("vec", "", "", FALSE), target |-> Fld("vec", "", "", FALSE), map |-> Fld("ctx", "", "", FALSE)],
  Cordon |-> [map |-> Fld("ctx", "", "", FALSE), name |-> S, bounds_min |-> Fld("vec", "", "", FALSE),
              bounds_max |-> Fld("vec", "", "", FALSE), active |-> S]
]
Classes == DOMAIN Schema
Fields(c) == DOMAIN Schema[c]

\* kinds whose slot holds a mutable cell of its own (the object that has fields is a cell too)
CellKinds == {"vec", "arr", "set", "dict", "obj", "objs", "vecs", "omap"}
\* the type a heap walk reports for a present field of each kind
WalkType(k, c) == CASE k = "s" -> {"scalar"} [] k = "id" -> {"scalar"} [] k = "ctx" -> {"VMF"}
                    [] k = "vec" -> {"Vec"} [] k = "arr" -> {"Array"} [] k = "set" -> {"set"}
                    [] k = "dict" -> {"dict"} [] k = "obj" -> {c} [] k = "objs" -> {"list"}
                    [] k = "vecs" -> {"list"} [] k = "omap" -> {"dict"} [] k = "kv" -> {"scalar", "list"}
\* keys of the exported text that carry an object's own ID
ExportIdKeys(root) == IF root = "VisGroup" THEN {"visgroupid"} ELSE {"id"}

(* ---- abstract objects: the slots of an object of class c with blocks o ------ *)
\* A slot is [p |-> path (sequence of strings), k |-> kind, c |-> class of the object/element].
\* Lists get two elements "0" and "1" when their block is present.
Has(o, opt) == opt = "" \/ opt \in o
Elems == {"0", "1"}
RECURSIVE Slots(_, _, _, _)
FieldSlots(c, o, f, pre, d) ==
    LET fd == Schema[c][f]
        p == Append(pre, f)
        here == {[p |-> p, k |-> fd.k, c |-> fd.c]}
    IN  IF ~Has(o, fd.opt) /\ fd.none THEN {[p |-> p, k |-> "s", c |-> ""]}        \* None
        ELSE IF fd.k = "obj" THEN here \cup Slots(fd.c, o, p, d)
        ELSE IF fd.k \in {"objs", "omap"} THEN
            here \cup (IF Has(o, fd.opt) /\ d > 0
                       THEN UNION {{[p |-> Append(p, i), k |-> "obj", c |-> fd.c]} \cup Slots(fd.c, o, Append(p, i), d - 1) : i \in Elems}
                       ELSE {})
        ELSE IF fd.k = "vecs" THEN
            here \cup (IF Has(o, fd.opt) THEN {[p |-> Append(p, i), k |-> "vec", c |-> ""] : i \in Elems} ELSE {})
        ELSE IF fd.k = "kv" THEN
            (IF "leaf" \in o \/ d = 0 THEN {[p |-> p, k |-> "s", c |-> ""]}
             ELSE {[p |-> p, k |-> "objs", c |-> "Keyvalues"]}
                  \cup UNION {{[p |-> Append(p, i), k |-> "obj", c |-> "Keyvalues"]}
                              \cup Slots("Keyvalues", IF "nested" \in o /\ i = "1" THEN o ELSE o \cup {"leaf"},
                                         Append(p, i), d - 1) : i \in Elems})
        ELSE here
Slots(c, o, pre, d) == UNION {FieldSlots(c, o, f, pre, d) : f \in Fields(c)}

\* every slot of a root object (the root itself is the cell <<"$">>)
Depth == [Entity |-> 3, Solid |-> 2, Side |-> 1, Output |-> 0, VisGroup |-> 2, Keyvalues |-> 2,
          EntityGroup |-> 0, Camera |-> 0, Cordon |-> 0, UVAxis |-> 0, EntityFixup |-> 1]
ObjSlots(c, o) == {[p |-> <<"$">>, k |-> "obj", c |-> c]} \cup Slots(c, o, <<"$">>, Depth[c])
MutOf(SL) == {s \in SL : s.k \in CellKinds}
IdOf(SL) == {s \in SL : s.k = "id"}
CtxOf(SL) == {s \in SL : s.k = "ctx"}
\* a slot's content appears in the exported text unless it is context or an ID
ExportedOf(SL) == {s.p : s \in {t \in SL : t.k \notin {"ctx", "id"}}}

(* ---- the design of copy ------------------------------------------------------ *)
\* SL = ObjSlots(class, blocks).  heap h = [val |-> [side -> [path -> Nat]], ref |-> [path -> side]]:
\* the copy's slot p refers to the cell (ref[p], p).  A deep copy gives every mutable slot of the
\* copy its own cell.
CopyVal(SL, v, how) ==
    LET ids == {s.p : s \in IdOf(SL)} ctx == {s.p : s \in CtxOf(SL)} IN
    [p \in DOMAIN v |->
        IF p \in ids THEN v[p] + 100          \* fresh ID
        ELSE IF p \in ctx THEN (IF how = "other" THEN 2 ELSE v[p])
        ELSE v[p]]
DeepRef(SL) == [p \in {s.p : s \in SL} |-> "c"]

\* what the export of a side shows: the content of every exported slot, read through the references
Export(SL, h, side) ==
    [p \in ExportedOf(SL) |-> IF side = "o" THEN h.val["o"][p] ELSE h.val[h.ref[p]][p]]
\* the cells reachable from a side
Reach(SL, h, side) == {<<IF side = "o" THEN "o" ELSE h.ref[s.p], s.p>> : s \in MutOf(SL)}

\* in-place mutation of the cell behind slot p of a side
Mutate(h, side, p) ==
    LET owner == IF side = "o" THEN "o" ELSE h.ref[p]
    IN  [h EXCEPT !.val[owner][p] = @ + 1]

(* ---- methods that mutate in place: the slots they touch ---------------------- *)
Last(p) == p[Len(p)]
Has2(p, names) == \E i \in DOMAIN p : p[i] \in names
Touch(SL, meth) ==
    LET M == MutOf(SL) IN
    CASE meth = "translate" -> {s.p : s \in {t \in M : (t.k = "vec" /\ Has2(t.p, {"planes"}))
                                                       \/ (t.k = "obj" /\ Last(t.p) \in {"uaxis", "vaxis"})}}
      [] meth = "localise" -> {s.p : s \in {t \in M : (t.k = "vec" /\ Has2(t.p, {"planes"}))
                                                      \/ (t.k = "obj" /\ t.c = "Side")
                                                      \/ (t.k = "vec" /\ Last(t.p) \in {"disp_pos", "offset", "normal", "offset_norm"})}}
      [] meth = "key_edit" -> {s.p : s \in {t \in M : Len(t.p) = 2 /\ Last(t.p) \in {"_keys", "_value"}}}
      [] meth = "fixup_edit" -> {s.p : s \in {t \in M : Len(t.p) >= 2 /\ t.p[2] = "_fixup"}}
      [] meth = "vertex_edit" -> {s.p : s \in {t \in M : Has2(t.p, {"_disp_verts", "disp_allowed_vert"})}}
      [] meth = "out_edit" -> {s.p : s \in {t \in M : t.c = "Output" /\ t.k = "obj"}}
      [] meth = "vis_edit" -> {s.p : s \in {t \in M : Last(t.p) \in {"visgroup_ids", "color", "child_groups", "editor_color"}}}
RECURSIVE MutateAll(_, _, _)
MutateAll(h, side, ps) == IF ps = {} THEN h
                          ELSE LET p == CHOOSE q \in ps : TRUE IN MutateAll(Mutate(h, side, p), side, ps \ {p})

(* ---- operators documented as producing a new value ---------------------------- *)
\* <<operator, left operand type, right operand type>>; the result is a fresh value, the operands
\* keep their content
OpTable == {
    <<"+", "Keyvalues", "KVRoot">>, <<"+", "Keyvalues", "list">>, <<"+", "KVRoot", "list">>, <<"+", "Keyvalues", "Keyvalues">>,
    <<"+", "Vec", "Vec">>, <<"-", "Vec", "Vec">>, <<"*", "Vec", "float">>, <<"*", "float", "Vec">>,
    <<"/", "Vec", "float">>, <<"//", "Vec", "float">>, <<"%", "Vec", "float">>, <<"neg", "Vec", "">>,
    <<"abs", "Vec", "">>, <<"round", "Vec", "">>, <<"+", "Vec", "tuple">>, <<"+", "tuple", "Vec">>, <<"-", "tuple", "Vec">>,
    <<"@", "Vec", "Angle">>, <<"@", "Vec", "Matrix">>, <<"@", "Angle", "Angle">>, <<"@", "Angle", "Matrix">>,
    <<"@", "Matrix", "Matrix">>, <<"@", "Matrix", "Angle">>, <<"*", "Angle", "float">>, <<"*", "float", "Angle">>,
    <<"@", "tuple", "Angle">>, <<"@", "tuple", "Matrix">>,
    <<"+", "FrozenVec", "Vec">>, <<"+", "Vec", "FrozenVec">>, <<"@", "FrozenVec", "Matrix">>,
    <<"@", "FrozenMatrix", "Matrix">>, <<"@", "Matrix", "FrozenMatrix">>, <<"@", "FrozenMatrix", "FrozenMatrix">>,
    <<"@", "FrozenMatrix", "Angle">>, <<"@", "FrozenAngle", "Angle">>, <<"@", "FrozenAngle", "Matrix">>,
    <<"@", "Vec", "FrozenMatrix">>, <<"@", "Vec", "FrozenAngle">>, <<"cross", "Vec", "Vec">>
}
=============================================================================
