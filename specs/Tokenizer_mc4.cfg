SPECIFICATION Spec
CONSTANTS
  Kind = "family"
  Alphabet <- Alpha17
  MaxLen = 4
  Base <- TokDefaults
  EdgeOpts <- EdgeOptSets
  ChunkLen = 3
  ChunkEmpty = 1
  IrrLen = 2
INVARIANT StepBound
INVARIANT NoDoubleRewind
INVARIANT EndsAtEof
INVARIANT StepDefined
INVARIANT EofForEver
INVARIANT ErrOnce
INVARIANT NoErrEarly
INVARIANT TokLines
INVARIANT LineBound
INVARIANT TokShape
INVARIANT LexIsMachine
INVARIANT ChunkIndep
INVARIANT OptIrrelevant
PROPERTY LineMonotone
CHECK_DEADLOCK FALSE
