SPECIFICATION Spec
CONSTANTS
  Texts <- TextsDef
  Insts <- InstsDef
INVARIANT Law
ACTION_CONSTRAINT Emit
CHECK_DEADLOCK FALSE
