------------------------------ MODULE CursorOps ------------------------------
(* The character cursor of srctools.tokenizer.Tokenizer: _cur_chunk,           *)
(* _char_index and the chunk iterator (_next_char, and the "index -= 1" rewind  *)
(* the lexer uses to have a character delivered again).                         *)
(*   cs = [chunks |-> the chunks the iterator will yield, it |-> how many of    *)
(*         them were taken, cur |-> the current chunk, idx |-> _char_index,     *)
(*         ci |-> which chunk cur is (0: the initial one; ghost)]               *)
(* A text given as one str is the current chunk of a cursor with no iterator.   *)
EXTENDS Integers, Sequences

CEof == 0 - 1

CStr(text) == [chunks |-> <<>>, it |-> 0, cur |-> text, idx |-> 0 - 1, ci |-> 0]
CIter(chunks) == [chunks |-> chunks, it |-> 0, cur |-> <<>>, idx |-> 0 - 1, ci |-> 0]

\* the next non-empty chunk after position it (0 if none is left)
NextFull(chunks, it) ==
    IF \E k \in (it + 1)..Len(chunks) : chunks[k] # <<>>
    THEN CHOOSE k \in (it + 1)..Len(chunks) : chunks[k] # <<>> /\ \A j \in (it + 1)..(k - 1) : chunks[j] = <<>>
    ELSE 0

\* _next_char(): [s |-> cursor afterwards, res |-> character or CEof]
CNext(cs) ==
    LET i == cs.idx + 1 IN
    IF i >= 0 /\ i < Len(cs.cur) THEN [s |-> [cs EXCEPT !.idx = i], res |-> cs.cur[i + 1]]
    ELSE LET k == NextFull(cs.chunks, cs.it) IN
         IF k = 0 THEN [s |-> [cs EXCEPT !.idx = i, !.it = Len(cs.chunks)], res |-> CEof]   \* empty chunks skipped, end
         ELSE [s |-> [cs EXCEPT !.cur = cs.chunks[k], !.idx = 0, !.it = k, !.ci = k], res |-> cs.chunks[k][1]]
\* self._char_index -= 1
CRewind(cs) == [cs EXCEPT !.idx = cs.idx - 1]

(* ---- the flat text behind a cursor ---------------------------------------- *)
RECURSIVE Concat(_, _)
Concat(chunks, k) == IF k > Len(chunks) THEN <<>> ELSE chunks[k] \o Concat(chunks, k + 1)
Flat0(cs) == IF cs.chunks = <<>> /\ cs.ci = 0 THEN cs.cur ELSE Concat(cs.chunks, 1)
RECURSIVE LenBefore(_, _)
LenBefore(chunks, k) == IF k <= 1 THEN 0 ELSE Len(chunks[k - 1]) + LenBefore(chunks, k - 1)
\* 1-based position in the flat text of the character _char_index points at
AbsPos(cs) == (IF cs.ci = 0 THEN 0 ELSE LenBefore(cs.chunks, cs.ci)) + cs.idx + 1

(* ---- every way of delivering a text ------------------------------------------ *)
\* cut into non-empty parts ...
RECURSIVE Compositions(_)
Compositions(t) ==
    IF t = <<>> THEN {<<>>}
    ELSE UNION {{<<SubSeq(t, 1, j)>> \o rest : rest \in Compositions(SubSeq(t, j + 1, Len(t)))} : j \in 1..Len(t)}
\* ... with E[k] empty chunks after the k-th part (E[0]: in front)
Empties(n) == [j \in 1..n |-> <<>>]
RECURSIVE Weave(_, _, _)
Weave(parts, E, k) == Empties(E[k]) \o (IF k = Len(parts) THEN <<>> ELSE <<parts[k + 1]>> \o Weave(parts, E, k + 1))
Chunkings(text, maxEmpty) ==
    UNION {{Weave(parts, E, 0) : E \in [0..Len(parts) -> 0..maxEmpty]} : parts \in Compositions(text)}
=============================================================================
