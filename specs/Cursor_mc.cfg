SPECIFICATION Spec
CONSTANTS
  MaxLen = 5
  MaxEmpty = 1
  MaxEof = 3
INVARIANT Refines
INVARIANT IdxOK
INVARIANT AbsAgrees
INVARIANT FlatConst
INVARIANT EofSticky
INVARIANT CurFull
VIEW View
CHECK_DEADLOCK FALSE
