SPECIFICATION Spec
CONSTANTS
  Templates = {"hidsolid", "brush", "ents", "nest", "nestplain", "angles", "anglesvar", "pitchsound", "unknownvar"}
  MultiTemplates = {"nest", "nestplain", "ents", "hidsolid"}
  VisTemplates = {"hidsolid", "brush", "ents", "nest"}
  Origins = {1, 2, 3}
  Tables = {0, 1, 2, 3}
  Triples = TRUE
  MaxArr = 4
  Full = TRUE
INVARIANT AllRotations
ACTION_CONSTRAINT Emit
CHECK_DEADLOCK FALSE
