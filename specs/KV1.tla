--------------------------------- MODULE KV1 ---------------------------------
(* C01: serialising a Keyvalues tree and parsing the text gives the tree back. *)
(*                                                                             *)
(* One behaviour = one job taken through the pipeline of KV1Ops, one action    *)
(* per stage and one per iteration of the parse loop:                          *)
(*   "rt"  job: a tree and serialise options:  Serialise -> Lex -> Step* -> done*)
(*   "doc" job: a document given as token symbols and parse options:           *)
(*              Render -> Lex -> Step* -> done   (every branch of the loop);   *)
(*              a finished document that the loop read to its end is grown by  *)
(*              one symbol (Grow), so only documents with new behaviour exist  *)
(*   "txt" job: a short text: Lex -> Step* -> done  (lexer and loop together)  *)
(* The jobs are all members of small families chosen by the constants.  When a *)
(* job is done it is printed (ACTION_CONSTRAINT Emit), so the harness executes *)
(* exactly the family TLC explored on the real code.                           *)
EXTENDS KV1Ops, TLC, Json

CONSTANTS Fams,        \* subset of {"strings", "shapes", "docs", "texts"}
          NameAlpha,   \* code points for rich names (no LF / CR: names carry no line breaks)
          ValAlpha,    \* code points for rich values
          RichLen,     \* one rich string per tree: length <= RichLen
          PairNameAlpha, PairValAlpha, PairLen,   \* two rich strings per tree
          ShapeNames, ShapeVals,   \* the strings of the shape family (as sets of code point tuples)
          ShapeDepth,  \* 1 or 2: depth of the blocks in the shape family
          DocAlpha,    \* token symbols
          DocAlphaNL,  \* token symbols used with the newline_keys / newline_values options
          DocLen,      \* documents of at most DocLen symbols
          LexAlpha, LexLen   \* family "texts": every text of at most LexLen characters over LexAlpha

VARIABLES job, ph, text, toks, st, hist
vars == <<job, ph, text, toks, st, hist>>

StrUpTo(A, L) == UNION {[1..n -> A] : n \in 0..L}

(* ---- serialise options ---------------------------------------------------- *)
SerOpts == {[indent |-> <<TAB>>,     braces |-> TRUE,  start |-> <<>>],         \* the defaults
            [indent |-> <<SP, SP>>,  braces |-> FALSE, start |-> <<>>],
            [indent |-> <<>>,        braces |-> TRUE,  start |-> <<TAB>>],
            [indent |-> <<SP, TAB>>, braces |-> FALSE, start |-> <<SP, SP>>]}

(* ---- family "strings": fixed shapes, every short string in one or two slots - *)
RichN == StrUpTo(NameAlpha, RichLen)
RichV == StrUpTo(ValAlpha, RichLen)
PairN == StrUpTo(PairNameAlpha, PairLen)
PairV == StrUpTo(PairValAlpha, PairLen)
\* (kept as separate sets: TLC enumerates a union of large sets quadratically)
StringFam == <<
    {RootDoc(<<Leaf(s, SB, 0), Leaf(SA, <<>>, 0)>>) : s \in RichN},                          \* leaf name
    {RootDoc(<<Leaf(SA, s, 0), Leaf(SA, SB, 0)>>) : s \in RichV},                            \* leaf value
    {RootDoc(<<Block(s, <<Leaf(SA, SB, 0)>>, 0), Leaf(SC, SA, 0)>>) : s \in RichN},          \* block name
    {RootDoc(<<Block(s, <<>>, 0)>>) : s \in RichN},                                          \* empty block
    {RootDoc(<<Block(SA, <<Block(s, <<Leaf(s, SB, 0)>>, 0)>>, 0)>>) : s \in RichN},          \* nested
    {NodeDoc(Block(s, <<Leaf(SA, SB, 0)>>, 0)) : s \in RichN},                               \* not a root
    {NodeDoc(Leaf(SA, s, 0)) : s \in RichV},
    {RootDoc(<<Leaf(x, y, 0)>>) : x \in PairN, y \in PairV},
    {RootDoc(<<Block(x, <<Leaf(y, <<>>, 0)>>, 0)>>) : x \in PairN, y \in PairN} >>

(* ---- family "shapes": every small shape, names a/A, values ""/b ------------- *)
ShapeNamesFull == {SA, SUA}
ShapeValsFull == {<<>>, SB}
ShapeValsSmall == {<<>>}
Seqs(S, lo, hi) == UNION {[1..n -> S] : n \in lo..hi}
N0 == {Leaf(n, v, 0) : n \in ShapeNames, v \in ShapeVals} \cup {Block(n, <<>>, 0) : n \in ShapeNames}
N1 == N0 \cup {Block(n, k, 0) : n \in ShapeNames, k \in Seqs(N0, 1, 2)}
N2 == {Block(n, k, 0) : n \in ShapeNames, k \in Seqs(N1, 1, 2)}
ShapeFam == <<
    {RootDoc(k) : k \in Seqs(N1, 0, 2)},
    {NodeDoc(nd) : nd \in N1},
    IF ShapeDepth >= 2 THEN {RootDoc(<<nd>>) : nd \in N2} ELSE {},
    IF ShapeDepth >= 2 THEN {RootDoc(<<nd, Leaf(SA, SB, 0)>>) : nd \in N2} ELSE {} >>

RtJobs(docs) == {[kind |-> "rt", doc |-> d, o |-> o, syms |-> <<>>, txt |-> <<>>, po |-> DefaultParse] : d \in docs, o \in SerOpts}

(* ---- family "docs": documents as token symbols ----------------------------- *)
PO(sl, sb, nk, nv) == [flags |-> ModelFlags, defaults |-> ModelDefaults, nk |-> nk, nv |-> nv,
                       sl |-> sl, sb |-> sb, lex |-> DefaultLex]
\* single_line x single_block over the whole alphabet; the newline options over DocAlphaNL
MainOpts == {PO(sl, sb, FALSE, TRUE) : sl \in BOOLEAN, sb \in BOOLEAN}
NLOpts == {PO(FALSE, FALSE, TRUE, TRUE), PO(FALSE, FALSE, TRUE, FALSE), PO(FALSE, FALSE, FALSE, FALSE)}
AlphaFor(p) == IF p \in MainOpts THEN DocAlpha ELSE DocAlphaNL
\* longer documents that reach the rarest branches already with a small DocLen
SeedSyms == {<<"a", "a", "nl", "a", "a", "on", "nl">>,                       \* value replaced by its flagged twin
             <<"a", "a", "nl", "b", "a", "on", "nl">>,                       \* other name: appended
             <<"a", "a", "nl", "a", "a", "off", "nl", "a", "b", "on", "nl">>,  \* a dropped value does not end the replace window
             <<"a", "{", "}", "a", "on", "nl", "{", "a", "b", "nl", "}">>,     \* block replaced by its flagged twin
             <<"a", "{", "}", "a", "a", "on", "nl">>,                        \* a value does not replace a block
             <<"a", "a", "nl", "a", "on", "nl", "{", "}">>,                    \* a block does not replace a value
             <<"a", "off", "nl", "{", "}", "a", "on", "nl", "{", "}">>,        \* replace window open on an empty list
             <<"a", "off", "nl", "{", "}", "a", "a", "on", "nl">>,
             <<"a", "off", "nl", "{", "b", "{", "a", "a", "nl", "}", "}", "b", "b">>,   \* nested inside a skipped block
             <<"a", "{", "nl", "b", "{", "nl", "a", "b", "nl", "}", "nl", "}", "nl">>}
DocJob(y, p) == [kind |-> "doc", doc |-> RootDoc(<<>>), o |-> DefaultSer, syms |-> y, txt |-> <<>>, po |-> p]

(* ---- family "texts": every short text, for the lexer and the loop together --- *)
TxtJob(t, esc) == [kind |-> "txt", doc |-> RootDoc(<<>>), o |-> DefaultSer, syms |-> <<>>, txt |-> t,
                   po |-> [PO(FALSE, FALSE, FALSE, TRUE) EXCEPT !.lex.esc = esc]]
HasChar(t, c) == \E i \in 1..Len(t) : t[i] = c

\* the branch labels of the parse loop, for the vacuity check of the harness
ASSUME PrintT(ToJson([tag |-> "BRANCHES", all |-> Branches]))

(* ---- the machine ------------------------------------------------------------ *)
Init == /\ \/ "strings" \in Fams /\ \E i \in 1..Len(StringFam) : job \in RtJobs(StringFam[i])
           \/ "shapes" \in Fams /\ \E i \in 1..Len(ShapeFam) : job \in RtJobs(ShapeFam[i])
           \/ "docs" \in Fams /\ \E p \in MainOpts \cup NLOpts : job = DocJob(<<>>, p)
           \/ "docs" \in Fams /\ \E y \in SeedSyms, p \in MainOpts : job = DocJob(y, p)
           \/ "texts" \in Fams /\ \E t \in StrUpTo(LexAlpha, LexLen) :
                    \/ job = TxtJob(t, TRUE)
                    \/ HasChar(t, BS) /\ job = TxtJob(t, FALSE)
        /\ ph = "start" /\ text = <<>> /\ toks = <<>> /\ st = PInit /\ hist = <<>>

DoSerialise == /\ ph = "start" /\ job.kind = "rt"
               /\ text' = Serialise(job.doc, job.o)
               /\ ph' = "text" /\ UNCHANGED <<job, toks, st, hist>>
DoRender == /\ ph = "start" /\ job.kind = "doc"
            /\ text' = Render(job.syms)
            /\ ph' = "text" /\ UNCHANGED <<job, toks, st, hist>>
DoGiven == /\ ph = "start" /\ job.kind = "txt"
           /\ text' = job.txt
           /\ ph' = "text" /\ UNCHANGED <<job, toks, st, hist>>
DoLex == /\ ph = "text"
         /\ toks' = Lex(text, job.po.lex)
         /\ ph' = "parsing" /\ UNCHANGED <<job, text, st, hist>>
\* a serialised tree: the whole token loop at once
DoParse == /\ ph = "parsing" /\ job.kind = "rt"
           /\ st' = Parse(toks, job.po)
           /\ hist' = <<st'.br>>
           /\ ph' = "done"
           /\ UNCHANGED <<job, text, toks>>
\* a document of the parse family: one iteration of the token loop of Keyvalues.parse
DoStep == /\ ph = "parsing" /\ job.kind \in {"doc", "txt"}
          /\ st' = Step(st, toks, job.po)
          /\ hist' = Append(hist, st'.br)
          /\ ph' = IF st'.done THEN "done" ELSE "parsing"
          /\ UNCHANGED <<job, text, toks>>
\* The family of documents grows by one symbol wherever the loop read the previous document to
\* its end (an error or a single_block return before the end is the same for every extension).
Growable == /\ ph = "done" /\ job.kind = "doc" /\ Len(job.syms) < DocLen
            /\ toks[Len(toks)].t = "EOF" /\ st.hi = Len(toks)
Grow(y) == /\ Growable /\ y \in AlphaFor(job.po)
           /\ job' = DocJob(Append(job.syms, y), job.po)
           /\ ph' = "start" /\ text' = <<>> /\ toks' = <<>> /\ st' = PInit /\ hist' = <<>>
Next == (\E y \in DocAlpha \cup DocAlphaNL : Grow(y)) \/ DoSerialise \/ DoRender \/ DoGiven \/ DoLex \/ DoParse \/ DoStep
Spec == Init /\ [][Next]_vars

(* ---- the listed property --------------------------------------------------- *)
IsRt == job.kind = "rt"
\* same shape, same order, same names (original casing) and values
RoundTrip == (IsRt /\ ph = "done") =>
                /\ st.res.ok /\ st.res.root
                /\ NoLineSeq(st.res.node.k) = RoundTripKids(job.doc)
\* the options change nothing but blanks outside the quoted strings
WhitespaceOnly == (IsRt /\ ph = "text") =>
                    /\ Squeeze(text) = Squeeze(Serialise(job.doc, DefaultSer))
                    /\ NoBlanks(text) = NoBlanks(Serialise(job.doc, DefaultSer))
(* ---- what makes it hold ------------------------------------------------------ *)
\* no string content ever leaks out of its quotes: the token kinds are those of the shape
TokenShape == (IsRt /\ ph = "parsing") => TokKinds(toks) = Skeleton(job.doc)
\* a writer that leaves block names unescaped produces this text exactly when no block name
\* contains a character that needs escaping (sanity of the deviation KV1Trace recognises)
RawBlockNames == (IsRt /\ ph = "text") =>
                    ((SerialiseG(job.doc, job.o, FALSE) = text) <=> (\A c \in DocBlockNameChars(job.doc) : ~Escapable(c)))
\* parsed nodes carry the line their name is on: strictly increasing in document order, and the
\* text has exactly as many lines as NL tokens
RECURSIVE Lines(_)
Lines(nd) == <<nd.line>> \o FoldLeft(LAMBDA acc, kid : acc \o Lines(kid), <<>>, nd.k)
LinesIncrease == (IsRt /\ ph = "done" /\ st.res.ok) =>
                    LET ls == FoldLeft(LAMBDA acc, kid : acc \o Lines(kid), <<>>, st.res.node.k)
                    IN  \A i \in 1..(Len(ls) - 1) : ls[i] < ls[i + 1]
(* ---- the lexer ----------------------------------------------------------------- *)
\* total: the stream ends with EOF or with the one error; nothing follows either; a token needs
\* at least one character; the line counter starts at 1, never decreases, and is bounded by the
\* line breaks in the text
IsBreak(c) == c = LF \/ c = CR
LexShape == (ph = "parsing" /\ hist = <<>>) =>
    /\ Len(toks) >= 1 /\ Len(toks) <= Len(text) + 1
    /\ toks[Len(toks)].t \in {"EOF", "ERR"}
    /\ \A k \in 1..(Len(toks) - 1) : toks[k].t \notin {"EOF", "ERR"} /\ toks[k].line <= toks[k + 1].line
    /\ toks[1].line >= 1
    /\ toks[Len(toks)].line <= 1 + Len(SelectSeq(text, IsBreak))
    /\ \A k \in 1..Len(toks) : (toks[k].t = "ERR") <=> (toks[k].k # "")
(* ---- the parse machine -------------------------------------------------------- *)
DocLexes == (job.kind = "doc" /\ ph = "parsing" /\ hist = <<>>) => TokKinds(toks) = RenderKinds(job.syms)
\* the loop ends: with EOF (or an error) as the last token, at most one iteration per token
Terminates == (ph = "parsing" /\ job.kind # "rt") => (st.pos <= Len(toks) /\ Len(hist) < Len(toks))
\* the folded Parse the record validator uses is this machine
ParseAgrees == (ph = "done" /\ job.kind # "rt") => Parse(toks, job.po).res = st.res
StackOK == /\ (ph = "parsing" => Depth(st) >= 1 /\ ~st.stack[1].skip)
           /\ (st.bl = "expect" => (Len(TopKids(st)) >= 1 /\ ~LastKid(st).leaf /\ LastKid(st).k = <<>>))
\* a document without flags that parses as a whole file has balanced braces and keeps every name
Balanced == (ph = "done" /\ st.res.ok /\ st.res.root) =>
                Cardinality({i \in 1..Len(toks) : toks[i].t = "OPEN"}) = Cardinality({i \in 1..Len(toks) : toks[i].t = "CLOSE"})
ErrorsNamed == ph = "done" => (st.res.ok \/ st.res.err # "")
Progress == [][(ph = "parsing" /\ ph' \in {"parsing", "done"}) => (st'.pos > st.pos /\ st'.hi >= st.hi)]_vars

(* ---- emission ------------------------------------------------------------------ *)
Emit == (ph' = "done") =>
            PrintT(ToJson([tag |-> "JOB", kind |-> job.kind, doc |-> job.doc, o |-> job.o, syms |-> job.syms,
                           txt |-> job.txt, esc |-> job.po.lex.esc,
                           po |-> [sl |-> job.po.sl, sb |-> job.po.sb, nk |-> job.po.nk, nv |-> job.po.nv],
                           hist |-> hist', ok |-> st'.res.ok, err |-> st'.res.err,
                           grow |-> (job.kind = "doc" /\ Len(job.syms) < DocLen /\ toks[Len(toks)].t = "EOF" /\ st'.hi = Len(toks))]))
=============================================================================
