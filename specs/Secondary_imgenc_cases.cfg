SPECIFICATION Spec
CONSTANTS
  Machine = "cases"
  Fmt = "imgenc"
  Small = FALSE
  MaxOps = 0
INVARIANT CaseIdempotent
INVARIANT CaseIdentity
ACTION_CONSTRAINT EmitCase
CHECK_DEADLOCK FALSE
