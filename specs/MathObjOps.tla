----------------------------- MODULE MathObjOps -----------------------------
(* The object-level design of srctools.math: a program holds references (slots) *)
(* to Vec / Angle / Matrix objects and their frozen twins.  Every public        *)
(* operation either binds a slot to an object (fresh, or an existing one) or    *)
(* mutates one object in place - which every slot referring to it observes.     *)
(* Shape(st, a) says WHICH of these happens (it never looks at values, so it    *)
(* also judges histories run on arbitrary floats); Value(st, a) says what the   *)
(* new value is on the exact integer domain (vectors over the integers, angles  *)
(* in whole multiples of 90 degrees, the 24 lattice rotations) using RotOps.    *)
EXTENDS RotOps

Slots == 1..3
Mutable == {"Vec", "Angle", "Matrix"}
ObjCls == Classes \ {"Tuple3"}
FrozenOf(c) == CASE c = "Vec" -> "FrozenVec" [] c = "Angle" -> "FrozenAngle" [] c = "Matrix" -> "FrozenMatrix"
ThawOf(c) == CASE c = "FrozenVec" -> "Vec" [] c = "FrozenAngle" -> "Angle" [] c = "FrozenMatrix" -> "Matrix"
Empty == [cls |-> [s \in Slots |-> "None"], id |-> [s \in Slots |-> 0], val |-> [s \in Slots |-> <<>>]]

(* ---- values on the exact integer domain ------------------------------------ *)
NormDeg(x) == x % 360
Norm3(v) == <<NormDeg(v[1]), NormDeg(v[2]), NormDeg(v[3])>>
Lat(v) == \A j \in 1..3 : v[j] % 90 = 0
AngPts(v) == Ang(PtOfDeg(v[1]), PtOfDeg(v[2]), PtOfDeg(v[3]))        \* v = <<pitch, yaw, roll>> in degrees
MatOfAng(v) == Scale(FromAngle(AngPts(v)), 1)
AngOfMat(m) == LET a == ToAngle(Q(m, 1)).ang IN <<DegOf(a.p), DegOf(a.y), DegOf(a.r)>>
RotOf(c, v) == IF Kind(c) = "A" THEN Q(MatOfAng(v), 1) ELSE Q(v, 1)   \* the rotation an Angle / Matrix operand stands for
\* Euler angle of an axis-aligned direction (VecBase.to_angle, roll 0)
Axial(v) == Cardinality({j \in 1..3 : v[j] # 0}) = 1
VecAngle(v) == IF v[1] > 0 THEN <<0, 0, 0>> ELSE IF v[1] < 0 THEN <<0, 180, 0>>
               ELSE IF v[2] > 0 THEN <<0, 90, 0>> ELSE IF v[2] < 0 THEN <<0, 270, 0>>
               ELSE IF v[3] > 0 THEN <<270, 0, 0>> ELSE <<90, 0, 0>>
Rotated(c, v, rot) == CASE Kind(c) = "V" -> Scale(VecRot(Q(v, 1), rot), 1)
                         [] Kind(c) = "A" -> AngOfMat(Scale(MatMul(Q(MatOfAng(v), 1), rot), 1))
                         [] Kind(c) = "M" -> Scale(MatMul(Q(v, 1), rot), 1)

(* ---- what an operation does to references and objects ---------------------- *)
\* kind "assign": slot tgt is bound to an object of class cls which is a fresh object (res "fresh"), the object
\*   of slot src (res "alias"), or either (res "either": allowed for immutable sources; pick = what the code does)
\* kind "mutate": the object with identity mutid changes its value in place
NotOk == [ok |-> FALSE]
Exc == [ok |-> TRUE, exc |-> TRUE, kind |-> "none"]
Assign(tgt, cls, res, src, pick) ==
    [ok |-> TRUE, exc |-> FALSE, kind |-> "assign", tgt |-> tgt, cls |-> cls, res |-> res, src |-> src, pick |-> pick]
Fresh1(tgt, cls) == Assign(tgt, cls, "fresh", tgt, "fresh")
Mutate(st, t) == [ok |-> TRUE, exc |-> FALSE, kind |-> "mutate", tgt |-> t, mutid |-> st.id[t]]

Has(st, s) == st.id[s] # 0
Shape(st, a) ==
    LET C == IF "t" \in DOMAIN a THEN st.cls[a.t] ELSE "None"
        U == IF "u" \in DOMAIN a THEN st.cls[a.u] ELSE "None"
    IN
    CASE a.op = "new" -> Fresh1(a.s, a.c)
      [] a.op = "conv" ->         \* Cls(other): a frozen class given an instance of itself returns that instance
            IF ~Has(st, a.t) \/ (Kind(a.c) = "M") # (Kind(C) = "M") THEN NotOk
            ELSE IF a.c = C /\ C \in Frozen THEN Assign(a.s, a.c, "alias", a.t, "alias") ELSE Fresh1(a.s, a.c)
      [] a.op = "set" ->          \* attribute / index assignment
            IF ~Has(st, a.t) \/ Kind(C) = "M" THEN NotOk
            ELSE IF C \in Frozen THEN Exc ELSE Mutate(st, a.t)
      [] a.op = "mul" -> IF ~Has(st, a.t) \/ Kind(C) = "M" THEN NotOk ELSE Fresh1(a.s, C)
      [] a.op = "imul" ->         \* x *= k: in place when mutable, otherwise x = x * k rebinds
            IF ~Has(st, a.t) \/ Kind(C) = "M" THEN NotOk
            ELSE IF C \in Frozen THEN Fresh1(a.t, C) ELSE Mutate(st, a.t)
      [] a.op = "mm" ->
            IF ~Has(st, a.t) \/ ~Has(st, a.u) THEN NotOk
            ELSE LET d == Dispatch(C, "mm", U) IN IF d.err THEN Exc ELSE Fresh1(a.s, d.cls)
      [] a.op = "imm" ->
            IF ~Has(st, a.t) \/ ~Has(st, a.u) THEN NotOk
            ELSE LET d == Dispatch(C, "imm", U) IN
                 IF d.err THEN Exc ELSE IF d.ident = "lhs" THEN Mutate(st, a.t) ELSE Fresh1(a.t, d.cls)
      [] a.op = "transform" ->    \* with x.transform() as m: m @= u   (mutable Vec / Angle only)
            IF ~Has(st, a.t) \/ ~Has(st, a.u) \/ Kind(C) = "M" \/ Kind(U) = "V" THEN NotOk
            ELSE IF C \in Frozen THEN Exc ELSE Mutate(st, a.t)
      [] a.op = "to_angle" -> IF ~Has(st, a.t) \/ Kind(C) = "A" THEN NotOk ELSE Fresh1(a.s, "Angle")
      [] a.op = "from_angle" -> IF ~Has(st, a.t) \/ Kind(C) # "A" \/ Kind(a.c) # "M" THEN NotOk ELSE Fresh1(a.s, a.c)
      [] a.op = "from_basis" -> IF ~Has(st, a.t) \/ Kind(C) # "M" \/ Kind(a.c) = "V" THEN NotOk ELSE Fresh1(a.s, a.c)
      [] a.op = "copy" ->         \* copy(), copy.copy, copy.deepcopy, pickle round trip
            IF ~Has(st, a.t) THEN NotOk
            ELSE IF C \in Frozen THEN Assign(a.s, C, "either", a.t, IF a.how = "pickle" THEN "fresh" ELSE "alias")
            ELSE Fresh1(a.s, C)
      [] a.op = "freeze" -> IF ~Has(st, a.t) \/ C \notin Mutable THEN NotOk ELSE Fresh1(a.s, FrozenOf(C))
      [] a.op = "thaw" -> IF ~Has(st, a.t) \/ C \notin Frozen THEN NotOk ELSE Fresh1(a.s, ThawOf(C))
      [] a.op = "str" ->          \* Cls.from_str(str(x)), Cls.from_str(x) given the instance itself, Cls.with_axes(.., x, ..)
            IF ~Has(st, a.t) \/ Kind(C) = "M" \/ Kind(a.c) # Kind(C) THEN NotOk
            ELSE IF a.c = C /\ C \in Frozen THEN Assign(a.s, a.c, "either", a.t, "fresh") ELSE Fresh1(a.s, a.c)

\* operations whose result must be equal to the source object's value
CopyLike == {"copy", "freeze", "thaw", "str"}

(* ---- exact values ---------------------------------------------------------- *)
\* extra requirement for the value to stay on the integer domain
OnDomain(st, a) ==
    LET C == IF "t" \in DOMAIN a THEN st.cls[a.t] ELSE "None" IN
    CASE a.op = "new" -> Kind(a.c) = "V" \/ Lat(a.v)
      [] a.op = "conv" -> Kind(a.c) # "A" \/ Lat(st.val[a.t])
      [] a.op = "set" -> Kind(C) = "V" \/ a.v % 90 = 0
      [] a.op = "to_angle" -> Kind(C) = "M" \/ Axial(st.val[a.t])
      [] OTHER -> TRUE
Value(st, a) ==
    LET C == IF "t" \in DOMAIN a THEN st.cls[a.t] ELSE "None"
        v == IF "t" \in DOMAIN a THEN st.val[a.t] ELSE <<>>
    IN
    CASE a.op = "new" -> IF Kind(a.c) = "V" THEN a.v ELSE IF Kind(a.c) = "A" THEN Norm3(a.v) ELSE MatOfAng(Norm3(a.v))
      [] a.op = "conv" -> IF Kind(a.c) = "A" THEN Norm3(v) ELSE v
      [] a.op = "set" -> [v EXCEPT ![a.i] = IF Kind(C) = "A" THEN NormDeg(a.v) ELSE a.v]
      [] a.op \in {"mul", "imul"} ->
            IF Kind(C) = "A" THEN Norm3(<<v[1] * a.k, v[2] * a.k, v[3] * a.k>>) ELSE <<v[1] * a.k, v[2] * a.k, v[3] * a.k>>
      [] a.op \in {"mm", "imm", "transform"} -> Rotated(C, v, RotOf(st.cls[a.u], st.val[a.u]))
      [] a.op = "to_angle" -> IF Kind(C) = "M" THEN AngOfMat(v) ELSE VecAngle(v)
      [] a.op = "from_angle" -> MatOfAng(v)
      [] a.op = "from_basis" -> IF Kind(a.c) = "A" THEN AngOfMat(v) ELSE v
      [] a.op \in CopyLike -> v

(* ---- applying an operation --------------------------------------------------- *)
MaxOf(S) == CHOOSE x \in S : \A y \in S : y <= x
First(id, s) == CHOOSE t \in Slots : id[t] = id[s] /\ \A h \in 1..(t - 1) : id[h] # id[s]
\* identities renumbered in order of first appearance, so that states do not depend on allocation history
CanonIds(id) == [s \in Slots |-> IF id[s] = 0 THEN 0
                                  ELSE Cardinality({First(id, t) : t \in {h \in Slots : id[h] # 0 /\ First(id, h) <= First(id, s)}})]
\* references and classes after the operation (no values involved)
IdsAfter(st, sh, pick) ==
    IF sh.exc \/ sh.kind # "assign" THEN st.id
    ELSE CanonIds([st.id EXCEPT ![sh.tgt] = IF pick = "alias" THEN st.id[sh.src] ELSE 1 + MaxOf({st.id[s] : s \in Slots})])
ClsAfter(st, sh) == IF sh.exc \/ sh.kind # "assign" THEN st.cls ELSE [st.cls EXCEPT ![sh.tgt] = sh.cls]
Picks(sh) == IF sh.exc \/ sh.kind # "assign" THEN {"none"} ELSE IF sh.res = "either" THEN {"alias", "fresh"} ELSE {sh.pick}
ApplyPick(st, a, sh, pick) ==
    IF sh.exc THEN st
    ELSE IF sh.kind = "assign"
    THEN [cls |-> ClsAfter(st, sh), val |-> [st.val EXCEPT ![sh.tgt] = Value(st, a)], id |-> IdsAfter(st, sh, pick)]
    ELSE LET nv == Value(st, a) IN
         [st EXCEPT !.val = [s \in Slots |-> IF st.id[s] = sh.mutid THEN nv ELSE st.val[s]]]
Apply(st, a) == LET sh == Shape(st, a) IN ApplyPick(st, a, sh, IF sh.exc \/ sh.kind # "assign" THEN "none" ELSE sh.pick)

(* ---- the listed property on a state ------------------------------------------ *)
AngleRange(st) == \A s \in Slots : Kind(st.cls[s]) = "A" /\ st.id[s] # 0 => \A j \in 1..3 : st.val[s][j] >= 0 /\ st.val[s][j] < 360
Coherent(st) == \A s, t \in Slots : st.id[s] # 0 /\ st.id[s] = st.id[t] => st.cls[s] = st.cls[t] /\ st.val[s] = st.val[t]
=============================================================================
