SPECIFICATION Spec
CONSTANTS
  Names = {"a", "A", "b"}
  Vals = {"1", "2"}
  SetPathKids = 0
  MaxKids = 2
INVARIANT SetGet
INVARIANT DelShrinks
INVARIANT MergeOne
INVARIANT EnsureHas
VIEW View
ACTION_CONSTRAINT Emit
CHECK_DEADLOCK FALSE
