----------------------------- MODULE FsSemTrace -----------------------------
(* Validates records logged from the real filesystem backends and from real     *)
(* FileSystemChains against FsSemOps.  Mismatches are printed, never fatal.      *)
(*  k = "fs":    one backend holding a file set; look-ups and walks               *)
(*  k = "chain": one add_sys step on a real chain, then look-ups and walks, with  *)
(*               what the chain asked of each member and what the member said     *)
EXTENDS FsSemOps, TLC, Json, IOUtils

Recs == ndJsonDeserialize(IOEnv.TRACE_FILE)
N == Len(Recs)
VARIABLE i

ToSet(q) == {q[k] : k \in 1..Len(q)}
FoldOf(r) == [c \in {r.fold[k][1] : k \in 1..Len(r.fold)} |->
                 r.fold[CHOOSE k \in 1..Len(r.fold) : r.fold[k][1] = c][2]]
\* files are logged in the container's own order
FilesOf(q) == {[n |-> q[k][1], c |-> q[k][2], i |-> k] : k \in 1..Len(q)}
ToksOf(q) == [k \in 1..Len(q) |-> [s |-> q[k][1], c |-> q[k][2]]]
QOf(x) == QComps(ToksOf(x.toks))
NotFound == "FileNotFoundError"
\* opening a name that is no file (the directory backend may say so in more than one way)
NoFile == {"FileNotFoundError", "IsADirectoryError", "NotADirectoryError"}

Report(clause, part, q, m, want) ==
    PrintT(ToJson([tag |-> "MISMATCH", i |-> i, clause |-> clause,
                   exp |-> [part |-> part, q |-> q, m |-> m, want |-> want]]))

\* the directory backend is bound for exact-case spellings only
Bound(fold, backend, fs, n) == backend # "raw" \/ ExactFor(fold, fs, n)
\* a member is judged on whatever text the chain hands it: "." and empty segments (from a prefix
\* spelled './x', 'x//', 'x\\') denote nothing, like a trailing separator
BoundText(fold, backend, fs, text) == Bound(fold, backend, fs, TextComps(text))

(* ---- the record is a concretisation of the model's symbols ---------------------------- *)
NamesAbs == {<<"a", "x">>, <<"a", "X">>, <<"ab", "x">>, <<"a", "b", "x">>, <<"x">>, <<"A", "x">>}
TabOf(r) == [s \in {r.conc[k][1] : k \in 1..Len(r.conc)} |-> r.conc[CHOOSE k \in 1..Len(r.conc) : r.conc[k][1] = s][2]]
MapsTo(tab, afiles, files) ==
    /\ Len(afiles) = Len(files)
    /\ \A k \in 1..Len(files) : afiles[k] \in NamesAbs /\ files[k][1] = ConcName(tab, afiles[k])
ConcChecked(r) ==
    r.conc = <<>> \/
    LET tab == TabOf(r) fold == FoldOf(r) IN
    (/\ Admissible(fold, tab)
     /\ IF r.k = "fs" THEN MapsTo(tab, r.afiles, r.files)
        ELSE \A m \in 1..Len(r.members) :
                /\ MapsTo(tab, r.members[m].afiles, r.members[m].files)
                /\ r.members[m].pfx = ConcName(tab, r.members[m].apfx))
      \/ Report("input.conc", "act", 0, 0, r.conc)

(* ---- one look-up / one walk on one backend ------------------------------------- *)
\* got = [has, hase, c, ce, cb, cbe, cs, cse]
\* pc/pe (by name) and hc/he (through the File handle of the look-up): content and exception of every
\* public way of reading - open_bin, open_str, read_kv1, read_prop, File.open_*, cache_key (the
\* driver lists them; lists are collapsed to one entry when all ways agree)
AllYield(cs, es, want) == Len(cs) >= 1 /\ \A k \in 1..Len(cs) : es[k] = "" /\ cs[k] \in want
AllFail(es) == Len(es) >= 1 /\ \A k \in 1..Len(es) : es[k] # ""
\* a handle denotes one file: every way of reading through it yields the same content
OneFile(cs, es) == Len(cs) >= 1 /\ \A k \in 1..Len(cs) : es[k] = "" /\ cs[k] = cs[1]
ReadsOK(x, want) ==
    IF want = {} THEN x.hase = "" /\ ~x.has /\ AllFail(x.pe) /\ x.hc = <<>>
    ELSE x.hase = "" /\ x.has /\ AllYield(x.pc, x.pe, want) /\ AllYield(x.hc, x.he, want) /\ OneFile(x.hc, x.he)
LookupOK(fold, fs, n, x) == ReadsOK(x, Lookup(fold, fs, n))
GotKeys(fold, items) == {Key(fold, items[k].n) : k \in 1..Len(items)}
CountKey(fold, items, key) == Cardinality({k \in 1..Len(items) : Key(fold, items[k].n) = key})
\* every listed name, looked up, yields that file (also when it was listed by mistake)
ItemsLookupOK(fold, fs, items) ==
    \A k \in 1..Len(items) :
        /\ AllYield(items[k].hc, items[k].he, Lookup(fold, fs, items[k].n)) /\ OneFile(items[k].hc, items[k].he)
        /\ items[k].le = "" /\ items[k].l \in Lookup(fold, fs, items[k].n)

FsChecked(r) ==
    LET fold == FoldOf(r) fs == FilesOf(r.files) IN
    /\ \A j \in 1..Len(r.lookups) :
         LET x == r.lookups[j] n == QOf(x) IN
         Bound(fold, r.backend, fs, n) =>
            (LookupOK(fold, fs, n, x) \/ Report("lookup", "lookups", j, 0, Lookup(fold, fs, n)))
    /\ \A j \in 1..Len(r.walks) :
         LET w == r.walks[j] d == QOf(w) want == WalkKeys(fold, fs, d) got == GotKeys(fold, w.items) IN
         Bound(fold, r.backend, fs, d) =>
            /\ (w.e = "" \/ Report("walk.error", "walks", j, 0, want))
            /\ (want \subseteq got \/ Report("walk.missing", "walks", j, 0, want \ got))
            /\ (got \subseteq want \/ Report("walk.extra", "walks", j, 0, got \ want))
            /\ ((\A key \in got : CountKey(fold, w.items, key) <= Cardinality({f \in fs : Key(fold, f.n) = key}) \/ key \notin want)
                  \/ Report("walk.twice", "walks", j, 0, want))
            \* (a directory holds names differing only in case side by side: nothing to win)
            /\ ((r.backend = "raw" /\ ~Unambiguous(fold, fs)) \/ ItemsLookupOK(fold, fs, w.items)
                  \/ Report("walk.lookup", "walks", j, 0, want))

(* ---- chains ---------------------------------------------------------------------- *)
MemberFs(r, m) == FilesOf(r.members[m].files)
SemChain(r) == [m \in 1..Len(r.members) |-> [fs |-> MemberFs(r, m), pfx |-> r.members[m].pfx]]
ListOf(items) == [k \in 1..Len(items) |-> [n |-> items[k].n, c |-> items[k].c]]
PairSet(fold, q) == {<<Key(fold, q[k].n), q[k].c>> : k \in 1..Len(q)}
NoDupKeys(fold, q) == \A a, b \in 1..Len(q) : a # b => Key(fold, q[a].n) # Key(fold, q[b].n)

ChainChecked(r) ==
    LET fold == FoldOf(r) ch == SemChain(r) M == Len(r.members)
        pfxs == [m \in 1..M |-> r.members[m].pfx]
        newm == [k |-> r.act.k]
        wantOrder == IF r.act.pr THEN <<r.act.k>> \o r.pre ELSE Append(r.pre, r.act.k)
    IN
    \* (harness) every prefix spelling denotes the member's prefix components
    /\ ((\A m \in 1..M : TextComps(r.members[m].pfxs) = r.members[m].pfx)
          \/ Report("input.prefix", "act", 0, 0, pfxs))
    \* add_sys(priority) puts the member first, otherwise last
    /\ (r.order = wantOrder \/ Report("chain.order", "act", 0, 0, wantOrder))
    /\ \A j \in 1..Len(r.lookups) :
         LET x == r.lookups[j] n == QOf(x) calls == x.calls
             \* did every member, whenever it was consulted, answer as its file set says?
             asSpec(c) == LET want == Lookup(fold, MemberFs(r, calls[c].m), TextComps(calls[c].arg)) IN
                          IF want = {} THEN ~calls[c].found ELSE calls[c].found /\ calls[c].c \in want
             bound(c) == BoundText(fold, r.members[calls[c].m].backend, MemberFs(r, calls[c].m), calls[c].arg)
             trust == \A c \in 1..Len(calls) : bound(c) /\ asSpec(c)
             want == ChainLookup(fold, ch, n)
             having == HavingMembers(fold, ch, n)
         IN
         \* the answer is the content of the first member that has prefix + name (how, and how often,
         \* the chain consults its members is its own business)
         /\ (trust =>
              (ReadsOK(x, want)
                 \/ Report("chain.lookup.result", "lookups", j, 0, want)))
         \* get_system names that member
         /\ (trust =>
              ((x.owner = (IF having = {} THEN 0 ELSE Min(having)))
                 \/ Report("chain.lookup.owner", "lookups", j, 0, IF having = {} THEN 0 ELSE Min(having))))
         \* each member answers as its file set says
         /\ \A c \in 1..Len(calls) :
              bound(c) => (asSpec(c) \/ Report("member.lookup", "lookups", j, c,
                                               Lookup(fold, MemberFs(r, calls[c].m), TextComps(calls[c].arg))))
    /\ \A j \in 1..Len(r.walks) :
         LET w == r.walks[j] d == QOf(w) calls == w.calls
             lists == [c \in 1..Len(calls) |-> ListOf(calls[c].items)]
             bound(c) == BoundText(fold, r.members[calls[c].m].backend, MemberFs(r, calls[c].m), calls[c].arg)
             trust == \A c \in 1..Len(calls) :
                         bound(c) /\ GotKeys(fold, calls[c].items) = WalkKeys(fold, MemberFs(r, calls[c].m), TextComps(calls[c].arg))
             \* one consultation per member, in priority order, at prefix + folder, and every reported
             \* name below the member's prefix: then the chain's list is determined by the reports
             plain == /\ Len(calls) = M
                      /\ \A c \in 1..Len(calls) :
                            /\ calls[c].m = c /\ TextComps(calls[c].arg) = pfxs[c] \o d
                            /\ \A k \in 1..Len(lists[c]) : /\ Len(lists[c][k].n) > Len(pfxs[c])
                                                          /\ IsPrefixSeq(Key(fold, pfxs[c]), Key(fold, lists[c][k].n))
             got == ListOf(w.items)
             rep == ListOf(w.rep)
         IN
         /\ (w.e = "" \/ Report("chain.walk.error", "walks", j, 0, w.e))
         \* members' lists, names relative to the prefix, first occurrence of each name, each name once
         /\ (plain =>
              LET want == Compose(fold, pfxs, lists) IN
              ((PairSet(fold, got) = PairSet(fold, want) /\ NoDupKeys(fold, got))
                 \/ Report("chain.walk.compose", "walks", j, 0, want)))
         \* each member lists what its file set says
         /\ \A c \in 1..Len(calls) :
              LET mfs == MemberFs(r, calls[c].m) want == WalkKeys(fold, mfs, TextComps(calls[c].arg))
                  gotc == GotKeys(fold, calls[c].items) IN
              bound(c) =>
                 /\ (want \subseteq gotc \/ Report("walk.missing", "walks", j, c, want \ gotc))
                 /\ (gotc \subseteq want \/ Report("walk.extra", "walks", j, c, gotc \ want))
         \* end to end (when the members behaved): exactly the specified names, each once, each yielding,
         \* by walk and by look-up, the content of the first member that has it
         /\ (trust =>
              ((/\ GotKeys(fold, w.items) = ChainWalkKeys(fold, ch, d)
                /\ NoDupKeys(fold, got)
                /\ \A k \in 1..Len(w.items) :
                     LET cs == ChainWalkContents(fold, ch, d, Key(fold, w.items[k].n)) IN
                     /\ AllYield(w.items[k].hc, w.items[k].he, cs) /\ OneFile(w.items[k].hc, w.items[k].he)
                     /\ w.items[k].le = "" /\ w.items[k].l \in cs)
                 \/ Report("chain.walk.result", "walks", j, 0, ChainWalkKeys(fold, ch, d))))
         \* the walk that keeps repeats lists the same names, each occurrence being some member's file
         /\ (trust =>
              ((/\ GotKeys(fold, w.rep) = ChainWalkKeys(fold, ch, d)
                \* ... and the handle denotes that member's file whichever way it is read
                /\ \A k \in 1..Len(rep) :
                     /\ OneFile(w.rep[k].hc, w.rep[k].he)
                     /\ \E m \in 1..M : \E e \in MemberWalk(fold, ch[m], d) :
                            Key(fold, e.n) = Key(fold, rep[k].n) /\ e.c = rep[k].c
                \* every file of every member occurs
                \* (of stored names differing only in case a member lists one)
                /\ \A m \in 1..M : \A e \in MemberWalk(fold, ch[m], d) :
                     \E k \in 1..Len(rep) : \E e2 \in MemberWalk(fold, ch[m], d) :
                        Key(fold, e.n) = Key(fold, rep[k].n) /\ Key(fold, e2.n) = Key(fold, e.n) /\ e2.c = rep[k].c)
                 \/ Report("chain.walk.repeat", "walks", j, 0, ChainWalkKeys(fold, ch, d))))

Checked == i = 0 \/ LET r == Recs[i] IN
              ConcChecked(r) /\ CASE r.k = "fs" -> FsChecked(r) [] r.k = "chain" -> ChainChecked(r)
Init == i = 0
Next == i < N /\ i' = i + 1
AllConsumed == TLCGet("stats").diameter = N + 1
=============================================================================
