----------------------------- MODULE SecondaryOps -----------------------------
(* C20: the smaller formats.  For every format the law is                      *)
(*      Read(Write(v)) = Decay(fmt, v)    and    Write(Read(Write(v))) = Write(v)  *)
(* for Representable(fmt, v), where Decay names what the format by design does *)
(* not carry (text-only and binary-only fields of choreo scenes, defaults that *)
(* are not written).  Values are the projections logged by the harness         *)
(* (harness/c20_driver.py): records of strings, booleans, integers, sequences; *)
(* floats as decimal strings.  The scenes.image container has a state machine  *)
(* of its own (Secondary.tla); its operators are at the end of this module.    *)
EXTENDS Integers, Sequences, FiniteSets, TLC, SequencesExt

SeqSet(q) == {q[k] : k \in 1..Len(q)}
MapSeq(F(_), q) == [k \in 1..Len(q) |-> F(q[k])]

(* ======================= Hammer command sequences ======================== *)
\* fixed-width NUL-padded ASCII fields
CmdOK(c) == Len(c.exe) <= 260 /\ Len(c.args) <= 260 /\ Len(c.ensure) <= 260
            /\ (c.special # 0 => c.exe = "") /\ (~c.ensure_set => c.ensure = "")
CmdSeqRepresentable(v, ascii) ==
    /\ ascii
    /\ \A k \in 1..Len(v.seqs) : /\ Len(v.seqs[k].name) <= 128
                                 /\ \A m \in 1..Len(v.seqs[k].cmds) : CmdOK(v.seqs[k].cmds[m])
    /\ \A a, b \in 1..Len(v.seqs) : a # b => v.seqs[a].name # v.seqs[b].name
\* header (31) + version float + count, per sequence name (128) + count, per command one
\* record 'Bi260s260sii260sii' in native alignment = 804 bytes
RECURSIVE CmdSeqBody(_, _)
CmdSeqBody(seqs, k) == IF k > Len(seqs) THEN 0 ELSE 128 + 4 + 804 * Len(seqs[k].cmds) + CmdSeqBody(seqs, k + 1)
CmdSeqSize(v) == 31 + 4 + 4 + CmdSeqBody(v.seqs, 1)

(* ======================= choreographed scenes ============================ *)
DefaultCurve == <<"DEFAULT", "DEFAULT">>
NoEdge == <<FALSE, "0.0", "DEFAULT", "DEFAULT">>
PlainSample(s) == <<s[1], s[2], "DEFAULT", "DEFAULT">>

\* a Speak event only keeps "uses combined file" when captions are not disabled
SpeakCanon(e) == [e EXCEPT !.combined = @ /\ e.cc_type # "Disabled"]

\* ---- text (.vcd): everything but the CRC of the source text; an event ramp
\* without samples is not written at all (its edges go), the flex curve default
\* is only written with flex animations
TextCurveEvent(c) == IF c.ramp = <<>> THEN [c EXCEPT !.left = NoEdge, !.right = NoEdge] ELSE c
TextEvent(e) ==
    LET s == SpeakCanon(e) IN
    [s EXCEPT !.ramp = TextCurveEvent(@),
              !.dcurve = IF e.flex = <<>> THEN DefaultCurve ELSE @]
TextScene(v) ==
    [v EXCEPT !.crc = "0",
              !.zoom = <<>>,
              !.events = MapSeq(TextEvent, @),
              !.actors = MapSeq(LAMBDA a : [a EXCEPT !.channels =
                            MapSeq(LAMBDA c : [c EXCEPT !.events = MapSeq(TextEvent, @)], @)], @)]
VcdRepresentable(v) == v.fps >= 10 /\ v.fps <= 240

\* ---- binary (bvcd): no editor-only data
BinCurve(c) == [ramp |-> MapSeq(PlainSample, c.ramp), left |-> NoEdge, right |-> NoEdge]
BinFlex(f) == [f EXCEPT !.left = NoEdge, !.right = NoEdge]
BinEvent(e) ==
    LET s == SpeakCanon(e) IN
    [s EXCEPT !.ramp = BinCurve(@),
              !.timing = MapSeq(LAMBDA t : <<t[1], t[2], FALSE>>, @),
              !.flex = MapSeq(BinFlex, @),
              !.dcurve = DefaultCurve, !.pitch = 0, !.yaw = 0]
BinScene(v) ==
    [v EXCEPT !.map = "", !.fps = 60, !.snap = FALSE, !.scale = <<>>, !.zoom = <<>>,
              !.ramp = BinCurve(@),
              !.events = MapSeq(BinEvent, @),
              !.actors = MapSeq(LAMBDA a : [a EXCEPT !.model = "", !.channels =
                            MapSeq(LAMBDA c : [c EXCEPT !.events = MapSeq(BinEvent, @)], @)], @)]

(* ======================= soundscripts ==================================== *)
\* a pitch of (PITCH_NORM, PITCH_NORM) is the number 100 twice and is not written
\* (it is the number 100 twice); a sound with any operator stack is a version 2 sound
\* (PITCH_NORM and 100.0 are two spellings of one number: a pitch that is 100 at both ends is the default)
SndDecay(v) == [v EXCEPT !.pitch = IF @[1] \in {"PITCH_NORM", "100.0"} /\ @[2] \in {"PITCH_NORM", "100.0"} THEN <<"100.0", "100.0">> ELSE @,
                         !.force = @ \/ \E k \in 1..3 : v.stacks[k] # <<>>]

(* ======================= particle systems ================================ *)
\* (no decay: options, operators and children read back as written)

(* ======================= the law ========================================= *)
Decay(fmt, v) ==
    CASE fmt = "vcd" -> TextScene(v)
      [] fmt = "bvcd" -> BinScene(v)
      [] fmt = "snd" -> SndDecay(v)
      [] OTHER -> v
\* Which characters a writer can express.  `chars` is the widest class of character in the
\* value's strings: "ascii", "latin1" (up to U+00FF) or "wide" (beyond).  Command sequences and
\* SMD meshes are ASCII files; text scenes, binary scenes (strings live in a Python string pool),
\* soundscripts and materials carry any character; particle systems go through DMX's default
\* ASCII-only mode.  In the
\* model's own strings a character outside ASCII is written {hex}; the replayer substitutes it.
Representable(fmt, v, chars) ==
    CASE fmt = "cmdseq" -> CmdSeqRepresentable(v, chars = "ascii")
      [] fmt = "smd" -> chars = "ascii"
      \* DMX is written in its default (ASCII-safe) mode: anything else must be refused
      [] fmt = "pcf" -> chars = "ascii"
      [] fmt = "vcd" -> VcdRepresentable(v)
      [] OTHER -> TRUE
\* scenes.image stores its string pool in one 8-bit encoding: the reader always decodes
\* Latin-1, the writer encodes Latin-1 unless told otherwise ("default" = argument omitted).
\* The writer must raise for what its encoding cannot express; what is read back is the same
\* strings only if writer and reader agree on the bytes.
ImageWritable(enc, chars) == enc = "utf8" \/ chars # "wide"
ImageRoundTrips(enc, chars) == IF enc = "utf8" THEN chars = "ascii" ELSE chars # "wide"
\* reading what was written loses nothing more the second time
DecayIdempotent(fmt, v) == Decay(fmt, Decay(fmt, v)) = Decay(fmt, v)

(* ======================= scenes.image ==================================== *)
\* An abstract scene is a sequence of events [speak, start, end, p1, cc_type, cc_token, combined]
\* with times in milliseconds (end = -1: no end time).
MaxOf(S, dflt) == IF S = {} THEN dflt ELSE CHOOSE x \in S : \A y \in S : y <= x
EvEnd(e) == IF e.end # 0 - 1 THEN e.end ELSE e.start
Dur(sc) == MaxOf({EvEnd(sc[k]) : k \in 1..Len(sc)}, 0)
DurSpeak(sc) == MaxOf({EvEnd(sc[k]) : k \in {k \in 1..Len(sc) : sc[k].speak}}, 0)
\* the caption a Speak event plays, "" if none
Caption(e) ==
    IF e.cc_type = "Disabled" THEN ""
    ELSE IF e.cc_type = "Slave" /\ e.combined THEN ""
    ELSE IF e.cc_token # "" THEN e.cc_token ELSE e.p1
Sounds(sc) == UNION {{sc[k].p1} \cup (IF Caption(sc[k]) = "" THEN {} ELSE {Caption(sc[k])})
                     : k \in {k \in 1..Len(sc) : sc[k].speak}}
Summary(sc) == [dur |-> Dur(sc), speak |-> DurSpeak(sc), sounds |-> Sounds(sc)]

\* An entry of the in-memory dictionary.  The dictionary key is the checksum the entry had
\* when it was put there; `cur` is the file name the entry's own checksum belongs to now
\* (assigning entry.filename recomputes the checksum, the dictionary key stays - the writer
\* must go by the entries, never by the keys).
NoEntry == [here |-> FALSE, cur |-> "", scene |-> "", sum |-> [dur |-> 0, speak |-> 0, sounds |-> {}], parsed |-> FALSE, named |-> FALSE]
FromScene(k, id, sc) == [here |-> TRUE, cur |-> k, scene |-> id, sum |-> Summary(sc), parsed |-> TRUE, named |-> TRUE]
Present(img) == {k \in DOMAIN img : img[k].here}
\* the container format requires distinct checksums
DistinctCur(img) == \A a, b \in Present(img) : a # b => img[a].cur # img[b].cur
\* a saved file: version and the table in file order - sorted by the entries' own checksums,
\* whether the entries came in a dictionary or a list; version 2 has no last-speak field
SortedBy(rank, img, keys) == SortSeq(SetToSeq(keys), LAMBDA a, b : rank[img[a].cur] < rank[img[b].cur])
SaveFile(img, rank, ver) ==
    LET keys == Present(img)
        order == SortedBy(rank, img, keys) IN
    [ver |-> ver,
     table |-> [i \in 1..Cardinality(keys) |->
                   LET e == img[order[i]] IN
                   [k |-> e.cur, scene |-> e.scene,
                    sum |-> IF ver = 3 THEN e.sum ELSE [e.sum EXCEPT !.speak = 0 - 1]]]]
LoadedEntry(row) ==
    [here |-> TRUE, cur |-> row.k, scene |-> row.scene,
     sum |-> IF row.sum.speak = 0 - 1 THEN [row.sum EXCEPT !.speak = row.sum.dur] ELSE row.sum,
     parsed |-> FALSE, named |-> FALSE]
\* a loaded dictionary is keyed by the checksums in the file
LoadFile(file, keys) ==
    [k \in keys |-> IF \E i \in 1..Len(file.table) : file.table[i].k = k
                    THEN LoadedEntry(file.table[CHOOSE i \in 1..Len(file.table) : file.table[i].k = k])
                    ELSE NoEntry]
MergeFile(img, file) == LET l == LoadFile(file, DOMAIN img) IN [k \in DOMAIN img |-> IF l[k].here THEN l[k] ELSE img[k]]

\* sortedness over real 32-bit checksums, logged as (high 16 bits, low 16 bits)
CrcLess(a, b) == a[1] < b[1] \/ (a[1] = b[1] /\ a[2] < b[2])
=============================================================================
