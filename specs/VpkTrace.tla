------------------------------ MODULE VpkTrace ------------------------------
(* Validates records logged from the real srctools.vpk code against VpkOps.      *)
(*                                                                              *)
(* k = "step": one API call on a real VPK in a temporary directory.  pre / post  *)
(*   are the projected states before and after (in-memory tree, footer, numbered *)
(*   archives and the _dir file, the latter decoded by the harness's own decoder *)
(*   and byte matcher, not by srctools), a the call, res its outcome, obs what   *)
(*   the public API answers afterwards (filenames, read, verify, the three name  *)
(*   spellings, and a fresh read-only VPK opened on the same path).  The record  *)
(*   is judged on its own, by what a READER recovers: outcome, names, every      *)
(*   file's bytes and checksum (VpkOps.Read on the projected placement), the     *)
(*   written file's region inside its archive, the documented limit / index      *)
(*   rules - never the writer's offsets or layout - and the API's answers must   *)
(*   be what the specification reads out of post.                                *)
(* k = "parts": _get_file_parts(value) for one spelling of a name.               *)
(* Mismatches are printed (one JSON line each), never fatal.                     *)
EXTENDS VpkOps, TLC, Json, IOUtils

Recs == ndJsonDeserialize(IOEnv.TRACE_FILE)
N == Len(Recs)
VARIABLE i

\* j.files = every other file in the archive's directory, by name; numbered archive i is the one the
\* specification names ArchName(fname, i)
ArchOf(r, j) == [k \in 1..r.cfg.narch |->
                    IF ~IsDirName(r.cfg.fname) THEN <<>>
                    ELSE LET nm == ArchName(r.cfg.fname, k - 1) IN
                         IF nm \in DOMAIN j.files THEN j.files[nm] ELSE <<>>]
StOf(r, j) == [sz |-> r.cfg.sz, limit |-> r.cfg.limit, fname |-> r.cfg.fname,
               single |-> ~IsDirName(r.cfg.fname), mode |-> j.mode,
               tree |-> j.tree, foot |-> j.foot, arch |-> ArchOf(r, j), disk |-> j.disk,
               want |-> j.want, wantDisk |-> j.wantDisk]
Bad(c, e) == [ok |-> FALSE, clause |-> c, exp |-> e]
Good == [ok |-> TRUE, clause |-> "", exp |-> 0]
SameFn(f, g) == DOMAIN f = DOMAIN g /\ \A x \in DOMAIN f : f[x] = g[x]
Keys(f) == DOMAIN f

Expected(pre, a) ==
    CASE a.op = "reopen"   -> Reopen(pre, a.m)
      [] a.op = "newfile"  -> NewFile(pre, a.n)
      [] a.op = "addfile"  -> AddFile(pre, a.n, a.c, a.a)
      [] a.op = "write"    -> Write(pre, a.n, a.c, a.a)
      [] a.op = "del"      -> Del(pre, a.n)
      [] a.op = "writedir" -> WriteDir(pre)

\* what the API must answer in state s
ObsOK(s, o) ==
    IF s.mode = "none" THEN Good
    ELSE IF {o.names[k] : k \in 1..Len(o.names)} # DOMAIN s.tree \/ Len(o.names) # Cardinality(DOMAIN s.tree)
        THEN Bad("obs.names", [n \in DOMAIN s.tree |-> 1])
    ELSE IF o.len # Cardinality(DOMAIN s.tree) THEN Bad("obs.len", Cardinality(DOMAIN s.tree))
    ELSE IF \E n \in DOMAIN s.tree : o.read[n] # Read(s, n)
        THEN Bad("obs.read", [n \in DOMAIN s.tree |-> Read(s, n)])
    ELSE IF \E n \in DOMAIN s.tree : o.verify[n] # Verify(s, n)
        THEN Bad("obs.verify", [n \in DOMAIN s.tree |-> Verify(s, n)])
    ELSE IF o.verify_all # (\A n \in DOMAIN s.tree : Verify(s, n)) THEN Bad("obs.verify_all", 0)
    \* every spelling of every name (present or not) finds the same file
    ELSE IF \E n \in DOMAIN o.forms : \E k \in 1..Len(o.forms[n]) :
                \/ o.forms[n][k].has # (n \in DOMAIN s.tree)
                \/ (n \in DOMAIN s.tree /\ o.forms[n][k].cid # Read(s, n))
        THEN Bad("obs.forms", 0)
    ELSE Good

\* what a fresh read-only VPK on the same path must answer
FreshOK(s, f) ==
    IF s.disk.st # "ok" THEN (IF f.ok THEN Bad("fresh.opens", s.disk.st) ELSE Good)
    ELSE IF ~f.ok THEN Bad("fresh.fails", 0)
    ELSE IF {f.names[k] : k \in 1..Len(f.names)} # DOMAIN s.disk.tree \/ Len(f.names) # Cardinality(DOMAIN s.disk.tree)
        THEN Bad("fresh.names", [n \in DOMAIN s.disk.tree |-> 1])
    ELSE IF \E n \in DOMAIN s.disk.tree : f.read[n] # DiskRead(s, n)
        THEN Bad("fresh.read", [n \in DOMAIN s.disk.tree |-> DiskRead(s, n)])
    ELSE IF \E n \in DOMAIN s.disk.tree :
                f.verify[n] # (DiskRead(s, n) # Garbage /\ DiskRead(s, n) = s.disk.tree[n].c)
        THEN Bad("fresh.verify", 0)
    ELSE Good

\* ---- what the READER sees: the property does not fix where the writer puts the bytes, only that
\* every listed file can be read back.  Offsets, the order of blocks, dead space and whether a file
\* grows on rewrite are the writer's choice; the specification's own placement (VpkOps.WriteEntry) is
\* one such choice and is not demanded of the code.
RegionOK(s, n) == LET e == s.tree[n] IN
    /\ e.plen <= PreMax                                           \* the length field has 16 bits
    /\ (e.len > 0 => e.off + e.len <= BytesLen(Source(e, s.foot, s.arch)))    \* inside the named archive / tail
\* the tail regions of two different live files do not cut into each other (the very same region twice is
\* the same bytes shared)
Apart(s, n, m) == LET e == s.tree[n] f == s.tree[m] IN
    \/ e.len = 0 \/ f.len = 0 \/ e.idx # f.idx
    \/ e.off + e.len <= f.off \/ f.off + f.len <= e.off
    \/ (e.off = f.off /\ e.len = f.len)
\* documented API: at most dir_data_limit bytes of a file are kept in the directory entry; what is beyond
\* goes to the numbered archive given as arch_index, or stays in the directory file when arch_index is
\* None, the VPK is a single file or there is no limit
PlacedAsDocumented(s, n, a) == LET e == s.tree[n] IN
    /\ ((~s.single /\ s.limit # None) => e.plen <= s.limit)
    /\ (e.len > 0 => e.idx = (IF s.single \/ s.limit = None \/ a = None THEN None ELSE a))

StepVerdict(r) ==
    LET pre == StOf(r, r.pre) post == StOf(r, r.post) a == r.a
        e == Expected(pre, a)
        x == e.s
        ok == e.res = "ok"
        \* an effective data write (writing the bytes a file already has is defined to do nothing)
        touched == a.op \in {"addfile", "write"} /\ ok
                   /\ (a.n \notin DOMAIN pre.tree \/ pre.tree[a.n].c # a.c)
        loaded == a.op = "reopen" /\ ok /\ x.mode # "w" /\ pre.disk.st = "ok"
        \* what every file of the object must read as afterwards
        WantRead(n) == IF loaded THEN DiskRead(pre, n)
                       ELSE IF touched /\ n = a.n THEN a.c
                       ELSE IF a.op \in {"newfile", "addfile"} /\ ok /\ n = a.n THEN 0
                       ELSE Read(pre, n)
        WantCrc(n) == IF loaded THEN pre.disk.tree[n].c
                      ELSE IF touched /\ n = a.n THEN a.c
                      ELSE IF a.op \in {"newfile", "addfile"} /\ ok /\ n = a.n THEN 0
                      ELSE pre.tree[n].c
    IN  \* the harness's own bookkeeping of what was written (machinery, not the code under test)
        IF r.res = e.res /\ ~(SameFn(x.want, post.want) /\ SameFn(x.wantDisk, post.wantDisk))
            THEN Bad("ghost", [want |-> x.want, wantDisk |-> x.wantDisk])
        ELSE IF r.res # e.res THEN Bad("res", e.res)               \* outcome, refusals of read-only objects
        ELSE IF x.mode # post.mode THEN Bad("mode", x.mode)
        \* exactly the files that should exist
        ELSE IF DOMAIN post.tree # DOMAIN x.tree THEN Bad("names", [n \in DOMAIN x.tree |-> 1])
        \* each reads back the bytes last written to it (all others: what they read as before), checksum too
        ELSE IF \E n \in DOMAIN post.tree : Read(post, n) # WantRead(n)
            THEN Bad(IF touched THEN "prop.readback" ELSE "reads", [n \in DOMAIN post.tree |-> WantRead(n)])
        ELSE IF \E n \in DOMAIN post.tree : post.tree[n].c # WantCrc(n)
            THEN Bad("crc", [n \in DOMAIN post.tree |-> WantCrc(n)])
        \* the format as the reader sees it, for the file just written
        ELSE IF touched /\ ~RegionOK(post, a.n) THEN Bad("region", PreMax)
        ELSE IF touched /\ \E m \in DOMAIN post.tree \ {a.n} : ~Apart(post, a.n, m) THEN Bad("overlap", 0)
        ELSE IF touched /\ ~PlacedAsDocumented(post, a.n, a.a) THEN Bad("place.documented", 0)
        \* write_dirfile: a reader of the _dir file now finds exactly the object's files and bytes
        ELSE IF a.op = "writedir" /\ ok /\ post.disk.st # "ok" THEN Bad("disk.state", "ok")
        ELSE IF a.op = "writedir" /\ ok /\ DOMAIN post.disk.tree # DOMAIN pre.tree
            THEN Bad("disk.names", [n \in DOMAIN pre.tree |-> 1])
        ELSE IF a.op = "writedir" /\ ok /\ \E n \in DOMAIN pre.tree :
                    DiskRead(post, n) # Read(pre, n) \/ post.disk.tree[n].c # pre.tree[n].c
            THEN Bad("disk.reads", [n \in DOMAIN pre.tree |-> Read(pre, n)])
        \* opening for writing wipes the _dir file; a refused or failed call leaves it alone
        ELSE IF a.op = "reopen" /\ x.disk.st # post.disk.st THEN Bad("disk.state", x.disk.st)
        ELSE LET o == ObsOK(post, r.obs) IN
             IF ~o.ok THEN o ELSE FreshOK(post, r.obs.fresh)

(* ---- _get_file_parts: string, 2-tuple and 3-tuple spellings ------------------------------ *)
\* strings are sequences of code points; 47 = "/", 46 = ".", 92 = "\"
RECURSIVE SplitBy(_, _)
SplitBy(q, ch) == LET k == SelectInSeq(q, LAMBDA x : x = ch) IN
                  IF k = 0 THEN <<q>> ELSE <<SubSeq(q, 1, k - 1)>> \o SplitBy(SubSeq(q, k + 1, Len(q)), ch)
LastIdx(q, ch) == SelectLastInSeq(q, LAMBDA x : x = ch)
RECURSIVE JoinBy(_, _)
JoinBy(parts, ch) == IF Len(parts) = 0 THEN <<>>
                     ELSE IF Len(parts) = 1 THEN parts[1]
                     ELSE parts[1] \o <<ch>> \o JoinBy(Tail(parts), ch)
RECURSIVE StripR(_, _)
StripR(q, ch) == IF Len(q) > 0 /\ q[Len(q)] = ch THEN StripR(SubSeq(q, 1, Len(q) - 1), ch) ELSE q
\* posixpath.normpath
RECURSIVE NormComps(_, _, _)
NormComps(comps, acc, rooted) ==
    IF Len(comps) = 0 THEN acc
    ELSE LET c == comps[1] rest == Tail(comps) IN
         IF c = <<>> \/ c = <<46>> THEN NormComps(rest, acc, rooted)
         ELSE IF c # <<46, 46>> \/ (~rooted /\ Len(acc) = 0) \/ (Len(acc) > 0 /\ acc[Len(acc)] = <<46, 46>>)
              THEN NormComps(rest, Append(acc, c), rooted)
         ELSE IF Len(acc) > 0 THEN NormComps(rest, SubSeq(acc, 1, Len(acc) - 1), rooted)
         ELSE NormComps(rest, acc, rooted)
NormPath(p) ==
    IF Len(p) = 0 THEN <<46>>
    ELSE LET slashes == IF p[1] # 47 THEN 0
                        ELSE IF Len(p) >= 2 /\ p[2] = 47 /\ ~(Len(p) >= 3 /\ p[3] = 47) THEN 2 ELSE 1
             body == JoinBy(NormComps(SplitBy(p, 47), <<>>, slashes > 0), 47)
             full == [k \in 1..slashes |-> 47] \o body
         IN IF Len(full) = 0 THEN <<46>> ELSE full
\* os.path.split
SplitPath(p) == LET k == LastIdx(p, 47) IN
                IF k = 0 THEN [head |-> <<>>, tail |-> p]
                ELSE LET h == SubSeq(p, 1, k) IN
                     [head |-> IF StripR(h, 47) = <<>> THEN h ELSE StripR(h, 47), tail |-> SubSeq(p, k + 1, Len(p))]
Back2Slash(q) == [k \in 1..Len(q) |-> IF q[k] = 92 THEN 47 ELSE q[k]]
Parts(form, v) ==
    LET raw == CASE form = "s"  -> LET sp == SplitPath(v[1]) IN [p |-> sp.head, f |-> sp.tail, e |-> <<>>]
                 [] form = "t2" -> [p |-> v[1], f |-> v[2], e |-> <<>>]
                 [] form = "t3" -> [p |-> v[1], f |-> v[2], e |-> v[3]]
        k == LastIdx(raw.f, 46)
        fe == IF raw.e = <<>> /\ k > 0
              THEN [f |-> SubSeq(raw.f, 1, k - 1), e |-> SubSeq(raw.f, k + 1, Len(raw.f))]
              ELSE [f |-> raw.f, e |-> raw.e]
        path0 == StripR(Back2Slash(NormPath(raw.p)), 47)
        path == IF path0 = <<46>> THEN <<>> ELSE path0
    IN <<path, fe.f, fe.e>>
PartsVerdict(r) == LET e == Parts(r.form, r.v) IN IF e # r.res THEN Bad("parts", e) ELSE Good

Verdict(r) == CASE r.k = "step" -> StepVerdict(r)
                [] r.k = "parts" -> PartsVerdict(r)

Init == i = 0
Next == i < N /\ i' = i + 1
Checked == i = 0 \/ LET v == Verdict(Recs[i]) IN
              v.ok \/ PrintT(ToJson([tag |-> "MISMATCH", i |-> i, clause |-> v.clause, exp |-> v.exp]))
AllConsumed == TLCGet("stats").diameter = N + 1
=============================================================================
