SPECIFICATION Spec
CONSTANTS
  MaxMut = 2
  Full = FALSE
INVARIANT Disjoint
INVARIANT Complete
INVARIANT AllFields
INVARIANT FreshIds
PROPERTY Frame
PROPERTY Effective
PROPERTY OperandsKept
VIEW View
CHECK_DEADLOCK FALSE
