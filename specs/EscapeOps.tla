------------------------------ MODULE EscapeOps ------------------------------
(* Pure operators of the escape design of srctools.tokenizer.                   *)
(*   - the escape table (ESCAPES / ESCAPES_INV),                                *)
(*   - Escape(s, ml): what escape_text(s, multiline) must BE,                   *)
(*   - the tokenizer's quoted-string reader (_handle_string) as a step machine: *)
(*     one step per character delivered, modes "Str" / "StrEsc".                *)
(* Strings are sequences of code points (Seq(Nat)); the end of the input is the *)
(* pseudo character EOFC = -1.  No variables: Escape.tla (model checking),      *)
(* EscapeTrace.tla (validation of implementation records) and TokenizerOps.tla  *)
(* (the whole lexer) all use exactly these definitions.                         *)
EXTENDS Integers, Sequences

EOFC == 0 - 1
LF == 10
CR == 13
TAB == 9
SPACE == 32
DQ == 34        \* "
SQ == 39        \* '
BSL == 92       \* \
SLASH == 47
QMARK == 63

(* ---- the table: escape letter -> character ------------------------------ *)
\* n t v b r f a  and the five characters that stand for themselves
EscLetters == {110, 116, 118, 98, 114, 102, 97, DQ, SQ, SLASH, BSL, QMARK}
EscChar(e) == CASE e = 110 -> LF
                [] e = 116 -> TAB
                [] e = 118 -> 11
                [] e = 98  -> 8
                [] e = 114 -> CR
                [] e = 102 -> 12
                [] e = 97  -> 7
                [] OTHER   -> e          \* " ' / \ ?  (only asked for e \in EscLetters)

\* Characters that escape_text replaces.  '/' and '?' are accepted after a backslash but never
\* produced; LF is left alone in multiline mode.
MustEscape(c, ml) == \/ c \in {TAB, 11, 8, CR, 12, 7, DQ, SQ, BSL}
                     \/ (c = LF /\ ~ml)
\* the letter that denotes c (inverse of EscChar on the characters that are escaped)
LetterOf(c) == CHOOSE e \in EscLetters : EscChar(e) = c
EscapeChar(c, ml) == IF MustEscape(c, ml) THEN <<BSL, LetterOf(c)>> ELSE <<c>>

RECURSIVE EscapeFrom(_, _, _)
EscapeFrom(s, ml, k) == IF k > Len(s) THEN <<>> ELSE EscapeChar(s[k], ml) \o EscapeFrom(s, ml, k + 1)
Escape(s, ml) == EscapeFrom(s, ml, 1)

\* The table is a bijection between the letters and the characters they denote, so the two
\* directions stay mutually inverse.
TableOK == /\ \A e1, e2 \in EscLetters : EscChar(e1) = EscChar(e2) => e1 = e2
           /\ \A c \in {LF, TAB, 11, 8, CR, 12, 7, DQ, SQ, BSL} : EscChar(LetterOf(c)) = c

(* ---- reading the escaped text as units ----------------------------------- *)
\* A backslash takes the following character with it.  "Raw" = not part of such a pair.
RECURSIVE RawChars(_, _)
RawChars(e, k) == IF k > Len(e) THEN {}
                  ELSE IF e[k] = BSL THEN RawChars(e, k + 2)
                  ELSE {e[k]} \cup RawChars(e, k + 1)
NoRawQuote(e) == DQ \notin RawChars(e, 1)
NoRawBreak(e) == LF \notin RawChars(e, 1) /\ CR \notin RawChars(e, 1)
\* no backslash is left without a partner at the end, and none is followed by a line feed
\* (which the tokenizer would swallow)
RECURSIVE PairsOK(_, _)
PairsOK(e, k) == IF k > Len(e) THEN TRUE
                 ELSE IF e[k] = BSL THEN k + 1 <= Len(e) /\ e[k + 1] \in EscLetters /\ PairsOK(e, k + 2)
                 ELSE PairsOK(e, k + 1)

(* ---- the quoted-string reader, one step per character delivered ---------- *)
\* String-reader state: v = characters collected, scr = "the last character was a raw CR",
\* nl = line feeds counted so far (every raw CR, and every raw LF that does not follow a raw CR).
\* Result of a step: the new state and what happened:
\*   "more"    keep reading in "Str"        "esc"   a backslash was read, next step is StrEsc
\*   "close"   the closing quote was read   "err_eof" / "err_esc"   input ended inside
SInit == [v |-> <<>>, scr |-> FALSE, nl |-> 0]
StrStep(s, c, allowEsc) ==
    IF c = DQ THEN [s |-> s, k |-> "close"]
    ELSE IF c = CR THEN [s |-> [v |-> Append(s.v, LF), scr |-> TRUE, nl |-> s.nl + 1], k |-> "more"]
    ELSE IF c = LF THEN
        IF s.scr THEN [s |-> [s EXCEPT !.scr = FALSE], k |-> "more"]
        ELSE [s |-> [v |-> Append(s.v, LF), scr |-> FALSE, nl |-> s.nl + 1], k |-> "more"]
    ELSE IF c = BSL /\ allowEsc THEN [s |-> [s EXCEPT !.scr = FALSE], k |-> "esc"]
    ELSE IF c = EOFC THEN [s |-> [s EXCEPT !.scr = FALSE], k |-> "err_eof"]
    ELSE [s |-> [v |-> Append(s.v, c), scr |-> FALSE, nl |-> s.nl], k |-> "more"]
\* the character after a backslash
EscStep(s, e) ==
    IF e = EOFC THEN [s |-> s, k |-> "err_esc"]
    ELSE IF e = LF THEN [s |-> s, k |-> "more"]                       \* line continuation: swallowed, not counted
    ELSE IF e \in EscLetters THEN [s |-> [s EXCEPT !.v = Append(s.v, EscChar(e))], k |-> "more"]
    ELSE [s |-> [s EXCEPT !.v = s.v \o <<BSL, e>>], k |-> "more"]      \* unknown escape: kept verbatim

\* Read body (the text after the opening quote) to its closing quote.
\* Result: [ok, v, nl, used] - used = number of characters consumed including the closing quote.
RECURSIVE ReadQuoted(_, _, _, _, _)
ReadQuoted(body, k, s, inEsc, allowEsc) ==
    LET c == IF k <= Len(body) THEN body[k] ELSE EOFC
        r == IF inEsc THEN EscStep(s, c) ELSE StrStep(s, c, allowEsc)
    IN  IF r.k = "close" THEN [ok |-> TRUE, v |-> r.s.v, nl |-> r.s.nl, used |-> k]
        ELSE IF r.k \in {"err_eof", "err_esc"} THEN [ok |-> FALSE, v |-> r.s.v, nl |-> r.s.nl, used |-> k]
        ELSE ReadQuoted(body, k + 1, r.s, r.k = "esc", allowEsc)
Unquote(body, allowEsc) == ReadQuoted(body, 1, SInit, FALSE, allowEsc)

\* number of raw line feeds escape_text leaves in the text (multiline mode only)
RECURSIVE CountLF(_, _)
CountLF(s, k) == IF k > Len(s) THEN 0 ELSE (IF s[k] = LF THEN 1 ELSE 0) + CountLF(s, k + 1)

\* The inverse law for one string, stated on the string reader alone.
InverseLaw(s, ml) ==
    LET e == Escape(s, ml)
        u == Unquote(Append(e, DQ), TRUE)
    IN  /\ u.ok /\ u.v = s
        /\ u.used = Len(e) + 1                  \* the quote that closes is the one we appended
        /\ u.nl = IF ml THEN CountLF(s, 1) ELSE 0
=============================================================================
