SPECIFICATION SimSpec
CONSTANTS
  Dbs <- RealDbs
  Hot <- RealHot
  Missing = "verif_no_such_class"
  MaxHist = 30
INVARIANT InitWellFormed
INVARIANT EndOnce
INVARIANT EndConsistent
INVARIANT EndResolved
INVARIANT EndSameAsFull
INVARIANT AllAfterLoad
INVARIANT EmitBehaviour
PROPERTY IdentityStable
CHECK_DEADLOCK FALSE
