--------------------------------- MODULE FixupMap ---------------------------------
EXTENDS FixupMapOps, TLC, Json
CONSTANTS Spellings, Vals
Sp(n, sp, d) == [name |-> n, sp |-> sp, dollar |-> d]
SpellingsDef == {Sp("a", "a", FALSE), Sp("a", "A", TRUE), Sp("b", "b", TRUE), Sp("b", "B", FALSE), Sp("c", "c", FALSE)}
VARIABLES f, act
vars == <<f>>
Init == f = <<>> /\ act = [op |-> "init"]
DoSet(s, v) == f' = Set(f, s, v) /\ act' = [op |-> "set", s |-> s, val |-> v]
DoDel(s) == f' = Del(f, s) /\ act' = [op |-> "del", s |-> s]
DoGet(s) == UNCHANGED f /\ act' = [op |-> "get", s |-> s, res |-> [val |-> Get(f, s), has |-> Has(f, s)]]
DoSetDefault(s, v) == f' = SetDefault(f, s, v).s /\ act' = [op |-> "setdefault", s |-> s, val |-> v, res |-> SetDefault(f, s, v).res]
DoClear == f # <<>> /\ f' = <<>> /\ act' = [op |-> "clear"]
DoCopy == UNCHANGED f /\ act' = [op |-> "copy"]
Next == \/ \E s \in Spellings, v \in Vals : DoSet(s, v) \/ DoSetDefault(s, v)
        \/ \E s \in Spellings : DoDel(s) \/ DoGet(s)
        \/ DoClear \/ DoCopy
Spec == Init /\ [][Next]_vars
IndexesDistinct == Distinct(f) /\ Positive(f)
\* the first spelling is kept for the life of the variable
FirstSpellingKept == [][\A k \in DOMAIN f \cap DOMAIN f' : f'[k].var = f[k].var /\ f'[k].idx = f[k].idx]_vars
SetThenGet == \A s \in Spellings, v \in Vals : Get(Set(f, s, v), s) = v /\ Has(Set(f, s, v), s)
DelThenGone == \A s \in Spellings : ~Has(Del(f, s), s)
ExportSorted == \A i \in 1..(Len(Export(f)) - 1) : Export(f)[i].idx < Export(f)[i + 1].idx
View == vars
ToPairs(g) == Export(g)
Emit == PrintT(ToJson([tag |-> "EDGE", s |-> ToPairs(f), a |-> act', t |-> ToPairs(f')]))
=============================================================================
