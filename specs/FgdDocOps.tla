------------------------------ MODULE FgdDocOps ------------------------------
(* The FGD text format as a specification (C16, the codec part).               *)
(*                                                                             *)
(*  - character level: the two escaping disciplines, the tokenizer's           *)
(*    unescaping, and the splitting of long strings into "+"-joined sections   *)
(*    (LongSections), with the law Concat(Unescape(sections)) = text;          *)
(*  - line level: ExportLines(ent, cs, ls) is the exact text FGD export must   *)
(*    produce for an entity definition (cs = custom_syntax, ls =               *)
(*    label_spawnflags), as a sequence of lines;                               *)
(*  - definition level: ExportParse(ent, cs, ls) is the definition obtained by *)
(*    parsing that text: the identity up to the documented decays (I/O types,  *)
(*    boolean defaults, spawnflags captions, and with custom syntax off: tags, *)
(*    resources, extension helpers, double quotes);                            *)
(*  - BinDecay(ent) is what the binary database format keeps of a definition.  *)
(*                                                                             *)
(* Definitions are the projections logged by the harness (records with string  *)
(* fields; see harness/c16_driver.py proj_ent).  Strings are TLC strings:      *)
(* Len, \o and SubSeq work on them.                                            *)
EXTENDS Integers, Sequences, FiniteSets, TLC, SequencesExt

(* ======================= characters and strings ========================== *)
Ch(s, i) == SubSeq(s, i, i)
Prefix(s, n) == SubSeq(s, 1, n)
Drop(s, n) == SubSeq(s, n + 1, Len(s))
Chars(s) == {Ch(s, i) : i \in 1..Len(s)}

\* apply a character -> string map to every character (balanced recursion)
RECURSIVE MapStr(_, _, _, _)
MapStr(F(_), s, lo, hi) ==
    IF lo > hi THEN ""
    ELSE IF lo = hi THEN F(Ch(s, lo))
    ELSE LET mid == (lo + hi) \div 2 IN MapStr(F, s, lo, mid) \o MapStr(F, s, mid + 1, hi)
Map(F(_), s) == MapStr(F, s, 1, Len(s))

\* escape_text(): the characters the tokenizer would otherwise not give back
\* (the rarely used \v \b \a are outside the alphabet this specification covers)
ExtCh(c) == CASE c = "\n" -> "\\n" [] c = "\t" -> "\\t" [] c = "\r" -> "\\r" [] c = "\f" -> "\\f"
              [] c = "\"" -> "\\\"" [] c = "'" -> "\\'" [] c = "\\" -> "\\\\" [] OTHER -> c
EscExt(s) == Map(ExtCh, s)
\* the original FGD parser knows \n only; double quotes become two single quotes
PlainCh(c) == CASE c = "\n" -> "\\n" [] c = "\"" -> "''" [] OTHER -> c
EscPlain(s) == Map(PlainCh, s)
Esc(ext, s) == IF ext THEN EscExt(s) ELSE EscPlain(s)
\* what a text is after a plain-syntax round trip
QuoteCh(c) == IF c = "\"" THEN "''" ELSE c
PlainDecay(s) == Map(QuoteCh, s)
NlCh(c) == IF c = "\n" THEN " " ELSE c
NlToSpace(s) == Map(NlCh, s)

\* the tokenizer reading the inside of a quoted string: \x escapes, a backslash
\* before a newline swallows it, unknown escapes are kept literally
UnCh(c) == CASE c = "n" -> "\n" [] c = "t" -> "\t" [] c = "r" -> "\r" [] c = "f" -> "\f"
             [] c = "\"" -> "\"" [] c = "'" -> "'" [] c = "\\" -> "\\" [] c = "/" -> "/" [] c = "?" -> "?"
             [] c = "\n" -> "" [] OTHER -> "\\" \o c
\* (written over the positions of the backslashes so that the recursion depth is the
\* number of escapes, not the length of the string)
BackPos(s) == SortSeq(SetToSeq({j \in 1..Len(s) : Ch(s, j) = "\\"}), LAMBDA x, y : x < y)
\* the backslashes that start an escape pair: one that is itself escaped does not
RECURSIVE Starts(_, _, _)
Starts(B, k, from) ==
    IF k > Len(B) THEN <<>>
    ELSE IF B[k] < from THEN Starts(B, k + 1, from)
    ELSE <<B[k]>> \o Starts(B, k + 1, B[k] + 2)
PairStarts(s) == Starts(BackPos(s), 1, 1)
RECURSIVE Un(_, _, _, _)
Un(s, P, k, from) ==
    IF k > Len(P) \/ P[k] = Len(s) THEN SubSeq(s, from, Len(s))
    ELSE SubSeq(s, from, P[k] - 1) \o UnCh(Ch(s, P[k] + 1)) \o Un(s, P, k + 1, P[k] + 2)
Unescape(s) == Un(s, PairStarts(s), 1, 1)
\* the inside of a quoted string must not contain a bare quote nor end in a lone backslash
WellFormedSection(s) ==
    LET P == PairStarts(s)
        esc == {P[k] + 1 : k \in 1..Len(P)}
    IN  /\ (P = <<>> \/ P[Len(P)] # Len(s))
        /\ \A j \in 1..Len(s) : Ch(s, j) = "\"" => j \in esc

(* ======================= long strings ==================================== *)
\* highest p <= lim - 2 (0-based start) with s[p..p+1] = "\n" escaped, as split position p + 2;
\* 1 if there is none (Python: rfind('\\n', 0, lim) + 2)
MaxOf(S) == CHOOSE x \in S : \A y \in S : y <= x
RFindNl(s, q) ==   \* q = highest 1-based index the backslash may have
    LET S == {j \in 1..q : Ch(s, j) = "\\" /\ Ch(s, j + 1) = "n"} IN IF S = {} THEN 1 ELSE MaxOf(S) + 1
RFindSpace(s, q) == LET S == {j \in 1..q : Ch(s, j) = " "} IN IF S = {} THEN 0 ELSE MaxOf(S)
\* number of consecutive backslashes ending at index q
RECURSIVE BackRun(_, _)
BackRun(s, q) == IF q < 1 \/ Ch(s, q) # "\\" THEN 0 ELSE 1 + BackRun(s, q - 1)
CutsEscape(s, q) == BackRun(s, q) % 2 = 1

\* _write_longstring as designed: escaped text longer than Limit is cut after the
\* last escaped newline within the limit if that leaves more than MinNl characters,
\* else after the last space, else at the limit - but never between a backslash and
\* the character it escapes.  An empty text is one empty section ("").
RECURSIVE Sections(_, _, _)
Sections(rem, Limit, MinNl) ==
    IF Len(rem) <= Limit THEN <<rem>>
    ELSE LET p == RFindNl(rem, Limit - 1) IN
         IF p > MinNl THEN <<Prefix(rem, p)>> \o Sections(Drop(rem, p), Limit, MinNl)
         ELSE LET q == RFindSpace(rem, Limit)
                  cut == IF q # 0 THEN q ELSE IF CutsEscape(rem, Limit) THEN Limit - 1 ELSE Limit
              IN  <<Prefix(rem, cut)>> \o Sections(Drop(rem, cut), Limit, MinNl)
LongSections(ext, text, Limit, MinNl) == Sections(Esc(ext, text), Limit, MinNl)

RECURSIVE ConcatUn(_, _)
ConcatUn(secs, k) == IF k > Len(secs) THEN "" ELSE Unescape(secs[k]) \o ConcatUn(secs, k + 1)
\* what the parser reads back from "sec1" + "sec2" + ...
ReadSections(secs) == ConcatUn(secs, 1)
LongStringLaw(ext, text, Limit, MinNl) ==
    LET secs == LongSections(ext, text, Limit, MinNl) IN
    /\ \A k \in 1..Len(secs) : WellFormedSection(secs[k]) /\ Len(secs[k]) <= Limit
    /\ Len(secs) >= 1
    /\ ReadSections(secs) = IF ext THEN text ELSE PlainDecay(text)

LIMIT == 1000
MINNL == 128

(* ======================= tables ========================================== *)
IoValid == {"void", "integer", "boolean", "string", "float", "script", "vector",
            "target_destination", "color255"}
IoDecayType(t) ==
    CASE t \in IoValid -> t
      [] t \in {"flags", "node_id"} -> "integer"
      [] t \in {"angle_negative_pitch", "angle_pitch"} -> "float"
      [] t \in {"vecline", "origin", "axis", "vec_dir", "vec_local", "angle", "angle_local"} -> "vector"
      [] t = "color1" -> "color255"
      [] OTHER -> "string"
\* a custom (unknown) type name is kept as it is
IoDecay(io) == IF io.custom THEN io.type ELSE IoDecayType(io.type)
IoWritten(io) == IF io.custom THEN io.type ELSE IF io.type = "boolean" THEN "bool" ELSE IoDecayType(io.type)

KindTitle(k) ==
    CASE k = "baseclass" -> "BaseClass" [] k = "pointclass" -> "PointClass" [] k = "solidclass" -> "SolidClass"
      [] k = "keyframeclass" -> "KeyframeClass" [] k = "moveclass" -> "MoveClass" [] k = "filterclass" -> "FilterClass"
      [] k = "npcclass" -> "NpcClass" [] k = "extendclass" -> "ExtendClass"
\* resource type -> keyword written in @resources (FileType member name -> word)
ResWord(t) ==
    CASE t = "GENERIC" -> "file" [] t = "ENTITY" -> "entity" [] t = "ENTCLASS_FUNC" -> "func"
      [] t = "GAME_SOUND" -> "snd" [] t = "PARTICLE" -> "particle" [] t = "VSCRIPT_SQUIRREL" -> "vscript_squirrel"
      [] t = "MATERIAL" -> "mat" [] t = "TEXTURE" -> "tex" [] t = "CHOREO" -> "scene" [] t = "MODEL" -> "mdl"
      [] t = "BREAKABLE_CHUNK" -> "break_chunk" [] t = "WEAPON_SCRIPT" -> "weapon_script"
      \* the design gives every FileType member a keyword
      [] t = "SOUNDSCRIPT" -> "soundscript" [] t = "PARTICLE_FILE" -> "pcf"

Digits == {"0", "1", "2", "3", "4", "5", "6", "7", "8", "9"}
BareDefault(s) == Len(s) > 0 /\ Chars(s) \subseteq (Digits \cup {"-"})
\* A default is written without quotes only if it consists of digits and minus signs: such a
\* string is one bare token for the reader, whatever it is ("-", "--5", "5-3" included).
\* Everything else - blanks around a number, "+3", "1_0", "1e5", other digits - is quoted.
\* (BareDefault above.)
\*
\* A choice value is written without quotes if it is a number the way Python's float() reads
\* one, provided the reader gives the very same string back: no surrounding blanks (float()
\* would accept them, the token would lose them) and no "+" anywhere ("+" is the string
\* concatenation token).
Lower7(c) == CASE c = "I" -> "i" [] c = "N" -> "n" [] c = "F" -> "f" [] c = "T" -> "t" [] c = "Y" -> "y"
               [] c = "A" -> "a" [] c = "E" -> "e" [] OTHER -> c
\* digits, single underscores only between digits
DigitPart(s) == /\ Len(s) > 0 /\ Chars(s) \subseteq (Digits \cup {"_"})
                /\ Ch(s, 1) \in Digits /\ Ch(s, Len(s)) \in Digits
                /\ \A i \in 1..(Len(s) - 1) : ~(Ch(s, i) = "_" /\ Ch(s, i + 1) = "_")
Mantissa(m) ==
    LET dots == {i \in 1..Len(m) : Ch(m, i) = "."} IN
    IF dots = {} THEN DigitPart(m)
    ELSE /\ Cardinality(dots) = 1
         /\ LET d == CHOOSE i \in dots : TRUE
                 a == Prefix(m, d - 1)  b == Drop(m, d)
             IN  (a = "" \/ DigitPart(a)) /\ (b = "" \/ DigitPart(b)) /\ ~(a = "" /\ b = "")
Exponent(x) == DigitPart(IF Len(x) > 0 /\ Ch(x, 1) \in {"+", "-"} THEN Drop(x, 1) ELSE x)
UnsignedFloat(s) ==
    \/ s \in {"inf", "infinity", "nan"}
    \/ LET es == {i \in 1..Len(s) : Ch(s, i) = "e"} IN
       IF es = {} THEN Mantissa(s)
       ELSE Cardinality(es) = 1 /\ LET p == CHOOSE i \in es : TRUE IN Mantissa(Prefix(s, p - 1)) /\ Exponent(Drop(s, p))
\* what float() accepts (ASCII, without the blanks it would strip)
PyFloat(v) == LET s == Map(Lower7, v)
                  body == IF Len(s) > 0 /\ Ch(s, 1) \in {"+", "-"} THEN Drop(s, 1) ELSE s
              IN  Len(body) > 0 /\ UnsignedFloat(body)
IsNumber(s) == PyFloat(s) /\ "+" \notin Chars(s)

(* ======================= a tiny line writer ============================== *)
\* out = [done |-> finished lines, cur |-> the line being written]
Out0 == [done |-> <<>>, cur |-> ""]
Put(o, s) == [o EXCEPT !.cur = @ \o s]
NL(o) == [done |-> Append(o.done, o.cur), cur |-> ""]
RECURSIVE PutSecs(_, _, _, _)
PutSecs(o, secs, k, indent) ==
    IF k > Len(secs) THEN o
    ELSE LET o1 == IF k = 1 THEN o ELSE Put(NL(Put(o, " +")), indent)
         IN  PutSecs(Put(o1, "\"" \o secs[k] \o "\""), secs, k + 1, indent)
PutLong(o, ext, text, indent) == PutSecs(o, LongSections(ext, text, LIMIT, MINNL), 1, indent)

RECURSIVE JoinFrom(_, _, _)
JoinFrom(q, sep, k) == IF k > Len(q) THEN "" ELSE (IF k = 1 THEN "" ELSE sep) \o q[k] \o JoinFrom(q, sep, k + 1)
Join(q, sep) == JoinFrom(q, sep, 1)
TagText(tags) == "[" \o Join(tags, ", ") \o "]"

(* ======================= keyvalue and I/O lines ========================== *)
IsFlags(kv) == ~kv.custom /\ kv.type = "flags"
IsChoices(kv) == ~kv.custom /\ kv.type = "choices"
IsBool(kv) == ~kv.custom /\ kv.type = "boolean"
\* the default as written: a boolean always has one
WrittenDefault(kv) == IF kv.def = "" /\ IsBool(kv) THEN "0" ELSE kv.def

RECURSIVE PutFlagItems(_, _, _, _, _), PutChoiceItems(_, _, _, _)
PutFlagItems(o, items, k, cs, ls) ==
    IF k > Len(items) THEN o
    ELSE LET it == items[k]
             name == NlToSpace(it.n)
             o1 == Put(o, "\t\t" \o it.b \o ": ")
             o2 == PutLong(o1, cs, IF ls THEN "[" \o it.b \o "] " \o name ELSE name, "\t\t")
             o3 == Put(o2, IF it.d THEN " : 1" ELSE " : 0")
             o4 == IF it.tags # <<>> /\ cs THEN Put(o3, " " \o TagText(it.tags)) ELSE o3
         IN  PutFlagItems(NL(o4), items, k + 1, cs, ls)
PutChoiceItems(o, items, k, cs) ==
    IF k > Len(items) THEN o
    ELSE LET it == items[k]
             val == IF IsNumber(it.v) THEN it.v ELSE "\"" \o Esc(cs, it.v) \o "\""
             o1 == Put(o, "\t\t" \o val \o ": ")
             \* captions of choices use the original escaping in both syntaxes
             o2 == PutLong(o1, FALSE, NlToSpace(it.n), "\t\t")
             o3 == IF it.tags # <<>> /\ cs THEN Put(o2, " " \o TagText(it.tags)) ELSE o2
         IN  PutChoiceItems(NL(o3), items, k + 1, cs)

PutKV(o, kv, cs, ls) ==
    LET o1 == Put(o, "\t" \o kv.name)
        o2 == IF kv.tags # <<>> /\ cs THEN Put(o1, TagText(kv.tags)) ELSE o1
        o3 == Put(o2, "(" \o kv.type \o ") ")
        o4 == IF kv.ro THEN Put(o3, "readonly ") ELSE o3
        o5 == IF kv.rep THEN Put(o4, "report ") ELSE o4
        o6 == IF IsFlags(kv) THEN o5 ELSE PutLong(Put(o5, ": "), cs, kv.disp, "\t")
        dflt == WrittenDefault(kv)
        o7 == IF dflt # ""
              THEN LET w == IF BareDefault(dflt) THEN Put(o6, " : " \o dflt)
                            ELSE Put(o6, " : \"" \o Esc(cs, dflt) \o "\"")
                   IN  IF kv.desc # "" THEN Put(w, " : ") ELSE w
              ELSE IF kv.desc # "" THEN Put(o6, " : : ") ELSE o6
        o8 == IF kv.desc # "" THEN PutLong(o7, cs, kv.desc, "\t") ELSE o7
        o9 == IF IsFlags(kv) \/ IsChoices(kv)
              THEN LET a == NL(Put(NL(Put(o8, " =")), "\t\t["))
                       b == IF IsFlags(kv) THEN PutFlagItems(a, kv.list, 1, cs, ls)
                            ELSE PutChoiceItems(a, kv.list, 1, cs)
                   IN  Put(b, "\t\t]")
              ELSE o8
    IN  NL(o9)

PutIO(o, io, word, cs) ==
    LET o1 == Put(o, "\t" \o word \o " " \o io.name)
        o2 == IF io.tags # <<>> /\ cs THEN Put(o1, TagText(io.tags)) ELSE o1
        o3 == Put(o2, "(" \o IoWritten(io) \o ")")
        o4 == IF io.desc # "" THEN PutLong(Put(o3, " : "), cs, io.desc, "\t") ELSE o3
    IN  NL(o4)

(* ======================= keyvalue order ================================== *)
BIG == 1000000
\* position of a key in an order list (the last occurrence counts), BIG if absent
RECURSIVE RankFrom(_, _, _)
RankFrom(order, key, k) == IF k < 1 THEN BIG ELSE IF order[k] = key THEN k ELSE RankFrom(order, key, k - 1)
Rank(order, key) == RankFrom(order, key, Len(order))
\* orderby(...) helpers override kv_order; their arguments are folded by the
\* harness into the projection field "fold" (TLC has no case folding)
RECURSIVE OrderByArgs(_, _)
OrderByArgs(helpers, k) ==
    IF k > Len(helpers) THEN <<>>
    ELSE (IF helpers[k].known /\ helpers[k].n = "orderby" THEN helpers[k].fold ELSE <<>>) \o OrderByArgs(helpers, k + 1)
EffOrder(ent) == LET ob == OrderByArgs(ent.helpers, 1) IN IF ob # <<>> THEN ob ELSE ent.order
\* the keyvalues in the order export writes them: stable sort by rank of the key
KvPerm(ent) ==
    LET n == Len(ent.kvs)
        ord == EffOrder(ent)
        rk == [i \in 1..n |-> Rank(ord, ent.kvs[i].key)]
    IN  SortSeq([i \in 1..n |-> i], LAMBDA a, b : rk[a] < rk[b] \/ (rk[a] = rk[b] /\ a < b))
SortedKvs(ent) == LET p == KvPerm(ent) IN [i \in 1..Len(p) |-> ent.kvs[p[i]]]

(* ======================= a whole entity ================================== *)
HelperShown(h, cs) == cs \/ ~h.ext
RECURSIVE PutHelpers(_, _, _, _), PutKvs(_, _, _, _, _), PutIOs(_, _, _, _, _), PutRes(_, _, _)
PutHelpers(o, hs, k, cs) ==
    IF k > Len(hs) THEN o
    ELSE IF ~HelperShown(hs[k], cs) THEN PutHelpers(o, hs, k + 1, cs)
    ELSE LET o1 == Put(NL(o), "\t")
             o2 == IF hs[k].known /\ hs[k].n = "halfgridsnap" THEN Put(o1, "halfgridsnap")
                   ELSE Put(o1, hs[k].n \o "(" \o Join(hs[k].a, ", ") \o ")")
         IN  PutHelpers(o2, hs, k + 1, cs)
PutKvs(o, kvs, k, cs, ls) == IF k > Len(kvs) THEN o ELSE PutKvs(PutKV(o, kvs[k], cs, ls), kvs, k + 1, cs, ls)
PutIOs(o, ios, k, word, cs) == IF k > Len(ios) THEN o ELSE PutIOs(PutIO(o, ios[k], word, cs), ios, k + 1, word, cs)
PutRes(o, res, k) ==
    IF k > Len(res) THEN o
    ELSE LET o1 == Put(o, "\t\t" \o ResWord(res[k].type) \o " \"" \o EscExt(res[k].file) \o "\"")
             o2 == IF res[k].tags # <<>> THEN Put(o1, " " \o TagText(res[k].tags)) ELSE o1
         IN  PutRes(NL(o2), res, k + 1)

HasRes(ent) == ent.res_set
PutEnt(o, ent, cs, ls) ==
    LET o1 == Put(o, "@" \o KindTitle(ent.kind) \o " ")
        \* (an alias is written like any other derived class: the text format as
        \* exported has no aliasof(), so the alias flag does not survive - the
        \* property does not list it)
        o2 == IF ent.bases # <<>> THEN Put(o1, "base(" \o Join(ent.bases, ", ") \o ") ") ELSE o1
        o3 == PutHelpers(o2, ent.helpers, 1, cs)
        o4 == IF ent.helpers # <<>> THEN NL(o3) ELSE o3
        o5 == Put(o4, "= " \o ent.cls)
        o6 == IF ent.desc # "" THEN PutLong(Put(o5, ": "), cs, ent.desc, "\t\t") ELSE o5
        o7 == NL(Put(NL(o6), "\t["))
        o8 == PutKvs(o7, SortedKvs(ent), 1, cs, ls)
        o9 == IF ent.ins # <<>> THEN PutIOs(NL(Put(NL(o8), "\t// Inputs")), ent.ins, 1, "input", cs) ELSE o8
        o10 == IF ent.outs # <<>> THEN PutIOs(NL(Put(NL(o9), "\t// Outputs")), ent.outs, 1, "output", cs) ELSE o9
        o11 == IF cs /\ HasRes(ent)
               THEN NL(Put(PutRes(NL(Put(NL(Put(NL(o10), "\t@resources")), "\t\t[")), ent.res, 1), "\t\t]"))
               ELSE o10
    IN  NL(Put(o11, "\t]"))
\* the text of EntityDef.export(), split at line ends (it ends with a newline)
ExportLines(ent, cs, ls) == PutEnt(Out0, ent, cs, ls).done

(* ======================= reading it back ================================= *)
\* With custom syntax a text comes back as it was.  Without, it is written with the
\* original format's escaping (newline and double quote only) and read by the same
\* tokenizer: double quotes decay to two single quotes, and a backslash in the text
\* is taken as the start of an escape - the original syntax cannot express one.
Text(cs, s) == IF cs THEN s ELSE Unescape(EscPlain(s))
BoolCanon(s) == IF s = "" \/ s = "no" THEN "0" ELSE IF s = "yes" THEN "1" ELSE s
\* --- members of the lists in an entity header / body
\* The text form separates helper arguments, base names and tags by commas and trims blanks
\* around each member.  It can therefore carry an empty member anywhere in a list of two or
\* more, but not blanks around a member, and a list whose only member is empty reads back as
\* the empty list ("helper()").  A tag that is empty (or only blanks) is not a tag.
BlankCh == {" ", "\t", "\n", "\r"}
LStrip(s) == LET ks == {i \in 1..Len(s) : Ch(s, i) \notin BlankCh} IN
             IF ks = {} THEN "" ELSE Drop(s, (CHOOSE i \in ks : \A j \in ks : i <= j) - 1)
RStrip(s) == LET ks == {i \in 1..Len(s) : Ch(s, i) \notin BlankCh} IN
             IF ks = {} THEN "" ELSE Prefix(s, CHOOSE i \in ks : \A j \in ks : j <= i)
Strip(s) == RStrip(LStrip(s))
ReadArgs(a) == IF Len(a) = 1 /\ Strip(a[1]) = "" THEN <<>> ELSE [k \in 1..Len(a) |-> Strip(a[k])]
ArgsCarried(a) == ReadArgs(a) = a
\* a base named twice is one base
FirstOnly(q) == SelectSeq([k \in 1..Len(q) |-> IF \E m \in 1..(k - 1) : q[m] = q[k] THEN <<FALSE, q[k]>> ELSE <<TRUE, q[k]>>],
                          LAMBDA x : x[1])
NoTags(cs, tags) == IF cs THEN SelectSeq(tags, LAMBDA t : Strip(t) # "") ELSE <<>>
\* label_spawnflags writes "[bit] name"; the reader takes the label and the blanks after it off
FlagName(ls, n) == IF ls THEN LStrip(n) ELSE n

ReadKV(kv, cs, ls) ==
    [kv EXCEPT
        !.tags = NoTags(cs, @),
        !.disp = IF IsFlags(kv) THEN kv.name ELSE Text(cs, @),
        !.def = IF IsFlags(kv) THEN "" ELSE IF IsBool(kv) THEN BoolCanon(Text(cs, @)) ELSE Text(cs, @),
        !.desc = IF IsFlags(kv) THEN "" ELSE Text(cs, @),
        !.list = IF IsFlags(kv)
                 THEN [k \in 1..Len(kv.list) |-> [kv.list[k] EXCEPT !.n = FlagName(ls, Text(cs, NlToSpace(@))), !.tags = NoTags(cs, @)]]
                 ELSE IF IsChoices(kv)
                 THEN [k \in 1..Len(kv.list) |-> [kv.list[k] EXCEPT !.n = Text(FALSE, NlToSpace(@)), !.v = Text(cs, @), !.tags = NoTags(cs, @)]]
                 ELSE @]
\* The same reading without the writer's canonical forms (a boolean's missing default becoming
\* "0", yes/no becoming 1/0, a spawnflags caption becoming the key name): coming back unchanged
\* is just as good - which of the two happens is the writer's choice, not the property's.
ReadKVAlt(kv, cs, ls) ==
    [ReadKV(kv, cs, ls) EXCEPT !.disp = Text(cs, kv.disp), !.def = Text(cs, kv.def), !.desc = Text(cs, kv.desc),
        \* (a choice caption with a backslash: read back as it was is as good as today's reading)
        !.list = IF IsChoices(kv)
                 THEN [k \in 1..Len(kv.list) |-> [ReadKV(kv, cs, ls).list[k] EXCEPT !.n = PlainDecay(NlToSpace(kv.list[k].n))]]
                 ELSE @]
ReadIO(io, cs) == [io EXCEPT !.tags = NoTags(cs, @), !.type = IoDecay(io), !.desc = Text(cs, @)]

\* a definition read twice under one (key, tags) replaces the earlier one but keeps its place
RECURSIVE Dedup(_, _)
Dedup(items, k) ==
    IF k > Len(items) THEN <<>>
    ELSE LET same == {m \in 1..Len(items) : items[m].key = items[k].key /\ items[m].tags = items[k].tags}
         IN  IF \E m \in same : m < k THEN Dedup(items, k + 1)
             ELSE <<items[MaxOf(same)]>> \o Dedup(items, k + 1)
\* the (key -> {tags -> def}) dictionaries list a key's variants together, at the key's first place
RECURSIVE Group(_, _)
Group(items, k) ==
    IF k > Len(items) THEN <<>>
    ELSE IF \E m \in 1..(k - 1) : items[m].key = items[k].key THEN Group(items, k + 1)
    ELSE SelectSeq(items, LAMBDA x : x.key = items[k].key) \o Group(items, k + 1)
Normal(items) == Group(Dedup(items, 1), 1)
RECURSIVE KeysOf(_, _)
KeysOf(items, k) ==
    IF k > Len(items) THEN <<>>
    ELSE IF \E m \in 1..(k - 1) : items[m].key = items[k].key THEN KeysOf(items, k + 1)
    ELSE <<items[k].key>> \o KeysOf(items, k + 1)

ExportParse(ent, cs, ls) ==
    LET sorted == SortedKvs(ent)
        kvs == Normal([k \in 1..Len(sorted) |-> ReadKV(sorted[k], cs, ls)])
    IN  [ent EXCEPT
            !.alias = FALSE,
            !.bases = [k \in 1..Len(FirstOnly(ReadArgs(ent.bases))) |-> FirstOnly(ReadArgs(ent.bases))[k][2]],
            !.helpers = SelectSeq(@, LAMBDA h : HelperShown(h, cs)),
            !.desc = Text(cs, @),
            !.kvs = kvs,
            !.order = KeysOf(kvs, 1),
            !.ins = Normal([k \in 1..Len(ent.ins) |-> ReadIO(ent.ins[k], cs)]),
            !.outs = Normal([k \in 1..Len(ent.outs) |-> ReadIO(ent.outs[k], cs)]),
            !.res = IF cs THEN [k \in 1..Len(ent.res) |-> [ent.res[k] EXCEPT !.tags = NoTags(TRUE, @)]] ELSE <<>>,
            !.res_set = IF cs THEN @ ELSE FALSE]

\* Without custom syntax the tagged variants of one key are all written, untagged
\* ("this can write out duplicate copies from different tags"); the reader keeps
\* the last.  Only definitions without such variants re-export to the same text.
NoVariants(items) == \A a, b \in 1..Len(items) : a # b => items[a].key # items[b].key
\* (extension helpers are skipped, but a header that had any helper still gets its own line)
PlainRepresentable(ent) == /\ NoVariants(ent.kvs) /\ NoVariants(ent.ins) /\ NoVariants(ent.outs)
                           /\ \A k \in 1..Len(ent.helpers) : ~ent.helpers[k].ext
\* all free texts of a definition
TextsOf(ent) ==
    {ent.desc}
    \cup UNION {{ent.kvs[k].disp, ent.kvs[k].def, ent.kvs[k].desc} : k \in 1..Len(ent.kvs)}
    \cup UNION {{ent.kvs[k].list[m].n : m \in 1..Len(ent.kvs[k].list)} : k \in 1..Len(ent.kvs)}
    \cup UNION {{ent.kvs[k].list[m].v : m \in 1..Len(ent.kvs[k].list)} : k \in {k \in 1..Len(ent.kvs) : IsChoices(ent.kvs[k])}}
    \cup {ent.ins[k].desc : k \in 1..Len(ent.ins)} \cup {ent.outs[k].desc : k \in 1..Len(ent.outs)}
PlainSafe(ent) == \A t \in TextsOf(ent) : "\\" \notin Chars(t)
\* "yes"/"no" are old spellings of boolean defaults; the reader replaces them, so
\* only definitions without them re-export to the same text
Canonical(ent) == \A k \in 1..Len(ent.kvs) : IsBool(ent.kvs[k]) => ent.kvs[k].def \notin {"yes", "no"}
\* every member of every list is one the text form carries as it is
TagsCarried(tags) == \A k \in 1..Len(tags) : Strip(tags[k]) # ""
ListsCarried(ent) ==
    /\ ArgsCarried(ent.bases) /\ Cardinality({ent.bases[k] : k \in 1..Len(ent.bases)}) = Len(ent.bases)
    /\ \A k \in 1..Len(ent.helpers) : ArgsCarried(ent.helpers[k].a)
    /\ \A k \in 1..Len(ent.kvs) : /\ TagsCarried(ent.kvs[k].tags)
                                   /\ \A m \in 1..Len(ent.kvs[k].list) :
                                         /\ TagsCarried(ent.kvs[k].list[m].tags)
                                         /\ (IsFlags(ent.kvs[k]) => LStrip(ent.kvs[k].list[m].n) = ent.kvs[k].list[m].n)
    /\ \A k \in 1..Len(ent.ins) : TagsCarried(ent.ins[k].tags)
    /\ \A k \in 1..Len(ent.outs) : TagsCarried(ent.outs[k].tags)
    /\ \A k \in 1..Len(ent.res) : TagsCarried(ent.res[k].tags)
ReExportable(ent, cs) == Canonical(ent) /\ ListsCarried(ent) /\ (cs \/ (PlainRepresentable(ent) /\ PlainSafe(ent)))
ExportParseAlt(ent, cs, ls) ==
    LET sorted == SortedKvs(ent) IN
    [ExportParse(ent, cs, ls) EXCEPT !.kvs = Normal([k \in 1..Len(sorted) |-> ReadKVAlt(sorted[k], cs, ls)])]
\* with custom syntax the round trip is the identity up to these canonical forms
Canon(ent) == ExportParse(ent, TRUE, TRUE)

(* ======================= the binary database ============================= *)
\* The compact format keeps: kind, alias flag, base names, per keyvalue name,
\* caption, type, read-only flag, default (spawnflags: the flag list instead),
\* per input/output name and type, and the resources.  Descriptions, helpers,
\* the report flag and the explicit keyvalue order are not stored; an entity
\* without bases (other than the root definition itself) is based on the root
\* definition when loaded.
BinKV(kv) ==
    [kv EXCEPT !.desc = "", !.rep = FALSE, !.custom = FALSE,
               !.type = IF kv.custom THEN "string" ELSE @,
               !.def = IF IsFlags(kv) THEN "" ELSE @,
               !.list = IF IsFlags(kv) THEN @ ELSE <<>>]
BinIO(io) == [io EXCEPT !.desc = "", !.custom = FALSE, !.type = IF io.custom THEN "string" ELSE @]
BinRepresentable(ent) ==
    /\ \A k \in 1..Len(ent.kvs) : ent.kvs[k].tags = <<>> /\ ~IsChoices(ent.kvs[k])
                                  /\ (IsFlags(ent.kvs[k]) => \A m \in 1..Len(ent.kvs[k].list) : ent.kvs[k].list[m].tags = <<>>)
    /\ \A k \in 1..Len(ent.ins) : ent.ins[k].tags = <<>>
    /\ \A k \in 1..Len(ent.outs) : ent.outs[k].tags = <<>>
BinDecay(ent, root) ==
    [ent EXCEPT
        !.bases = IF @ = <<>> /\ ent.cls # root THEN <<root>> ELSE @,
        !.helpers = <<>>, !.desc = "", !.order = <<>>,
        !.kvs = [k \in 1..Len(ent.kvs) |-> BinKV(ent.kvs[k])],
        !.ins = [k \in 1..Len(ent.ins) |-> BinIO(ent.ins[k])],
        !.outs = [k \in 1..Len(ent.outs) |-> BinIO(ent.outs[k])],
        !.res_set = ent.res # <<>>]
=============================================================================
