SPECIFICATION Spec
CONSTANTS
  Places = 2
  MaxIp = 11
INVARIANT NumOK
INVARIANT VecOK
ACTION_CONSTRAINT Emit
CHECK_DEADLOCK FALSE
