------------------------------ MODULE FgdDbTrace ------------------------------
(* Validates histories of engine_def()/engine_dbase() calls executed on real   *)
(* EngineDB objects against FgdDbOps.  A file holds many traces; an "open"     *)
(* record starts one (fresh databases).  The specification keeps its own state *)
(* along each trace; every logged step must be exactly the step the            *)
(* specification takes from there: which database answers, which definition    *)
(* objects are created and in which order, the identity of the answer and of   *)
(* its bases, the definition (hash of the deep projection) being the one of    *)
(* the fully loaded database, and - where a snapshot is logged - the whole     *)
(* projected state.  Mismatches are printed, never fatal.                      *)
EXTENDS FgdDbOps, TLC, Json, IOUtils

Recs == ndJsonDeserialize(IOEnv.TRACE_FILE)
N == Len(Recs)
RealDbs == <<JsonDeserialize(IOEnv.FGD_DB_FILE)>>

VARIABLES i, st, open, v

DbsOf(j) == IF Recs[j].real THEN RealDbs ELSE Recs[j].dbs
Bad(c, e) == [ok |-> FALSE, clause |-> c, exp |-> e]
Good == [ok |-> TRUE, clause |-> "", exp |-> 0]

ToSet(q) == {q[k] : k \in 1..Len(q)}
\* a logged snapshot of one database against the specification's state
SnapOK(s, j) == /\ ToSet(j.parsed) = s.parsed
                /\ j.n = s.n
                /\ j.fgd = s.fgd
                /\ \A e \in DOMAIN s.obj : j.obj[e] = s.obj[e] /\ j.rb[e] = s.rb[e]
                /\ DOMAIN s.obj = DOMAIN j.obj
SnapsOK(ss, r) == "snap" \notin DOMAIN r \/ \A k \in 1..Len(ss) : SnapOK(ss[k], r.snap[k])
SnapExp(ss) == [k \in 1..Len(ss) |-> [parsed |-> ss[k].parsed, n |-> ss[k].n, fgd |-> ss[k].fgd]]

NoneCreated(r, except) == \A k \in 1..Len(r.created) : k = except \/ r.created[k] = <<>>

\* the specification's successor state for record r from state s (databases dbs)
Apply(dbs, s, r) ==
    IF r.a.op = "query" /\ FirstWith(dbs, r.a.e) # 0
    THEN LET k == FirstWith(dbs, r.a.e) IN [s EXCEPT ![k] = GetEnt(dbs[k], s[k], r.a.e).s]
    ELSE IF r.a.op = "loadall" THEN [k \in 1..Len(dbs) |-> GetFgd(dbs[k], s[k]).s]
    ELSE s

Judge(dbs, s, r) ==
    LET op == r.a.op
        s2 == Apply(dbs, s, r)
    IN
    IF op = "query" \/ op = "missing" THEN
        LET k == FirstWith(dbs, r.a.e) IN
        IF k = 0 THEN
            IF r.exc # "KeyError" THEN Bad("db.keyerror", "KeyError")
            ELSE IF ~NoneCreated(r, 0) THEN Bad("db.created", <<>>)
            ELSE IF ~SnapsOK(s2, r) THEN Bad("db.state", SnapExp(s2))
            ELSE Good
        ELSE
            LET g == GetEnt(dbs[k], s[k], r.a.e) IN
            IF r.exc # "" THEN Bad("db.found", k)
            ELSE IF r.resdb # k THEN Bad("db.which", k)
            ELSE IF r.created[k] # Created(s[k], g.s) \/ ~NoneCreated(r, k)
                THEN Bad("db.created", Created(s[k], g.s))
            ELSE IF r.res # g.res THEN Bad("db.identity", g.res)
            ELSE IF r.bases # g.s.rb[r.a.e] THEN Bad("db.bases", g.s.rb[r.a.e])
            ELSE IF r.defh # dbs[k].full[r.a.e] THEN Bad("db.definition", dbs[k].full[r.a.e])
            ELSE IF ~r.copy THEN Bad("db.copy", TRUE)
            ELSE IF ~SnapsOK(s2, r) THEN Bad("db.state", SnapExp(s2))
            ELSE Good
    ELSE IF op = "loadall" THEN
        LET cls == AllClasses(dbs) IN
        IF r.exc # "" THEN Bad("db.loadall", "no exception")
        ELSE IF \E k \in 1..Len(dbs) : r.created[k] # Created(s[k], s2[k])
            THEN Bad("db.created", [k \in 1..Len(dbs) |-> Created(s[k], s2[k])])
        ELSE IF r.count # Cardinality(cls) THEN Bad("db.count", Cardinality(cls))
        ELSE IF DOMAIN r.defs # cls THEN Bad("db.classes", cls)
        ELSE IF \E e \in cls : r.defs[e] # dbs[FirstWith(dbs, e)].full[e]
            THEN Bad("db.definition", CHOOSE e \in cls : r.defs[e] # dbs[FirstWith(dbs, e)].full[e])
        ELSE IF ~SnapsOK(s2, r) THEN Bad("db.state", SnapExp(s2))
        ELSE Good
    ELSE IF op = "classes" THEN
        IF ToSet(r.classes) # AllClasses(dbs) THEN Bad("db.classes", Cardinality(AllClasses(dbs))) ELSE Good
    ELSE Bad("db.unknown_record", op)

JudgeOpen(r) ==
    LET dbs == IF r.real THEN RealDbs ELSE r.dbs
        s0 == [k \in 1..Len(dbs) |-> DbInit(dbs[k])]
    IN  IF ~SnapsOK(s0, r) THEN Bad("db.fresh", SnapExp(s0)) ELSE Good

Init == i = 0 /\ st = <<>> /\ open = 0 /\ v = Good
Next == /\ i < N
        /\ i' = i + 1
        /\ LET r == Recs[i + 1] IN
           IF r.k = "open"
           THEN /\ open' = i + 1
                /\ st' = [k \in 1..Len(DbsOf(i + 1)) |-> DbInit(DbsOf(i + 1)[k])]
                /\ v' = JudgeOpen(r)
           ELSE /\ open' = open
                /\ st' = Apply(DbsOf(open), st, r)
                /\ v' = Judge(DbsOf(open), st, r)
Checked == v.ok \/ PrintT(ToJson([tag |-> "MISMATCH", i |-> i, clause |-> v.clause, exp |-> v.exp]))
AllConsumed == TLCGet("stats").diameter = N + 1
=============================================================================
