SPECIFICATION Spec
CONSTANTS
  MaxLen = 3
  Alphabet = {"..", ".", "", "sub", "in.txt", "rootx", "root", "B", "A"}
  Base <- BaseMC
  Pres = {"rel"}
  Kinds = {"fwd"}
  RootForms = {"plain"}
  Chains = {FALSE}
INVARIANT TextSafe
CHECK_DEADLOCK FALSE
