----------------------------- MODULE KvTreeTrace -----------------------------
(* Validates records logged from real srctools.keyvalues.Keyvalues objects     *)
(* against KvTreeOps: each record is one mutator/operator call with the        *)
(* projected child lists of both operands before and after.                    *)
EXTENDS KvTreeOps, TLC, Json, IOUtils

Recs == ndJsonDeserialize(IOEnv.TRACE_FILE)
N == Len(Recs)
VARIABLE i

Bad(c, e) == [ok |-> FALSE, clause |-> c, exp |-> e]
Good == [ok |-> TRUE, clause |-> "", exp |-> 0]

Verdict(r) ==
    LET x == r.pre.x  y == r.pre.y  a == r.a
        ex == CASE a.op = "append" /\ a.t = "x" -> Append(x, a.node)
                [] a.op = "setstr" -> SetStr(x, a.name, a.val)
                [] a.op = "delstr" -> DelStr(x, a.name)
                [] a.op \in {"extend", "iadd"} -> Extend(x, y)
                [] a.op = "ensure" -> Ensure(x, a.name)
                [] a.op = "merge" -> Merge(x, a.name)
                [] a.op = "clear" -> <<>>
                [] a.op = "setpath" -> SetPath2(x, a.a, a.b, a.val)
                [] OTHER -> x
        ey == IF a.op = "append" /\ a.t = "y" THEN Append(y, a.node) ELSE y
        eres == CASE a.op = "add" -> Extend(x, y)
                  [] a.op = "copymut" -> SetStr(x, a.name, a.val)
                  [] a.op = "lookup" -> [get |-> GetStr(x, a.name), has |-> Contains(x, a.name), all |-> FindAll(x, a.name),
                                         key |-> FindIdx(x, a.name), block |-> FindBlockIdx(x, a.name)]
                  [] OTHER -> r.res
    IN  IF r.post.x # ex THEN Bad("kv.left_operand", ex)
        ELSE IF r.post.y # ey THEN Bad("kv.right_operand", ey)
        ELSE IF r.res # eres THEN Bad("kv.result", eres)
        ELSE Good

Init == i = 0
Next == i < N /\ i' = i + 1
Checked == i = 0 \/ LET v == Verdict(Recs[i]) IN
              v.ok \/ PrintT(ToJson([tag |-> "MISMATCH", i |-> i, clause |-> v.clause, exp |-> v.exp]))
AllConsumed == TLCGet("stats").diameter = N + 1
=============================================================================
