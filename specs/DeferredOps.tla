------------------------------ MODULE DeferredOps ------------------------------
(* binformat.DeferredWrites: placeholders written into a seekable binary file   *)
(* and filled in later (offset tables of BSP, VTF, scenes.image, the FGD        *)
(* database).  State: the file as a sequence of cells, the cursor, the          *)
(* registered slots (key -> [pos, size]) and the data set so far (key -> size  *)
(* of the value as packed when it was set).                                     *)
(* A cell is <<"z",0>> (placeholder / zero byte), <<"b",0>> (ordinary body byte) *)
(* or <<key, i>> (byte i of the value packed for that key).                      *)
EXTENDS Integers, Sequences, FiniteSets

Init0 == [file |-> <<>>, cur |-> 1, loc |-> <<>>, data |-> <<>>, order |-> <<>>]

\* write n cells c at the cursor, overwriting / extending (BytesIO semantics)
Put(file, cur, cells) ==
    LET n == Len(cells)
        newlen == IF cur + n - 1 > Len(file) THEN cur + n - 1 ELSE Len(file)
    IN [i \in 1..newlen |-> IF i >= cur /\ i < cur + n THEN cells[i - cur + 1]
                            ELSE IF i <= Len(file) THEN file[i] ELSE <<"z", 0>>]
Body(n) == [i \in 1..n |-> <<"b", 0>>]
Zeros(n) == [i \in 1..n |-> <<"z", 0>>]
Packed(k, n) == [i \in 1..n |-> <<k, i>>]

\* file.write(body)
WriteBody(s, n) == [s EXCEPT !.file = Put(s.file, s.cur, Body(n)), !.cur = s.cur + n]
\* defer(key, fmt, write): remember the position; optionally reserve the space.
\* A key deferred again is re-registered at the new position (the dict entry is replaced but
\* keeps its original place in the write order).
Defer(s, k, size, write) ==
    [s EXCEPT !.loc = [x \in DOMAIN s.loc \cup {k} |-> IF x = k THEN [pos |-> s.cur, size |-> size] ELSE s.loc[x]],
              !.order = IF k \in DOMAIN s.loc THEN s.order ELSE Append(s.order, k),
              !.file = IF write THEN Put(s.file, s.cur, Zeros(size)) ELSE s.file,
              !.cur = IF write THEN s.cur + size ELSE s.cur]
\* set_data(key, ...): KeyError for an unknown key
SetData(s, k) == IF k \in DOMAIN s.loc
                 THEN [s |-> [s EXCEPT !.data = [x \in DOMAIN s.data \cup {k} |->
                                                    IF x = k THEN s.loc[k].size ELSE s.data[x]]], res |-> "ok"]
                 ELSE [s |-> s, res |-> "KeyError"]
PosOf(s, k) == IF k \in DOMAIN s.loc THEN s.loc[k].pos ELSE 0 - 1
\* write(): every slot, in registration order, gets its data; a slot without data raises
\* ValueError AFTER the earlier slots were written and consumed (as coded: loc is only cleared at
\* the end, data is popped slot by slot, and the cursor is left behind the last slot written);
\* on success everything is forgotten and the cursor is where it was.
RECURSIVE Flush(_, _, _)
Flush(s, todo, back) ==
    IF todo = <<>> THEN [s |-> [s EXCEPT !.loc = <<>>, !.order = <<>>, !.cur = back], res |-> "ok"]
    ELSE LET k == Head(todo) IN
         IF k \notin DOMAIN s.data THEN [s |-> s, res |-> "ValueError"]
         ELSE Flush([s EXCEPT !.file = Put(s.file, s.loc[k].pos, Packed(k, s.data[k])),
                              !.cur = s.loc[k].pos + s.data[k],
                              !.data = [x \in DOMAIN s.data \ {k} |-> s.data[x]]], Tail(todo), back)
WriteAll(s) == Flush(s, s.order, s.cur)
=============================================================================
