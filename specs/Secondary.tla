------------------------------- MODULE Secondary -------------------------------
(* C20.  Two machines:                                                         *)
(*  - Image: the scenes.image container - a dictionary checksum -> entry that  *)
(*    is filled from scenes (Add), saved in format version 2 or 3 (Save),      *)
(*    loaded back (Load / Merge into the current dictionary), entries decoded  *)
(*    on demand (Touch), renamed in place (Rename: the entry's checksum        *)
(*    changes, its dictionary key goes stale) or removed (Drop).  Invariants: a saved table is       *)
(*    sorted by checksum with distinct checksums, and every entry's summary    *)
(*    (duration, sounds; last-speak time except through a version 2 file)      *)
(*    is the summary of its scene.                                             *)
(*  - Cases: for each format the optional-block / enum-member combinations     *)
(*    (one feature varied at a time against every event type, and products of  *)
(*    the small switches); every case is printed for the replayer and must     *)
(*    satisfy Decay(Decay(v)) = Decay(v).                                      *)
EXTENDS SecondaryOps, Json

CONSTANTS Machine,        \* "image" or "cases"
          Fmt,            \* cases: which format
          MaxOps,         \* image: bound on the history length
          Small           \* image: TRUE = two file names, two scenes, one save slot

VARIABLES img, slots, n, act,       \* image machine
          case, done                \* cases machine
vars == <<img, slots, n, case, done>>

(* ======================= the container ==================================== *)
\* file names (as checksum classes); dictionary keys and rename targets range over all of them,
\* scenes are added under the first two (Small) or all three
Keys == {"k1", "k2", "k3"}
AddKeys == IF Small THEN {"k1", "k2"} ELSE Keys
\* a stand-in for the CRC order of the keys (the real order is checked on the real checksums)
Rank == [k1 |-> 2, k2 |-> 3, k3 |-> 1]
Variants == {1, 2}      \* spellings of a file name that normalise to the same checksum (k1 only)
Slots == IF Small THEN {1} ELSE {1, 2}
Speak(start, end, p1, cc, tok, comb) ==
    [speak |-> TRUE, start |-> start, end |-> end, p1 |-> p1, cc_type |-> cc, cc_token |-> tok, combined |-> comb]
Other(start, end) ==
    [speak |-> FALSE, start |-> start, end |-> end, p1 |-> "x", cc_type |-> "", cc_token |-> "", combined |-> FALSE]
SceneTable ==
    \* ({e9} {df} {ff}: Latin-1 letters - the pool of a scenes.image is Latin-1)
    [s1 |-> <<Speak(0, 2000, "vo.caf{e9}", "Master", "", FALSE), Other(500, 0 - 1), Other(250, 2500)>>,
     s2 |-> <<Speak(125, 0 - 1, "vo.b", "Slave", "tok.stra{df}e", TRUE), Speak(0, 1500, "vo.c", "Disabled", "tok.c", FALSE),
              Speak(250, 750, "vo.caf{e9}", "Slave", "", FALSE), Speak(0, 125, "{ff}.wav", "Master", "", FALSE)>>,
     s3 |-> <<>>]
SceneIds == IF Small THEN {"s1", "s2"} ELSE DOMAIN SceneTable
ASSUME Machine # "image" \/ PrintT(ToJson([tag |-> "CONSTS", scenes |-> SceneTable, rank |-> Rank]))

ImgInit == /\ img = [k \in Keys |-> NoEntry]
           /\ slots = [s \in Slots |-> [ver |-> 0, table |-> <<>>]]
           /\ n = 0
Add(k, v, s) == /\ img' = [img EXCEPT ![k] = FromScene(k, s, SceneTable[s])]
                /\ UNCHANGED slots
                /\ act' = [op |-> "add", k |-> k, v |-> v, s |-> s]
Drop(k) == /\ img[k].here
           /\ img' = [img EXCEPT ![k] = NoEntry]
           /\ UNCHANGED slots
           /\ act' = [op |-> "drop", k |-> k]
\* entry.filename = another name: the entry's checksum follows, its dictionary key does not
Rename(k, k2) == /\ img[k].here /\ img[k].cur # k2
                 /\ \A o \in Present(img) : img[o].cur # k2
                 /\ img' = [img EXCEPT ![k].cur = k2, ![k].named = TRUE]
                 /\ UNCHANGED slots
                 /\ act' = [op |-> "rename", k |-> k, to |-> k2]
\* the entries are handed over as the dictionary itself or as a list of its values
\* ... and with the encoding argument left out, or given as what it defaults to
Encs == IF Small THEN {"default"} ELSE {"default", "latin1"}
Save(slot, ver, how, enc) == /\ DistinctCur(img)
                        /\ slots' = [slots EXCEPT ![slot] = SaveFile(img, Rank, ver)]
                        /\ UNCHANGED img
                        /\ act' = [op |-> "save", slot |-> slot, ver |-> ver, how |-> how, enc |-> enc]
Load(slot) == /\ slots[slot].ver # 0
              /\ img' = LoadFile(slots[slot], Keys)
              /\ UNCHANGED slots
              /\ act' = [op |-> "load", slot |-> slot]
Merge(slot) == /\ slots[slot].ver # 0
               /\ img' = MergeFile(img, slots[slot])
               /\ UNCHANGED slots
               /\ act' = [op |-> "merge", slot |-> slot]
Touch(k) == /\ img[k].here /\ ~img[k].parsed
            /\ img' = [img EXCEPT ![k].parsed = TRUE]
            /\ UNCHANGED slots
            /\ act' = [op |-> "touch", k |-> k]
ImgNext == /\ n < MaxOps
           /\ n' = n + 1
           /\ \/ \E k \in AddKeys, s \in SceneIds : Add(k, 1, s)
              \/ \E s \in SceneIds : Add("k1", 2, s)
              \/ \E k \in Keys : Drop(k) \/ Touch(k)
              \/ \E k, k2 \in Keys : Rename(k, k2)
              \/ \E slot \in Slots, ver \in {2, 3}, how \in {"dict", "list"}, enc \in Encs : Save(slot, ver, how, enc)
              \/ \E slot \in Slots : Load(slot) \/ Merge(slot)
           /\ UNCHANGED <<case, done>>

Files == {slots[s] : s \in {s \in Slots : slots[s].ver # 0}}
SavedSorted == \A f \in Files : \A i \in 1..(Len(f.table) - 1) : Rank[f.table[i].k] < Rank[f.table[i + 1].k]
SavedComplete == \A f \in Files : Cardinality({f.table[i].k : i \in 1..Len(f.table)}) = Len(f.table)
SumOK(scene, sum) ==
    LET want == Summary(SceneTable[scene]) IN
    /\ sum.dur = want.dur /\ sum.sounds = want.sounds
    /\ sum.speak \in {want.speak, want.dur, 0 - 1}
SummaryConsistent ==
    /\ \A k \in Keys : img[k].here => SumOK(img[k].scene, img[k].sum)
    /\ \A f \in Files : \A i \in 1..Len(f.table) : SumOK(f.table[i].scene, f.table[i].sum)
\* version 3 loses nothing: saving and loading gives back every summary
V3Lossless == \A f \in Files : f.ver = 3 =>
                 \A i \in 1..Len(f.table) : LoadedEntry(f.table[i]).sum = f.table[i].sum

(* ======================= cases ============================================ *)
RECURSIVE Rep(_, _)
Rep(s, k) == IF k = 0 THEN "" ELSE s \o Rep(s, k - 1)

\* ---- command sequences
Cmd(exe, special, args, en, eset, ens, upw, nw) ==
    [exe |-> exe, special |-> special, args |-> args, enabled |-> en, ensure_set |-> eset, ensure |-> ens,
     use_proc_win |-> upw, no_wait |-> nw]
OneSeq(name, cmds) == [seqs |-> <<[name |-> name, cmds |-> cmds]>>]
CmdCases ==
    {OneSeq("Default", <<Cmd(x[1], x[2], a, en, e[1], e[2], upw, nw)>>) :
        x \in {<<"", 0>>, <<"$bsp_exe", 0>>, <<Rep("e", 260), 0>>, <<"", 256>>, <<"", 257>>, <<"", 258>>, <<"", 259>>},
        a \in {"", "-game $gamedir \"$path\\$file\"", Rep("a", 260)},
        en \in BOOLEAN,
        e \in {<<FALSE, "">>, <<TRUE, "">>, <<TRUE, "$path\\$file.bsp">>, <<TRUE, Rep("f", 260)>>},
        upw \in BOOLEAN, nw \in BOOLEAN}
    \cup {[seqs |-> <<>>], OneSeq("", <<>>), OneSeq(Rep("n", 128), <<>>),
          [seqs |-> <<[name |-> "A", cmds |-> <<Cmd("a", 0, "", TRUE, FALSE, "", TRUE, FALSE), Cmd("", 257, "x y", FALSE, TRUE, "z", FALSE, TRUE)>>],
                      [name |-> "B", cmds |-> <<>>]>>],
          OneSeq("Twice", <<Cmd("$bsp_exe", 0, "-x", TRUE, FALSE, "", TRUE, FALSE), Cmd("$bsp_exe", 0, "-x", TRUE, FALSE, "", TRUE, FALSE)>>),
          \* outside the field widths: must be refused
          OneSeq(Rep("n", 129), <<>>),
          OneSeq("X", <<Cmd(Rep("e", 261), 0, "", TRUE, FALSE, "", TRUE, FALSE)>>),
          OneSeq("X", <<Cmd("e", 0, Rep("a", 261), TRUE, FALSE, "", TRUE, FALSE)>>),
          OneSeq("X", <<Cmd("e", 0, "", TRUE, TRUE, Rep("f", 261), TRUE, FALSE)>>),
          \* not ASCII: must be refused as well
          OneSeq("caf{e9}", <<>>), OneSeq("X", <<Cmd("caf{e9}.exe", 0, "", TRUE, FALSE, "", TRUE, FALSE)>>),
          OneSeq("X", <<Cmd("e", 0, "-o {20ac}", TRUE, FALSE, "", TRUE, FALSE)>>),
          OneSeq("X", <<Cmd("e", 0, "", TRUE, TRUE, "stra{df}e.bsp", TRUE, FALSE)>>)}

\* ---- choreo scenes
Curve0 == [ramp |-> <<>>, left |-> NoEdge, right |-> NoEdge]
EventTypes == {"Unspecified", "Section", "Expression", "LookAt", "MoveTo", "Speak", "Gesture", "Sequence", "Face",
               "FireTrigger", "FlexAnimation", "SubScene", "Loop", "Interrupt", "StopPoint", "PermitResponses",
               "Generic", "Camera", "Script"}
Ev(type) ==
    [name |-> "ev", type |-> type, flags |-> 8, params |-> <<"p", "", "">>, start |-> "0.5", end |-> "-1.0",
     ramp |-> Curve0, tag |-> <<>>, dist |-> "0.0", rel |-> <<>>, timing |-> <<>>, absp |-> <<>>, abss |-> <<>>,
     flex |-> <<>>, dcurve |-> DefaultCurve, pitch |-> 0, yaw |-> 0,
     dur |-> IF type = "Gesture" THEN "0.0" ELSE "", loops |-> 0,
     cc_type |-> IF type = "Speak" THEN "Master" ELSE "", cc_token |-> "",
     combined |-> FALSE, gender |-> FALSE, noatten |-> FALSE]
Flex(name, actv, mn, mx, mag, combo, dir) ==
    [name |-> name, active |-> actv, min |-> mn, max |-> mx, mag |-> mag, combo |-> combo, dir |-> dir,
     left |-> NoEdge, right |-> NoEdge]
Feats == {"base", "end", "params3", "flags0", "flags63", "flags_lock", "ramp2", "ramp_curve", "ramp_edges",
          "edges_only", "tag", "tag_name_only", "dist", "rel", "timing", "timing_locked", "absp", "absp_wide", "abss", "flex",
          "flex_combo", "flex_range", "flex_repeat", "dcurve", "pitchyaw", "odd_name", "gesture_dur", "loops", "cc_slave",
          "cc_disabled_combined", "cc_token", "cc_flags",
          \* single flag bits, one edge only, several optional blocks at once
          "flag1", "flag2", "flag4", "flag16", "flag32", "right_edge", "all_tags", "tag_flex", "all",
          \* strings outside ASCII: Latin-1 letters, and characters beyond U+00FF
          "latin1", "wide",
          \* every list with a member repeated
          "repeats",
          \* one of two optional neighbours, one half of a pair at its default
          "pitch_only", "yaw_only", "param3_only", "param2_only", "curve_half", "flex_range_lo", "flex_range_hi", "dcurve_half",
          "dist_small", "end_zero", "loops_zero"}
S1 == <<"0.25", "1.0", "DEFAULT", "DEFAULT">>
S2 == <<"0.75", "0.2", "DEFAULT", "DEFAULT">>
S3 == <<"1.5", "0.0", "EASE_IN", "HOLD">>
Vary(e, f) ==
    CASE f = "base" -> e
      [] f = "end" -> [e EXCEPT !.end = "1.5"]
      [] f = "params3" -> [e EXCEPT !.params = <<"a b", "Run", "!target2">>]
      [] f = "flags0" -> [e EXCEPT !.flags = 0]
      [] f = "flags63" -> [e EXCEPT !.flags = 63]
      [] f = "flags_lock" -> [e EXCEPT !.flags = 10]
      [] f = "ramp2" -> [e EXCEPT !.ramp.ramp = <<S1, S2>>]
      [] f = "ramp_curve" -> [e EXCEPT !.ramp.ramp = <<S1, S3>>]
      [] f = "ramp_edges" -> [e EXCEPT !.ramp = [ramp |-> <<S1>>, left |-> <<TRUE, "0.5", "EASE_OUT", "LINEAR">>, right |-> <<TRUE, "1.0", "DEFAULT", "DEFAULT">>]]
      [] f = "edges_only" -> [e EXCEPT !.ramp.left = <<TRUE, "0.5", "EASE_OUT", "LINEAR">>]
      [] f = "tag" -> [e EXCEPT !.tag = <<"a_tag", "barn.ditchcar">>]
      [] f = "tag_name_only" -> [e EXCEPT !.tag = <<"a_tag", "">>]
      [] f = "dist" -> [e EXCEPT !.dist = "59.25"]
      [] f = "rel" -> [e EXCEPT !.rel = <<<<"t1", "0.2">>, <<"t 2", "1.0">>>>]
      [] f = "timing" -> [e EXCEPT !.timing = <<<<"t1", "0.2", FALSE>>>>]
      [] f = "timing_locked" -> [e EXCEPT !.timing = <<<<"t1", "0.2", TRUE>>, <<"t2", "0.0", FALSE>>>>]
      [] f = "absp" -> [e EXCEPT !.absp = <<<<"a1", "0.5">>, <<"a2", "1.0">>>>]
      [] f = "absp_wide" -> [e EXCEPT !.absp = <<<<"a1", "15.75">>>>, !.abss = <<<<"a2", "2.5">>>>]
      [] f = "abss" -> [e EXCEPT !.abss = <<<<"a1", "0.25">>>>]
      [] f = "flex" -> [e EXCEPT !.flex = <<Flex("lid_raiser", TRUE, "0.0", "1.0", <<S1, S3>>, FALSE, <<>>)>>]
      [] f = "flex_combo" -> [e EXCEPT !.flex = <<Flex("head_rightleft", TRUE, "0.0", "1.0", <<S1>>, TRUE, <<S2>>),
                                                 Flex("empty", TRUE, "0.0", "1.0", <<>>, TRUE, <<>>)>>]
      [] f = "flex_range" -> [e EXCEPT !.flex = <<Flex("jaw", FALSE, "0.25", "0.75", <<S2>>, FALSE, <<>>)>>]
      [] f = "flex_repeat" -> [e EXCEPT !.flex = <<Flex("jaw", TRUE, "0.0", "1.0", <<S1, S1>>, FALSE, <<>>), Flex("jaw", TRUE, "0.0", "1.0", <<S2>>, TRUE, <<S1, S1>>)>>]
      [] f = "dcurve" -> [e EXCEPT !.dcurve = <<"LINEAR", "LINEAR">>]
      [] f = "pitchyaw" -> [e EXCEPT !.pitch = 61, !.yaw = 0 - 47]
      [] f = "odd_name" -> [e EXCEPT !.name = "say \"hi\" {x}", !.params = <<"back\\slash", "", "">>]
      [] f = "gesture_dur" -> IF e.type = "Gesture" THEN [e EXCEPT !.dur = "1.5"] ELSE e
      [] f = "loops" -> IF e.type = "Loop" THEN [e EXCEPT !.loops = 8] ELSE e
      [] f = "cc_slave" -> IF e.type = "Speak" THEN [e EXCEPT !.cc_type = "Slave", !.combined = TRUE] ELSE e
      [] f = "cc_disabled_combined" -> IF e.type = "Speak" THEN [e EXCEPT !.cc_type = "Disabled", !.combined = TRUE] ELSE e
      [] f = "cc_token" -> IF e.type = "Speak" THEN [e EXCEPT !.cc_token = "tok.en"] ELSE e
      [] f = "cc_flags" -> IF e.type = "Speak" THEN [e EXCEPT !.gender = TRUE, !.noatten = TRUE, !.combined = TRUE] ELSE e
      [] f = "latin1" -> [e EXCEPT !.name = "caf{e9} stra{df}e", !.params = <<"d{e9}j{e0} vu", "{ff}", "">>, !.tag = <<"t{e9}g", "w{e4}v">>,
                                   !.rel = <<<<"r{e9}l", "0.2">>>>,
                                   !.cc_token = IF e.type = "Speak" THEN "tok.{e9}" ELSE @]
      [] f = "wide" -> [e EXCEPT !.name = "{20ac}uro {3a9}", !.params = <<"{4e2d}{6587}", "", "{1f600}">>,
                                 !.absp = <<<<"{3a9}", "0.5">>>>,
                                 !.cc_token = IF e.type = "Speak" THEN "tok.{20ac}" ELSE @]
      [] f = "repeats" -> [e EXCEPT !.rel = <<<<"t", "0.2">>, <<"t", "1.0">>, <<"T", "0.2">>>>, !.timing = <<<<"t", "0.2", FALSE>>, <<"t", "0.2", FALSE>>>>,
                                    !.absp = <<<<"p", "0.5">>, <<"p", "0.5">>>>, !.abss = <<<<"s", "0.25">>, <<"s", "1.0">>>>,
                                    !.ramp.ramp = <<S1, S1, S2>>]
      [] f = "pitch_only" -> [e EXCEPT !.pitch = 1]
      [] f = "yaw_only" -> [e EXCEPT !.yaw = 0 - 1]
      [] f = "param3_only" -> [e EXCEPT !.params = <<"p", "", "third">>]
      [] f = "param2_only" -> [e EXCEPT !.params = <<"", "second", "">>]
      [] f = "curve_half" -> [e EXCEPT !.ramp.ramp = <<<<"0.25", "1.0", "DEFAULT", "HOLD">>, <<"0.75", "0.2", "EASE_IN", "DEFAULT">>, S1>>]
      [] f = "flex_range_lo" -> [e EXCEPT !.flex = <<Flex("jaw", TRUE, "0.25", "1.0", <<<<"0.25", "1.0", "DEFAULT", "HOLD">>>>, FALSE, <<>>)>>]
      [] f = "flex_range_hi" -> [e EXCEPT !.flex = <<Flex("jaw", TRUE, "0.0", "0.75", <<<<"0.25", "1.0", "EASE_IN", "DEFAULT">>>>, TRUE, <<>>)>>]
      [] f = "dcurve_half" -> [e EXCEPT !.dcurve = <<"DEFAULT", "LINEAR">>]
      [] f = "dist_small" -> [e EXCEPT !.dist = "0.25"]
      [] f = "end_zero" -> [e EXCEPT !.end = "0.0", !.start = "-1.0"]
      [] f = "loops_zero" -> IF e.type = "Loop" THEN [e EXCEPT !.loops = 0 - 1] ELSE e
      [] f = "flag1" -> [e EXCEPT !.flags = 9]
      [] f = "flag2" -> [e EXCEPT !.flags = 2]
      [] f = "flag4" -> [e EXCEPT !.flags = 12]
      [] f = "flag16" -> [e EXCEPT !.flags = 24]
      [] f = "flag32" -> [e EXCEPT !.flags = 40]
      [] f = "right_edge" -> [e EXCEPT !.ramp = [ramp |-> <<S2>>, left |-> NoEdge, right |-> <<TRUE, "0.25", "HOLD", "EASE_IN">>]]
      [] f = "all_tags" -> [e EXCEPT !.rel = <<<<"r1", "0.2">>>>, !.timing = <<<<"t1", "1.0", FALSE>>>>,
                                     !.absp = <<<<"p1", "0.5">>>>, !.abss = <<<<"s1", "0.25">>, <<"s2", "1.0">>>>]
      [] f = "tag_flex" -> [e EXCEPT !.tag = <<"a_tag", "wav">>, !.end = "2.5",
                                     !.flex = <<Flex("lid_raiser", TRUE, "0.0", "1.0", <<S1>>, FALSE, <<>>)>>]
      [] OTHER -> e
\* every optional block of an event at once (only what the format can hold), in the order given
RECURSIVE VaryAll(_, _, _)
VaryAll(e, fs, k) == IF k > Len(fs) THEN e ELSE VaryAll(Vary(e, fs[k]), fs, k + 1)
AllBin == <<"end", "params3", "flags63", "ramp2", "tag", "dist", "all_tags", "flex_combo", "gesture_dur", "loops", "cc_token", "cc_flags">>
AllText == <<"end", "params3", "flags63", "ramp_edges", "tag", "dist", "all_tags", "timing_locked", "pitchyaw", "gesture_dur", "loops", "cc_token", "cc_flags">>
SceneOf(events, actors) ==
    [events |-> events, actors |-> actors, ramp |-> Curve0, ignore |-> FALSE, crc |-> "0", map |-> "", fps |-> 60,
     snap |-> FALSE, scale |-> <<>>, zoom |-> <<>>]
ActorOf(name, actv, model, chans) == [name |-> name, active |-> actv, model |-> model, channels |-> chans]
ChanOf(name, actv, events) == [name |-> name, active |-> actv, events |-> events]
\* features that only exist in one of the two scene formats are varied there
TextOnly == {"timing_locked", "dcurve", "pitchyaw", "ramp_edges", "edges_only", "right_edge", "pitch_only", "yaw_only", "dcurve_half"}
\* the Speak switches independently of one another
SpeakProduct ==
    {[Ev("Speak") EXCEPT !.cc_type = ct, !.cc_token = tok, !.combined = cb /\ ct # "Disabled", !.gender = g, !.noatten = na] :
        ct \in {"Master", "Slave", "Disabled"}, tok \in {"", "tok.en"}, cb \in BOOLEAN, g \in BOOLEAN, na \in BOOLEAN}
SceneCases(fmt) ==
    {[feat |-> f, v |-> SceneOf(<<IF f = "all" THEN VaryAll(Ev(t), IF fmt = "vcd" THEN AllText ELSE AllBin, 1) ELSE Vary(Ev(t), f)>>, <<>>)] :
        t \in EventTypes, f \in Feats}
    \cup {[feat |-> "speak", v |-> SceneOf(<<>>, <<ActorOf("a", TRUE, "", <<ChanOf("c", TRUE, <<e>>)>>)>>)] : e \in SpeakProduct}
    \* scene-level switches independently; actor / channel activity independently
    \cup {[feat |-> "scene", v |-> [SceneOf(<<Ev("Section")>>, <<ActorOf("a", aa, "", <<ChanOf("c", ca, <<Ev("LookAt")>>)>>)>>)
                                     EXCEPT !.ignore = ig, !.ramp = IF rp THEN [ramp |-> <<S1, S2>>, left |-> NoEdge, right |-> NoEdge] ELSE Curve0]] :
            aa \in BOOLEAN, ca \in BOOLEAN, ig \in BOOLEAN, rp \in BOOLEAN}
    \cup (IF fmt # "vcd" THEN {} ELSE
          {[feat |-> "scene", v |-> [SceneOf(<<Ev("Section")>>, <<ActorOf("a", TRUE, md, <<>>)>>)
                                     EXCEPT !.snap = sn, !.ignore = ig, !.map = mp, !.scale = sc]] :
            md \in {"", "models/alyx.mdl"}, sn \in BOOLEAN, ig \in BOOLEAN, mp \in {"", "maps/d1_trainstation_01.vmf"},
            sc \in {<<>>, <<<<"CChoreoView", "100">>>>}})
    \cup {[feat |-> "scene", v |-> s] : s \in
        {SceneOf(<<>>, <<>>),
         \* events, actors and channels that share their names
         SceneOf(<<Ev("Section"), Ev("Section")>>,
                 <<ActorOf("a", TRUE, "", <<ChanOf("c", TRUE, <<Ev("LookAt"), Ev("LookAt")>>), ChanOf("c", FALSE, <<>>), ChanOf("C", TRUE, <<>>)>>),
                   ActorOf("a", FALSE, "", <<>>)>>),
         SceneOf(<<Ev("Section")>>, <<ActorOf("an actor", TRUE, "", <<ChanOf("first", TRUE, <<Ev("LookAt"), Vary(Ev("Speak"), "end")>>),
                                                                       ChanOf("off", FALSE, <<>>)>>),
                                      ActorOf("!target1", FALSE, "", <<>>)>>),
         [SceneOf(<<Ev("Loop")>>, <<>>) EXCEPT !.ignore = TRUE, !.ramp = [ramp |-> <<S1, S2>>, left |-> NoEdge, right |-> NoEdge]]}
        \cup (IF fmt = "vcd"
              THEN {[SceneOf(<<>>, <<ActorOf("a", TRUE, "models/alyx.mdl", <<>>)>>) EXCEPT !.map = "maps/d1_trainstation_01.vmf"],
                    [SceneOf(<<Ev("Section")>>, <<>>) EXCEPT !.fps = 10, !.snap = TRUE, !.scale = <<<<"CChoreoView", "100">>, <<"RampTool", "64">>>>],
                    [SceneOf(<<>>, <<>>) EXCEPT !.fps = 240, !.ramp = [ramp |-> <<S3>>, left |-> <<TRUE, "0.5", "EASE_OUT", "LINEAR">>, right |-> NoEdge]]}
              ELSE {[SceneOf(<<Ev("Section")>>, <<>>) EXCEPT !.crc = "4294967295"],
                    [SceneOf(<<>>, <<>>) EXCEPT !.crc = "305419896", !.ignore = TRUE]})}

\* ---- soundscripts
Snd(sounds, vol, chan, lvl, pitch, force, stacks) ==
    [name |-> "Weapon_Pistol.Single", sounds |-> sounds, volume |-> vol, channel |-> chan, level |-> lvl, pitch |-> pitch,
     force |-> force, stacks |-> stacks]
NoStacks == <<<<>>, <<>>, <<>>>>
Leaf(d, k, v) == <<d, k, v, FALSE>>
Block(d, k) == <<d, k, "", TRUE>>
\* A keyvalues tree with every shape an ordered multimap can take: a key repeated with the same
\* spelling and in another case, a leaf after a block of the same name and a block after a leaf of
\* the same name, an empty block, three levels of nesting with a repeat at the deepest.
Shapes == <<Leaf(0, "texture", "a"), Leaf(0, "Texture", "b"), Leaf(0, "texture", "c"),
            Block(0, "inner"), Leaf(1, "x", "1"), Leaf(1, "x", "2"), Leaf(0, "inner", "leaf after block"),
            Leaf(0, "later", "leaf before block"), Block(0, "later"), Block(1, "deep"), Block(2, "deeper"), Leaf(3, "k", "v"), Leaf(3, "K", "w"),
            Block(0, "empty"), Block(0, "Empty"), Leaf(0, "last", "1")>>
SndSounds == {<<>>, <<"weapons/pistol/fire1.wav">>, <<"a.wav", "a.wav", "A.wav">>, <<")weapons/a.wav", "*#music/b c.mp3">>, <<"vo/caf{e9}.wav", "{20ac}/{3a9}.wav">>}
\* each of the three operator stacks is there or not, independently of the others and of force_v2
StackStart == {<<>>, <<Block(0, "mixer"), Leaf(1, "mixgroup", "Weapons")>>, Shapes}
StackUpdate == {<<>>, <<Leaf(0, "import_stack", "update_default"), Leaf(0, "import_stack", "second import")>>}
StackStop == {<<>>, <<Block(0, "stop"), Block(1, "inner"), Leaf(2, "a", "b c"), Leaf(0, "z", "1")>>, Shapes}
SndCases ==
    \* the value forms (single / range, number / constant) of volume, level, pitch and the channel
    {[feat |-> IF vol[1] # vol[2] \/ lvl[1] # lvl[2] \/ pitch[1] # pitch[2] THEN "range" ELSE "plain",
      v |-> Snd(snd, vol, chan, lvl, pitch, FALSE, NoStacks)] :
        snd \in SndSounds,
        vol \in {<<"VOL_NORM", "VOL_NORM">>, <<"1.0", "1.0">>, <<"0.5", "0.5">>, <<"0.25", "0.75">>, <<"0.5", "VOL_NORM">>},
        chan \in {"CHAN_AUTO", "CHAN_WEAPON", "CHAN_VOICE2", "CHAN_STATIC", "6"},
        lvl \in {<<"SNDLVL_NORM", "SNDLVL_NORM">>, <<"SNDLVL_GUNFIRE", "SNDLVL_GUNFIRE">>, <<"82.5", "82.5">>, <<"SNDLVL_80dB", "90.0">>},
        pitch \in {<<"PITCH_NORM", "PITCH_NORM">>, <<"100.0", "100.0">>, <<"PITCH_LOW", "PITCH_LOW">>, <<"98.0", "105.0">>, <<"PITCH_LOW", "PITCH_HIGH">>}}
    \cup
    \* Fields the writer leaves out when they are the default (volume 1, pitch 100), and the pair fields
    \* in general: both ends default, one end default (either one, number or constant), both other
    \* and equal, both other and different.
    {[feat |-> "pairs", v |-> Snd(<<"weapons/pistol/fire1.wav">>, vol, "CHAN_AUTO", lvl, pitch, FALSE, NoStacks)] :
        vol \in {<<"1.0", "1.0">>, <<"VOL_NORM", "VOL_NORM">>, <<"1.0", "0.5">>, <<"0.5", "1.0">>, <<"VOL_NORM", "0.5">>, <<"0.5", "VOL_NORM">>,
                 <<"1.0", "VOL_NORM">>, <<"0.5", "0.5">>, <<"0.25", "0.75">>},
        lvl \in {<<"SNDLVL_NORM", "SNDLVL_NORM">>, <<"SNDLVL_NORM", "SNDLVL_80dB">>, <<"SNDLVL_80dB", "SNDLVL_NORM">>, <<"75.0", "SNDLVL_NORM">>,
                 <<"82.5", "82.5">>, <<"82.5", "90.0">>},
        pitch \in {<<"100.0", "100.0">>, <<"PITCH_NORM", "PITCH_NORM">>, <<"100.0", "PITCH_NORM">>, <<"95.0", "100.0">>, <<"100.0", "120.0">>,
                   <<"PITCH_LOW", "PITCH_NORM">>, <<"PITCH_NORM", "PITCH_HIGH">>, <<"PITCH_NORM", "110.0">>, <<"99.0", "101.0">>, <<"101.0", "101.0">>}}
    \cup
    {[feat |-> "stacks", v |-> Snd(snd, vp[1], "CHAN_AUTO", <<"SNDLVL_NORM", "SNDLVL_NORM">>, vp[2], force, <<a, b, c>>)] :
        snd \in SndSounds, vp \in {<<<<"VOL_NORM", "VOL_NORM">>, <<"PITCH_NORM", "PITCH_NORM">>>>, <<<<"0.5", "0.5">>, <<"95.0", "110.0">>>>},
        force \in BOOLEAN, a \in StackStart, b \in StackUpdate, c \in StackStop}

\* ---- materials
VmtCases ==
    {[feat |-> IF bl = 3 THEN "block_backslash" ELSE IF bl \in {4, 5} \/ px = 3 THEN "multimap" ELSE "plain",
      v |-> [shader |-> sh, params |-> pa,
             blocks |-> CASE bl = 0 -> <<>>
                          [] bl = 1 -> <<<<"LightmappedGeneric_DX8", <<Leaf(0, "$basetexture", "a/b"), Leaf(0, "$flag", "")>>>>>>
                          [] bl = 2 -> <<<<"insert", <<Block(0, "inner"), Leaf(1, "$x", "1 2 3"), Leaf(0, "$y", "[0 1]")>>>>, <<"replace", <<Leaf(0, "$k", "v")>>>>>>
                          [] bl = 3 -> <<<<"Fallback", <<Leaf(0, "$basetexture", "models\\props\\x")>>>>>>
                          \* every multimap shape inside a block; the block itself twice (and in another case)
                          [] bl = 4 -> <<<<"insert", Shapes>>>>
                          [] bl = 5 -> <<<<"Fallback", <<Leaf(0, "$a", "1")>>>>, <<"Fallback", <<Leaf(0, "$a", "2")>>>>, <<"fallback", <<>>>>>>,
             proxies |-> CASE px = 0 -> <<>>
                           [] px = 1 -> <<<<"Sine", <<Leaf(0, "min", "0"), Leaf(0, "resultVar", "$selfillumscale[0]")>>>>>>
                           [] px = 2 -> <<<<"AnimatedTexture", <<Leaf(0, "animatedTextureVar", "$basetexture")>>>>, <<"Empty", <<>>>>>>
                           \* the same proxy twice, a proxy with every multimap shape
                           [] px = 3 -> <<<<"Sine", <<Leaf(0, "resultVar", "$a")>>>>, <<"Sine", <<Leaf(0, "resultVar", "$b")>>>>, <<"TextureTransform", Shapes>>>>]] :
        sh \in {"LightmappedGeneric", "patch"},
        pa \in {<<>>, <<<<"$basetexture", "tools/toolsskybox">>>>, <<<<"$basetexture", "caf{e9}/stra{df}e">>, <<"%keywords", "{20ac} {3a9}">>>>,
                <<<<"$basetexture", "models\\props\\x">>, <<"$alpha", "">>, <<"%keywords", "a b">>, <<"$reflectivity", "[.4 .8 .12]">>>>,
                <<<<"$Mixed Case", "{brace}">>, <<"include", "materials/x.vmt">>>>},
        bl \in 0..5, px \in 0..3}

\* ---- particle systems
Opt(nm, t, v) == <<nm, t, "", v>>
Op(nm, f, opts) == [name |-> nm, function |-> f, options |-> opts]
Sys(key, name, opts, ops, children) ==
    [key |-> key, name |-> name, options |-> opts, renderers |-> ops[1], operators |-> ops[2], initializers |-> ops[3],
     emitters |-> ops[4], forces |-> ops[5], constraints |-> ops[6], children |-> children]
NoOps == <<<<>>, <<>>, <<>>, <<>>, <<>>, <<>>>>
OneOp == Op("render_sprites", "render_animated_sprites", <<Opt("animation rate", "FLOAT", "2.5"), Opt("orientation_type", "INTEGER", "2")>>)
PcfCases ==
    {[feat |-> IF opts # <<>> /\ opts[1][1] = "Sort Particles" THEN "option_case" ELSE "plain",
      v |-> [systems |-> <<Sys("sys one", "Sys One", opts, ops, ch)>> \o (IF ch # <<>> /\ ch[1] = "other" THEN <<Sys("other", "other", <<>>, NoOps, <<>>)>> ELSE <<>>)]] :
        opts \in {<<>>, <<Opt("max_particles", "INTEGER", "5")>>, <<Opt("material", "STRING", "caf{e9}/{20ac}.vmt")>>, <<Opt("Sort Particles", "BOOL", "0"), Opt("use animation rate as FPS", "BOOL", "1")>>,
                  <<Opt("material", "STRING", "particle/fire.vmt"), Opt("radius", "FLOAT", "0.5"), Opt("sort", "BOOL", "1"),
                    Opt("color", "COLOR", "255 128 0 255"), Opt("bounds", "VEC3", "1 2.5 -3")>>},
        ops \in {[k \in 1..6 |-> IF k = j THEN <<Op("only", "kind " \o ToString(j), <<Opt("x", "INTEGER", ToString(j))>>),
                                                  Op("only", "again " \o ToString(j), <<>>), Op("Only", "case " \o ToString(j), <<>>)>> ELSE <<>>] : j \in 1..6}
               \cup {NoOps, <<<<OneOp>>, <<>>, <<>>, <<>>, <<>>, <<>>>>,
                 <<<<OneOp>>, <<Op("fade", "Alpha Fade Out Random", <<>>)>>, <<Op("i", "Position Within Sphere Random", <<Opt("distance_max", "FLOAT", "8")>>)>>,
                   <<Op("e", "emit_continuously", <<>>)>>, <<Op("f", "random force", <<>>)>>, <<Op("c", "Constrain distance to control point", <<>>)>>>>,
                 <<<<>>, <<Op("same", "x", <<>>), Op("same", "y", <<>>)>>, <<>>, <<>>, <<>>, <<>>>>},
        ch \in {<<>>, <<"other">>, <<"Sys One">>, <<"other", "other">>}}

\* ---- SMD meshes
Vert(x, links) == <<x, "0.0", "0.5", "0.0", "0.0", "1.0", "0.25", "0.75", links>>
Tri(mat, links) == <<mat, <<Vert("0.0", links), Vert("1.0", links), Vert("2.5", links)>>>>
Frame(t, bones, x) == <<t, [k \in 1..Len(bones) |-> <<bones[k][1], x, "0.0", "-3.5", "0.0", "0.0", "0.0">>]>>
SmdCases ==
    \* (a material name is stored without its file extension: names with one are not representable)
    {[feat |-> IF tr \in {2, 3} THEN "multilink" ELSE "plain",
      v |-> [bones |-> b, keys |-> [k \in 1..Len(b) |-> b[k][1]],
             frames |-> IF fr = 1 THEN <<Frame(0, b, "0.0")>> ELSE <<Frame(0, b, "0.0"), Frame(7, b, "1.25")>>,
             tris |-> CASE tr = 0 -> <<>>
                        [] tr = 1 -> <<Tri("concrete/floor", <<<<b[Len(b)][1], "1.0">>>>), Tri("m", <<<<b[1][1], "1.0">>>>)>>
                        [] tr = 2 -> <<Tri("m", <<<<b[1][1], "0.5">>, <<b[Len(b)][1], "0.5">>>>)>>
                        [] tr = 3 -> <<Tri("m", <<<<b[1][1], "0.25">>, <<b[Len(b)][1], "0.25">>, <<b[1][1], "0.5">>>>)>>
                        [] tr = 4 -> <<Tri("brick/wall_01", <<<<b[1][1], "1.0">>>>), Tri("brick/wall_01", <<<<b[Len(b)][1], "1.0">>>>),
                                       Tri("x", <<<<b[1][1], "1.0">>>>)>>
                        \* SMD files are ASCII: a material (5) or bone name (6) outside it must be refused
                        [] tr = 5 -> <<Tri("m{e9}tal/wall", <<<<b[1][1], "1.0">>>>)>>]] :
        b \in {<<<<"root", "">>>>, <<<<"child", "root">>, <<"root", "">>>>,
               <<<<"a", "root">>, <<"b", "a">>, <<"c", "root">>, <<"root", "">>>>},
        fr \in {1, 2}, tr \in 0..5}
    \* skeletons with many bones: the numbering of the bones in the file must not depend on how the
    \* mesh came about (written, read and written again gives the same file)
    \cup {[feat |-> "manybones", v |-> [bones |-> b, keys |-> [k \in 1..Len(b) |-> b[k][1]], frames |-> <<Frame(0, b, "0.0")>>,
                                       tris |-> <<Tri("m", <<<<b[1][1], "1.0">>>>)>>]] :
            b \in {<<<<"b1", "root">>, <<"b2", "root">>, <<"b3", "root">>, <<"b4", "root">>, <<"root", "">>>>,
                   <<<<"bone0", "">>, <<"bone1", "bone0">>, <<"bone2", "bone0">>, <<"bone3", "bone2">>, <<"bone4", "bone3">>,
                     <<"bone5", "bone0">>, <<"bone6", "bone4">>, <<"bone7", "bone1">>, <<"bone8", "bone0">>>>,
                   <<<<"arm_l", "spine">>, <<"arm_r", "spine">>, <<"hand_l", "arm_l">>, <<"hand_r", "arm_r">>, <<"head", "spine">>,
                     <<"leg_l", "pelvis">>, <<"leg_r", "pelvis">>, <<"pelvis", "">>, <<"spine", "pelvis">>>>}}
    \* a frame that lists a bone twice; two triangles of one material are in tr = 4, a bone linked twice in tr = 3
    \cup {[feat |-> "plain", v |-> [bones |-> <<<<"root", "">>>>, keys |-> <<"root">>,
                                   frames |-> <<<<0, <<<<"root", "0.0", "0.0", "0.0", "0.0", "0.0", "0.0">>, <<"root", "1.0", "0.0", "0.0", "0.0", "0.0", "0.0">>>>>>>>,
                                   tris |-> <<>>]]}
    \cup {[feat |-> "plain", v |-> [bones |-> <<<<"kn{f6}chel", "root">>, <<"root", "">>>>, keys |-> <<"kn{f6}chel", "root">>,
                                   frames |-> <<Frame(0, <<<<"kn{f6}chel", "root">>, <<"root", "">>>>, "0.0")>>, tris |-> <<>>]]}

Tag(fmt, S) == {[fmt |-> fmt, feat |-> "plain", v |-> x] : x \in S}
Cases == CASE Fmt = "cmdseq" -> Tag("cmdseq", CmdCases)
           [] Fmt = "vcd" -> {[fmt |-> "vcd", feat |-> c.feat, v |-> c.v] : c \in SceneCases("vcd")}
           [] Fmt = "bvcd" -> {[fmt |-> "bvcd", feat |-> c.feat, v |-> c.v] : c \in {c \in SceneCases("bvcd") : c.feat \notin TextOnly}}
           [] Fmt = "snd" -> {[fmt |-> "snd", feat |-> c.feat, v |-> c.v] : c \in SndCases}
           [] Fmt = "vmt" -> {[fmt |-> "vmt", feat |-> c.feat, v |-> c.v] : c \in VmtCases}
           [] Fmt = "pcf" -> {[fmt |-> "pcf", feat |-> c.feat, v |-> c.v] : c \in PcfCases}
           [] Fmt = "smd" -> {[fmt |-> "smd", feat |-> c.feat, v |-> c.v] : c \in SmdCases}
           \* the scenes.image string pool: character class x encoding argument x version x dict / list
           [] Fmt = "imgenc" -> {[fmt |-> "imgenc", feat |-> ch, v |-> [enc |-> en, chars |-> ch, ver |-> ve, how |-> ho]] :
                                   ch \in {"ascii", "latin1", "wide"}, en \in {"default", "latin1", "utf8"}, ve \in {2, 3}, ho \in {"dict", "list"}}
NoCase == [fmt |-> "none", feat |-> "", v |-> [seqs |-> <<>>]]

CaseNext == /\ ~done /\ done' = TRUE
            /\ UNCHANGED <<img, slots, n, case>>
            /\ act' = [op |-> "run"]

Init == /\ act = [op |-> "init"]
        /\ ImgInit
        /\ IF Machine = "cases" THEN case \in Cases /\ done = FALSE ELSE case = NoCase /\ done = TRUE
Next == (Machine = "image" /\ ImgNext) \/ (Machine = "cases" /\ CaseNext)
Spec == Init /\ [][Next]_<<vars, act>>

\* what is read is a fixed point of the format's decay
CaseIdempotent == Machine = "cases" => DecayIdempotent(case.fmt, case.v)
\* formats without decay: what is representable comes back unchanged
CaseIdentity == (Machine = "cases" /\ case.fmt \in {"cmdseq", "vmt", "pcf", "smd"}) => Decay(case.fmt, case.v) = case.v

View == vars
EmitEdge == PrintT(ToJson([tag |-> "EDGE", s |-> [img |-> img, slots |-> slots, n |-> n], a |-> act',
                           t |-> [img |-> img', slots |-> slots', n |-> n']]))
EmitCase == PrintT(ToJson([tag |-> "CASE", fmt |-> case.fmt, feat |-> case.feat, v |-> case.v]))
=============================================================================
