----------------------------- MODULE PathResOps -----------------------------
(* C18: path resolution of a constrained directory filesystem, as a design in   *)
(* which "never reaches outside the root" holds.                                 *)
(*                                                                              *)
(* An input path is a sequence of tokens [s, c]: component text c preceded by   *)
(* separator s ("/" or "\\"; "" only for the first token of a relative path).   *)
(* A leading separator is the absolute marker.  The platform modelled is POSIX  *)
(* (the platform the check runs on): only "/" separates components for the      *)
(* operating system, a backslash is an ordinary character of a name.            *)
(* FileSystemChain rewrites backslashes to "/" before handing the name to its   *)
(* member, which is modelled too.                                               *)
(*                                                                              *)
(* Locations are sequences of names counted from the filesystem root "/".       *)
EXTENDS Integers, Sequences, FiniteSets

BS == "\\"

(* ---- generic sequence helpers ---------------------------------------------- *)
RECURSIVE FoldL(_, _, _)
FoldL(Op(_, _), acc, q) == IF q = <<>> THEN acc ELSE FoldL(Op, Op(acc, Head(q)), Tail(q))

IsPrefixSeq(a, b) == Len(a) <= Len(b) /\ \A k \in 1..Len(a) : a[k] = b[k]
IsProperPrefixSeq(a, b) == Len(a) < Len(b) /\ IsPrefixSeq(a, b)

(* ---- the text of an input -------------------------------------------------- *)
TokStr(t) == t.s \o t.c
AddStr(acc, t) == acc \o TokStr(t)
\* the exact string handed to the API
PathStr(toks) == FoldL(AddStr, "", toks)

(* ---- what POSIX makes of it ------------------------------------------------- *)
\* Split on "/" only: a token introduced by "/" starts a new component, any other token
\* is glued (with its backslash) to the component before it.
AddTok(acc, t) ==
    IF t.s = "/" THEN Append(acc, t.c)
    ELSE IF acc = <<>> THEN <<TokStr(t)>>
    ELSE [acc EXCEPT ![Len(acc)] = @ \o TokStr(t)]
\* Components of a path string; an absolute path starts with the empty component.
\* (the first token of a relative path has s = "", and starts the first component)
PosixComps(toks) ==
    IF toks = <<>> THEN <<"">>
    ELSE IF toks[1].s = "/" THEN FoldL(AddTok, <<"">>, toks)
    ELSE FoldL(AddTok, <<TokStr(toks[1])>>, Tail(toks))
\* absolute = the text starts with "/" (also when an empty first component precedes the separator)
StartsWith(toks, ch) == LET st == PathStr(toks) IN Len(st) > 0 /\ SubSeq(st, 1, 1) = ch
IsAbs(toks) == StartsWith(toks, "/")

\* Lexical normalisation of an absolute path (os.path.abspath / normpath): "" and "." vanish,
\* ".." removes the component before it, and the parent of "/" is "/".
NormStep(acc, c) ==
    IF c = "" \/ c = "." THEN acc
    ELSE IF c = ".." THEN (IF acc = <<>> THEN acc ELSE SubSeq(acc, 1, Len(acc) - 1))
    ELSE Append(acc, c)
Normalize(comps) == FoldL(NormStep, <<>>, comps)
IsNormal(loc) == \A k \in 1..Len(loc) : loc[k] \notin {"", ".", ".."}

\* os.path.join(dir, name) followed by abspath, dir being an absolute normal location
JoinAbs(dir, toks) == IF IsAbs(toks) THEN Normalize(PosixComps(toks))
                      ELSE Normalize(dir \o PosixComps(toks))

\* Lexical normalisation of a relative path (os.path.normpath): leading ".." are kept.
RelStep(acc, c) ==
    IF c = "" \/ c = "." THEN acc
    ELSE IF c = ".." /\ acc # <<>> /\ acc[Len(acc)] # ".." THEN SubSeq(acc, 1, Len(acc) - 1)
    ELSE Append(acc, c)
NormalizeRel(comps) == FoldL(RelStep, <<>>, comps)

\* Text of a location
AddComp(acc, c) == acc \o "/" \o c
LocStr(loc) == IF loc = <<>> THEN "/" ELSE FoldL(AddComp, "", loc)

(* ---- FileSystemChain member with a sub-folder prefix ------------------------- *)
\* os.path.join(prefix, name).replace("\\", "/"): an absolute name (leading "/") drops the
\* prefix; every backslash becomes a separator.
Fwd(t) == [s |-> IF t.s = "" THEN "" ELSE "/", c |-> t.c]
SlashAll(toks) == [k \in 1..Len(toks) |-> Fwd(toks[k])]
PrefixToks(pfx) == [k \in 1..Len(pfx) |-> [s |-> IF k = 1 THEN "" ELSE "/", c |-> pfx[k]]]
\* (the first token of a relative name is joined to the prefix with "/"; if it began with a
\*  backslash that backslash becomes one more, empty, component)
ChainToks(pfx, toks) ==
    IF pfx = <<>> \/ IsAbs(toks) THEN SlashAll(toks)
    ELSE IF toks = <<>> THEN Append(PrefixToks(pfx), [s |-> "/", c |-> ""])
    ELSE LET first == IF toks[1].s = BS
                      THEN <<[s |-> "/", c |-> ""], [s |-> "/", c |-> toks[1].c]>>
                      ELSE <<[s |-> "/", c |-> toks[1].c]>>
         IN  PrefixToks(pfx) \o first \o SlashAll(Tail(toks))

(* ---- containment -------------------------------------------------------------- *)
\* THE design decision: a location is inside the root iff the root's *component sequence* is a
\* prefix of the location's.
Inside(root, loc) == IsPrefixSeq(root, loc)
\* The tempting alternative (comparison of the texts), kept to show it is not the same thing.
TextInside(root, loc) ==
    LET r == LocStr(root) l == LocStr(loc)
    IN  Len(l) >= Len(r) /\ SubSeq(l, 1, Len(r)) = r

Escape == [k |-> "escape", loc |-> <<>>]
\* root: location of the root as handed to the constructor (components, may contain "", ".", "..")
Resolve(rootGiven, toks) ==
    LET root == Normalize(rootGiven)
        loc == JoinAbs(root, toks)
    IN  IF Inside(root, loc) THEN [k |-> "in", loc |-> loc] ELSE Escape

(* ---- the world: a small directory tree under base ------------------------------ *)
\*   base/A/B/root/{in.txt, sub/in.txt}       inside
\*   base/A/B/{rootx, root.bak, roo, Root}/in.txt   siblings (two extend the root's name)
\*   base/A/B/in.txt, base/A/in.txt, base/in.txt    ancestors
RootOf(base) == base \o <<"A", "B", "root">>
InsideTags == {"IN1", "IN2"}
WorldFiles(base) ==
    { [loc |-> base \o <<"A", "B", "root", "in.txt">>, tag |-> "IN1"],
      [loc |-> base \o <<"A", "B", "root", "sub", "in.txt">>, tag |-> "IN2"],
      [loc |-> base \o <<"A", "B", "rootx", "in.txt">>, tag |-> "OUT_X"],
      [loc |-> base \o <<"A", "B", "root.bak", "in.txt">>, tag |-> "OUT_BAK"],
      [loc |-> base \o <<"A", "B", "roo", "in.txt">>, tag |-> "OUT_ROO"],
      [loc |-> base \o <<"A", "B", "Root", "in.txt">>, tag |-> "OUT_CAP"],
      [loc |-> base \o <<"A", "B", "in.txt">>, tag |-> "OUT_B"],
      [loc |-> base \o <<"A", "in.txt">>, tag |-> "OUT_A"],
      [loc |-> base \o <<"in.txt">>, tag |-> "OUT_W"] }
FileAt(base, loc) == {f \in WorldFiles(base) : f.loc = loc}
FilesBelow(base, loc) == {f \in WorldFiles(base) : IsProperPrefixSeq(loc, f.loc)}

(* ---- outcomes of the public operations ------------------------------------------ *)
\* x = [base, root (as given), pfx (chain prefix, <<>> = direct), toks]
Eff(x) == IF x.chain THEN ChainToks(x.pfx, x.toks) ELSE x.toks
Res(x) == Resolve(x.root, Eff(x))
\* a single-file operation: "escape", "nofile" or the file [loc, tag]
OpenOutcome(x) ==
    LET r == Res(x) IN
    IF r.k = "escape" THEN [k |-> "escape", files |-> {}]
    ELSE IF FileAt(x.base, r.loc) = {} THEN [k |-> "nofile", files |-> {}]
    ELSE [k |-> "file", files |-> FileAt(x.base, r.loc)]
\* fs[name] followed by File.open_*(): RawFileSystem keeps the name in the File object with
\* every backslash rewritten to "/" and resolves that text again when the file is opened.  On
\* POSIX the rewritten text can mean another location; it is resolved under the same
\* containment rule, so the result is again "escape", "nofile" or a file inside the root.
GetOutcome(x) ==
    LET first == OpenOutcome(x) IN
    IF first.k # "file" \/ x.chain THEN first
    ELSE OpenOutcome([x EXCEPT !.toks = SlashAll(x.toks)])
WalkOutcome(x) ==
    LET r == Res(x) IN
    IF r.k = "escape" THEN [k |-> "escape", files |-> {}]
    ELSE [k |-> "list", files |-> FilesBelow(x.base, r.loc)]

\* The property, on outcomes: whatever is produced lies under the root.
OutcomeSafe(x, o) == \A f \in o.files : f.tag \in InsideTags /\ Inside(Normalize(x.root), f.loc)

(* ---- the bounded input family (shared by the model and the record validator) ---- *)
SepAt(kind, i) == CASE kind = "fwd" -> "/" [] kind = "back" -> BS
                    [] kind = "mix" -> IF i % 2 = 1 THEN "/" ELSE BS
BodyToks(kind, b, rel) ==
    [i \in 1..Len(b) |-> [s |-> IF rel /\ i = 1 THEN "" ELSE SepAt(kind, i), c |-> b[i]]]
BaseToks(base) == [k \in 1..Len(base) |-> [s |-> "/", c |-> base[k]]]
\* pre: "rel" | "abs0" (leading separator) | "absW" (world directory, then separator)
Tokens(c, b, base) == CASE c.pre = "rel" -> BodyToks(c.kind, b, TRUE)
                        [] c.pre = "abs0" -> BodyToks(c.kind, b, FALSE)
                        [] c.pre = "absW" -> BaseToks(base) \o BodyToks(c.kind, b, FALSE)
\* how the root directory is spelled when the filesystem is constructed
RootGiven(form, base) == CASE form = "plain" -> RootOf(base)
                           [] form = "trail" -> RootOf(base) \o <<"">>
                           [] form = "dot" -> base \o <<"A", "B", ".", "root", "">>
                           [] form = "updown" -> base \o <<"A", "B", "rootx", "..", "root">>
Input(c, b, base) == [base |-> base, root |-> RootGiven(c.form, base), chain |-> c.chain,
                      pfx |-> <<"sub">>, toks |-> Tokens(c, b, base)]
\* text of a location, written relative to the world directory ("~/...") when it lies below it
RelStr(base, loc) == IF IsPrefixSeq(base, loc) THEN "~" \o (IF Len(loc) = Len(base) THEN "/" ELSE LocStr(SubSeq(loc, Len(base) + 1, Len(loc))))
                     ELSE LocStr(loc)

(* ---- packlist.unify_path ---------------------------------------------------------- *)
\* A pack path is relative to the pack root; both slash kinds separate components for every
\* consumer of the result.  It must be rejected when it climbs above the root.
BothComps(toks) == [k \in 1..Len(toks) |-> toks[k].c]
Climbs(comps) == NormalizeRel(comps) # <<>> /\ NormalizeRel(comps)[1] = ".."
\* a leading separator means "from the pack root", where ".." has nowhere to go
UnifyNorm(toks) == IF StartsWith(toks, "/") \/ StartsWith(toks, BS) THEN Normalize(BothComps(toks))
                   ELSE NormalizeRel(BothComps(toks))
UnifyClimbs(toks) == Climbs(UnifyNorm(toks))
=============================================================================
