SPECIFICATION Spec
CONSTANTS
  MaxEnts = 1
  MaxSolids = 1
  MaxSides = 7
  MaxOuts = 1
  MaxVis = 2
  MaxGroups = 1
  MaxCams = 1
  MaxCordons = 1
  Lens = {1, 2}
  WithHist = TRUE
  OptChoices <- OptOne
  Rich = FALSE
INVARIANT UniqueIds
ACTION_CONSTRAINT EmitHist
CHECK_DEADLOCK FALSE
