------------------------------- MODULE DmxGraph -------------------------------
(* C14: exporting a DMX element graph and parsing the result gives an           *)
(* isomorphic graph.  The machine builds a graph with the public mutators       *)
(* (one action each), exports it in one encoding (Export) and parses the file   *)
(* (Parse).  Two families share the machine:                                    *)
(*   Family = "graph": references only - sharing, cycles, self reference, NULL, *)
(*                     stubs, arrays of references, empty arrays;               *)
(*   Family = "typed": one element (plus an optional child) with attributes of  *)
(*                     the 13 plain value types as scalar / array / empty array *)
(*                     and text of three classes in every place text can stand. *)
EXTENDS DmxGraphOps, Json

CONSTANTS Uuids,      \* element identities; "u1" is the root
          MaxSize,    \* bound on attributes + array slots (graph family)
          MaxArr,     \* bound on array length (graph family)
          MaxAttr,    \* bound on attributes of the root (typed family)
          Family,
          Vers,       \* binary versions explored
          Unis,       \* unicode modes explored
          Cross       \* typed family: combine a text placement with any attribute

VARIABLES g, phase, file, out, act
vars == <<g, phase, file, out>>

AttrNames == <<"Ax", "bY", "Cz", "dW">>          \* original casing matters
ElName == [u \in Uuids |-> IF u = "u1" THEN "np1" ELSE IF u = "u2" THEN "np2" ELSE "np3"]
ElType == [u \in Uuids |-> IF u = "u2" THEN "tp2" ELSE "tp1"]     \* u1 and u3 share a type
NonAscii == {"sU1", "sU2", "aU", "nU", "tU"}
Encs == {BinEnc(v) : v \in Vers} \cup {Kv2Enc(f, c) : f \in BOOLEAN, c \in BOOLEAN}
Targets == {RefE(u) : u \in Uuids} \cup {RefNull, RefStub("s1")}
NoFile == [enc |-> BinEnc(0), uni |-> "", bin |-> <<>>, kv |-> <<>>]
NoGraph == [root |-> "", el |-> <<>>]

Init == /\ g = [root |-> "u1", el |-> [u \in Uuids |-> [type |-> ElType[u], name |-> ElName[u], attrs |-> <<>>]]]
        /\ phase = "build" /\ file = NoFile /\ out = NoGraph
        /\ act = [op |-> "init"]

Building == phase = "build"
Live == SeqSet(Listing(g))              \* only reachable elements are worth extending
NextName(e) == AttrNames[Len(g.el[e].attrs) + 1]
Room(e) == Len(g.el[e].attrs) < Len(AttrNames)

(* ---- graph family ---------------------------------------------------------- *)
AddScalarRef(e, r) == /\ Building /\ Family = "graph" /\ e \in Live /\ Room(e) /\ GSize(g) < MaxSize
                      /\ g' = BAddScalarRef(g, e, NextName(e), r)
                      /\ act' = [op |-> "scalar_ref", e |-> e, n |-> NextName(e), r |-> r]
AddRefArray(e) == /\ Building /\ Family = "graph" /\ e \in Live /\ Room(e) /\ GSize(g) < MaxSize
                  /\ g' = BAddArray(g, e, NextName(e), ELEMENT)
                  /\ act' = [op |-> "ref_array", e |-> e, n |-> NextName(e)]
AppendRef(e, j, r) == /\ Building /\ Family = "graph" /\ e \in Live /\ GSize(g) < MaxSize
                      /\ j \in 1..Len(g.el[e].attrs)
                      /\ g.el[e].attrs[j].arr /\ Len(g.el[e].attrs[j].v) < MaxArr
                      /\ g' = BAppend(g, e, j, r)
                      /\ act' = [op |-> "append_ref", e |-> e, j |-> j, r |-> r]

(* ---- typed family ---------------------------------------------------------- *)
PlainTypes == Types \ {ELEMENT}
Shapes == {"s", "a1", "a2", "a0"}
Classes == {"p", "q", "U"}          \* plain text, text needing escapes, non-ASCII text
SymA(t, c) == IF t = TSTRING THEN (CASE c = "p" -> "sp1" [] c = "q" -> "sq1" [] OTHER -> "sU1")
              ELSE <<"", "i1", "f1", "b1", "", "y1", "m1", "c1", "w1", "x1", "z1", "g1", "q1", "r1">>[t]
SymB(t, c) == IF t = TSTRING THEN (CASE c = "p" -> "sp2" [] c = "q" -> "sq2" [] OTHER -> "sU2")
              ELSE <<"", "i2", "f2", "b2", "", "y2", "m2", "c2", "w2", "x2", "z2", "g2", "q2", "r2">>[t]
ValuesOf(t, sh, c) == CASE sh = "s" -> <<SymA(t, c)>> [] sh = "a1" -> <<SymB(t, c)>>
                        [] sh = "a2" -> <<SymA(t, c), SymB(t, c)>> [] OTHER -> <<>>
Placed == g.el["u1"].name # ElName["u1"] \/ g.el["u1"].type # ElType["u1"]
          \/ (\E j \in 1..Len(g.el["u1"].attrs) : g.el["u1"].attrs[j].n \notin SeqSet(AttrNames))
          \/ Len(g.el["u2"].attrs) > 0 \/ g.el["u2"].name # ElName["u2"] \/ g.el["u2"].type # ElType["u2"]
AddValue(t, sh, c) ==
    /\ Building /\ Family = "typed" /\ Len(g.el["u1"].attrs) < MaxAttr
    /\ t \in PlainTypes /\ (t # TSTRING => c = "p")
    /\ (Cross \/ ~Placed)
    /\ g' = NewAttr(g, "u1", [n |-> NextName("u1"), t |-> t, arr |-> sh # "s", v |-> ValuesOf(t, sh, c)])
    /\ act' = [op |-> "value", e |-> "u1", n |-> NextName("u1"), t |-> t, arr |-> sh # "s", v |-> ValuesOf(t, sh, c)]
\* text of class c in the places text can stand besides attribute values
PlaceText(place, c) ==
    /\ Building /\ Family = "typed" /\ ~Placed /\ c # "p"
    /\ (place = "ncase" => c = "q")      \* the name attribute spelled "Name": one variant
    /\ (Cross \/ Len(g.el["u1"].attrs) = 0)
    /\ Room("u1")
    /\ g' = BPlace(g, place, c, NextName("u1"))
    /\ act' = [op |-> "place", place |-> place, c |-> c, nn |-> NextName("u1")]

\* the name attribute removed / removed and set again, on the root or on its child
NamePlace(place) ==
    /\ Building /\ Family = "typed" /\ ~Placed /\ Len(g.el["u1"].attrs) = 0
    /\ g' = BNamePlace(g, place, NextName("u1"))
    /\ act' = [op |-> "nameplace", place |-> place, nn |-> NextName("u1")]

(* ---- export and parse ------------------------------------------------------- *)
Encode(enc, uni) ==
    IF enc.kind = "bin"
    THEN [enc |-> enc, uni |-> uni, bin |-> BinFile(g, enc.ver), kv |-> <<>>]
    ELSE [enc |-> enc, uni |-> uni, bin |-> <<>>,
          kv |-> [top |-> Kv2Top(g, enc.flat), ids |-> Keep(enc, g), body |-> Kv2Out(g, enc)]]
Export(enc, uni) ==
    /\ Building
    /\ IF CanExpress(enc, uni, g, NonAscii)
       THEN phase' = "file" /\ file' = Encode(enc, uni)
       ELSE phase' = "raised" /\ file' = [NoFile EXCEPT !.enc = enc, !.uni = uni]
    /\ UNCHANGED <<g, out>>
    /\ act' = [op |-> "export", enc |-> enc, uni |-> uni, ok |-> CanExpress(enc, uni, g, NonAscii)]
Parse ==
    /\ phase = "file" /\ phase' = "parsed"
    /\ out' = IF file.enc.kind = "bin" THEN ParseBin(file.bin) ELSE file.kv.body
    /\ UNCHANGED <<g, file>>
    /\ act' = [op |-> "parse"]

Next == \/ \E e \in Uuids, r \in Targets : AddScalarRef(e, r) /\ UNCHANGED <<phase, file, out>>
        \/ \E e \in Uuids : AddRefArray(e) /\ UNCHANGED <<phase, file, out>>
        \/ \E e \in Uuids, j \in 1..Len(AttrNames), r \in Targets : AppendRef(e, j, r) /\ UNCHANGED <<phase, file, out>>
        \/ \E t \in PlainTypes, sh \in Shapes, c \in Classes : AddValue(t, sh, c) /\ UNCHANGED <<phase, file, out>>
        \/ \E p \in {"aname", "ename", "etype", "cname", "ctype", "ncase"}, c \in Classes : PlaceText(p, c) /\ UNCHANGED <<phase, file, out>>
        \/ \E p \in {"rdel", "rpop", "rclear", "cdel", "readd", "rreadd", "creadd"} : NamePlace(p) /\ UNCHANGED <<phase, file, out>>
        \/ \E enc \in Encs, uni \in Unis : Export(enc, uni)
        \/ Parse
Spec == Init /\ [][Next]_vars

(* ---- the listed property ------------------------------------------------------ *)
\* a parsed file is the graph again, up to the UUIDs the encoding does not store
RoundTrip == phase = "parsed" => Iso(g, out, Keep(file.enc, g))
\* every combination is either expressible and round-trips, or is refused
Refused == phase = "raised" => ~CanExpress(file.enc, file.uni, g, NonAscii)
(* ---- what makes it hold -------------------------------------------------------- *)
Codes == CodeLaw
GraphOK == WellFormed(g)
ListingOK == ValidListing(g, Listing(g))
BinInverse == (phase = "file" /\ file.enc.kind = "bin") =>
                  BinFileOK(file.bin) /\ ParseBin(file.bin) = Restrict(g)
RootKept == \A enc \in Encs : g.root \in Keep(enc, g)
TextTerminates == NoInlineCycle(g, FALSE) /\ NoInlineCycle(g, TRUE)
TopLevel == \A f \in BOOLEAN : SeqSet(Kv2Top(g, f)) = Roots(g, f) /\ Kv2Top(g, f)[1] = g.root
FreshOut == (phase = "parsed" /\ file.enc.kind = "kv2") =>
               Cardinality(DOMAIN out.el) = Len(Listing(g))

View == vars
Emit == act'.op = "parse" \/
        PrintT(ToJson([tag |-> "EDGE", s |-> [g |-> g], a |-> act', t |-> [g |-> g']]))
=============================================================================
