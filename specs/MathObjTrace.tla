----------------------------- MODULE MathObjTrace -----------------------------
(* Validates steps logged from real Vec / Angle / Matrix objects against       *)
(* MathObjOps.  A record holds the projected references before and after one   *)
(* public operation: per slot the class, a canonical identity number (id), a   *)
(* never-reused object number (uid) and the value.                             *)
(*   k = "step":  values are integers on the exact domain; the whole           *)
(*                post-state must be the one MathObjOps computes.               *)
(*   k = "hstep": the same histories run on arbitrary ("hostile") floats;       *)
(*                values are opaque bit patterns (hex strings), so only         *)
(*                Shape - which object is returned / mutated - is predicted,    *)
(*                and the property clauses are evaluated on the logged numbers: *)
(*                range on exact (sign, non-zero, floor) triples, immutability  *)
(*                on bit patterns.                                              *)
EXTENDS MathObjOps, TLC, Json, IOUtils

Recs == ndJsonDeserialize(IOEnv.TRACE_FILE)
N == Len(Recs)
VARIABLE i

F(c, e) == [clause |-> c, exp |-> e]
If(b, c, e) == IF b THEN {F(c, e)} ELSE {}
StOf(j) == [cls |-> j.cls, id |-> j.id, val |-> j.val]
Live(j) == {s \in Slots : j.uid[s] # 0}

\* the same object before and after, by its never-reused number
Same(pre, post) == {w \in Live(pre) \X Live(post) : pre.uid[w[1]] = post.uid[w[2]]}
Touched(pre, sh, s) == ~sh.exc /\ sh.kind = "mutate" /\ pre.id[s] = sh.mutid

\* clauses that only need references, classes and bit-pattern equality
StructFails(r, sh) ==
    LET pre == r.pre post == r.post IN
    If(sh.exc # r.exc, "exception", sh.exc)
    \cup If(r.exc /\ r.et \notin {"TypeError", "AttributeError"}, "exception.type", "TypeError")
    \cup If(post.cls # ClsAfter(pre, sh), "shape.class", ClsAfter(pre, sh))
    \cup If(post.id \notin {IdsAfter(pre, sh, p) : p \in Picks(sh)}, "shape.ids", {IdsAfter(pre, sh, p) : p \in Picks(sh)})
    \cup If(~sh.exc /\ sh.kind = "assign" /\ sh.res = "fresh" /\ post.uid[sh.tgt] \in {pre.uid[s] : s \in Live(pre)},
            "shape.fresh", sh.tgt)
    \cup If(\E w \in Same(pre, post) : pre.cls[w[1]] \in Frozen /\ pre.val[w[1]] # post.val[w[2]],
            "frozen.changed", "unchanged")
    \cup If(\E w \in Same(pre, post) : pre.cls[w[1]] \in Frozen /\ pre.hash[w[1]] # post.hash[w[2]],
            "frozen.hash", "unchanged")
    \cup If(\E w \in Same(pre, post) : pre.cls[w[1]] \notin Frozen /\ ~Touched(pre, sh, w[1]) /\ pre.val[w[1]] # post.val[w[2]],
            "operand.changed", "unchanged")

StepFails(r) ==
    LET pre == StOf(r.pre) a == r.a sh == Shape(pre, a) IN
    IF ~sh.ok \/ ~OnDomain(pre, a) THEN {F("domain", 0)}
    ELSE StructFails(r, sh)
         \cup If(r.post.val \notin {ApplyPick(pre, a, sh, p).val : p \in Picks(sh)}, "value", ApplyPick(pre, a, sh, CHOOSE p \in Picks(sh) : TRUE).val)
         \cup If(~AngleRange(StOf(r.post)), "range", 360)
         \cup If(r.e > 1000, "tolerance", 1000)
         \cup If(a.op \in CopyLike /\ ~r.exc /\ r.post.val[a.s] # r.pre.val[a.t], "copy.equal", r.pre.val[a.t])

\* an angle component logged as <<negative?, non-zero?, floor(|x|) capped at 2^31-1>>: 0 <= x < 360 exactly
InRange(c) == ~(c[1] /\ c[2]) /\ c[3] < 360
HStepFails(r) ==
    LET pre == r.pre a == r.a sh == Shape([cls |-> pre.cls, id |-> pre.id, val |-> pre.val], a) IN
    IF ~sh.ok THEN {F("domain", 0)}
    ELSE StructFails(r, sh)
         \* the object this step produced or mutated (earlier objects were judged by the step that made them)
         \cup If(~sh.exc /\ \E j \in 1..Len(r.post.rng[sh.tgt]) : ~InRange(r.post.rng[sh.tgt][j]), "range", 360)
         \cup If(a.op \in CopyLike /\ ~r.exc /\ ~(r.eq.lib /\ r.eq.close), "copy.equal", TRUE)

\* ---- independence probe: an object was derived from another one (constructor from an instance, from_str of an
\* instance or of its text, with_axes, copy/deepcopy/pickle, freeze/thaw, from_basis); then the mutable one of the
\* pair was mutated in place (setter, item assignment, *=, @=, transform() block) and the other one watched.
\* wb/wa = bit patterns of the watched object before/after, mb/ma of the mutated one.
IndepFails(r) ==
    LET sh == Shape([cls |-> <<r.scls, "None", "None">>, id |-> <<1, 0, 0>>, val |-> <<<<>>, <<>>, <<>>>>], r.a) IN
    IF ~sh.ok \/ sh.exc \/ sh.kind # "assign" THEN {F("domain", 0)}
    ELSE If(r.rcls # sh.cls, "indep.class", sh.cls)
         \cup If(r.same /\ sh.res = "fresh", "indep.alias", "fresh")
         \cup If(r.a.op \in CopyLike /\ ~r.equal0, "copy.equal", TRUE)
         \cup If(r.wb # r.wa, "indep.changed", "unchanged")
         \cup If(r.mut # "none" /\ (r.exc \/ r.mb = r.ma), "indep.vacuous", 0)

Fails(r) == CASE r.k = "step" -> StepFails(r)
              [] r.k = "hstep" -> HStepFails(r)
              [] r.k = "indep" -> IndepFails(r)

Init == i = 0
Next == i < N /\ i' = i + 1
Checked == i = 0 \/ \A f \in Fails(Recs[i]) :
              PrintT(ToJson([tag |-> "MISMATCH", i |-> i, clause |-> f.clause, exp |-> f.exp]))
AllConsumed == TLCGet("stats").diameter = N + 1
=============================================================================
