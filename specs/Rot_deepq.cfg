SPECIFICATION Spec
CONSTANTS
  StartVecs <- VecsQuick
  StartAngs <- StartQuick
  RhsAngs <- RhsQuick
  MaxLen = 2
  UseForms <- Forms
INVARIANT Proper
INVARIANT Convention
INVARIANT Assoc
INVARIANT RoundTrip
INVARIANT Stable
INVARIANT InvTranspose
PROPERTY FrozenSafe
CHECK_DEADLOCK FALSE
