------------------------------ MODULE VmfDocOps ------------------------------
(* C06: pure operators of the abstract VMF document.                           *)
(*                                                                             *)
(* A document is a record                                                      *)
(*   [set, vis, groups, cams, cordons, world, ents]                            *)
(* (editor settings, visgroup forest, entity groups, cameras, cordons, the     *)
(* worldspawn entity, the other entities); entities hold keyvalues (a function *)
(* from the case-folded key to [k, v]), instance fixups (folded variable ->    *)
(* [var, val, idx]), outputs, brushes; brushes hold faces; faces hold texture  *)
(* axes, optional Strata vertex data and optional displacement data.           *)
(*                                                                             *)
(* Numbers are exact integer limbs (TLC has no reals):                         *)
(*   fixed  <<sgn, integer part, nano-units>>       coordinates, axes, colours *)
(*   sig    <<sgn, 9-digit mantissa, exponent>>     rotation, delay, multiblend*)
(*                                                                             *)
(* The module defines (1) the builder operations mirroring the public API,     *)
(* (2) Keep(opts, doc): what export -> parse must return - the identity except *)
(* for what the options document as dropped and the writer's normalisations -, *)
(* (3) Quant: every number re-reads as the number its exported text denotes    *)
(* (6 decimal places resp. 6 significant digits), (4) Diff: the set of clauses *)
(* in which two documents differ, (5) the ID renumbering as a bijection per    *)
(* kind and its application to the exported token stream, (6) Skeleton: the    *)
(* block/key structure the exported text must have.                            *)
EXTENDS Integers, Sequences, FiniteSets, TLC, SequencesExt

Min2(a, b) == IF a < b THEN a ELSE b
C(cond, name) == IF cond THEN {} ELSE {name}
MapSeq(F(_), s) == [i \in 1..Len(s) |-> F(s[i])]
SeqToSet(s) == {s[i] : i \in 1..Len(s)}
SortInts(S) == SetToSortSeq(S, LAMBDA a, b : a < b)
LowestFree(used) == CHOOSE n \in 1..(Cardinality(used) + 1) :
                        n \notin used /\ \A m \in 1..(n - 1) : m \in used
EmptyFn == [f \in {} |-> 0]

(* ------------------------------------------------------------ numbers *)
Z == <<0, 0, 0>>
Z3 == <<Z, Z, Z>>
Z4 == <<Z, Z, Z, Z>>
N(i) == IF i < 0 THEN <<1, 0 - i, 0>> ELSE <<0, i, 0>>      \* the integer i as a fixed number
One == N(1)
Quarter == <<0, 0, 250000000>>
White == <<One, One, One>>
White4 == <<White, White, White, White>>
C255 == <<N(255), N(255), N(255)>>

\* fixed: round to 6 decimal places (the text format_float writes); -0 reads as 0
RoundM(t) == LET f6 == (t[3] + 500) \div 1000
                 ip == IF f6 = 1000000 THEN t[2] + 1 ELSE t[2]
                 fp == IF f6 = 1000000 THEN 0 ELSE f6 * 1000
             IN  <<IF ip = 0 /\ fp = 0 THEN 0 ELSE t[1], ip, fp>>
\* sig: round to 6 significant digits (the text the "g" format writes)
RoundG(t) == IF t[2] = 0 THEN Z
             ELSE LET m6 == (t[2] + 500) \div 1000
                  IN  IF m6 = 1000000 THEN <<t[1], 100000000, t[3] + 1>> ELSE <<t[1], m6 * 1000, t[3]>>
RoundV(v) == MapSeq(RoundM, v)
RoundVV(vs) == MapSeq(RoundV, vs)
RoundGs(v) == MapSeq(RoundG, v)

MagLess(a, b) == a[2] < b[2] \/ (a[2] = b[2] /\ a[3] < b[3])
Less(a, b) == IF a[1] # b[1] THEN a[1] = 1 /\ (a[2] # 0 \/ a[3] # 0 \/ b[2] # 0 \/ b[3] # 0)
              ELSE IF a[1] = 0 THEN MagLess(a, b) ELSE MagLess(b, a)
MinN(a, b) == IF Less(b, a) THEN b ELSE a
MaxN(a, b) == IF Less(a, b) THEN b ELSE a

(* ------------------------------------------------------------ access *)
EntsOf(d) == <<d.world>> \o d.ents
EntAt(d, e) == IF e = 0 THEN d.world ELSE d.ents[e]
UpdEnt(d, e, F(_)) == IF e = 0 THEN [d EXCEPT !.world = F(@)] ELSE [d EXCEPT !.ents[e] = F(@)]
UpdSolid(d, e, s, F(_)) == UpdEnt(d, e, LAMBDA x : [x EXCEPT !.solids[s] = F(@)])
UpdSide(d, e, s, f, F(_)) == UpdSolid(d, e, s, LAMBDA x : [x EXCEPT !.sides[f] = F(@)])

\* (FoldLeft is evaluated iteratively: documents with thousands of brushes must not recurse per element)
RECURSIVE FlatVis(_)
FlatVis(seq) == FoldLeft(LAMBDA acc, x : acc \o <<[id |-> x.id, name |-> x.name, color |-> x.color, nk |-> Len(x.kids)]>>
                                              \o FlatVis(x.kids), <<>>, seq)
FlatSeq(ss) == FoldLeft(LAMBDA acc, x : acc \o x, <<>>, ss)
SolidsOf(d) == FlatSeq(MapSeq(LAMBDA e : e.solids, EntsOf(d)))
SidesOf(d) == FlatSeq(MapSeq(LAMBDA s : s.sides, SolidsOf(d)))
IdsOf(seq) == {seq[i].id : i \in 1..Len(seq)}
EntIds(d) == IdsOf(EntsOf(d))
SolidIds(d) == IdsOf(SolidsOf(d))
SideIds(d) == IdsOf(SidesOf(d))
VisIds(d) == IdsOf(FlatVis(d.vis))
GroupIds(d) == IdsOf(d.groups)

(* ------------------------------------------------------------ the empty document: VMF() *)
NewEnt(id, cls) ==
    [id |-> id, keys |-> [f \in {"classname"} |-> [k |-> "classname", v |-> cls, fx |-> EmptyFn]], fix |-> EmptyFn,
     outs |-> <<>>, solids |-> <<>>, hidden |-> FALSE, groups |-> <<>>, vis |-> <<>>, visShown |-> TRUE,
     visAuto |-> TRUE, color |-> C255, logical |-> "[0 " \o ToString(id) \o "]", comments |-> ""]
DefaultSet ==
    [prefab |-> FALSE, mapVer |-> 0, formatVer |-> 100, hammerVer |-> 400, hammerBuild |-> 5304, snap |-> TRUE,
     showGrid |-> TRUE, showLogic |-> FALSE, show3d |-> FALSE, grid |-> 64, activeCam |-> 0 - 1,
     cordonOn |-> FALSE, quickhide |-> 0, instVis |-> 0 - 1, views |-> <<>>]
EmptyDoc == [set |-> DefaultSet, vis |-> <<>>, groups |-> <<>>, cams |-> <<>>, cordons |-> <<>>,
             world |-> NewEnt(1, "worldspawn"), ents |-> <<>>]

(* ------------------------------------------------------------ builder operations (public API) *)
\* Entity.__setitem__: case-insensitive, the first spelling of a key is kept
\* fx: the fixup a keyvalue named replace + two or more digits denotes (empty for every other name), see MoveAmb
SetKeyE(x, k, f, v, fx) ==
    [x EXCEPT !.keys = IF f \in DOMAIN x.keys THEN [x.keys EXCEPT ![f].v = v, ![f].fx = fx]
                       ELSE [g \in DOMAIN x.keys \cup {f} |-> IF g = f THEN [k |-> k, v |-> v, fx |-> fx] ELSE x.keys[g]]]
DelKeyE(x, f) == [x EXCEPT !.keys = [g \in DOMAIN x.keys \ {f} |-> x.keys[g]]]
\* EntityFixup.__setitem__: folded variable, "$" optional, lowest unused replaceNN index
SetFixE(x, bare, f, v) ==
    [x EXCEPT !.fix = IF f \in DOMAIN x.fix THEN [x.fix EXCEPT ![f].val = v]
                      ELSE [g \in DOMAIN x.fix \cup {f} |->
                               IF g = f THEN [var |-> bare, val |-> v,
                                              idx |-> LowestFree({x.fix[h].idx : h \in DOMAIN x.fix})]
                               ELSE x.fix[g]]]
DelFixE(x, f) == [x EXCEPT !.fix = [g \in DOMAIN x.fix \ {f} |-> x.fix[g]]]

Axis(x, y, z) == <<N(x), N(y), N(z), Z, Quarter>>
NewSide(id, plane, mat, u, v) ==
    [id |-> id, plane |-> plane, mat |-> mat, u |-> u, v |-> v, rot |-> Z, lightmap |-> 16, smooth |-> 0,
     points |-> [has |-> FALSE, p |-> <<>>], disp |-> [power |-> 0]]
NewSolid(id, sides) ==
    [id |-> id, sides |-> sides, vis |-> <<>>, hidden |-> FALSE, group |-> 0 - 1, visShown |-> TRUE,
     visAuto |-> TRUE, cordon |-> FALSE, color |-> C255]
DefaultVert == [n |-> Z3, d |-> Z, o |-> Z3, on |-> Z3, a |-> Z, ta |-> 9, tb |-> 9, mb |-> Z4, ma |-> Z4,
                mc |-> <<>>]
Pow2(p) == CASE p = 0 -> 1 [] p = 1 -> 2 [] p = 2 -> 4 [] p = 3 -> 8 [] p = 4 -> 16
DispSize(p) == Pow2(p) + 1
NewDisp(p) == IF p = 0 THEN [power |-> 0]
              ELSE [power |-> p, pos |-> Z3, elev |-> Z, flags |-> 7, subdiv |-> FALSE,
                    allowed |-> [i \in 1..10 |-> 0 - 1],
                    verts |-> [i \in 1..(DispSize(p) * DispSize(p)) |-> DefaultVert]]

\* VMF.make_prism(p1, p2, mat, set_points): six axis-aligned faces; face IDs are taken in the
\* order bottom, top, west, east, south, north; the brush lists them bottom, top, north, south, east, west.
PrismSides(ids, p1, p2, mat, pts) ==
    LET lo == [c \in 1..3 |-> MinN(p1[c], p2[c])]
        hi == [c \in 1..3 |-> MaxN(p1[c], p2[c])]
        P(a, b, c) == <<IF a = 0 THEN lo[1] ELSE hi[1], IF b = 0 THEN lo[2] ELSE hi[2], IF c = 0 THEN lo[3] ELSE hi[3]>>
        F(id, a, b, c, d, u, v) ==
            [NewSide(id, <<a, b, c>>, mat, u, v) EXCEPT
                !.points = IF pts THEN [has |-> TRUE, p |-> <<a, b, c, d>>] ELSE [has |-> FALSE, p |-> <<>>]]
        bottom == F(ids[1], P(0,0,0), P(1,0,0), P(1,1,0), P(0,1,0), Axis(1,0,0), Axis(0,0-1,0))
        top    == F(ids[2], P(0,1,1), P(1,1,1), P(1,0,1), P(0,0,1), Axis(1,0,0), Axis(0,0-1,0))
        west   == F(ids[3], P(0,1,1), P(0,0,1), P(0,0,0), P(0,1,0), Axis(0,1,0), Axis(0,0,0-1))
        east   == F(ids[4], P(1,1,0), P(1,0,0), P(1,0,1), P(1,1,1), Axis(0,1,0), Axis(0,0,0-1))
        south  == F(ids[5], P(1,0,0), P(0,0,0), P(0,0,1), P(1,0,1), Axis(1,0,0), Axis(0,0,0-1))
        north  == F(ids[6], P(0,1,0), P(1,1,0), P(1,1,1), P(0,1,1), Axis(1,0,0), Axis(0,0,0-1))
    IN  <<bottom, top, north, south, east, west>>
RECURSIVE FreeIds(_, _)
FreeIds(used, n) == IF n = 0 THEN <<>> ELSE <<LowestFree(used)>> \o FreeIds(used \cup {LowestFree(used)}, n - 1)

RECURSIVE InsVis(_, _, _)
InsVis(seq, path, node) == IF path = <<>> THEN Append(seq, node)
                           ELSE [seq EXCEPT ![path[1]].kids = InsVis(@, Tail(path), node)]

Apply(d, a) ==
    CASE a.op = "SetSetting" -> [d EXCEPT !.set[a.name] = a.val]
      [] a.op = "SetViews" -> [d EXCEPT !.set.views = a.views]
      [] a.op = "AddCamera" -> [d EXCEPT !.cams = Append(@, [pos |-> a.pos, look |-> a.look])]
      [] a.op = "CamSetActive" -> [d EXCEPT !.set.activeCam = a.i]
      [] a.op = "AddCordon" -> [d EXCEPT !.cordons = Append(@, [name |-> a.name, active |-> a.active,
                                                                 mins |-> a.mins, maxs |-> a.maxs])]
      [] a.op = "AddVisgroup" -> [d EXCEPT !.vis = InsVis(@, a.path, [id |-> LowestFree(VisIds(d)), name |-> a.name,
                                                                         color |-> a.color, kids |-> <<>>])]
      [] a.op = "AddGroup" -> [d EXCEPT !.groups = Append(@, [id |-> LowestFree(GroupIds(d)), shown |-> a.shown,
                                                               auto |-> a.auto, color |-> a.color])]
      [] a.op = "AddEnt" -> [d EXCEPT !.ents = Append(@, NewEnt(LowestFree(EntIds(d)), a.cls))]
      [] a.op = "SetKey" -> UpdEnt(d, a.e, LAMBDA x : SetKeyE(x, a.k, a.f, a.v, a.fx))
      [] a.op = "DelKey" -> UpdEnt(d, a.e, LAMBDA x : DelKeyE(x, a.f))
      [] a.op = "SetFixup" -> UpdEnt(d, a.e, LAMBDA x : SetFixE(x, a.bare, a.f, a.val))
      [] a.op = "DelFixup" -> UpdEnt(d, a.e, LAMBDA x : DelFixE(x, a.f))
      [] a.op = "AddOut" -> UpdEnt(d, a.e, LAMBDA x : [x EXCEPT !.outs = Append(@, a.out)])
      [] a.op = "SetEntAttr" -> UpdEnt(d, a.e, LAMBDA x : [x EXCEPT ![a.name] = a.val])
      [] a.op = "EntJoin" -> UpdEnt(d, a.e, LAMBDA x :
                                IF a.what = "group" THEN [x EXCEPT !.groups = SortInts(SeqToSet(@) \cup {a.id})]
                                ELSE [x EXCEPT !.vis = SortInts(SeqToSet(@) \cup {a.id})])
      \* several memberships added one by one (a.ids in insertion order; the sets are unordered)
      [] a.op = "EntJoinSeq" -> UpdEnt(d, a.e, LAMBDA x :
                                IF a.what = "group" THEN [x EXCEPT !.groups = SortInts(SeqToSet(@) \cup SeqToSet(a.ids))]
                                ELSE [x EXCEPT !.vis = SortInts(SeqToSet(@) \cup SeqToSet(a.ids))])
      [] a.op = "SolidJoinSeq" -> UpdSolid(d, a.e, a.s, LAMBDA x : [x EXCEPT !.vis = SortInts(SeqToSet(@) \cup SeqToSet(a.ids))])
      [] a.op = "AddPrism" ->
            LET sid == FreeIds(SideIds(d), 6)
                sol == NewSolid(LowestFree(SolidIds(d)), PrismSides(sid, a.p1, a.p2, a.mat, a.points))
            IN  UpdEnt(d, a.e, LAMBDA x : [x EXCEPT !.solids = Append(@, sol)])
      [] a.op = "AddSolid" ->
            UpdEnt(d, a.e, LAMBDA x : [x EXCEPT !.solids = Append(@, NewSolid(LowestFree(SolidIds(d)), <<>>))])
      [] a.op = "AddSide" ->
            LET sd == [NewSide(LowestFree(SideIds(d)), a.plane, a.mat, a.u, a.v) EXCEPT
                          !.rot = a.rot, !.lightmap = a.lightmap, !.smooth = a.smooth, !.disp = NewDisp(a.power)]
            IN  UpdSolid(d, a.e, a.s, LAMBDA x : [x EXCEPT !.sides = Append(@, sd)])
      [] a.op = "SetSolidAttr" ->
            UpdSolid(d, a.e, a.s, LAMBDA x :
                IF a.name = "joinvis" THEN [x EXCEPT !.vis = SortInts(SeqToSet(@) \cup {a.val})]
                ELSE [x EXCEPT ![a.name] = a.val])
      [] a.op = "SetSideAttr" -> UpdSide(d, a.e, a.s, a.f, LAMBDA x : [x EXCEPT ![a.name] = a.val])
      [] a.op = "SetDispAttr" -> UpdSide(d, a.e, a.s, a.f, LAMBDA x : [x EXCEPT !.disp[a.name] = a.val])
      [] a.op = "SetVert" -> UpdSide(d, a.e, a.s, a.f, LAMBDA x : [x EXCEPT !.disp.verts[a.i] = a.vert])

(* ------------------------------------------------------------ Keep: what export -> parse returns *)
\* opts = [minimal, mb, preserve, inc]
NonZeroG(v) == \E i \in 1..Len(v) : v[i] # Z
HasMB(disp) == \E i \in 1..Len(disp.verts) : NonZeroG(disp.verts[i].mb)
KeepDisp(o, disp) ==
    IF disp.power = 0 THEN disp
    ELSE LET size == DispSize(disp.power)
             mbl == o.mb /\ HasMB(disp)
             KV(i) == LET v == disp.verts[i]
                          edge == ((i - 1) % size = size - 1) \/ ((i - 1) \div size = size - 1)
                      IN  [v EXCEPT \* triangle tags exist per quad: the last row and column have none
                                    !.ta = IF edge THEN 9 ELSE @, !.tb = IF edge THEN 9 ELSE @,
                                    \* multiblend: written only if asked for and some vertex blends
                                    !.mb = IF mbl THEN @ ELSE Z4, !.ma = IF mbl THEN @ ELSE Z4,
                                    !.mc = IF mbl THEN (IF @ = <<>> THEN White4 ELSE @) ELSE <<>>]
         IN  [disp EXCEPT !.verts = [i \in 1..Len(disp.verts) |-> KV(i)]]
KeepSide(o, f) == [f EXCEPT !.disp = KeepDisp(o, @)]
KeepSolid(o, s) == [s EXCEPT !.sides = MapSeq(LAMBDA f : KeepSide(o, f), @)]
\* What the format cannot express.  In the file an entity is a list of "key" "value" lines, and a line whose key is
\* replace + two or more decimal digits IS an instance fixup ("replaceNN" "$var value"; the writer names the 100th
\* replace100).  A keyvalue with such a name therefore comes back as the fixup it denotes (fx = [idx, var, val, f],
\* stated by the projection from name and value); nothing else about it may change.  Every other name - "replace",
\* replace + ONE digit, "replace0x", "replacement01", and the structural words "id" (non-numeric value), "solid",
\* "editor", "connections", "hidden", "group" used as plain keys - is an ordinary keyvalue and survives.
\* (Builders keep the denoted index and variable distinct from the entity's real fixups.)
Amb(e) == {f \in DOMAIN e.keys : DOMAIN e.keys[f].fx # {}}
MoveAmb(e) ==
    [e EXCEPT !.keys = [f \in DOMAIN e.keys \ Amb(e) |-> e.keys[f]],
              !.fix = [g \in DOMAIN e.fix \cup {e.keys[f].fx.f : f \in Amb(e)} |->
                          IF g \in DOMAIN e.fix THEN e.fix[g]
                          ELSE LET x == e.keys[CHOOSE f \in Amb(e) : e.keys[f].fx.f = g].fx
                               IN  [var |-> x.var, val |-> x.val, idx |-> x.idx]]]
HasAmb(d) == \E i \in 1..Len(EntsOf(d)) : Amb(EntsOf(d)[i]) # {}
KeepEnt(o, e) == [MoveAmb(e) EXCEPT !.solids = MapSeq(LAMBDA s : KeepSolid(o, s), @)]
NewMapVer(o, d) == IF o.inc THEN d.set.mapVer + 1 ELSE d.set.mapVer
KeepSet(o, d) ==
    LET s == d.set
        base == [s EXCEPT !.mapVer = NewMapVer(o, d),
                          !.activeCam = IF o.minimal \/ d.cams = <<>> THEN 0 - 1 ELSE @,
                          !.cordonOn = IF o.minimal \/ d.cordons = <<>> THEN FALSE ELSE @,
                          !.quickhide = IF @ > 0 THEN @ ELSE 0]
    IN  IF o.minimal
        THEN [base EXCEPT !.snap = TRUE, !.showGrid = TRUE, !.showLogic = FALSE, !.show3d = FALSE, !.grid = 64,
                          !.instVis = 0 - 1, !.views = <<>>]
        ELSE base
\* the worldspawn entity is written with the map version as a keyvalue
KeepWorld(o, d) ==
    LET w == KeepEnt(o, d.world)
        mk == IF "mapversion" \in DOMAIN w.keys THEN w.keys["mapversion"].k ELSE "mapversion"
    IN  [w EXCEPT !.keys = [f \in DOMAIN w.keys \cup {"mapversion"} |->
                               IF f = "mapversion" THEN [k |-> mk, v |-> ToString(NewMapVer(o, d)), fx |-> EmptyFn]
                               ELSE w.keys[f]]]
Keep(o, d) ==
    [set |-> KeepSet(o, d), vis |-> d.vis, groups |-> d.groups,
     cams |-> IF o.minimal THEN <<>> ELSE d.cams,
     cordons |-> IF o.minimal THEN <<>> ELSE d.cordons,
     world |-> KeepWorld(o, d),
     ents |-> MapSeq(LAMBDA e : KeepEnt(o, e), d.ents)]

(* ------------------------------------------------------------ Quant: numbers as their text denotes them *)
QVert(v) == [v EXCEPT !.n = RoundV(@), !.o = RoundV(@), !.on = RoundV(@), !.mb = RoundGs(@), !.ma = RoundGs(@),
                      !.mc = RoundVV(@)]
QDisp(p) == IF p.power = 0 THEN p ELSE [p EXCEPT !.pos = RoundV(@), !.verts = MapSeq(QVert, @)]
QSide(f) == [f EXCEPT !.plane = RoundVV(@), !.u = RoundV(@), !.v = RoundV(@), !.rot = RoundG(@),
                      !.points.p = RoundVV(@), !.disp = QDisp(@)]
QSolid(s) == [s EXCEPT !.color = RoundV(@), !.sides = MapSeq(QSide, @)]
QOut(x) == [x EXCEPT !.delay = RoundG(@)]
QEnt(e) == [e EXCEPT !.color = RoundV(@), !.outs = MapSeq(QOut, @), !.solids = MapSeq(QSolid, @)]
RECURSIVE QVis(_)
QVis(seq) == [i \in 1..Len(seq) |-> [seq[i] EXCEPT !.color = RoundV(@), !.kids = QVis(@)]]
Quant(d) ==
    [set |-> [d.set EXCEPT !.views = MapSeq(LAMBDA w : [w EXCEPT !.n = RoundV(@)], @)],
     vis |-> QVis(d.vis),
     groups |-> MapSeq(LAMBDA g : [g EXCEPT !.color = RoundV(@)], d.groups),
     cams |-> MapSeq(LAMBDA c : [c EXCEPT !.pos = RoundV(@), !.look = RoundV(@)], d.cams),
     cordons |-> MapSeq(LAMBDA c : [c EXCEPT !.mins = RoundV(@), !.maxs = RoundV(@)], d.cordons),
     world |-> QEnt(d.world),
     ents |-> MapSeq(QEnt, d.ents)]

\* what the second document must be
Expected(o, d) == Quant(Keep(o, d))

(* ------------------------------------------------------------ ID renumbering *)
\* Objects correspond by position; pairs[kind] relates the ID before to the ID after.
Pairs(s1, s2) == {<<s1[i].id, s2[i].id>> : i \in 1..Min2(Len(s1), Len(s2))}
IdPairs(d1, d2) ==
    [ent |-> Pairs(EntsOf(d1), EntsOf(d2)), solid |-> Pairs(SolidsOf(d1), SolidsOf(d2)),
     side |-> Pairs(SidesOf(d1), SidesOf(d2)), vis |-> Pairs(FlatVis(d1.vis), FlatVis(d2.vis)),
     group |-> Pairs(d1.groups, d2.groups)]
IdentityPairs(d) == IdPairs(d, d)
Bijective(ps) == \A p, q \in ps : (p[1] = q[1]) <=> (p[2] = q[2])
MapId(ps, x) == IF \E p \in ps : p[1] = x THEN (CHOOSE p \in ps : p[1] = x)[2] ELSE x
MapIds(ps, seq) == SortInts({MapId(ps, seq[i]) : i \in 1..Len(seq)})
IdClauses(o, ps) ==
    UNION {C(Bijective(ps[k]), "ids." \o k \o ".bijection") \cup
           C(~o.preserve \/ \A p \in ps[k] : p[1] = p[2], "ids." \o k \o ".preserved")
           : k \in {"ent", "solid", "side", "vis", "group"}}

(* ------------------------------------------------------------ Diff: clauses in which two documents differ *)
\* e = expected, g = observed; object IDs are related by ps and compared by IdClauses, not here.
DiffSeq(es, gs, D(_, _), cnt) ==
    C(Len(es) = Len(gs), cnt) \cup UNION {D(es[i], gs[i]) : i \in 1..Min2(Len(es), Len(gs))}

DiffVertSeq(ev, gv) ==
    LET n == Min2(Len(ev), Len(gv))
        F(name, cl) == C(\A i \in 1..n : ev[i][name] = gv[i][name], cl)
    IN  C(Len(ev) = Len(gv), "disp.verts.count") \cup F("n", "disp.normal") \cup F("d", "disp.dist")
        \cup F("o", "disp.offset") \cup F("on", "disp.offnorm") \cup F("a", "disp.alpha")
        \cup C(\A i \in 1..n : ev[i].ta = gv[i].ta /\ ev[i].tb = gv[i].tb, "disp.tri")
        \cup F("mb", "disp.mb") \cup F("ma", "disp.ma") \cup F("mc", "disp.mc")
DiffDisp(e, g) ==
    IF e.power # g.power THEN {"disp.power"}
    ELSE IF e.power = 0 THEN {}
    ELSE C(e.pos = g.pos, "disp.pos") \cup C(e.elev = g.elev, "disp.elev") \cup C(e.flags = g.flags, "disp.flags")
         \cup C(e.subdiv = g.subdiv, "disp.subdiv") \cup C(e.allowed = g.allowed, "disp.allowed")
         \cup DiffVertSeq(e.verts, g.verts)
DiffSide(e, g) ==
    C(e.plane = g.plane, "side.plane") \cup C(e.mat = g.mat, "side.mat") \cup C(e.u = g.u, "side.u")
    \cup C(e.v = g.v, "side.v") \cup C(e.rot = g.rot, "side.rot") \cup C(e.lightmap = g.lightmap, "side.lightmap")
    \cup C(e.smooth = g.smooth, "side.smooth") \cup C(e.points = g.points, "side.points") \cup DiffDisp(e.disp, g.disp)
DiffSolid(p, ps, e, g) ==
    C(MapIds(ps.vis, e.vis) = g.vis, p \o ".vis") \cup C(e.hidden = g.hidden, p \o ".hidden")
    \cup C(MapId(ps.group, e.group) = g.group, p \o ".group") \cup C(e.visShown = g.visShown, p \o ".visShown")
    \cup C(e.visAuto = g.visAuto, p \o ".visAuto") \cup C(e.cordon = g.cordon, p \o ".cordon")
    \cup C(e.color = g.color, p \o ".color") \cup DiffSeq(e.sides, g.sides, DiffSide, p \o ".sides.count")
DiffOut(e, g) ==
    UNION {C(e[f] = g[f], "out." \o f) : f \in {"name", "io", "target", "inp", "ii", "params", "delay", "times", "comma"}}
DiffEnt(p, sp, ps, e, g) ==
    C(e.keys = g.keys, p \o ".keys") \cup C(e.fix = g.fix, p \o ".fix")
    \cup DiffSeq(e.outs, g.outs, DiffOut, p \o ".outs.count")
    \cup C(e.hidden = g.hidden, p \o ".hidden") \cup C(MapIds(ps.group, e.groups) = g.groups, p \o ".groups")
    \cup C(MapIds(ps.vis, e.vis) = g.vis, p \o ".vis") \cup C(e.visShown = g.visShown, p \o ".visShown")
    \cup C(e.visAuto = g.visAuto, p \o ".visAuto") \cup C(e.color = g.color, p \o ".color")
    \cup C(p = "world" \/ e.logical = g.logical, p \o ".logical")   \* worldspawn has no logicalpos in the file
    \cup C(e.comments = g.comments, p \o ".comments")
    \cup DiffSeq(e.solids, g.solids, LAMBDA x, y : DiffSolid(sp, ps, x, y), p \o ".solids.count")
DiffSet(e, g) == UNION {C(e[f] = g[f], "set." \o f) : f \in DOMAIN e}
DiffVisFlat(e, g) == C(e.name = g.name, "vis.name") \cup C(e.color = g.color, "vis.color") \cup C(e.nk = g.nk, "vis.tree")
DiffGroup(e, g) == C(e.shown = g.shown, "group.shown") \cup C(e.auto = g.auto, "group.auto") \cup C(e.color = g.color, "group.color")
DiffCam(e, g) == C(e.pos = g.pos, "cam.pos") \cup C(e.look = g.look, "cam.look")
DiffCordon(e, g) == C(e.name = g.name, "cordon.name") \cup C(e.active = g.active, "cordon.active")
                    \cup C(e.mins = g.mins /\ e.maxs = g.maxs, "cordon.box")
Diff(ps, e, g) ==
    DiffSet(e.set, g.set)
    \cup DiffSeq(FlatVis(e.vis), FlatVis(g.vis), DiffVisFlat, "vis.count")
    \cup DiffSeq(e.groups, g.groups, DiffGroup, "group.count")
    \cup DiffSeq(e.cams, g.cams, DiffCam, "cam.count")
    \cup DiffSeq(e.cordons, g.cordons, DiffCordon, "cordon.count")
    \cup DiffEnt("world", "wsolid", ps, e.world, g.world)
    \cup DiffSeq(e.ents, g.ents, LAMBDA x, y : DiffEnt("ent", "esolid", ps, x, y), "ents.count")

\* Entities must come back in their order.  If the observed hidden/visible pattern is not the
\* expected one but is the "visible first, hidden last" pattern, the documents are compared in
\* that arrangement and the reordering itself is the clause "ents.order".
HiddenLast(es) == SelectSeq(es, LAMBDA x : ~x.hidden) \o SelectSeq(es, LAMBDA x : x.hidden)
Pattern(es) == MapSeq(LAMBDA x : x.hidden, es)
Aligned(e, g) ==
    IF Pattern(e.ents) # Pattern(g.ents) /\ Pattern(HiddenLast(e.ents)) = Pattern(g.ents)
    THEN [e EXCEPT !.ents = HiddenLast(@)] ELSE e
OrderClauses(e, g) == C(Len(e.ents) # Len(g.ents) \/ Pattern(e.ents) = Pattern(g.ents), "ents.order")

(* ------------------------------------------------------------ exported text as a token stream *)
\* token = [d, t, k, v, ik, n, p, c]: depth, "open"|"close"|"kv", key, value, ID kind (or ""), ID, block path,
\* clause label (path/key with row numbers and user key names abstracted)
MapTok(ps, t) == IF t.ik = "" THEN t ELSE [t EXCEPT !.n = MapId(ps[t.ik], @)]
FirstDiff(a, b) == CHOOSE i \in 1..(Min2(Len(a), Len(b)) + 1) :
                      /\ (i <= Min2(Len(a), Len(b)) => a[i] # b[i])
                      /\ \A j \in 1..(i - 1) : a[j] = b[j]
\* amb: when the document holds a keyvalue that the format reads as a fixup, that line moves from the (sorted)
\* keyvalues to the fixup lines in the second text; then the replaceNN-named lines are compared as a set and the
\* rest of the text in order.
TextClauses(ps, t1, t2, amb) ==
    LET m0 == MapSeq(LAMBDA t : MapTok(ps, t), t1)
        m == IF amb THEN SelectSeq(m0, LAMBDA t : ~t.amb) ELSE m0
        u == IF amb THEN SelectSeq(t2, LAMBDA t : ~t.amb) ELSE t2
        i == FirstDiff(m, u)
        AmbSet(q) == {[kf |-> q[j].kf, v |-> q[j].v, d |-> q[j].d, c |-> q[j].c] : j \in {j \in 1..Len(q) : q[j].amb}}
    IN  (IF amb THEN C(AmbSet(m0) = AmbSet(t2), "text:fixup-lines")
         ELSE {})
        \cup (IF m = u THEN {}
              ELSE IF Len(m) = Len(u) THEN {"text:" \o m[j].c : j \in {j \in 1..Len(m) : m[j] # u[j]}}
              ELSE IF i > Len(m) THEN {"text:longer"}
              ELSE {"text:" \o m[i].c})

(* ------------------------------------------------------------ Skeleton: the structure the exported text must have *)
\* Independent of the reader: the block/key structure of the VMF format for document d under options o, as a
\* sequence of [t, c, d] (token type, clause label = block path "/" key, depth).  User-chosen names are
\* abstracted by the tokeniser the same way ("<key>", "replaceNN", "<output>", "row").
Tk(t, c, dp) == <<[t |-> t, c |-> c, d |-> dp]>>
KVs(p, dp, ks) == FoldLeft(LAMBDA acc, k : acc \o Tk("kv", p \o "/" \o k, dp), <<>>, ks)
Rep(n, x) == FoldLeft(LAMBDA acc, k : acc \o x, <<>>, [j \in 1..n |-> j])
Concat(F(_), seq) == FoldLeft(LAMBDA acc, x : acc \o F(x), <<>>, seq)
\* block `name` inside path p at depth dp
Blk(p, dp, name, body) == Tk("open", p \o "/" \o name, dp) \o body \o Tk("close", p \o "/}", dp)
\* "hidden" wrapper: one level deeper, but not part of the path
Hid(p, dp, body) == Tk("open", p \o "/hidden", dp) \o body \o Tk("close", p \o "/}", dp)
Rows(p, dp, name, n) == Blk(p, dp, name, Rep(n, Tk("kv", p \o "/" \o name \o "/row", dp + 1)))

DispSk(o, p, dp, disp) ==
    LET q == p \o "/dispinfo"
        size == DispSize(disp.power)
    IN  Blk(p, dp, "dispinfo",
            KVs(q, dp + 1, <<"power", "startposition", "flags", "elevation", "subdiv">>)
            \o Rows(q, dp + 1, "normals", size) \o Rows(q, dp + 1, "distances", size) \o Rows(q, dp + 1, "offsets", size)
            \o Rows(q, dp + 1, "offset_normals", size) \o Rows(q, dp + 1, "alphas", size)
            \o Rows(q, dp + 1, "triangle_tags", size - 1)       \* one row per row of quads
            \o Blk(q, dp + 1, "allowed_verts", Tk("kv", q \o "/allowed_verts/10", dp + 2))
            \o (IF o.mb /\ HasMB(disp)
                THEN Rows(q, dp + 1, "multiblend", size) \o Rows(q, dp + 1, "alphablend", size)
                     \o Rows(q, dp + 1, "multiblend_color_0", size) \o Rows(q, dp + 1, "multiblend_color_1", size)
                     \o Rows(q, dp + 1, "multiblend_color_2", size) \o Rows(q, dp + 1, "multiblend_color_3", size)
                ELSE <<>>))
SideSk(o, p, dp, f) ==
    LET q == p \o "/side"
    IN  Blk(p, dp, "side",
            KVs(q, dp + 1, <<"id", "plane", "material", "uaxis", "vaxis", "rotation", "lightmapscale", "smoothing_groups">>)
            \o (IF f.points.has
                THEN Blk(q, dp + 1, "point_data", Tk("kv", q \o "/point_data/numpts", dp + 2)
                                                  \o Rep(Len(f.points.p), Tk("kv", q \o "/point_data/point", dp + 2)))
                ELSE <<>>)
            \o (IF f.disp.power > 0 THEN DispSk(o, q, dp + 1, f.disp) ELSE <<>>))
\* brushes of the world carry their group / visgroup membership; brushes inside entities do not
SolidSk(o, p, dp0, s, isWorld) ==
    LET dp == IF s.hidden THEN dp0 + 1 ELSE dp0
        q == p \o "/solid"
        body == Blk(p, dp, "solid",
                    Tk("kv", q \o "/id", dp + 1)
                    \o Concat(LAMBDA f : SideSk(o, q, dp + 1, f), s.sides)
                    \o Blk(q, dp + 1, "editor",
                           Tk("kv", q \o "/editor/color", dp + 2)
                           \o (IF isWorld /\ s.group >= 0 THEN Tk("kv", q \o "/editor/groupid", dp + 2) ELSE <<>>)
                           \o (IF isWorld THEN Rep(Len(s.vis), Tk("kv", q \o "/editor/visgroupid", dp + 2)) ELSE <<>>)
                           \o KVs(q \o "/editor", dp + 2, <<"visgroupshown", "visgroupautoshown">>)
                           \o (IF s.cordon THEN Tk("kv", q \o "/editor/cordonsolid", dp + 2) ELSE <<>>)))
    IN  IF s.hidden THEN Hid(p, dp0, body) ELSE body
GroupSk(p, dp, g) ==
    Blk(p, dp, "group", Tk("kv", p \o "/group/id", dp + 1)
                        \o Blk(p \o "/group", dp + 1, "editor",
                               KVs(p \o "/group/editor", dp + 2, <<"visgroupshown", "visgroupautoshown", "color">>)))
EntSk(o, d, e, isWorld) ==
    LET name == IF isWorld THEN "world" ELSE "entity"
        dp == IF e.hidden /\ ~isWorld THEN 1 ELSE 0
        q == "/" \o name
        nkeys == IF isWorld THEN Cardinality(DOMAIN e.keys \cup {"mapversion"}) ELSE Cardinality(DOMAIN e.keys)
        body == Blk("", dp, name,
                    Tk("kv", q \o "/id", dp + 1)
                    \* keyvalue lines, then replaceNN fixup lines (one label: a keyvalue may be named like either)
                    \o Rep(nkeys + Cardinality(DOMAIN e.fix), Tk("kv", q \o "/<key>", dp + 1))
                    \o Concat(LAMBDA s : SolidSk(o, q, dp + 1, s, isWorld), e.solids)
                    \o (IF e.outs # <<>>
                        THEN Blk(q, dp + 1, "connections", Rep(Len(e.outs), Tk("kv", q \o "/connections/<output>", dp + 2)))
                        ELSE <<>>)
                    \o (IF isWorld THEN Concat(LAMBDA g : GroupSk(q, dp + 1, g), d.groups) ELSE <<>>)
                    \o Blk(q, dp + 1, "editor",
                           Tk("kv", q \o "/editor/color", dp + 2)
                           \o (IF isWorld THEN <<>>
                               ELSE Rep(Len(e.groups), Tk("kv", q \o "/editor/groupid", dp + 2))
                                    \o Rep(Len(e.vis), Tk("kv", q \o "/editor/visgroupid", dp + 2))
                                    \o KVs(q \o "/editor", dp + 2, <<"visgroupshown", "visgroupautoshown", "logicalpos">>))
                           \o (IF e.comments # "" THEN Tk("kv", q \o "/editor/comments", dp + 2) ELSE <<>>)))
    IN  IF e.hidden /\ ~isWorld THEN Hid("", 0, body) ELSE body
RECURSIVE VisSk(_, _, _)
VisSk(p, dp, seq) ==
    Concat(LAMBDA x : Blk(p, dp, "visgroup", KVs(p \o "/visgroup", dp + 1, <<"name", "visgroupid", "color">>)
                                            \o VisSk(p \o "/visgroup", dp + 1, x.kids)), seq)
ViewSk(i, w) ==
    Blk("/viewsettings/views", 2, CASE i = 1 -> "v0" [] i = 2 -> "v1" [] i = 3 -> "v2" [] i = 4 -> "v3",
        KVs("/viewsettings/views/v" \o ToString(i - 1), 3,
            IF w.k = "3d" THEN <<"3d", "position", "angle">> ELSE <<"3d", "position", "zoom">>))
Skeleton(o, d) ==
    Blk("", 0, "versioninfo", KVs("/versioninfo", 1, <<"editorversion", "editorbuild", "mapversion", "formatversion", "prefab">>))
    \o Blk("", 0, "visgroups", VisSk("/visgroups", 1, d.vis))
    \o (IF o.minimal THEN <<>>
        ELSE Blk("", 0, "viewsettings",
                 KVs("/viewsettings", 1, <<"bSnapToGrid", "bShowGrid", "bShowLogicalGrid", "nGridSpacing", "bShow3DGrid">>)
                 \o (IF d.set.instVis >= 0 THEN Tk("kv", "/viewsettings/nInstanceVisibility", 1) ELSE <<>>)
                 \o (IF d.set.views # <<>>
                     THEN Blk("/viewsettings", 1, "views",
                              FoldLeft(LAMBDA acc, i : acc \o ViewSk(i, d.set.views[i]), <<>>, [j \in 1..Min2(4, Len(d.set.views)) |-> j]))
                     ELSE <<>>)))
    \o EntSk(o, d, d.world, TRUE)
    \o Concat(LAMBDA e : EntSk(o, d, e, FALSE), d.ents)
    \o (IF o.minimal THEN <<>>
        ELSE Blk("", 0, "cameras", Tk("kv", "/cameras/activecamera", 1)
                                   \o Rep(Len(d.cams), Blk("/cameras", 1, "camera", KVs("/cameras/camera", 2, <<"position", "look">>))))
             \o Blk("", 0, "cordons", Tk("kv", "/cordons/active", 1)
                                      \o Rep(Len(d.cordons),
                                             Blk("/cordons", 1, "cordon",
                                                 KVs("/cordons/cordon", 2, <<"name", "active">>)
                                                 \o Blk("/cordons/cordon", 2, "box", KVs("/cordons/cordon/box", 3, <<"mins", "maxs">>))))))
    \o (IF d.set.quickhide > 0 THEN Blk("", 0, "quickhide", Tk("kv", "/quickhide/count", 1)) ELSE <<>>)

\* Object census: of both streams only the tokens that stand for objects of the map are kept - the opening of
\* world / entity / solid / side / dispinfo / group / visgroup / camera / cordon blocks and the output lines - and
\* the two sequences of labels must agree.
RECURSIVE VisLabels(_, _)
VisLabels(p, n) == IF n = 0 THEN {} ELSE {p \o "/visgroup"} \cup VisLabels(p \o "/visgroup", n - 1)
ObjLabels == {"/world", "/entity", "/world/solid", "/entity/solid", "/world/solid/side", "/entity/solid/side",
              "/world/solid/side/dispinfo", "/entity/solid/side/dispinfo", "/world/group", "/cameras/camera",
              "/cordons/cordon", "/world/connections/<output>", "/entity/connections/<output>"}
             \cup VisLabels("/visgroups", 8)
Census(s) == MapSeq(LAMBDA t : t.c, SelectSeq(s, LAMBDA t : t.t # "close" /\ t.c \in ObjLabels))
CensusClauses(exp, got) ==
    LET x == Census(exp)
        y == Census(got)
        i == FirstDiff(x, y)
    IN  IF x = y THEN {}
        ELSE {"census:" \o (IF i <= Len(x) THEN x[i] ELSE "<end>") \o "|" \o (IF i <= Len(y) THEN y[i] ELSE "<end>")}

\* (SkelClauses - the full token-by-token comparison - is kept for reference only: it prescribes key names, key
\* order and which defaults are written, which the property does not, and is not used as a clause.)
\* The two streams are compared top-level block by top-level block (so that one defective block does not hide
\* the others); per block the clause names the first expected/observed pair of labels that differ.
TopStarts(s) == SelectSeq([j \in 1..Len(s) |-> j], LAMBDA j : s[j].d = 0 /\ s[j].t = "open")
SkelClauses(exp, got) ==
    LET se == TopStarts(exp)
        sg == TopStarts(got)
        EndOf(s, starts, b) == IF b < Len(starts) THEN starts[b + 1] - 1 ELSE Len(s)
        BlockDiff(b) ==
            LET x == SubSeq(exp, se[b], EndOf(exp, se, b))
                y == SubSeq(got, sg[b], EndOf(got, sg, b))
                i == FirstDiff(x, y)
            IN  IF x = y THEN {}
                ELSE {"skel:" \o (IF i <= Len(x) THEN x[i].c ELSE "<end>") \o "|" \o (IF i <= Len(y) THEN y[i].c ELSE "<end>")}
    IN  IF exp = got THEN {}
        ELSE IF Len(se) # Len(sg) THEN {"skel:blocks"}
        ELSE UNION {BlockDiff(b) : b \in 1..Len(se)}
=============================================================================
