-------------------------------- MODULE FgdDoc --------------------------------
(* C16, the codec part as a state machine: a definition is built, exported to  *)
(* text (custom_syntax cs, label_spawnflags ls), parsed, and exported again.   *)
(* The definitions range over feature combinations (Docs); the text of long    *)
(* strings over all short strings of an alphabet with the escape-relevant      *)
(* characters (Text machine, small LIMIT).                                     *)
EXTENDS FgdDocOps, Json

CONSTANTS WithDoc, WithText,
          Slice,          \* which family of definitions: "header", "kv", "io", "res", "num", "bin", "lists"
          TextLen, TextLimit, TextMinNl

VARIABLES orig, opts, stage, cur, lines, first,      \* document machine
          txt                                         \* text machine
vars == <<orig, opts, stage, cur, lines, first, txt>>

(* ---- feature combinations ------------------------------------------------ *)
Texts == {"", "Nm", "a\"b'c", "l1\nl2\\n"}
Tags == {<<>>, <<"A">>, <<"!B", "+A">>}
KvTypes == {"string", "integer", "boolean", "flags", "choices", "origin", "texture"}
FlagLists == {<<>>, <<[b |-> "1", n |-> "One", d |-> TRUE, tags |-> <<>>]>>,
              <<[b |-> "2", n |-> "a\"b", d |-> FALSE, tags |-> <<"A">>], [b |-> "4", n |-> "", d |-> TRUE, tags |-> <<>>]>>}
ChoiceLists == {<<>>, <<[v |-> "0", n |-> "No", tags |-> <<>>]>>,
                <<[v |-> "-1.5", n |-> "l1\nl2", tags |-> <<"A">>], [v |-> "a b", n |-> "say \"x\"", tags |-> <<>>]>>}
KV(name, tags, type, disp, def, desc, ro, rep, list) ==
    [key |-> name, name |-> name, tags |-> tags, type |-> type, custom |-> FALSE, disp |-> disp,
     def |-> def, desc |-> desc, ro |-> ro, rep |-> rep, list |-> list]
\* spawnflags have no caption, default or description in the format (Representable)
KvDomain ==
    {KV("k1", tg, ty, di, de, ds, ro, rp, <<>>) :
        tg \in Tags, ty \in KvTypes \ {"flags", "choices"}, di \in Texts, de \in {"", "5", "v v", "yes", "a\"b"}, ds \in Texts,
        ro \in BOOLEAN, rp \in BOOLEAN}
    \cup {KV("spawnflags", tg, "flags", "spawnflags", "", "", ro, FALSE, l) : tg \in Tags, ro \in BOOLEAN, l \in FlagLists}
    \cup {KV("k1", tg, "choices", di, de, ds, FALSE, rp, l) :
            tg \in Tags, di \in Texts, de \in {"", "0"}, ds \in {"", "l1\nl2\\n"}, rp \in BOOLEAN, l \in ChoiceLists}
Custom == [KV("k1", <<>>, "my_type", "Nm", "", "", FALSE, FALSE, <<>>) EXCEPT !.custom = TRUE]
K2 == KV("k2", <<>>, "integer", "Two", "2", "", FALSE, FALSE, <<>>)
K1 == KV("k1", <<>>, "string", "One", "", "", FALSE, FALSE, <<>>)
K1A == KV("k1", <<"A">>, "boolean", "One A", "", "tagged", FALSE, FALSE, <<>>)

\* argument lists over an empty, a plain and a padded member, up to three long
ArgMembers == {"", "first", " pad "}
ArgLists == {<<>>} \cup {<<a>> : a \in ArgMembers} \cup {<<a, b>> : a, b \in ArgMembers} \cup {<<a, b, c>> : a, b, c \in ArgMembers}
\* a typed helper's usual arguments: as they are, each one emptied, each one padded, all emptied
Blanked(a) == {a} \cup {[a EXCEPT ![k] = ""] : k \in 1..Len(a)} \cup {[a EXCEPT ![k] = " " \o @ \o " "] : k \in 1..Len(a)}
              \cup (IF Len(a) >= 2 THEN {[k \in 1..Len(a) |-> ""]} ELSE {})
TypedHelpers ==
    {<<"halfgridsnap", <<>>>>, <<"size", <<"-8 -8 -8", "8 8 8">>>>, <<"bbox", <<"-4 -4 -4", "4 4 12">>>>, <<"color", <<"255 128 0">>>>,
     <<"sphere", <<"inner", "255 0 0">>>>, <<"line", <<"255 255 255", "targetname", "target">>>>,
     <<"line", <<"0 255 0", "targetname", "a", "targetname", "b">>>>, <<"frustum", <<"fov", "near", "far", "col", "-1">>>>,
     <<"cylinder", <<"255 0 0", "targetname", "a", "rad", "targetname", "b", "rad2">>>>, <<"origin", <<"pos">>>>, <<"vecline", <<"end">>>>,
     <<"sidelist", <<"faces">>>>, <<"wirebox", <<"mins", "maxs">>>>, <<"sweptplayerhull", <<>>>>, <<"obb", <<"mins", "maxs">>>>,
     <<"iconsprite", <<"editor/obsolete.vmt">>>>, <<"studio", <<"models/editor/axis_helper.mdl">>>>, <<"studioprop", <<"models/x.mdl">>>>,
     <<"lightprop", <<"models/editor/spot.mdl">>>>, <<"sprite", <<"sprites/glow">>>>, <<"instance", <<>>>>, <<"decal", <<>>>>,
     <<"overlay", <<>>>>, <<"overlay_transition", <<>>>>, <<"light", <<>>>>, <<"lightcone", <<"_in", "_out", "_col", "2">>>>,
     <<"keyframe", <<"name">>>>, <<"animator", <<>>>>, <<"quadbounds", <<>>>>, <<"worldtext", <<>>>>, <<"catapult", <<>>>>,
     <<"lightconenew", <<"theta", "phi", "col">>>>, <<"appliesto", <<"P2", "TF2">>>>, <<"orderby", <<"k2", "k1">>>>}
KVk(key, name, tags, type, disp, def, desc, ro, rep, list) == [KV(name, tags, type, disp, def, desc, ro, rep, list) EXCEPT !.key = key]
AllPlainTypes == {"void", "string", "boolean", "integer", "float", "vector", "angle", "target_destination", "target_name_or_class",
                  "target_source", "npcclass", "pointentityclass", "filterclass", "node_dest", "node_id", "scene", "sound",
                  "particlesystem", "sprite", "decal", "material", "studio", "scriptlist", "script", "angle_negative_pitch",
                  "vecline", "origin", "axis", "color1", "color255", "sidelist", "instance_file", "instance_parm",
                  "instance_variable", "texture", "vec_dir", "vec_local", "angle_pitch", "angle_local", "soundscape"}
IO(name, tags, type, desc) == [key |-> IF name = "Fire" THEN "fire" ELSE "onfire", name |-> name, tags |-> tags, type |-> type, custom |-> FALSE, desc |-> desc]
IoTypes == IoValid \cup {"flags", "node_id", "angle_negative_pitch", "angle_pitch", "vecline", "origin", "axis",
                         "vec_dir", "vec_local", "angle", "angle_local", "color1", "choices", "target_source", "sound",
                         "studio", "instance_file", "soundscape", "sidelist"}
IoDomain == {IO("Fire", tg, ty, ds) : tg \in Tags, ty \in IoTypes, ds \in Texts}
               \cup {[IO("Fire", <<>>, "my_type", "d") EXCEPT !.custom = TRUE]}

ResTypes == {"GENERIC", "ENTITY", "ENTCLASS_FUNC", "GAME_SOUND", "PARTICLE", "VSCRIPT_SQUIRREL", "MATERIAL",
             "TEXTURE", "CHOREO", "MODEL", "BREAKABLE_CHUNK", "WEAPON_SCRIPT", "SOUNDSCRIPT", "PARTICLE_FILE"}
Res(t, f, tg) == [type |-> t, file |-> f, tags |-> tg]

Helper(n, a, ext) == [n |-> n, known |-> TRUE, a |-> a, fold |-> a, ext |-> ext, v |-> n]
HelperSets == {<<>>, <<Helper("size", <<"-8 -8 -8", "8 8 8">>, FALSE)>>,
               <<Helper("appliesto", <<"A", "B">>, TRUE), Helper("halfgridsnap", <<>>, FALSE)>>,
               <<Helper("orderby", <<"k2", "k1">>, TRUE)>>,
               <<[Helper("myhelper", <<"x">>, FALSE) EXCEPT !.known = FALSE]>>}
Kinds == {"baseclass", "pointclass", "solidclass", "keyframeclass", "moveclass", "filterclass", "npcclass", "extendclass"}
Ent(kind, alias, bases, helpers, desc, order, kvs, ins, outs, resset, res) ==
    [cls |-> "ent_a", kind |-> kind, alias |-> alias, bases |-> bases, helpers |-> helpers, desc |-> desc,
     order |-> order, kvs |-> kvs, ins |-> ins, outs |-> outs, res_set |-> resset, res |-> res]
Plain(kvs, ins, outs) == Ent("pointclass", FALSE, <<>>, <<>>, "", KeysOf(kvs, 1), kvs, ins, outs, FALSE, <<>>)

NumLike == {"5", "-5", "-", "--5", "5-3", " 5", "12 ", "\t7", "+3", "1_0", "1e5", "1e+5", "1E-2", "inf", "-inf", "+inf", "nan", "NaN",
            "Infinity", ".5", "5.", "-.5", "1.5", "1.5e3", "0x10", "1_", "_1", "1__0", "1_0.0_1", "e5", "1e", ".", "1 2", "1.2.3", "1e2e3"}

Docs ==
    CASE Slice = "header" ->
            {Ent(k, al, b, h, d, <<"k1", "k2">>, <<K1, K2>>, <<>>, <<>>, FALSE, <<>>) :
                k \in Kinds, al \in BOOLEAN, b \in {<<>>, <<"B1">>, <<"B1", "b2">>}, h \in HelperSets, d \in Texts}
      [] Slice = "kv" ->
            {Plain(<<kv>>, <<>>, <<>>) : kv \in KvDomain \cup {Custom}}
            \* tagged duplicates of one key, another key between and after, explicit orders
            \cup {Ent("pointclass", FALSE, <<>>, h, "", ord, kvs, <<>>, <<>>, FALSE, <<>>) :
                    h \in {<<>>, <<Helper("orderby", <<"k2", "k1">>, TRUE)>>},
                    ord \in {<<>>, <<"k1", "k2">>, <<"k2", "k1">>, <<"k2">>},
                    kvs \in {<<K1, K1A>>, <<K1, K1A, K2>>, <<K1A, K2>>, <<K2, K1, K1A>>}}
      [] Slice = "io" ->
            {Plain(<<>>, <<io>>, <<>>) : io \in IoDomain} \cup {Plain(<<>>, <<>>, <<io>>) : io \in IoDomain}
            \cup {Plain(<<K1>>, <<IO("Fire", <<>>, "void", ""), IO("Fire", <<"A">>, "angle", "x")>>,
                        <<IO("OnFire", <<>>, "float", "")>>)}
      [] Slice = "num" ->
            \* number-like defaults and choice values: which of them may be written bare
            {Plain(<<KV("k1", <<>>, ty, "Nm", de, ds, FALSE, FALSE, <<>>)>>, <<>>, <<>>) :
                ty \in {"string", "integer", "float"}, de \in NumLike, ds \in {"", "D"}}
            \cup {Plain(<<KV("k1", <<>>, "choices", "Nm", de, "", FALSE, FALSE,
                            <<[v |-> de, n |-> "First", tags |-> <<>>], [v |-> v2, n |-> "Second", tags |-> <<>>]>>)>>, <<>>, <<>>) :
                    de \in NumLike, v2 \in {"0", "x"}}
      [] Slice = "bin" ->
            \* the binary database: what it keeps of a definition, switch by switch (captions differ
            \* from key names, key names have mixed case); what it cannot hold must be refused
            {Plain(<<KVk(nm[1], nm[2], <<>>, ty, di, de, ds, ro, rp, <<>>)>>, <<>>, <<>>) :
                nm \in {<<"k1", "k1">>, <<"mixedcasekey", "MixedCaseKey">>}, ty \in {"string", "integer", "boolean"},
                di \in {"", "Caption Text"}, de \in {"", "7", "a b"}, ds \in {"", "Desc"}, ro \in BOOLEAN, rp \in BOOLEAN}
            \cup {Plain(<<KVk("somekey", "SomeKey", <<>>, ty, di, "1 2 3", "", FALSE, FALSE, <<>>)>>, <<>>, <<>>) :
                    ty \in AllPlainTypes, di \in {"", "Cap"}}
            \cup {Plain(<<KV("spawnflags", <<>>, "flags", di, de, "", ro, FALSE, l)>>, <<>>, <<>>) :
                    di \in {"", "Flags!"}, de \in {"", "3"}, ro \in BOOLEAN,
                    l \in {<<>>, <<[b |-> "1", n |-> "One", d |-> TRUE, tags |-> <<>>]>>,
                           <<[b |-> "8388608", n |-> "", d |-> FALSE, tags |-> <<>>], [b |-> "2", n |-> "Two words", d |-> TRUE, tags |-> <<>>]>>}}
            \cup {Plain(<<Custom>>, <<>>, <<>>)}
            \* refused: choices, tagged keyvalues (alone or as duplicates), tagged flags, tagged I/O
            \cup {Plain(<<KV("k1", <<>>, "choices", "Nm", "0", "", FALSE, FALSE, <<[v |-> "0", n |-> "No", tags |-> <<>>]>>)>>, <<>>, <<>>),
                  Plain(<<K1A>>, <<>>, <<>>), Plain(<<K1, K1A>>, <<>>, <<>>),
                  Plain(<<KV("spawnflags", <<>>, "flags", "spawnflags", "", "", FALSE, FALSE, <<[b |-> "1", n |-> "One", d |-> TRUE, tags |-> <<"A">>]>>)>>, <<>>, <<>>),
                  Plain(<<>>, <<IO("Fire", <<"A">>, "void", "")>>, <<>>), Plain(<<>>, <<>>, <<IO("OnFire", <<"A">>, "void", "")>>)}
            \cup {Ent(k, FALSE, <<>>, <<>>, "", <<>>, <<K2>>, <<>>, <<>>, FALSE, <<>>) : k \in Kinds}
            \cup {Ent("pointclass", al, b, h, d, IF h = <<>> THEN <<>> ELSE <<"k2">>, <<K2>>, i, o, r[1], r[2]) :
                    al \in BOOLEAN, b \in {<<>>, <<"info_target">>}, h \in {<<>>, <<Helper("size", <<"-8 -8 -8", "8 8 8">>, FALSE)>>},
                    d \in {"", "An entity."},
                    i \in {<<>>, <<IO("Fire", <<>>, "void", "")>>, <<IO("Fire", <<>>, "angle", "Sets it."), IO("OnFire", <<>>, "string", "")>>},
                    o \in {<<>>, <<IO("OnFire", <<>>, "float", "Fired when.")>>},
                    r \in {<<FALSE, <<>>>>, <<TRUE, <<>>>>, <<TRUE, <<Res("MODEL", "models/a.mdl", <<>>)>>>>,
                           <<TRUE, <<Res("GAME_SOUND", "A.b", <<"+A", "B">>), Res("SOUNDSCRIPT", "scripts/x.txt", <<>>)>>>>,
                           <<TRUE, <<Res("ENTITY", "info_target", <<>>), Res("PARTICLE_FILE", "p.pcf", <<"A">>)>>>>}}
      [] Slice = "lists" ->
            \* the lists of an entity header / body with empty, blank and padded members:
            \* helper arguments (an unknown helper and every typed kind), bases, tags, list items, resources
            {Ent("pointclass", FALSE, <<>>, <<[Helper("marker", a, FALSE) EXCEPT !.known = FALSE]>>, "", <<"k2">>, <<K2>>, <<>>, <<>>, FALSE, <<>>) :
                a \in ArgLists}
            \cup UNION {{Ent("pointclass", FALSE, <<>>, <<Helper(h[1], a, h[1] \in {"appliesto", "orderby"})>>, "", <<"k2">>, <<K2>>, <<>>, <<>>, FALSE, <<>>) :
                            a \in Blanked(h[2])} : h \in TypedHelpers}
            \cup {Ent("pointclass", FALSE, b, <<>>, "", <<"k2">>, <<K2>>, <<>>, <<>>, FALSE, <<>>) :
                    b \in {<<"">>, <<"A", "">>, <<"", "B">>, <<"A", "", "C">>, <<" A ">>, <<"A ", " B">>, <<"", "">>}}
            \cup {Plain(<<KV("k1", tg, "integer", "Nm", "5", "", FALSE, FALSE, <<>>)>>, <<IO("Fire", tg, "void", "")>>, <<>>) :
                    tg \in {<<"">>, <<" ">>, <<"", "A">>, <<" ", "A", "B">>}}
            \cup {Plain(<<KV("k1", <<>>, "choices", "Nm", "", "", FALSE, FALSE,
                            <<[v |-> "", n |-> "Empty", tags |-> <<>>], [v |-> " ", n |-> " ", tags |-> <<"">>], [v |-> "a", n |-> " padded ", tags |-> <<"", "A">>]>>)>>, <<>>, <<>>),
                  Plain(<<KV("spawnflags", <<>>, "flags", "spawnflags", "", "", FALSE, FALSE,
                            <<[b |-> "1", n |-> " ", d |-> TRUE, tags |-> <<>>], [b |-> "2", n |-> " lead", d |-> FALSE, tags |-> <<"">>],
                              [b |-> "4", n |-> "trail ", d |-> TRUE, tags |-> <<"", "A">>]>>)>>, <<>>, <<>>)}
            \cup {Ent("pointclass", FALSE, <<>>, <<>>, "", <<>>, <<>>, <<>>, <<>>, TRUE, r) :
                    r \in {<<Res("MODEL", "", <<>>)>>, <<Res("MATERIAL", " ", <<"">>), Res("GAME_SOUND", " a ", <<"", "A">>)>>}}
      [] Slice = "res" ->
            {Ent("pointclass", FALSE, <<>>, <<>>, "", <<>>, <<>>, <<>>, <<>>, TRUE, r) :
                r \in {<<>>} \cup {<<Res(t, f, tg)>> : t \in ResTypes, f \in {"m/a.mdl", "a b\"c"}, tg \in Tags}
                      \cup {<<Res("MODEL", "a", <<>>), Res("ENTITY", "b", <<"A">>)>>}}
            \cup {Plain(<<>>, <<>>, <<>>)}
Opts == {[cs |-> c, ls |-> l] : c \in BOOLEAN, l \in BOOLEAN}

Alphabet == <<"a", " ", "\n", "\"", "\\", "n">>

(* ---- the machines ---------------------------------------------------------- *)
NoDoc == Plain(<<>>, <<>>, <<>>)
Init == /\ IF WithDoc THEN orig \in Docs /\ opts \in (IF Slice = "bin" THEN {[cs |-> TRUE, ls |-> TRUE]} ELSE Opts)
                      ELSE orig = NoDoc /\ opts = [cs |-> TRUE, ls |-> TRUE]
        /\ stage = "built" /\ cur = orig /\ lines = <<>> /\ first = <<>>
        /\ txt = ""

Export == /\ stage \in {"built", "parsed"}
          /\ lines' = ExportLines(cur, opts.cs, opts.ls)
          /\ first' = IF stage = "built" THEN lines' ELSE first
          /\ stage' = IF stage = "built" THEN "exported" ELSE "reexported"
          /\ UNCHANGED <<orig, opts, cur, txt>>
Parse == /\ stage = "exported"
         /\ cur' = ExportParse(cur, opts.cs, opts.ls)
         /\ stage' = "parsed"
         /\ UNCHANGED <<orig, opts, lines, first, txt>>
Grow == /\ Len(txt) < TextLen
        /\ \E k \in 1..Len(Alphabet) : txt' = txt \o Alphabet[k]
        /\ UNCHANGED <<orig, opts, stage, cur, lines, first>>
Next == (WithDoc /\ (Export \/ Parse)) \/ (WithText /\ Grow)
Spec == Init /\ [][Next]_vars

(* ---- the listed property --------------------------------------------------- *)
\* exporting again reproduces the text
ReExportSame == (stage = "reexported" /\ ReExportable(orig, opts.cs)) => lines = first
\* what was parsed is a fixed point of the round trip, whatever the options
ParsedIsFixpoint == (stage = "parsed" /\ (opts.cs \/ PlainSafe(orig))) =>
    \A o \in Opts : (o.cs = opts.cs) => ExportParse(cur, o.cs, o.ls) = cur
\* label_spawnflags never changes what is read back
\* (a spawnflag name that starts with blanks loses them together with the label)
NoLeadingBlank(d) == \A k \in 1..Len(d.kvs) : \A m \in 1..Len(d.kvs[k].list) : LStrip(d.kvs[k].list[m].n) = d.kvs[k].list[m].n
LabelFree == (stage = "built" /\ NoLeadingBlank(orig)) => ExportParse(orig, opts.cs, TRUE) = ExportParse(orig, opts.cs, FALSE)
\* with custom syntax nothing is lost but the documented canonical forms
SameKV(a, b) ==
    /\ a.key = b.key /\ a.name = b.name /\ a.tags = b.tags /\ a.type = b.type /\ a.custom = b.custom
    /\ a.ro = b.ro /\ a.rep = b.rep
    /\ (IsFlags(a) \/ (a.disp = b.disp /\ a.desc = b.desc /\ (a.def = b.def \/ (IsBool(a) /\ b.def = BoolCanon(a.def)))))
    /\ Len(a.list) = Len(b.list)
    /\ \A k \in 1..Len(a.list) : b.list[k] = [a.list[k] EXCEPT !.n = IF IsChoices(a) THEN Text(FALSE, NlToSpace(@)) ELSE NlToSpace(@)]
SameIO(a, b) == b = [a EXCEPT !.type = IoDecay(a)]
Permutation(p, n) == Len(p) = n /\ {p[k] : k \in 1..n} = 1..n
CustomIdentity == (stage = "parsed" /\ opts.cs) =>
    /\ cur.cls = orig.cls /\ cur.kind = orig.kind /\ ~cur.alias /\ cur.bases = orig.bases
    /\ cur.helpers = orig.helpers /\ cur.desc = orig.desc
    /\ cur.res_set = orig.res_set /\ cur.res = orig.res
    /\ Len(cur.ins) = Len(orig.ins) /\ \A k \in 1..Len(cur.ins) : SameIO(orig.ins[k], cur.ins[k])
    /\ Len(cur.outs) = Len(orig.outs) /\ \A k \in 1..Len(cur.outs) : SameIO(orig.outs[k], cur.outs[k])
    \* every keyvalue variant survives, in the order export wrote them
    /\ \E p \in {KvPerm(orig)} :
          /\ Permutation(p, Len(orig.kvs)) /\ Len(cur.kvs) = Len(orig.kvs)
          /\ {[key |-> x.key, tags |-> x.tags] : x \in {cur.kvs[k] : k \in 1..Len(cur.kvs)}}
                = {[key |-> x.key, tags |-> x.tags] : x \in {orig.kvs[k] : k \in 1..Len(orig.kvs)}}
          /\ \A k \in 1..Len(cur.kvs) : \E m \in 1..Len(orig.kvs) : SameKV(orig.kvs[m], cur.kvs[k])
\* with custom syntax off nothing of it is left
NoQuote(s) == "\"" \notin Chars(s)
PlainIsPlain == (stage = "parsed" /\ ~opts.cs /\ PlainSafe(orig)) =>
    /\ ~cur.res_set /\ ~cur.alias /\ \A k \in 1..Len(cur.helpers) : ~cur.helpers[k].ext
    /\ \A k \in 1..Len(cur.kvs) : cur.kvs[k].tags = <<>> /\ NoQuote(cur.kvs[k].disp) /\ NoQuote(cur.kvs[k].desc)
    /\ \A k \in 1..Len(cur.ins) : cur.ins[k].tags = <<>>
    /\ NoQuote(cur.desc)
\* the text of long strings: splitting never changes what is read
TextLaw == WithText => /\ LongStringLaw(TRUE, txt, TextLimit, TextMinNl)
                       /\ ("\\" \in Chars(txt) \/ LongStringLaw(FALSE, txt, TextLimit, TextMinNl))
\* binary: storing what was loaded from a database again loses nothing further
BinIdempotent == (stage = "built" /\ BinRepresentable(orig)) =>
    BinDecay(BinDecay(orig, "_CBaseEntity_"), "_CBaseEntity_") = BinDecay(orig, "_CBaseEntity_")

View == <<orig, opts, stage, cur, lines, txt>>
Emit == stage' # "exported" \/ PrintT(ToJson([tag |-> "CASE", doc |-> orig, opts |-> opts, rep |-> BinRepresentable(orig)]))
=============================================================================
