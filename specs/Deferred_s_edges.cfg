SPECIFICATION Spec
CONSTANTS
  Keys = {"p", "q"}
  MaxLen = 2
INVARIANT WriteLaw
INVARIANT MissingIsError
VIEW View
ACTION_CONSTRAINT Emit
CHECK_DEADLOCK FALSE
