SPECIFICATION Spec
CONSTANTS
  NS = 3
  VecArgs <- Vecs1
  AngArgs <- Angs1
  Scalars = {2}
  SetVals = {450}
  Hows <- AllHows
  MaxLevel = 3
  VecBound = 40
INVARIANT Range
INVARIANT Coh
PROPERTY FrozenImmutable
PROPERTY MutatesMutable
PROPERTY CopyEqual
PROPERTY FreshIsolated
PROPERTY AliasOnlyFrozen
CHECK_DEADLOCK FALSE
