SPECIFICATION Spec
CONSTANTS
  Fams = {"texts"}
  NameAlpha = {34, 92, 123, 125, 91, 93, 9, 32, 97, 110, 47, 39, 35}
  ValAlpha = {34, 92, 123, 125, 91, 93, 9, 32, 97, 110, 47, 39, 35, 10, 13}
  RichLen = 2
  PairNameAlpha = {34, 92, 123, 9, 110}
  PairValAlpha = {34, 92, 125, 10, 110}
  PairLen = 2
  ShapeNames <- ShapeNamesFull
  ShapeVals <- ShapeValsSmall
  ShapeDepth = 1
  DocAlpha = {"a", "b", "nl", "{", "}", "on", "off", "=", "]"}
  DocAlphaNL = {"a", "n", "nl", "{", "}"}
  DocLen = 6
  LexAlpha = {34, 92, 110, 10, 13, 123, 91, 93, 47, 32}
  LexLen = 5
INVARIANT RoundTrip
INVARIANT WhitespaceOnly
INVARIANT TokenShape
INVARIANT RawBlockNames
INVARIANT LinesIncrease
INVARIANT DocLexes
INVARIANT LexShape
INVARIANT Terminates
INVARIANT ParseAgrees
INVARIANT StackOK
INVARIANT Balanced
INVARIANT ErrorsNamed
PROPERTY Progress
ACTION_CONSTRAINT Emit
CHECK_DEADLOCK FALSE
