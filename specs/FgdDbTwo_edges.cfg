SPECIFICATION Spec
CONSTANTS
  Dbs <- TwoDbs
  Missing = "nope"
  MaxHist = 0
  Hot <- NoHot
INVARIANT DbsWellFormed
INVARIANT Once
INVARIANT Consistent
INVARIANT Resolved
INVARIANT SameAsFull
INVARIANT AllAfterLoad
PROPERTY IdentityStable
VIEW View
ACTION_CONSTRAINT Emit
CHECK_DEADLOCK FALSE
