SPECIFICATION Spec
CONSTANTS
  Templates = {"hidsolid", "brush", "ents", "nest", "nestplain", "angles", "anglesvar", "pitchsound", "unknownvar"}
  MultiTemplates = {"nest", "nestplain", "ents", "hidsolid"}
  VisTemplates = {"hidsolid", "brush", "ents", "nest"}
  Origins = {2}
  Tables = {0, 1, 2, 3}
  Triples = FALSE
  MaxArr = 3
  Full = FALSE
INVARIANT AllRotations
ACTION_CONSTRAINT Emit
CHECK_DEADLOCK FALSE
