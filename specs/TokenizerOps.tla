----------------------------- MODULE TokenizerOps -----------------------------
(* The lexer of srctools.tokenizer.Tokenizer (pure Python, _get_token /         *)
(* _handle_comment / _handle_string) as a step machine: ONE STEP PER CHARACTER  *)
(* DELIVERED BY THE CURSOR (one call of _next_char).                            *)
(*                                                                              *)
(*   Step(st, c, cf) -> [st, emit, rew, err]                                    *)
(*      st   lexer state between two _next_char calls                           *)
(*           m    mode: "Top" "Slash" "Line" "Star" "StarStar" "Str" "StrEsc"   *)
(*                      "Flag" "Paren" "Dir" "Bare"                             *)
(*           v    characters collected for the token being read                 *)
(*           l    line_num                                                      *)
(*           cr   Tokenizer._last_was_cr      scr  the string reader's own flag *)
(*           c0   line on which the current star comment started                *)
(*      c    the character delivered (code point) or EOFC                       *)
(*      cf   [o |-> the 7 boolean options, fold |-> case folding table]         *)
(*      emit <<>> or <<[t, v]>>: the token returned to the caller by this step  *)
(*      rew  the cursor is moved back by one: c is delivered again              *)
(*      err  NoErr or [id, arg]: TokenSyntaxError raised by this step           *)
(*                                                                              *)
(*   Lex(text, cf) runs the machine over a flat text and gives what a caller    *)
(*   sees: the tokens with line_num after each, up to and including the first   *)
(*   EOF, or the error with its line.  The text is flat: the lexer cannot see   *)
(*   chunk boundaries (CursorOps shows the chunked cursor delivers the same     *)
(*   characters; LexC below runs the same machine on top of that cursor).       *)
(*                                                                              *)
(* The specification states what the pinned code does, including the facts that *)
(* are odd but not forbidden by property C03: CR is not a line end inside "//"  *)
(* comments, [flags] and (parens); backslash + LF inside a string is swallowed  *)
(* without counting a line; "{ } = ," and EOF do not clear _last_was_cr; a '*'  *)
(* inside a star comment that is not followed by '/' is dropped from the        *)
(* preserved comment text; a BOM after line 1 starts a bare string.             *)
(* A later grammar specification (KV1) may EXTEND this module and consume       *)
(* Lex(text, cf).toks.                                                          *)
EXTENDS EscapeOps, CursorOps

(* ---- characters -------------------------------------------------------- *)
STAR == 42
HASH == 35
LBRACE == 123
RBRACE == 125
LBRACK == 91
RBRACK == 93
LPAREN == 40
RPAREN == 41
COLON == 58
PLUS == 43
EQUALS == 61
COMMA == 44
SEMI == 59
BOM == 65279

BareDisallowed == {DQ, SQ, LBRACE, RBRACE, SEMI, COMMA, EQUALS, LBRACK, RBRACK, LPAREN, RPAREN, CR, LF, TAB, SPACE}

(* ---- options ------------------------------------------------------------ *)
OptNames == {"sb", "sp", "esc", "star", "keep", "colon", "plus"}
\* string_bracket, string_parens, allow_escapes, allow_star_comments, preserve_comments,
\* colon_operator, plus_operator
AllOpts == [OptNames -> BOOLEAN]
TokDefaults == [sb |-> FALSE, sp |-> TRUE, esc |-> TRUE, star |-> FALSE, keep |-> FALSE, colon |-> FALSE, plus |-> FALSE]
KvOpts == [TokDefaults EXCEPT !.sb = TRUE]            \* what Keyvalues.parse passes
AllFalse == [n \in OptNames |-> FALSE]
AllTrue == [n \in OptNames |-> TRUE]
\* the characters whose treatment an option changes
Triggers(n) == CASE n = "sb" -> {LBRACK, RBRACK}
                 [] n = "sp" -> {LPAREN, RPAREN}
                 [] n = "esc" -> {BSL}
                 [] n = "star" -> {SLASH}
                 [] n = "keep" -> {SLASH}
                 [] n = "colon" -> {COLON}
                 [] n = "plus" -> {PLUS}
Chars(text) == {text[k] : k \in 1..Len(text)}
Relevant(text) == {n \in OptNames : Triggers(n) \cap Chars(text) # {}}

(* ---- case folding (directives) ------------------------------------------- *)
\* ASCII is folded here; everything else comes from the table the harness supplies for the
\* characters in play (str.casefold of CPython, not srctools code).  fold is a function.
Fold(c, fold) == IF c >= 65 /\ c <= 90 THEN <<c + 32>>
                 ELSE IF c \in DOMAIN fold THEN fold[c] ELSE <<c>>
NoFold == <<>>        \* the empty function
Cfg(o) == [o |-> o, fold |-> NoFold]

(* ---- tokens ---------------------------------------------------------------- *)
Tok(t, v) == [t |-> t, v |-> v]
Op1(c) == CASE c = LBRACE -> Tok("BRACE_OPEN", <<c>>)
            [] c = RBRACE -> Tok("BRACE_CLOSE", <<c>>)
            [] c = EQUALS -> Tok("EQUALS", <<c>>)
            [] c = COMMA  -> Tok("COMMA", <<c>>)
NewlineTok == Tok("NEWLINE", <<LF>>)
EofTok == Tok("EOF", <<>>)

NoErr == [id |-> "none", arg |-> 0]
Err(id, arg) == [id |-> id, arg |-> arg]
ErrIds == {"flag_eol", "flag_nest", "flag_eof", "paren_nest", "paren_eof", "close_brack", "close_paren",
           "bad_char", "star_eof", "star_off", "slash1", "slash1s", "esc_eof", "str_eof"}

LInit == [m |-> "Top", v |-> <<>>, l |-> 1, cr |-> FALSE, scr |-> FALSE, c0 |-> 0]

R(st, emit, rew, err) == [st |-> st, emit |-> emit, rew |-> rew, err |-> err]
Stay(st) == R(st, <<>>, FALSE, NoErr)
Give(st, tok) == R(st, <<tok>>, FALSE, NoErr)
Fail(st, id, arg) == R(st, <<>>, FALSE, Err(id, arg))
Enter(st, m) == [st EXCEPT !.m = m, !.v = <<>>]
ToTop(st) == [st EXCEPT !.m = "Top", !.v = <<>>, !.scr = FALSE, !.c0 = 0]

(* ---- one step per mode ------------------------------------------------------ *)
TopStep(st, c, o) ==
    IF c = EOFC THEN Give(st, EofTok)                                   \* _last_was_cr untouched
    ELSE IF c \in {LBRACE, RBRACE, EQUALS, COMMA} THEN Give(st, Op1(c)) \* _last_was_cr untouched
    ELSE IF c = CR THEN Give([st EXCEPT !.cr = TRUE, !.l = st.l + 1], NewlineTok)
    ELSE IF c = LF THEN
        IF st.cr THEN Stay([st EXCEPT !.cr = FALSE])                    \* the LF of CR LF
        ELSE Give([st EXCEPT !.l = st.l + 1], NewlineTok)
    ELSE LET s == [st EXCEPT !.cr = FALSE] IN
        IF c \in {SPACE, TAB} THEN Stay(s)
        ELSE IF c = SLASH THEN Stay(Enter(s, "Slash"))
        ELSE IF c = DQ THEN Stay([Enter(s, "Str") EXCEPT !.scr = FALSE])
        ELSE IF c = LBRACK THEN
            IF o.sb THEN Stay(Enter(s, "Flag")) ELSE Give(s, Tok("BRACK_OPEN", <<c>>))
        ELSE IF c = LPAREN THEN
            IF o.sp THEN Stay(Enter(s, "Paren")) ELSE Give(s, Tok("PAREN_OPEN", <<c>>))
        ELSE IF c = BOM /\ s.l = 1 THEN Stay(s)
        ELSE IF c = COLON /\ o.colon THEN Give(s, Tok("COLON", <<c>>))
        ELSE IF c = PLUS /\ o.plus THEN Give(s, Tok("PLUS", <<c>>))
        ELSE IF c = RBRACK THEN
            IF o.sb THEN Fail(s, "close_brack", 0) ELSE Give(s, Tok("BRACK_CLOSE", <<c>>))
        ELSE IF c = RPAREN THEN
            IF o.sp THEN Fail(s, "close_paren", 0) ELSE Give(s, Tok("PAREN_CLOSE", <<c>>))
        ELSE IF c = HASH THEN Stay(Enter(s, "Dir"))
        ELSE IF c \notin BareDisallowed THEN Stay([s EXCEPT !.m = "Bare", !.v = <<c>>])
        ELSE Fail(s, "bad_char", c)                                     \* ' and ;

FlagStep(st, c) ==
    IF c = RBRACK THEN Give(ToTop(st), Tok("PROP_FLAG", st.v))
    ELSE IF c = LF THEN Fail(st, "flag_eol", 0)
    ELSE IF c = LBRACK THEN Fail(st, "flag_nest", 0)
    ELSE IF c = EOFC THEN Fail(st, "flag_eof", 0)
    ELSE Stay([st EXCEPT !.v = Append(st.v, c)])

ParenStep(st, c) ==
    IF c = RPAREN THEN Give(ToTop(st), Tok("PAREN_ARGS", st.v))
    ELSE IF c = LF THEN Stay([st EXCEPT !.v = Append(st.v, c), !.l = st.l + 1])
    ELSE IF c = LPAREN THEN Fail(st, "paren_nest", 0)
    ELSE IF c = EOFC THEN Fail(st, "paren_eof", 0)
    ELSE Stay([st EXCEPT !.v = Append(st.v, c)])

EndsWord(c, o) == c \in BareDisallowed \/ (c = COLON /\ o.colon) \/ (c = PLUS /\ o.plus)
\* "#name" directives (case folded) and bare words: the ending character is delivered again
WordStep(st, c, cf, ttype) ==
    IF EndsWord(c, cf.o) THEN R(ToTop(st), <<Tok(ttype, st.v)>>, TRUE, NoErr)
    ELSE IF c = EOFC THEN Give(ToTop(st), Tok(ttype, st.v))
    ELSE Stay([st EXCEPT !.v = st.v \o (IF ttype = "DIRECTIVE" THEN Fold(c, cf.fold) ELSE <<c>>)])

SlashStep(st, c, o) ==
    IF c = STAR THEN
        IF o.star THEN Stay([Enter(st, "Star") EXCEPT !.c0 = st.l]) ELSE Fail(st, "star_off", 0)
    ELSE IF c # SLASH THEN Fail(st, IF o.star THEN "slash1s" ELSE "slash1", 0)
    ELSE Stay(Enter(st, "Line"))

\* "//": up to LF or the end of the input, which is delivered again (CR does not end it)
LineStep(st, c, o) ==
    IF c = LF \/ c = EOFC THEN
        R(ToTop(st), IF o.keep THEN <<Tok("COMMENT", st.v)>> ELSE <<>>, TRUE, NoErr)
    ELSE Stay(IF o.keep THEN [st EXCEPT !.v = Append(st.v, c)] ELSE st)

StarStep(st, c, o) ==
    IF c = EOFC THEN Fail(st, "star_eof", st.c0)
    ELSE IF c = LF THEN Stay([st EXCEPT !.l = st.l + 1, !.v = IF o.keep THEN Append(st.v, c) ELSE st.v])
    ELSE IF c = STAR THEN Stay([st EXCEPT !.m = "StarStar"])
    ELSE Stay(IF o.keep THEN [st EXCEPT !.v = Append(st.v, c)] ELSE st)
\* the character after a '*' inside a star comment
StarStarStep(st, c, o) ==
    IF c = EOFC THEN Fail(st, "star_eof", st.c0)
    ELSE IF c = SLASH THEN R(ToTop(st), IF o.keep THEN <<Tok("COMMENT", st.v)>> ELSE <<>>, FALSE, NoErr)
    ELSE R([st EXCEPT !.m = "Star"], <<>>, TRUE, NoErr)        \* re-read it, so that "**/" closes

\* quoted strings: the reader of EscapeOps with the line counter threaded through
SOf(st) == [v |-> st.v, scr |-> st.scr, nl |-> st.l]
WithS(st, s) == [st EXCEPT !.v = s.v, !.scr = s.scr, !.l = s.nl]
StringStep(st, c, o) ==
    LET r == IF st.m = "Str" THEN StrStep(SOf(st), c, o.esc) ELSE EscStep(SOf(st), c)
        s2 == WithS(st, r.s)
    IN  CASE r.k = "close"   -> Give(ToTop(s2), Tok("STRING", r.s.v))
          [] r.k = "more"    -> Stay([s2 EXCEPT !.m = "Str"])
          [] r.k = "esc"     -> Stay([s2 EXCEPT !.m = "StrEsc"])
          [] r.k = "err_eof" -> Fail(s2, "str_eof", 0)
          [] r.k = "err_esc" -> Fail(s2, "esc_eof", 0)

Modes == {"Top", "Slash", "Line", "Star", "StarStar", "Str", "StrEsc", "Flag", "Paren", "Dir", "Bare"}
Step(st, c, cf) ==
    CASE st.m = "Top"      -> TopStep(st, c, cf.o)
      [] st.m = "Slash"    -> SlashStep(st, c, cf.o)
      [] st.m = "Line"     -> LineStep(st, c, cf.o)
      [] st.m = "Star"     -> StarStep(st, c, cf.o)
      [] st.m = "StarStar" -> StarStarStep(st, c, cf.o)
      [] st.m \in {"Str", "StrEsc"} -> StringStep(st, c, cf.o)
      [] st.m = "Flag"     -> FlagStep(st, c)
      [] st.m = "Paren"    -> ParenStep(st, c)
      [] st.m = "Dir"      -> WordStep(st, c, cf, "DIRECTIVE")
      [] st.m = "Bare"     -> WordStep(st, c, cf, "STRING")

(* ---- running the machine ---------------------------------------------------- *)
CharAt(text, p) == IF p >= 1 /\ p <= Len(text) THEN text[p] ELSE EOFC
LTok(tok, l) == [t |-> tok.t, v |-> tok.v, l |-> l]
NoErrL == [id |-> "none", arg |-> 0, l |-> 0]

\* Result: toks = tokens returned so far (each with line_num after it), err, n = steps taken,
\* st = the lexer state at the end.
RECURSIVE RunFlat(_, _, _, _, _, _)
RunFlat(text, cf, p, st, toks, n) ==
    LET r == Step(st, CharAt(text, p), cf)
        toks2 == IF r.emit = <<>> THEN toks ELSE Append(toks, LTok(r.emit[1], r.st.l))
    IN  IF r.err # NoErr THEN [toks |-> toks, err |-> [id |-> r.err.id, arg |-> r.err.arg, l |-> r.st.l], n |-> n + 1, st |-> r.st]
        ELSE IF r.emit # <<>> /\ r.emit[1].t = "EOF" THEN [toks |-> toks2, err |-> NoErrL, n |-> n + 1, st |-> r.st]
        ELSE RunFlat(text, cf, IF r.rew THEN p ELSE p + 1, r.st, toks2, n + 1)
Lex(text, cf) == RunFlat(text, cf, 1, LInit, <<>>, 0)

\* The same machine on top of the chunked cursor of CursorOps.
RECURSIVE RunCur(_, _, _, _, _)
RunCur(cs, cf, st, toks, n) ==
    LET d == CNext(cs)
        r == Step(st, d.res, cf)
        toks2 == IF r.emit = <<>> THEN toks ELSE Append(toks, LTok(r.emit[1], r.st.l))
    IN  IF r.err # NoErr THEN [toks |-> toks, err |-> [id |-> r.err.id, arg |-> r.err.arg, l |-> r.st.l], n |-> n + 1, st |-> r.st]
        ELSE IF r.emit # <<>> /\ r.emit[1].t = "EOF" THEN [toks |-> toks2, err |-> NoErrL, n |-> n + 1, st |-> r.st]
        ELSE RunCur(IF r.rew THEN CRewind(d.s) ELSE d.s, cf, r.st, toks2, n + 1)
LexC(cs, cf) == RunCur(cs, cf, LInit, <<>>, 0)

\* The events of a run: for every step the character delivered and the state it met
\* (what a wrapper around Tokenizer._next_char can observe when the call is made).
RECURSIVE RunEv(_, _, _, _, _, _)
RunEv(text, cf, p, st, nt, ev) ==
    LET c == CharAt(text, p)
        r == Step(st, c, cf)
        ev2 == Append(ev, [c |-> c, l |-> st.l, cr |-> st.cr, nt |-> nt, m |-> st.m])
    IN  IF r.err # NoErr THEN ev2
        ELSE IF r.emit # <<>> /\ r.emit[1].t = "EOF" THEN ev2
        ELSE RunEv(text, cf, IF r.rew THEN p ELSE p + 1, r.st, nt + Len(r.emit), ev2)
Events(text, cf) == RunEv(text, cf, 1, LInit, 0, <<>>)

(* ---- the caller's view: BaseTokenizer.__call__, peek(), push_back(), expect() ---------- *)
\* The lexer is consumed one token at a time; pushed-back tokens are returned first (last in,
\* first out) and do not touch line_num.  L = Lex(text, cf); s = [k |-> tokens taken from the
\* lexer, pb |-> push-back stack, l |-> line_num].  Every operation returns
\* [s |-> state, res |-> token or NoTok, err |-> NoErrL or the error raised].
ValueToks == {"STRING", "PAREN_ARGS", "DIRECTIVE", "COMMENT", "PROP_FLAG"}
FixedVal(t) == CASE t = "EOF" -> <<>> [] t = "NEWLINE" -> <<LF>> [] t = "BRACE_OPEN" -> <<LBRACE>> [] t = "BRACE_CLOSE" -> <<RBRACE>>
                 [] t = "PAREN_OPEN" -> <<LPAREN>> [] t = "PAREN_CLOSE" -> <<RPAREN>> [] t = "BRACK_OPEN" -> <<LBRACK>>
                 [] t = "BRACK_CLOSE" -> <<RBRACK>> [] t = "COLON" -> <<COLON>> [] t = "EQUALS" -> <<EQUALS>>
                 [] t = "PLUS" -> <<PLUS>> [] t = "COMMA" -> <<COMMA>>
NoTok == Tok("", <<>>)
CallInit == [k |-> 0, pb |-> <<>>, l |-> 1]
CR3(s, res, err) == [s |-> s, res |-> res, err |-> err]
FromLexer(L, s) ==
    IF s.k < Len(L.toks)
    THEN CR3([s EXCEPT !.k = s.k + 1, !.l = L.toks[s.k + 1].l], Tok(L.toks[s.k + 1].t, L.toks[s.k + 1].v), NoErrL)
    ELSE IF L.err # NoErrL THEN CR3([s EXCEPT !.l = L.err.l], NoTok, L.err)
    ELSE CR3(s, EofTok, NoErrL)                                     \* EOF for ever
Call(L, s) ==
    IF s.pb # <<>> THEN CR3([s EXCEPT !.pb = SubSeq(s.pb, 1, Len(s.pb) - 1)], s.pb[Len(s.pb)], NoErrL)
    ELSE FromLexer(L, s)
Peek(L, s) == LET c == Call(L, s) IN
    IF c.err # NoErrL THEN c ELSE CR3([c.s EXCEPT !.pb = Append(c.s.pb, c.res)], c.res, NoErrL)
\* the value given for a token without a value of its own is ignored
PushBack(s, t, v) == CR3([s EXCEPT !.pb = Append(s.pb, Tok(t, IF t \in ValueToks THEN v ELSE FixedVal(t)))], NoTok, NoErrL)
\* expect(token, skip_newline): newlines are skipped unless a newline is what is expected
RECURSIVE ExpectFrom(_, _, _, _)
ExpectFrom(L, s, t, skip) ==
    LET c == Call(L, s) IN
    IF c.err # NoErrL THEN c
    ELSE IF skip /\ t # "NEWLINE" /\ c.res.t = "NEWLINE" THEN ExpectFrom(L, c.s, t, skip)
    ELSE IF c.res.t # t THEN CR3(c.s, NoTok, [id |-> "expect/" \o t \o "/" \o c.res.t, arg |-> 0, l |-> c.s.l])
    ELSE c

\* skipping_newlines(): a generator; n items are taken from it.  It ends (STOP) at EOF.
StopTok == Tok("STOP", <<>>)
CR4(s, out, err) == [s |-> s, out |-> out, err |-> err]
CallerErr(s) == [id |-> "error", arg |-> 0, l |-> s.l]
RECURSIVE NextNonNl(_, _)
NextNonNl(L, s) == LET c == Call(L, s) IN
    IF c.err # NoErrL THEN c ELSE IF c.res.t = "NEWLINE" THEN NextNonNl(L, c.s) ELSE c
RECURSIVE SkipNlFrom(_, _, _, _)
SkipNlFrom(L, s, n, acc) ==
    IF n = 0 THEN CR4(s, acc, NoErrL)
    ELSE LET c == NextNonNl(L, s) IN
        IF c.err # NoErrL THEN CR4(c.s, acc, c.err)
        ELSE IF c.res.t = "EOF" THEN CR4(c.s, Append(acc, StopTok), NoErrL)
        ELSE SkipNlFrom(L, c.s, n - 1, Append(acc, c.res))
\* block(name, consume_brace): a generator of the strings up to the closing brace; n items are taken
RECURSIVE BlockItems(_, _, _, _)
BlockItems(L, s, n, acc) ==
    IF n = 0 THEN CR4(s, acc, NoErrL)
    ELSE LET c == NextNonNl(L, s) IN
        IF c.err # NoErrL THEN CR4(c.s, acc, c.err)
        ELSE IF c.res.t = "BRACE_CLOSE" THEN CR4(c.s, Append(acc, StopTok), NoErrL)
        ELSE IF c.res.t = "STRING" THEN BlockItems(L, c.s, n - 1, Append(acc, c.res))
        ELSE CR4(c.s, acc, CallerErr(c.s))                          \* EOF (unclosed) or any other token
BlockFrom(L, s, n, brace) ==
    IF n = 0 THEN CR4(s, <<>>, NoErrL)                               \* the generator is never started
    ELSE IF brace THEN LET e == ExpectFrom(L, s, "BRACE_OPEN", TRUE) IN
        IF e.err # NoErrL THEN CR4(e.s, <<>>, e.err) ELSE BlockItems(L, e.s, n, <<>>)
    ELSE BlockItems(L, s, n, <<>>)
=============================================================================
