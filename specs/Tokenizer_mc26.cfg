SPECIFICATION Spec
CONSTANTS
  Kind = "family"
  Alphabet <- Alpha26
  MaxLen = 3
  Base <- TokDefaults
  EdgeOpts <- EdgeOptSets
  ChunkLen = 2
  ChunkEmpty = 1
  IrrLen = 1
INVARIANT StepBound
INVARIANT NoDoubleRewind
INVARIANT EndsAtEof
INVARIANT StepDefined
INVARIANT EofForEver
INVARIANT ErrOnce
INVARIANT NoErrEarly
INVARIANT TokLines
INVARIANT LineBound
INVARIANT TokShape
INVARIANT LexIsMachine
INVARIANT ChunkIndep
INVARIANT OptIrrelevant
PROPERTY LineMonotone
CHECK_DEADLOCK FALSE
