-------------------------------- MODULE Cursor --------------------------------
(* C03, cursor layer: the chunked character cursor of the tokenizer refines a   *)
(* flat cursor.  The text is <<1, 2, .., n>> (every character distinct, so any  *)
(* wrong delivery shows); it is delivered as one str or as any chunk list whose *)
(* concatenation it is, with up to MaxEmpty empty chunks in every gap.  The     *)
(* lexer's use of the cursor is: NextChar, and at most one Rewind after a       *)
(* NextChar.  abs is the flat cursor the lexer believes in.                     *)
EXTENDS CursorOps, FiniteSets, TLC, Json

CONSTANTS MaxLen, MaxEmpty, MaxEof

VARIABLES text, cs, abs, canRew, last, act
vars == <<text, cs, abs, canRew, last>>

TextOf(n) == [k \in 1..n |-> k]
FlatAt(t, a) == IF a >= 1 /\ a <= Len(t) THEN t[a] ELSE CEof
Inits == UNION {{[text |-> TextOf(n), cs |-> CStr(TextOf(n))]} \cup
                {[text |-> TextOf(n), cs |-> CIter(ch)] : ch \in Chunkings(TextOf(n), MaxEmpty)} : n \in 0..MaxLen}
ASSUME PrintT(ToJson([tag |-> "FAMILY", n |-> Cardinality(Inits)]))

Init == /\ \E x \in Inits : text = x.text /\ cs = x.cs
        /\ abs = 0 /\ canRew = FALSE /\ last = 0
        /\ act = [op |-> "init"]

NextChar == /\ abs < Len(text) + MaxEof
            /\ LET d == CNext(cs) IN
                /\ cs' = d.s /\ last' = d.res
                /\ act' = [op |-> "next", res |-> d.res]
            /\ abs' = abs + 1 /\ canRew' = TRUE
            /\ UNCHANGED text
Rewind == /\ canRew
          /\ cs' = CRewind(cs) /\ abs' = abs - 1 /\ canRew' = FALSE
          /\ act' = [op |-> "rewind"]
          /\ UNCHANGED <<text, last>>
Next == NextChar \/ Rewind
Spec == Init /\ [][Next]_vars

(* ---- refinement: the chunked cursor delivers what the flat cursor would --------- *)
Refines == canRew => last = FlatAt(text, abs)
\* the index never leaves the range in which Python's indexing means what the code intends
IdxOK == cs.idx >= 0 - 1 /\ (canRew => cs.idx >= 0)
\* the ghost position agrees with the flat cursor while inside the text
AbsAgrees == (canRew /\ last # CEof) => AbsPos(cs) = abs
\* no text is lost or duplicated
FlatConst == Flat0(cs) = text
\* the end is permanent
EofSticky == (canRew /\ last = CEof) => CNext(cs).res = CEof
\* empty chunks are never made current
CurFull == cs.ci # 0 => cs.cur # <<>>

Obs == [chunks |-> cs.chunks, str |-> (cs.chunks = <<>> /\ cs.ci = 0), text |-> text,
        it |-> cs.it, idx |-> cs.idx, cur |-> cs.cur, abs |-> abs, canRew |-> canRew]
View == vars
Emit == PrintT(ToJson([tag |-> "EDGE", s |-> Obs, a |-> act', t |-> Obs']))
=============================================================================
