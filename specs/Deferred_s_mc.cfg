SPECIFICATION Spec
CONSTANTS
  Keys = {"p", "q"}
  MaxLen = 2
INVARIANT WriteLaw
INVARIANT MissingIsError
VIEW View
CHECK_DEADLOCK FALSE
