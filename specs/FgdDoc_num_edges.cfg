SPECIFICATION Spec
CONSTANTS
  WithDoc = TRUE
  WithText = FALSE
  Slice = "num"
  TextLen = 0
  TextLimit = 8
  TextMinNl = 3
INVARIANT ReExportSame
INVARIANT ParsedIsFixpoint
INVARIANT LabelFree
INVARIANT CustomIdentity
INVARIANT PlainIsPlain
INVARIANT BinIdempotent
VIEW View
ACTION_CONSTRAINT Emit
CHECK_DEADLOCK FALSE
