SPECIFICATION Spec
CONSTANTS
  WithDoc = TRUE
  WithText = FALSE
  Slice = "num"
  TextLen = 0
  TextLimit = 8
  TextMinNl = 3
INVARIANT ReExportSame
INVARIANT ParsedIsFixpoint
INVARIANT LabelFree
INVARIANT CustomIdentity
INVARIANT PlainIsPlain
INVARIANT BinIdempotent
CHECK_DEADLOCK FALSE
