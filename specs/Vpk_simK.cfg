SPECIFICATION Spec
CONSTANTS
  Names = {"n1", "n2", "n3"}
  SizeSel = "kilo"
  Limit = 1024
  FName = "x_dir_dir.vpk"
  ArchIdx <- IdxAll
  NArch = 2
  Cs <- CsAll
  MaxW = 12
INVARIANT ReadBack
INVARIANT DiskReadBack
INVARIANT Fits
PROPERTY ArchivesAppendOnly
PROPERTY ReadOnlyRejects
PROPERTY FailureIsNoop
PROPERTY DirFileStable
ACTION_CONSTRAINT Emit
CHECK_DEADLOCK FALSE
