SPECIFICATION Spec
CONSTANTS
  Names = {"a", "A", "b"}
  Vals = {"1", "2"}
  SetPathKids = 0
  MaxKids = 3
INVARIANT SetGet
INVARIANT DelShrinks
INVARIANT MergeOne
INVARIANT EnsureHas
VIEW View
CHECK_DEADLOCK FALSE
