------------------------------- MODULE KV1Ops -------------------------------
(* Pure operators of the KeyValues1 text format as srctools reads and writes  *)
(* it (srctools.keyvalues.Keyvalues.serialise / .parse, srctools.tokenizer).  *)
(*                                                                            *)
(*   Escape, Serialise   what the text of a tree must BE, character for       *)
(*                       character (names and values escaped on the leaf and  *)
(*                       on the block path; options only add whitespace)      *)
(*   Lex                 the tokenizer as Keyvalues.parse configures it       *)
(*                       (string_bracket, string_parens, no star comments),   *)
(*                       one step per character, with line numbers            *)
(*   Step, Parse         the token loop of Keyvalues.parse: block stack,      *)
(*                       block_line in {none, skip, expect}, can_flag_replace,*)
(*                       [flags], single_line, single_block, newline options, *)
(*                       every error of the loop                              *)
(*                                                                            *)
(* Strings are sequences of code points.  No variables: the model-checking    *)
(* machine (KV1) and the record validator (KV1Trace) use exactly these        *)
(* definitions.  Everything iterates with FoldLeft (evaluated by TLC without  *)
(* recursion), so texts of tens of thousands of characters are fine; only     *)
(* the tree recursion of Serialise / NoLine is as deep as the tree.           *)
EXTENDS Integers, Sequences, FiniteSets, SequencesExt

(* ------------------------------------------------------------ characters -- *)
BEL == 7    BSP == 8    TAB == 9    LF == 10    VT == 11   FF == 12   CR == 13
SP == 32    BANG == 33  DQ == 34    HASH == 35  SQ == 39   LPAR == 40 RPAR == 41
STAR == 42  COMMA == 44 SLASH == 47 SEMI == 59  EQS == 61  QM == 63
LBRK == 91  BS == 92    RBRK == 93  LBRC == 123 RBRC == 125
BOM == 65279

\* tokenizer.BARE_DISALLOWED
BareDisallowed == {DQ, SQ, LBRC, RBRC, SEMI, COMMA, EQS, LBRK, RBRK, LPAR, RPAR, CR, LF, TAB, SP}

(* -------------------------------------------------------------- escaping -- *)
\* escape_text(text) (multiline = FALSE): the symbol written after a backslash, 0 = not escaped.
\* '/' and '?' are accepted by the reader but never produced.
EscSym(c) == CASE c = LF  -> 110   \* n
               [] c = TAB -> 116   \* t
               [] c = VT  -> 118   \* v
               [] c = BSP -> 98    \* b
               [] c = CR  -> 114   \* r
               [] c = FF  -> 102   \* f
               [] c = BEL -> 97    \* a
               [] c = DQ  -> DQ
               [] c = SQ  -> SQ
               [] c = BS  -> BS
               [] OTHER   -> 0
Escapable(c) == EscSym(c) # 0
EscChar(c) == IF Escapable(c) THEN <<BS, EscSym(c)>> ELSE <<c>>
Escape(s) == FoldLeft(LAMBDA acc, c : acc \o EscChar(c), <<>>, s)

\* tokenizer.ESCAPES: the character an escape symbol stands for, -1 = unknown escape
Unesc(c) == CASE c = 110 -> LF
              [] c = 116 -> TAB
              [] c = 118 -> VT
              [] c = 98  -> BSP
              [] c = 114 -> CR
              [] c = 102 -> FF
              [] c = 97  -> BEL
              [] c = DQ  -> DQ
              [] c = SQ  -> SQ
              [] c = SLASH -> SLASH
              [] c = BS  -> BS
              [] c = QM  -> QM
              [] OTHER   -> 0 - 1

(* ----------------------------------------------------------------- trees -- *)
\* One node shape for leaves and blocks (TLC compares records of one shape only).
\* line = Keyvalues.line_num (0 = None).
Leaf(n, v, line)  == [n |-> n, leaf |-> TRUE,  v |-> v,    k |-> <<>>, line |-> line]
Block(n, k, line) == [n |-> n, leaf |-> FALSE, v |-> <<>>, k |-> k,    line |-> line]
\* A document is a root (name None: only its children are written) or a single node.
RootDoc(kids) == [root |-> TRUE,  node |-> Block(<<>>, kids, 0)]
NodeDoc(nd)   == [root |-> FALSE, node |-> nd]

RECURSIVE NoLine(_)
NoLine(nd) == [n |-> nd.n, leaf |-> nd.leaf, v |-> nd.v, line |-> 0,
               k |-> [i \in 1..Len(nd.k) |-> NoLine(nd.k[i])]]
NoLineSeq(q) == [i \in 1..Len(q) |-> NoLine(q[i])]

\* what parsing the text of a document must give back: the children of a root
RoundTripKids(doc) == IF doc.root THEN NoLineSeq(doc.node.k) ELSE <<NoLine(doc.node)>>

RECURSIVE BlockNameChars(_)
\* the characters occurring in the names of blocks (the root itself has no name)
BlockNameChars(nd) ==
    IF nd.leaf THEN {}
    ELSE {nd.n[i] : i \in 1..Len(nd.n)} \cup UNION {BlockNameChars(nd.k[i]) : i \in 1..Len(nd.k)}
DocBlockNameChars(doc) ==
    IF doc.root THEN UNION {BlockNameChars(doc.node.k[i]) : i \in 1..Len(doc.node.k)}
    ELSE BlockNameChars(doc.node)

(* ------------------------------------------------------------- serialise -- *)
\* o = [indent |-> Str, braces |-> BOOLEAN (indent_braces), start |-> Str (start_indent)]
\* escBlock = TRUE is the format (every name escaped).  escBlock = FALSE describes a writer
\* that puts block names between the quotes as they are; it exists only so that the record
\* validator can recognise that one deviation exactly (KV1Trace, clause *.blockname_raw).
RECURSIVE SerNode(_, _, _, _)
SerNode(nd, o, cur, escBlock) ==
    IF nd.leaf
    THEN cur \o <<DQ>> \o Escape(nd.n) \o <<DQ, SP, DQ>> \o Escape(nd.v) \o <<DQ, LF>>
    ELSE LET bi == IF o.braces THEN o.indent ELSE <<>>
         IN  cur \o <<DQ>> \o (IF escBlock THEN Escape(nd.n) ELSE nd.n) \o <<DQ, LF>>
             \o cur \o bi \o <<LBRC, LF>>
             \o FoldLeft(LAMBDA acc, kid : acc \o SerNode(kid, o, cur \o o.indent, escBlock), <<>>, nd.k)
             \o cur \o bi \o <<RBRC, LF>>
SerialiseG(doc, o, escBlock) ==
    IF doc.root
    THEN FoldLeft(LAMBDA acc, kid : acc \o SerNode(kid, o, <<>>, escBlock), <<>>, doc.node.k)
    ELSE SerNode(doc.node, o, o.start, escBlock)
Serialise(doc, o) == SerialiseG(doc, o, TRUE)
DefaultSer == [indent |-> <<TAB>>, braces |-> TRUE, start |-> <<>>]

\* the token kinds the text of a document must lex to
RECURSIVE SkelNode(_)
SkelNode(nd) ==
    IF nd.leaf THEN <<"STR", "STR", "NL">>
    ELSE <<"STR", "NL", "OPEN", "NL">>
         \o FoldLeft(LAMBDA acc, kid : acc \o SkelNode(kid), <<>>, nd.k) \o <<"CLOSE", "NL">>
Skeleton(doc) ==
    (IF doc.root THEN FoldLeft(LAMBDA acc, kid : acc \o SkelNode(kid), <<>>, doc.node.k)
     ELSE SkelNode(doc.node)) \o <<"EOF">>

\* all spaces and tabs removed (two serialisations of one tree may differ in nothing else)
IsBlank(c) == c = SP \/ c = TAB
NoBlanks(text) == SelectSeq(text, LAMBDA c : ~IsBlank(c))
\* spaces and tabs outside quoted strings removed (exact statement; walks the text)
Squeeze(text) ==
    FoldLeft(LAMBDA a, c :
               IF a.m = "out" THEN
                   IF IsBlank(c) THEN a
                   ELSE [m |-> IF c = DQ THEN "in" ELSE "out", out |-> Append(a.out, c)]
               ELSE IF a.m = "in" THEN
                   [m |-> IF c = DQ THEN "out" ELSE IF c = BS THEN "esc" ELSE "in", out |-> Append(a.out, c)]
               ELSE [m |-> "in", out |-> Append(a.out, c)],
             [m |-> "out", out |-> <<>>], text).out

\* every whitespace character (blank or line break) outside the quoted strings removed: what is
\* left is what two serialisations of one tree under different options must have in common
IsWs(c) == c = SP \/ c = TAB \/ c = LF \/ c = CR
SqueezeWs(text) ==
    FoldLeft(LAMBDA a, c :
               IF a.m = "out" THEN
                   IF IsWs(c) THEN a
                   ELSE [m |-> IF c = DQ THEN "in" ELSE "out", out |-> Append(a.out, c)]
               ELSE IF a.m = "in" THEN
                   [m |-> IF c = DQ THEN "out" ELSE IF c = BS THEN "esc" ELSE "in", out |-> Append(a.out, c)]
               ELSE [m |-> "in", out |-> Append(a.out, c)],
             [m |-> "out", out |-> <<>>], text).out

(* ----------------------------------------------------------------- lexer -- *)
\* lo = [esc |-> BOOLEAN (allow_escapes), fold |-> <<<<c, Str>>, ...>>]: str.casefold() of the
\* non-ASCII characters in play is supplied by the harness; ASCII is folded here.
FoldC(lo, c) ==
    IF c >= 65 /\ c <= 90 THEN <<c + 32>>
    ELSE IF \E i \in 1..Len(lo.fold) : lo.fold[i][1] = c
         THEN lo.fold[CHOOSE i \in 1..Len(lo.fold) : lo.fold[i][1] = c][2]
         ELSE <<c>>
FoldStr(lo, s) == FoldLeft(LAMBDA acc, c : acc \o FoldC(lo, c), <<>>, s)

\* token = [t, k, v, line]: t in STR NL OPEN CLOSE FLAG EQ COMMA PAREN DIR EOF ERR; k = error
\* kind for ERR; line = Tokenizer.line_num after the token was produced.
Tok(t, v, line) == [t |-> t, k |-> "", v |-> v, line |-> line]
LexInit == [m |-> "top", buf |-> <<>>, toks |-> <<>>, line |-> 1, cr |-> FALSE, scr |-> FALSE]
LEmit(s, t, v) == [s EXCEPT !.toks = Append(@, Tok(t, v, s.line)), !.m = "top", !.buf = <<>>]
LFail(s, kind, v) == [s EXCEPT !.toks = Append(@, [t |-> "ERR", k |-> kind, v |-> v, line |-> s.line]),
                               !.m = "halt", !.buf = <<>>]

\* Tokenizer._get_token, outside any multi-character token
TopChar(s, c) ==
    IF c = LBRC THEN LEmit(s, "OPEN", <<>>)            \* operators return before the CR bookkeeping
    ELSE IF c = RBRC THEN LEmit(s, "CLOSE", <<>>)
    ELSE IF c = EQS THEN LEmit(s, "EQ", <<>>)
    ELSE IF c = COMMA THEN LEmit(s, "COMMA", <<>>)
    ELSE IF c = CR THEN LEmit([s EXCEPT !.cr = TRUE, !.line = @ + 1], "NL", <<>>)
    ELSE IF c = LF THEN
        IF s.cr THEN [s EXCEPT !.cr = FALSE]           \* the LF of CR LF
        ELSE LEmit([s EXCEPT !.line = @ + 1], "NL", <<>>)
    ELSE LET r == [s EXCEPT !.cr = FALSE] IN
        IF c = SP \/ c = TAB THEN r
        ELSE IF c = SLASH THEN [r EXCEPT !.m = "slash"]
        ELSE IF c = DQ THEN [r EXCEPT !.m = "str", !.buf = <<>>, !.scr = FALSE]
        ELSE IF c = LBRK THEN [r EXCEPT !.m = "flag", !.buf = <<>>]
        ELSE IF c = LPAR THEN [r EXCEPT !.m = "paren", !.buf = <<>>]
        ELSE IF c = BOM /\ r.line = 1 THEN r
        ELSE IF c = RBRK THEN LFail(r, "close_bracket", <<>>)
        ELSE IF c = RPAR THEN LFail(r, "close_paren", <<>>)
        ELSE IF c = HASH THEN [r EXCEPT !.m = "dir", !.buf = <<>>]
        ELSE IF c \notin BareDisallowed THEN [r EXCEPT !.m = "bare", !.buf = <<c>>]
        ELSE LFail(r, "unexpected_char", <<c>>)

\* Tokenizer._handle_string
StrChar(s, c, lo) ==
    IF c = DQ THEN LEmit(s, "STR", s.buf)
    ELSE IF c = CR THEN [s EXCEPT !.line = @ + 1, !.scr = TRUE, !.buf = Append(@, LF)]
    ELSE IF c = LF /\ s.scr THEN [s EXCEPT !.scr = FALSE]
    ELSE LET r == [s EXCEPT !.scr = FALSE, !.line = IF c = LF THEN @ + 1 ELSE @] IN
        IF c = BS /\ lo.esc THEN [r EXCEPT !.m = "esc"]
        ELSE [r EXCEPT !.buf = Append(@, c)]
EscModeChar(s, c) ==
    IF c = LF THEN [s EXCEPT !.m = "str"]               \* backslash at the end of a line: both vanish
    ELSE IF Unesc(c) >= 0 THEN [s EXCEPT !.m = "str", !.buf = Append(@, Unesc(c))]
    ELSE [s EXCEPT !.m = "str", !.buf = @ \o <<BS, c>>]  \* unknown escape kept as written

LexChar(s, c, lo) ==
    CASE s.m = "halt" -> s
      [] s.m = "top" -> TopChar(s, c)
      [] s.m = "slash" ->                                \* Tokenizer._handle_comment
            IF c = STAR THEN LFail(s, "star_comment", <<>>)
            ELSE IF c = SLASH THEN [s EXCEPT !.m = "comment"]
            ELSE LFail(s, "single_slash", <<>>)
      [] s.m = "comment" -> IF c = LF THEN TopChar([s EXCEPT !.m = "top"], c) ELSE s
      [] s.m = "str" -> StrChar(s, c, lo)
      [] s.m = "esc" -> EscModeChar(s, c)
      [] s.m = "flag" ->
            IF c = RBRK THEN LEmit(s, "FLAG", s.buf)
            ELSE IF c = LF THEN LFail(s, "flag_newline", <<>>)
            ELSE IF c = LBRK THEN LFail(s, "flag_nest", <<>>)
            ELSE [s EXCEPT !.buf = Append(@, c)]
      [] s.m = "paren" ->
            IF c = RPAR THEN LEmit(s, "PAREN", s.buf)
            ELSE IF c = LPAR THEN LFail(s, "paren_nest", <<>>)
            ELSE [s EXCEPT !.buf = Append(@, c), !.line = IF c = LF THEN @ + 1 ELSE @]
      [] s.m = "dir" ->
            IF c \in BareDisallowed THEN TopChar(LEmit(s, "DIR", s.buf), c)
            ELSE [s EXCEPT !.buf = @ \o FoldC(lo, c)]
      [] s.m = "bare" ->
            IF c \in BareDisallowed THEN TopChar(LEmit(s, "STR", s.buf), c)
            ELSE [s EXCEPT !.buf = Append(@, c)]

LexEnd(s) ==
    CASE s.m = "halt" -> s
      [] s.m \in {"top", "comment"} -> LEmit(s, "EOF", <<>>)
      [] s.m = "slash" -> LFail(s, "single_slash", <<>>)
      [] s.m = "str" -> LFail(s, "unterminated_string", <<>>)
      [] s.m = "esc" -> LFail(s, "no_char_to_escape", <<>>)
      [] s.m = "flag" -> LFail(s, "flag_eof", <<>>)
      [] s.m = "paren" -> LFail(s, "paren_eof", <<>>)
      [] s.m = "dir" -> LEmit(LEmit(s, "DIR", s.buf), "EOF", <<>>)
      [] s.m = "bare" -> LEmit(LEmit(s, "STR", s.buf), "EOF", <<>>)

\* every token up to and including EOF, or up to and including the first error
Lex(text, lo) == LexEnd(FoldLeft(LAMBDA s, c : LexChar(s, c, lo), LexInit, text)).toks
DefaultLex == [esc |-> TRUE, fold |-> <<>>]
TokKinds(toks) == [i \in 1..Len(toks) |-> toks[i].t]

(* ---------------------------------------------------------------- parser -- *)
\* po = [flags |-> <<<<name, bool>>...>> (the flags argument), defaults |-> same shape
\*       (keyvalues.FLAGS_DEFAULT of the running platform), nk (newline_keys), nv (newline_values),
\*       sl (single_line), sb (single_block), lex |-> lexer options]
Lookup(tbl, nm) == IF \E i \in 1..Len(tbl) : tbl[i][1] = nm
                   THEN <<TRUE, tbl[CHOOSE i \in 1..Len(tbl) : tbl[i][1] = nm][2]>>
                   ELSE <<FALSE, FALSE>>
\* keyvalues._read_flag
ReadFlag(po, val) ==
    LET inv == Len(val) >= 1 /\ val[1] = BANG
        nm == FoldStr(po.lex, IF inv THEN Tail(val) ELSE val)
        usr == Lookup(po.flags, nm)
        res == IF usr[1] THEN usr[2] ELSE Lookup(po.defaults, nm)[2]
    IN  inv # res
HasNL(s) == \E i \in 1..Len(s) : s[i] = LF \/ s[i] = CR

NoNode == Block(<<>>, <<>>, 0)
NoRes == [ok |-> FALSE, err |-> "", arg |-> "", line |-> 0, root |-> FALSE, node |-> NoNode]
\* frame of the block stack: a block being filled; skip = it failed its [flag] and is dropped
RootFrame == [n |-> <<>>, line |-> 1, skip |-> FALSE, kids |-> <<>>]
PInit == [pos |-> 1, hi |-> 0, stack |-> <<RootFrame>>, bl |-> "none", cfr |-> FALSE,
          done |-> FALSE, res |-> NoRes, br |-> "init"]

Max2(a, b) == IF a > b THEN a ELSE b
Min2(a, b) == IF a < b THEN a ELSE b
\* tokenizer(): next token; EOF is produced for ever; hi = how far the text has been lexed
Pull(st, toks) == [tok |-> toks[Min2(st.pos, Len(toks))],
                   st |-> [st EXCEPT !.pos = @ + 1, !.hi = Max2(@, Min2(st.pos, Len(toks)))]]
PushBack(st) == [st EXCEPT !.pos = @ - 1]
\* Tokenizer.line_num now
LineOf(st, toks) == IF st.hi = 0 THEN 1 ELSE toks[st.hi].line
Depth(st) == Len(st.stack)
TopKids(st) == st.stack[Depth(st)].kids
SetTopKids(st, kids) == [st EXCEPT !.stack[Depth(st)].kids = kids]
LastKid(st) == TopKids(st)[Len(TopKids(st))]
AppendKid(st, nd) == SetTopKids(st, Append(TopKids(st), nd))
ReplaceLastKid(st, nd) == SetTopKids(st, [TopKids(st) EXCEPT ![Len(TopKids(st))] = nd])

Going(st, br) == [st EXCEPT !.br = br]
\* raise tokenizer.error(...): carries the line the tokenizer is at
Err(st, toks, kind, arg, br) ==
    [st EXCEPT !.done = TRUE, !.br = br,
               !.res = [NoRes EXCEPT !.err = kind, !.arg = arg, !.line = LineOf(st, toks)]]
\* raise KeyValError(..., line=None)
ErrNoLine(st, kind, br) == [st EXCEPT !.done = TRUE, !.br = br, !.res = [NoRes EXCEPT !.err = kind]]
\* an exception that is not a KeyValError escapes from parse()
Crash(st, kind, br) == [st EXCEPT !.done = TRUE, !.br = br, !.res = [NoRes EXCEPT !.err = "crash", !.arg = kind]]
Return(st, isroot, nd, br) ==
    [st EXCEPT !.done = TRUE, !.br = br,
               !.res = [ok |-> TRUE, err |-> "", arg |-> "", line |-> 0, root |-> isroot, node |-> nd]]
LexErr(st, toks, tok) == Err(st, toks, tok.k, "", "lex_error")

\* "if single_block and cur_block is root: return keyvalue"
AfterKeyvalue(st, po, nd, br) ==
    IF po.sb /\ Depth(st) = 1 THEN Return(st, FALSE, nd, "single_block_value") ELSE Going(st, br)

\* the STRING branch of the loop: st/tok = after the name was taken
StepString(s1, t1, toks, po) ==
    IF ~po.nk /\ HasNL(t1.v) THEN Err(s1, toks, "newline_key", "", "err_newline_key") ELSE
    LET kvline == LineOf(s1, toks)
        p2 == Pull(s1, toks)  t2 == p2.tok  s2 == p2.st
    IN
    IF t2.t = "ERR" THEN LexErr(s2, toks, t2)
    ELSE IF t2.t = "FLAG" THEN                       \* "name" [flag]: a block behind a flag
        LET p3 == Pull(s2, toks)  t3 == p3.tok  s3 == p3.st  nd == Block(t1.v, <<>>, kvline) IN
        IF t3.t = "ERR" THEN LexErr(s3, toks, t3)
        ELSE IF t3.t # "NL" THEN Err(s3, toks, "expected_newline", t3.t, "err_blockflag_no_newline")
        ELSE IF ReadFlag(po, t2.v) THEN
            IF s3.cfr /\ Len(TopKids(s3)) = 0 THEN Crash(s3, "IndexError", "crash_replace_empty")
            ELSE IF s3.cfr /\ LastKid(s3).n = t1.v /\ ~LastKid(s3).leaf
            THEN Going([ReplaceLastKid(s3, nd) EXCEPT !.bl = "expect", !.cfr = FALSE], "blockflag_replace")
            ELSE Going([AppendKid(s3, nd) EXCEPT !.bl = "expect", !.cfr = FALSE], "blockflag_append")
        ELSE Going([s3 EXCEPT !.bl = "skip"], "blockflag_off")
    ELSE IF t2.t = "STR" THEN                        \* "name" "value"
        IF ~po.nv /\ HasNL(t2.v) THEN Err(s2, toks, "newline_value", "", "err_newline_value") ELSE
        LET p3 == Pull(s2, toks)  t3 == p3.tok  s3 == p3.st  nd == Leaf(t1.v, t2.v, kvline) IN
        IF t3.t = "ERR" THEN LexErr(s3, toks, t3)
        ELSE IF t3.t = "FLAG" THEN
            LET p4 == Pull(s3, toks)  t4 == p4.tok  s4 == p4.st IN
            IF t4.t = "ERR" THEN LexErr(s4, toks, t4)
            ELSE IF t4.t # "NL" THEN Err(s4, toks, "expected_newline", t4.t, "err_kvflag_no_newline")
            ELSE IF ReadFlag(po, t3.v) THEN
                IF s4.cfr /\ Len(TopKids(s4)) = 0 THEN Crash(s4, "IndexError", "crash_replace_empty")
                ELSE IF s4.cfr /\ LastKid(s4).n = t1.v /\ LastKid(s4).leaf
                THEN AfterKeyvalue([ReplaceLastKid(s4, nd) EXCEPT !.cfr = FALSE], po, nd, "kvflag_replace")
                ELSE AfterKeyvalue([AppendKid(s4, nd) EXCEPT !.cfr = FALSE], po, nd, "kvflag_append")
            ELSE Going(s4, "kvflag_off")             \* dropped; can_flag_replace stays as it was
        ELSE IF t3.t = "STR" THEN
            IF po.sl THEN Going(PushBack(AppendKid(s3, nd)), "kv_single_line")
            ELSE Err(s3, toks, "multiple_names", "", "err_multiple_names")
        ELSE AfterKeyvalue(PushBack([AppendKid(s3, nd) EXCEPT !.cfr = TRUE]), po, nd, "kv_plain")
    ELSE                                             \* "name" alone: a block must follow
        Going(PushBack([AppendKid(s2, Block(t1.v, <<>>, kvline)) EXCEPT !.bl = "expect", !.cfr = FALSE]),
              "block_name")

\* one iteration of "for token_type, token_value in tokenizer" (plus the code after the loop)
Step(st, toks, po) ==
    LET p1 == Pull(st, toks)  t1 == p1.tok  s1 == p1.st IN
    IF t1.t = "ERR" THEN LexErr(s1, toks, t1)
    ELSE IF t1.t = "EOF" THEN
        IF s1.bl # "none" THEN ErrNoLine(s1, "eof_expect_block", "err_eof_expect_block")
        ELSE IF Depth(s1) > 1 THEN ErrNoLine(s1, "eof_open_blocks", "err_eof_open_blocks")
        ELSE Return(s1, TRUE, Block(<<>>, s1.stack[1].kids, 1), "eof_ok")
    ELSE IF t1.t = "OPEN" THEN
        IF s1.bl = "none" THEN Err(s1, toks, "open_without_name", "", "err_open_without_name")
        ELSE IF s1.bl = "skip" THEN
            Going([s1 EXCEPT !.stack = Append(@, [n |-> <<>>, line |-> 0, skip |-> TRUE, kids |-> <<>>]),
                             !.bl = "none", !.cfr = FALSE], "open_skipped")
        ELSE LET hd == LastKid(s1)                   \* the block whose name was just read
                 up == SetTopKids(s1, SubSeq(TopKids(s1), 1, Len(TopKids(s1)) - 1))
             IN  Going([up EXCEPT !.stack = Append(@, [n |-> hd.n, line |-> hd.line, skip |-> FALSE, kids |-> <<>>]),
                                  !.bl = "none", !.cfr = FALSE], "open_block")
    ELSE IF s1.bl # "none" /\ t1.t # "NL" THEN Err(s1, toks, "block_required", "", "err_block_required")
    ELSE IF t1.t = "NL" THEN Going(s1, "newline")
    ELSE IF t1.t = "STR" THEN StepString(s1, t1, toks, po)
    ELSE IF t1.t = "CLOSE" THEN
        IF Depth(s1) = 1 THEN Err([s1 EXCEPT !.stack = <<>>], toks, "too_many_close", "", "err_too_many_close")
        ELSE LET fr == s1.stack[Depth(s1)]
                 popped == [s1 EXCEPT !.stack = SubSeq(@, 1, Depth(s1) - 1)]
                 s2 == IF fr.skip THEN popped ELSE AppendKid(popped, Block(fr.n, fr.kids, fr.line))
             IN  IF po.sb /\ Depth(s2) = 1 THEN
                     IF Len(TopKids(s2)) = 0 THEN Crash(s2, "IndexError", "crash_single_block_skipped")
                     ELSE Return(s2, FALSE, TopKids(s2)[1], "single_block_close")
                 ELSE Going([s2 EXCEPT !.cfr = TRUE], IF fr.skip THEN "close_skipped" ELSE "close_block")
    ELSE Err(s1, toks, "unexpected_token", t1.t, "err_unexpected_token")

\* every Step consumes at least one token, EOF ends the loop: Len(toks) + 1 iterations suffice
Parse(toks, po) ==
    FoldLeft(LAMBDA st, i : IF st.done THEN st ELSE Step(st, toks, po),
             PInit, [i \in 1..(Len(toks) + 1) |-> i])
ParseText(text, po) == Parse(Lex(text, po.lex), po).res
DefaultParse == [flags |-> <<>>, defaults |-> <<>>, nk |-> FALSE, nv |-> TRUE, sl |-> FALSE, sb |-> FALSE,
                 lex |-> DefaultLex]

(* --------------------------------------------- documents as token symbols -- *)
SA == <<97>>   SB == <<98>>   SC == <<99>>   SUA == <<65>>
\* the flags of the platform are fixed in the model: win32 on, x360 off, user flag "u" on
SWin32 == <<119, 105, 110, 51, 50>>
SX360 == <<120, 51, 54, 48>>
SU == <<117>>
ModelDefaults == <<<<SWin32, TRUE>>, <<SX360, FALSE>>>>
ModelFlags == <<<<SU, TRUE>>>>
Q(s) == <<DQ>> \o s \o <<DQ>>
SymText(y) ==
    CASE y = "a"   -> Q(SA) \o <<SP>>
      [] y = "b"   -> SB \o <<SP>>                                  \* a bare word
      [] y = "A"   -> Q(SUA) \o <<SP>>
      [] y = "n"   -> Q(<<120, LF>>) \o <<SP>>                       \* a string with a line break inside
      [] y = "nl"  -> <<LF>>
      [] y = "{"   -> <<LBRC>>
      [] y = "}"   -> <<RBRC>>
      [] y = "on"  -> <<LBRK>> \o SWin32 \o <<RBRK>>
      [] y = "off" -> <<LBRK, BANG, 85, RBRK>>                       \* [!U]: folded, user flag, inverted
      [] y = "="   -> <<EQS>>
      [] y = "("   -> <<LPAR, 120, RPAR>>                            \* (x): a token the loop refuses
      [] y = "#"   -> <<HASH, 68, SP>>                               \* #D: a directive, folded
      [] y = ","   -> <<COMMA>>
      [] y = "]"   -> <<RBRK, SP>>                                   \* the tokenizer refuses it
SymKind(y) == CASE y \in {"a", "b", "A", "n"} -> "STR" [] y = "nl" -> "NL" [] y = "{" -> "OPEN"
                [] y = "}" -> "CLOSE" [] y \in {"on", "off"} -> "FLAG" [] y = "=" -> "EQ" [] y = "]" -> "ERR"
                [] y = "(" -> "PAREN" [] y = "#" -> "DIR" [] y = "," -> "COMMA"
Render(syms) == FoldLeft(LAMBDA acc, y : acc \o SymText(y), <<>>, syms)
\* kinds the lexer must produce: up to the first refused symbol, else EOF at the end
RenderKinds(syms) ==
    LET bad == SelectInSeq(syms, LAMBDA y : y = "]") IN
    IF bad = 0 THEN [i \in 1..Len(syms) |-> SymKind(syms[i])] \o <<"EOF">>
    ELSE [i \in 1..bad |-> SymKind(syms[i])]


\* every branch label Step can produce (vacuity checks count them)
Branches == {"lex_error", "err_newline_key", "err_blockflag_no_newline", "crash_replace_empty",
             "blockflag_replace", "blockflag_append", "blockflag_off", "err_newline_value",
             "err_kvflag_no_newline", "kvflag_replace", "kvflag_append", "kvflag_off",
             "kv_single_line", "err_multiple_names", "kv_plain", "single_block_value", "block_name",
             "err_eof_expect_block", "err_eof_open_blocks", "eof_ok", "err_open_without_name",
             "open_skipped", "open_block", "err_block_required", "newline", "err_too_many_close",
             "crash_single_block_skipped", "single_block_close", "close_skipped", "close_block",
             "err_unexpected_token"}
=============================================================================
