SPECIFICATION Spec
CONSTANTS
  Spellings <- SpellingsDef
  Vals = {"1", "2"}
INVARIANT IndexesDistinct
INVARIANT SetThenGet
INVARIANT DelThenGone
INVARIANT ExportSorted
PROPERTY FirstSpellingKept
VIEW View
CHECK_DEADLOCK FALSE
