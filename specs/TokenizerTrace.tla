---------------------------- MODULE TokenizerTrace ----------------------------
(* Validates records logged from the real pure-Python srctools tokenizer         *)
(* against TokenizerOps / CursorOps.  One record per state; a disagreement       *)
(* prints one MISMATCH line and is never fatal.                                  *)
(*                                                                               *)
(*  k = "lex"    one text x option set, tokenized in several delivery forms (one  *)
(*               str, lines, every cut into chunks, with empty chunks, through a  *)
(*               generator, through a file object).  outs lists the DISTINCT      *)
(*               observations with the forms that produced each.                  *)
(*  k = "steps"  the _next_char calls of one run (only their number is judged).   *)
(*  k = "cursor" a sequence of _next_char calls / index rewinds driven by the       *)
(*               harness along a path of the Cursor model: character delivered.   *)
(*  k = "kv"     Keyvalues.parse on the text in several delivery forms.            *)
(*  k = "long"   a unit repeated thousands of times: digests of the observations.   *)
(*  k = "calls"  a script of caller operations (call, peek, push_back, expect) on   *)
(*               one tokenizer per delivery form, with the result of each.         *)
EXTENDS TokenizerRec, TLC, Json, IOUtils

Recs == ndJsonDeserialize(IOEnv.TRACE_FILE)
N == Len(Recs)
VARIABLE i

Bad(c, e) == [ok |-> FALSE, clause |-> c, exp |-> e]
Good == [ok |-> TRUE, clause |-> "", exp |-> 0]

(* ---- lex ------------------------------------------------------------------------ *)
\* "nothing but TokenSyntaxError": an observation either has no exception or the typed syntax error
\* of the class the tokenizer was told to use (no other exception, no run-away: the harness turns a
\* run that exceeds LinearBound cursor reads into an exception of its own)
TotalOK(out, etype) == \/ out.err.id = "none" /\ out.etype = ""
                       \/ out.err.id = "error" /\ out.etype = etype
\* ends with EOF for ever (three EOFs logged), or with the error
EndsOK(out) == IF out.err.id = "none"
               THEN /\ Len(out.toks) >= 3
                    /\ \A k \in (Len(out.toks) - 2)..Len(out.toks) : out.toks[k].t = "EOF"
                    /\ \A k \in 1..(Len(out.toks) - 3) : out.toks[k].t # "EOF"
               ELSE \A k \in 1..Len(out.toks) : out.toks[k].t # "EOF"
\* outs lists the DISTINCT observations (tokens, values, line numbers, and for an error its type,
\* message, file and line): chunk independence = there is exactly one
LexRec(r) ==
    LET exp == Expected(r.text, CfOf(r)) IN
    \* the property, judged on the observations alone
    IF \E k \in 1..Len(r.outs) : ~TotalOK(r.outs[k], r.etype)
        THEN Bad("lex.total", [forms |-> r.outs[CHOOSE k \in 1..Len(r.outs) : ~TotalOK(r.outs[k], r.etype)].forms])
    ELSE IF \E k \in 1..Len(r.outs) : ~EndsOK(r.outs[k])
        THEN Bad("lex.ends", [forms |-> r.outs[CHOOSE k \in 1..Len(r.outs) : ~EndsOK(r.outs[k])].forms])
    ELSE IF Len(r.outs) # 1
        THEN Bad("lex.chunking", [forms |-> IF \E k \in 1..Len(r.outs) : ~Agrees(r.outs[k], exp, r.etype)
                                            THEN r.outs[CHOOSE k \in 1..Len(r.outs) : ~Agrees(r.outs[k], exp, r.etype)].forms
                                            ELSE r.outs[2].forms, exp |-> exp])
    ELSE IF r.outs[1].n > LinearBound(Len(r.text)) THEN Bad("lex.linear", LinearBound(Len(r.text)))
    \* diag.*: comparison with the specified lexer (which texts are errors, the token stream with its
    \* line numbers).  The statement only fixes these relative to the other delivery forms, so a
    \* difference here is counted in the evidence and never makes a violation.
    ELSE IF ~FoldTableOK(r.fold) THEN Bad("record.shape", 0)
    ELSE IF r.outs[1].err.id # exp.errk THEN Bad("diag.lex.error", exp)
    ELSE IF r.outs[1].toks # exp.toks THEN Bad("diag.lex.tokens", exp)
    ELSE IF ~Agrees(r.outs[1], exp, r.etype) THEN Bad("diag.lex.type", exp)
    ELSE Good

(* ---- steps ---------------------------------------------------------------------- *)
\* the cursor reads of one run: only their number is the property's business (linear)
StepsRec(r) ==
    IF Len(r.ev) > LinearBound(Len(r.text)) THEN Bad("steps.linear", LinearBound(Len(r.text)))
    ELSE Good

(* ---- cursor ----------------------------------------------------------------------- *)
\* The harness itself drives the cursor (next / rewind by one) along a path of the Cursor model, so
\* it knows the flat position a of every read: whatever the chunking, the character delivered must
\* be the one at that position of the flat text.  (The cursor's own bookkeeping - which chunk is
\* current, the index in it - is the implementation's business and is not compared.)
RECURSIVE CursorFrom(_, _, _, _)
CursorFrom(ops, j, a, flat) ==
    IF j > Len(ops) THEN [j |-> 0, exp |-> 0, why |-> ""]
    ELSE LET op == ops[j] IN
        IF op.op = "next" THEN
            IF op.res # CharAt(flat, a + 1) THEN [j |-> j, exp |-> CharAt(flat, a + 1), why |-> "cursor.flat"]
            ELSE CursorFrom(ops, j + 1, a + 1, flat)
        ELSE IF op.op = "rewind" THEN CursorFrom(ops, j + 1, a - 1, flat)
        ELSE [j |-> j, exp |-> 0, why |-> "cursor.op"]
CursorRec(r) ==
    LET v == CursorFrom(r.ops, 1, 0, r.text)
    IN  IF ~r.str /\ Concat(r.chunks, 1) # r.text THEN Bad("record.shape", 0)
        ELSE IF v.j # 0 THEN Bad(v.why, [j |-> v.j, exp |-> v.exp])
        ELSE Good

(* ---- Keyvalues.parse ---------------------------------------------------------------- *)
KvTotal(out) == out.etype \in {"", "KeyValError"}
KvRec(r) ==
    LET L == Lex(r.text, CfOf(r)) IN
    IF \E k \in 1..Len(r.outs) : ~KvTotal(r.outs[k])
        THEN Bad("kv.total", [forms |-> r.outs[CHOOSE k \in 1..Len(r.outs) : ~KvTotal(r.outs[k])].forms])
    ELSE IF Len(r.outs) # 1 THEN Bad("kv.chunking", [forms |-> r.outs[2].forms])
    \* the parser reads the whole token stream of the lexer: it cannot succeed on a text the
    \* specification says does not lex
    ELSE IF r.outs[1].etype = "" /\ ~r.popts.single_block /\ L.err # NoErrL THEN Bad("diag.kv.lexok", L.err)
    ELSE Good

(* ---- caller operations -------------------------------------------------------------- *)
\* The law of the caller API, judged WITHOUT the lexer model: the source token stream is the one
\* observed in a plain run of the same text (r.src).  Whatever the script of calls, the tokens
\* delivered must be the push-back stack (last in, first out) in front of that source; peek is
\* call + push_back; expect / skipping_newlines / block drop NEWLINEs from that same merged stream.
\* Token types and values are compared (line numbers only between delivery forms).
SrcOf(p) == [toks |-> IF p.err.id = "none" THEN SubSeq(p.toks, 1, Len(p.toks) - 2) ELSE p.toks,
             err |-> IF p.err.id = "none" THEN NoErrL ELSE [id |-> "error", arg |-> 0, l |-> p.err.l]]
One(c) == [s |-> c.s, out |-> <<c.res>>, err |-> c.err]
RECURSIVE CallsFrom(_, _, _, _, _)
CallsFrom(L, script, j, s, acc) ==
    IF j > Len(script) THEN [res |-> acc, err |-> NoErrL]
    ELSE LET op == script[j]
             c == CASE op.op = "call" -> One(Call(L, s))
                    [] op.op = "peek" -> One(Peek(L, s))
                    [] op.op = "push" -> One(PushBack(s, op.t, op.v))
                    [] op.op = "expect" -> One(ExpectFrom(L, s, op.t, op.skip))
                    [] op.op = "skipnl" -> SkipNlFrom(L, s, op.n, <<>>)
                    [] op.op = "block" -> BlockFrom(L, s, op.n, op.brace)
         IN  IF c.err # NoErrL THEN [res |-> acc \o (IF op.op \in {"skipnl", "block"} THEN c.out ELSE <<>>), err |-> c.err]
             ELSE CallsFrom(L, script, j + 1, c.s, acc \o c.out)
SrcShapeOK(p) == p.err.id # "none" \/ (Len(p.toks) >= 3 /\ p.toks[Len(p.toks) - 2].t = "EOF")
CallsRec(r) ==
    LET L == SrcOf(r.src)
        exp == CallsFrom(L, r.script, 1, CallInit, <<>>)
        want == [res |-> TV(exp.res), errk |-> ErrKind(exp.err)]
    IN  IF \E k \in 1..Len(r.outs) : r.outs[k].etype \notin {"", r.etype}
            THEN Bad("calls.total", [forms |-> r.outs[CHOOSE k \in 1..Len(r.outs) : r.outs[k].etype \notin {"", r.etype}].forms])
        ELSE IF Len(r.outs) # 1 THEN Bad("calls.chunking", [forms |-> r.outs[2].forms])
        ELSE IF ~SrcShapeOK(r.src) THEN Good                     \* the plain run itself is judged by the lex records
        ELSE IF r.outs[1].err.id # want.errk THEN Bad("calls.error", want)
        ELSE IF TV(r.outs[1].res) # want.res THEN Bad("calls.results", want)
        \* the same script on an IterTokenizer fed with the observed source tokens
        ELSE IF r.iter.used /\ r.iter.etype \notin {"", r.etype} THEN Bad("calls.iter.total", want)
        ELSE IF r.iter.used /\ (r.iter.err.id # want.errk \/ TV(r.iter.res) # want.res) THEN Bad("calls.iter.results", want)
        ELSE Good

(* ---- long repetitive inputs --------------------------------------------------------- *)
\* pre unit^rep suf under three delivery forms; each observation is logged as a digest (exception
\* type, cursor reads, token count, hash and tail of the token list).  Totality (a time-out of the
\* harness' wall-clock bound arrives as an exception of its own), linear reads, one observation.
LongRec(r) ==
    IF \E k \in 1..Len(r.outs) : ~TotalOK(r.outs[k], r.etype)
        THEN Bad("lex.total", [forms |-> r.outs[CHOOSE k \in 1..Len(r.outs) : ~TotalOK(r.outs[k], r.etype)].forms])
    ELSE IF \E k \in 1..Len(r.outs) : r.outs[k].n > LinearBound(r.nchars) THEN Bad("lex.linear", LinearBound(r.nchars))
    ELSE IF Len(r.outs) # 1 THEN Bad("lex.chunking", [forms |-> r.outs[2].forms])
    ELSE Good

Verdict(r) == CASE r.k = "lex" -> LexRec(r)
                [] r.k = "long" -> LongRec(r)
                [] r.k = "calls" -> CallsRec(r)
                [] r.k = "steps" -> StepsRec(r)
                [] r.k = "cursor" -> CursorRec(r)
                [] r.k = "kv" -> KvRec(r)

Init == i = 0
Next == i < N /\ i' = i + 1
Checked == i = 0 \/ LET v == Verdict(Recs[i]) IN
              v.ok \/ PrintT(ToJson([tag |-> "MISMATCH", i |-> i, clause |-> v.clause, exp |-> v.exp]))
AllConsumed == TLCGet("stats").diameter = N + 1
=============================================================================
