---------------------------- MODULE TokenizerTrace ----------------------------
(* Validates records logged from the real pure-Python srctools tokenizer         *)
(* against TokenizerOps / CursorOps.  One record per state; a disagreement       *)
(* prints one MISMATCH line and is never fatal.                                  *)
(*                                                                               *)
(*  k = "lex"    one text x option set, tokenized in several delivery forms (one  *)
(*               str, lines, every cut into chunks, with empty chunks, through a  *)
(*               generator, through a file object).  outs lists the DISTINCT      *)
(*               observations with the forms that produced each.                  *)
(*  k = "steps"  the _next_char calls of one run: character returned, line_num,   *)
(*               _last_was_cr and number of tokens returned when the call was     *)
(*               made; edge = the model transition this run was generated for.    *)
(*  k = "cursor" a sequence of _next_char calls / index rewinds on a chunked       *)
(*               cursor with the observable cursor state after each.              *)
(*  k = "kv"     Keyvalues.parse on the text in several delivery forms.            *)
(*  k = "calls"  a script of caller operations (call, peek, push_back, expect) on   *)
(*               one tokenizer per delivery form, with the result of each.         *)
EXTENDS TokenizerRec, TLC, Json, IOUtils

Recs == ndJsonDeserialize(IOEnv.TRACE_FILE)
N == Len(Recs)
VARIABLE i

Bad(c, e) == [ok |-> FALSE, clause |-> c, exp |-> e]
Good == [ok |-> TRUE, clause |-> "", exp |-> 0]

(* ---- lex ------------------------------------------------------------------------ *)
\* "nothing but TokenSyntaxError": an observation either has no exception or one of exactly the
\* type the tokenizer was told to use, with a message of the error alphabet
TotalOK(out, etype) == \/ out.err.id = "none" /\ out.etype = ""
                       \/ out.err.id \in ErrIds /\ out.etype = etype
\* ends with EOF for ever (three EOFs logged), or with the error
EndsOK(out) == IF out.err.id = "none"
               THEN /\ Len(out.toks) >= 3
                    /\ \A k \in (Len(out.toks) - 2)..Len(out.toks) : out.toks[k].t = "EOF"
                    /\ \A k \in 1..(Len(out.toks) - 3) : out.toks[k].t # "EOF"
               ELSE \A k \in 1..Len(out.toks) : out.toks[k].t # "EOF"
LexRec(r) ==
    LET exp == Expected(r.text, CfOf(r)) IN
    \* the property, judged on the observations alone
    IF \E k \in 1..Len(r.outs) : ~TotalOK(r.outs[k], r.etype)
        THEN Bad("lex.total", [forms |-> r.outs[CHOOSE k \in 1..Len(r.outs) : ~TotalOK(r.outs[k], r.etype)].forms])
    ELSE IF \E k \in 1..Len(r.outs) : ~EndsOK(r.outs[k])
        THEN Bad("lex.ends", [forms |-> r.outs[CHOOSE k \in 1..Len(r.outs) : ~EndsOK(r.outs[k])].forms])
    ELSE IF Len(r.outs) # 1
        THEN Bad("lex.chunking", [forms |-> IF \E k \in 1..Len(r.outs) : ~Agrees(r.outs[k], exp, r.etype)
                                            THEN r.outs[CHOOSE k \in 1..Len(r.outs) : ~Agrees(r.outs[k], exp, r.etype)].forms
                                            ELSE r.outs[2].forms, exp |-> exp])
    \* linear: at most 2 (n + 1) cursor reads up to the first EOF / the error
    ELSE IF r.outs[1].n > 2 * (Len(r.text) + 1) THEN Bad("lex.linear", 2 * (Len(r.text) + 1))
    \* the code is the specified lexer
    ELSE IF ~FoldTableOK(r.fold) THEN Bad("record.shape", 0)
    ELSE IF r.outs[1].err # exp.err THEN Bad("lex.error", exp)
    ELSE IF r.outs[1].toks # exp.toks THEN Bad("lex.tokens", exp)
    ELSE IF ~Agrees(r.outs[1], exp, r.etype) THEN Bad("lex.type", exp)
    ELSE IF r.outs[1].n # exp.n THEN Bad("lex.reads", exp.n)
    ELSE Good

(* ---- steps ---------------------------------------------------------------------- *)
EvProj(ev) == [k \in 1..Len(ev) |-> <<ev[k].c, ev[k].l, IF ev[k].cr THEN 1 ELSE 0, ev[k].nt>>]
StepsRec(r) ==
    LET ev == Events(r.text, CfOf(r)) IN
    \* the property: at most 2 * (length + 1) characters are delivered up to the first EOF / the error
    IF Len(r.ev) > 2 * (Len(r.text) + 1) THEN Bad("steps.linear", 2 * (Len(r.text) + 1))
    ELSE IF r.ev # EvProj(ev) THEN Bad("steps.events", EvProj(ev))
    \* the run really takes the model transition it was generated for
    ELSE IF r.edge.k # 0 /\ ~(r.edge.k <= Len(ev) /\ ev[r.edge.k].m = r.edge.m /\ ev[r.edge.k].c = r.edge.c)
        THEN Bad("steps.edge", IF r.edge.k <= Len(ev) THEN ev[r.edge.k] ELSE 0)
    ELSE Good

(* ---- cursor ----------------------------------------------------------------------- *)
\* replay ops from cursor state cs / flat position a; returns 0 if all agree, else the index of
\* the first op that does not and what was expected there
RECURSIVE CursorFrom(_, _, _, _, _)
CursorFrom(ops, j, cs, a, flat) ==
    IF j > Len(ops) THEN [j |-> 0, exp |-> 0, why |-> ""]
    ELSE LET op == ops[j] IN
        IF op.op = "next" THEN
            LET d == CNext(cs)
                want == [op |-> "next", res |-> d.res, it |-> d.s.it, idx |-> d.s.idx, cur |-> d.s.cur]
            IN  IF op # want THEN [j |-> j, exp |-> want, why |-> "cursor.next"]
                ELSE IF d.res # CharAt(flat, a + 1) THEN [j |-> j, exp |-> CharAt(flat, a + 1), why |-> "cursor.flat"]
                ELSE CursorFrom(ops, j + 1, d.s, a + 1, flat)
        ELSE IF op.op = "rewind" THEN
            LET s2 == CRewind(cs)
                want == [op |-> "rewind", res |-> 0, it |-> s2.it, idx |-> s2.idx, cur |-> s2.cur]
            IN  IF op # want THEN [j |-> j, exp |-> want, why |-> "cursor.rewind"]
                ELSE CursorFrom(ops, j + 1, s2, a - 1, flat)
        ELSE [j |-> j, exp |-> 0, why |-> "cursor.op"]
CursorRec(r) ==
    LET c0 == IF r.str THEN CStr(r.text) ELSE CIter(r.chunks)
        v == CursorFrom(r.ops, 1, c0, 0, r.text)
    IN  IF ~r.str /\ Concat(r.chunks, 1) # r.text THEN Bad("record.shape", 0)
        ELSE IF v.j # 0 THEN Bad(v.why, [j |-> v.j, exp |-> v.exp])
        ELSE Good

(* ---- Keyvalues.parse ---------------------------------------------------------------- *)
KvTotal(out) == out.etype \in {"", "KeyValError"}
KvRec(r) ==
    LET L == Lex(r.text, CfOf(r)) IN
    IF \E k \in 1..Len(r.outs) : ~KvTotal(r.outs[k])
        THEN Bad("kv.total", [forms |-> r.outs[CHOOSE k \in 1..Len(r.outs) : ~KvTotal(r.outs[k])].forms])
    ELSE IF Len(r.outs) # 1 THEN Bad("kv.chunking", [forms |-> r.outs[2].forms])
    \* the parser reads the token stream of the specified lexer: a lexer error it reports is the
    \* first one of that stream, and it cannot succeed past one
    ELSE IF r.outs[1].err.id \in ErrIds /\ r.outs[1].err # L.err THEN Bad("kv.lexerror", L.err)
    ELSE IF r.outs[1].etype = "" /\ ~r.popts.single_block /\ L.err # NoErrL THEN Bad("kv.lexok", L.err)
    ELSE Good

(* ---- caller operations -------------------------------------------------------------- *)
RECURSIVE CallsFrom(_, _, _, _, _)
CallsFrom(L, script, j, s, acc) ==
    IF j > Len(script) THEN [res |-> acc, err |-> NoErrL]
    ELSE LET op == script[j]
             c == CASE op.op = "call" -> Call(L, s)
                    [] op.op = "peek" -> Peek(L, s)
                    [] op.op = "push" -> PushBack(s, op.t, op.v)
                    [] op.op = "expect" -> ExpectFrom(L, s, op.t, op.skip)
         IN  IF c.err # NoErrL THEN [res |-> acc, err |-> c.err]
             ELSE CallsFrom(L, script, j + 1, c.s, Append(acc, [t |-> c.res.t, v |-> c.res.v, l |-> c.s.l]))
CallsRec(r) ==
    LET L == Lex(r.text, CfOf(r))
        exp == CallsFrom(L, r.script, 1, CallInit, <<>>)
    IN  IF \E k \in 1..Len(r.outs) : r.outs[k].etype \notin {"", r.etype}
            THEN Bad("calls.total", [forms |-> r.outs[CHOOSE k \in 1..Len(r.outs) : r.outs[k].etype \notin {"", r.etype}].forms])
        ELSE IF Len(r.outs) # 1 THEN Bad("calls.chunking", [forms |-> r.outs[2].forms, exp |-> exp])
        ELSE IF r.outs[1].err # exp.err THEN Bad("calls.error", exp)
        ELSE IF r.outs[1].res # exp.res THEN Bad("calls.results", exp)
        ELSE Good

Verdict(r) == CASE r.k = "lex" -> LexRec(r)
                [] r.k = "calls" -> CallsRec(r)
                [] r.k = "steps" -> StepsRec(r)
                [] r.k = "cursor" -> CursorRec(r)
                [] r.k = "kv" -> KvRec(r)

Init == i = 0
Next == i < N /\ i' = i + 1
Checked == i = 0 \/ LET v == Verdict(Recs[i]) IN
              v.ok \/ PrintT(ToJson([tag |-> "MISMATCH", i |-> i, clause |-> v.clause, exp |-> v.exp]))
AllConsumed == TLCGet("stats").diameter = N + 1
=============================================================================
