INIT DiagInit
NEXT DiagNext
CONSTANTS
  MaxAcc = 0
  TrackAcc = FALSE
  MaxSaves = 0
CHECK_DEADLOCK FALSE
