SPECIFICATION Spec
CONSTANTS
  MaxLen = 4
  Alphabet = {"..", ".", "", "sub", "in.txt", "rootx", "root", "B", "A"}
  Base <- BaseMC
  Pres = {"rel"}
  Kinds = {"fwd"}
  RootForms = {"plain"}
  Chains = {TRUE, FALSE}
INVARIANT Safe
INVARIANT NormalForm
INVARIANT ClimbAgrees
INVARIANT ChainIsPrefixed
CHECK_DEADLOCK FALSE
