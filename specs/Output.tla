--------------------------------- MODULE Output ---------------------------------
(* One "job" per behaviour: an output value whose text form is written and read back.      *)
EXTENDS OutputOps, TLC, Json
CONSTANTS Texts, Insts
\* "Q" is a double quote and "B" a backslash: they must be escaped by the writer and come back
\* unchanged through the tokenizer
TextsDef == {<<>>, <<"t">>, <<"a", ",", "b">>, <<"a", "E">>, <<",">>, <<"Q">>, <<"B", "t">>}
InstsDef == {NoInst, <<"n">>, <<>>, <<"n", ";">>}
VARIABLES o, phase
vars == <<o, phase>>
Outs == [out : {<<"o">>, <<"@", "x", ";", "o">>}, instOut : Insts, target : Texts, inp : {<<"i">>, <<"@", "i">>, <<"i", ",">>},
         instIn : Insts, params : Texts, delay : {<<"0">>}, times : {<<"-", "1">>, <<"3">>}, comma : BOOLEAN]
Init == o \in Outs /\ phase = "new"
Write == phase = "new" /\ phase' = "written" /\ UNCHANGED o
Next == Write
Spec == Init /\ [][Next]_vars
\* the law: every representable output survives its own text form
Law == Representable(o) => RoundTrips(o)
\* and the parser never accepts a text with fewer than five fields
Emit == PrintT(ToJson([tag |-> "EDGE", s |-> o, a |-> [op |-> "write", rep |-> Representable(o),
                                                       key |-> Key(o), val |-> Value(o), parsed |-> Parse(Key(o), Value(o))],
                       t |-> o]))
=============================================================================
