---------------------------- MODULE FloatTextTrace ----------------------------
(* Validates texts produced by the real format_float / str(Vec) / str(Angle)    *)
(* against FloatTextOps.  The driver supplies each number exactly (sign,        *)
(* integer digits, fraction rounded half-even to `places` decimals with decimal *)
(* arithmetic on the exact value of the double; `alt` is the other candidate    *)
(* when the double lies exactly between two decimals).  TLC judges the text.    *)
EXTENDS FloatTextOps, TLC, Json, IOUtils

Recs == ndJsonDeserialize(IOEnv.TRACE_FILE)
N == Len(Recs)
VARIABLE i

Num(j) == [neg |-> j.neg, ip |-> j.ip, frac |-> j.frac]
Normal(k) == [k EXCEPT !.neg = k.neg /\ ~IsZero(k)]
F(c, e) == [clause |-> c, exp |-> e]
If(b, c, e) == IF b THEN {F(c, e)} ELSE {}

\* the property's clauses for one number's text
NumFails(t, k, alt, places, pre) ==
    IF ~Plain(t, places) THEN {F(pre \o "plain", Canon(k, places))}
    ELSE If(NegZero(t, places), pre \o "negzero", Canon(k, places))
         \cup If(Parse(t, places) \notin {Normal(k), Normal(alt)}, pre \o "value", Canon(k, places))
         \cup If(t \notin {Canon(k, places), Canon(alt, places)}, pre \o "canon", Canon(k, places))

FmtFails(r) == NumFails(r.text, Num(r.num), Num(r.alt), r.places, "text.")

Str3Fails(r) ==
    LET parts == SplitAt(r.text, Space) IN
    IF Len(parts) # 3 THEN {F("str.shape", 3)}
    ELSE UNION {NumFails(parts[j], Num(r.nums[j]), Num(r.alts[j]), r.places, "text.") : j \in 1..3}
         \cup UNION {If(Normal(Num(r.back[j])) \notin {Normal(Num(r.nums[j])), Normal(Num(r.alts[j]))},
                        "text.parseback", Canon(Num(r.nums[j]), r.places)) : j \in 1..3}

Fails(r) == CASE r.k = "fmt" -> FmtFails(r)
              [] r.k = "str3" -> Str3Fails(r)

Init == i = 0
Next == i < N /\ i' = i + 1
Checked == i = 0 \/ \A f \in Fails(Recs[i]) :
              PrintT(ToJson([tag |-> "MISMATCH", i |-> i, clause |-> f.clause, exp |-> f.exp]))
AllConsumed == TLCGet("stats").diameter = N + 1
=============================================================================
