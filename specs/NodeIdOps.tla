------------------------------ MODULE NodeIdOps ------------------------------
(* Node IDs: the "nodeid" keyvalue of the entities of a map (AI navigation     *)
(* nodes).  Unlike entity/brush/face IDs they live in an ordinary keyvalue, so  *)
(* the protocol has more entry points: VMF.add_ent / add_ents / create_ent,     *)
(* VMF.remove_ent / Entity.remove, Entity.__setitem__ / __delitem__, copy().    *)
(* Ownership rule of the design: an entity owns (has reserved) its node ID      *)
(* exactly while it is in the map; outside the map the key is plain data.       *)
(*   st = [man |-> IDMan state, ents |-> [slot -> [w, key]]]                    *)
(*   w: "none" (no object), "out" (object exists, not in the map), "in"         *)
(*   key: an integer, NoKey (key absent) or NonNum (text that is no integer)    *)
EXTENDS IdAllocOps

NoKey == 0 - 100
NonNum == 0 - 99
IsNum(k) == k # NoKey /\ k # NonNum
NoEnt == [w |-> "none", key |-> NoKey]

Put(st, o, w, k) == [st.ents EXCEPT ![o] = [w |-> w, key |-> k]]
\* the entity claims its ID on entering the map: the wish if positive and free, else the lowest free
Claim(st, o) ==
    LET k == st.ents[o].key IN
    IF IsNum(k)
    THEN LET g == Get(st.man, k) IN [man |-> g.s, ents |-> Put(st, o, "in", g.res)]
    ELSE [man |-> st.man, ents |-> Put(st, o, "in", k)]
Release(man, k) == IF IsNum(k) THEN Discard(man, k).s ELSE man

\* Entity(vmf, keys=...) / ent.copy(): a new object outside the map
NConstruct(st, o, k) == [man |-> st.man, ents |-> Put(st, o, "out", k)]
\* vmf.add_ent(ent) / vmf.add_ents([...]) for an entity outside the map
NAdd(st, o) == Claim(st, o)
\* vmf.create_ent(nodeid=k)
NCreate(st, o, k) == Claim(NConstruct(st, o, k), o)
\* vmf.remove_ent(ent) / ent.remove(); a second removal changes nothing
NRemove(st, o) ==
    IF st.ents[o].w = "in"
    THEN [man |-> Release(st.man, st.ents[o].key), ents |-> Put(st, o, "out", st.ents[o].key)]
    ELSE st
\* ent['nodeid'] = k
NSet(st, o, k) ==
    IF st.ents[o].w = "in"
    THEN Claim([man |-> Release(st.man, st.ents[o].key), ents |-> Put(st, o, "in", k)], o)
    ELSE [man |-> st.man, ents |-> Put(st, o, "out", k)]
\* del ent['nodeid']
NDel(st, o) ==
    IF st.ents[o].w = "in"
    THEN [man |-> Release(st.man, st.ents[o].key), ents |-> Put(st, o, "in", NoKey)]
    ELSE [man |-> st.man, ents |-> Put(st, o, "out", NoKey)]
\* the last reference to an entity outside the map goes away
NDestroy(st, o) == [man |-> st.man, ents |-> [st.ents EXCEPT ![o] = NoEnt]]

InMap(st) == {o \in DOMAIN st.ents : st.ents[o].w = "in" /\ IsNum(st.ents[o].key)}
NUnique(st) == \A o, p \in InMap(st) : o # p => st.ents[o].key # st.ents[p].key
NPositive(st) == \A o \in InMap(st) : st.ents[o].key >= 1
NReserved(st) == \A o \in InMap(st) : st.ents[o].key \in st.man.used
NNoLeak(st) == st.man.used = {st.ents[o].key : o \in InMap(st)}
=============================================================================
