INIT DiagInit
NEXT DiagNext
CONSTANTS
  Items = {"x1", "x2", "x3"}
  MaxLen = 4
  MaxSub = 3
CHECK_DEADLOCK FALSE
