------------------------------ MODULE FgdDbSim ------------------------------
(* FgdDb over the block structure of the REAL bundled fgd.lzma: the harness    *)
(* reads blocks and stored base names from the file and hands them over as a   *)
(* JSON document (IOEnv.FGD_DB_FILE).  Used in simulation mode: TLC draws      *)
(* query orders, checks the design invariants along each of them on the real   *)
(* structure and prints every behaviour for the replayer.                      *)
EXTENDS FgdDb, IOUtils

RealDb == JsonDeserialize(IOEnv.FGD_DB_FILE)
RealDbs == <<RealDb>>
RealHot == {RealDb.hot[k] : k \in 1..Len(RealDb.hot)}
=============================================================================
