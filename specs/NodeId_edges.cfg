SPECIFICATION Spec
CONSTANTS
  Ent = {"e1", "e2", "e3"}
  MaxId = 3
INVARIANT Unique
INVARIANT Positive
INVARIANT Reserved
INVARIANT NoLeak
INVARIANT Hint
PROPERTY Stable
VIEW View
ACTION_CONSTRAINT Emit
CHECK_DEADLOCK FALSE
