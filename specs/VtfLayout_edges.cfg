SPECIFICATION Spec
INVARIANT TableSize
INVARIANT MipCount
INVARIANT Partition
INVARIANT Blocks
INVARIANT RoundTrip
INVARIANT Gate
INVARIANT Kept
INVARIANT ThumbKept
INVARIANT LazyUnobservable
INVARIANT Untouched
VIEW View
ACTION_CONSTRAINT Emit
CHECK_DEADLOCK FALSE
CONSTANTS
  Sizes = {1, 2, 4, 8}
  FrameCounts = {1, 2}
  Layers = {"d1", "d2", "cube"}
  Minors = {2, 3, 4, 5}
  Fmts = {"RGBA8888", "I8"}
  Lows = {"NONE", "BGRA8888"}
  ResKinds = {}
  MaxRes = 0
  Access = FALSE
  Fills = {"l0"}
  History = FALSE
  MaxOps = 0
  Thumbs = {"t16"}
