------------------------------ MODULE EscapeTrace ------------------------------
(* Validates records logged from the real srctools code (escape_text and the    *)
(* pure-Python Tokenizer) against EscapeOps / TokenizerOps.  One record per     *)
(* state; a disagreement prints one MISMATCH line and is never fatal.           *)
(*  k = "esc":   s, ml, e = escape_text(s, ml), o, fold, and the observed run of  *)
(*               the tokenizer on  " e "                                        *)
(*  k = "embed": pre, s, ml, e, suf, o, fold and the observed run on            *)
(*               pre " e " suf  (the string embedded in a larger text)           *)
(*  k = "line":  text written by a real writer with a string embedded in one      *)
(*               position, idx, s, ntoks: token idx must be STRING s and the     *)
(*               line must have ntoks tokens                                     *)
EXTENDS TokenizerRec, TLC, Json, IOUtils

Recs == ndJsonDeserialize(IOEnv.TRACE_FILE)
N == Len(Recs)
VARIABLE i

Bad(c, e) == [ok |-> FALSE, clause |-> c, exp |-> e]
Good == [ok |-> TRUE, clause |-> "", exp |-> 0]

IsString(tok, s) == tok.t = "STRING" /\ tok.v = s
AllEof(toks, from) == \A k \in from..Len(toks) : toks[k].t = "EOF"

EscRec(r) ==
    LET text == <<DQ>> \o r.e \o <<DQ>>
        exp == Expected(text, CfOf(r))
    IN  \* the property, judged on what the code itself produced
        IF ~(r.err.id = "none" /\ Len(r.toks) = 4 /\ IsString(r.toks[1], r.s) /\ AllEof(r.toks, 2))
            THEN Bad("inverse.tokens", [toks |-> <<[t |-> "STRING", v |-> r.s]>>])
        ELSE IF ~NoRawQuote(r.e) THEN Bad("escape.noquote", Escape(r.s, r.ml))
        ELSE IF ~r.ml /\ ~NoRawBreak(r.e) THEN Bad("escape.nobreak", Escape(r.s, r.ml))
        \* the specified string reader recovers s from the text the code wrote, closed by the appended
        \* quote only (how the code chooses to spell an escape is its own business)
        ELSE IF ~(LET u == Unquote(Append(r.e, DQ), TRUE) IN u.ok /\ u.v = r.s /\ u.used = Len(r.e) + 1)
            THEN Bad("diag.escape.modelread", Escape(r.s, r.ml))
        ELSE IF ~r.o.esc \/ ~FoldTableOK(r.fold) THEN Bad("record.shape", 0)
        ELSE IF ~AgreesTV(r, exp, "TokenSyntaxError") THEN Bad("diag.inverse.lex", exp)
        ELSE Good

EmbedRec(r) ==
    LET cf == CfOf(r)
        P == Lex(r.pre, cf)
        text == r.pre \o <<DQ>> \o r.e \o <<DQ>> \o r.suf
        exp == Expected(text, cf)
        k == Len(P.toks)          \* the prefix' own tokens, then (instead of its EOF) the string
    IN  IF ~(P.err = NoErrL /\ P.st.m = "Top" /\ r.o.esc /\ FoldTableOK(r.fold))
            THEN Bad("record.shape", 0)      \* the harness must embed at a token boundary
        ELSE IF ~(Len(r.toks) >= k /\ IsString(r.toks[k], r.s) /\ TV(SubSeq(r.toks, 1, k - 1)) = TV(SubSeq(P.toks, 1, k - 1)))
            THEN Bad("embed.token", [k |-> k, s |-> r.s])
        ELSE IF ~AgreesTV(r, exp, "TokenSyntaxError") THEN Bad("diag.embed.lex", exp)
        ELSE Good

\* r.s is the value the token at r.idx must have (the hostile string, or the composite value it is
\* a field of); r.ntoks is the number of tokens the same line has when written with a harmless
\* string: a raw quote inside the quoted run would end the token early and change both.
LineRec(r) ==
    LET exp == Expected(r.text, CfOf(r))
    IN  IF ~(r.err.id = "none" /\ Len(r.toks) >= r.idx /\ IsString(r.toks[r.idx], r.s))
            THEN Bad("line.token", [idx |-> r.idx, s |-> r.s])
        ELSE IF Len(r.toks) # r.ntoks THEN Bad("line.count", r.ntoks)
        ELSE IF ~AgreesTV(r, exp, "TokenSyntaxError") THEN Bad("diag.line.lex", exp)
        ELSE Good

Verdict(r) == CASE r.k = "esc" -> EscRec(r)
                [] r.k = "embed" -> EmbedRec(r)
                [] r.k = "line" -> LineRec(r)

Init == i = 0
Next == i < N /\ i' = i + 1
Checked == i = 0 \/ LET v == Verdict(Recs[i]) IN
              v.ok \/ PrintT(ToJson([tag |-> "MISMATCH", i |-> i, clause |-> v.clause, exp |-> v.exp]))
AllConsumed == TLCGet("stats").diameter = N + 1
=============================================================================
