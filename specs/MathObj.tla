-------------------------------- MODULE MathObj --------------------------------
(* C05: a program over NS reference slots performs any sequence of public        *)
(* operations of Vec / Angle / Matrix and their frozen twins.                    *)
(* Properties: every Angle component stays in [0, 360); no operation changes the *)
(* value seen through a reference to a frozen object; copy / freeze / thaw /     *)
(* text round trip give an equal value that shares no mutable object with its    *)
(* source.                                                                       *)
EXTENDS MathObjOps, TLC, Json

CONSTANTS NS,          \* number of slots used (1..NS of Slots)
          VecArgs, AngArgs, Scalars, SetVals, Hows,
          MaxLevel, VecBound

VARIABLES st, n, act
vars == <<st, n>>
S == 1..NS

ArgsOf(c) == IF Kind(c) = "V" THEN VecArgs ELSE AngArgs
Acts ==
    UNION {{[op |-> "new", s |-> s, c |-> c, v |-> v] : s \in S, v \in ArgsOf(c)} : c \in ObjCls}
    \cup {[op |-> "conv", s |-> s, t |-> t, c |-> c] : s \in S, t \in S, c \in ObjCls}
    \cup {[op |-> "set", t |-> t, i |-> i, v |-> v] : t \in S, i \in 1..3, v \in SetVals}
    \cup {[op |-> "mul", s |-> s, t |-> t, k |-> k] : s \in S, t \in S, k \in Scalars}
    \cup {[op |-> "imul", t |-> t, k |-> k] : t \in S, k \in Scalars}
    \cup {[op |-> "mm", s |-> s, t |-> t, u |-> u] : s \in S, t \in S, u \in S}
    \cup {[op |-> o, t |-> t, u |-> u] : o \in {"imm", "transform"}, t \in S, u \in S}
    \cup {[op |-> "to_angle", s |-> s, t |-> t] : s \in S, t \in S}
    \cup {[op |-> "from_angle", s |-> s, t |-> t, c |-> c] : s \in S, t \in S, c \in MatCls}
    \cup {[op |-> "from_basis", s |-> s, t |-> t, c |-> c] : s \in S, t \in S, c \in AngCls \cup MatCls}
    \cup {[op |-> "copy", s |-> s, t |-> t, how |-> h] : s \in S, t \in S, h \in Hows}
    \cup {[op |-> o, s |-> s, t |-> t] : o \in {"freeze", "thaw"}, s \in S, t \in S}
    \cup {[op |-> "str", s |-> s, t |-> t, c |-> c] : s \in S, t \in S, c \in {"Vec", "FrozenVec", "Angle", "FrozenAngle"}}

Small(s) == \A x \in S : Kind(s.cls[x]) = "V" => \A j \in 1..Len(s.val[x]) : s.val[x][j] <= VecBound /\ s.val[x][j] >= 0 - VecBound

Init == st = Empty /\ n = 0 /\ act = [op |-> "init"]
Do(a) == LET sh == Shape(st, a) IN
         /\ sh.ok /\ OnDomain(st, a)
         /\ st' = Apply(st, a) /\ Small(st')
         /\ act' = [a |-> a, sh |-> sh]
         /\ n' = n + 1
Next == n < MaxLevel /\ \E a \in Acts : Do(a)
Spec == Init /\ [][Next]_vars

(* ---- properties ------------------------------------------------------------------ *)
Range == AngleRange(st)
Coh == Coherent(st)
\* no reference to a frozen object ever sees its value change (the slot the operation rebinds excepted)
FrozenImmutable ==
    [][\A s \in S : (st.cls[s] \in Frozen /\ ~(act'.sh.exc = FALSE /\ act'.sh.kind = "assign" /\ act'.sh.tgt = s))
          => (st'.cls[s] = st.cls[s] /\ st'.val[s] = st.val[s])]_vars
\* in-place operations only ever touch mutable objects
MutatesMutable == [][(~act'.sh.exc /\ act'.sh.kind = "mutate") => st.cls[act'.sh.tgt] \in Mutable]_vars
\* copies, freezes, thaws and text round trips are equal to their source ...
CopyEqual == [][act'.a.op \in CopyLike => st'.val[act'.a.s] = st.val[act'.a.t]]_vars
\* ... and a fresh result shares its identity with no other reference
FreshIsolated ==
    [][(~act'.sh.exc /\ act'.sh.kind = "assign" /\ act'.sh.pick = "fresh")
          => \A s \in S : s # act'.sh.tgt => st'.id[s] # st'.id[act'.sh.tgt]]_vars
\* a result may share identity with its source only when the source is immutable
AliasOnlyFrozen == [][(~act'.sh.exc /\ act'.sh.kind = "assign" /\ act'.sh.pick = "alias") => st.cls[act'.sh.src] \in Frozen]_vars

Emit == PrintT(ToJson([tag |-> "EDGE", s |-> st, a |-> act'.a, t |-> st']))

View == st
Vecs1 == {<<1, 0, 0>>, <<0 - 2, 3, 5>>}
Angs1 == {<<0, 90, 0>>, <<0 - 90, 360, 450>>}
Vecs0 == {<<0, 0 - 2, 0>>}
Angs0 == {<<0 - 90, 360, 450>>}
AllHows == {"copy", "copymod", "deepcopy", "pickle"}
=============================================================================
