SPECIFICATION Spec
CONSTANTS
  Places = 3
  MaxIp = 12
INVARIANT NumOK
INVARIANT VecOK
CHECK_DEADLOCK FALSE
