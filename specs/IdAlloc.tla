-------------------------------- MODULE IdAlloc --------------------------------
(* C08: IDs handed out inside one VMF are unique per kind and never reused     *)
(* while live.  One kind of object (entities, brushes, faces, ... all use the  *)
(* same allocator), Maps maps, Obj object slots.  An object's ID is reserved   *)
(* from its construction until the object itself is destroyed: detaching it    *)
(* from the map (remove_ent) does not release the ID, so re-attaching is safe. *)
EXTENDS IdAllocOps, TLC, Json

CONSTANTS Obj, Maps, MaxId, WithObj, WithFix, InitMan

Desired == (0 - 1)..MaxId          \* -1 = "no preference"; 0 and duplicates included

VARIABLES st,     \* [man, objs] as in IdAllocOps
          fix,    \* one entity's fixup table: variable -> replaceNN index
          act     \* last action (hidden by VIEW, used to emit edges)

vars == <<st, fix>>
FixVars == {"a", "b", "c"}

Init == /\ st = [man |-> [m \in Maps |-> InitMan], objs |-> [o \in Obj |-> NoObj]]
        /\ fix = <<>>
        /\ act = [op |-> "init"]

Live(o) == st.objs[o].id # 0

Create(o, m, d) == /\ ~Live(o)
                   /\ st' = LCreate(st, o, m, d).s
                   /\ act' = [op |-> "create", o |-> o, m |-> m, d |-> d, res |-> LCreate(st, o, m, d).res]
\* copy(des_id, map): a new object in map m; like construction, the ID is only a wish.
Copy(o, p, m, d) == /\ Live(o) /\ ~Live(p)
                    /\ st' = LCreate(st, p, m, d).s
                    /\ act' = [op |-> "copy", o |-> o, p |-> p, m |-> m, d |-> d, res |-> LCreate(st, p, m, d).res]
Detach(o) == /\ Live(o) /\ st.objs[o].inmap
             /\ st' = LSetIn(st, o, FALSE).s
             /\ act' = [op |-> "detach", o |-> o]
Attach(o) == /\ Live(o) /\ ~st.objs[o].inmap
             /\ st' = LSetIn(st, o, TRUE).s
             /\ act' = [op |-> "attach", o |-> o]
Drop(o) == /\ Live(o)
           /\ st' = LDrop(st, o).s
           /\ act' = [op |-> "drop", o |-> o]

\* A construction that is rejected (bad arguments) after a wish was stated: no object comes into
\* being and nothing may be released - in particular not the wished ID, which a live object may own.
\* Only the interesting case is enumerated: the wish is an ID that is reserved in that map.
FailCreate(m, d) == /\ d \in st.man[m].used
                    /\ st' = st
                    /\ act' = [op |-> "failcreate", m |-> m, d |-> d]

SetFix(v) == fix' = FixSet(fix, v) /\ act' = [op |-> "fixset", v |-> v]
DelFix(v) == v \in DOMAIN fix /\ fix' = FixDel(fix, v) /\ act' = [op |-> "fixdel", v |-> v]

ObjNext == \/ \E o \in Obj, m \in Maps, d \in Desired : Create(o, m, d)
           \/ \E o, p \in Obj, m \in Maps, d \in {0 - 1, 1} : Copy(o, p, m, d)
           \/ \E o \in Obj : Detach(o) \/ Attach(o) \/ Drop(o)
           \/ \E m \in Maps, d \in 1..MaxId : FailCreate(m, d)
FixNext == \E v \in FixVars : SetFix(v) \/ DelFix(v)
Next == (WithObj /\ ObjNext /\ UNCHANGED fix) \/ (WithFix /\ FixNext /\ UNCHANGED st)

Spec == Init /\ [][Next]_vars

(* ---- the listed property ------------------------------------------------ *)
Unique == LUnique(st)
Positive == LPositive(st)
FixUnique == FixDistinct(fix) /\ \A v \in DOMAIN fix : fix[v] >= 1
(* ---- what makes it hold -------------------------------------------------- *)
Hint == \A m \in Maps : HintOK(st.man[m])
UsedIsLive == \A m \in Maps : st.man[m].used = {st.objs[o].id : o \in LiveIn(st, m)} \cup InitMan.used
\* a live object's ID never changes
Stable == [][\A o \in Obj : (Live(o) /\ st'.objs[o].id # 0) => st'.objs[o].id = st.objs[o].id]_vars
\* fixup indexes are dense enough: never above the number of variables
FixDense == \A v \in DOMAIN fix : fix[v] <= Cardinality(FixVars)

View == vars
Emit == PrintT(ToJson([tag |-> "EDGE", s |-> [st |-> st, fix |-> fix], a |-> act',
                       t |-> [st |-> st', fix |-> fix']]))
=============================================================================
