-------------------------------- MODULE NodeId --------------------------------
(* C08, node IDs: state machine over NodeIdOps, one action per public API call *)
(* of srctools.vmf that can touch the "nodeid" key or the map membership of an *)
(* entity.  Checked exhaustively by TLC; every transition is then executed on  *)
(* real VMF/Entity objects (harness/c08_driver.py nodeedges).                  *)
EXTENDS NodeIdOps, TLC, Json

CONSTANTS Ent, MaxId

Wish == ((0 - 1)..MaxId) \cup {NonNum}
VARIABLES st, act
vars == <<st>>

Init == /\ st = [man |-> IdInit, ents |-> [o \in Ent |-> NoEnt]]
        /\ act = [op |-> "init"]

W(o) == st.ents[o].w
Construct(o, k) == W(o) = "none" /\ st' = NConstruct(st, o, k) /\ act' = [op |-> "construct", o |-> o, k |-> k]
Create(o, k) == W(o) = "none" /\ st' = NCreate(st, o, k) /\ act' = [op |-> "create", o |-> o, k |-> k]
Copy(o, p) == W(o) # "none" /\ W(p) = "none" /\ st' = NConstruct(st, p, st.ents[o].key)
              /\ act' = [op |-> "copy", o |-> o, p |-> p]
Add(o) == W(o) = "out" /\ st' = NAdd(st, o) /\ act' = [op |-> "add", o |-> o]
Remove(o) == W(o) # "none" /\ st' = NRemove(st, o) /\ act' = [op |-> "remove", o |-> o]
Set(o, k) == W(o) # "none" /\ st' = NSet(st, o, k) /\ act' = [op |-> "set", o |-> o, k |-> k]
Del(o) == W(o) # "none" /\ st' = NDel(st, o) /\ act' = [op |-> "del", o |-> o]
Destroy(o) == W(o) = "out" /\ st' = NDestroy(st, o) /\ act' = [op |-> "destroy", o |-> o]

Next == \/ \E o \in Ent, k \in Wish \cup {NoKey} : Construct(o, k) \/ Create(o, k)
        \/ \E o, p \in Ent : Copy(o, p)
        \/ \E o \in Ent : Add(o) \/ Remove(o) \/ Del(o) \/ Destroy(o)
        \/ \E o \in Ent, k \in Wish : Set(o, k)
Spec == Init /\ [][Next]_vars

(* ---- the listed property ------------------------------------------------- *)
Unique == NUnique(st)
Positive == NPositive(st)
(* ---- what makes it hold --------------------------------------------------- *)
Reserved == NReserved(st)
NoLeak == NNoLeak(st)
Hint == HintOK(st.man)
\* the node ID of an entity that stays in the map only changes when it is assigned to
Stable == [][\A o \in Ent : (W(o) = "in" /\ st'.ents[o].w = "in" /\ IsNum(st.ents[o].key)
                              /\ ~(act'.op \in {"set", "del"} /\ act'.o = o))
                => st'.ents[o].key = st.ents[o].key]_vars

View == vars
Emit == PrintT(ToJson([tag |-> "EDGE", s |-> st, a |-> act', t |-> st']))
=============================================================================
