---------------------------- MODULE BspLazyTrace ----------------------------
(* Validates records of real read / access / save / re-read cycles of            *)
(* srctools.bsp.BSP against BspLazyOps (with the constants measured on the same   *)
(* file).  One record = one scenario on one file.  Three kinds of clauses:        *)
(*   access.* / save.*  the logged events are exactly the steps of the model      *)
(*                      (cache after the accesses; pops in rebuild order; every   *)
(*                      nested access a hit or a miss as the model says; what a   *)
(*                      writer touches is rebuilt later; cache after save())      *)
(*   conform.*          what the model predicts about the written file is what    *)
(*                      the re-read file shows                                    *)
(*   prop.*             the statement of C10 on the observed result               *)
(* Nothing is fatal: every failing clause prints one MISMATCH line.               *)
EXTENDS BspLazyOps

Recs == ndJsonDeserialize(IOEnv.TRACE_FILE)
N == Len(Recs)
VARIABLE i

M(c, item, field) == [clause |-> c, item |-> item, field |-> field]

(* ---- replay of the save() event log ----------------------------------------- *)
\* fold state: st, stack of open readers/writers, position of the last pop, mismatches
F0(st) == [st |-> st, stack |-> <<>>, last |-> 0, bad |-> {}]
Top(f) == f.stack[Len(f.stack)]
Drop(q) == SubSeq(q, 1, Len(q) - 1)

OnPop(f, v) ==
    LET j == NextCached(f.st, f.last + 1)
        okv == v \in Views /\ InOrder(v)
        bad1 == IF okv /\ j <= NOrd /\ Order[j] = v THEN {} ELSE {M("save.popOrder", v, IF j <= NOrd THEN Order[j] ELSE "")}
        bad2 == IF f.stack = <<>> THEN {} ELSE {M("save.nestedPop", v, "")}
    IN IF ~okv THEN [f EXCEPT !.bad = @ \cup bad1]
       ELSE [st |-> Pop(f.st, v), stack |-> <<[k |-> "w", v |-> v, val |-> f.st.cache[v]]>>,
             last |-> Pos(v), bad |-> f.bad \cup bad1 \cup bad2]

OnGet(f, w, h) ==
    IF w \notin Views THEN [f EXCEPT !.bad = @ \cup {M("save.unknownView", w, "")}] ELSE
    LET cached == f.st.cache[w] # "none"
        badHit == IF (h = "hit") = cached THEN {} ELSE {M("save.hit", w, h)}
        inWriter == f.stack # <<>> /\ f.stack[1].k = "w"
        \* design condition, at the exact step: a writer (or a reader it triggers) touches only
        \* views that are rebuilt later
        badEarly == IF inWriter /\ Pos(w) <= Pos(f.stack[1].v)
                    THEN {M("save.touchesEarlier", f.stack[1].v, w)} ELSE {}
        badDep == IF f.stack = <<>> THEN {}
                  ELSE LET t == Top(f) IN
                       IF (t.k = "w" /\ w \in WriteDepsF[t.v]) \/ (t.k = "r" /\ w \in ReadDepsF[t.v]) THEN {}
                       ELSE {M("save.unmeasuredDep", t.v, w)}
    IN [f EXCEPT !.bad = @ \cup badHit \cup badEarly \cup badDep,
                 !.stack = IF h = "hit" THEN @ ELSE Append(@, [k |-> "r", v |-> w, val |-> "none"])]

OnParsed(f, w) ==
    IF f.stack = <<>> \/ Top(f).k # "r" \/ Top(f).v # w
    THEN [f EXCEPT !.bad = @ \cup {M("save.bracket", w, "parsed")}]
    ELSE [f EXCEPT !.st = Mark(f.st, w), !.stack = Drop(@)]

OnWrite(f, v, lumps) ==
    IF f.stack = <<>> \/ Top(f).k # "w" \/ Top(f).v # v
    THEN [f EXCEPT !.bad = @ \cup {M("save.bracket", v, "write")}]
    ELSE LET extra == ToSet(lumps) \ (WriteSetsF[v] \cup {MainF[v]})
         IN [f EXCEPT !.st = WriteMark(f.st, v, Top(f).val), !.stack = Drop(@),
                      !.bad = @ \cup {M("save.writeSet", v, l) : l \in extra}]

Step(f, e) == CASE e[1] = "pop"    -> OnPop(f, e[2])
                [] e[1] = "get"    -> OnGet(f, e[2], e[3])
                [] e[1] = "parsed" -> OnParsed(f, e[2])
                [] e[1] = "write"  -> OnWrite(f, e[2], e[3])
                [] OTHER           -> [f EXCEPT !.bad = @ \cup {M("save.unknownEvent", e[1], "")}]

RECURSIVE Fold(_, _, _)
\* (TLC passes operator arguments lazily: the test on g.last forces each step before the next one)
Fold(f, ev, k) == IF k > Len(ev) THEN f
                  ELSE LET g == Step(f, ev[k]) IN IF g.last < 0 THEN g ELSE Fold(g, ev, k + 1)

(* ---- one scenario ------------------------------------------------------------- *)
Verdict(r) ==
    LET accOK == \A k \in 1..Len(r.acc) : r.acc[k] \in Views
        st0 == AccessSeq(Fresh, r.acc)
        f   == Fold(F0(st0), r.ev, 1)
        fin == SaveAll(st0)                    \* the functional model's prediction
        obsCache0 == ToSet(r.cacheAfterAccess)
        obsCache1 == ToSet(r.cacheAfterSave)
        changed == ToSet(r.changed)
        diffViews == {r.viewDiff[k][1] : k \in 1..Len(r.viewDiff)}
        trivial == ToSet(r.trivial)
        touched == {l \in Lumps : fin.raw[l] # "orig"}
        bAccess == IF Cached(st0) = obsCache0 THEN {}
                   ELSE {M("access.cache", v, "") : v \in (Cached(st0) \ obsCache0) \cup (obsCache0 \ Cached(st0))}
        bStack == IF f.stack = <<>> THEN {} ELSE {M("save.bracket", Top(f).v, "open")}
        bAfter == {M("save.cacheAfter", v, "") : v \in (Cached(f.st) \ obsCache1) \cup (obsCache1 \ Cached(f.st))}
        bModel == {M("conform.saveModel", v, "cache") : v \in {x \in Views : f.st.cache[x] # fin.cache[x]}}
                  \cup {M("conform.saveModel", l, "raw") : l \in {x \in Lumps : f.st.raw[x] # fin.raw[x]}}
        \* a lump whose bytes changed must be one the model says was rebuilt (or lost)
        bChanged == {M("conform.changed", l, "") : l \in changed \ touched}
        \* what the model says is lost must be visibly lost (unless there was nothing to lose)
        bLoss == {M("conform.predictedLoss", v, "") :
                     v \in {x \in Views : fin.raw[MainF[x]] \in Bad /\ x \notin trivial /\ x \notin diffViews}}
        \* ---- C10 on what was observed
        pView == {M("prop.viewEqual", r.viewDiff[k][1], r.viewDiff[k][2]) : k \in 1..Len(r.viewDiff)}
        pBytes == {M("prop.bytesIdentical", l, "") : l \in changed \ ViewLumps}
        pNoAcc == IF r.acc = <<>> THEN {M("prop.noAccessIdentical", l, "") : l \in changed} ELSE {}
        pHead == {M("prop.head", r.headDiff[k], "") : k \in 1..Len(r.headDiff)}
        pMeta == {M("prop.meta", r.metaDiff[k], "") : k \in 1..Len(r.metaDiff)}
        pCache == {M("prop.cacheEmpty", v, "") : v \in obsCache1}
        pResave == IF r.resave = "same" THEN {} ELSE {M("prop.resave", r.resave, "")}
        pAgain == IF r.saveAgain = "same" THEN {} ELSE {M("prop.saveAgain", r.saveAgain, "")}
        pCycle == {M("prop.cycle2", r.cycle2[k][1], r.cycle2[k][2]) : k \in 1..Len(r.cycle2)}
        \* the written file against the input, both decoded by the independent decoder (not reader against
        \* reader): header words, per-lump version / compressed flag, game-lump flags / versions, and the
        \* decompressed bytes of every lump the model says was not rebuilt (none at all without an access)
        pIHead == {M("prop.fileHeader", r.indepHead[k][1], r.indepHead[k][2]) : k \in 1..Len(r.indepHead)}
        pIBytes == {M("prop.fileBytes", l, "") : l \in ToSet(r.indepChanged) \ ViewLumps}
        bIBytes == {M("conform.fileBytes", l, "") : l \in ToSet(r.indepChanged) \ touched}
        \* the reader hands back (decompressed) the bytes the independent encoder put into the file
        pRaw == {M("prop.rawAsEncoded", r.rawMismatch[k], "") : k \in 1..Len(r.rawMismatch)}
    IN IF ~accOK THEN {M("access.unknownView", "", "")}
       ELSE IF r.failed # <<>> THEN {M("prop.completes", r.failed[1], r.failed[2])} \cup pRaw
       ELSE bAccess \cup f.bad \cup bStack \cup bAfter \cup bModel \cup bChanged \cup bLoss
            \cup pView \cup pBytes \cup pNoAcc \cup pHead \cup pMeta \cup pCache \cup pResave \cup pAgain \cup pCycle \cup pRaw
            \cup pIHead \cup pIBytes \cup bIBytes

Init == i = 0
Next == i < N /\ i' = i + 1
Checked == i = 0 \/ \A m \in Verdict(Recs[i]) :
              PrintT(ToJson([tag |-> "MISMATCH", i |-> i, clause |-> m.clause, exp |-> [item |-> m.item, field |-> m.field]]))
AllConsumed == TLCGet("stats").diameter = N + 1
=============================================================================
