SPECIFICATION Spec
CONSTANTS
  Names = {"n1", "n2"}
  SizeSel = "small"
  Limit = 2
  FName = "pak01_dir.vpk"
  ArchIdx <- IdxAll
  NArch = 2
  Cs <- CsAll
  MaxW = 2
INVARIANT ReadBack
INVARIANT DiskReadBack
INVARIANT Fits
PROPERTY ArchivesAppendOnly
PROPERTY ReadOnlyRejects
PROPERTY FailureIsNoop
PROPERTY DirFileStable
VIEW View
CHECK_DEADLOCK FALSE
