-------------------------------- MODULE FgdDb --------------------------------
(* C16, the history part: looking entities up one at a time in any order gives *)
(* the same definitions as loading the whole database.                         *)
(*                                                                             *)
(* Dbs is the list of databases engine_def() consults (the bundled one, and    *)
(* optionally one added in front by add_engine_database()).  st[k] is the lazy *)
(* state of database k (FgdDbOps).  Actions: Query(e) = engine_def(e) for a    *)
(* known class, QueryMissing = engine_def of an unknown class (KeyError, no    *)
(* effect), LoadAll = engine_dbase().                                          *)
EXTENDS FgdDbOps, TLC, Json

CONSTANTS Dbs,        \* sequence of database descriptions
          Missing,    \* a class name no database has
          MaxHist     \* simulation only: length of the emitted behaviours

VARIABLES st, act, hist
vars == <<st>>

ND == Len(Dbs)
\* the exhaustive configurations tell the replayer which layout they are about
ASSUME MaxHist # 0 \/ PrintT(ToJson([tag |-> "DBS", dbs |-> Dbs]))
Classes == AllClasses(Dbs)

Init == /\ st = [k \in 1..ND |-> DbInit(Dbs[k])]
        /\ act = [op |-> "init"]
        /\ hist = <<>>

Query(e) ==
    LET k == FirstWith(Dbs, e)
        g == GetEnt(Dbs[k], st[k], e)
    IN  /\ k # 0
        /\ st' = [st EXCEPT ![k] = g.s]
        /\ act' = [op |-> "query", e |-> e, db |-> k, res |-> g.res,
                   created |-> Created(st[k], g.s), bases |-> g.s.rb[e]]
        /\ hist' = Append(hist, [op |-> "query", e |-> e])
QueryMissing ==
    /\ FirstWith(Dbs, Missing) = 0
    /\ st' = st
    /\ act' = [op |-> "missing", e |-> Missing]
    /\ hist' = Append(hist, [op |-> "missing", e |-> Missing])
LoadAll ==
    /\ st' = [k \in 1..ND |-> GetFgd(Dbs[k], st[k]).s]
    /\ act' = [op |-> "loadall",
               created |-> [k \in 1..ND |-> Created(st[k], GetFgd(Dbs[k], st[k]).s)]]
    /\ hist' = Append(hist, [op |-> "loadall"])

Next == (\E e \in Classes : Query(e)) \/ QueryMissing \/ LoadAll
Spec == Init /\ [][Next]_<<st, act, hist>>

(* ---- simulation over a large (real) database: one random successor -------- *)
\* Hot = entities whose bases live in another block, their bases, aliases
CONSTANTS Hot
\* (operators with a parameter: TLC would evaluate a parameterless one only once)
Pick(h) == IF Hot # {} /\ RandomElement(1..3) = 1 THEN RandomElement(Hot) ELSE RandomElement(Classes)
Dice(h, n) == RandomElement(1..n)
SimNext == \/ /\ Dice(hist, 12) > 1
              /\ \E e \in {Pick(hist)} : Query(e)
           \/ /\ Dice(hist, 3) = 1
              /\ QueryMissing
           \/ /\ Len(hist) > 3 /\ Dice(hist, 12) = 1
              /\ LoadAll
SimSpec == Init /\ [][SimNext]_<<st, act, hist>>
EmitBehaviour == Len(hist) < MaxHist \/ PrintT(ToJson([tag |-> "BEH", h |-> hist]))
\* the expensive invariants, at the end of each simulated behaviour only
AtEnd(P) == Len(hist) < MaxHist \/ P

(* ---- the listed property and what makes it hold --------------------------- *)
Once == \A k \in 1..ND : ParsedOnce(Dbs[k], st[k])
Consistent == \A k \in 1..ND : LoadedIffParsed(Dbs[k], st[k]) /\ Distinct(st[k])
Resolved == \A k \in 1..ND : BasesResolved(Dbs[k], st[k])
SameAsFull == \A k \in 1..ND : AgreesWithFull(Dbs[k], st[k])
IdentityStable == [][\A k \in 1..ND : Stable(st[k], st'[k])]_vars
\* after LoadAll nothing is left unparsed, and LoadAll reached from any history
\* ends in the same definitions (SameAsFull) with every block parsed once (Once)
AllAfterLoad == \A k \in 1..ND : st[k].fgd => st[k].parsed = 1..NBlocks(Dbs[k])
DbsWellFormed == \A k \in 1..ND : WellFormed(Dbs[k])
InitWellFormed == Len(hist) > 0 \/ DbsWellFormed
EndOnce == AtEnd(Once)
EndConsistent == AtEnd(Consistent)
EndResolved == AtEnd(Resolved)
EndSameAsFull == AtEnd(SameAsFull)

View == vars
Emit == PrintT(ToJson([tag |-> "EDGE", s |-> st, a |-> act', t |-> st']))

(* ---- small databases for exhaustive checking ------------------------------ *)
\* two blocks that need each other (entity-level DAG), and a two-base entity
DbCyc == [blocks |-> << <<"a1", "a2">>, <<"b1", "b2">>, <<"c1">> >>,
          bases |-> [a1 |-> <<"b1">>, a2 |-> <<>>, b1 |-> <<>>, b2 |-> <<"a2">>,
                     c1 |-> <<"a1", "b2">>, root |-> <<>>],
          cbase |-> "root"]
\* bases inside the block (before and after the entity) and a chain over blocks
DbChain == [blocks |-> << <<"a1", "a2">>, <<"b1">>, <<"c1", "c2">> >>,
            bases |-> [a1 |-> <<"a2">>, a2 |-> <<>>, b1 |-> <<"c2">>, c1 |-> <<>>,
                       c2 |-> <<"c1">>, root |-> <<>>],
            cbase |-> "root"]
\* an added database overriding a1 and c1 (with its own root and own base)
DbOver == [blocks |-> << <<"a1", "x1">>, <<"c1">> >>,
           bases |-> [a1 |-> <<"x1">>, x1 |-> <<>>, c1 |-> <<"a1">>, root |-> <<>>],
           cbase |-> "root"]
OneCyc == <<DbCyc>>
OneChain == <<DbChain>>
TwoDbs == <<DbOver, DbCyc>>
NoHot == {}
=============================================================================
