SPECIFICATION Spec
INVARIANT RoundTrip
INVARIANT Refused
INVARIANT Codes
INVARIANT GraphOK
INVARIANT ListingOK
INVARIANT BinInverse
INVARIANT RootKept
INVARIANT TextTerminates
INVARIANT TopLevel
INVARIANT FreshOut
VIEW View
ACTION_CONSTRAINT Emit
CHECK_DEADLOCK FALSE
CONSTANTS
  Uuids = {"u1", "u2"}
  MaxSize = 0
  MaxArr = 0
  MaxAttr = 1
  Family = "typed"
  Vers = {1, 2, 3, 4, 5}
  Unis = {"ascii", "format", "silent"}
  Cross = FALSE
