SPECIFICATION Spec
CONSTANTS
  W = {"w1", "w2"}
  MaxBody = 1
  Faults = 1
  Stale = {1}
  NNames = 4
  AnyName = FALSE
  DirMissing = FALSE
  AnySplit = FALSE
  KeepHist = TRUE
  Reusers = {}
  MaxRounds = 1
  MinBody = 0
INVARIANT DestOldOrNew
INVARIANT FailedIsClean
INVARIANT DoneIsNew
INVARIANT TempsDisjoint
CONSTRAINT OneAbnormal
CONSTRAINT MixedOrig
ACTION_CONSTRAINT Canonical
ACTION_CONSTRAINT EmitPath
CHECK_DEADLOCK FALSE
