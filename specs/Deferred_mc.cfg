SPECIFICATION Spec
CONSTANTS
  Keys = {"p", "q"}
  MaxLen = 5
INVARIANT WriteLaw
INVARIANT MissingIsError
VIEW View
CHECK_DEADLOCK FALSE
