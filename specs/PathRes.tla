------------------------------- MODULE PathRes -------------------------------
(* C18: a constrained directory filesystem never reaches outside its root.      *)
(* The machine grows an input path one component at a time; every state is one  *)
(* input (configuration x path) of the bounded family, and the invariants state *)
(* the property for the four kinds of access on that input.                     *)
EXTENDS PathResOps, TLC

CONSTANTS MaxLen,      \* components per path
          Alphabet,    \* component texts
          Base,        \* location of the world directory
          Pres,        \* "rel" | "abs0" (leading separator) | "absW" (world directory + separator)
          Kinds,       \* "fwd" | "back" | "mix"
          RootForms,   \* "plain" | "trail" | "dot" | "updown"
          Chains       \* subset of BOOLEAN: through a FileSystemChain member with prefix "sub"?

BaseMC == <<"w">>
VARIABLES cfg, body
vars == <<cfg, body>>

Cfgs == [pre : Pres, kind : Kinds, form : RootForms, chain : Chains]
Init == /\ cfg \in Cfgs
        /\ body \in IF cfg.pre = "rel" THEN {<<>>} ELSE {<<c>> : c \in Alphabet}
Extend(c) == Len(body) < MaxLen /\ body' = Append(body, c) /\ UNCHANGED cfg
Next == \E c \in Alphabet : Extend(c)
Spec == Init /\ [][Next]_vars

X == Input(cfg, body, Base)
(* ---- the property ----------------------------------------------------------- *)
Safe == OutcomeSafe(X, OpenOutcome(X)) /\ OutcomeSafe(X, GetOutcome(X)) /\ OutcomeSafe(X, WalkOutcome(X))
(* ---- what makes it hold ------------------------------------------------------ *)
\* resolution yields a normal location; normalising is idempotent; the root form is immaterial
NormalForm == LET r == Res(X) IN r.k = "in" =>
                 /\ IsNormal(r.loc) /\ Normalize(r.loc) = r.loc
                 /\ Normalize(X.root) = RootOf(Base)
\* An independent characterisation of containment for relative names: count how far the name
\* climbs above the root and what it then descends through; it is inside exactly when the
\* descent re-enters through the root's own trailing names.
ClimbStep(acc, c) ==
    IF c = "" \/ c = "." THEN acc
    ELSE IF c = ".." THEN (IF acc.down = <<>> THEN [up |-> acc.up + 1, down |-> <<>>]
                           ELSE [up |-> acc.up, down |-> SubSeq(acc.down, 1, Len(acc.down) - 1)])
    ELSE [up |-> acc.up, down |-> Append(acc.down, c)]
RelInside(root, comps) ==
    LET a == FoldL(ClimbStep, [up |-> 0, down |-> <<>>], comps)
        u == IF a.up > Len(root) THEN Len(root) ELSE a.up
    IN  /\ Len(a.down) >= u
        /\ \A k \in 1..u : a.down[k] = root[Len(root) - u + k]
ClimbAgrees == LET e == Eff(X) IN ~IsAbs(e) =>
                 ((Res(X).k = "in") <=> RelInside(RootOf(Base), PosixComps(e)))
\* a chain member sees the prefixed, forward-slashed name
ChainIsPrefixed == X.chain /\ ~IsAbs(X.toks) =>
                 Res(X) = Resolve(X.root, PrefixToks(X.pfx) \o <<[s |-> "/", c |-> ""]>> \o SlashAll(
                              [k \in 1..Len(X.toks) |-> [s |-> "/", c |-> X.toks[k].c]]))
(* ---- the design that does NOT work (checked to be refuted, PathRes_neg.cfg) ---- *)
TextRes(x) == LET root == Normalize(x.root) loc == JoinAbs(root, Eff(x))
              IN IF TextInside(root, loc) THEN [k |-> "in", loc |-> loc] ELSE Escape
TextSafe == LET r == TextRes(X) IN
            r.k = "in" => \A f \in FileAt(Base, r.loc) \cup FilesBelow(Base, r.loc) : f.tag \in InsideTags
=============================================================================
