---------------------------- MODULE VtfLayoutOps ----------------------------
(* Pure operators of the VTF file design (srctools.vtf, _py_vtf_readwrite).    *)
(* The model-checking machines (VtfLayout, VtfLayoutPix) and the trace         *)
(* validator (VtfLayoutTrace) use exactly these definitions.                   *)
(*                                                                             *)
(* A texture is  c = [w, h, frames, depth, cube, minor, fmt, low, lw, lh, mip, *)
(*                    res, sheet]                                              *)
(*   res   : Seq([id, inline, flags, val, len])  user resources in dict order  *)
(*   sheet : [has, ver, seqs]   seqs = Seq(number of frames per sequence)      *)
(* A pixel is <<r, g, b, a>> with 0..255 channels.                             *)
EXTENDS Integers, Sequences, FiniteSets, TLC

Max(a, b) == IF a >= b THEN a ELSE b
Min(a, b) == IF a <= b THEN a ELSE b
IsPow2(n) == \E k \in 0..12 : n = 2 ^ k
Log2(n) == CHOOSE k \in 0..12 : 2 ^ k = n

(* ---- mipmaps ---------------------------------------------------------------- *)
MipDim(n, level) == Max(1, n \div (2 ^ level))
\* the levels a new texture gets: both sides are halved until one of them is 1
MipLevels(w, h) == 1 + Min(Log2(w), Log2(h))

(* ---- formats ---------------------------------------------------------------- *)
Fmt(i, b, c) == [ind |-> i, bits |-> b, comp |-> c]
FmtTable == [
    RGBA8888 |-> Fmt(0, 32, FALSE), ABGR8888 |-> Fmt(1, 32, FALSE), RGB888 |-> Fmt(2, 24, FALSE),
    BGR888 |-> Fmt(3, 24, FALSE), RGB565 |-> Fmt(4, 16, FALSE), I8 |-> Fmt(5, 8, FALSE), IA88 |-> Fmt(6, 16, FALSE),
    P8 |-> Fmt(7, 0, FALSE), A8 |-> Fmt(8, 8, FALSE), RGB888_BLUESCREEN |-> Fmt(9, 24, FALSE),
    BGR888_BLUESCREEN |-> Fmt(10, 24, FALSE), ARGB8888 |-> Fmt(11, 32, FALSE), BGRA8888 |-> Fmt(12, 32, FALSE),
    DXT1 |-> Fmt(13, 64, TRUE), DXT3 |-> Fmt(14, 128, TRUE), DXT5 |-> Fmt(15, 128, TRUE), BGRX8888 |-> Fmt(16, 32, FALSE),
    BGR565 |-> Fmt(17, 16, FALSE), BGRX5551 |-> Fmt(18, 16, FALSE), BGRA4444 |-> Fmt(19, 16, FALSE),
    DXT1_ONEBITALPHA |-> Fmt(20, 64, TRUE), BGRA5551 |-> Fmt(21, 16, FALSE), UV88 |-> Fmt(22, 16, FALSE),
    UVWQ8888 |-> Fmt(23, 32, FALSE), RGBA16161616F |-> Fmt(24, 64, FALSE), RGBA16161616 |-> Fmt(25, 64, FALSE),
    UVLX8888 |-> Fmt(26, 32, FALSE), NONE |-> Fmt(0 - 1, 0, FALSE),
    ATI1N |-> Fmt(35, 64, TRUE), ATI2N |-> Fmt(34, 128, TRUE)]      \* ASW+ numbering (the default of save())
Writable == {"RGBA8888", "ABGR8888", "RGB888", "BGR888", "RGB565", "I8", "IA88", "A8", "RGB888_BLUESCREEN",
             "BGR888_BLUESCREEN", "ARGB8888", "BGRA8888", "BGRX8888", "BGR565", "BGRX5551", "BGRA4444", "BGRA5551",
             "UV88", "UVWQ8888", "UVLX8888"}
\* bytes of one image: compressed formats store 4x4 blocks
FrameSize(f, w, h) ==
    IF FmtTable[f].comp THEN (FmtTable[f].bits * ((w + 3) \div 4) * ((h + 3) \div 4)) \div 8
    ELSE (FmtTable[f].bits * w * h) \div 8

(* ---- the frame table --------------------------------------------------------- *)
\* slices per frame and mipmap: cube faces (the sphere map went away with 7.5) or depth layers
Slices(c) == IF c.cube THEN (IF c.minor >= 5 THEN 6 ELSE 7) ELSE c.depth
Keys(c, mips) == {<<f, s, m>> : f \in 0..(c.frames - 1), s \in 0..(Slices(c) - 1), m \in 0..(mips - 1)}
KeyDim(c, k) == <<MipDim(c.w, k[3]), MipDim(c.h, k[3])>>
KeySize(c, k) == FrameSize(c.fmt, MipDim(c.w, k[3]), MipDim(c.h, k[3]))
\* on disk: smallest mipmap first; inside one mipmap the frames, inside a frame its slices
DiskOrder(c, mips) ==
    [i \in 1..(mips * c.frames * Slices(c)) |->
        LET per == c.frames * Slices(c)
            q == (i - 1) \div per
            r == (i - 1) % per
        IN <<r \div Slices(c), r % Slices(c), mips - 1 - q>>]
RECURSIVE SmallerMips(_, _, _)
\* bytes taken by all mipmaps smaller than m (levels m+1 .. mips-1)
SmallerMips(c, mips, m) == IF m >= mips - 1 THEN 0
                           ELSE c.frames * Slices(c) * KeySize(c, <<0, 0, m + 1>>) + SmallerMips(c, mips, m + 1)
\* closed form of the position of one image inside the image block
KeyOffset(c, mips, k) == SmallerMips(c, mips, k[3]) + (k[1] * Slices(c) + k[2]) * KeySize(c, k)
RECURSIVE RunningSum(_, _, _)
\* the same as a running sum over the disk order, the way a reader walks the file
RunningSum(c, order, i) == IF i = 1 THEN 0 ELSE RunningSum(c, order, i - 1) + KeySize(c, order[i - 1])
HiSize(c, mips) == SmallerMips(c, mips, 0 - 1)

(* ---- header, resource table, data blocks ---------------------------------------- *)
HasTable(c) == c.minor >= 3
UserRes(c) == IF HasTable(c) THEN c.res ELSE <<>>                    \* 7.2 has no resource table
HasSheet(c) == HasTable(c) /\ c.sheet.has
NRes(c) == Len(UserRes(c)) + 2 + (IF HasSheet(c) THEN 1 ELSE 0)
HeaderSize(c) == 80 + (IF HasTable(c) THEN 8 * NRes(c) ELSE 0)
RECURSIVE SumFrames(_, _)
SumFrames(seqs, i) == IF i > Len(seqs) THEN 0 ELSE seqs[i] + SumFrames(seqs, i + 1)
SheetLen(sh) == 8 + 16 * Len(sh.seqs) + SumFrames(sh.seqs, 1) * (4 + (IF sh.ver = 1 THEN 64 ELSE 16))
Bit1(f) == (f \div 2) % 2
SetBit1(f) == IF Bit1(f) = 1 THEN f ELSE f + 2
ClearBit1(f) == IF Bit1(f) = 1 THEN f - 2 ELSE f
\* what a resource looks like after a round trip: the "no data block" flag follows the kind
NormRes(r) == [r EXCEPT !.flags = IF r.inline THEN SetBit1(r.flags) ELSE ClearBit1(r.flags)]
RECURSIVE BlockBytes(_, _)
\* bytes of the data blocks of the first i user resources
BlockBytes(res, i) == IF i = 0 THEN 0
                      ELSE BlockBytes(res, i - 1) + (IF res[i].inline THEN 0 ELSE 4 + res[i].len)
SheetOff(c) == HeaderSize(c) + BlockBytes(UserRes(c), Len(UserRes(c)))
LowSize(c) == IF c.low = "NONE" THEN 0 ELSE FrameSize(c.low, c.lw, c.lh)
LowOff(c) == SheetOff(c) + (IF HasSheet(c) THEN 4 + SheetLen(c.sheet) ELSE 0)
HiOff(c) == LowOff(c) + LowSize(c)
FileLen(c) == HiOff(c) + HiSize(c, c.mip)
IdLow == "010000"   IdHigh == "300000"   IdSheet == "100000"
Entry(id, fl, d) == [id |-> id, flags |-> fl, data |-> d]
\* the resource table as it must stand in the file
Entries(c) ==
    IF ~HasTable(c) THEN <<>>
    ELSE [i \in 1..Len(c.res) |->
             IF c.res[i].inline THEN Entry(c.res[i].id, SetBit1(c.res[i].flags), c.res[i].val)
             ELSE Entry(c.res[i].id, ClearBit1(c.res[i].flags), HeaderSize(c) + BlockBytes(c.res, i - 1))]
         \o <<Entry(IdLow, 0, LowOff(c)), Entry(IdHigh, 0, HiOff(c))>>
         \o (IF c.sheet.has THEN <<Entry(IdSheet, 0, SheetOff(c))>> ELSE <<>>)
Header(c) == [minor |-> c.minor, hsize |-> HeaderSize(c), w |-> c.w, h |-> c.h, frames |-> c.frames,
              fmt |-> FmtTable[c.fmt].ind, mip |-> c.mip, low |-> FmtTable[c.low].ind, lw |-> c.lw, lh |-> c.lh,
              depth |-> c.depth, nres |-> IF HasTable(c) THEN NRes(c) ELSE 0, entries |-> Entries(c),
              len |-> FileLen(c)]
\* what reading the file must give back (the object again, as far as the version can hold it)
ReadBack(c) == [c EXCEPT !.res = [i \in 1..Len(UserRes(c)) |-> NormRes(UserRes(c)[i])],
                         !.sheet = IF HasSheet(c) THEN c.sheet ELSE [has |-> FALSE, ver |-> 0, seqs |-> <<>>]]

(* ---- pixel access -------------------------------------------------------------- *)
InBounds(x, y, w, h) == 0 <= x /\ x < w /\ 0 <= y /\ y < h

(* ---- pixel codecs: bit arithmetic on 0..255 channels --------------------------- *)
Top(v, k) == (v \div (2 ^ (8 - k))) * (2 ^ (8 - k))        \* keep the k most significant bits
Q(v, k) == Top(v, k) + (v \div (2 ^ k))                       \* ... and refill the rest from the top
Q1(a) == IF a >= 128 THEN 255 ELSE 0
Grey(p) == (p[1] + p[2] + p[3]) \div 3
Blue == <<0, 0, 255>>
\* the documented quantisation: what a pixel becomes by being stored in the format
Quant(f, p) ==
    LET r == p[1] g == p[2] b == p[3] a == p[4] y == Grey(p) IN
    CASE f \in {"RGBA8888", "ABGR8888", "ARGB8888", "BGRA8888", "UVWQ8888", "UVLX8888"} -> p
      [] f \in {"RGB888", "BGR888", "BGRX8888"} -> <<r, g, b, 255>>
      [] f \in {"RGB565", "BGR565"} -> <<Q(r, 5), Q(g, 6), Q(b, 5), 255>>
      [] f = "I8" -> <<y, y, y, 255>>
      [] f = "IA88" -> <<y, y, y, a>>
      [] f = "A8" -> <<0, 0, 0, a>>
      [] f = "UV88" -> <<r, g, 0, 255>>
      [] f \in {"RGB888_BLUESCREEN", "BGR888_BLUESCREEN"} ->
            IF a < 128 \/ <<r, g, b>> = Blue THEN <<0, 0, 0, 0>> ELSE <<r, g, b, 255>>
      [] f = "BGRX5551" -> <<Q(r, 5), Q(g, 5), Q(b, 5), 255>>
      [] f = "BGRA5551" -> <<Q(r, 5), Q(g, 5), Q(b, 5), Q1(a)>>
      [] f = "BGRA4444" -> <<Q(r, 4), Q(g, 4), Q(b, 4), Q(a, 4)>>
\* the bytes of one pixel (16-bit formats are little-endian words, low byte first)
Pack565(lo5, g, hi5) == <<(lo5 \div 8) + ((g \div 4) % 8) * 32, (g \div 32) + (hi5 \div 8) * 8>>
Encode(f, p) ==
    LET r == p[1] g == p[2] b == p[3] a == p[4] y == Grey(p) IN
    CASE f \in {"RGBA8888", "UVWQ8888", "UVLX8888"} -> <<r, g, b, a>>
      [] f = "ABGR8888" -> <<a, b, g, r>>
      [] f = "ARGB8888" -> <<g, b, a, r>>          \* Valve's layout for this name, not the obvious one
      [] f = "BGRA8888" -> <<b, g, r, a>>
      [] f = "BGRX8888" -> <<b, g, r, 0>>
      [] f = "RGB888" -> <<r, g, b>>
      [] f = "BGR888" -> <<b, g, r>>
      [] f = "RGB565" -> Pack565(r, g, b)          \* word = r | g << 5 | b << 11
      [] f = "BGR565" -> Pack565(b, g, r)          \* word = b | g << 5 | r << 11
      [] f = "I8" -> <<y>>
      [] f = "IA88" -> <<y, a>>
      [] f = "A8" -> <<a>>
      [] f = "UV88" -> <<r, g>>
      [] f = "RGB888_BLUESCREEN" -> IF a < 128 THEN <<0, 0, 255>> ELSE <<r, g, b>>
      [] f = "BGR888_BLUESCREEN" -> IF a < 128 THEN <<255, 0, 0>> ELSE <<b, g, r>>
      [] f = "BGRX5551" -> <<((g \div 8) % 8) * 32 + (b \div 8), (r \div 8) * 4 + (g \div 64)>>
      [] f = "BGRA5551" -> <<((g \div 8) % 8) * 32 + (b \div 8), (a \div 128) * 128 + (r \div 8) * 4 + (g \div 64)>>
      [] f = "BGRA4444" -> <<Top(g, 4) + (b \div 16), Top(a, 4) + (r \div 16)>>
Up(v5, k) == v5 + (v5 \div (2 ^ k))                  \* v5 has its k top bits set, the rest zero
Unpack565(d) == <<Up((d[1] % 32) * 8, 5), Up((d[2] % 8) * 32 + (d[1] \div 32) * 4, 6), Up(Top(d[2], 5), 5)>>
Decode(f, d) ==
    CASE f \in {"RGBA8888", "UVWQ8888", "UVLX8888"} -> <<d[1], d[2], d[3], d[4]>>
      [] f = "ABGR8888" -> <<d[4], d[3], d[2], d[1]>>
      [] f = "ARGB8888" -> <<d[4], d[1], d[2], d[3]>>
      [] f = "BGRA8888" -> <<d[3], d[2], d[1], d[4]>>
      [] f = "BGRX8888" -> <<d[3], d[2], d[1], 255>>
      [] f = "RGB888" -> <<d[1], d[2], d[3], 255>>
      [] f = "BGR888" -> <<d[3], d[2], d[1], 255>>
      [] f = "RGB565" -> LET u == Unpack565(d) IN <<u[1], u[2], u[3], 255>>
      [] f = "BGR565" -> LET u == Unpack565(d) IN <<u[3], u[2], u[1], 255>>
      [] f = "I8" -> <<d[1], d[1], d[1], 255>>
      [] f = "IA88" -> <<d[1], d[1], d[1], d[2]>>
      [] f = "A8" -> <<0, 0, 0, d[1]>>
      [] f = "UV88" -> <<d[1], d[2], 0, 255>>
      [] f = "RGB888_BLUESCREEN" -> IF d = Blue THEN <<0, 0, 0, 0>> ELSE <<d[1], d[2], d[3], 255>>
      [] f = "BGR888_BLUESCREEN" -> IF <<d[3], d[2], d[1]>> = Blue THEN <<0, 0, 0, 0>> ELSE <<d[3], d[2], d[1], 255>>
      [] f = "BGRX5551" -> <<Up(((d[2] \div 4) % 32) * 8, 5), Up((d[2] % 4) * 64 + (d[1] \div 32) * 8, 5), Up((d[1] % 32) * 8, 5), 255>>
      [] f = "BGRA5551" -> <<Up(((d[2] \div 4) % 32) * 8, 5), Up((d[2] % 4) * 64 + (d[1] \div 32) * 8, 5), Up((d[1] % 32) * 8, 5),
                             IF d[2] >= 128 THEN 255 ELSE 0>>
      [] f = "BGRA4444" -> <<Up((d[2] % 16) * 16, 4), Up(Top(d[1], 4), 4), Up((d[1] % 16) * 16, 4), Up(Top(d[2], 4), 4)>>
BytesPerPixel(f) == FmtTable[f].bits \div 8
IsPixel(p) == Len(p) = 4 /\ \A i \in 1..4 : p[i] \in 0..255
CodecLaw(f, p) == /\ Len(Encode(f, p)) = BytesPerPixel(f)
                  /\ \A i \in 1..BytesPerPixel(f) : Encode(f, p)[i] \in 0..255
                  /\ Decode(f, Encode(f, p)) = Quant(f, p)
                  /\ IsPixel(Quant(f, p))
Idempotent(f, p) == Quant(f, Quant(f, p)) = Quant(f, p)
\* formats that store 8 bits for every channel they use keep those channels exactly
Exact4 == {"RGBA8888", "ABGR8888", "ARGB8888", "BGRA8888", "UVWQ8888", "UVLX8888"}
Exact3 == {"RGB888", "BGR888", "BGRX8888"}
ExactLaw(f, p) == /\ f \in Exact4 => Quant(f, p) = p
                  /\ f \in Exact3 => Quant(f, p) = <<p[1], p[2], p[3], 255>>

(* ---- mipmap generation ----------------------------------------------------------- *)
\* images are row-major sequences of pixels; a side either halves or (at 1) stays
Pix(img, w, x, y) == img[y * w + x + 1]
Avg4(a, b, c, d) == [ch \in 1..4 |-> (a[ch] + b[ch] + c[ch] + d[ch]) \div 4]
Average2x2(src, sw, sh, w, h) ==
    [i \in 1..(w * h) |->
        LET x == (i - 1) % w
            y == (i - 1) \div w
            x0 == IF w = sw THEN x ELSE 2 * x
            x1 == IF w = sw THEN x ELSE 2 * x + 1
            y0 == IF h = sh THEN y ELSE 2 * y
            y1 == IF h = sh THEN y ELSE 2 * y + 1
        IN Avg4(Pix(src, sw, x0, y0), Pix(src, sw, x1, y0), Pix(src, sw, x0, y1), Pix(src, sw, x1, y1))]
QuantImg(f, img) == [i \in 1..Len(img) |-> Quant(f, img[i])]
\* the bytes of an image: the pixels' bytes one after the other (third argument kept for callers)
EncodeImg(f, img, i) == LET n == BytesPerPixel(f) IN
    [q \in 1..(n * Len(img)) |-> Encode(f, img[((q - 1) \div n) + 1])[((q - 1) % n) + 1]]
\* the pixels held by the bytes of an image
DecodeImg(f, raw) == LET n == BytesPerPixel(f) IN
    [p \in 1..(Len(raw) \div n) |-> Decode(f, [q \in 1..n |-> raw[(p - 1) * n + q]])]
\* what a reader decodes is already quantised: storing it again and reading gives the same pixels
DecodedFixed(f, d) == /\ Quant(f, Decode(f, d)) = Decode(f, d)
                      /\ Decode(f, Encode(f, Decode(f, d))) = Decode(f, d)

(* ---- histories of a texture that was read from a file --------------------------------- *)
\* One entry per mipmap level (entry m + 1 is level m): where its pixels come from - the file
\* ("file") or, once clear_mipmaps() erased it, the level above ("cleared") - and whether the
\* lazily read frame has been loaded into memory, which must not be observable.
NoTerm == [base |-> 0, avgs |-> 0, ed |-> FALSE]
\* sd: the frame of the level the thumbnail is made from (frame 0, depth 0 or the FRONT face) has
\* its pixels in memory
LvInit(mips) == [j \in 1..mips |-> [st |-> "file", loaded |-> FALSE, ed |-> FALSE, t |-> NoTerm, sd |-> FALSE]]
Sel(sel, m) == CASE sel = "top" -> m = 0 [] sel = "small" -> m >= 1 [] OTHER -> TRUE
\* loading or looking at a frame that is erased is not a documented way to keep or regenerate it
CanLoad(lv, sel) == \A j \in 1..Len(lv) : Sel(sel, j - 1) => lv[j].st # "cleared"
HLoad(lv, sel) == [j \in 1..Len(lv) |-> IF Sel(sel, j - 1) THEN [lv[j] EXCEPT !.loaded = TRUE, !.sd = TRUE] ELSE lv[j]]
\* Frame[x, y] of frame 0, slice 0: that is the thumbnail's source frame except in a cubemap
HAccess(lv, m, cube) == [lv EXCEPT ![m + 1].loaded = TRUE, ![m + 1].sd = @ \/ ~cube]
\* writing a pixel of a frame (Frame[x, y] = p): the level now differs from its source in that pixel
HPoke(lv, m, cube) == [lv EXCEPT ![m + 1].loaded = TRUE, ![m + 1].ed = TRUE, ![m + 1].t.ed = TRUE, ![m + 1].sd = @ \/ ~cube]
\* clear_mipmaps(after): every level smaller than level `after` is erased
HClear(lv, after) == [j \in 1..Len(lv) |-> IF j - 1 > after THEN [st |-> "cleared", loaded |-> FALSE, ed |-> FALSE, t |-> NoTerm, sd |-> FALSE]
                                             ELSE lv[j]]
\* the content of level m: the stored level `base` (with the pixels written since, if ed), averaged
\* `avgs` times; an erased level is the average of the level above, a regenerated one ("gen") what
\* that average was when compute_mipmaps() ran
RECURSIVE Term(_, _)
Term(lv, m) == CASE lv[m + 1].st = "file" -> [base |-> m, avgs |-> 0, ed |-> lv[m + 1].ed]
                 [] lv[m + 1].st = "gen" -> lv[m + 1].t
                 [] OTHER -> LET p == Term(lv, m - 1) IN [base |-> p.base, avgs |-> p.avgs + 1, ed |-> p.ed]
\* compute_mipmaps(): level 0 is loaded; erased levels are regenerated now, largest first, from the
\* level above as it is now (which is loaded for that)
RECURSIVE HComputeFrom(_, _)
HComputeFrom(lv, j) ==
    IF j > Len(lv) THEN lv
    ELSE HComputeFrom(IF lv[j].st = "cleared"
                      THEN [lv EXCEPT ![j] = [st |-> "gen", loaded |-> TRUE, ed |-> FALSE, t |-> Term(lv, j - 1), sd |-> TRUE],
                                      ![j - 1].loaded = TRUE, ![j - 1].sd = TRUE]
                      ELSE lv, j + 1)
HCompute(lv) == HComputeFrom([lv EXCEPT ![1].loaded = TRUE, ![1].sd = TRUE], 1)

(* ---- the low-res image (thumbnail) ------------------------------------------------------- *)
\* compute_mipmaps() also regenerates the thumbnail from the level that is exactly twice its size,
\* if the texture has such a level; otherwise the thumbnail stays what it is
MatchLevels(c) == {m \in 0..(c.mip - 1) : MipDim(c.w, m) \div 2 = c.lw /\ MipDim(c.h, m) \div 2 = c.lh}
HasMatch(c) == c.low # "NONE" /\ MatchLevels(c) # {}
MatchLevel(c) == CHOOSE m \in MatchLevels(c) : \A n \in MatchLevels(c) : n <= m
SrcSlice(c) == IF c.cube THEN 3 ELSE 0            \* CubeSide.FRONT
\* thumbnail states: "file" lazy, as read (the stored bytes win until it is loaded); "mem" loaded;
\* "erased" by clear_mipmaps() or never given (a new texture); "gen" regenerated
TRegen(th, c, lv) == IF HasMatch(c) /\ lv[MatchLevel(c) + 1].sd /\ th # "file" THEN "gen" ELSE th
\* what save() writes: the stored image, an average of the matching level, or the blank image
TFinal(th) == CASE th \in {"file", "mem"} -> "stored" [] th = "gen" -> "avg" [] OTHER -> "blank"
BlankPixel == <<0, 0, 0, 255>>
BlankImg(n) == [q \in 1..n |-> BlankPixel]      \* what a frame without pixels loads as: opaque black
\* the 16-bit-per-channel formats are not decoded: only their metadata is read
HeaderOnly(f) == f \in {"RGBA16161616", "RGBA16161616F"}
=============================================================================
