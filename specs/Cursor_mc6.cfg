SPECIFICATION Spec
CONSTANTS
  MaxLen = 6
  MaxEmpty = 2
  MaxEof = 3
INVARIANT Refines
INVARIANT IdxOK
INVARIANT AbsAgrees
INVARIANT FlatConst
INVARIANT EofSticky
INVARIANT CurFull
VIEW View
CHECK_DEADLOCK FALSE
