------------------------------ MODULE BspTables ------------------------------
(* C11: every BSP lump writer is the inverse of its reader - the parts TLC can     *)
(* decide on the design itself.  Four independent checks, selected by the cfg:     *)
(*   BspTables_rle.cfg    laws of the run-length code over the MC family           *)
(*   BspTables_mc.cfg     the table machine (find_or_insert / find_or_extend on    *)
(*                        one shared list): indexes handed out stay valid          *)
(*                        (claims), tables only grow                               *)
(*   BspTables_edges.cfg  the same machine, every transition printed for the       *)
(*                        replay on the real functions                             *)
(*   BspTables_diag.cfg   the laws of the index builders over all small tables     *)
(*                        (must hold everywhere; the excluded tail-prefix variant  *)
(*                        must break them), the static prop size table, and small  *)
(*                        cross-reference worlds (printed for the replay on real   *)
(*                        BSP objects)                                             *)
EXTENDS BspTablesOps, Json

CONSTANTS Items,      \* object names of the table machine
          MaxLen,     \* longest table
          MaxSub      \* longest sub-list handed to find_or_extend

(* ---- 1. run-length code ------------------------------------------------------ *)
RleVals == {0, 1, 255}
RleLens == {1, 2, 254, 255, 256, 511}
Atoms == {<<v, n>> : v \in RleVals, n \in RleLens}
RleFam == {<<>>} \cup {<<a>> : a \in Atoms}
          \cup {p \in Atoms \X Atoms : p[1][1] # p[2][1]}
          \cup {p \in Atoms \X Atoms \X Atoms : p[1][1] # p[2][1] /\ p[2][1] # p[3][1]}
Tails == {<<>>, <<<<7, 1>>>>, <<<<0, 1>>, <<9, 1>>>>}

VARIABLES b, tbl, claims, act
vars == <<b, tbl, claims>>

RleInit == b \in RleFam /\ tbl = <<>> /\ claims = {} /\ act = [op |-> "init"]
RleNext == UNCHANGED <<b, tbl, claims, act>>
\* decoding what was encoded gives the input; the code is well formed and minimal
RleInverse == Expand(Rle(b)) = b
RleCodeOK == CodeOK(Rle(b), FALSE, 255)
\* reading a row out of a lump: the row is followed by other rows' bytes; the cluster count bounds it
RleInLump == \A t \in Tails : RLen(b) > 0 => UnRle(Canon(Rle(b) \o t), 0, 8 * RLen(b)) = b
RleTruncates == \A m \in {1, 8, 9, 2039, 2041} : UnRle(Rle(b), 0, m) = Canon(Take(b, (m + 7) \div 8))
\* the sequential lump layout is one the reader-side requirement accepts (2 clusters: rows are 1 byte long)
VisSeqOK == LET r1 == [k \in 1..4 |-> Canon(Take((IF k \in {1, 4} THEN b ELSE <<>>) \o <<<<0, 1>>>>, 1))]
                v == VisSequential(r1)
            IN VisLumpOK(r1, v.count, v.offsets, v.at, v.lumplen)
RleFamSize == PrintT(ToJson([tag |-> "FAMILY", rle |-> Cardinality(RleFam)]))

(* ---- 2. the table machine ------------------------------------------------------ *)
Id == Ident(Items)
SubLists == UNION {[1..n -> Items] : n \in 0..MaxSub}
Ext(t, items) == FoE(t, Id, items)

TblInit == b = <<>> /\ tbl \in UNION {[1..n -> Items] : n \in 0..2} /\ claims = {} /\ act = [op |-> "init"]
\* claims: indexes handed out earlier.  Remembering all of them makes the state space explode, and
\* they do not interact: the machine remembers at most one, chosen nondeterministically at every step
\* (keep the old one or take the new one), which covers every (claim, later history) pair.
Keep(new) == claims' \in {claims, {new}}
Insert(x) == LET r == FoI(tbl, Id, x) IN
             /\ Len(r.tbl) <= MaxLen
             /\ tbl' = r.tbl /\ Keep([i |-> r.res, items |-> <<x>>])
             /\ act' = [op |-> "insert", x |-> x, res |-> r.res]
Extend(items) == LET r == Ext(tbl, items) IN
             /\ Len(r.tbl) <= MaxLen
             /\ tbl' = r.tbl /\ (IF items = <<>> THEN claims' = claims ELSE Keep([i |-> r.res, items |-> items]))
             /\ act' = [op |-> "extend", items |-> items, res |-> r.res]
TblNext == /\ b' = b
           /\ \/ \E x \in Items : Insert(x)
              \/ \E items \in SubLists : Extend(items)
TblSpec == TblInit /\ [][TblNext]_vars

\* every index ever handed out still denotes the item / sub-list it was handed out for
ClaimsValid == \A c \in claims : /\ c.i + Len(c.items) <= Len(tbl)
                                 /\ \A j \in 1..Len(c.items) : tbl[c.i + j] = c.items[j]
PrefixStable == [][IsPrefix(tbl, tbl')]_vars
\* the laws as stated in the Ops module, at every step
StepLaws == [][\/ (act'.op = "insert" /\ InsertLaw(tbl, Id, act'.x, [tbl |-> tbl', res |-> act'.res])
                                      /\ NoDuplicate(tbl, Id, act'.x, [tbl |-> tbl', res |-> act'.res]))
               \/ (act'.op = "extend" /\ ExtendLaw(tbl, Id, act'.items, [tbl |-> tbl', res |-> act'.res]))]_vars
\* find_or_insert never stores a second item with a key that is present
NoNewDuplicate == [][act'.op = "insert" => Len(tbl') = Len(tbl) \/ \A i \in 1..Len(tbl) : tbl[i] # act'.x]_vars

View == <<tbl>>
Emit == PrintT(ToJson([tag |-> "EDGE", s |-> tbl, a |-> act', t |-> tbl']))

(* ---- 3. diagnosis --------------------------------------------------------------- *)
SmallTables == UNION {[1..n -> Items] : n \in 0..MaxLen}
\* the laws hold for every table and argument of the bounded domain ...
FoeLawBroken == {p \in SmallTables \X SubLists : ~ExtendLaw(p[1], Id, p[2], FoE(p[1], Id, p[2]))}
FoiLawBroken == {p \in SmallTables \X Items : ~InsertLaw(p[1], Id, p[2], FoI(p[1], Id, p[2]))}
\* ... and they are not vacuous: the excluded variant breaks ExtendLaw exactly where it differs
TailCases == {p \in SmallTables \X SubLists : FoETailPrefix(p[1], Id, p[2]) # FoE(p[1], Id, p[2])}
TailCaught == \A p \in TailCases : ~ExtendLaw(p[1], Id, p[2], FoETailPrefix(p[1], Id, p[2]))

(* small cross-reference worlds for the replay: two planes, up to two faces and a node tree, the    *)
(* assigned tables vary over sub-sequences with and without the referenced objects                   *)
PlaneTables == {<<>>, <<"p2", "p1">>, <<"p1", "p2", "p1">>}
EdgeTables == {<<>>, <<"e1", "e2">>, <<"e3", "e1">>}
EdgeLists == {<<>>, <<"e1", "e2">>, <<"e2", "e3">>, <<"e3", "e1r">>}
FaceTables == {<<>>, <<"f1">>, <<"f2", "f1">>}
NodeFaces == {<<>>, <<"f1", "f2">>, <<"f2">>}
World(pt, et, l1, l2, ft, nf, c1, c2) ==
    [kind |-> [p1 |-> "plane", p2 |-> "plane", d1 |-> "texdata", t1 |-> "texinfo", e1 |-> "edge", e2 |-> "edge", e3 |-> "edge",
               e1r |-> "edge", g1 |-> "origface", f1 |-> "face", f2 |-> "face", l1 |-> "leaf", l2 |-> "leaf", n1 |-> "node", n2 |-> "node",
               m1 |-> "model"],
     tables |-> [planes |-> pt, texinfo |-> <<"t1">>, textures |-> <<>>, surfedges |-> et, orig_faces |-> <<"g1">>, faces |-> ft,
                 visleafs |-> <<"l1">>, nodes |-> <<"n1">>, bmodels |-> <<"m1">>],
     one |-> [d1 |-> [mat |-> "Metal/b"], t1 |-> [texdata |-> "d1"],
              g1 |-> [plane |-> "p1", texinfo |-> "t1", orig |-> ""],
              f1 |-> [plane |-> "p1", texinfo |-> "t1", orig |-> "g1"], f2 |-> [plane |-> "p2", texinfo |-> "t1", orig |-> "g1"],
              n1 |-> [child_pos |-> c1, child_neg |-> c2, plane |-> "p2"],
              n2 |-> [child_pos |-> "l2", child_neg |-> "l1", plane |-> "p1"],
              m1 |-> [node |-> "n1"]],
     many |-> [g1 |-> [edges |-> <<>>, prims |-> <<>>], f1 |-> [edges |-> l1, prims |-> <<>>], f2 |-> [edges |-> l2, prims |-> <<>>],
               l1 |-> [faces |-> <<"f1">>, brushes |-> <<>>], l2 |-> [faces |-> <<"f2", "f1">>, brushes |-> <<>>],
               n1 |-> [faces |-> nf], n2 |-> [faces |-> <<"f2">>], m1 |-> [faces |-> nf]],
     fold |-> [x \in {"Metal/b"} |-> "metal/b"]]
Worlds == {World(pt, et, l1, l2, ft, nf, c1, c2) :
              pt \in PlaneTables, et \in EdgeTables, l1 \in EdgeLists, l2 \in EdgeLists, ft \in FaceTables, nf \in NodeFaces,
              c1 \in {"l1", "n2"}, c2 \in {"l2"}}

(* optional parts of the structured lump values, every legal combination (each part varies        *)
(* INDEPENDENTLY of the others); the harness realises each with generic values, assigns it to an   *)
(* empty BSP, saves, re-reads and reports the same description of what came back                   *)
BmodelParts == {[lump |-> "bmodels", kv |-> kv, solids |-> n, where |-> w] :
                   kv \in {"none", "empty", "full"}, n \in {0, 1, 3}, w \in {"world", "ent"}}
OverlayParts == {[lump |-> "overlays", faces |-> f, fades |-> fd, levels |-> lv, order |-> ro] :
                   f \in {0, 1, 64}, fd \in {"default", "set"}, lv \in {"zero", "set"}, ro \in {0, 3}}
CubemapParts == {[lump |-> "cubemaps", count |-> c, size |-> z] : c \in {0, 1, 2}, z \in {0, 1, 13}}
PropParts == {[lump |-> "props", fmt |-> f, count |-> c, leafs |-> l] :
                   f \in {"V5", "V10", "V_LIGHTMAP_v10"}, c \in {0, 1, 2}, l \in {0, 1, 2}}
DetailKinds == {"model", "sprite", "shape", "cross"}
DetailParts == {[lump |-> "detail_props", kinds |-> k] :
                   k \in {<<>>} \cup {<<a>> : a \in DetailKinds} \cup {<<a, a2>> : a, a2 \in DetailKinds}
                         \cup {<<"cross", "model", "shape", "sprite">>}}
EntParts == {[lump |-> "ents", keys |-> k, outs |-> o, sep |-> sp, spawnkeys |-> w] :
                   k \in {0, 2}, o \in {0, 2}, sp \in {"comma", "esc"}, w \in {1, 3}}
VisParts == {[lump |-> "visibility", clusters |-> c] : c \in {0 - 1, 0, 1, 9}}       \* -1: None (VVIS not run)
TexPatterns == {<<1>>, <<1, 1>>, <<1, 2>>, <<1, 1, 2>>, <<1, 2, 1>>, <<1, 2, 3>>, <<>>}
TexinfoParts == {[lump |-> "texinfo", pattern |-> pt, mats |-> m] : pt \in TexPatterns, m \in {"distinct", "same"}}
BrushParts == {[lump |-> "brushes", sides |-> sd] : sd \in {<<>>, <<0>>, <<3>>, <<0, 3>>, <<3, 0, 1>>, <<1, 1>>}}
PrimParts == {[lump |-> "primitives", verts |-> v, inds |-> ix] :
                   v \in {<<>>, <<0>>, <<2>>, <<2, 0, 1>>}, ix \in {<<>>, <<0>>, <<3>>, <<0, 3, 1>>}}
PakParts == {[lump |-> "pakfile", files |-> n] : n \in {0, 1, 2}}
TextureParts == {[lump |-> "textures", names |-> n] :
                   n \in {<<>>, <<"a/b">>, <<"brick/wall01", "wall01", "Brick/WALL01x">>}}

Diag ==
    /\ PrintT(ToJson([tag |-> "DIAG", what |-> "foe", lawBroken |-> Cardinality(FoeLawBroken) + Cardinality(FoiLawBroken),
                      cases |-> Cardinality(SmallTables \X SubLists), tailCases |-> Cardinality(TailCases),
                      tailCaught |-> TailCaught]))
    /\ PrintT(ToJson([tag |-> "DIAG", what |-> "propsize", sizes |-> [f \in PropFormats |-> PropSize(f)]]))
    /\ \A w \in Worlds : PrintT(ToJson([tag |-> "WORLD", w |-> w]))
    /\ \A c \in BmodelParts : PrintT(ToJson([tag |-> "PART", c |-> c]))
    /\ \A c \in OverlayParts : PrintT(ToJson([tag |-> "PART", c |-> c]))
    /\ \A c \in CubemapParts : PrintT(ToJson([tag |-> "PART", c |-> c]))
    /\ \A c \in PropParts : PrintT(ToJson([tag |-> "PART", c |-> c]))
    /\ \A c \in DetailParts : PrintT(ToJson([tag |-> "PART", c |-> c]))
    /\ \A c \in EntParts : PrintT(ToJson([tag |-> "PART", c |-> c]))
    /\ \A c \in VisParts : PrintT(ToJson([tag |-> "PART", c |-> c]))
    /\ \A c \in TexinfoParts : PrintT(ToJson([tag |-> "PART", c |-> c]))
    /\ \A c \in BrushParts : PrintT(ToJson([tag |-> "PART", c |-> c]))
    /\ \A c \in {x \in PrimParts : Len(x.verts) = Len(x.inds)} : PrintT(ToJson([tag |-> "PART", c |-> c]))
    /\ \A c \in PakParts : PrintT(ToJson([tag |-> "PART", c |-> c]))
    /\ \A c \in TextureParts : PrintT(ToJson([tag |-> "PART", c |-> c]))
    /\ PrintT(ToJson([tag |-> "DIAGDONE", worlds |-> Cardinality(Worlds),
                      parts |-> Cardinality(BmodelParts) + Cardinality(OverlayParts) + Cardinality(CubemapParts)
                                + Cardinality(PropParts) + Cardinality(DetailParts) + Cardinality(EntParts)
                                + Cardinality(VisParts) + Cardinality(TexinfoParts) + Cardinality(BrushParts)
                                + Cardinality({x \in PrimParts : Len(x.verts) = Len(x.inds)}) + Cardinality(PakParts)
                                + Cardinality(TextureParts)]))
DiagInit == b = <<>> /\ tbl = <<>> /\ claims = {} /\ act = [op |-> "init"] /\ Diag
DiagNext == UNCHANGED <<b, tbl, claims, act>>
=============================================================================
