SPECIFICATION Spec
CONSTANTS
  StartVecs <- VecsSmall
  StartAngs <- StartSmall
  RhsAngs <- RhsSmall
  MaxLen = 2
  UseForms <- Forms
INVARIANT Assoc
INVARIANT RoundTrip
ACTION_CONSTRAINT EmitLeaves
CHECK_DEADLOCK FALSE
