INIT Init
NEXT Next
INVARIANT PlanEmit
POSTCONDITION AllConsumed
CHECK_DEADLOCK FALSE
