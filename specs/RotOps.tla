------------------------------- MODULE RotOps -------------------------------
(* Exact rotation algebra behind srctools.math (Vec / Angle / Matrix).          *)
(* No floats: every number is a rational with an integer numerator tuple over a *)
(* common positive denominator, kept in lowest terms so that equality of values *)
(* is structural equality.  Angles are unit-circle points (cos, sin), which     *)
(* makes "modulo 360" implicit and lets the 90-degree lattice and Pythagorean   *)
(* rationals ((3/5,4/5), (5/13,12/13), ...) be rotated without rounding.        *)
(* Used by Rot (model checking), RotTrace (validation of implementation         *)
(* records) and MathObjOps.                                                     *)
EXTENDS Integers, Sequences, FiniteSets

Abs(x) == IF x < 0 THEN 0 - x ELSE x
RECURSIVE GcdP(_, _)
GcdP(a, b) == IF b = 0 THEN a ELSE GcdP(b, a % b)          \* a, b >= 0
Gcd(a, b) == GcdP(Abs(a), Abs(b))
RECURSIVE GcdSeq(_, _)
GcdSeq(q, g) == IF q = <<>> THEN g ELSE GcdSeq(Tail(q), Gcd(g, Head(q)))

\* a tuple of rationals ns[i]/d in lowest terms, d > 0
Q(ns, d) == LET g == GcdSeq(ns, d)
                sg == IF d < 0 THEN 0 - g ELSE g
            IN  [n |-> [i \in DOMAIN ns |-> ns[i] \div sg], d |-> d \div sg]
\* the numerators of v at denominator q (q must be a multiple of v.d)
Fits(v, q) == q % v.d = 0
Scale(v, q) == [i \in DOMAIN v.n |-> v.n[i] * (q \div v.d)]

(* ---- integer square root (binary search; n < 2^31) ---------------------- *)
RECURSIVE ISqrtB(_, _, _)
ISqrtB(n, lo, hi) == IF lo >= hi THEN lo
                     ELSE LET mid == (lo + hi + 1) \div 2
                          IN  IF mid * mid <= n THEN ISqrtB(n, mid, hi) ELSE ISqrtB(n, lo, mid - 1)
ISqrt(n) == ISqrtB(n, 0, IF n < 46340 THEN n ELSE 46340)

(* ---- unit-circle points --------------------------------------------------- *)
\* the angle whose cosine is c/d and sine s/d  (c*c + s*s = d*d, d > 0), lowest terms
Pt(c, s, d) == LET g == Gcd(Gcd(c, s), d) IN [c |-> c \div g, s |-> s \div g, d |-> d \div g]
IsUnit(p) == p.d > 0 /\ p.c * p.c + p.s * p.s = p.d * p.d
Zero == Pt(1, 0, 1)
\* all points of the circle with denominator exactly dividing D
PtsOf(D) == {Pt(c, s, D) : <<c, s>> \in {w \in ((0 - D)..D) \X ((0 - D)..D) : w[1] * w[1] + w[2] * w[2] = D * D}}
Lattice == PtsOf(1)
\* degrees of a lattice point, and back (integers only)
DegOf(p) == CASE p.c = 1 -> 0 [] p.s = 1 -> 90 [] p.c = 0 - 1 -> 180 [] p.s = 0 - 1 -> 270
PtOfDeg(a) == LET m == a % 360 IN
              CASE m = 0 -> Pt(1, 0, 1) [] m = 90 -> Pt(0, 1, 1) [] m = 180 -> Pt(0 - 1, 0, 1) [] m = 270 -> Pt(0, 0 - 1, 1)
\* sum / negation of angles (complex multiplication / conjugate)
PtAdd(a, b) == Pt(a.c * b.c - a.s * b.s, a.s * b.c + a.c * b.s, a.d * b.d)
PtNeg(a) == [c |-> a.c, s |-> 0 - a.s, d |-> a.d]

Ang(p, y, r) == [p |-> p, y |-> y, r |-> r]
AllTriples(P) == {Ang(p, y, r) : p \in P, y \in P, r \in P}

(* ---- matrices: row vectors, v' = v . M, row i = image of basis vector i --- *)
Ident == Q(<<1, 0, 0, 0, 1, 0, 0, 0, 1>>, 1)
\* Source engine convention.
\* yaw: about Z, counter-clockwise seen from above: +X turns towards +Y
YawM(a) == Q(<<a.c, a.s, 0,   0 - a.s, a.c, 0,   0, 0, a.d>>, a.d)
\* pitch: about Y, positive pitch tips the forward (+X) axis downwards (-Z)
PitchM(a) == Q(<<a.c, 0, 0 - a.s,   0, a.d, 0,   a.s, 0, a.c>>, a.d)
\* roll: about X, positive roll tips the left (+Y) axis upwards (+Z)
RollM(a) == Q(<<a.d, 0, 0,   0, a.c, a.s,   0, 0 - a.s, a.c>>, a.d)

Row(M, i) == <<M.n[3 * i - 2], M.n[3 * i - 1], M.n[3 * i]>>
Col(M, j) == <<M.n[j], M.n[3 + j], M.n[6 + j]>>
Dot(u, v) == u[1] * v[1] + u[2] * v[2] + u[3] * v[3]

MatMul(A, B) ==
    Q([k \in 1..9 |-> Dot(Row(A, (k + 2) \div 3), Col(B, ((k - 1) % 3) + 1))], A.d * B.d)
\* rotate the row vector v by M
VecRot(v, M) == Q([j \in 1..3 |-> Dot(v.n, Col(M, j))], v.d * M.d)
Transpose(M) == [n |-> [k \in 1..9 |-> M.n[3 * (((k - 1) % 3)) + ((k + 2) \div 3)]], d |-> M.d]

\* roll about X first, then pitch about Y, then yaw about Z
FromAngle(a) == MatMul(MatMul(RollM(a.r), PitchM(a.p)), YawM(a.y))
\* the expanded product as the implementation computes it (MatrixBase.from_angle)
FromAngleClosed(a) ==
    LET p == a.p y == a.y r == a.r IN
    Q(<< p.c * y.c * r.d,                          p.c * y.s * r.d,                          0 - p.s * y.d * r.d,
         p.s * r.s * y.c - r.c * y.s * p.d,        p.s * r.s * y.s + r.c * y.c * p.d,        r.s * p.c * y.d,
         p.s * r.c * y.c + r.s * y.s * p.d,        p.s * r.c * y.s - r.s * y.c * p.d,        r.c * p.c * y.d >>,
      p.d * y.d * r.d)

Det(M) == LET n == M.n IN
    n[1] * (n[5] * n[9] - n[6] * n[8]) - n[2] * (n[4] * n[9] - n[6] * n[7]) + n[3] * (n[4] * n[8] - n[5] * n[7])
\* proper rotation: orthonormal rows, determinant +1   (only evaluated for small denominators)
IsRotation(M) ==
    /\ \A i, j \in 1..3 : Dot(Row(M, i), Row(M, j)) = IF i = j THEN M.d * M.d ELSE 0
    /\ Det(M) = M.d * M.d * M.d
SmallDen(M) == M.d <= 1000

(* ---- Euler extraction (QAngle from matrix), with the gimbal-lock branch ---- *)
\* horiz = |forward.xy|.  Branch on horiz > 0.001 exactly; the extraction is exact when horiz
\* is rational (then ok = TRUE).  roll is unobservable at the poles and reported as 0.
NoAng == [ok |-> FALSE, gimbal |-> FALSE, ang |-> Ang(Zero, Zero, Zero)]
ToAngle(M) ==
    IF M.d > 40000 THEN NoAng ELSE
    LET n == M.n d == M.d
        h2 == n[1] * n[1] + n[2] * n[2]
        gimbal == ~(h2 > (d * d) \div 1000000)
    IN  IF gimbal
        THEN IF h2 # 0 THEN [NoAng EXCEPT !.gimbal = TRUE]
             ELSE [ok |-> TRUE, gimbal |-> TRUE,
                   ang |-> Ang(Pt(0, 0 - n[3], d), Pt(n[5], 0 - n[4], d), Zero)]
        ELSE LET h == ISqrt(h2) IN
             IF h * h # h2 THEN NoAng
             ELSE [ok |-> TRUE, gimbal |-> FALSE,
                   ang |-> Ang(Pt(h, 0 - n[3], d), Pt(n[1], n[2], h), Pt(n[9], n[6], h))]

(* ---- operand classes and the dispatch table of @, @=, reflected @ ---------- *)
VecCls == {"Vec", "FrozenVec", "Tuple3"}
AngCls == {"Angle", "FrozenAngle"}
MatCls == {"Matrix", "FrozenMatrix"}
Classes == VecCls \cup AngCls \cup MatCls
Frozen == {"FrozenVec", "FrozenAngle", "FrozenMatrix"}
InPlaceCls == {"Vec", "Angle", "Matrix"}          \* classes that define @= themselves
Forms == {"mm", "imm", "rmm"}                     \* a @ b,  a @= b,  type(b).__rmatmul__(b, a)
Kind(c) == IF c \in VecCls THEN "V" ELSE IF c \in AngCls THEN "A" ELSE "M"
VecRes(c) == IF c = "Tuple3" THEN "Vec" ELSE c

Err == [err |-> TRUE, cls |-> "TypeError", ident |-> "none", mut |-> "none"]
Fresh(c) == [err |-> FALSE, cls |-> c, ident |-> "fresh", mut |-> "none"]
InPlace(c) == [err |-> FALSE, cls |-> c, ident |-> "lhs", mut |-> "lhs"]

\* Rotations are "left rotated by right": the right operand must be a rotation (Angle/Matrix).
Binary(l, r) == IF Kind(r) = "V" THEN Err
                ELSE IF Kind(l) = "V" THEN Fresh(VecRes(l)) ELSE Fresh(l)
Dispatch(l, f, r) ==
    CASE f = "mm"  -> Binary(l, r)
      [] f = "imm" -> IF Kind(r) = "V" THEN Err
                      ELSE IF l \notin InPlaceCls THEN Binary(l, r)     \* frozen / tuple: a = a @ b rebinds
                      \* Angle.__imatmul__ declines a FrozenMatrix; Python then evaluates a = a @ b
                      ELSE IF l = "Angle" /\ r = "FrozenMatrix" THEN Fresh(l)
                      ELSE InPlace(l)
      [] f = "rmm" -> IF Kind(r) = "V" THEN Err                         \* vectors/tuples have no __rmatmul__
                      ELSE IF Kind(l) = "V" THEN Fresh(VecRes(l))
                      ELSE IF Kind(r) = "A" THEN (IF Kind(l) = "A" THEN Fresh(r) ELSE Err)
                      ELSE Fresh(l)
\* what the table has to guarantee whatever its entries are
DispatchSound ==
    \A l \in Classes, f \in Forms, r \in Classes :
        LET d == Dispatch(l, f, r) IN
        /\ d.err <=> (Kind(r) = "V" \/ (f = "rmm" /\ Kind(l) = "M" /\ Kind(r) = "A"))
        /\ ~d.err => /\ d.mut = "lhs" => (l \in InPlaceCls /\ f = "imm" /\ d.ident = "lhs")
                     /\ (l \in Frozen \/ l = "Tuple3") => (d.ident = "fresh" /\ d.mut = "none")
                     /\ Kind(d.cls) = Kind(l)

\* value of "l rotated by r"; a rotation operand (kind A or M) is given by its matrix
EvalRot(lk, lv, rmat) == IF lk = "V" THEN VecRot(lv, rmat) ELSE MatMul(lv, rmat)
=============================================================================
