SPECIFICATION Spec
CONSTANTS
  Ent = {"e1", "e2"}
  Active = {"e1", "e2"}
  ClassIn = {"c", "C", "d", "worldspawn"}
  NameIn = {"", "a", "A", "b"}
  NameU = {"", "a", "A", "b", "a1", "A1", "b1", "a2", "A2", "b2"}
  KeySp = {"targetname", "TargetName"}
  Prefixes = {"", "a"}
  IterOps = {}
  ScanKinds = {}
  CopyMaps = {"m1", "m2"}
  PClass = {}
  PNames = {}
  SpawnIn = {"worldspawn", "WorldSpawn", "c", "d"}
  SpawnQuiet = TRUE
  SpawnNames = {"A"}
INVARIANT Agree
INVARIANT SpawnRule
INVARIANT SearchAgree
INVARIANT NoEmptySets
INVARIANT OnlyOwn
PROPERTY Isolated
PROPERTY SpawnFixed
CONSTRAINT SpawnBound
VIEW View
CHECK_DEADLOCK FALSE
