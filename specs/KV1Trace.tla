------------------------------ MODULE KV1Trace ------------------------------
(* Validates records logged from the real srctools code against KV1Ops.        *)
(* Each record is judged on its own with the same operators the model uses:    *)
(*   k = "rt"   a tree serialised with several option sets, each text parsed    *)
(*              back from a str, from a list of chunks and from a file object   *)
(*   k = "doc"  a text (rendered from TLC's token symbols, or random) parsed    *)
(*              with parse options; the real tokenizer's tokens for it          *)
(*   k = "lex"  a text and the real tokenizer's tokens                          *)
(* Mismatches are printed (one JSON line each), never fatal.                    *)
EXTENDS KV1Ops, TLC, Json, IOUtils

Recs == ndJsonDeserialize(IOEnv.TRACE_FILE)
N == Len(Recs)
VARIABLE i

Bad(c, e) == [ok |-> FALSE, clause |-> c, exp |-> e]
Good == [ok |-> TRUE, clause |-> "", exp |-> 0]
Check(cond, c, e) == IF cond THEN Good ELSE Bad(c, e)

LexOf(r) == [esc |-> r.esc, fold |-> r.fold]
PoOf(r) == [flags |-> r.flags, defaults |-> r.defaults, nk |-> r.po.nk, nv |-> r.po.nv,
            sl |-> r.po.sl, sb |-> r.po.sb, lex |-> LexOf(r)]
NoLineRes(res) == [res EXCEPT !.line = 0, !.node = NoLine(@)]

\* Where the model says that an exception other than KeyValError escapes from parse() (the two
\* IndexError paths behind a flag-skipped block; they are C03's subject, not C01's) the outcome is
\* not compared: whatever a repair makes of these inputs is no concern of the round trip.
Same(logged, model) == model.err = "crash" \/ logged = model

(* ---- k = "rt" --------------------------------------------------------------- *)
\* the one known way the text may deviate: block names between the quotes as they are
RawOnly(doc, o, text) == text # Serialise(doc, o) /\ text = SerialiseG(doc, o, FALSE)
Tag(doc, o, text, c) == IF RawOnly(doc, o, text) THEN c \o ".blockname_raw" ELSE c

RtOK(doc, p) == p.ok /\ p.root /\ NoLineSeq(p.node.k) = RoundTripKids(doc)
RunChecks(r, j) ==
    LET run == r.runs[j]  doc == r.doc  o == run.o  text == run.text
        model == ParseText(text, [DefaultParse EXCEPT !.lex = LexOf(r)])
        T(c) == Tag(doc, o, text, c)
        e == [run |-> j]
    IN <<Check(text = Serialise(doc, o), T("ser.text"), e),
         Check(run.ftext = text, "ser.file", e),
         Check(run.after = doc, "ser.unchanged", e),
         Check(NoBlanks(text) = NoBlanks(r.runs[1].text), "ws.only", e),
         \* the parser model explains what the real parser made of the real text ...
         Check(Same(run.p_str, model), "parse.model.str", e),
         Check(Same(run.p_chunks, model), "parse.model.chunks", e),
         Check(Same(run.p_file, model), "parse.model.file", e),
         Check(Same(run.p_tok, model), "parse.model.tokenizer", e),
         \* ... and that must be the tree
         Check(RtOK(doc, run.p_str), T("rt.str"), e),
         Check(RtOK(doc, run.p_chunks), T("rt.chunks"), e),
         Check(RtOK(doc, run.p_file), T("rt.file"), e),
         Check(RtOK(doc, run.p_tok), T("rt.tokenizer"), e)>>
RtChecks(r) ==
    FoldLeft(LAMBDA acc, j : acc \o RunChecks(r, j), <<>>, [j \in 1..Len(r.runs) |-> j])
    \o <<Check(r.export = Serialise(r.doc, DefaultSer), Tag(r.doc, DefaultSer, r.export, "export.text"), [run |-> 0])>>

(* ---- k = "doc", "lex" -------------------------------------------------------- *)
DocChecks(r) ==
    LET po == PoOf(r)
        toks == Lex(r.text, po.lex)
        res == Parse(toks, po).res
    IN <<Check(r.toks = toks, "lex.tokens", toks),
         Check(Same(r.res, res), "parse.text", res),
         \* the same text in arbitrary chunks and as a file object
         Check(Same(r.res_chunks, res), "parse.chunks", res),
         Check(Same(r.res_file, res), "parse.file", res),
         \* the rendering chosen by the harness is the document TLC explored
         Check(~r.hassyms \/ res.err = "crash" \/ NoLineRes(r.res) = NoLineRes(ParseText(Render(r.syms), po)), "parse.doc",
               IF r.hassyms THEN NoLineRes(ParseText(Render(r.syms), po)) ELSE 0)>>
LexChecks(r) ==
    LET toks == Lex(r.text, LexOf(r)) IN <<Check(r.toks = toks, "lex.tokens", toks)>>

Checks(r) == CASE r.k = "rt" -> RtChecks(r)
               [] r.k = "doc" -> DocChecks(r)
               [] r.k = "lex" -> LexChecks(r)

Init == i = 0
Next == i < N /\ i' = i + 1
\* one line per failing clause of a record (for "rt" records: with the option sets it failed for)
Checked == i = 0 \/ LET cs == Checks(Recs[i])
                        bad == {c \in 1..Len(cs) : ~cs[c].ok}
                        names == {cs[c].clause : c \in bad}
                    IN  \A nm \in names :
                          LET first == CHOOSE c \in bad : cs[c].clause = nm /\ \A d \in bad : cs[d].clause = nm => c <= d
                              e == IF Recs[i].k = "rt" THEN [runs |-> {cs[c].exp.run : c \in {d \in bad : cs[d].clause = nm}}]
                                   ELSE cs[first].exp
                          IN  PrintT(ToJson([tag |-> "MISMATCH", i |-> i, clause |-> nm, exp |-> e]))
AllConsumed == TLCGet("stats").diameter = N + 1
=============================================================================
