------------------------------ MODULE KV1Trace ------------------------------
(* Validates records logged from the real srctools code against KV1Ops.        *)
(*   k = "rt"   a tree serialised with several option sets, each text parsed    *)
(*              back from a str, from a list of chunks and from a file object   *)
(*   k = "doc"  a text (rendered from TLC's token symbols, or random) parsed    *)
(*              from a str, from chunks and from a file object                  *)
(* Mismatches are printed (one JSON line each), never fatal.                    *)
(*                                                                              *)
(* VERDICT clauses demand only what the property states:                        *)
(*   rt.str / rt.chunks / rt.file   parsing the text gives the tree back: same  *)
(*        shape, order, names (original casing), values - whatever the layout   *)
(*   rt.filetext / rt.export   the same for the text serialise(file) wrote and  *)
(*        for export()                                                          *)
(*   ser.unchanged   serialising did not change the tree                        *)
(*   ws.only   the texts of two option sets differ only in whitespace outside   *)
(*        the quoted strings                                                    *)
(*   parse.chunks / parse.file   a document parses alike from a str, from       *)
(*        arbitrary chunks and from a file object (same tree / both refused)    *)
(* DIAGNOSTIC clauses (prefix "diag.") compare with the exact model: the exact  *)
(* text of Serialise (indentation, line layout, brace placement, escape         *)
(* spelling), the parser model (line numbers, error kinds, flag and option      *)
(* semantics) and the lexer model.  They are counted in the evidence and never  *)
(* make a violation: the property fixes none of these details.                  *)
EXTENDS KV1Ops, TLC, Json, IOUtils

Recs == ndJsonDeserialize(IOEnv.TRACE_FILE)
N == Len(Recs)
VARIABLE i

Bad(c, e) == [ok |-> FALSE, clause |-> c, exp |-> e]
Good == [ok |-> TRUE, clause |-> "", exp |-> 0]
Check(cond, c, e) == IF cond THEN Good ELSE Bad(c, e)

LexOf(r) == [esc |-> r.esc, fold |-> r.fold]
PoOf(r) == [flags |-> r.flags, defaults |-> r.defaults, nk |-> r.po.nk, nv |-> r.po.nv,
            sl |-> r.po.sl, sb |-> r.po.sb, lex |-> LexOf(r)]
NoLineRes(res) == [res EXCEPT !.line = 0, !.node = NoLine(@)]

\* Where the model says that an exception other than KeyValError escapes from parse() (the two
\* IndexError paths behind a flag-skipped block; they are C03's subject, not C01's) the outcome is
\* not compared: whatever a repair makes of these inputs is no concern of the round trip.
Same(logged, model) == model.err = "crash" \/ logged = model

(* ---- k = "rt" --------------------------------------------------------------- *)
RtOK(doc, p) == p.ok /\ p.root /\ NoLineSeq(p.node.k) = RoundTripKids(doc)
RunChecks(r, j) ==
    LET run == r.runs[j]  doc == r.doc  o == run.o  text == run.text
        model == ParseText(text, [DefaultParse EXCEPT !.lex = LexOf(r)])
        e == [run |-> j]
    IN <<\* the property: the reader recovers the tree, from every form of delivery
         Check(RtOK(doc, run.p_str), "rt.str", e),
         Check(RtOK(doc, run.p_chunks), "rt.chunks", e),
         Check(RtOK(doc, run.p_file), "rt.file", e),
         Check(RtOK(doc, run.p_ftext), "rt.filetext", e),
         \* the property: serialising leaves the tree alone
         Check(run.after = doc, "ser.unchanged", e),
         \* the property: options change whitespace only (outside the quoted strings)
         Check(SqueezeWs(text) = SqueezeWs(r.runs[1].text), "ws.only", e),
         \* diagnostics: the exact layout and the parser model
         Check(text = Serialise(doc, o), "diag.ser.text", e),
         Check(run.ftext = text, "diag.ser.file", e),
         Check(RtOK(doc, run.p_tok), "diag.rt.tokenizer", e),
         Check(Same(run.p_str, model), "diag.parse.model.str", e),
         Check(Same(run.p_chunks, model), "diag.parse.model.chunks", e),
         Check(Same(run.p_file, model), "diag.parse.model.file", e),
         Check(Same(run.p_tok, model), "diag.parse.model.tokenizer", e)>>
RtChecks(r) ==
    FoldLeft(LAMBDA acc, j : acc \o RunChecks(r, j), <<>>, [j \in 1..Len(r.runs) |-> j])
    \o <<Check(RtOK(r.doc, r.p_export), "rt.export", [run |-> 0]),
         Check(r.export = Serialise(r.doc, DefaultSer), "diag.export.text", [run |-> 0])>>

(* ---- k = "doc" ---------------------------------------------------------------- *)
\* what the reader recovered, without line numbers; refusals are alike whatever their wording
Alike(a, b) == a.ok = b.ok /\ (a.ok => (a.root = b.root /\ NoLine(a.node) = NoLine(b.node)))
DocChecks(r) ==
    LET po == PoOf(r)
        toks == Lex(r.text, po.lex)
        res == Parse(toks, po).res
    IN <<\* the property's three forms of delivery are interchangeable
         Check(Alike(r.res_chunks, r.res), "parse.chunks", r.res),
         Check(Alike(r.res_file, r.res), "parse.file", r.res),
         \* diagnostics: lexer and parser model (tokens, line numbers, error kinds, flags, options)
         Check(r.toks = toks, "diag.lex.tokens", toks),
         Check(Same(r.res, res), "diag.parse.text", res),
         Check(Same(r.res_chunks, res), "diag.parse.chunks", res),
         Check(Same(r.res_file, res), "diag.parse.file", res),
         \* the rendering chosen by the harness is the document TLC explored
         Check(~r.hassyms \/ res.err = "crash" \/ NoLineRes(r.res) = NoLineRes(ParseText(Render(r.syms), po)), "diag.parse.doc",
               IF r.hassyms THEN NoLineRes(ParseText(Render(r.syms), po)) ELSE 0)>>

Checks(r) == CASE r.k = "rt" -> RtChecks(r)
               [] r.k = "doc" -> DocChecks(r)

Init == i = 0
Next == i < N /\ i' = i + 1
\* one line per failing clause of a record (for "rt" records: with the option sets it failed for)
Checked == i = 0 \/ LET cs == Checks(Recs[i])
                        bad == {c \in 1..Len(cs) : ~cs[c].ok}
                        names == {cs[c].clause : c \in bad}
                    IN  \A nm \in names :
                          LET first == CHOOSE c \in bad : cs[c].clause = nm /\ \A d \in bad : cs[d].clause = nm => c <= d
                              e == IF Recs[i].k = "rt" THEN [runs |-> {cs[c].exp.run : c \in {d \in bad : cs[d].clause = nm}}]
                                   ELSE cs[first].exp
                          IN  PrintT(ToJson([tag |-> "MISMATCH", i |-> i, clause |-> nm, exp |-> e]))
AllConsumed == TLCGet("stats").diameter = N + 1
=============================================================================
