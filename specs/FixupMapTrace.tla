----------------------------- MODULE FixupMapTrace -----------------------------
(* Validates records logged from real EntityFixup objects against FixupMapOps.  *)
(* pre/post are lists of [name (folded key), var, val, idx].                    *)
EXTENDS FixupMapOps, TLC, Json, IOUtils
Recs == ndJsonDeserialize(IOEnv.TRACE_FILE)
N == Len(Recs)
VARIABLE i
FnOf(q) == [k \in {q[j].name : j \in 1..Len(q)} |->
              LET e == q[CHOOSE j \in 1..Len(q) : q[j].name = k] IN [var |-> e.var, val |-> e.val, idx |-> e.idx]]
NoDupKeys(q) == \A a, b \in 1..Len(q) : a # b => q[a].name # q[b].name
Bad(c, e) == [ok |-> FALSE, clause |-> c, exp |-> e]
Good == [ok |-> TRUE, clause |-> "", exp |-> 0]
Verdict(r) ==
    LET pre == FnOf(r.pre) post == FnOf(r.post) a == r.a
        e == CASE a.op = "set" -> Set(pre, a.s, a.val)
               [] a.op = "del" -> Del(pre, a.s)
               [] a.op = "setdefault" -> SetDefault(pre, a.s, a.val).s
               [] a.op = "clear" -> <<>>
               [] OTHER -> pre
        eres == CASE a.op = "get" -> [val |-> Get(pre, a.s), has |-> Has(pre, a.s)]
                  [] a.op = "setdefault" -> SetDefault(pre, a.s, a.val).res
                  [] a.op = "copy" -> Export(pre)         \* the copy exports like the source ...
                  [] OTHER -> r.res
    IN  IF ~NoDupKeys(r.post) THEN Bad("fixmap.keys", 0)
        ELSE IF ~(Distinct(post) /\ Positive(post)) THEN Bad("fixmap.index", Export(e))
        ELSE IF post # e THEN Bad("fixmap.state", Export(e))
        ELSE IF r.res # eres THEN Bad("fixmap.result", eres)
        ELSE IF r.exported # Export(post) THEN Bad("fixmap.export", Export(post))
        ELSE Good
Init == i = 0
Next == i < N /\ i' = i + 1
Checked == i = 0 \/ LET v == Verdict(Recs[i]) IN
              v.ok \/ PrintT(ToJson([tag |-> "MISMATCH", i |-> i, clause |-> v.clause, exp |-> v.exp]))
AllConsumed == TLCGet("stats").diameter = N + 1
=============================================================================
