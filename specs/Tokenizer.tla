------------------------------- MODULE Tokenizer -------------------------------
(* C03: tokenizing is total, linear and independent of chunking.                *)
(* The lexer of TokenizerOps as a TLC state machine: one transition per          *)
(* character delivered (one _next_char call), one action per lexer mode.         *)
(*                                                                              *)
(* Kind = "family": every text over Alphabet up to MaxLen is grown one character *)
(*   at a time (phase "grow"; every text is a state), then for every option set  *)
(*   of OptSets(text) (all assignments of the options whose trigger characters   *)
(*   occur, the others as in Base) the text is run to EOF-for-ever or an error.  *)
(* Kind = "nd": the next character is chosen when it is needed; with the VIEW    *)
(*   that hides the collected value, the line and the history this is the mode x *)
(*   flags x option set x character transition table, printed as EDGE lines with *)
(*   a concrete text that reaches each transition (direction A).                 *)
EXTENDS TokenizerOps, FiniteSets, TLC, Json

CONSTANTS Kind, Alphabet, MaxLen,
          Base,          \* values of the options that are irrelevant to a text
          EdgeOpts,      \* option sets of the "nd" machine
          ChunkLen,      \* texts up to this length: LexC over every chunking = Lex
          ChunkEmpty,    \* empty chunks per gap in that comparison
          IrrLen         \* texts up to this length: irrelevant options do not matter (all 128 sets)

\* " \ / * CR LF space a # { [ ] ( ) : + n
Alpha17 == {34, 92, 47, 42, 13, 10, 32, 97, 35, 123, 91, 93, 40, 41, 58, 43, 110}
\* ... and } = , TAB ' ; A BOM ?
Alpha26 == Alpha17 \cup {125, 61, 44, 9, 39, 59, 65, 65279, 63}
\* enough to reach every mode within three characters: / * " \ a [ ( # LF
AlphaCov == {47, 42, 34, 92, 97, 91, 40, 35, 10}
EdgeOptSets == {TokDefaults, KvOpts, AllFalse, AllTrue}
                 \cup {[AllFalse EXCEPT ![n] = TRUE] : n \in OptNames}
                 \cup {[AllTrue EXCEPT ![n] = FALSE] : n \in OptNames}

OptSets(text) == {o \in AllOpts : \A n \in OptNames \ Relevant(text) : o[n] = Base[n]}

VARIABLES text,     \* the text (grown in phase "grow", or extended on demand when Kind = "nd")
          ended,    \* Kind = "nd": no further character will be appended
          o,        \* option set of the run
          ph,       \* "grow" | "run" | "eof" | "err"
          p,        \* flat cursor: position of the next character to deliver
          redel,    \* the character at p is delivered for the second time
          st,       \* lexer state
          toks, err,
          n,        \* characters delivered (= _next_char calls) so far
          eofs,     \* of which end-of-input deliveries
          again,    \* calls made after the first EOF token
          act
vars == <<text, ended, o, ph, p, redel, st, toks, err, n, eofs, again>>

Cf == Cfg(o)

Init == /\ text = <<>> /\ p = 1 /\ redel = FALSE /\ st = LInit /\ toks = <<>> /\ err = NoErrL
        /\ n = 0 /\ eofs = 0 /\ again = 0 /\ act = [op |-> "init"]
        /\ IF Kind = "family" THEN ph = "grow" /\ o = Base /\ ended = TRUE
           ELSE ph = "run" /\ o \in EdgeOpts /\ ended = FALSE

Grow == /\ ph = "grow" /\ Len(text) < MaxLen
        /\ \E c \in Alphabet : text' = Append(text, c)
        /\ act' = [op |-> "grow"]
        /\ UNCHANGED <<ended, o, ph, p, redel, st, toks, err, n, eofs, again>>
Begin == /\ ph = "grow"
         /\ \E oo \in OptSets(text) : o' = oo
         /\ ph' = "run" /\ act' = [op |-> "begin"]
         /\ UNCHANGED <<text, ended, p, redel, st, toks, err, n, eofs, again>>

\* deliver character c (already in the text, or appended now) to the lexer
Deliver(c, txt, end) ==
    LET r == Step(st, c, Cf)
        isEof == r.emit # <<>> /\ r.emit[1].t = "EOF"
    IN  /\ text' = txt /\ ended' = end
        /\ st' = r.st
        /\ toks' = IF r.emit = <<>> THEN toks ELSE Append(toks, LTok(r.emit[1], r.st.l))
        /\ err' = IF r.err = NoErr THEN NoErrL ELSE [id |-> r.err.id, arg |-> r.err.arg, l |-> r.st.l]
        /\ ph' = IF r.err # NoErr THEN "err" ELSE IF isEof THEN "eof" ELSE "run"
        /\ p' = IF r.rew THEN p ELSE p + 1
        /\ redel' = r.rew
        /\ n' = n + 1 /\ eofs' = IF c = EOFC THEN eofs + 1 ELSE eofs
        /\ act' = [op |-> "step", m |-> st.m, c |-> c, k |-> n + 1, rew |-> r.rew,
                   emit |-> (IF r.emit = <<>> THEN "" ELSE r.emit[1].t), err |-> r.err.id, m2 |-> r.st.m]
        /\ UNCHANGED <<o, again>>
StepIn(mode) ==
    /\ ph = "run" /\ st.m = mode
    /\ IF p <= Len(text) THEN Deliver(text[p], text, ended)
       ELSE IF ended THEN Deliver(EOFC, text, ended)
       ELSE \/ \E c \in Alphabet : Deliver(c, Append(text, c), FALSE)
            \/ Deliver(EOFC, text, TRUE)
StepTop == st.m = "Top" /\ StepIn("Top")
StepSlash == st.m = "Slash" /\ StepIn("Slash")
StepLine == st.m = "Line" /\ StepIn("Line")
StepStar == st.m = "Star" /\ StepIn("Star")
StepStarStar == st.m = "StarStar" /\ StepIn("StarStar")
StepStr == st.m = "Str" /\ StepIn("Str")
StepStrEsc == st.m = "StrEsc" /\ StepIn("StrEsc")
StepFlag == st.m = "Flag" /\ StepIn("Flag")
StepParen == st.m = "Paren" /\ StepIn("Paren")
StepDir == st.m = "Dir" /\ StepIn("Dir")
StepBare == st.m = "Bare" /\ StepIn("Bare")
\* calling again after EOF: the end of the input is delivered again
Again == /\ ph = "eof" /\ again < 2
         /\ LET r == Step(st, EOFC, Cf) IN
             /\ st' = r.st
             /\ toks' = IF r.emit = <<>> THEN toks ELSE Append(toks, LTok(r.emit[1], r.st.l))
             /\ err' = IF r.err = NoErr THEN NoErrL ELSE [id |-> r.err.id, arg |-> r.err.arg, l |-> r.st.l]
         /\ again' = again + 1 /\ act' = [op |-> "again"]
         /\ UNCHANGED <<text, ended, o, ph, p, redel, n, eofs>>
Next == \/ Grow \/ Begin
        \/ StepTop \/ StepSlash \/ StepLine \/ StepStar \/ StepStarStar \/ StepStr \/ StepStrEsc
        \/ StepFlag \/ StepParen \/ StepDir \/ StepBare
        \/ Again
Spec == Init /\ [][Next]_vars

(* ---- the listed property --------------------------------------------------------- *)
Running == ph \in {"run", "eof", "err"}
\* linear: every position, and the end, is delivered at most twice ...
StepBound == Running => n <= 2 * (Len(text) + 1)
\* ... because a character that is delivered again is never pushed back a second time
NoDoubleRewind == (ph = "run" /\ redel) => ~Step(st, CharAt(text, p), Cf).rew
\* the run ends at the latest with the second delivery of the end of the input
EndsAtEof == Running => eofs <= 2 /\ (eofs = 2 => ph # "run")
\* total: in every state of a run the next step is defined (Step is a total function of mode x character)
StepDefined == ph = "run" => LET r == Step(st, CharAt(text, p), Cf) IN r.st.m \in Modes /\ r.err.id \in ErrIds \cup {"none"}
\* EOF for ever: after the first EOF every further call returns EOF and changes nothing
EofForEver == ph = "eof" =>
    /\ st.m = "Top" /\ err = NoErrL
    /\ toks[Len(toks)].t = "EOF"
    /\ \A k \in (Len(toks) - again)..Len(toks) : toks[k] = toks[Len(toks)]
    /\ LET r == Step(st, EOFC, Cf) IN r.st = st /\ r.err = NoErr /\ r.emit = <<EofTok>> /\ ~r.rew
\* exactly one error, which is of the error alphabet, and nothing after it
ErrOnce == ph = "err" => err.id \in ErrIds /\ \A k \in 1..Len(toks) : toks[k].t # "EOF"
NoErrEarly == ph \in {"run", "grow"} => err = NoErrL /\ \A k \in 1..Len(toks) : toks[k].t # "EOF"
\* line numbers never decrease, and are those of the tokens in order
LineMonotone == [][st'.l >= st.l]_vars
TokLines == \A k \in 1..Len(toks) : toks[k].l >= 1 /\ (k > 1 => toks[k].l >= toks[k - 1].l) /\ toks[k].l <= st.l
\* the line counter never exceeds 1 + the number of CR and LF delivered
RECURSIVE CountBreaks(_, _)
CountBreaks(t, k) == IF k > Len(t) THEN 0 ELSE (IF t[k] \in {CR, LF} THEN 1 ELSE 0) + CountBreaks(t, k + 1)
LineBound == st.l <= 1 + CountBreaks(text, 1)
\* token shapes
TokShape == \A k \in 1..Len(toks) :
    /\ toks[k].t \in ValueToks \/ toks[k].v = FixedVal(toks[k].t)
    /\ (toks[k].t = "PAREN_ARGS" => o.sp) /\ (toks[k].t = "PAREN_OPEN" => ~o.sp)
    /\ (toks[k].t = "PROP_FLAG" => o.sb) /\ (toks[k].t = "BRACK_OPEN" => ~o.sb)
    /\ (toks[k].t = "COMMENT" => o.keep) /\ (toks[k].t = "COLON" => o.colon) /\ (toks[k].t = "PLUS" => o.plus)
\* the functional definition used by the record validators is this machine
LexIsMachine == (Kind = "family" /\ ph \in {"eof", "err"} /\ again = 0) =>
    LET L == Lex(text, Cf) IN L.toks = toks /\ L.err = err /\ L.n = n /\ L.st = st

\* the caller's view: a peeked or pushed-back token is what the next call returns, and neither
\* disturbs the stream behind it
CallerLaws == (Kind = "family" /\ ph \in {"eof", "err"} /\ again = 0) =>
    LET L == [toks |-> toks, err |-> err] IN
    \A k \in 0..Len(toks) :
        LET s == [k |-> k, pb |-> <<>>, l |-> IF k = 0 THEN 1 ELSE toks[k].l]
            c == Call(L, s)  pk == Peek(L, s)  pu == PushBack(s, "NEWLINE", <<>>).s
        IN  /\ pk.res = c.res /\ pk.err = c.err
            /\ (c.err = NoErrL => (Call(L, pk.s) = c /\ pk.s.l = c.s.l))
            /\ Call(L, pu).res = NewlineTok /\ Call(L, pu).s = s
            /\ (k < Len(toks) => c.res = Tok(toks[k + 1].t, toks[k + 1].v) /\ c.s.l = toks[k + 1].l)

(* ---- chunk independence at the level of the model ------------------------------------ *)
\* the same lexer on top of the chunked cursor, for every chunking, sees the same thing
Fresh == ph = "run" /\ n = 0 /\ Kind = "family"
ChunkIndep == (Fresh /\ Len(text) <= ChunkLen) =>
    LET L == Lex(text, Cf) IN
        /\ LexC(CStr(text), Cf) = L
        /\ \A ch \in Chunkings(text, ChunkEmpty) : LexC(CIter(ch), Cf) = L
\* options whose trigger characters do not occur do not matter
OptIrrelevant == (Fresh /\ Len(text) <= IrrLen) =>
    \A o2 \in AllOpts : (\A nm \in Relevant(text) : o2[nm] = o[nm]) =>
        LET A == Lex(text, Cfg(o2)) B == Lex(text, Cf) IN A.toks = B.toks /\ A.err = B.err

(* ---- counting and printing ------------------------------------------------------------ *)
RECURSIVE SetToSeq(_)
SetToSeq(S) == IF S = {} THEN <<>> ELSE LET x == CHOOSE y \in S : \A z \in S : y <= z IN <<x>> \o SetToSeq(S \ {x})
RECURSIVE Pow2(_)
Pow2(k) == IF k = 0 THEN 1 ELSE 2 * Pow2(k - 1)
RECURSIVE SumOver(_, _)
RECURSIVE RunsFrom(_)
\* number of runs (text, option set) of the family that extend t
RunsFrom(t) == Pow2(Cardinality(Relevant(t))) + (IF Len(t) < MaxLen THEN SumOver(t, Alphabet) ELSE 0)
SumOver(t, S) == IF S = {} THEN 0 ELSE LET c == CHOOSE x \in S : TRUE IN RunsFrom(Append(t, c)) + SumOver(t, S \ {c})
ASSUME PrintT(ToJson([tag |-> "PARAMS", kind |-> Kind, alphabet |-> SetToSeq(Alphabet), maxlen |-> MaxLen, base |-> Base,
                      runs |-> IF Kind = "family" THEN RunsFrom(<<>>) ELSE 0]))

\* nd machine: what decides the successors of a state (the rest is hidden)
Pend == IF p <= Len(text) THEN text[p] ELSE IF ended THEN EOFC ELSE 0 - 2
View == <<o, ph, st.m, st.cr, st.scr, st.l = 1, Pend, again>>
Emit == PrintT(ToJson([tag |-> "EDGE", o |-> o, pre |-> text, a |-> act', text |-> text', ended |-> ended']))
=============================================================================
