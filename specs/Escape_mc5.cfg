SPECIFICATION Spec
CONSTANTS
  Alphabet <- Alpha14
  MaxLen = 5
  StepLen = 4
  LexLen = 4
  OptSets <- EscOptSets
INVARIANT Inverse
INVARIANT LexInverse
INVARIANT NoQuote
INVARIANT NoBreak
INVARIANT Paired
INVARIANT NoEarlyClose
INVARIANT NoError
INVARIANT Closed
INVARIANT Finishes
CHECK_DEADLOCK FALSE
