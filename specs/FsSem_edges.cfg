SPECIFICATION Spec
CONSTANTS
  MaxFiles = 2
  MaxMembers = 2
  MaxPfx = 2
  WithCase = TRUE
INVARIANT WalkAll
INVARIANT WalkedLookupable
INVARIANT FirstWins
INVARIANT Independent
INVARIANT ComposeRefines
PROPERTY Priority
VIEW View
ACTION_CONSTRAINT Emit
CHECK_DEADLOCK FALSE
