------------------------------- MODULE FloatText -------------------------------
(* C05 (text form): the canonical decimal text is plain, has at most Places     *)
(* decimals, is never a negative zero, and reads back to exactly the rounded    *)
(* number; three of them joined by single spaces split back into the same       *)
(* three.  Checked exhaustively for a small number of places; the same          *)
(* operators judge the implementation's texts in FloatTextTrace.                *)
EXTENDS FloatTextOps, TLC, Json

CONSTANTS Places, MaxIp
VARIABLES c, act
vars == <<c>>

Nums == [neg : BOOLEAN, ip : {DigitsOf(n) : n \in 0..MaxIp}, frac : 0..(Pow10(Places) - 1)]
K(neg, n, f) == [neg |-> neg, ip |-> DigitsOf(n), frac |-> f]
VecNums == {K(TRUE, 0, 0), K(FALSE, 0, 1), K(TRUE, 1, Pow10(Places) \div 2), K(FALSE, MaxIp, 0), K(TRUE, 0, Pow10(Places) - 1)}

Init == c = [kind |-> "idle"] /\ act = "init"
PickNum == \E k \in Nums : c' = [kind |-> "num", k |-> k, text |-> Canon(k, Places)] /\ act' = "num"
PickVec == \E a \in VecNums, b \in VecNums, d \in VecNums :
              /\ c' = [kind |-> "vec", ks |-> <<a, b, d>>,
                       text |-> Join3(Canon(a, Places), Canon(b, Places), Canon(d, Places))]
              /\ act' = "vec"
Next == c.kind = "idle" /\ (PickNum \/ PickVec)
Spec == Init /\ [][Next]_vars

Normal(k) == [k EXCEPT !.neg = k.neg /\ ~IsZero(k)]
TextOK(t, k) == /\ Plain(t, Places)
                /\ ~NegZero(t, Places)
                /\ Parse(t, Places) = Normal(k)
                /\ (FracPart(t) # <<>> => FracPart(t)[Len(FracPart(t))] # 48)     \* no trailing zero
                /\ IntPart(t) = StripZerosLeft(IntPart(t))                        \* no leading zero
NumOK == c.kind = "num" => TextOK(c.text, c.k)
VecOK == c.kind = "vec" => LET parts == SplitAt(c.text, Space) IN
            /\ Len(parts) = 3
            /\ \A j \in 1..3 : TextOK(parts[j], c.ks[j])
\* two different numbers never share a text (follows from NumOK; stated for the record)
Emit == PrintT(ToJson([tag |-> "EDGE", c |-> c']))
=============================================================================
