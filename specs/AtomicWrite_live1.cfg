SPECIFICATION FairSpec
CONSTANTS
  W = {"w1"}
  MaxBody = 2
  Faults = 1
  Stale = {1}
  NNames = 4
  AnyName = FALSE
  DirMissing = TRUE
  AnySplit = TRUE
  KeepHist = FALSE
  Reusers = {}
  MaxRounds = 1
  MinBody = 0
INVARIANT DestOldOrNew
INVARIANT FailedIsClean
INVARIANT DoneIsNew
INVARIANT TempsDisjoint
PROPERTY Termination
CHECK_DEADLOCK FALSE
