SPECIFICATION FairSpec
CONSTANTS
  W = {"w1"}
  MaxBody = 2
  Faults = 1
  Stale = {1}
  DirMissing = TRUE
  AnySplit = TRUE
  KeepHist = FALSE
INVARIANT DestOldOrNew
INVARIANT FailedIsClean
INVARIANT DoneIsNew
INVARIANT TempsDisjoint
PROPERTY Termination
PROPERTY Settled
CHECK_DEADLOCK FALSE
