----------------------------- MODULE DeferredTrace -----------------------------
(* Validates records from the real binformat.DeferredWrites against DeferredOps. *)
EXTENDS DeferredOps, TLC, Json, IOUtils
Recs == ndJsonDeserialize(IOEnv.TRACE_FILE)
N == Len(Recs)
VARIABLE i
StOf(j) == [file |-> j.file, cur |-> j.cur,
            loc |-> [k \in {j.loc[x].k : x \in 1..Len(j.loc)} |->
                        LET e == j.loc[CHOOSE x \in 1..Len(j.loc) : j.loc[x].k = k] IN [pos |-> e.pos, size |-> e.size]],
            data |-> [k \in {j.loc[x].k : x \in {y \in 1..Len(j.loc) : j.data[y] # 0}} |->
                        j.data[CHOOSE x \in 1..Len(j.loc) : j.loc[x].k = k]],
            order |-> [x \in 1..Len(j.loc) |-> j.loc[x].k]]
Bad(c, e) == [ok |-> FALSE, clause |-> c, exp |-> e]
Good == [ok |-> TRUE, clause |-> "", exp |-> 0]
Verdict(r) ==
    LET pre == StOf(r.pre) post == StOf(r.post) a == r.a
        e == CASE a.op = "body" -> [s |-> WriteBody(pre, a.n), res |-> "ok"]
               [] a.op = "defer" -> [s |-> Defer(pre, a.k, a.size, a.w), res |-> "ok"]
               [] a.op = "set" -> SetData(pre, a.k)
               [] a.op = "pos" -> [s |-> pre, res |-> PosOf(pre, a.k)]
               [] a.op = "write" -> WriteAll(pre)
    IN  IF e.res # r.res THEN Bad("deferred.result", e.res)
        ELSE IF e.s.file # post.file THEN Bad("deferred.file", e.s.file)
        ELSE IF e.s.cur # post.cur THEN Bad("deferred.cursor", e.s.cur)
        ELSE IF e.s.loc # post.loc \/ e.s.order # post.order THEN Bad("deferred.slots", e.s.order)
        ELSE IF e.s.data # post.data THEN Bad("deferred.pending", DOMAIN e.s.data)
        ELSE Good
Init == i = 0
Next == i < N /\ i' = i + 1
Checked == i = 0 \/ LET v == Verdict(Recs[i]) IN
              v.ok \/ PrintT(ToJson([tag |-> "MISMATCH", i |-> i, clause |-> v.clause, exp |-> v.exp]))
AllConsumed == TLCGet("stats").diameter = N + 1
=============================================================================
