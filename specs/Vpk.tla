--------------------------------- MODULE Vpk ---------------------------------
(* C13: VPK archives return exactly what was last written, across reopen.        *)
(*                                                                              *)
(* One archive location (a _dir file with numbered archives, or a single-file    *)
(* VPK) used through a sequence of VPK objects: Reopen(mode) replaces the        *)
(* object (mode "w" wipes the _dir file, "a"/"r" load it), AddFile / NewFile /   *)
(* Write / Del change the object, WriteDir makes the _dir file equal to it.      *)
(* Numbered archives are only ever appended to and survive everything.           *)
(* Placement follows the format: at most Cut bytes (the preload limit, and never *)
(* more than 65535 because the length field has 16 bits) live in the directory   *)
(* entry, the rest goes to the numbered archive, or after the tree of the _dir   *)
(* file when the archive index is None, the VPK is a single file, or there is    *)
(* no preload limit (None: everything stays in the directory file).              *)
EXTENDS VpkOps, TLC, Json

CONSTANTS Names,      \* file names (abstract: every spelling of a name is the same name)
          SizeSel,    \* which content-size table
          Limit,      \* dir_data_limit (-1 = None)
          FName,      \* the name of the archive file ("..._dir.vpk" = directory archive, else single file)
          ArchIdx,    \* archive indexes offered to add_file / write (-1 = None)
          NArch,      \* numbered archives 0 .. NArch-1
          Cs,         \* content ids offered to add_file / write (0 = empty)
          MaxW        \* bound on the number of effective data writes (archives only grow)

SizeTab == CASE SizeSel = "small" -> <<2, 3, 4>>               \* limit 2: = limit, limit+1, limit+2
             [] SizeSel = "tiny"  -> <<1, 2, 3>>
             [] SizeSel = "edge"  -> <<1, 65535, 65536>>       \* around the 16-bit preload length
             [] SizeSel = "kilo"  -> <<1024, 1025, 70000>>     \* default limit 1024
             [] SizeSel = "huge"  -> <<65535, 65536, 300000>>
Contents == 1..Len(SizeTab)
Modes == {"r", "w", "a"}
NoneIdx == 0 - 1
\* (a .cfg file cannot hold negative numbers)
IdxAll == {NoneIdx, 0, 1}
IdxNum == {0, 1}
IdxN0 == {NoneIdx, 0}
LimNone == 0 - 1
CsAll == {0, 1, 2, 3}
Cs023 == {0, 2, 3}
Cs23 == {2, 3}

VARIABLES st,     \* the state record of VpkOps
          nw,     \* effective data writes so far
          act     \* last action (hidden by VIEW; printed by Emit)
vars == <<st, nw>>

Init == /\ st = [sz |-> SizeTab, limit |-> Limit, fname |-> FName, single |-> ~IsDirName(FName), mode |-> "none",
                 tree |-> Empty, foot |-> <<>>, arch |-> [i \in 1..NArch |-> <<>>],
                 disk |-> [st |-> "missing", tree |-> Empty, foot |-> <<>>],
                 want |-> Empty, wantDisk |-> Empty]
        /\ nw = 0
        /\ act = [op |-> "init"]

Opened == st.mode # "none"
Take(r, a) == /\ st' = r.s
              /\ act' = [a EXCEPT !.res = r.res]
Grows(r) == r.s.arch # st.arch \/ r.s.foot # st.foot \/ r.s.tree # st.tree

DoReopen(m) == /\ Take(Reopen(st, m), [op |-> "reopen", n |-> "", c |-> 0, a |-> NoneIdx, m |-> m, res |-> ""])
               /\ UNCHANGED nw
DoNewFile(n) == /\ Opened
                /\ Take(NewFile(st, n), [op |-> "newfile", n |-> n, c |-> 0, a |-> NoneIdx, m |-> "", res |-> ""])
                /\ UNCHANGED nw
DoAddFile(n, c, a) ==
    /\ Opened
    /\ LET r == AddFile(st, n, c, a) IN
         /\ (Grows(r) => nw < MaxW)
         /\ Take(r, [op |-> "addfile", n |-> n, c |-> c, a |-> a, m |-> "", res |-> ""])
         /\ nw' = IF Grows(r) THEN nw + 1 ELSE nw
DoWrite(n, c, a) ==
    /\ Opened
    /\ LET r == Write(st, n, c, a) IN
         /\ (Grows(r) => nw < MaxW)
         /\ Take(r, [op |-> "write", n |-> n, c |-> c, a |-> a, m |-> "", res |-> ""])
         /\ nw' = IF Grows(r) THEN nw + 1 ELSE nw
DoDel(n) == /\ Opened
            /\ Take(Del(st, n), [op |-> "del", n |-> n, c |-> 0, a |-> NoneIdx, m |-> "", res |-> ""])
            /\ UNCHANGED nw
DoWriteDir == /\ Opened
              /\ Take(WriteDir(st), [op |-> "writedir", n |-> "", c |-> 0, a |-> NoneIdx, m |-> "", res |-> ""])
              /\ UNCHANGED nw

Next == \/ \E m \in Modes : DoReopen(m)
        \/ \E n \in Names : DoNewFile(n) \/ DoDel(n)
        \/ \E n \in Names, c \in Cs, a \in ArchIdx : DoAddFile(n, c, a) \/ DoWrite(n, c, a)
        \/ DoWriteDir
Spec == Init /\ [][Next]_vars

(* ---- the listed property ------------------------------------------------------------ *)
ReadBack == ReadBackOK(st)
DiskReadBack == DiskOK(st)
Fits == PreloadFits(st)
ArchivesAppendOnly == [][AppendOnly(st, st')]_vars
\* a read-only object rejects every mutation and nothing changes
ReadOnlyRejects == [][(st.mode = "r" /\ st'.mode = "r") => (st' = st)]_vars
\* a failed operation changes nothing
FailureIsNoop == [][(act'.res # "ok") => st' = st]_vars
\* the _dir file only changes through WriteDir or opening for writing
DirFileStable == [][(st'.disk # st.disk) => act'.op \in {"writedir", "reopen"}]_vars

View == vars
\* (arch[i] is the contents of the file ArchName(FName, i - 1); the harness lists the directory by name)
Obs(s) == [mode |-> s.mode, tree |-> s.tree, foot |-> s.foot, arch |-> s.arch, disk |-> s.disk,
           want |-> s.want, wantDisk |-> s.wantDisk]
Emit == PrintT(ToJson([tag |-> "EDGE", s |-> Obs(st), a |-> act', t |-> Obs(st')]))
=============================================================================
