SPECIFICATION Spec
CONSTANTS
  MaxFiles = 1
  MaxMembers = 4
  WithCase = FALSE
INVARIANT WalkAll
INVARIANT WalkedLookupable
INVARIANT FirstWins
INVARIANT Independent
INVARIANT ComposeRefines
PROPERTY Priority
VIEW View
CHECK_DEADLOCK FALSE
