SPECIFICATION Spec
CONSTANTS
  MaxFiles = 1
  MaxMembers = 4
  MaxPfx = 1
  WithCase = FALSE
INVARIANT WalkAll
INVARIANT WalkedLookupable
INVARIANT FirstWins
INVARIANT Independent
INVARIANT ComposeRefines
PROPERTY Priority
VIEW View
CHECK_DEADLOCK FALSE
