---------------------------- MODULE InstancesScen ----------------------------
(* C17: the scenario families run through collapse_one on real templates.       *)
(* Every transition of this little machine is one scenario (printed by Emit):   *)
(*  single  one collapse of template t by an instance at every canonical        *)
(*          rotation of the lattice (plus non-canonical Euler triples), three   *)
(*          origins, every fixup style and every $fixup table                   *)
(*  multi   two or three collapses of ONE cached template, one after the other, *)
(*          at different placements / styles / tables (repeated and identical   *)
(*          ones included)                                                      *)
EXTENDS InstancesOps, TLC, Json

CONSTANTS Templates,      \* names of the templates the driver can build
          MultiTemplates, \* templates used for repeated collapses
          VisTemplates,   \* templates collapsed under every visgroup mode
          Origins,        \* subset of 1..3
          Tables,         \* subset of 0..3   ($fixup tables of the driver)
          Triples,        \* TRUE: also sequences of three
          MaxArr,         \* longest output list of the relaying entity in the instance I/O scenarios
          Full            \* TRUE: style x table at every rotation; FALSE: a diagonal at every rotation, the product at two

VARIABLE sc
OriginTab == << <<0, 0, 0>>, <<64, -32, 16>>, <<-128, 256, 8>> >>
Angles == CanonAngles \cup {<<2, 0, 0>>, <<1, 1, 1>>, <<3, 2, 1>>, <<2, 2, 2>>}
Inst(name, a, o, st, fx) == [name |-> name, ang |-> a, pos |-> OriginTab[o], style |-> st, fix |-> fx]
Diagonal == {<<0, 1>>, <<1, 3>>, <<2, 2>>, <<0, 0>>}
Singles == {[t |-> t, insts |-> <<Inst(<<65>>, a, o, st, fx)>>] :
               t \in Templates, a \in (IF Full THEN Angles ELSE {<<0, 0, 0>>, <<1, 3, 0>>}), o \in Origins, st \in 0..2, fx \in Tables}
           \cup {[t |-> t, insts |-> <<Inst(<<65>>, a, o, d[1], d[2])>>] :
               t \in Templates, a \in Angles, o \in Origins, d \in {x \in Diagonal : x[2] \in Tables}}
\* a small set of instances that differ in every respect
Pool == { Inst(<<65>>, <<0, 0, 0>>, 1, 0, 1), Inst(<<66>>, <<0, 1, 0>>, 2, 0, 1), Inst(<<67>>, <<1, 0, 0>>, 3, 1, 2),
          Inst(<<68, 100>>, <<0, 2, 1>>, 2, 2, 3), Inst(<<65>>, <<3, 3, 0>>, 3, 1, 0) }
Multis == {[t |-> t, insts |-> <<a, b>>] : t \in MultiTemplates, a \in Pool, b \in Pool}
          \cup (IF Triples THEN {[t |-> t, insts |-> <<a, b, c>>] : t \in MultiTemplates, a \in Pool, b \in Pool, c \in Pool}
                ELSE {})
\* visgroup handling: 0 strip (default; the scenarios above), 1 keep the file's visgroups, 2 one visgroup for all
WithVg(S, g) == {[t |-> x.t, insts |-> x.insts, vg |-> g] : x \in S}
VisSingles == {[t |-> t, insts |-> <<Inst(<<65>>, a, o, d[1], d[2])>>] :
                  t \in VisTemplates, a \in {<<0, 0, 0>>, <<0, 1, 0>>, <<1, 3, 0>>, <<0, 2, 1>>}, o \in Origins,
                  d \in {x \in Diagonal : x[2] \in Tables}}
VisMultis == {[t |-> t, insts |-> <<a, b>>] : t \in VisTemplates \cap MultiTemplates, a \in Pool, b \in {Inst(<<66>>, <<0, 1, 0>>, 2, 0, 1)}}
Scenarios == WithVg(Singles \cup Multis, 0) \cup WithVg(VisSingles \cup VisMultis, 1) \cup WithVg(VisSingles \cup VisMultis, 2)

\* instance I/O: the entity inside has any arrangement of outputs - "pa"/"pb" relay two different outputs to the
\* proxy, "pa2" relays the first one a second time, "n" is an ordinary output - and the func_instance has one of
\* two connection sets; every fixup style
IoScens == {[t |-> "io", arr |-> a, style |-> st, cs |-> c] :
               a \in UNION {[1..n -> {"pa", "pb", "pa2", "n"}] : n \in 0..MaxArr}, st \in 0..2, c \in 1..2}
Init == sc = [t |-> "none", insts |-> <<>>, vg |-> 0]
Next == sc.t = "none" /\ (sc' \in Scenarios \/ sc' \in IoScens)
Spec == Init /\ [][Next]_sc
\* every rotation of the lattice is reached by an instance, and every scenario instance is one
AllRotations == {FromAngle(a) : a \in Angles} = Rotations /\ Cardinality(Rotations) = 24
Emit == PrintT(ToJson([tag |-> "SCEN", sc |-> sc']))
=============================================================================
