SPECIFICATION Spec
INVARIANT RoundTrip
INVARIANT Refused
INVARIANT Codes
INVARIANT GraphOK
INVARIANT ListingOK
INVARIANT BinInverse
INVARIANT RootKept
INVARIANT TextTerminates
INVARIANT TopLevel
INVARIANT FreshOut
VIEW View
CHECK_DEADLOCK FALSE
CONSTANTS
  Uuids = {"u1", "u2", "u3", "u4"}
  MaxSize = 3
  MaxArr = 2
  MaxAttr = 0
  Family = "graph"
  Vers = {1, 2, 3, 4, 5}
  Unis = {"ascii"}
  Cross = FALSE
