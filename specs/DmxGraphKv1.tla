----------------------------- MODULE DmxGraphKv1 -----------------------------
(* C14, KeyValues1 bridge: Element.from_kv1 followed by to_kv1 returns an equal  *)
(* tree.  The machine picks one tree of the bounded family (one transition per   *)
(* tree, so that the edge dump enumerates the family for the driver); the law is *)
(* an invariant over DmxGraphOps!FromKv1 / ToKv1.                                *)
EXTENDS DmxGraphOps, Json

CONSTANTS MaxKids, MaxLeaves

VARIABLES t, act
Names == {"a", "A", "b", "name", "Name", "subkeys"}     \* a/A collide after folding; two reserved names
Fold == [a |-> "a", A |-> "a", b |-> "b", name |-> "name", Name |-> "name", subkeys |-> "subkeys"]
ValOf == [a |-> "1", A |-> "2", b |-> "3", name |-> "4", Name |-> "6", subkeys |-> "5"]
SeqsUpTo(S, k) == UNION {[1..m -> S] : m \in 0..k}
Leaves == {[n |-> n, leaf |-> TRUE, val |-> ValOf[n], ch |-> <<>>, root |-> FALSE] : n \in Names}
Blocks1 == {[n |-> n, leaf |-> FALSE, val |-> "", ch |-> s, root |-> FALSE] :
               n \in {"a", "subkeys"}, s \in SeqsUpTo(Leaves, MaxLeaves)}
Kids == Leaves \cup Blocks1
Tops == {[n |-> IF r THEN "" ELSE "b", leaf |-> FALSE, val |-> "", ch |-> s, root |-> r] :
            r \in BOOLEAN, s \in SeqsUpTo(Kids, MaxKids)}
None == [n |-> "-", leaf |-> TRUE, val |-> "", ch |-> <<>>, root |-> FALSE]

Init == t = None /\ act = [op |-> "init"]
Next == t = None /\ t' \in Tops /\ act' = [op |-> "tree"]
Spec == Init /\ [][Next]_t

BridgeLaw == t # None => ToKv1(FromKv1(t, Fold)) = t
\* inlined leaves and sub-elements never coexist, which is why order survives
InlineXorSub == t # None => LET e == FromKv1(t, Fold) IN Len(e.attrs) = 0 \/ Len(e.sub) = 0
View == t
Emit == PrintT(ToJson([tag |-> "EDGE", t |-> [t |-> t']]))
=============================================================================
