SPECIFICATION Spec
CONSTANTS
  Kind = "nd"
  Alphabet <- Alpha26
  MaxLen = 0
  Base <- TokDefaults
  EdgeOpts <- AllOpts
  ChunkLen = 0
  ChunkEmpty = 1
  IrrLen = 0
INVARIANT StepBound
INVARIANT NoDoubleRewind
INVARIANT EndsAtEof
INVARIANT StepDefined
INVARIANT EofForEver
INVARIANT ErrOnce
INVARIANT NoErrEarly
INVARIANT TokLines
INVARIANT LineBound
INVARIANT TokShape
INVARIANT LexIsMachine
INVARIANT ChunkIndep
INVARIANT OptIrrelevant
PROPERTY LineMonotone
CHECK_DEADLOCK FALSE
VIEW View
ACTION_CONSTRAINT Emit
