SPECIFICATION Spec
CONSTANTS
  MaxAcc = 6
  TrackAcc = TRUE
  MaxSaves = 1
INVARIANT TypeOK
INVARIANT LosslessInv
INVARIANT CacheEmptyInv
INVARIANT OtherInv
INVARIANT ClosedInv
INVARIANT OrderIrrelevant
INVARIANT UserPhaseInv
INVARIANT SaveRefines
PROPERTY Untouched
VIEW View
CHECK_DEADLOCK FALSE
