SPECIFICATION Spec
CONSTANTS
  Machine = "cases"
  Fmt = "pcf"
  Small = FALSE
  MaxOps = 0
INVARIANT CaseIdempotent
INVARIANT CaseIdentity
ACTION_CONSTRAINT EmitCase
CHECK_DEADLOCK FALSE
