----------------------------- MODULE BspLazyOps -----------------------------
(* Pure operators of the lazy-lump design of srctools.bsp.BSP (property C10).    *)
(*                                                                               *)
(* A BSP object holds, per lump, the raw bytes read from the file, and a cache   *)
(* of parsed views.  Reading a view parses its main lump (and the "extra" lumps  *)
(* that belong to it), pulls in the views its reader dereferences, stores the    *)
(* result in the cache and EMPTIES the raw lumps it consumed.  save() walks the   *)
(* fixed rebuild order, pops every cached view and runs its writer, which may    *)
(* itself touch (and so parse) further views and appends to them; the writer's   *)
(* result becomes the raw data of the main lump again.  Whatever is still in a   *)
(* raw lump when the file is written is what the file contains.                  *)
(*                                                                               *)
(* The constants are not chosen by hand: the harness MEASURES them from the      *)
(* code under test on every run (which views each reader and writer touches,     *)
(* which lumps a view clears, which lumps a writer sets, the rebuild order) and  *)
(* hands them over as a JSON file named by the environment variable              *)
(* BSPLAZY_CONST.  A change to the order, a reader or a writer therefore         *)
(* changes the model TLC checks.                                                 *)
EXTENDS Integers, FiniteSets, Sequences, TLC, Json, IOUtils

K == JsonDeserialize(IOEnv.BSPLAZY_CONST)
ToSet(q) == {q[i] : i \in 1..Len(q)}

Views  == ToSet(K.views)
Lumps  == ToSet(K.lumps)           \* every lump some view clears or some writer sets, plus "OTHER"
Order  == K.order                  \* LUMP_REBUILD_ORDER, as view names
NOrd   == Len(Order)
MainF      == [v \in Views |-> K.main[v]]
ClearsF    == [v \in Views |-> ToSet(K.clears[v])]
ReadDepsF  == [v \in Views |-> ToSet(K.readDeps[v])]
WriteDepsF == [v \in Views |-> ToSet(K.writeDeps[v])]
WriteSetsF == [v \in Views |-> ToSet(K.writeSets[v])]
EmptyLumps   == ToSet(K.emptyLumps)    \* lumps that hold nothing in the measured file: nothing to lose
ExcusedLumps == ToSet(K.excusedLumps)
ExcusedViews == ToSet(K.excusedViews)

InOrder(v) == \E i \in 1..NOrd : Order[i] = v
Pos(v) == IF InOrder(v) THEN CHOOSE i \in 1..NOrd : Order[i] = v ELSE 0
ViewLumps == UNION {ClearsF[v] : v \in Views}       \* lumps that belong to a structured view

(* ---- values ---------------------------------------------------------------- *)
(* raw[l]:  "orig"    bytes as read from the file                                 *)
(*          "cleared" emptied because a view consumed it                          *)
(*          "rebuilt" written by a writer from a good parsed value                *)
(*          "lost"    written by a writer from a value that no longer holds the   *)
(*                    file's content                                              *)
(* cache[v]: "none" | "good" (holds the file's content) | "stale" (parsed from an *)
(*          emptied/lost lump, or through a stale dependency)                     *)
Intact == {"orig", "rebuilt"}
Bad    == {"cleared", "lost"}

Fresh == [cache |-> [v \in Views |-> "none"], raw |-> [l \in Lumps |-> "orig"]]
Cached(st) == {v \in Views : st.cache[v] # "none"}

(* The reader of v has returned (whatever it dereferenced is cached by now): v is  *)
(* cached and the lumps it consumed are emptied.                                  *)
Mark(st, v) ==
    LET val == IF /\ \A l \in ClearsF[v] : st.raw[l] \in Intact
                  /\ \A w \in ReadDepsF[v] : st.cache[w] # "stale"
               THEN "good" ELSE "stale"
    \* (emptying a lump that holds nothing in this file leaves it as it is)
    IN [cache |-> [st.cache EXCEPT ![v] = val],
        raw   |-> [l \in Lumps |-> IF l \in ClearsF[v] \ EmptyLumps THEN "cleared" ELSE st.raw[l]]]

(* Reading view v: parse the views the reader dereferences first (only the ones   *)
(* not cached are parsed), then cache v and empty its lumps.                      *)
RECURSIVE Access(_, _), AccessSet(_, _)
Access(st, v) == IF st.cache[v] # "none" THEN st ELSE Mark(AccessSet(st, ReadDepsF[v]), v)
AccessSet(st, S) ==
    IF S = {} THEN st
    ELSE LET w == CHOOSE w \in S : TRUE IN AccessSet(Access(st, w), S \ {w})

RECURSIVE AccessSeq(_, _)
AccessSeq(st, q) == IF q = <<>> THEN st ELSE AccessSeq(Access(st, Head(q)), Tail(q))

(* Transitive reader closure of a set of views (what ends up cached).             *)
RECURSIVE Closure(_)
Closure(S) == LET T == S \cup UNION {ReadDepsF[v] : v \in S} IN IF T = S THEN S ELSE Closure(T)

(* save(), one view: pop it from the cache, run its writer.  The writer touches   *)
(* WriteDeps (parsing what is not cached).  A writer that touches its OWN view    *)
(* gets a re-parse of the lump it is about to fill (already emptied) and writes   *)
(* that instead of the value save() handed to it.                                 *)
Pop(st, v) == [st EXCEPT !.cache[v] = "none"]
\* the writer of v has returned (whatever it touched is cached by now); val = the value save() popped
WriteMark(st, v, val) ==
    LET src == IF st.cache[v] # "none" THEN st.cache[v] ELSE val
        ok  == src = "good" /\ \A w \in WriteDepsF[v] \ {v} : st.cache[w] # "stale"
        new == IF ok THEN "rebuilt" ELSE "lost"
    IN [cache |-> st.cache,
        raw   |-> [l \in Lumps |-> IF l = MainF[v] \/ l \in WriteSetsF[v] THEN new ELSE st.raw[l]]]
Write(st, v, val) == WriteMark(AccessSet(st, WriteDepsF[v]), v, val)
SaveOne(st, v) == Write(Pop(st, v), v, st.cache[v])

\* index of the next cached view at or after position i of the rebuild order (NOrd + 1: none)
RECURSIVE NextCached(_, _)
NextCached(st, i) == IF i > NOrd THEN NOrd + 1
                     ELSE IF st.cache[Order[i]] # "none" THEN i ELSE NextCached(st, i + 1)

RECURSIVE SaveFrom(_, _)
SaveFrom(st, i) == LET j == NextCached(st, i) IN
                   IF j > NOrd THEN st ELSE SaveFrom(SaveOne(st, Order[j]), j + 1)
SaveAll(st) == SaveFrom(st, 1)

(* A new BSP object reading the file that was written: what was intact is the     *)
(* new original; lost content stays lost.                                         *)
\* (a lump whose loss is already reported and excused is taken as restored, so that the one defect does not
\* show up again as stale views and lost lumps of the next cycle)
Rebase(disk) == [l \in Lumps |-> IF disk[l] \in Intact \/ l \in ExcusedLumps THEN "orig" ELSE disk[l]]

(* ---- the property, on a state after save() ---------------------------------- *)
LostLumps(raw) == {l \in Lumps \ EmptyLumps : raw[l] \in Bad}
Lossless(raw)  == LostLumps(raw) \subseteq ExcusedLumps
CacheEmpty(st) == Cached(st) \subseteq ExcusedViews

(* ---- the design conditions that make it hold --------------------------------- *)
\* every view is written back at some point of save()
Unordered == {v \in Views : ~InOrder(v)}
\* a reader's dependencies are rebuilt after the view itself (dependents first), so that the
\* writer of the dependent can still append to them
ReadOrderViolations == {<<v, w>> \in Views \X Views : w \in ReadDepsF[v] /\ Pos(w) <= Pos(v)}
\* everything a writer touches, and everything that gets parsed on the way, is rebuilt LATER
WriteOrderViolations == {<<v, w>> \in Views \X Views : w \in Closure(WriteDepsF[v]) /\ Pos(w) <= Pos(v)}
\* the reader relation is acyclic (otherwise the first access never returns)
Acyclic == \A v \in Views : v \notin Closure(ReadDepsF[v])
=============================================================================
