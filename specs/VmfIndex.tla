------------------------------- MODULE VmfIndex -------------------------------
(* C07: the class / targetname indexes of a VMF always agree with the entities *)
(* in the map.  Two maps (m1, m2), each with its worldspawn (w1, w2); entity    *)
(* slots Ent are filled in order.  by_class / by_target are maintained state   *)
(* (st.bc, st.bt), updated by the operators of VmfIndexOps, one action per     *)
(* mutation path of the code.  The property is the invariant Agree.            *)
EXTENDS VmfIndexOps, Json

CONSTANTS Ent,        \* entity slots, filled in the order of Ord
          Active,     \* entities that may be mutated after creation
          ClassIn,    \* classnames given to entities
          NameIn,     \* targetnames given to entities ("" included)
          NameU,      \* every targetname that may exist (NameIn + make_unique results)
          KeySp,      \* spellings of the 'targetname' key
          Prefixes,   \* make_unique(prefix) arguments
          IterOps,    \* mutation paths exercised in the middle of an iteration
          ScanKinds,  \* lookups spanning several buckets that are in progress while a mutation happens
          CopyMaps,   \* maps an entity can be copied into
          PClass,     \* classnames / targetnames given to passive (never mutated) entities
          PNames,
          SpawnIn,    \* classnames tried on the worldspawn
          SpawnNames, \* targetnames given to the worldspawn (it is filed in by_target like any entity)
          SpawnQuiet  \* TRUE: the worldspawn is only touched while no passive entity exists

Maps == {"m1", "m2"}
SpawnId == [m1 |-> "w1", m2 |-> "w2"]
Spawns == {"w1", "w2"}
Ord == [e1 |-> 1, e2 |-> 2, e3 |-> 3, e4 |-> 4]

\* the folding / digit-stripping tables of the symbols in play
MCF == [fold |-> [A |-> "a", A1 |-> "a1", A2 |-> "a2", A3 |-> "a3", C |-> "c", WorldSpawn |-> "worldspawn"],
        base |-> [a1 |-> "a", a2 |-> "a", a3 |-> "a", A1 |-> "A", A2 |-> "A", A3 |-> "A",
                  b1 |-> "b", b2 |-> "b", b3 |-> "b"]]

VARIABLES st, act
vars == <<st>>

SpawnEnt(m) == [home |-> m, inmap |-> TRUE, spawn |-> TRUE, cls |-> "worldspawn", name |-> "", tk |-> ""]
Init == /\ st = [ent |-> [x \in Ent \cup Spawns |-> IF x \in Ent THEN NoEnt
                                                    ELSE SpawnEnt(IF x = "w1" THEN "m1" ELSE "m2")],
                 bc  |-> [m \in Maps |-> [k \in {"worldspawn"} |-> {SpawnId[m]}]],
                 bt  |-> [m \in Maps |-> [k \in {""} |-> {SpawnId[m]}]]]
        /\ act = [op |-> "init"]

E(x) == st.ent[x]
Free == {x \in Ent : E(x).home = ""}
Live == {x \in Ent : E(x).home # ""}
Mut == Live \cap Active
NextFree == {x \in Free : \A y \in Free : Ord[x] <= Ord[y]}
NameKeys == {<<"", "">>} \cup (NameIn \X KeySp)        \* no targetname key, or key spelt k with value n
Loose(m) == {x \in Live : E(x).home = m /\ ~E(x).inmap}

(* ---- the mutation paths, as sets of enabled action records ----------------- *)
PNameKeys == {<<n, IF n = "" THEN "" ELSE "targetname">> : n \in PNames}
NewActs == {[op |-> "new", x |-> x, m |-> "m1", c |-> c, n |-> nk[1], k |-> nk[2]] :
                x \in NextFree \cap Active, c \in ClassIn \cup {""}, nk \in NameKeys}
           \cup {[op |-> "new", x |-> x, m |-> "m1", c |-> c, n |-> nk[1], k |-> nk[2]] :
                x \in NextFree \ Active, c \in PClass, nk \in PNameKeys}
CreateActs == {[op |-> "create_ent", x |-> x, m |-> "m1", c |-> c, n |-> nk[1], k |-> nk[2]] :
                x \in NextFree \cap Active, c \in ClassIn, nk \in NameKeys}
              \cup {[op |-> "create_ent", x |-> x, m |-> "m1", c |-> c, n |-> nk[1], k |-> nk[2]] :
                x \in NextFree \ Active, c \in PClass, nk \in PNameKeys}
AddEntActs == {[op |-> "add_ent", x |-> x] : x \in {y \in Live : ~E(y).inmap}}
AddEntsActs == {[op |-> "add_ents", xs |-> xs] :
                xs \in UNION {{<<>>} \cup {<<x>> : x \in Loose(m)}
                              \cup {xy \in Loose(m) \X Loose(m) : xy[1] # xy[2]} : m \in Maps}}
RemoveEntActs == {[op |-> "remove_ent", x |-> x] : x \in Mut}
EntRemoveActs == {[op |-> "ent_remove", x |-> x] : x \in Mut}
Quiet == \A x \in Ent \ Active : st.ent[x].home = ""
SpawnMut == IF SpawnQuiet /\ ~Quiet THEN {} ELSE {"w1"}
SetClassActs == {[op |-> "set_class", x |-> x, v |-> v] : x \in Mut, v \in ClassIn}
                \cup {[op |-> "set_class", x |-> x, v |-> v] : x \in SpawnMut, v \in SpawnIn}
SetNameActs == {[op |-> "set_name", x |-> x, v |-> v, k |-> k] : x \in Mut, v \in NameIn, k \in KeySp}
               \cup {[op |-> "set_name", x |-> x, v |-> v, k |-> "targetname"] : x \in SpawnMut, v \in SpawnNames}
SetDefaultActs == {[op |-> "setdefault_name", x |-> x, v |-> v, k |-> "targetname"] :
                      x \in Mut \cup SpawnMut, v \in SpawnNames}
UpdateActs == {[op |-> "update", x |-> x, v |-> v, n |-> n, k |-> "targetname"] :
                x \in Mut, v \in ClassIn \cap {"C", "d"}, n \in NameIn \cap {"", "A"}}
              \cup {[op |-> "update", x |-> x, v |-> "worldspawn", n |-> n, k |-> "targetname"] : x \in SpawnMut, n \in SpawnNames}
DelNameActs == {[op |-> "del_name", x |-> x, k |-> k] : x \in Mut, k \in KeySp}
               \cup {[op |-> "del_name", x |-> x, k |-> "targetname"] : x \in SpawnMut}
DelClassActs == {[op |-> "del_class", x |-> x] : x \in Mut \cup SpawnMut}
PopNameActs == {[op |-> "pop_name", x |-> x] : x \in Mut \cup SpawnMut}
PopClassActs == {[op |-> "pop_class", x |-> x] : x \in Mut \cup SpawnMut}
ClearActs == {[op |-> "clear", x |-> x, c |-> ""] : x \in Mut \cup SpawnMut}
             \cup {[op |-> "clear", x |-> x, c |-> "worldspawn"] : x \in SpawnMut}   \* not refused, class kept
CopyActs == {[op |-> "copy", x |-> x, p |-> p, m |-> m] : x \in Live \cup SpawnMut, p \in NextFree, m \in CopyMaps}
MakeUniqueActs == {a \in {[op |-> "make_unique", x |-> x, prefix |-> p] : x \in Mut \cup SpawnMut, p \in Prefixes} :
                      Apply(MCF, st, a).s.ent[a.x].name \in NameU}

Do(a) == LET r == Apply(MCF, st, a) IN st' = r.s /\ act' = a

NewEnt     == \E a \in NewActs : Do(a)
CreateEnt  == \E a \in CreateActs : Do(a)
AddEnt     == \E a \in AddEntActs : Do(a)
AddEnts    == \E a \in AddEntsActs : Do(a)
RemoveEnt  == \E a \in RemoveEntActs : Do(a)
EntRemove  == \E a \in EntRemoveActs : Do(a)
SetClass   == \E a \in SetClassActs : Do(a)
SetName    == \E a \in SetNameActs : Do(a)
SetDefault == \E a \in SetDefaultActs : Do(a)
Update     == \E a \in UpdateActs : Do(a)
DelName    == \E a \in DelNameActs : Do(a)
DelClass   == \E a \in DelClassActs : Do(a)
PopName    == \E a \in PopNameActs : Do(a)
PopClass   == \E a \in PopClassActs : Do(a)
Clear      == \E a \in ClearActs : Do(a)
CopyTo     == \E a \in CopyActs : Do(a)
MakeUnique == \E a \in MakeUniqueActs : Do(a)

\* Iterating by_class[key] / by_target[key] of m1 while one mutation happens after the first
\* element: the state changes as the mutation says; what the iteration must deliver is IterOK,
\* judged on the implementation's record (VmfIndexTrace).
IterDo(a) == \E kd \in {"class", "target"} :
               \E key \in DOMAIN (IF kd = "class" THEN st.bc["m1"] ELSE st.bt["m1"]) :
                 /\ LET post == Apply(MCF, st, a).s
                        pre  == IF kd = "class" THEN st.bc["m1"][key] ELSE st.bt["m1"][key]
                        aft  == Lookup(IF kd = "class" THEN post.bc["m1"] ELSE post.bt["m1"], key)
                    IN  a.x \in Ent /\ a.x \in pre \cup aft   \* the set iterated is one the mutation touches
                 /\ st' = Apply(MCF, st, a).s
                 /\ act' = [op |-> "iter", kind |-> kd, m |-> "m1", key |-> key, mut |-> a]
IterMutate ==
    \/ ("create_ent" \in IterOps /\ \E a \in CreateActs : IterDo(a))
    \/ ("add_ent" \in IterOps /\ \E a \in AddEntActs : IterDo(a))
    \/ ("remove_ent" \in IterOps /\ \E a \in RemoveEntActs : IterDo(a))
    \/ ("set_class" \in IterOps /\ \E a \in SetClassActs : IterDo(a))
    \/ ("set_name" \in IterOps /\ \E a \in SetNameActs : IterDo(a))
    \/ ("del_name" \in IterOps /\ \E a \in DelNameActs : IterDo(a))
    \/ ("clear" \in IterOps /\ \E a \in ClearActs : IterDo(a))
    \/ ("make_unique" \in IterOps /\ \E a \in MakeUniqueActs : IterDo(a))

\* A lookup that walks SEVERAL buckets - a vmf.search(pattern) generator, or a snapshot of
\* by_class.items() / by_target.items() walked afterwards - is in progress (something was delivered,
\* more is to come) when one call goes through the index maintenance for an entity that is the only
\* member of its bucket.  What the rest of the lookup may deliver is the trace validator's ScanOK:
\* nobody who, when delivered, no longer has that class / name or is no longer in the map.
Buckets(kd) == IF kd = "items_class" THEN st.bc["m1"] ELSE st.bt["m1"]
Spans(kd) == IF kd = "items_class" THEN Cardinality(DOMAIN st.bc["m1"]) >= 2
             ELSE IF kd = "items_target" THEN Cardinality(DOMAIN st.bt["m1"]) >= 2
             ELSE Cardinality(DOMAIN st.bt["m1"] \ {""}) >= 2          \* search: unnamed entities are never found
Sole(kd, x) == \E k \in DOMAIN Buckets(kd) : Buckets(kd)[k] = {x} /\ (kd \in {"items_class", "items_target"} \/ k # "")
ScanDo(a) == \E kd \in ScanKinds :
                /\ Spans(kd) /\ Sole(kd, a.x)
                /\ LET post == Apply(MCF, st, a).s      \* the call moves something in the index walked
                   IN  IF kd = "items_class" THEN post.bc["m1"] # st.bc["m1"] ELSE post.bt["m1"] # st.bt["m1"]
                /\ st' = Apply(MCF, st, a).s
                /\ act' = [op |-> "scan", kind |-> kd, m |-> "m1", mut |-> a]
ScanMutate == \/ \E a \in RemoveEntActs : ScanDo(a)     \* every path through the bucket removal
              \/ \E a \in EntRemoveActs : ScanDo(a)
              \/ \E a \in SetClassActs : ScanDo(a)
              \/ \E a \in SetNameActs : ScanDo(a)
              \/ \E a \in UpdateActs : ScanDo(a)
              \/ \E a \in DelNameActs : ScanDo(a)
              \/ \E a \in PopNameActs : ScanDo(a)
              \/ \E a \in ClearActs : ScanDo(a)
              \/ \E a \in MakeUniqueActs : ScanDo(a)

Next == \/ NewEnt \/ CreateEnt \/ AddEnt \/ AddEnts \/ RemoveEnt \/ EntRemove
        \/ SetClass \/ SetName \/ SetDefault \/ Update \/ DelName \/ DelClass \/ PopName \/ PopClass
        \/ Clear \/ CopyTo \/ MakeUnique \/ IterMutate \/ ScanMutate

Spec == Init /\ [][Next]_vars

(* ---- the listed property --------------------------------------------------- *)
\* looking up by class or name = a scan of the entities currently in the map (case-folded)
Agree == \A m \in Maps : IndexOK(MCF, st, m)
\* the worldspawn is always filed under 'worldspawn' and has that class
SpawnRule == \A m \in Maps : /\ Fd(MCF.fold, st.ent[SpawnId[m]].cls) = "worldspawn"
                             /\ SpawnId[m] \in Lookup(st.bc[m], "worldspawn")
                             /\ st.ent[SpawnId[m]].inmap
\* search(q) computed from the maintained indexes (as the code does) = search over the scan
Stems == {Fd(MCF.fold, n) : n \in NameU} \cup {Fd(MCF.fold, c) : c \in ClassIn} \cup {"worldspawn", "zz"}
StarHits(stem) == {n \in {Fd(MCF.fold, u) : u \in NameU} :
                     stem = "" \/ n = stem \/ Fd(MCF.base, n) = stem}      \* prefix relation of the symbols
Queries == {[stem |-> s, star |-> FALSE, hits |-> {}] : s \in Stems}
           \cup {[stem |-> s, star |-> TRUE, hits |-> StarHits(s)] : s \in {"", "a", "b", "zz"}}
SearchIdx(m, q) ==
    IF q.stem = "" /\ ~q.star THEN {}
    ELSE IF q.star THEN UNION {st.bt[m][k] : k \in {j \in DOMAIN st.bt[m] : j # "" /\ j \in q.hits}}
    ELSE Lookup(st.bt[m], q.stem) \cup Lookup(st.bc[m], q.stem)
SearchAgree == \A m \in Maps : \A q \in Queries : SearchIdx(m, q) = Search(MCF, st, m, q)
(* ---- what makes it hold ---------------------------------------------------- *)
NoEmptySets == \A m \in Maps : NoEmpty(st.bc[m]) /\ NoEmpty(st.bt[m])
\* an entity that is not in its map is in no index; an entity is only ever filed in its own map
OnlyOwn == \A m \in Maps : \A k \in DOMAIN st.bc[m] : \A x \in st.bc[m][k] : st.ent[x].home = m /\ st.ent[x].inmap
\* a refused step changes nothing; a step on an entity of one map leaves the other map alone
Subject(a) == IF a.op = "iter" THEN (IF "x" \in DOMAIN a.mut THEN a.mut.x ELSE "") ELSE IF "x" \in DOMAIN a THEN a.x ELSE ""
Isolated == [][\A m \in Maps :
                 (Subject(act') # "" /\ st'.ent[Subject(act')].home # m /\ act'.op # "copy")
                    => (st'.bc[m] = st.bc[m] /\ st'.bt[m] = st.bt[m])]_vars
SpawnFixed == [][\A w \in Spawns : Fd(MCF.fold, st'.ent[w].cls) = Fd(MCF.fold, st.ent[w].cls)]_vars

\* bound for the edge configurations: a passive entity either has one of the passive key sets
\* or is (still) an exact copy of the entity before it
Keys(e) == <<e.cls, e.name, e.tk>>
PassiveBound == \A x \in Ent \ Active :
    \/ st.ent[x].home = ""
    \/ (st.ent[x].home = "m1" /\ st.ent[x].cls \in PClass /\ <<st.ent[x].name, st.ent[x].tk>> \in PNameKeys)
    \/ \E y \in Ent : Ord[y] < Ord[x] /\ Keys(st.ent[y]) = Keys(st.ent[x])
\* ... and a NAMED worldspawn is explored next to the simpler states of the first entity only
SpawnBound == SpawnQuiet =>
    /\ (Quiet \/ (st.ent["w1"].cls = "worldspawn" /\ st.ent["w1"].tk = ""))
    /\ (st.ent["w1"].tk # "" => /\ st.ent["w1"].cls = "worldspawn"
                                /\ st.ent["e1"].tk # "TargetName" /\ st.ent["e1"].cls \in {"", "c"} /\ st.ent["e1"].name \in {"", "a", "A"})

View == vars
Pack(e) == <<e.home, e.inmap, e.spawn, e.cls, e.name, e.tk>>
Emit == PrintT(ToJson([tag |-> "EDGE", s |-> [x \in DOMAIN st.ent |-> Pack(st.ent[x])], a |-> act',
                       t |-> [x \in DOMAIN st.ent |-> Pack(st'.ent[x])]]))
=============================================================================
