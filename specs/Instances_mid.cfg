SPECIFICATION Spec
CONSTANTS
  NF = 2
  SlotsOf <- Slots22
  MainSlots = 2
  Limit = 3
  Share = FALSE
INVARIANT OrderIndependent
INVARIANT ErrorOnlyWhenDeep
INVARIANT DoneIsFlat
INVARIANT RoundsBounded
INVARIANT RecurCount
INVARIANT CacheOK
PROPERTY TemplateFrozen
PROPERTY Decreases
VIEW View
CHECK_DEADLOCK FALSE
