SPECIFICATION Spec
INVARIANT BridgeLaw
INVARIANT InlineXorSub
VIEW View

CHECK_DEADLOCK FALSE
CONSTANTS
  MaxKids = 2
  MaxLeaves = 1
