SPECIFICATION Spec
CONSTANTS
  StartVecs <- VecsSmall
  StartAngs <- StartSmall
  RhsAngs <- RhsQuick
  MaxLen = 3
  UseForms <- Forms
INVARIANT Proper
INVARIANT Convention
INVARIANT Assoc
INVARIANT RoundTrip
INVARIANT Stable
INVARIANT InvTranspose
PROPERTY FrozenSafe
CHECK_DEADLOCK FALSE
