SPECIFICATION Spec
CONSTANTS
  NF = 2
  SlotsOf <- Slots21
  MainSlots = 2
  Limit = 2
  Share = FALSE
INVARIANT OrderIndependent
INVARIANT ErrorOnlyWhenDeep
INVARIANT DoneIsFlat
INVARIANT RoundsBounded
INVARIANT RecurCount
INVARIANT CacheOK
PROPERTY TemplateFrozen
PROPERTY Decreases
PROPERTY Terminates
VIEW View
CHECK_DEADLOCK FALSE
