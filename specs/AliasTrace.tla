------------------------------ MODULE AliasTrace ------------------------------
(* Validates records logged from real srctools objects against AliasOps.         *)
(*  k = "copy":   owalk / cwalk = heap walk of the original and of its copy, one *)
(*                entry <<path, type, value>> per attribute / slot / container   *)
(*                item; shared = mutable cells reachable from both (by path);    *)
(*                oexp / cexp = exported text re-read as <<key path, key, value>>*)
(*  k = "mutate": in-place mutation of one side after the copy; digests (before,  *)
(*                after) of the OTHER side's exported text and of both walks,    *)
(*                plus the first entries that changed                            *)
(*  k = "binop":  operand walks before / after an operator, cells the result     *)
(*                shares with an operand                                         *)
(* All failing clauses of a record are printed (one line per clause and place).  *)
(* Clauses named note.* and noeffect are bookkeeping (counted), not verdicts: the  *)
(* property promises complete, independent copies and untouched operands, not     *)
(* which calls raise, what a sum contains or which private fields exist.           *)
EXTENDS AliasOps, Json, IOUtils

Recs == ndJsonDeserialize(IOEnv.TRACE_FILE)
N == Len(Recs)
VARIABLE i

ToSet(q) == {q[k] : k \in DOMAIN q}
Idx == {ToString(n) : n \in 0..300}
RECURSIVE Join(_)
Join(p) == IF Len(p) = 0 THEN "" ELSE IF Len(p) = 1 THEN p[1] ELSE p[1] \o "." \o Join(Tail(p))
\* a path with list / dict positions replaced by N (the place, whichever element)
Norm(p) == Join([k \in DOMAIN p |-> IF p[k] \in Idx THEN "N" ELSE p[k]])
Parent(p) == SubSeq(p, 1, Len(p) - 1)
Bad(c, w, e) == [clause |-> c, what |-> w, exp |-> ToJson(e)]

(* ---- k = "copy" ------------------------------------------------------------- *)
\* type of the entry at a path
TypeAt(w, p) == LET es == {e \in ToSet(w) : e[1] = p} IN IF es = {} THEN "missing" ELSE (CHOOSE e \in es : TRUE)[2]
Internal == {<<"Keyvalues", "line_num">>, <<"EntityFixup", "_matcher">>}
\* entries not compared between original and copy: an object's own ID (per schema), and fields that
\* never reach the exported text (source line number, cached regex) - the property is about what a
\* copy EXPORTS
Skipped(w, e) == Len(e[1]) >= 2 /\ LET t == TypeAt(w, Parent(e[1])) f == e[1][Len(e[1])]
                                   IN  \/ <<t, f>> \in Internal
                                       \/ (t \in Classes /\ f \in Fields(t) /\ Schema[t][f].k = "id")
Comparable(w) == {e \in ToSet(w) : ~Skipped(w, e)}
\* every object in the walk has exactly the fields of its class schema
ClassFieldErrors(w) ==
    LET objs == {e \in ToSet(w) : e[2] \in Classes}
        kids(e) == {d[1][Len(d[1])] : d \in {x \in ToSet(w) : Len(x[1]) = Len(e[1]) + 1 /\ Parent(x[1]) = e[1]}}
    \* a field the schema does not know is walked, compared and mutated like any other (the heap walk is
    \* generic): only noted.  A schema field the object lacks means the model cannot be replayed on it.
    IN  {Bad(IF Fields(e[2]) \subseteq kids(e) THEN "note.schema.extra" ELSE "schema.class", e[2],
             [path |-> e[1], unknown |-> kids(e) \ Fields(e[2]), missing |-> Fields(e[2]) \ kids(e)]) :
            e \in {o \in objs : kids(o) # Fields(o[2])}}
\* every slot of the model's object exists in the real one, holding the kind of cell the schema says
SlotErrors(r) ==
    LET SL == ObjSlots(r.cls, ToSet(r.opts))
        ok(s) == LET t == TypeAt(r.owalk, s.p) IN
                    IF s.k = "s" THEN t \in {"scalar", "tuple"} ELSE t \in WalkType(s.k, s.c)
    IN  {Bad("schema.slots", Norm(s.p), [path |-> s.p, kind |-> s.k, found |-> TypeAt(r.owalk, s.p)]) : s \in {t \in SL : ~ok(t)}}
\* export entries <<keypath, key, value>>; an object's own ID is not compared
ExpComparable(x, cls) == {e \in ToSet(x) : e[2] \notin ExportIdKeys(cls)}
                         \cup {<<e[1], e[2], "id">> : e \in {d \in ToSet(x) : d[2] \in ExportIdKeys(cls)}}

\* where a difference is: the last field name of a walk path; the first key of an export path that
\* is not one of the enclosing blocks
RECURSIVE LastName(_)
LastName(p) == IF Len(p) = 0 THEN "" ELSE IF p[Len(p)] \in Idx THEN LastName(SubSeq(p, 1, Len(p) - 1)) ELSE p[Len(p)]
StructKeys == {"entity", "hidden", "solid", "side", "dispinfo", "connections", "editor", "visgroup",
               "group", "camera", "cordon", "box", "fixups"} \cup Idx
RECURSIVE FirstKey(_)
FirstKey(p) == IF Len(p) = 0 THEN "" ELSE IF p[1] \in StructKeys THEN FirstKey(Tail(p)) ELSE p[1]
\* one verdict per place (not per element)
PerPlace(clause, es, where(_)) ==
    {Bad(clause, w, CHOOSE e \in es : where(e) = w) : w \in {where(e) : e \in es}}

CopyVerdicts(r) ==
    LET oc == Comparable(r.owalk) cc == Comparable(r.cwalk)
        oe == ExpComparable(r.oexp, r.cls) ce == ExpComparable(r.cexp, r.cls)
        compare == r.how # "collapse"
    IN  PerPlace("alias.shared", ToSet(r.shared), LAMBDA e : Norm(e[1]))
        \cup (IF compare THEN PerPlace("copy.fields", oc \ cc, LAMBDA e : LastName(e[1])) ELSE {})
        \cup (IF compare THEN PerPlace("copy.extra", {d \in cc \ oc : \A o \in oc : o[1] # d[1]}, LAMBDA e : LastName(e[1])) ELSE {})
        \cup (IF compare THEN PerPlace("copy.export", (oe \ ce) \cup {d \in ce \ oe : \A o \in oe : o[1] # d[1]},
                                       LAMBDA e : FirstKey(e[1])) ELSE {})
        \cup ClassFieldErrors(r.owalk) \cup ClassFieldErrors(r.cwalk)
        \cup (IF compare THEN SlotErrors(r) ELSE {})

(* ---- k = "mutate" ----------------------------------------------------------- *)
\* r.mut.side was mutated; the other side must not notice
MutWhat(r) == IF r.mut.op = "cell" THEN Norm(r.mut.path) ELSE r.mut.meth
MutateVerdicts(r) ==
    LET other == IF r.mut.side = "c" THEN "o" ELSE "c"
        mine == r.mut.side
    IN  (IF r.exc = "NoSuchCell" THEN {Bad("mutate.nocell", IF r.mut.op = "cell" THEN LastName(r.mut.path) ELSE r.mut.meth, r.exc)}       \* the cell is not there on that side
         ELSE IF r.exc # "" THEN {Bad("note.mutate.raised", MutWhat(r), r.exc)} ELSE {})   \* the probe could not mutate: nothing to judge
        \cup (IF r.ed[1] # r.ed[2]
              THEN {Bad("frame.export", MutWhat(r), [side |-> other, changed |-> r.edelta])} ELSE {})
        \cup (IF r.wd[other][1] # r.wd[other][2] THEN {Bad("frame.state", MutWhat(r), [side |-> other, changed |-> r.delta])} ELSE {})
        \cup (IF r.exc = "" /\ r.wd[mine][1] = r.wd[mine][2] THEN {Bad("noeffect", MutWhat(r), 0)} ELSE {})

(* ---- k = "binop" ------------------------------------------------------------ *)
OpWhat(r) == r.f \o " " \o r.lt \o " " \o r.rt
BinopVerdicts(r) ==
    (IF <<r.f, r.lt, r.rt>> \notin OpTable /\ r.f # "collapse_one" THEN {Bad("binop.unknown", OpWhat(r), 0)} ELSE {})
    \cup (IF r.exc # "" THEN {Bad("note.binop.raised", OpWhat(r), r.exc)} ELSE {})     \* refusing an operand is free
    \cup (IF r.a_before # r.a_after THEN {Bad("binop.left", OpWhat(r), [before |-> r.a_before, after |-> r.a_after])} ELSE {})
    \cup (IF r.b_before # r.b_after THEN {Bad("binop.right", OpWhat(r), [before |-> r.b_before, after |-> r.b_after])} ELSE {})
    \cup (IF r.shared # <<>> THEN {Bad("binop.fresh", OpWhat(r), r.shared)} ELSE {})
    \* block + items = the block's children followed by the items (a named block on the right is, as
    \* documented, appended as one item: b_flat then lists it as that item)
    \cup (IF r.lt \in {"Keyvalues", "KVRoot"} /\ r.exc = "" /\ r.res # r.a_flat \o r.b_flat
          THEN {Bad("note.binop.result", OpWhat(r), r.a_flat \o r.b_flat)} ELSE {})    \* what the sum IS is not C09's clause

Verdicts(r) == CASE r.k = "copy" -> CopyVerdicts(r)
                 [] r.k = "mutate" -> MutateVerdicts(r)
                 [] r.k = "binop" -> BinopVerdicts(r)

Init == i = 0
Next == i < N /\ i' = i + 1
Checked == i = 0 \/ \A v \in Verdicts(Recs[i]) :
              PrintT(ToJson([tag |-> "MISMATCH", i |-> i, clause |-> v.clause, exp |-> [what |-> v.what, d |-> v.exp]]))
AllConsumed == TLCGet("stats").diameter = N + 1
=============================================================================
