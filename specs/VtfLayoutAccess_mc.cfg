SPECIFICATION Spec
INVARIANT TableSize
INVARIANT MipCount
INVARIANT Partition
INVARIANT Blocks
INVARIANT RoundTrip
INVARIANT Gate
INVARIANT Kept
INVARIANT ThumbKept
INVARIANT LazyUnobservable
INVARIANT Untouched
VIEW View
CHECK_DEADLOCK FALSE
CONSTANTS
  Sizes = {1, 2, 4}
  FrameCounts = {1}
  Layers = {"d1"}
  Minors = {5}
  Fmts = {"RGBA8888"}
  Lows = {"NONE"}
  ResKinds = {}
  MaxRes = 0
  Access = TRUE
  Fills = {"l0"}
  History = FALSE
  MaxOps = 0
  Thumbs = {"t16"}
