----------------------------- MODULE VmfDocTrace -----------------------------
(* Validates records logged from the real srctools code against VmfDocOps.      *)
(*   step   one public API call: post must be Apply(pre, a)                     *)
(*   xp     export -> parse -> export: the re-read document must be             *)
(*          Expected(opts, doc) (IDs related by a bijection per kind, equal if   *)
(*          preserve_ids), the first text must have the structure Skeleton      *)
(*          demands, the second text must be the first under the renumbering    *)
(*   parse  a shipped file: the parsed document holds exactly the objects of    *)
(*          the file                                                            *)
(* Every differing clause is printed as one MISMATCH line; the run never fails. *)
EXTENDS VmfDocOps, Json, IOUtils

Recs == ndJsonDeserialize(IOEnv.TRACE_FILE)
NRecs == Len(Recs)
VARIABLE i

StepClauses(r) ==
    LET e == Apply(r.pre, r.a)
    IN  IF e = r.post THEN {}
        ELSE LET d == Diff(IdentityPairs(e), e, r.post)
             IN  IF d = {} THEN {"step.ids"} ELSE {"step:" \o c : c \in d}

\* The first exported text is read structurally (independently of the library's reader) to FIND the map's objects
\* in it: the sequence of object blocks - world, entities, brushes, faces, displacements, groups, visgroups,
\* cameras, cordons - and output lines must be the objects of the document, in their order (the reader depends on
\* that order).  Which keyvalue lines a block has, their names, their order and which defaults are written is the
\* writer's and reader's own business and is not judged (the property fixes only: second text = first text, and
\* the re-read map has the same content).
SkelOf(toks) == MapSeq(LAMBDA t : [t |-> t.t, c |-> t.c, d |-> t.d], toks)
TextStructure(r) == IF r.tokfail \/ r.patched THEN {}
                    ELSE CensusClauses(Skeleton(r.opts, r.doc), SkelOf(r.toks1))
\* an exported text the independent tokeniser cannot read is compared as it is (possible when IDs are preserved)
RawText(r) == IF r.tokfail /\ r.opts.preserve /\ r.status = "ok" THEN C(r.raw1 = r.raw2, "text:raw") ELSE {}
XpClauses(r) ==
    LET o == r.opts
        exp0 == Expected(o, r.doc)
    IN  TextStructure(r) \cup RawText(r) \cup
        IF r.status # "ok" THEN {"xp.parse"}
        ELSE LET exp == Aligned(exp0, r.doc2)
                 ps == IdPairs(exp, r.doc2)
             IN  OrderClauses(exp0, r.doc2) \cup IdClauses(o, ps) \cup Diff(ps, exp, r.doc2)
                 \cup (IF r.tokfail THEN {}
                       \* the text of a record re-read from the repaired text (known triangle_tags defect) is not the writer's
                       ELSE IF r.patched THEN {}
                       ELSE IF OrderClauses(exp0, r.doc2) # {} THEN C(TextClauses(ps, r.toks1, r.toks2, HasAmb(r.doc)) = {}, "text:order")
                       ELSE TextClauses(ps, r.toks1, r.toks2, HasAmb(r.doc)))

\* IDs of one kind in a token stream
TokIds(toks, kind) == {toks[j].n : j \in {j \in 1..Len(toks) : toks[j].ik = kind /\ toks[j].k # "groupid"
                                                               /\ ~(toks[j].k = "visgroupid" /\ toks[j].p # "/visgroups/visgroup"
                                                                    /\ toks[j].d < 2)}}
Blocks(toks, name) == Cardinality({j \in 1..Len(toks) : toks[j].t = "open" /\ toks[j].k = name})
ParseClauses(r) ==
    LET d == r.doc
    IN  C(Blocks(r.toks, "solid") = Len(SolidsOf(d)), "parse.count.solid")
        \cup C(Blocks(r.toks, "side") = Len(SidesOf(d)), "parse.count.side")
        \cup C(Blocks(r.toks, "entity") = Len(d.ents), "parse.count.ent")
        \cup C(Blocks(r.toks, "camera") = Len(d.cams), "parse.count.cam")
        \cup C(Blocks(r.toks, "cordon") = Len(d.cordons), "parse.count.cordon")
        \cup C(Blocks(r.toks, "visgroup") = Len(FlatVis(d.vis)), "parse.count.vis")
        \cup C(Blocks(r.toks, "group") = Len(d.groups), "parse.count.group")
        \cup C(r.idsets.solid = SortInts(SolidIds(d)), "parse.ids.solid")
        \cup C(r.idsets.side = SortInts(SideIds(d)), "parse.ids.side")
        \cup C(r.idsets.ent = SortInts(EntIds(d)), "parse.ids.ent")
        \* group / visgroup membership and group flags as the file states them (IDs preserved in these records)
        \cup C(SeqToSet(r.memb.wsolid_group) = {<<s.id, s.group>> : s \in {s \in SeqToSet(d.world.solids) : s.group >= 0}}, "parse.wsolid.group")
        \cup C(SeqToSet(r.memb.wsolid_vis) = UNION {{<<s.id, v>> : v \in SeqToSet(s.vis)} : s \in SeqToSet(d.world.solids)}, "parse.wsolid.vis")
        \cup C(SeqToSet(r.memb.ent_group) = UNION {{<<e.id, g>> : g \in SeqToSet(e.groups)} : e \in SeqToSet(d.ents)}, "parse.ent.groups")
        \cup C(SeqToSet(r.memb.ent_vis) = UNION {{<<e.id, g>> : g \in SeqToSet(e.vis)} : e \in SeqToSet(d.ents)}, "parse.ent.vis")
        \cup C(SeqToSet(r.memb.group_auto) = {<<g.id, IF g.auto THEN 1 ELSE 0>> : g \in SeqToSet(d.groups)}, "parse.group.auto")
        \cup C(SeqToSet(r.memb.group_shown) = {<<g.id, IF g.shown THEN 1 ELSE 0>> : g \in SeqToSet(d.groups)}, "parse.group.shown")

\* third cycle: the second text, re-read and exported again, is the second text (IDs under the renumbering of
\* that cycle) - a writer whose output depends on how the re-read objects were built does not settle
ZipIds(a, b) == {<<a[j], b[j]>> : j \in 1..Min2(Len(a), Len(b))}
Cycle3(r) ==
    IF r.c3.status = "none" THEN {}
    ELSE IF r.c3.status = "error" THEN {"cycle3.parse"}
    ELSE LET ps == [k \in {"ent", "solid", "side", "vis", "group"} |-> ZipIds(r.c3.idl2[k], r.c3.idl3[k])]
         IN  {"cycle3." \o c : c \in IdClauses(r.opts, ps) \cup TextClauses(ps, r.toks2, r.c3.toks3, FALSE)}

Clauses(r) == CASE r.k = "step" -> StepClauses(r)
                [] r.k = "xp" -> XpClauses(r) \cup Cycle3(r)
                [] r.k = "parse" -> ParseClauses(r)

Init == i = 0
Next == i < NRecs /\ i' = i + 1
Checked == i = 0 \/ \A c \in Clauses(Recs[i]) :
              PrintT(ToJson([tag |-> "MISMATCH", i |-> i, clause |-> c, exp |-> ""]))
AllConsumed == TLCGet("stats").diameter = NRecs + 1
=============================================================================
