--------------------------- MODULE AtomicWriteOps ---------------------------
(* Pure operators of the atomic file replacement design (srctools.AtomicWriter, *)
(* used by BSP.save): one directory, writers w with their own destination, the  *)
(* file-system operations each writer performs, faults and crashes.             *)
(*                                                                              *)
(* state  st = [dir, dest, tmp, wr, faults]                                     *)
(*   dir      the target directory exists                                       *)
(*   dest[w]  contents class of writer w's destination:                         *)
(*              "absent" | "old" | "new" | "bad"  (bad = anything else)         *)
(*   tmp      partial function  index -> [owner, data]: the files tmp_<index>   *)
(*            present in the directory; owner is a writer or "stale" (left by   *)
(*            some earlier process), data = the file is not empty               *)
(*   wr[w]    the writer: pc, i (the temp name it holds: bound when its          *)
(*            exclusive open succeeds; names are numbers >= 1), tried, acc = bytes *)
(*            the body handed to the file object, raw = bytes that reached the  *)
(*            file system, ended = the body returned normally, err, lossy = a   *)
(*            raw write failed (accepted bytes may be missing), cerr = closing  *)
(*            the file raised, leak = unlink itself failed, ret = returned      *)
(*   faults   injected OSErrors still available                                 *)
(*                                                                              *)
(* event  e = [w, op, res, n, i]  one file-system operation boundary or one     *)
(*            step of the caller's body                                         *)
(*   mkdir   res ok|exists|fault          Path.mkdir(parents, exist_ok)          *)
(*   open    i, res ok|exists|fault       exclusive create of the file named i   *)
(*   bcall   n                            body hands n bytes to the file object  *)
(*   write   n, res ok|fault              n bytes reach the file (raw write)     *)
(*   endbody / bodyerr                    body returns / raises                  *)
(*   close   res ok|fault                 descriptor closed (closed either way)  *)
(*   replace i, n = 1 iff target is the writer's destination, res ok|fault       *)
(*   unlink  i, res ok|noent|fault                                               *)
(*   end     res ok|raised                control returns to the caller          *)
(*   crash                                the writer's process is killed         *)
(*   reenter                              the returned writer object is entered  *)
(*                                        again (next round, same destination)   *)
EXTENDS Integers, FiniteSets, Sequences

Terminal == {"done", "failed", "dead"}
Holding == {"body", "closing", "renaming", "unlinking"}   \* owns a temp file it must still deal with

\* round = how often this writer object has been entered; base = what its destination held when
\* the current round began; the complete contents of round k are the class NewName(k)
NewWriter == [pc |-> "idle", i |-> 0, acc |-> 0, raw |-> 0, ended |-> FALSE, err |-> "none",
              lossy |-> FALSE, cerr |-> FALSE, leak |-> FALSE, ret |-> FALSE, round |-> 1, base |-> "absent",
              tried |-> {}, mkf |-> FALSE]
NewName(k) == IF k = 1 THEN "new" ELSE IF k = 2 THEN "new2" ELSE "new3"

HasTmp(st, k) == k \in DOMAIN st.tmp
AddTmp(t, k, v) == [j \in DOMAIN t \cup {k} |-> IF j = k THEN v ELSE t[j]]
DelTmp(t, k) == [j \in DOMAIN t \ {k} |-> t[j]]

\* the data is complete: the body finished and every accepted byte was written
Complete(r) == r.ended /\ r.raw = r.acc /\ ~r.lossy

(* ---- is event e a step the design can take in st ?  "" = yes, otherwise the   *)
(* ---- name of the clause that forbids it                                       *)
Guard(st, e) ==
    LET r == st.wr[e.w] IN
    \* the same writer object is entered again after it has returned ("can be repeated")
    IF e.op = "reenter" THEN (IF r.ret /\ r.pc \in {"done", "failed"} THEN "" ELSE "reenter.pc")
    \* (the process may also be killed between two uses of the writer object)
    ELSE IF e.op = "crash" THEN (IF r.pc = "dead" THEN "crash.pc" ELSE "")
    ELSE IF r.ret THEN "returned"
    ELSE IF e.res = "fault" /\ st.faults = 0 THEN "fault.budget"
    ELSE CASE e.op = "mkdir" ->
                \* (whether and how often the directory is made sure of is the writer's business)
                IF r.pc \notin {"idle", "open"} THEN "mkdir.pc"
                ELSE IF e.res = "ok" /\ st.dir THEN "mkdir.res"
                ELSE IF e.res = "exists" /\ ~st.dir THEN "mkdir.res"
                ELSE IF e.res \notin {"ok", "exists", "fault"} THEN "mkdir.res"
                ELSE ""
           [] e.op = "open" ->
                \* the temp is ANY name in the destination's directory that is not a destination (e.i >= 1:
                \* the harness numbers such names); which one, and in which order names are tried, is free
                \* whether the directory is made sure of before or after a first failed attempt is free: an
                \* open that fails because the directory is missing creates nothing (res "noent")
                IF r.pc \notin {"idle", "open"} THEN "open.pc"
                ELSE IF e.res = "noent" THEN (IF st.dir THEN "open.res" ELSE "")
                ELSE IF ~st.dir /\ e.res # "fault" THEN "open.res"
                ELSE IF e.i < 1 THEN "open.place"
                ELSE IF e.res = "exists" /\ ~HasTmp(st, e.i) THEN "open.res"
                ELSE IF e.res = "ok" /\ HasTmp(st, e.i) THEN "open.exclusive"   \* never opens an existing file
                ELSE IF e.res \notin {"ok", "exists", "fault", "noent"} THEN "open.res"
                ELSE ""
           [] e.op = "bcall" -> IF r.pc # "body" THEN "bcall.pc" ELSE IF e.n < 0 THEN "bcall.n" ELSE ""
           [] e.op = "write" ->
                IF r.pc \notin {"body", "closing"} THEN "write.pc"
                ELSE IF e.n < 1 \/ r.raw + e.n > r.acc THEN "write.bytes"   \* only data the body supplied
                ELSE IF e.res \notin {"ok", "fault"} THEN "write.res"
                ELSE ""
           [] e.op = "endbody" -> IF r.pc # "body" THEN "endbody.pc" ELSE ""
           [] e.op = "bodyerr" -> IF r.pc # "body" THEN "bodyerr.pc" ELSE ""
           [] e.op = "close" ->
                IF r.pc # "closing" THEN "close.pc"
                ELSE IF r.raw # r.acc /\ ~r.lossy THEN "close.unflushed"
                ELSE IF e.res \notin {"ok", "fault"} THEN "close.res"
                ELSE ""
           [] e.op = "replace" ->
                IF r.pc # "renaming" THEN "replace.pc"       \* only a complete, closed temp is renamed
                ELSE IF e.i # r.i THEN "replace.source"      \* only the writer's own temp
                ELSE IF e.n # 1 THEN "replace.target"
                ELSE IF e.res \notin {"ok", "fault"} THEN "replace.res"
                ELSE ""
           [] e.op = "unlink" ->
                \* only a temp the writer holds right now may be removed (after __exit__, however it
                \* ended, the writer holds nothing: a later round never touches an earlier round's name)
                IF ~(r.pc \in Holding /\ e.i = r.i) THEN "unlink.own"
                ELSE IF r.pc # "unlinking" THEN "unlink.pc"
                ELSE IF e.res = "noent" /\ HasTmp(st, e.i) THEN "unlink.res"
                ELSE IF e.res = "ok" /\ ~HasTmp(st, e.i) THEN "unlink.res"
                ELSE IF e.res \notin {"ok", "noent", "fault"} THEN "unlink.res"
                ELSE ""
           [] e.op = "end" ->
                \* (how the outcome is reported to the caller is not part of the property; a failed mkdir of
                \* an existing directory may be ignored or reported)
                \* - or the directory cannot be had at all and the writer gives up before creating anything
                IF r.pc \in {"done", "failed"} \/ (r.pc = "open" /\ (r.mkf \/ ~st.dir)) THEN "" ELSE "end.pc"
           \* the process may be killed at any boundary, also after the last operation but before
           \* control is back at the caller (pc done / failed, not yet returned)
           [] e.op = "crash" -> IF r.pc = "dead" THEN "crash.pc" ELSE ""
           [] OTHER -> "unknown.op"

(* ---- the step itself (only meaningful when Guard(st, e) = "") ----------------- *)
SetW(st, w, r) == [st EXCEPT !.wr[w] = r]
UseFault(st, e) == IF e.res = "fault" THEN [st EXCEPT !.faults = @ - 1] ELSE st

Apply(st0, e) ==
    LET st == UseFault(st0, e)
        w == e.w
        r == st.wr[w]
        flt == e.res = "fault"
    IN CASE e.op = "mkdir" ->
              \* Path.mkdir(exist_ok=True) ignores any OSError when the directory is there
              IF flt /\ ~st.dir THEN SetW(st, w, [r EXCEPT !.pc = "failed", !.err = "os"])
              ELSE IF flt THEN SetW(st, w, [r EXCEPT !.pc = "open", !.mkf = TRUE])
              ELSE [SetW(st, w, [r EXCEPT !.pc = "open"]) EXCEPT !.dir = TRUE]
         [] e.op = "open" ->
              IF flt THEN SetW(st, w, [r EXCEPT !.pc = "failed", !.err = "os"])
              ELSE IF e.res = "noent" THEN SetW(st, w, [r EXCEPT !.pc = "open"])
              ELSE IF e.res = "exists" THEN SetW(st, w, [r EXCEPT !.pc = "open", !.tried = @ \cup {e.i}])
              ELSE [SetW(st, w, [r EXCEPT !.pc = "body", !.i = e.i, !.tried = {}, !.mkf = FALSE])
                        EXCEPT !.tmp = AddTmp(@, e.i, [owner |-> w, data |-> FALSE])]
         [] e.op = "bcall" -> SetW(st, w, [r EXCEPT !.acc = @ + e.n])
         [] e.op = "write" ->
              IF flt THEN
                  \* the OSError surfaces in the body (which ends with it) or in close()
                  IF r.pc = "body" THEN SetW(st, w, [r EXCEPT !.lossy = TRUE, !.pc = "closing", !.err = "os"])
                  ELSE SetW(st, w, [r EXCEPT !.lossy = TRUE, !.cerr = TRUE])
              ELSE [SetW(st, w, [r EXCEPT !.raw = @ + e.n]) EXCEPT !.tmp[r.i].data = TRUE]
         [] e.op = "endbody" -> SetW(st, w, [r EXCEPT !.pc = "closing", !.ended = TRUE])
         [] e.op = "bodyerr" -> SetW(st, w, [r EXCEPT !.pc = "closing", !.err = "body"])
         [] e.op = "close" ->
              IF flt \/ r.cerr \/ r.err # "none"
              THEN SetW(st, w, [r EXCEPT !.pc = "unlinking", !.err = IF @ = "none" THEN "os" ELSE @])
              ELSE SetW(st, w, [r EXCEPT !.pc = "renaming"])
         [] e.op = "replace" ->
              IF flt THEN SetW(st, w, [r EXCEPT !.pc = "unlinking", !.err = "os"])
              ELSE [SetW(st, w, [r EXCEPT !.pc = "done"])
                        EXCEPT !.tmp = DelTmp(@, r.i),
                               !.dest[w] = IF Complete(r) THEN NewName(r.round) ELSE "bad"]
         [] e.op = "unlink" ->
              IF flt THEN SetW(st, w, [r EXCEPT !.pc = "failed", !.leak = TRUE])
              ELSE [SetW(st, w, [r EXCEPT !.pc = "failed"]) EXCEPT !.tmp = DelTmp(@, r.i)]
         [] e.op = "end" -> SetW(st, w, [r EXCEPT !.ret = TRUE, !.pc = IF @ = "open" THEN "failed" ELSE @])
         [] e.op = "crash" -> SetW(st, w, [r EXCEPT !.pc = "dead"])
         \* a new round: the scan for a free temp name starts again at 1; a temp this writer could not
         \* unlink in an earlier round is from now on just a file lying around
         [] e.op = "reenter" ->
              [SetW(st, w, [NewWriter EXCEPT !.round = r.round + 1, !.base = st.dest[w]])
                  EXCEPT !.tmp = [k \in DOMAIN st.tmp |->
                                     IF st.tmp[k].owner = w THEN [st.tmp[k] EXCEPT !.owner = "stale"] ELSE st.tmp[k]]]

(* ---- the listed property, as state predicates over st ------------------------- *)
\* wr[w].base is what the destination held when the current round began
DestIntact(st) == \A w \in DOMAIN st.wr : st.dest[w] \in {st.wr[w].base, NewName(st.wr[w].round)}
OwnTmps(st, w) == {k \in DOMAIN st.tmp : st.tmp[k].owner = w}
FailedClean(st) == \A w \in DOMAIN st.wr :
    st.wr[w].pc = "failed" => st.dest[w] = st.wr[w].base /\ (OwnTmps(st, w) = {} \/ st.wr[w].leak)
DoneNew(st) == \A w \in DOMAIN st.wr :
    st.wr[w].pc = "done" => st.dest[w] = NewName(st.wr[w].round) /\ OwnTmps(st, w) = {}
\* two writers never hold the same temp name, and the name a writer holds is a file it created
NoSharedTemp(st) == \A w, v \in DOMAIN st.wr :
    (w # v /\ st.wr[w].pc \in Holding /\ st.wr[v].pc \in Holding) => st.wr[w].i # st.wr[v].i
HoldsOwn(st) == \A w \in DOMAIN st.wr :
    st.wr[w].pc \in Holding => HasTmp(st, st.wr[w].i) /\ st.tmp[st.wr[w].i].owner = w
\* a dead writer leaves its destination as it was or complete (its temp may remain: not a handled failure)
DeadIntact(st) == \A w \in DOMAIN st.wr :
    st.wr[w].pc = "dead" => st.dest[w] \in {st.wr[w].base, NewName(st.wr[w].round)}

(* ---- what an observer sees in the directory ----------------------------------- *)
\* ls = [dir, d, tmp]: d[w] contents class of the destination, tmp = set of <<index, nonempty>>
Visible(st) == [dir |-> st.dir, d |-> st.dest,
                tmp |-> {<<k, st.tmp[k].data>> : k \in DOMAIN st.tmp}]
=============================================================================
