SPECIFICATION Spec
INVARIANT TableSize
INVARIANT MipCount
INVARIANT Partition
INVARIANT Blocks
INVARIANT RoundTrip
INVARIANT Gate
INVARIANT Kept
INVARIANT ThumbKept
INVARIANT LazyUnobservable
INVARIANT Untouched
VIEW View
CHECK_DEADLOCK FALSE
CONSTANTS
  Sizes = {1, 2, 8, 16}
  FrameCounts = {1, 2}
  Layers = {"d1", "d4", "cube"}
  Minors = {2, 3, 4, 5}
  Fmts = {"RGBA8888", "ABGR8888", "RGB888", "BGR888", "RGB565", "I8", "IA88", "A8", "RGB888_BLUESCREEN", "BGR888_BLUESCREEN", "ARGB8888", "BGRA8888", "DXT1", "DXT3", "DXT5", "BGRX8888", "BGR565", "BGRX5551", "BGRA4444", "DXT1_ONEBITALPHA", "BGRA5551", "UV88", "UVWQ8888", "RGBA16161616F", "RGBA16161616", "UVLX8888", "ATI1N", "ATI2N"}
  Lows = {"NONE", "DXT1"}
  ResKinds = {}
  MaxRes = 0
  Access = FALSE
  Fills = {"l0"}
  History = FALSE
  MaxOps = 0
  Thumbs = {"t16"}
