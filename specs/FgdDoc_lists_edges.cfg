SPECIFICATION Spec
CONSTANTS
  WithDoc = TRUE
  WithText = FALSE
  Slice = "lists"
  TextLen = 0
  TextLimit = 8
  TextMinNl = 3
INVARIANT BinIdempotent
VIEW View
ACTION_CONSTRAINT Emit
CHECK_DEADLOCK FALSE
