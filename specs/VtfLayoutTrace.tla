---------------------------- MODULE VtfLayoutTrace ----------------------------
(* Validates records logged from the real srctools.vtf code against            *)
(* VtfLayoutOps.  Record kinds:                                                 *)
(*   ctor    a constructed VTF: levels, dimensions and declared mipmap count    *)
(*   rt      one texture saved and read back: the header/resource table/length  *)
(*           found in the written bytes by an independent parser, the frame     *)
(*           table of the read object (keys, dimensions, file offsets), meta    *)
(*           data, resources, sheet data, and for small images the pixels given,*)
(*           the bytes stored and the pixels read                               *)
(*   access  one Frame[x, y] read or write                                      *)
(*   hist    a harness-written file with arbitrary, distinct mipmap contents, read  *)
(*           lazily, optionally loaded / looked at / computed / cleared, saved and  *)
(*           read again                                                             *)
(*   synth   a file laid out by the harness from this specification, read by    *)
(*           VTF.read (formats the pure-Python tree cannot write)               *)
EXTENDS VtfLayoutOps, Json, IOUtils

Recs == ndJsonDeserialize(IOEnv.TRACE_FILE)
N == Len(Recs)
VARIABLE i

Bad(c, e) == [ok |-> FALSE, clause |-> c, exp |-> e]
Good == [ok |-> TRUE, clause |-> "", exp |-> 0]
SeqSet(s) == {s[j] : j \in 1..Len(s)}
KeyOf(e) == <<e[1], e[2], e[3]>>         \* table entries are <<frame, slice, mip, w, h(, offset)>>

\* --- constructor
\* How many levels a new texture gets is the constructor's choice (this one stops when a side reaches
\* 1, others go on to 1x1); what is fixed: a full table of frames x slices x levels 0..n-1 with the
\* halved dimensions, and a declared count that says n.
CtorStep(r) ==
    LET c == r.c
        got == {KeyOf(r.keys[j]) : j \in 1..Len(r.keys)}
        lv == Cardinality({k[3] : k \in got})
    IN IF lv < 1 \/ lv > 1 + Max(Log2(c.w), Log2(c.h)) \/ got # Keys(c, lv) \/ Len(r.keys) # Cardinality(got) THEN Bad("ctor.keys", lv)
       ELSE IF \E j \in 1..Len(r.keys) : <<r.keys[j][4], r.keys[j][5]>> # KeyDim(c, KeyOf(r.keys[j])) THEN Bad("ctor.dims", 0)
       ELSE IF r.mip # lv THEN Bad("ctor.mipcount", lv)
       ELSE Good

\* --- pixels of small images
HoldsImg(f, raw, img) == Len(raw) = BytesPerPixel(f) * Len(img) /\ DecodeImg(f, raw) = QuantImg(f, img)
PixAt(r, k) == r.pix[CHOOSE j \in 1..Len(r.pix) : r.pix[j].k = k]
HasPix(r, k) == \E j \in 1..Len(r.pix) : r.pix[j].k = k
RECURSIVE Expected(_, _)
\* the in-memory image of a level: what was given, else the average of the level above
Expected(r, k) ==
    LET e == PixAt(r, k) IN
    IF e.given THEN e.inp
    ELSE LET up == <<k[1], k[2], k[3] - 1>> IN
         Average2x2(Expected(r, up), PixAt(r, up).w, PixAt(r, up).h, e.w, e.h)
PixVerdict(r) ==
    LET f == r.c.fmt
        saved == {j \in 1..Len(r.pix) : r.pix[j].saved}
    \* the stored bytes are judged by what they hold for a reader of the format (several byte
    \* patterns may hold the same pixel, e.g. the unused byte of BGRX8888)
    IN IF \E j \in saved : ~HoldsImg(f, r.pix[j].raw, Expected(r, r.pix[j].k))
       THEN LET j == CHOOSE q \in saved : ~HoldsImg(f, r.pix[q].raw, Expected(r, r.pix[q].k))
            IN Bad("px.bytes", [k |-> r.pix[j].k, raw |-> EncodeImg(f, Expected(r, r.pix[j].k), 1)])
       ELSE IF \E j \in saved : r.pix[j].out # QuantImg(f, Expected(r, r.pix[j].k))
       THEN LET j == CHOOSE q \in saved : r.pix[q].out # QuantImg(f, Expected(r, r.pix[q].k))
            IN Bad("px.out", [k |-> r.pix[j].k, out |-> QuantImg(f, Expected(r, r.pix[j].k))])
       ELSE Good

\* --- sheet data: version 0 stores one rectangle per frame, version 1 four
SheetExp(ver, sh) ==
    [s \in 1..Len(sh) |->
        [sh[s] EXCEPT !.frames = [q \in 1..Len(sh[s].frames) |->
            IF ver = 1 THEN sh[s].frames[q]
            ELSE [sh[s].frames[q] EXCEPT !.b = sh[s].frames[q].a, !.c = sh[s].frames[q].a, !.d = sh[s].frames[q].a]]]]

\* --- the written header and resource table, as a reader of the format finds them: every resource
\* ID exactly once (in any order) with the flag and the value or data block the object has, image and
\* data blocks behind the header, inside the file and not overlapping.  Where the writer puts the
\* blocks and in which order it lists the entries is its own choice; before 7.3 the format fixes it
\* (thumbnail right behind the header, image block right behind the thumbnail).
NoEntry == [id |-> "", flags |-> 0, data |-> 0, blk |-> [size |-> 0 - 1, hex |-> ""]]
EntryOf(h, id) == IF \E j \in 1..Len(h.entries) : h.entries[j].id = id
                  THEN h.entries[CHOOSE j \in 1..Len(h.entries) : h.entries[j].id = id] ELSE NoEntry
LowObs(h, c) == IF HasTable(c) THEN EntryOf(h, IdLow).data ELSE h.hsize
HiObs(h, c) == IF HasTable(c) THEN EntryOf(h, IdHigh).data ELSE h.hsize + LowSize(c)
ExpIds(c) == {c.res[j].id : j \in 1..Len(c.res)} \cup {IdLow, IdHigh} \cup (IF c.sheet.has THEN {IdSheet} ELSE {})
HdrBlocks(h, c) ==
    {<<LowObs(h, c), LowSize(c)>>, <<HiObs(h, c), HiSize(c, c.mip)>>}
    \cup (IF HasTable(c) THEN {<<EntryOf(h, c.res[j].id).data, 4 + c.res[j].len>> : j \in {q \in 1..Len(c.res) : ~c.res[q].inline}}
                               \cup (IF c.sheet.has THEN {<<EntryOf(h, IdSheet).data, 4 + SheetLen(c.sheet)>>} ELSE {})
          ELSE {})
HdrVerdict(h, c, pfx) ==
    LET blocks == {b \in HdrBlocks(h, c) : b[2] > 0} IN
    IF HasTable(c) /\ (h.nres # NRes(c) \/ Len(h.entries) # NRes(c)
                       \/ {h.entries[j].id : j \in 1..Len(h.entries)} # ExpIds(c)) THEN Bad(pfx \o ".table", ExpIds(c))
    ELSE IF ~HasTable(c) /\ Len(h.entries) # 0 THEN Bad(pfx \o ".table", {})
    ELSE IF h.hsize < 80 + (IF HasTable(c) THEN 8 * NRes(c) ELSE 0) THEN Bad(pfx \o ".hsize", HeaderSize(c))
    ELSE IF HasTable(c) /\ \E j \in 1..Len(c.res) :
                LET x == c.res[j] e == EntryOf(h, x.id) IN
                IF x.inline THEN e.flags # SetBit1(x.flags) \/ e.data # x.val
                ELSE e.flags # ClearBit1(x.flags) \/ e.blk.size # x.len \/ e.blk.hex # x.hex
         THEN Bad(pfx \o ".entries", c.res)
    ELSE IF HasTable(c) /\ c.sheet.has /\ (Bit1(EntryOf(h, IdSheet).flags) = 1 \/ EntryOf(h, IdSheet).blk.size # SheetLen(c.sheet))
         THEN Bad(pfx \o ".entries", SheetLen(c.sheet))
    ELSE IF \E b \in blocks : b[1] < h.hsize \/ b[1] + b[2] > h.len THEN Bad(pfx \o ".blocks", h.hsize)
    ELSE IF \E a \in blocks, b \in blocks : a # b /\ a[1] < b[1] + b[2] /\ b[1] < a[1] + a[2] THEN Bad(pfx \o ".blocks", 0)
    ELSE Good

RtStep(r) ==
    LET c == r.c
        h == r.hdr
        e == Header(c)
        lv == r.levels
        got == {KeyOf(r.out.keys[j]) : j \in 1..Len(r.out.keys)}
        rb == ReadBack(c)
    IN IF r.exc # "" THEN Bad("rt.raised", r.exc)
       ELSE IF h.err # "" THEN Bad("hdr.parse", h.err)
       ELSE IF <<h.minor, h.w, h.h, h.frames, h.fmt, h.low, h.lw, h.lh, h.depth>>
                # <<e.minor, e.w, e.h, e.frames, e.fmt, e.low, e.lw, e.lh, e.depth>> THEN Bad("hdr.fields", e)
       ELSE IF h.mip # e.mip THEN Bad("hdr.mip", e.mip)
       ELSE IF h.meta # r.meta THEN Bad("hdr.meta", r.meta)
       ELSE IF ~HdrVerdict(h, c, "hdr").ok THEN HdrVerdict(h, c, "hdr")
       ELSE IF <<r.out.c.w, r.out.c.h, r.out.c.frames, r.out.c.depth, r.out.c.cube, r.out.c.minor, r.out.c.fmt,
                 r.out.c.low, r.out.c.lw, r.out.c.lh, r.out.c.mip>>
               # <<rb.w, rb.h, rb.frames, rb.depth, rb.cube, rb.minor, rb.fmt, rb.low, rb.lw, rb.lh, rb.mip>>
            THEN Bad("rt.fields", rb)
       ELSE IF r.out.meta # r.meta THEN Bad("rt.meta", r.meta)
       ELSE IF SeqSet(r.out.c.res) # SeqSet(rb.res) \/ Len(r.out.c.res) # Len(rb.res) THEN Bad("rt.resources", rb.res)
       ELSE IF r.out.c.sheet.has # rb.sheet.has THEN Bad("rt.sheet", rb.sheet)
       ELSE IF rb.sheet.has /\ (SeqSet(r.out.sheet) # SeqSet(SheetExp(c.sheet.ver, r.sheet)) \/ Len(r.out.sheet) # Len(r.sheet))
            THEN Bad("rt.sheet", SheetExp(c.sheet.ver, r.sheet))
       ELSE IF got # Keys(c, lv) \/ Len(r.out.keys) # Cardinality(got)
            THEN (IF got = Keys(c, lv - 1) /\ c.mip = lv - 1 THEN Bad("rt.keys.lastlevel", lv) ELSE Bad("rt.keys", lv))
       ELSE IF \E j \in 1..Len(r.out.keys) : <<r.out.keys[j][4], r.out.keys[j][5]>> # KeyDim(c, KeyOf(r.out.keys[j]))
            THEN Bad("rt.dims", 0)
       \* inside the image block the format fixes the place of every frame / face / slice / mipmap
       ELSE IF \E j \in 1..Len(r.out.keys) : r.out.keys[j][6] # HiObs(h, c) + KeyOffset(c, c.mip, KeyOf(r.out.keys[j]))
            THEN Bad("rt.offsets", HiObs(h, c))
       ELSE Good
\* the thumbnail of a texture whose thumbnail was never given pixels (new, or erased): the average
\* of the level of twice its size (judged when that level's pixels are logged), else the blank image
ThumbRt(r) ==
    LET c == r.c
        src == <<0, SrcSlice(c), IF HasMatch(c) THEN MatchLevel(c) ELSE 0>>
        exp == IF HasMatch(c) THEN Average2x2(Expected(r, src), PixAt(r, src).w, PixAt(r, src).h, c.lw, c.lh)
               ELSE BlankImg(c.lw * c.lh)
    IN IF c.low = "NONE" \/ r.exc # "" \/ (HasMatch(c) /\ ~HasPix(r, src)) THEN Good
       ELSE IF ~HoldsImg(c.low, r.low2, exp) THEN Bad("rt.thumb.bytes", EncodeImg(c.low, exp, 1))
       ELSE Good
\* a record is judged clause by clause; structure first, then pixels, then the re-save
RtFull(r) ==
    LET a == RtStep(r) IN
    IF ~a.ok /\ a.clause # "rt.keys.lastlevel" THEN a
    ELSE LET p == IF Len(r.pix) > 0 THEN PixVerdict(r) ELSE Good IN
         IF ~p.ok THEN p
         ELSE IF ~ThumbRt(r).ok THEN ThumbRt(r)
         ELSE IF ~a.ok THEN a
         ELSE IF r.exact # 0 - 1 THEN Bad("px.exact", r.exact)
         ELSE IF ~r.resave THEN Bad("rt.resave", TRUE)
         ELSE Good

AccessStep(r) ==
    LET ok == InBounds(r.x, r.y, r.w, r.h) IN
    IF ok /\ r.raised THEN Bad("access.refused", "no exception")
    ELSE IF ~ok /\ ~r.raised THEN Bad("access.bounds", "exception")
    ELSE IF ok /\ ~r.val_ok THEN Bad("access.value", 0)
    ELSE IF ~ok /\ ~r.unchanged THEN Bad("access.damage", 0)
    ELSE Good

SynthStep(r) ==
    LET c == r.c
        got == {KeyOf(r.keys[j]) : j \in 1..Len(r.keys)}
    IN IF r.exc # "" THEN Bad("synth.raised", r.exc)
       ELSE IF r.len # FileLen(c) THEN Bad("synth.len", FileLen(c))
       ELSE IF got # Keys(c, c.mip) \/ Len(r.keys) # Cardinality(got) THEN Bad("synth.keys", c.mip)
       ELSE IF \E j \in 1..Len(r.keys) : <<r.keys[j][4], r.keys[j][5]>> # KeyDim(c, KeyOf(r.keys[j])) THEN Bad("synth.dims", 0)
       \* the offsets are the harness's own walk over the file; here they are held against the layout rule
       ELSE IF \E j \in 1..Len(r.keys) : r.keys[j][6] # HiOff(c) + KeyOffset(c, c.mip, KeyOf(r.keys[j]))
            THEN Bad("synth.offsets", HiOff(c))
       \* every frame shows the image that stands at its place in the file
       ELSE IF ~r.placed THEN Bad("synth.pixels", TRUE)
       ELSE IF r.fields # <<c.w, c.h, c.frames, c.depth, c.minor, c.fmt, c.low, c.mip>> THEN Bad("synth.fields", 0)
       ELSE Good

\* --- read -> (load | look | compute | clear)* -> save -> read
ApplyOp(lv, o) == CASE o.op = "load" -> HLoad(lv, o.sel)
                    [] o.op = "look" -> HAccess(lv, o.m, FALSE)
                    [] o.op = "loadall" -> HLoad(lv, "all")
                    [] o.op = "poke" -> HPoke(lv, o.m, FALSE)
                    [] o.op = "compute" -> HCompute(lv)
                    [] o.op = "clear" -> HClear(lv, o.after)
OpOK(lv, o) == CASE o.op = "load" -> CanLoad(lv, o.sel)
                 [] o.op = "loadall" -> CanLoad(lv, "all")
                 [] o.op = "look" -> o.m < Len(lv) /\ lv[o.m + 1].st # "cleared"
                 [] o.op = "poke" -> o.m < Len(lv) /\ lv[o.m + 1].st # "cleared"
                 [] o.op = "compute" -> TRUE
                 [] o.op = "clear" -> o.after >= 0
RECURSIVE RunOps(_, _, _)
RunOps(lv, ops, j) == IF j > Len(ops) THEN lv ELSE RunOps(ApplyOp(lv, ops[j]), ops, j + 1)
RECURSIVE OpsOK(_, _, _)
OpsOK(lv, ops, j) == j > Len(ops) \/ (OpOK(lv, ops[j]) /\ OpsOK(ApplyOp(lv, ops[j]), ops, j + 1))
\* The texture in memory: imgs one image per stored entry (<<>> marks an erased frame), has = the
\* frame's pixels are in memory (a frame that was read is lazy until loaded), th = the thumbnail
\* (img <<>> when erased or absent; lazy = still as read, the stored bytes win on save)
Idx(r, k) == CHOOSE j \in 1..Len(r.stored) : r.stored[j].k = k
Above(k) == <<k[1], k[2], k[3] - 1>>
LevelOf(r, j) == r.stored[j].k[3]
\* compute_mipmaps(), thumbnail part: regenerated from the level of twice its size when that
\* level's frame 0 (depth 0 / FRONT face) has pixels in memory and the thumbnail is not lazy
ThumbS(r, S) ==
    IF ~HasMatch(r.c) THEN S
    ELSE LET src == Idx(r, <<0, SrcSlice(r.c), MatchLevel(r.c)>>) IN
         IF ~S.has[src] \/ S.th.lazy THEN S
         ELSE [S EXCEPT !.th.img = Average2x2(S.imgs[src], r.stored[src].w, r.stored[src].h, r.c.lw, r.c.lh)]
RECURSIVE RegenS(_, _, _)
\* erased frames of level m become the average of the frame above (which is loaded for it), largest level first
RegenS(r, S, m) ==
    IF m >= r.c.mip THEN S
    ELSE LET todo == {j \in 1..Len(S.imgs) : LevelOf(r, j) = m /\ S.imgs[j] = <<>>}
             parents == {Idx(r, Above(r.stored[j].k)) : j \in todo}
         IN RegenS(r, [S EXCEPT !.imgs = [j \in 1..Len(S.imgs) |->
                                   IF j \in todo
                                   THEN LET u == Idx(r, Above(r.stored[j].k)) IN
                                        Average2x2(S.imgs[u], r.stored[u].w, r.stored[u].h, r.stored[j].w, r.stored[j].h)
                                   ELSE S.imgs[j]],
                                 !.has = [j \in 1..Len(S.has) |-> S.has[j] \/ j \in todo \/ j \in parents]], m + 1)
ComputeS(r, S) == ThumbS(r, RegenS(r, [S EXCEPT !.has = [j \in 1..Len(S.has) |-> S.has[j] \/ LevelOf(r, j) = 0]], 1))
StepS(r, S, o) ==
    CASE o.op = "poke" -> [S EXCEPT !.imgs[Idx(r, <<0, 0, o.m>>)][1] = o.px,        \* frame 0, slice 0, pixel (0, 0)
                                    !.has[Idx(r, <<0, 0, o.m>>)] = TRUE]
      [] o.op = "look" -> [S EXCEPT !.has[Idx(r, <<0, 0, o.m>>)] = TRUE]
      [] o.op = "load" -> [S EXCEPT !.has = [j \in 1..Len(S.has) |-> S.has[j] \/ Sel(o.sel, LevelOf(r, j))]]
      [] o.op = "loadall" -> [S EXCEPT !.has = [j \in 1..Len(S.has) |-> TRUE], !.th.lazy = FALSE]
      [] o.op = "clear" -> [S EXCEPT !.imgs = [j \in 1..Len(S.imgs) |-> IF LevelOf(r, j) > o.after THEN <<>> ELSE S.imgs[j]],
                                     !.has = [j \in 1..Len(S.has) |-> S.has[j] /\ LevelOf(r, j) <= o.after],
                                     !.th = [img |-> <<>>, lazy |-> FALSE]]
      [] o.op = "compute" -> ComputeS(r, S)
RECURSIVE RunS(_, _, _)
RunS(r, S, j) == IF j > Len(r.ops) THEN S ELSE RunS(r, StepS(r, S, r.ops[j]), j + 1)
\* what save() must write: erased frames regenerated, the thumbnail regenerated or, if it has
\* no pixels at all, the blank image
FinalS(r) ==
    LET S0 == [imgs |-> [j \in 1..Len(r.stored) |-> DecodeImg(r.c.fmt, r.stored[j].raw)],
               has |-> [j \in 1..Len(r.stored) |-> FALSE],
               th |-> [img |-> IF r.c.low = "NONE" THEN <<>> ELSE DecodeImg(r.c.low, r.low), lazy |-> TRUE]]
        S == ComputeS(r, RunS(r, S0, 1))
    IN IF r.c.low # "NONE" /\ S.th.img = <<>> THEN [S EXCEPT !.th.img = BlankImg(r.c.lw * r.c.lh)] ELSE S
HistStep(r) ==
    LET c == r.c
        f == c.fmt
        e == Header(c)
        lv0 == LvInit(c.mip)
        lv == RunOps(lv0, r.ops, 1)
        got == {KeyOf(r.keys[j]) : j \in 1..Len(r.keys)}
        FS == FinalS(r)
        fin == FS.imgs
        badraw == {j \in 1..Len(r.pix) : ~HoldsImg(f, r.pix[j].raw, fin[Idx(r, r.pix[j].k)])}
        badout == {j \in 1..Len(r.pix) : r.pix[j].out # QuantImg(f, fin[Idx(r, r.pix[j].k)])}
    IN IF ~OpsOK(lv0, r.ops, 1) THEN Bad("hist.input", 0)
       ELSE IF r.exc # "" THEN Bad("hist.raised", r.exc)
       ELSE IF r.hdr.err # "" THEN Bad("hist.header", r.hdr.err)
       ELSE IF <<r.hdr.minor, r.hdr.w, r.hdr.h, r.hdr.frames, r.hdr.fmt, r.hdr.mip, r.hdr.depth>>
               # <<e.minor, e.w, e.h, e.frames, e.fmt, e.mip, e.depth>> THEN Bad("hist.header", e)
       ELSE IF ~HdrVerdict(r.hdr, c, "hist").ok THEN HdrVerdict(r.hdr, c, "hist")
       ELSE IF got # Keys(c, c.mip) \/ Len(r.keys) # Cardinality(got) \/ Len(r.pix) # Len(r.keys) THEN Bad("hist.keys", c.mip)
       ELSE IF \E j \in 1..Len(r.keys) : <<r.keys[j][4], r.keys[j][5]>> # KeyDim(c, KeyOf(r.keys[j]))
                                          \/ r.keys[j][6] # HiObs(r.hdr, c) + KeyOffset(c, c.mip, KeyOf(r.keys[j])) THEN Bad("hist.layout", HiObs(r.hdr, c))
       ELSE IF badraw # {} THEN LET j == CHOOSE q \in badraw : TRUE IN
                Bad("hist.bytes", [k |-> r.pix[j].k, raw |-> EncodeImg(f, fin[Idx(r, r.pix[j].k)], 1)])
       ELSE IF badout # {} THEN LET j == CHOOSE q \in badout : TRUE IN
                Bad("hist.out", [k |-> r.pix[j].k, out |-> QuantImg(f, fin[Idx(r, r.pix[j].k)])])
       ELSE IF c.low # "NONE" /\ ~HoldsImg(c.low, r.low2, FS.th.img) THEN Bad("hist.thumb.bytes", EncodeImg(c.low, FS.th.img, 1))
       ELSE Good

Verdict(r) == CASE r.k = "ctor" -> CtorStep(r)
                [] r.k = "hist" -> HistStep(r)
                [] r.k = "rt" -> RtFull(r)
                [] r.k = "access" -> AccessStep(r)
                [] r.k = "synth" -> SynthStep(r)

Init == i = 0
Next == i < N /\ i' = i + 1
Checked == i = 0 \/ LET v == Verdict(Recs[i]) IN
              v.ok \/ PrintT(ToJson([tag |-> "MISMATCH", i |-> i, clause |-> v.clause, exp |-> v.exp]))
AllConsumed == TLCGet("stats").diameter = N + 1
=============================================================================
