-------------------------------- MODULE VmfDoc --------------------------------
(* C06: the VMF document as a state machine.  Builder actions mirror the public *)
(* API (one per mutator used to build a map); ExportParse(opts) replaces the    *)
(* document by what export -> parse must return.  The listed property is that   *)
(* this is a fixed point losing no map content:                                 *)
(*   FixedPoint   a second export/parse of the result changes nothing           *)
(*   NoLoss       every entity, keyvalue, output, fixup, brush, face, group,    *)
(*                visgroup membership ... of the document is in the result; only *)
(*                what `minimal` / `disp_multiblend = FALSE` document is dropped *)
(*   UniqueIds    object IDs stay unique per kind                               *)
(* Values are symbols ("@s1": concretised by the replayer) and exact numbers.   *)
EXTENDS VmfDocOps, Json

CONSTANTS MaxEnts, MaxSolids, MaxSides, MaxOuts, MaxVis, MaxGroups, MaxCams, MaxCordons,
          Lens,        \* possible numbers of builder steps before ExportParse
          WithHist,    \* keep the history (simulation) or not (exhaustive checking)
          Rich,        \* full parameter domains (simulation) or the reduced ones (exhaustive)
          OptChoices   \* the export/parse option records explored

VARIABLES doc, phase, opts, len, steps, hist, act
vars == <<doc, phase, opts, len, steps, hist>>

(* ---- parameter domains ------------------------------------------------------ *)
Strs == IF Rich THEN {"@s1", "@s2", "@s3", "@s4", "@s5"} ELSE {"@s1", "@s2"}
\* @k3: a name next to the replaceNN boundary or a structural word of the entity block, as an ordinary keyvalue
\* @k4: a name the format reads as a fixup (replace + two digits); its values @f1/@f2 have the fixup form "$var value"
KeySyms == {"@k1", "@K1", "@k2", "@k3"}
AmbKey == "@k4"
AmbVals == {"@f1", "@f2"}
FxOf(v) == [idx |-> 7, var |-> v \o "v", val |-> v \o "r", f |-> v \o "f"]
FoldK(k) == IF k = "@K1" THEN "@k1" ELSE k
VarSyms == {"@v1", "@V1", "@v2"}
FoldV(v) == IF v = "@V1" THEN "@v1" ELSE v
Mats == {"@n1", "@n2"}
Classes == {"@c1", "@c2"}

F1 == <<0, 0, 15625000>>            \* 1/64
F2 == <<1, 12, 345678900>>          \* -12.3456789: more than 6 places
F3 == <<0, 3, 141592653>>           \* 3.141592653
F4 == <<0, 16383, 999999600>>       \* rounds up into the integer part
VA == <<N(0), N(0), N(0)>>
VB == <<N(64), N(0 - 32), N(128)>>
VC == <<F1, F2, F3>>
VD == <<N(0 - 128), F4, <<1, 0, 500000000>>>>
Vecs == IF Rich THEN {VA, VB, VC, VD} ELSE {VB, VC}
Colors == {C255, <<N(0), N(128), N(255)>>}
Corners == IF Rich THEN {<<VA, VB>>, <<VC, VD>>, <<VB, VC>>} ELSE {<<VA, VB>>}
G1 == <<0, 150000000, 0>>           \* 1.5
G2 == <<0, 123456789, 2>>           \* 123.456789 -> six significant digits
G3 == <<0, 500000000, 0 - 5>>       \* 5e-05: exponent notation
G4 == <<1, 999999600, 1>>           \* -99.99996 -> -100
Gs == IF Rich THEN {Z, G1, G2, G3, G4} ELSE {Z, G2}
AxisVals == {Axis(0, 1, 0), <<F3, F1, Z, N(0 - 16), <<0, 0, 125000000>>>>, <<N(0), N(0), N(0 - 1), F2, F1>>}
Planes == {<<VA, <<N(1), N(0), N(0)>>, <<N(0), N(1), N(0)>>>>, <<VC, VD, VB>>}
Views == {<< [k |-> "3d", axis |-> "", n |-> <<N(1), F2, F3, N(45), N(270), Z>>],
             [k |-> "2d", axis |-> "x", n |-> <<N(5), F1, <<0, 2, 500000000>>>>],
             [k |-> "2d", axis |-> "y", n |-> <<F2, N(7), One>>],
             [k |-> "2d", axis |-> "z", n |-> <<N(0 - 100), F3, Quarter>>] >>,
          << [k |-> "2d", axis |-> "z", n |-> <<N(1), N(2), One>>],
             [k |-> "3d", axis |-> "", n |-> <<F4, N(9), N(0 - 9), F1, N(90), N(180)>>],
             [k |-> "2d", axis |-> "x", n |-> <<N(3), N(4), N(2)>>],
             [k |-> "2d", axis |-> "y", n |-> <<N(0 - 5), N(6), F1>>] >>}
Settings == {<<"prefab", TRUE>>, <<"mapVer", 7>>, <<"hammerVer", 401>>, <<"hammerBuild", 8000>>, <<"snap", FALSE>>,
             <<"showGrid", FALSE>>, <<"showLogic", TRUE>>, <<"show3d", TRUE>>, <<"grid", 16>>, <<"activeCam", 2>>,
             <<"cordonOn", TRUE>>, <<"quickhide", 3>>, <<"instVis", 0>>, <<"instVis", 2>>}
Out(nm, io, tg, inp, ii, pr, dl, tm, cm) ==
    [name |-> nm, io |-> io, target |-> tg, inp |-> inp, ii |-> ii, params |-> pr, delay |-> dl, times |-> tm, comma |-> cm]
Outs == {Out("@o1", "", "@s1", "@o2", "", "", Z, 0 - 1, FALSE),
         Out("@o1", "", "@s1", "@o2", "", "@s2", G1, 1, TRUE),
         Out("@o2", "@s1", "@s5", "@o1", "", "@s3", G2, 0 - 1, FALSE),
         Out("@o1", "", "@s1", "@o2", "@s1", "@s4", G3, 5, FALSE),
         Out("@o2", "@s1", "@s1", "@o1", "@s1", "@s1", G4, 1, TRUE)}
VertPlain == [DefaultVert EXCEPT !.n = VC, !.d = F3, !.o = VD, !.on = VB, !.a = N(255), !.ta = 0, !.tb = 1]
VertBlend == [VertPlain EXCEPT !.mb = <<G1, Z, G2, G3>>, !.ma = <<Z, G1, Z, G4>>, !.mc = <<VA, VB, VC, White>>]
VertBlendNoCol == [DefaultVert EXCEPT !.mb = <<Z, G1, Z, Z>>]
VertsP == {VertPlain, VertBlend, VertBlendNoCol}
Allowed == {[i \in 1..10 |-> IF i = 3 THEN 0 ELSE 0 - 1], [i \in 1..10 |-> i * 1000003]}

\* membership IDs: members equal modulo 8 (k, k+8, k+16, k+32, k+64) with small ones, 3-6 of them, in several
\* insertion orders (a Python set of such integers iterates in an order that depends on how it was built)
JoinSeqs == IF Rich THEN {<<6, 38, 70, 1, 2>>, <<70, 38, 6, 2, 1>>, <<2, 70, 1, 6, 38>>, <<1, 9, 17, 33, 65, 2>>, <<65, 2, 33, 1, 17, 9>>,
                          <<8, 16, 24>>, <<24, 16, 8>>, <<3, 11, 19, 4>>, <<19, 4, 11, 3>>, <<5, 13, 69, 133, 2>>}
            ELSE {<<6, 38, 70, 1, 2>>, <<24, 16, 8>>}

(* ---- state ----------------------------------------------------------------------- *)
OptSet == [minimal : BOOLEAN, mb : BOOLEAN, preserve : BOOLEAN, inc : BOOLEAN]
OptMc == [minimal : BOOLEAN, mb : BOOLEAN, preserve : {FALSE}, inc : {TRUE}]
OptMc2 == {[minimal |-> TRUE, mb |-> FALSE, preserve |-> FALSE, inc |-> TRUE], [minimal |-> FALSE, mb |-> TRUE, preserve |-> TRUE, inc |-> FALSE]}
OptOne == {[minimal |-> FALSE, mb |-> TRUE, preserve |-> FALSE, inc |-> TRUE]}
Init == /\ doc = EmptyDoc /\ phase = "build" /\ opts \in OptChoices /\ len \in Lens /\ steps = 0
        /\ hist = <<>> /\ act = [op |-> "init"]

Do(a) == /\ phase = "build" /\ steps < len
         /\ doc' = Apply(doc, a) /\ steps' = steps + 1
         /\ hist' = IF WithHist THEN Append(hist, a) ELSE hist
         /\ act' = a /\ UNCHANGED <<phase, opts, len>>

EntIdx == 0..Len(doc.ents)
RealEnts == 1..Len(doc.ents)
SolidIdx(e) == 1..Len(EntAt(doc, e).solids)
SideIdx(e, s) == LET n == Len(EntAt(doc, e).solids[s].sides) IN IF n = 0 THEN {} ELSE {1, n}
DispSides(e, s) == {f \in SideIdx(e, s) : EntAt(doc, e).solids[s].sides[f].disp.power > 0}
VisPaths == {<<>>} \cup {<<i>> : i \in 1..Len(doc.vis)}
                   \cup UNION {{<<i, j>> : j \in 1..Len(doc.vis[i].kids)} : i \in 1..Len(doc.vis)}

Builder ==
    \/ \E z \in EntIdx \cap {0} : \E p \in Settings : Do([op |-> "SetSetting", name |-> p[1], val |-> p[2]])
    \/ \E z \in EntIdx \cap {0} : \E p \in {<<"quickhide", 3>>, <<"instVis", 1>>} : Do([op |-> "SetSetting", name |-> p[1], val |-> p[2]])
    \/ \E z \in EntIdx \cap {0} : \E v \in Views : Do([op |-> "SetViews", views |-> v])
    \/ Len(doc.cams) < MaxCams /\ \E z \in EntIdx \cap {0} : \E p \in Vecs, l \in {VA, VC} : Do([op |-> "AddCamera", pos |-> p, look |-> l])
    \/ \E i \in 1..Len(doc.cams) : Do([op |-> "CamSetActive", i |-> i])
    \/ Len(doc.cordons) < MaxCordons /\ \E z \in EntIdx \cap {0} : \E c \in Corners, b \in BOOLEAN, nm \in Strs :
            Do([op |-> "AddCordon", mins |-> c[1], maxs |-> c[2], active |-> b, name |-> nm])
    \/ \E c \in Colors : Len(FlatVis(doc.vis)) < MaxVis /\ \E p \in VisPaths, nm \in Strs :
            Do([op |-> "AddVisgroup", path |-> p, name |-> nm, color |-> c])
    \/ \E b2 \in BOOLEAN : Len(doc.groups) < MaxGroups /\ \E z \in EntIdx \cap {0} : \E b1 \in BOOLEAN, c \in Colors :
            Do([op |-> "AddGroup", shown |-> b1, auto |-> b2, color |-> c])
    \/ \E c \in Classes : Len(doc.ents) < MaxEnts /\ Do([op |-> "AddEnt", cls |-> c])
    \/ \E e \in EntIdx, k \in KeySyms, v \in Strs : Do([op |-> "SetKey", e |-> e, k |-> k, f |-> FoldK(k), v |-> v, fx |-> EmptyFn])
    \/ \E e \in EntIdx, v \in AmbVals : Do([op |-> "SetKey", e |-> e, k |-> AmbKey, f |-> AmbKey, v |-> v, fx |-> FxOf(v)])
    \/ \E e \in EntIdx, k \in KeySyms \cup {AmbKey} : FoldK(k) \in DOMAIN EntAt(doc, e).keys
            /\ Do([op |-> "DelKey", e |-> e, k |-> k, f |-> FoldK(k)])
    \/ \E e \in EntIdx, w \in VarSyms, v \in Strs :
            Do([op |-> "SetFixup", e |-> e, var |-> w, bare |-> w, f |-> FoldV(w), val |-> v])
    \/ \E e \in EntIdx, w \in VarSyms : FoldV(w) \in DOMAIN EntAt(doc, e).fix
            /\ Do([op |-> "DelFixup", e |-> e, var |-> w, bare |-> w, f |-> FoldV(w)])
    \/ \E e \in EntIdx, o \in Outs : Len(EntAt(doc, e).outs) < MaxOuts /\ Do([op |-> "AddOut", e |-> e, out |-> o])
    \/ \E dummy \in BOOLEAN : \E e \in RealEnts, p \in {<<"hidden", TRUE>>, <<"visShown", FALSE>>, <<"visAuto", FALSE>>,
                                 <<"color", <<N(0), N(128), N(255)>>>>, <<"logical", "@l1">>, <<"logical", "@l2">>} :
            Do([op |-> "SetEntAttr", e |-> e, name |-> p[1], val |-> p[2]])
    \/ \E e \in EntIdx, s \in Strs : Do([op |-> "SetEntAttr", e |-> e, name |-> "comments", val |-> s])
    \* (the rarer optional blocks get a disjunct of their own: the simulator picks disjuncts uniformly)
    \/ \E e \in RealEnts : Do([op |-> "SetEntAttr", e |-> e, name |-> "hidden", val |-> TRUE])
    \/ \E s \in SolidIdx(0) : \E p \in {<<"group", g>> : g \in GroupIds(doc)} \cup {<<"joinvis", g>> : g \in VisIds(doc)} :
            Do([op |-> "SetSolidAttr", e |-> 0, s |-> s, name |-> p[1], val |-> p[2]])
    \/ \E dummy \in {1, 2, 3} : \E e \in RealEnts, g \in GroupIds(doc) : Do([op |-> "EntJoin", e |-> e, what |-> "group", id |-> g])
    \/ \E dummy \in {1, 2, 3} : \E e \in RealEnts, g \in VisIds(doc) : Do([op |-> "EntJoin", e |-> e, what |-> "vis", id |-> g])
    \* memberships whose IDs collide in a small hash table, in several insertion orders
    \/ \E w \in {"group", "vis"} : \E e \in RealEnts, q \in JoinSeqs : Do([op |-> "EntJoinSeq", e |-> e, what |-> w, ids |-> q])
    \/ \E s \in SolidIdx(0), q \in JoinSeqs : Do([op |-> "SolidJoinSeq", e |-> 0, s |-> s, ids |-> q])
    \/ \E b \in BOOLEAN : \E e \in EntIdx, c \in Corners, m \in Mats : Len(EntAt(doc, e).solids) < MaxSolids
            /\ Do([op |-> "AddPrism", e |-> e, p1 |-> c[1], p2 |-> c[2], mat |-> m, points |-> b])
    \/ \E e \in EntIdx : Len(EntAt(doc, e).solids) < MaxSolids /\ Do([op |-> "AddSolid", e |-> e])
    \/ \E pw \in 0..4 : \E e \in EntIdx : \E s \in SolidIdx(e), pl \in Planes, m \in Mats, ax \in AxisVals, r \in Gs :
            Len(EntAt(doc, e).solids[s].sides) < MaxSides
            /\ Do([op |-> "AddSide", e |-> e, s |-> s, plane |-> pl, mat |-> m, u |-> ax, v |-> Axis(0, 0, 0 - 1),
                   rot |-> r, lightmap |-> 16, smooth |-> 0, power |-> pw])
    \/ \E dummy \in {1, 2, 3} : \E e \in EntIdx : \E s \in SolidIdx(e) :
            \E p \in {<<"hidden", TRUE>>, <<"visShown", FALSE>>, <<"visAuto", FALSE>>, <<"cordon", TRUE>>,
                      <<"color", <<N(0), N(128), N(255)>>>>}
                     \* group / visgroup membership of a brush: world brushes only (inside a brush entity the
                     \* membership is the entity's; Solid.export documents it as not allowed there)
                     \cup (IF e = 0 THEN {<<"group", g>> : g \in GroupIds(doc)} \cup {<<"joinvis", g>> : g \in VisIds(doc)} ELSE {}) :
                Do([op |-> "SetSolidAttr", e |-> e, s |-> s, name |-> p[1], val |-> p[2]])
    \/ \E dummy \in {1, 2} : \E e \in EntIdx : \E s \in SolidIdx(e) : \E f \in SideIdx(e, s) :
            \E p \in {<<"mat", m>> : m \in Mats} \cup {<<"u", ax>> : ax \in AxisVals} \cup {<<"v", ax>> : ax \in AxisVals}
                     \cup {<<"rot", r>> : r \in Gs} \cup {<<"lightmap", 32>>, <<"smooth", 5>>,
                           <<"points", [has |-> TRUE, p |-> <<VA, VB, VC>>]>>, <<"points", [has |-> TRUE, p |-> <<>>]>>} :
                Do([op |-> "SetSideAttr", e |-> e, s |-> s, f |-> f, name |-> p[1], val |-> p[2]])
    \/ \E dummy \in {1, 2, 3} : \E e \in EntIdx : \E s \in SolidIdx(e) : \E f \in DispSides(e, s) :
            \E p \in {<<"pos", v>> : v \in Vecs} \cup {<<"elev", F3>>, <<"subdiv", TRUE>>}
                     \cup {<<"flags", x>> : x \in 0..6} \cup {<<"allowed", x>> : x \in Allowed} :
                Do([op |-> "SetDispAttr", e |-> e, s |-> s, f |-> f, name |-> p[1], val |-> p[2]])
    \/ \E w \in VertsP : \E e \in EntIdx : \E s \in SolidIdx(e) : \E f \in DispSides(e, s) :
            LET n == Len(EntAt(doc, e).solids[s].sides[f].disp.verts)
            IN  \E i \in {1, 2, (n + 1) \div 2, n} :
                    Do([op |-> "SetVert", e |-> e, s |-> s, f |-> f, i |-> i, vert |-> w])

\* export -> parse: the document becomes what the re-read map must be
ExportParse ==
    /\ phase = "build" /\ steps = len
    /\ doc' = Expected(opts, doc) /\ phase' = "done"
    /\ act' = [op |-> "ExportParse", opts |-> opts]
    /\ UNCHANGED <<opts, len, steps, hist>>
\* exporting the re-read map again (the second export of the property)
Again ==
    /\ phase = "done"
    /\ doc' = Expected([opts EXCEPT !.inc = FALSE], doc) /\ phase' = "again"
    /\ act' = [op |-> "Again"] /\ UNCHANGED <<opts, len, steps, hist>>

Next == Builder \/ ExportParse \/ Again
Spec == Init /\ [][Next]_vars

(* ---- the listed property ---------------------------------------------------------- *)
O2 == [opts EXCEPT !.inc = FALSE]
\* the re-read document is a fixed point of export -> parse (checked in every state, for the
\* document as it would be exported now)
FixedPoint == LET x == Expected(opts, doc) IN Expected(O2, x) = x
AgainStutters == [][phase = "done" => doc' = doc]_vars

\* (a keyvalue the format reads as a fixup counts as the fixup it denotes)
Card(e0) == LET e == MoveAmb(e0) IN
           [keys |-> DOMAIN e.keys, kv |-> e.keys, fix |-> e.fix, outs |-> Len(e.outs), hidden |-> e.hidden,
            groups |-> e.groups, vis |-> e.vis, logical |-> e.logical, comments |-> e.comments,
            solids |-> MapSeq(LAMBDA s : [id |-> s.id, hidden |-> s.hidden, group |-> s.group, vis |-> s.vis,
                                         sides |-> MapSeq(LAMBDA f : [id |-> f.id, mat |-> f.mat, power |-> f.disp.power,
                                                                     has |-> f.points.has, np |-> Len(f.points.p)], s.sides)],
                              e.solids)]
Content(d) == [ents |-> MapSeq(Card, d.ents), world |-> [Card(d.world) EXCEPT !.keys = @ \ {"mapversion"},
                                                          !.kv = [f \in DOMAIN @ \ {"mapversion"} |-> @[f]]],
               vis |-> FlatVis(QVis(d.vis)), groups |-> MapSeq(LAMBDA g : [id |-> g.id, shown |-> g.shown, auto |-> g.auto], d.groups)]
NoLoss == LET x == Expected(opts, doc)
          IN  /\ Content(x) = Content(doc)
              /\ ~opts.minimal => (Len(x.cams) = Len(doc.cams) /\ Len(x.cordons) = Len(doc.cordons)
                                   /\ Len(x.set.views) = Len(doc.set.views) /\ x.set.instVis = doc.set.instVis
                                   /\ x.set.grid = doc.set.grid)
              /\ x.set.prefab = doc.set.prefab /\ x.set.hammerVer = doc.set.hammerVer
Distinct(seq) == \A i, j \in 1..Len(seq) : i # j => seq[i].id # seq[j].id
UniqueIds == /\ Distinct(EntsOf(doc)) /\ Distinct(SolidsOf(doc)) /\ Distinct(SidesOf(doc))
             /\ Distinct(FlatVis(doc.vis)) /\ Distinct(doc.groups)
\* numbers of a re-read document are already what their text denotes
QuantIdem == phase # "build" => Quant(doc) = doc

(* ---- output for the replayer ------------------------------------------------------- *)
View == vars
\* simulation: one line per behaviour that reaches ExportParse.  The property is evaluated at that step only
\* (in simulation TLC evaluates state invariants on every candidate successor, which is the whole cost):
\* the exported document loses nothing and is a fixed point.
AtExport == /\ Assert(NoLoss, "NoLoss violated at ExportParse")
            /\ Assert(Expected(O2, doc') = doc', "FixedPoint violated at ExportParse")
            /\ Assert(Quant(doc') = doc', "QuantIdem violated at ExportParse")
EmitHist == (act'.op = "ExportParse") => (AtExport /\ PrintT(ToJson([tag |-> "HIST", h |-> hist, opts |-> opts])))
\* exhaustive: every transition once
Emit == PrintT(ToJson([tag |-> "EDGE", s |-> doc, a |-> act', t |-> doc']))
=============================================================================
