SPECIFICATION Spec
INVARIANT TableSize
INVARIANT MipCount
INVARIANT Partition
INVARIANT Blocks
INVARIANT RoundTrip
INVARIANT Gate
INVARIANT Kept
INVARIANT ThumbKept
INVARIANT LazyUnobservable
INVARIANT Untouched
VIEW View
ACTION_CONSTRAINT Emit
CHECK_DEADLOCK FALSE
CONSTANTS
  Sizes = {4}
  FrameCounts = {1}
  Layers = {"d1"}
  Minors = {2, 3, 4, 5}
  Fmts = {"RGBA8888"}
  Lows = {"NONE", "IA88"}
  ResKinds = {"inline", "inline2", "data", "data0"}
  MaxRes = 2
  Access = FALSE
  Fills = {"l0"}
  History = FALSE
  MaxOps = 0
  Thumbs = {"t16"}
