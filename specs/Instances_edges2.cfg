SPECIFICATION Spec
CONSTANTS
  NF = 2
  SlotsOf <- Slots22
  MainSlots = 2
  Limit = 2
  Share = FALSE
INVARIANT OrderIndependent
INVARIANT ErrorOnlyWhenDeep
INVARIANT DoneIsFlat
INVARIANT RoundsBounded
INVARIANT RecurCount
INVARIANT CacheOK
PROPERTY TemplateFrozen
PROPERTY Decreases
ACTION_CONSTRAINT Emit
VIEW View
CHECK_DEADLOCK FALSE
