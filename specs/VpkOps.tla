------------------------------- MODULE VpkOps -------------------------------
(* Pure operators of the VPK archive design (srctools.vpk.VPK / FileInfo).       *)
(*                                                                              *)
(* Byte strings are abstract: a content is an id c >= 1 with size sz[c] >= 1;    *)
(* id 0 is the empty string; Garbage (-1) is any byte string that is not one of  *)
(* the known contents.  A stretch of bytes is a segment [c, lo, n] = bytes        *)
(* lo .. lo+n-1 of content c; files (numbered archives, the data after the       *)
(* directory tree in the _dir file) are sequences of segments.                   *)
(*                                                                              *)
(* state s = [sz, limit, fname, single, mode, tree, foot, arch, disk, want,       *)
(*            wantDisk]                                                          *)
(*   limit     dir_data_limit (None = -1)                                        *)
(*   fname     the name of the archive file; single = ~IsDirName(fname): only a  *)
(*             name that ends in "_dir.vpk" (exactly, lower case) is a directory  *)
(*             archive, whose numbered archive i is the file ArchName(fname, i)   *)
(*   mode      "none" (no object yet) | "r" | "w" | "a"                          *)
(*   tree      name -> entry [c, plen, pc, idx, off, len]                        *)
(*               c     content whose CRC is stored                               *)
(*               plen  preload length, pc = content whose first plen bytes they  *)
(*                     are (0 when plen = 0)                                     *)
(*               idx   archive index (None = -1: the _dir file), off, len: where *)
(*                     the remaining len bytes are (idx = None, off = 0 when     *)
(*                     len = 0)                                                  *)
(*   foot      the data kept after the tree of the _dir file (in memory)         *)
(*   arch      arch[i+1] = numbered archive i (on disk, append-only)             *)
(*   disk      the _dir file: [st, tree, foot], st = missing | empty | ok | junk *)
(*   want      ghost: name -> content last written through this object           *)
(*   wantDisk  ghost: what the _dir file was last asked to hold                  *)
EXTENDS Integers, Sequences, FiniteSets, SequencesExt

None == 0 - 1
Garbage == 0 - 1
PreMax == 65535                 \* the preload length field has 16 bits
VMin(a, b) == IF a < b THEN a ELSE b

Size(sz, c) == IF c = 0 THEN 0 ELSE sz[c]

(* ---- archive file names -------------------------------------------------------------- *)
DirSuffix == "_dir.vpk"
IsDirName(f) == Len(f) >= Len(DirSuffix) /\ SubSeq(f, Len(f) - Len(DirSuffix) + 1, Len(f)) = DirSuffix
\* what precedes "_dir.vpk" - possibly nothing at all
Prefix(f) == SubSeq(f, 1, Len(f) - Len(DirSuffix))
Digit(d) == SubSeq("0123456789", d + 1, d + 1)
Pad3(i) == Digit((i \div 100) % 10) \o Digit((i \div 10) % 10) \o Digit(i % 10)
\* the file that holds numbered archive i (i < 1000) of the directory archive named f
ArchName(f, i) == Prefix(f) \o "_" \o Pad3(i) \o ".vpk"
Seg(c, lo, n) == [c |-> c, lo |-> lo, n |-> n]
BytesLen(q) == FoldLeft(LAMBDA a, g : a + g.n, 0, q)
\* the segment of q that starts at byte offset off and has n bytes (<<>> if there is none)
FindSeg(q, off, n) ==
    FoldLeft(LAMBDA a, g : [pos |-> a.pos + g.n,
                            hit |-> IF a.pos = off /\ g.n = n /\ a.hit = <<>> THEN <<g>> ELSE a.hit],
             [pos |-> 0, hit |-> <<>>], q).hit

NoEntry == [c |-> 0, plen |-> 0, pc |-> 0, idx |-> None, off |-> 0, len |-> 0]
Put(f, k, v) == [x \in DOMAIN f \cup {k} |-> IF x = k THEN v ELSE f[x]]
Drop(f, k) == [x \in DOMAIN f \ {k} |-> f[x]]
Empty == [x \in {} |-> 0]

\* where an entry's tail lives
Source(e, foot, arch) == IF e.idx = None THEN foot
                         ELSE IF e.idx + 1 \in DOMAIN arch THEN arch[e.idx + 1] ELSE <<>>
\* the content an entry reads back as (Garbage if the pieces do not make up a known content)
\* (a tail that starts at or beyond the end of its file reads as nothing: Python slices and short reads)
Assembled(sz, e, src) ==
    LET ln == IF e.len > 0 /\ e.off >= BytesLen(src) THEN 0 ELSE e.len
        tail == IF ln = 0 THEN <<>> ELSE FindSeg(src, e.off, ln) IN
    IF ln > 0 /\ tail = <<>> THEN Garbage
    ELSE IF e.plen = 0 /\ ln = 0 THEN 0
    ELSE IF e.plen = 0 THEN
         (IF tail[1].c > 0 /\ tail[1].lo = 0 /\ tail[1].n = Size(sz, tail[1].c) THEN tail[1].c ELSE Garbage)
    ELSE IF e.pc < 1 THEN Garbage
    ELSE IF ln = 0 THEN (IF e.plen = Size(sz, e.pc) THEN e.pc ELSE Garbage)
    ELSE IF tail[1].c = e.pc /\ tail[1].lo = e.plen /\ e.plen + ln = Size(sz, e.pc) THEN e.pc
    ELSE Garbage
Read(s, n) == Assembled(s.sz, s.tree[n], Source(s.tree[n], s.foot, s.arch))
Verify(s, n) == Read(s, n) # Garbage /\ Read(s, n) = s.tree[n].c
DiskRead(s, n) == Assembled(s.sz, s.disk.tree[n], Source(s.disk.tree[n], s.disk.foot, s.arch))

Res(s, r) == [s |-> s, res |-> r]

(* ---- placement: how many bytes of a content go into the directory entry --------- *)
\* (WriteEntry below is ONE placement in which the property holds - append, never move - used by the
\* model; the real code is not held to its offsets or layout: VpkTrace judges what a reader recovers)
Cut(s, c) == LET want == IF s.single \/ s.limit = None THEN Size(s.sz, c)
                         ELSE VMin(s.limit, Size(s.sz, c))
             IN VMin(want, PreMax)

(* ---- FileInfo.write --------------------------------------------------------------- *)
WriteEntry(s, n, c, a) ==
    IF s.mode = "r" THEN Res(s, "ValueError")
    ELSE IF s.tree[n].c = c THEN Res(s, "ok")           \* same checksum: nothing is done
    ELSE LET cut == Cut(s, c)
             rest == Size(s.sz, c) - cut
             dst == IF s.single \/ s.limit = None THEN None ELSE a   \* single file or no limit: everything stays in the directory file
             pcv == IF cut = 0 THEN 0 ELSE c
         IN IF rest = 0 THEN
                Res([s EXCEPT !.tree = Put(@, n, [c |-> c, plen |-> cut, pc |-> pcv, idx |-> None, off |-> 0, len |-> 0]),
                              !.want = Put(@, n, c)], "ok")
            ELSE IF dst = None THEN
                Res([s EXCEPT !.tree = Put(@, n, [c |-> c, plen |-> cut, pc |-> pcv, idx |-> None,
                                                   off |-> BytesLen(s.foot), len |-> rest]),
                              !.foot = Append(@, Seg(c, cut, rest)),
                              !.want = Put(@, n, c)], "ok")
            ELSE
                Res([s EXCEPT !.tree = Put(@, n, [c |-> c, plen |-> cut, pc |-> pcv, idx |-> dst,
                                                   off |-> BytesLen(s.arch[dst + 1]), len |-> rest]),
                              !.arch[dst + 1] = Append(@, Seg(c, cut, rest)),
                              !.want = Put(@, n, c)], "ok")

NewFile(s, n) ==
    IF s.mode = "r" THEN Res(s, "ValueError")
    ELSE IF n \in DOMAIN s.tree THEN Res(s, "FileExistsError")
    ELSE Res([s EXCEPT !.tree = Put(@, n, NoEntry), !.want = Put(@, n, 0)], "ok")

AddFile(s, n, c, a) ==
    LET r == NewFile(s, n) IN IF r.res # "ok" THEN r ELSE WriteEntry(r.s, n, c, a)

\* vpk[name].write(...)
Write(s, n, c, a) ==
    IF n \notin DOMAIN s.tree THEN Res(s, "KeyError") ELSE WriteEntry(s, n, c, a)

Del(s, n) ==
    IF s.mode = "r" THEN Res(s, "ValueError")
    ELSE IF n \notin DOMAIN s.tree THEN Res(s, "KeyError")
    ELSE Res([s EXCEPT !.tree = Drop(@, n), !.want = Drop(@, n)], "ok")

WriteDir(s) ==
    IF s.mode = "r" THEN Res(s, "ValueError")
    ELSE Res([s EXCEPT !.disk = [st |-> "ok", tree |-> s.tree, foot |-> s.foot], !.wantDisk = s.want], "ok")

Blank(s, m) == [s EXCEPT !.mode = m, !.tree = Empty, !.foot = <<>>, !.want = Empty, !.wantDisk = Empty,
                         !.disk = [st |-> "empty", tree |-> Empty, foot |-> <<>>]]
\* VPK(path, mode=m): a new object replaces the old one (which stays if the constructor fails)
Reopen(s, m) ==
    IF m = "w" THEN Res(Blank(s, "w"), "ok")
    ELSE IF s.disk.st = "missing" THEN (IF m = "a" THEN Res(Blank(s, "a"), "ok") ELSE Res(s, "error"))
    ELSE IF s.disk.st # "ok" THEN Res(s, "error")
    ELSE Res([s EXCEPT !.mode = m, !.tree = s.disk.tree, !.foot = s.disk.foot, !.want = s.wantDisk], "ok")

(* ---- the listed property --------------------------------------------------------- *)
\* every file reads back what was last written to it and passes the checksum; exactly the wanted names
ReadBackOK(s) == /\ DOMAIN s.tree = DOMAIN s.want
                 /\ \A n \in DOMAIN s.tree : Read(s, n) = s.want[n] /\ Verify(s, n)
\* the same for what a fresh reader of the _dir file would see
DiskOK(s) == s.disk.st = "ok" =>
                 /\ DOMAIN s.disk.tree = DOMAIN s.wantDisk
                 /\ \A n \in DOMAIN s.disk.tree :
                        DiskRead(s, n) = s.wantDisk[n] /\ s.disk.tree[n].c = s.wantDisk[n]
PreloadFits(s) == \A n \in DOMAIN s.tree : s.tree[n].plen <= PreMax
IsPrefixSeq(p, q) == Len(p) <= Len(q) /\ SubSeq(q, 1, Len(p)) = p
AppendOnly(s, t) == \A i \in DOMAIN s.arch : IsPrefixSeq(s.arch[i], t.arch[i])
=============================================================================
