SPECIFICATION Spec
CONSTANTS
  Obj = {"o1", "o2", "o3"}
  Maps = {"m1", "m2"}
  MaxId = 3
  InitMan <- IdInit
  WithObj = FALSE
  WithFix = TRUE
INVARIANT Unique
INVARIANT Positive
INVARIANT FixUnique
INVARIANT Hint
INVARIANT UsedIsLive
INVARIANT FixDense
PROPERTY Stable
VIEW View
CHECK_DEADLOCK FALSE
