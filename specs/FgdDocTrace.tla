----------------------------- MODULE FgdDocTrace -----------------------------
(* Validates records logged from the real FGD writer/reader against FgdDocOps. *)
(* Each record is judged on its own; every failing clause is printed (one JSON *)
(* line each), never fatal.                                                    *)
(*   ent   a definition (projection orig) exported with options opts: the text *)
(*         (lines) must be exactly ExportLines, parsing it must succeed and    *)
(*         give exactly ExportParse, and the second export must equal the      *)
(*         first (hashes h1, h2) where the definition is re-exportable         *)
(*   long  _write_longstring on a text: the sections must be LongSections, and *)
(*         both the specification's reader and the real parser must read the   *)
(*         text back                                                           *)
(*   bin   a definition stored in the binary database and loaded again must be *)
(*         BinDecay of the original                                            *)
(*   file  steps of the whole bundled database as one file: entity order       *)
(*         (bases first, each batch sorted by class name), the file being the  *)
(*         concatenation of the entity parts, parse, and the generations       *)
(*         text1/text2/text3                                                   *)
EXTENDS FgdDocOps, Json, IOUtils

Recs == ndJsonDeserialize(IOEnv.TRACE_FILE)
N == Len(Recs)
VARIABLE i

\* (expected values as JSON text, so that all failure records are comparable)
F(c, e) == [clause |-> c, exp |-> ToJson(e)]

(* ---- text ---------------------------------------------------------------- *)
TextFails(r, want) ==
    IF Len(r.lines) = Len(want)
    THEN {F("doc.text", [line |-> k, text |-> want[k]]) : k \in {k \in 1..Len(want) : r.lines[k] # want[k]}}
    ELSE LET m == IF Len(r.lines) < Len(want) THEN Len(r.lines) ELSE Len(want)
             d == {k \in 1..m : r.lines[k] # want[k]}
             k == IF d = {} THEN m + 1 ELSE CHOOSE x \in d : \A y \in d : x <= y
         IN  {F("doc.text", [line |-> k, text |-> IF k <= Len(want) THEN want[k] ELSE "<end>"])}

(* ---- parsed definition --------------------------------------------------- *)
ItemFields(kind) == IF kind = "kv" THEN {"key", "name", "tags", "type", "custom", "disp", "def", "desc", "ro", "rep", "list"}
                    ELSE {"key", "name", "tags", "type", "custom", "desc"}
\* Items are matched by (key, tags): the order in which the writer lists keyvalues, inputs and
\* outputs is its own business (the second export being the first is checked on the real text).
\* `alt` is the acceptable alternative reading (same items, same positions as `want`).
Id(x) == <<x.key, x.tags>>
ItemFails(kind, got, want, alt) ==
    IF Len(got) # Len(want) \/ {Id(got[k]) : k \in 1..Len(got)} # {Id(want[k]) : k \in 1..Len(want)}
       \/ Cardinality({Id(got[k]) : k \in 1..Len(got)}) # Len(got)
    THEN {F("doc.parsed." \o kind \o ".count", [k \in 1..Len(want) |-> Id(want[k])])}
    ELSE UNION {LET g == got[CHOOSE j \in 1..Len(got) : Id(got[j]) = Id(want[k])] IN
                {F("doc.parsed." \o kind \o "." \o f, [index |-> k, value |-> want[k][f]]) :
                    f \in {f \in ItemFields(kind) : g[f] # want[k][f] /\ g[f] # alt[k][f]}} : k \in 1..Len(want)}
\* A helper comes back with its arguments if the text form can carry them (ArgsCarried); where
\* it cannot (a lone empty argument, blanks around one) an unknown helper comes back with what
\* the text form makes of them, and of a typed helper only the kind is demanded.
HelperFails(got, want) ==
    IF Len(got) # Len(want) THEN {F("doc.parsed.helpers.count", Len(want))}
    ELSE {F("doc.parsed.helpers", [index |-> k, n |-> want[k].n, a |-> ReadArgs(want[k].a)]) :
            k \in {k \in 1..Len(want) :
                    \/ got[k].n # want[k].n \/ got[k].known # want[k].known
                    \/ IF ArgsCarried(want[k].a) THEN got[k].a # want[k].a \/ got[k].v # want[k].v
                       ELSE ~want[k].known /\ got[k].a # ReadArgs(want[k].a)}}
ParsedFails2(got, want, alt) ==
    UNION {{F("doc.parsed." \o f, want[f]) :
                f \in {f \in {"cls", "kind", "alias", "bases", "desc", "res_set", "res"} : got[f] # want[f]}},
           HelperFails(got.helpers, want.helpers),
           ItemFails("kv", got.kvs, want.kvs, alt.kvs), ItemFails("in", got.ins, want.ins, alt.ins),
           ItemFails("out", got.outs, want.outs, alt.outs)}
ParsedFails(got, want) == ParsedFails2(got, want, want)

\* where the written text first departs from the model's text: only to help reading a report,
\* never a mismatch by itself (quoting, ordering and layout are the writer's)
Near(r, want) ==
    LET m == IF Len(r.lines) < Len(want) THEN Len(r.lines) ELSE Len(want)
        d == {k \in 1..m : r.lines[k] # want[k]}
    IN  IF d = {} THEN [line |-> 0, model |-> ""] ELSE LET k == CHOOSE x \in d : \A y \in d : x <= y IN [line |-> k, model |-> want[k]]

EntFails(r) ==
    LET cs == r.opts.cs  ls == r.opts.ls IN
    IF Len(r.err) >= 6 /\ SubSeq(r.err, 1, 6) = "export" THEN {F("doc.export", "no error")} ELSE
    \* the original syntax cannot express a backslash: such definitions are outside what
    \* custom_syntax=False is asked to bring back
    \* ... but whatever it writes, its own reader must accept
    IF ~cs /\ ~PlainSafe(r.orig)
    THEN (IF r.err # "" THEN {F("doc.parse", [want |-> "no error", near |-> Near(r, ExportLines(r.orig, cs, ls))])} ELSE {}) ELSE
    UNION {
        IF r.err # "" THEN {F("doc.parse", [want |-> "no error", near |-> Near(r, ExportLines(r.orig, cs, ls))])}
        ELSE ParsedFails2(r.parsed, ExportParse(r.orig, cs, ls), ExportParseAlt(r.orig, cs, ls)),
        \* the real writer's two outputs
        IF r.err = "" /\ ReExportable(r.orig, cs) /\ r.h1 # r.h2 THEN {F("doc.reexport", r.h1)} ELSE {}}

(* ---- long strings -------------------------------------------------------- *)
LongFails(r) ==
    \* (where the writer cuts is its own choice; what counts is that every piece is a well-formed
    \* quoted string and that the pieces read back as the text)
    LET expect == IF r.ext THEN r.text ELSE PlainDecay(r.text)
    IN  UNION {
        IF \E k \in 1..Len(r.secs) : ~WellFormedSection(r.secs[k]) THEN {F("long.wellformed", TRUE)} ELSE {},
        IF (\A k \in 1..Len(r.secs) : WellFormedSection(r.secs[k])) /\ ReadSections(r.secs) # expect
            THEN {F("long.law", Len(expect))} ELSE {},
        IF r.err # "" THEN {F("long.parse", "no error")}
        ELSE IF r.back # expect THEN {F("long.readback", Len(expect))} ELSE {}}

(* ---- binary -------------------------------------------------------------- *)
BinFails(r) ==
    IF ~BinRepresentable(r.orig) THEN (IF r.err = "" THEN {F("bin.refuses", "ValueError")} ELSE {})
    ELSE IF r.err # "" THEN {F("bin.raises", "no error")}
    ELSE ParsedFails(r.got, BinDecay(r.orig, r.root))

(* ---- whole-file export --------------------------------------------------- *)
\* every definition is written exactly once (in which order, and with what between them, is
\* the writer's choice: that the file can be read back is checked by reading it)
OrderFails(r) ==
    LET o == r.order  n == Len(o) IN
    IF Cardinality({o[k].cls : k \in 1..n}) # n \/ n # r.count THEN {F("file.order.complete", r.count)} ELSE {}
\* text1 -> parse -> text2 -> parse -> text3.  mode "default": bases are resolved while
\* reading (FGD.parse's default); mode "names": eval_bases=False, bases stay class names.
\* Whatever the mode: the second export must be the first, it must be readable the default
\* way, from the second generation on the text is a fixed point, and the entity blocks of
\* the two texts are the same multiset (so a pure reordering is told apart from a change
\* of content).
BagOf(q) == [h \in {q[k] : k \in 1..Len(q)} |-> Cardinality({k \in 1..Len(q) : q[k] = h})]
GenFails(r) ==
    LET pre == IF r.mode = "default" THEN "file.reexport" ELSE "file.names" IN
    IF r.err # "" THEN {F(pre \o ".error", "no error")}
    ELSE UNION {
        IF r.h2 # r.h1 THEN {F(pre \o ".same", r.h1)} ELSE {},
        IF r.default_parse # "" THEN {F(pre \o ".readable", "no error")} ELSE {},
        IF r.h3 # r.h2 THEN {F(pre \o ".fixpoint", r.h2)} ELSE {},
        IF BagOf(r.blocks2) # BagOf(r.blocks1) THEN {F(pre \o ".blocks", Len(r.blocks1))} ELSE {}}
FileFails(r) ==
    CASE r.step = "order" -> OrderFails(r)
      [] r.step = "parse" -> IF r.err # "" THEN {F("file.parse", "no error")}
                             ELSE IF r.count # r.want THEN {F("file.count", r.want)} ELSE {}
      [] r.step = "generations" -> GenFails(r)
      [] r.step = "load" -> IF r.count # r.want THEN {F("file.load", r.want)} ELSE {}

\* every entity handed to serialise() is in the database that comes back
BinSetFails(r) ==
    IF r.err # "" THEN {F("bin.raises", "no error")}
    ELSE IF {r.got[k] : k \in 1..Len(r.got)} # {r.want[k] : k \in 1..Len(r.want)}
        THEN {F("bin.classes", {r.want[k] : k \in 1..Len(r.want)} \ {r.got[k] : k \in 1..Len(r.got)})} ELSE {}

Fails(r) == CASE r.k = "ent" -> EntFails(r)
              [] r.k = "binset" -> BinSetFails(r)
              [] r.k = "long" -> LongFails(r)
              [] r.k = "bin" -> BinFails(r)
              [] r.k = "file" -> FileFails(r)

Init == i = 0
Next == i < N /\ i' = i + 1
Checked == i = 0 \/ \A f \in Fails(Recs[i]) :
              PrintT(ToJson([tag |-> "MISMATCH", i |-> i, clause |-> f.clause, exp |-> f.exp]))
AllConsumed == TLCGet("stats").diameter = N + 1
=============================================================================
