---------------------------- MODULE DmxGraphTrace ----------------------------
(* Validates records logged from the real srctools.dmx code against           *)
(* DmxGraphOps.  Record kinds:                                                 *)
(*   build  one public mutator applied to real Elements: post = Op(pre, args)  *)
(*   rt     one graph exported in one encoding and parsed back; carries the    *)
(*          projection of the written bytes made by an independent reader of   *)
(*          the format (binary walker / text scanner) and the parsed graph     *)
(*   kv1    a Keyvalues tree through from_kv1 / to_kv1                         *)
(* A record is judged on its own; the first failing clause is printed.         *)
EXTENDS DmxGraphOps, Json, IOUtils

Recs == ndJsonDeserialize(IOEnv.TRACE_FILE)
N == Len(Recs)
VARIABLE i

Bad(c, e) == [ok |-> FALSE, clause |-> c, exp |-> e]
Good == [ok |-> TRUE, clause |-> "", exp |-> 0]

\* --- builder steps
BuildStep(r) ==
    LET a == r.a pre == r.pre
        e == CASE a.op = "scalar_ref" -> BAddScalarRef(pre, a.e, a.n, a.r)
               [] a.op = "ref_array" -> BAddArray(pre, a.e, a.n, ELEMENT)
               [] a.op = "append_ref" -> BAppend(pre, a.e, a.j, a.r)
               [] a.op = "value" -> NewAttr(pre, a.e, [n |-> a.n, t |-> a.t, arr |-> a.arr, v |-> a.v])
               [] a.op = "place" -> BPlace(pre, a.place, a.c, a.nn)
               [] a.op = "nameplace" -> BNamePlace(pre, a.place, a.nn)
    IN IF r.post = e THEN Good ELSE Bad("build.state", e)

\* --- the written bytes, binary
CodesOf(x) == [p \in 1..Len(x) |-> [q \in 1..Len(x[p]) |-> x[p][q].code]]
\* The written bytes are judged as a reader of the format finds them: well formed (valid type
\* bytes, counts, element indexes, one entry per UUID) and holding exactly the graph - root first,
\* every reachable element once, each with its type, name and attributes in order, references by
\* index resolving to the right element.  In which order the writer lists the other elements and
\* what else it puts into the string table is its own choice.
BinVerdict(r, g) ==
    LET f == r.file
    IN IF f.err # "" THEN Bad("bin.walk", f.err)
       ELSE IF ~BinFileOK(f) THEN Bad("bin.wellformed", 0)
       ELSE IF ParseBin(f) # Restrict(g) THEN Bad("bin.graph", Restrict(g))
       ELSE Good
\* --- the written text: which elements stand at top level, how many carry an "id" line and how the
\* text is laid out are the writer's choices; the text is judged by the graph the parser recovers
\* (RtStep) and by its stability under re-export
KvVerdict(r, g) == Good

RtStep(r) ==
    LET g == r.g
        enc == r.enc
        can == CanExpress(enc, r.uni, g, SeqSet(r.na))
    IN IF ~WellFormed(g) \/ ~ValidListing(g, Listing(g)) THEN Bad("rt.input", 0)
       ELSE IF ~can THEN (IF r.exp = "ok" THEN Bad("rt.mustraise", "raise") ELSE Good)
       ELSE IF r.exp # "ok" THEN Bad("rt.export", "ok")
       ELSE LET fv == IF enc.kind = "bin" THEN BinVerdict(r, g) ELSE KvVerdict(r, g) IN
            IF ~fv.ok THEN fv
            ELSE IF r.parse # "ok" THEN Bad("rt.parse", "ok")
            ELSE IF enc.kind = "bin" /\ r.out # ParseBin(r.file) THEN Bad("bin.parse", ParseBin(r.file))
            ELSE IF Iso(g, r.out, Keep(enc, g)) THEN (IF r.restable THEN Good ELSE Bad("rt.restable", TRUE))
            ELSE IF IsoGen(g, r.out, Keep(enc, g), TRUE) THEN Bad("rt.iso.stub", StubsOf(g))
            ELSE Bad("rt.iso", Restrict(g))

\* --- KeyValues1 bridge
\* the property fixes the round trip only; how from_kv1 arranges the tree as elements (inline
\* attributes or a subkeys array) is its own choice, of which DmxGraphOps!FromKv1 is one that works
Kv1Step(r) ==
    IF r.exc # "" THEN Bad("kv1.raised", r.exc)
    ELSE IF r.back # r.t THEN Bad("kv1.roundtrip", r.t)
    ELSE Good

Verdict(r) == CASE r.k = "build" -> BuildStep(r)
                [] r.k = "rt" -> RtStep(r)
                [] r.k = "kv1" -> Kv1Step(r)

Init == i = 0
Next == i < N /\ i' = i + 1
Checked == i = 0 \/ LET v == Verdict(Recs[i]) IN
              v.ok \/ PrintT(ToJson([tag |-> "MISMATCH", i |-> i, clause |-> v.clause, exp |-> v.exp]))
AllConsumed == TLCGet("stats").diameter = N + 1
=============================================================================
