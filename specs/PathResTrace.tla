---------------------------- MODULE PathResTrace ----------------------------
(* Validates records logged from the real RawFileSystem / FileSystemChain /     *)
(* packlist.unify_path against PathResOps.  One record = one input with the      *)
(* outcome of every kind of access.  Mismatches are printed, never fatal.        *)
EXTENDS PathResOps, TLC, Json, IOUtils

CONSTANTS Alphabet, MaxLen, UAlphabet

Recs == ndJsonDeserialize(IOEnv.TRACE_FILE)
N == Len(Recs)
VARIABLE i

ToSet(q) == {q[k] : k \in 1..Len(q)}
TokOf(j) == [s |-> j[1], c |-> j[2]]
ToksOf(q) == [k \in 1..Len(q) |-> TokOf(q[k])]

\* Outcome classes.  The statement fixes one error type only: RootEscapeError = refused.  Any
\* operating-system error (the driver logs "OSError" for every subclass) means "no such file".
NoFileExc == {"OSError"}
Tags(o) == {o.files[k][2] : k \in 1..Len(o.files)}
Reals(o) == {o.files[k][1] : k \in 1..Len(o.files)} \ {""}
ClassOpen(o) == IF o.e = "RootEscapeError" THEN "escape"
                ELSE IF o.e \in NoFileExc THEN "nofile"
                ELSE IF o.e = "" THEN "file" ELSE "other:" \o o.e
ClassHas(o) == IF o.e = "RootEscapeError" THEN "escape"
               ELSE IF o.e \in NoFileExc THEN "nofile"
               ELSE IF o.e # "" THEN "other:" \o o.e
               ELSE IF o.v THEN "file" ELSE "nofile"
\* walking something that is no folder may list nothing or say so with an OS error
ClassWalk(o) == IF o.e = "RootEscapeError" THEN "escape"
                ELSE IF o.e \in NoFileExc THEN "list"
                ELSE IF o.e # "" THEN "other:" \o o.e
                ELSE IF o.trunc THEN "runaway" ELSE "list"
SpecTags(o) == {f.tag : f \in o.files}
Show(b, o) == [k |-> o.k, files |-> SpecTags(o)]
\* which file was reached is told by its content tag (every file of the world has its own)
Same(class, tags, o) == class = o.k /\ tags = SpecTags(o)
\* The property forbids reaching outside; it does not forbid refusing a name that stays inside.
Refused(class, o) == o.k # "escape" /\ class = "escape"

XOf(r) == [base |-> r.b, root |-> RootGiven(r.cfg.form, r.b), chain |-> r.cfg.chain, pfx |-> r.pfx, toks |-> ToksOf(r.toks)]

\* the world's files inside the root, stated without any path resolution
InsideReals(base) == {RelStr(base, f.loc) : f \in {g \in WorldFiles(base) : g.tag \in InsideTags}}
AllTags(r) == Tags(r.get) \cup Tags(r.ob) \cup Tags(r.os) \cup Tags(r.walk)
AllReals(r) == Reals(r.get) \cup Reals(r.ob) \cup Reals(r.os) \cup Reals(r.walk)

\* each clause: <<name, holds, expected>>
ResClauses(r) ==
    LET x == XOf(r) oo == OpenOutcome(x) go == GetOutcome(x) wo == WalkOutcome(x) b == r.b IN
    << <<"input.text", PathStr(x.toks) = r.str /\ LocStr(x.root) = r.rootstr, PathStr(x.toks)>>,
       <<"input.domain",
           r.src = "exh" =>
              /\ ToSet(r.body) \subseteq Alphabet /\ Len(r.body) <= MaxLen
              /\ (r.cfg.pre # "rel" => Len(r.body) >= 1)
              /\ x.toks = Tokens(r.cfg, r.body, r.b)
              /\ r.pfx = <<"sub">>, "in family">>,
       \* a name that leaves the root is refused; a name that stays inside reaches exactly the file
       \* at that location (or none), or is refused
       <<"has.outcome", ClassHas(r.has) = oo.k \/ Refused(ClassHas(r.has), oo), Show(b, oo)>>,
       \* fs[name] then File.open: the File may carry the caller's spelling with backslashes
       \* rewritten (resolved again, under the same containment rule) or the resolved location
       <<"get.outcome", \/ Same(ClassOpen(r.get), Tags(r.get), oo) \/ Same(ClassOpen(r.get), Tags(r.get), go)
                        \/ Refused(ClassOpen(r.get), oo), Show(b, oo)>>,
       <<"ob.outcome", Same(ClassOpen(r.ob), Tags(r.ob), oo) \/ Refused(ClassOpen(r.ob), oo), Show(b, oo)>>,
       <<"os.outcome", Same(ClassOpen(r.os), Tags(r.os), oo) \/ Refused(ClassOpen(r.os), oo), Show(b, oo)>>,
       <<"walk.outcome", Same(ClassWalk(r.walk), Tags(r.walk), wo) \/ Refused(ClassWalk(r.walk), wo), Show(b, wo)>>,
       \* independent of the resolution above: nothing that was read lies outside the root
       <<"contain", AllTags(r) \subseteq InsideTags /\ AllReals(r) \subseteq InsideReals(r.b),
                    "only files inside the root">> >>

\* ---- unify_path
UnifyClauses(r) ==
    LET toks == ToksOf(r.toks) IN
    << <<"input.text", PathStr(toks) = r.str, PathStr(toks)>>,
       <<"input.domain", r.src = "exh" => ToSet(r.body) \subseteq UAlphabet /\ Len(r.body) <= MaxLen
                          /\ toks = Tokens(r.cfg, r.body, <<>>), "in family">>,
       \* the property: a path that climbs above the pack root is rejected (by whatever exception)
       <<"unify.rejects", UnifyClimbs(toks) => r.e # "", "rejected">>,
       \* ... and whatever is returned is not itself a climbing path
       <<"unify.result", r.e = "" => ~Climbs(r.rescomps), "a path below the pack root">> >>

Clauses(r) == CASE r.k = "res" -> ResClauses(r) [] r.k = "unify" -> UnifyClauses(r)

Init == i = 0
Next == i < N /\ i' = i + 1
Checked == i = 0 \/ LET cs == Clauses(Recs[i]) IN
              \A k \in 1..Len(cs) :
                 cs[k][2] \/ PrintT(ToJson([tag |-> "MISMATCH", i |-> i, clause |-> cs[k][1], exp |-> cs[k][3]]))
AllConsumed == TLCGet("stats").diameter = N + 1
=============================================================================
