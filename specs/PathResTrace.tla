---------------------------- MODULE PathResTrace ----------------------------
(* Validates records logged from the real RawFileSystem / FileSystemChain /     *)
(* packlist.unify_path against PathResOps.  One record = one input with the      *)
(* outcome of every kind of access.  Mismatches are printed, never fatal.        *)
EXTENDS PathResOps, TLC, Json, IOUtils

CONSTANTS Alphabet, MaxLen, UAlphabet

Recs == ndJsonDeserialize(IOEnv.TRACE_FILE)
N == Len(Recs)
VARIABLE i

ToSet(q) == {q[k] : k \in 1..Len(q)}
TokOf(j) == [s |-> j[1], c |-> j[2]]
ToksOf(q) == [k \in 1..Len(q) |-> TokOf(q[k])]

NoFileExc == {"FileNotFoundError", "IsADirectoryError", "NotADirectoryError"}
\* logged outcome -> the spec's shape; files as {<<location text, tag>>}
Pairs(o) == {<<o.files[k][1], o.files[k][2]>> : k \in 1..Len(o.files)}
ClassOpen(o) == IF o.e = "RootEscapeError" THEN "escape"
                ELSE IF o.e \in NoFileExc THEN "nofile"
                ELSE IF o.e = "" THEN "file" ELSE "other:" \o o.e
ClassHas(o) == IF o.e = "RootEscapeError" THEN "escape"
               ELSE IF o.e # "" THEN "other:" \o o.e
               ELSE IF o.v THEN "file" ELSE "nofile"
ClassWalk(o) == IF o.e = "RootEscapeError" THEN "escape"
                ELSE IF o.e # "" THEN "other:" \o o.e
                ELSE IF o.trunc THEN "runaway" ELSE "list"
SpecPairs(b, o) == {<<RelStr(b, f.loc), f.tag>> : f \in o.files}
Show(b, o) == [k |-> o.k, files |-> SpecPairs(b, o)]

XOf(r) == [base |-> r.b, root |-> RootGiven(r.cfg.form, r.b), chain |-> r.cfg.chain, pfx |-> r.pfx, toks |-> ToksOf(r.toks)]

\* the world's files inside the root, stated without any path resolution
InsidePairs(base) == {<<RelStr(base, f.loc), f.tag>> : f \in {g \in WorldFiles(base) : g.tag \in InsideTags}}
AllPairs(r) == Pairs(r.get) \cup Pairs(r.ob) \cup Pairs(r.os) \cup Pairs(r.walk)

\* each clause: <<name, holds, expected>>
ResClauses(r) ==
    LET x == XOf(r) oo == OpenOutcome(x) go == GetOutcome(x) wo == WalkOutcome(x) b == r.b IN
    << <<"input.text", PathStr(x.toks) = r.str /\ LocStr(x.root) = r.rootstr, PathStr(x.toks)>>,
       <<"input.domain",
           r.src = "exh" =>
              /\ ToSet(r.body) \subseteq Alphabet /\ Len(r.body) <= MaxLen
              /\ (r.cfg.pre # "rel" => Len(r.body) >= 1)
              /\ x.toks = Tokens(r.cfg, r.body, r.b)
              /\ r.pfx = <<"sub">>, "in family">>,
       <<"has.outcome", ClassHas(r.has) = oo.k, Show(b, oo)>>,
       <<"get.outcome", ClassOpen(r.get) = go.k /\ Pairs(r.get) = SpecPairs(b, go), Show(b, go)>>,
       <<"ob.outcome", ClassOpen(r.ob) = oo.k /\ Pairs(r.ob) = SpecPairs(b, oo), Show(b, oo)>>,
       <<"os.outcome", ClassOpen(r.os) = oo.k /\ Pairs(r.os) = SpecPairs(b, oo), Show(b, oo)>>,
       <<"walk.outcome", ClassWalk(r.walk) = wo.k /\ Pairs(r.walk) = SpecPairs(b, wo), Show(b, wo)>>,
       \* independent of the resolution above: nothing that was read lies outside the root
       <<"contain", AllPairs(r) \subseteq InsidePairs(r.b), "only files inside the root">> >>

\* ---- unify_path
FoldOf(r, c) == IF \E k \in 1..Len(r.fold) : r.fold[k][1] = c
                THEN r.fold[CHOOSE k \in 1..Len(r.fold) : r.fold[k][1] = c][2] ELSE c
AllFwdToks(toks) == \A k \in 1..Len(toks) : toks[k].s # BS
UnifyClauses(r) ==
    LET toks == ToksOf(r.toks)
        norm == UnifyNorm(toks)
        want == [k \in 1..Len(norm) |-> FoldOf(r, norm[k])]
    IN
    << <<"input.text", PathStr(toks) = r.str, PathStr(toks)>>,
       <<"input.domain", r.src = "exh" => ToSet(r.body) \subseteq UAlphabet /\ Len(r.body) <= MaxLen
                          /\ toks = Tokens(r.cfg, r.body, <<>>), "in family">>,
       \* the property: a path that climbs above the pack root is rejected
       <<"unify.rejects", UnifyClimbs(toks) => r.e = "ValueError", "ValueError">>,
       \* ... and whatever is returned is not itself a climbing path
       <<"unify.result", r.e = "" => ~Climbs(r.rescomps), "a path below the pack root">>,
       \* forward-slash inputs: exactly the folded normal form, and no spurious rejection
       <<"unify.normal", (AllFwdToks(toks) /\ ~UnifyClimbs(toks)) =>
                           (r.e = "" /\ NormalizeRel(r.rescomps) = want /\ (r.rescomps = want \/ r.rescomps = <<".">>)), want>> >>

Clauses(r) == CASE r.k = "res" -> ResClauses(r) [] r.k = "unify" -> UnifyClauses(r)

Init == i = 0
Next == i < N /\ i' = i + 1
Checked == i = 0 \/ LET cs == Clauses(Recs[i]) IN
              \A k \in 1..Len(cs) :
                 cs[k][2] \/ PrintT(ToJson([tag |-> "MISMATCH", i |-> i, clause |-> cs[k][1], exp |-> cs[k][3]]))
AllConsumed == TLCGet("stats").diameter = N + 1
=============================================================================
