SPECIFICATION Spec
CONSTANTS
  StartVecs <- VecsMc
  StartAngs <- AllP5
  RhsAngs <- RhsMc
  MaxLen = 0
  UseForms <- Forms
INVARIANT Proper
INVARIANT Convention
INVARIANT Assoc
INVARIANT RoundTrip
INVARIANT Stable
INVARIANT InvTranspose
INVARIANT TableSound
PROPERTY FrozenSafe
CHECK_DEADLOCK FALSE
