------------------------------ MODULE VtfLayout ------------------------------
(* C15: saving a VTF and reading it back reproduces the frame and mipmap       *)
(* structure, the header fields, resources and sheet data; pixel access is     *)
(* bounds-checked.  One action per public step: Create (the constructor),      *)
(* AddResource / AddSheet (the resources / sheet_info mappings), GetPixel /    *)
(* SetPixel (Frame.__getitem__ / __setitem__), Save, Read.                     *)
EXTENDS VtfLayoutOps, Json

CONSTANTS Sizes,      \* side lengths (powers of two)
          FrameCounts, Layers,   \* Layers: "d1", "d2", "d4" (depth) or "cube"
          Minors, Fmts, Lows,
          Thumbs,     \* sizes of the low-res image: "t16" 16x16 (what a new texture has), "t4" 4x4, "t2x1" 2x1
          ResKinds,   \* kinds of user resources that may be added
          MaxRes,
          Access,     \* explore pixel access on the built texture
          Fills,      \* how the pixels are provided (opaque to the layout; replayed by the driver)
          History,    \* explore what may be done with a texture that was read before it is saved again
          MaxOps      \* bound on those steps

VARIABLES v, phase, file, out, hs, act
vars == <<v, phase, file, out, hs>>
NoHist == [lv |-> <<>>, n |-> 0, file2 |-> <<>>, out2 |-> <<>>, th |-> "file", th2 |-> ""]

NoSheet == [has |-> FALSE, ver |-> 0, seqs |-> <<>>]
None == [w |-> 0]
\* the constructor: every level down to the first side of 1, and a header that says so
ThumbDim == [t16 |-> <<16, 16>>, t4 |-> <<4, 4>>, t2x1 |-> <<2, 1>>]
DepthOf == [d1 |-> 1, d2 |-> 2, d4 |-> 4, cube |-> 1]
New(w, h, n, lay, minor, f, low, fill, tn) ==
    [w |-> w, h |-> h, frames |-> n, depth |-> DepthOf[lay], cube |-> lay = "cube", fill |-> fill,
     minor |-> minor, fmt |-> f, low |-> low, lw |-> ThumbDim[tn][1], lh |-> ThumbDim[tn][2],
     mip |-> MipLevels(w, h), res |-> <<>>, sheet |-> NoSheet]
ResOf(kind, k) ==
    CASE kind = "inline" -> [id |-> IF k = 1 THEN "435243" ELSE "4c4f44", inline |-> TRUE, flags |-> 0, val |-> 305419896 - k, len |-> 0]
      [] kind = "inline2" -> [id |-> IF k = 1 THEN "54534f" ELSE "616263", inline |-> TRUE, flags |-> 2, val |-> k, len |-> 0]
      [] kind = "data" -> [id |-> IF k = 1 THEN "4b5644" ELSE "78797a", inline |-> FALSE, flags |-> 0, val |-> 0, len |-> 5 + k]
      [] kind = "data0" -> [id |-> IF k = 1 THEN "717171" ELSE "727272", inline |-> FALSE, flags |-> 2, val |-> 0, len |-> 0]

Init == v = None /\ phase = "new" /\ file = None /\ out = None /\ hs = NoHist /\ act = [op |-> "init"]

Create(w, h, n, lay, minor, f, low, fill, tn) ==
    /\ phase = "new" /\ phase' = "built"
    /\ (low = "NONE" => tn = "t16")          \* without a thumbnail its size does not matter
    /\ v' = New(w, h, n, lay, minor, f, low, fill, tn)
    /\ UNCHANGED <<file, out>>
    /\ act' = [op |-> "create", w |-> w, h |-> h, frames |-> n, lay |-> lay, minor |-> minor, fmt |-> f, low |-> low,
               fill |-> fill, lw |-> ThumbDim[tn][1], lh |-> ThumbDim[tn][2]]
AddResource(kind) ==
    /\ phase = "built" /\ Len(v.res) < MaxRes /\ ~v.sheet.has
    /\ v' = [v EXCEPT !.res = Append(@, ResOf(kind, Len(v.res) + 1))]
    /\ UNCHANGED <<phase, file, out>>
    /\ act' = [op |-> "resource", r |-> ResOf(kind, Len(v.res) + 1)]
AddSheet(ver) ==
    /\ phase = "built" /\ ~v.sheet.has /\ MaxRes > 0
    /\ v' = [v EXCEPT !.sheet = [has |-> TRUE, ver |-> ver, seqs |-> <<2, 0, 1>>]]
    /\ UNCHANGED <<phase, file, out>>
    /\ act' = [op |-> "sheet", ver |-> ver, seqs |-> <<2, 0, 1>>]
Coords(n) == {0 - 1, 0, n - 1, n, n + 1}
GetPixel(x, y) ==
    /\ phase = "built" /\ Access /\ UNCHANGED vars
    /\ act' = [op |-> "get", x |-> x, y |-> y, ok |-> InBounds(x, y, v.w, v.h)]
SetPixel(x, y) ==
    /\ phase = "built" /\ Access /\ UNCHANGED vars
    /\ act' = [op |-> "set", x |-> x, y |-> y, ok |-> InBounds(x, y, v.w, v.h)]
\* the file, abstractly: header with resource table, and where every image starts
Save ==
    /\ phase = "built" /\ phase' = "saved"
    /\ file' = [hdr |-> Header(v),
                offs |-> [k \in Keys(v, v.mip) |-> HiOff(v) + KeyOffset(v, v.mip, k)],
                c |-> v]
    /\ UNCHANGED <<v, out>>
    /\ act' = [op |-> "save"]
\* reading walks the images in disk order with a running offset
RECURSIVE Starts(_, _, _, _)
Starts(c, order, i, acc) == IF i > Len(order) THEN <<>>
                            ELSE <<acc>> \o Starts(c, order, i + 1, acc + KeySize(c, order[i]))
Read ==
    /\ phase = "saved" /\ phase' = "read"
    /\ out' = LET c == file.c
                  order == DiskOrder(c, file.hdr.mip)
                  base == IF HasTable(c) THEN file.hdr.entries[Len(UserRes(c)) + 2].data
                          ELSE file.hdr.hsize + LowSize(c)
              IN [c |-> ReadBack(c),
                  keys |-> {order[i] : i \in 1..Len(order)},
                  order |-> order,
                  starts |-> Starts(c, order, 1, base)]
    /\ UNCHANGED <<v, file>>
    /\ act' = [op |-> "read"]

(* ---- a texture that came from a file: load / look / compute / clear, then save and read again ---- *)
\* VTF.read leaves every frame lazy; none of these steps touches a pixel value
Reading == phase = "read" /\ History
More == hs.n < MaxOps
LoadFrames(sel) == /\ Reading /\ More /\ CanLoad(hs.lv, sel)
                   /\ hs' = [hs EXCEPT !.lv = HLoad(hs.lv, sel), !.n = @ + 1]
                   /\ act' = [op |-> "load", sel |-> sel]
LookAt(m) == /\ Reading /\ More /\ m < Len(hs.lv) /\ hs.lv[m + 1].st # "cleared"
             /\ hs' = [hs EXCEPT !.lv = HAccess(hs.lv, m, v.cube), !.n = @ + 1]
             /\ act' = [op |-> "look", m |-> m]
Poke(m) == /\ Reading /\ More /\ m < Len(hs.lv) /\ hs.lv[m + 1].st # "cleared"
           /\ hs' = [hs EXCEPT !.lv = HPoke(hs.lv, m, v.cube), !.n = @ + 1]
           /\ act' = [op |-> "poke", m |-> m]
Compute == /\ Reading /\ More
           /\ hs' = [hs EXCEPT !.lv = HCompute(hs.lv), !.n = @ + 1, !.th = TRegen(hs.th, v, HCompute(hs.lv))]
           /\ act' = [op |-> "compute"]
\* VTF.load(): every frame and the thumbnail are read into memory
LoadAll == /\ Reading /\ More /\ CanLoad(hs.lv, "all")
           /\ hs' = [hs EXCEPT !.lv = HLoad(hs.lv, "all"), !.n = @ + 1, !.th = IF @ = "file" THEN "mem" ELSE @]
           /\ act' = [op |-> "loadall"]
Clear(after) == /\ Reading /\ More /\ after < Len(hs.lv)
                /\ hs' = [hs EXCEPT !.lv = HClear(hs.lv, after), !.n = @ + 1, !.th = "erased"]
                /\ act' = [op |-> "clear", after |-> after]
Resave == /\ Reading /\ phase' = "resaved"
          /\ hs' = [hs EXCEPT !.file2 = [j \in 1..Len(hs.lv) |-> Term(hs.lv, j - 1)],
                               !.th2 = IF v.low = "NONE" THEN "none" ELSE TFinal(TRegen(hs.th, v, HCompute(hs.lv)))]
          /\ act' = [op |-> "resave"]
Reread == /\ phase = "resaved" /\ phase' = "reread"
          /\ hs' = [hs EXCEPT !.out2 = hs.file2]
          /\ act' = [op |-> "reread"]

Next == \/ \E w \in Sizes, h \in Sizes, n \in FrameCounts, lay \in Layers, minor \in Minors, f \in Fmts, low \in Lows,
              fill \in Fills, tn \in Thumbs : Create(w, h, n, lay, minor, f, low, fill, tn) /\ UNCHANGED hs
        \/ ((\E kind \in ResKinds : AddResource(kind)) /\ UNCHANGED hs)
        \/ ((\E ver \in {0, 1} : AddSheet(ver)) /\ UNCHANGED hs)
        \/ (phase = "built" /\ Access /\ \E x \in Coords(v.w), y \in Coords(v.h) : GetPixel(x, y) \/ SetPixel(x, y))
        \/ (Save /\ UNCHANGED hs)
        \/ (Read /\ hs' = IF History THEN [NoHist EXCEPT !.lv = LvInit(v.mip)] ELSE NoHist)
        \/ ((\E sel \in {"top", "small", "all"} : LoadFrames(sel)) /\ UNCHANGED <<v, phase, file, out>>)
        \/ ((\E m \in 0..3 : LookAt(m)) /\ UNCHANGED <<v, phase, file, out>>)
        \/ ((\E m \in 0..3 : Poke(m)) /\ UNCHANGED <<v, phase, file, out>>)
        \/ (Compute /\ UNCHANGED <<v, phase, file, out>>)
        \/ (LoadAll /\ UNCHANGED <<v, phase, file, out>>)
        \/ ((\E a \in 0..1 : Clear(a)) /\ UNCHANGED <<v, phase, file, out>>)
        \/ (Resave /\ UNCHANGED <<v, file, out>>)
        \/ (Reread /\ UNCHANGED <<v, file, out>>)
Spec == Init /\ [][Next]_<<vars, act>>

(* ---- the listed property ---------------------------------------------------------- *)
Built == phase # "new"
\* the frame table has exactly frames * slices * declared-mipmaps images
TableSize == Built => Cardinality(Keys(v, v.mip)) = v.frames * Slices(v) * v.mip
\* the declared mipmap count is the number of levels, the last level has a side of 1
MipCount == Built => /\ v.mip = MipLevels(v.w, v.h)
                     /\ Min(MipDim(v.w, v.mip - 1), MipDim(v.h, v.mip - 1)) = 1
                     /\ \A m \in 0..(v.mip - 2) : Min(MipDim(v.w, m), MipDim(v.h, m)) > 1
\* the images partition the image block: disk order is a listing of the keys, every image
\* starts where the previous one ends, the last one ends at the end of the file
Partition ==
    phase \in {"saved", "read"} =>
        LET c == file.c
            order == DiskOrder(c, c.mip)
        IN /\ Len(order) = Cardinality(Keys(c, c.mip))
           /\ {order[i] : i \in 1..Len(order)} = Keys(c, c.mip)
           /\ file.offs[order[1]] = HiOff(c)
           /\ \A i \in 1..(Len(order) - 1) : file.offs[order[i + 1]] = file.offs[order[i]] + KeySize(c, order[i])
           /\ file.offs[order[Len(order)]] + KeySize(c, order[Len(order)]) = file.hdr.len
\* header, data blocks and images do not overlap and leave no gap
Blocks ==
    phase \in {"saved", "read"} =>
        LET c == file.c IN
        /\ HeaderSize(c) <= SheetOff(c) /\ SheetOff(c) <= LowOff(c) /\ LowOff(c) <= HiOff(c) /\ HiOff(c) <= FileLen(c)
        /\ \A i \in 1..Len(file.hdr.entries) : LET e == file.hdr.entries[i] IN
              Bit1(e.flags) = 0 => (e.data >= HeaderSize(c) /\ e.data <= FileLen(c))
\* reading the file gives the object back: same header fields, same keys at the same places
RoundTrip ==
    phase = "read" =>
        /\ out.c = ReadBack(v)
        /\ out.keys = Keys(v, v.mip)
        /\ Len(out.starts) = Len(out.order)
        /\ \A i \in 1..Len(out.order) : out.starts[i] = file.offs[out.order[i]]
\* from 7.3 on nothing of the resources is lost; before, there is nowhere to put them
Gate == phase = "read" => (v.minor >= 3 => (Len(out.c.res) = Len(v.res) /\ out.c.sheet = v.sheet))

\* what was stored is what is stored again: a level that was not erased holds the pixels of the
\* same level of the file, whatever was loaded or looked at in between; an erased level holds the
\* average of the level above it; and the second file has the structure of the first
Kept == phase = "reread" =>
          /\ Len(hs.out2) = v.mip
          /\ \A m \in 0..(v.mip - 1) :
                CASE hs.lv[m + 1].st = "file" -> hs.out2[m + 1] = [base |-> m, avgs |-> 0, ed |-> hs.lv[m + 1].ed]
                  [] hs.lv[m + 1].st = "gen" -> hs.out2[m + 1] = hs.lv[m + 1].t
                  [] OTHER -> hs.out2[m + 1] = [base |-> hs.out2[m].base, avgs |-> hs.out2[m].avgs + 1, ed |-> hs.out2[m].ed]
\* the thumbnail: while it is as read, the stored image is written again; without a level of twice
\* its size nothing regenerates it - it stays the stored image, or the blank one if it was erased
ThumbKept == (phase = "reread" /\ v.low # "NONE") =>
          /\ hs.th = "file" => hs.th2 = "stored"
          /\ ~HasMatch(v) => hs.th2 = (IF hs.th = "erased" THEN "blank" ELSE "stored")
          /\ hs.th2 = "avg" => HasMatch(v)
LazyUnobservable == phase \in {"resaved", "reread"} =>
          hs.file2 = [j \in 1..Len(hs.lv) |-> Term([q \in 1..Len(hs.lv) |-> [hs.lv[q] EXCEPT !.loaded = FALSE]], j - 1)]
Untouched == (phase = "reread" /\ \A j \in 1..Len(hs.lv) : hs.lv[j].st = "file" /\ ~hs.lv[j].ed) =>
          hs.out2 = [j \in 1..v.mip |-> [base |-> j - 1, avgs |-> 0, ed |-> FALSE]]

View == vars
\* the history family prints Read steps too (its paths go through them)
Emit == (act'.op = "read" /\ ~History) \/
        PrintT(ToJson([tag |-> "EDGE", s |-> [v |-> v, h |-> hs.lv, n |-> hs.n, ph |-> phase, th |-> hs.th], a |-> act',
                       t |-> [v |-> v', h |-> hs'.lv, n |-> hs'.n, ph |-> phase', th |-> hs'.th]]))
=============================================================================
